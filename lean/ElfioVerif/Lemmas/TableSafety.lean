/-
Helper lemmas of property C18: the query models of Model/TableQuery.lean (and the accessor models they
are built on) never fault on sections in the state the loader leaves them in — `Sec`: `get_data()`
settled, a resident buffer strictly longer than the section size — whatever the header fields and the
contents are.
-/
import ElfioVerif.Model.TableQuery
import ElfioVerif.Lemmas.Reloc
import ElfioVerif.Lemmas.SymbolsTie
import ElfioVerif.Lemmas.SymTie
namespace ElfioVerif
open Gen

/-! ### bridging lemmas for the generated expressions only the fixed walks of Model/TableQuery.lean use -/
namespace TQTie
theorem sysv_step_init : tq_sysv_step_init = 0 := rfl
theorem sysv_step_incr (s : BitVec 32) : tq_sysv_step_incr s = s + 1 := rfl
theorem hash_is_sysv (ty : BitVec 32) : tq_sym_hash_is_sysv ty = (ty == BitVec.ofNat 32 SHT_HASH) := rfl
theorem hash_is_gnu (ty : BitVec 32) :
    tq_sym_hash_is_gnu ty = (ty == BitVec.ofNat 32 SHT_GNU_HASH || ty == BitVec.ofNat 32 DT_GNU_HASH) := rfl
theorem linear_needed (b : Bool) : tq_sym_linear_needed b = !b := rfl
theorem gnu_is32 (c : Cls) : tq_sym_gnu_is32 (SymTab.clsByte c) = (c == .c32) := by cases c <;> decide
theorem gnuLookupT_dispatch (t : SymTab) :
    TQ.gnuLookupT (tq_sym_gnu_is32 (SymTab.clsByte t.cfg.cls)) t = TQ.gnuLookup t := by
  unfold TQ.gnuLookup SymTab.c32
  rw [gnu_is32]
theorem vr_i_init_eq : vr_i_init = 0 := rfl
theorem vd_i_init_eq : vd_i_init = 0 := rfl
theorem vr_pos_init_eq : tq_vr_pos_init = 0 := by decide
theorem vd_pos_init_eq : tq_vd_pos_init = 0 := by decide
theorem vr_i_incr_eq (i : BitVec 32) : vr_i_incr i = i + 1 := rfl
theorem vd_i_incr_eq (i : BitVec 32) : vd_i_incr i = i + 1 := rfl
end TQTie

/-- `sym_tie` plus the C18-only sites -/
macro "tq_tie" loc:(Lean.Parser.Tactic.location)? : tactic =>
  `(tactic| (sym_tie $[$loc]?; try simp only [TQTie.sysv_step_init, TQTie.sysv_step_incr, TQTie.hash_is_sysv,
      TQTie.hash_is_gnu] $[$loc]?))

namespace C18

/-- a section as `get_data()` leaves it in a loaded object: it is settled (a further `get_data()`
    changes nothing) and a resident buffer has room for `size` bytes and the terminator -/
structure Sec (b : SecBuf) : Prop where
  settled : (!b.isLoaded && b.canLoad) = false
  buf : ∀ d, b.data = some d → b.size.toNat < d.length

/-- a resident section is smaller than 4 GiB (what an input shorter than 4 GiB implies): the 32-bit
    counters of the GNU hash walk, of `swap_symbols` and of `arrange_local_symbols` then cannot wrap -/
def Small (b : SecBuf) : Prop := ∀ d, b.data = some d → b.size.toNat < 4294967296

/-- `Sec` for a pointer that may be null -/
def OSec (s : Option SecBuf) : Prop := ∀ b, s = some b → Sec b

theorem Sec.getData {b : SecBuf} (h : Sec b) : b.getData = b := by
  unfold SecBuf.getData
  rw [h.settled]; rfl

theorem Sec.secData {b : SecBuf} (h : Sec b) : secData b = b.data := by
  unfold ElfioVerif.secData; rw [h.getData]

/-- a checked read inside `[0, size]` of a resident settled section succeeds -/
theorem Sec.rd {b : SecBuf} (h : Sec b) {d : Bytes} (hd : b.data = some d) (site : String) (off len : Nat)
    (hr : off + len ≤ b.size.toNat + 1) : rdRange site (some d) off len = .ok (slice d off len) :=
  rdRange_some_ok (by have := h.buf d hd; omega)

theorem se2 : (BitVec.signExtend 64 2#32) = 2#64 := by decide
theorem se4 : (BitVec.signExtend 64 4#32) = 4#64 := by decide
theorem se8 : (BitVec.signExtend 64 8#32) = 8#64 := by decide
theorem se0 : (BitVec.signExtend 64 0#32) = 0#64 := by decide

/-! ### the string reader of the symbol accessor -/

theorem symGetString_total (s : Option SecBuf) (hs : OSec s) (idx : BitVec 32) :
    ∃ r, SymTab.getString s idx = .ok r := by
  cases s with
  | none => exact ⟨none, rfl⟩
  | some b =>
    have hb := hs b rfl
    unfold SymTab.getString
    simp only [hb.secData]
    by_cases h1 : str_get_oob idx b.size b.data.isNone = true
    · rw [if_pos h1]; exact ⟨_, rfl⟩
    rw [if_neg h1]
    by_cases h2 : symstr_get_underflow (symstr_get_remaining b.size idx) b.size = true
    · rw [if_pos h2]; exact ⟨_, rfl⟩
    rw [if_neg h2]
    cases hd : b.data with
    | none => exact ⟨_, rfl⟩
    | some d =>
      simp only
      have hlt := hb.buf d hd
      have hi : idx.toNat < b.size.toNat := by
        simp only [str_get_oob, hd, Option.isNone_some, Bool.or_false, BitVec.ule, BitVec.toNat_setWidth,
          decide_eq_true_eq, Nat.not_le, Nat.reducePow] at h1
        have := idx.isLt
        simp only [Nat.reducePow] at this
        rw [Nat.mod_eq_of_lt (by omega)] at h1
        exact h1
      have hrem : (symstr_get_remaining b.size idx).toNat = b.size.toNat - idx.toNat := by
        have h64 := b.size.isLt
        have h32 := idx.isLt
        simp only [Nat.reducePow] at h64 h32
        simp only [symstr_get_remaining, BitVec.toNat_sub, BitVec.toNat_setWidth, Nat.reducePow]
        rw [Nat.mod_eq_of_lt (a := idx.toNat) (by omega)]
        omega
      rw [hrem]
      cases hc : SymTab.cstr (slice d idx.toNat (b.size.toNat - idx.toNat)) with
      | some str => exact ⟨_, rfl⟩
      | none =>
        simp only
        have : ¬ (slice d idx.toNat (b.size.toNat - idx.toNat)).length < b.size.toNat - idx.toNat := by
          rw [slice_length]; omega
        rw [if_neg this]; exact ⟨_, rfl⟩

/-! ### `get_symbols_num`, `get_symbol(index)`, `generic_get_symbol_ptr` -/

/-- what the theorems need of a symbol accessor: every section it touches is `Sec` -/
structure TabOk (t : SymTab) : Prop where
  sym : Sec t.sym
  str : OSec t.str
  hash : OSec t.hash

theorem symSizeOf_pos (c : Cls) : 0 < SymTab.symSizeOf c := by cases c <;> decide

/-- `get_symbols_num()` never divides by zero; a non-zero count means the entry size holds a record
    and the count is `size / entsize` -/
theorem symbolsNum_spec (t : SymTab) :
    ∃ n, t.symbolsNum = .ok n ∧ n.toNat ≤ t.sym.size.toNat / t.sym.entSize.toNat ∧
      (n.toNat ≠ 0 → SymTab.symSizeOf t.cfg.cls ≤ t.sym.entSize.toNat) := by
  obtain ⟨⟨cls, enc⟩, sym, str, hash⟩ := t
  have key : ∀ minSz : BitVec 64, SymTab.symSizeOf cls ≤ minSz.toNat →
      ∃ n, (if sym_num_cond sym.entSize minSz sym.size sym.streamSize = true then
              (if sym.entSize = 0 then throw (Fault.divZero "get_symbols_num")
               else pure (sym_num_div sym.size sym.entSize) : M (BitVec 64))
            else pure 0) = .ok n ∧ n.toNat ≤ sym.size.toNat / sym.entSize.toNat ∧
        (n.toNat ≠ 0 → SymTab.symSizeOf cls ≤ sym.entSize.toNat) := by
    intro minSz hm
    by_cases hc : sym_num_cond sym.entSize minSz sym.size sym.streamSize = true
    · rw [if_pos hc]
      have hmin : SymTab.symSizeOf cls ≤ sym.entSize.toNat := by
        simp only [sym_num_cond, Bool.and_eq_true, BitVec.ule, decide_eq_true_eq] at hc
        omega
      have hne : sym.entSize ≠ 0 := by
        intro h0
        have := symSizeOf_pos cls
        rw [h0] at hmin; simp at hmin; omega
      rw [if_neg hne]
      refine ⟨_, rfl, ?_, fun _ => hmin⟩
      simp only [sym_num_div, BitVec.toNat_udiv]
      exact Nat.le_refl _
    · rw [if_neg hc]
      exact ⟨0, rfl, by simp, fun h => absurd rfl h⟩
  rw [SymTab.symbolsNum_hand]
  cases cls
  · exact key sym_num_min32 (by decide)
  · exact key sym_num_min64 (by decide)

theorem index_bound {idx E size : Nat} (h : idx < size / E) : idx * E + E ≤ size ∧ 0 < E := by
  have hE : 0 < E := by
    rcases Nat.eq_zero_or_pos E with h0 | h0
    · rw [h0, Nat.div_zero] at h; omega
    · exact h0
  have : (idx + 1) * E ≤ size := (Nat.le_div_iff_mul_le hE).mp h
  rw [Nat.succ_mul] at this; exact ⟨this, hE⟩

/-- the byte offset `index * entry_size` (64-bit product) of a valid index plus a record that fits the
    entry size stays inside the section -/
theorem entry_in_range {i e : BitVec 64} {size rec : Nat} (hi : i.toNat < size / e.toNat) (hr : rec ≤ e.toNat) :
    (i * e).toNat + rec ≤ size := by
  obtain ⟨h1, _⟩ := index_bound hi
  have : (i * e).toNat ≤ i.toNat * e.toNat := by
    rw [BitVec.toNat_mul]; exact Nat.mod_le _ _
  omega

theorem bind_ok_eq {α β : Type} {x : M α} {a : α} (f : α → M β) (h : x = .ok a) : (x >>= f) = f a := by
  rw [h]; rfl

/-- `get_symbol(index, …)` is memory-safe for every index on every table whose sections are `Sec` -/
theorem getSymbol_total (t : SymTab) (ht : TabOk t) (i : BitVec 64) (str : Bytes) (a : Attrs) :
    ∃ r, t.getSymbol i str a = .ok r := by
  rw [SymTie.getSymbol_unfold]
  unfold SymTab.guardNum
  simp only [ht.sym.secData, sym32_get_guard, sym64_get_guard, sym32_get_off, sym64_get_off, ite_self]
  cases hd : t.sym.data with
  | none => exact ⟨_, rfl⟩
  | some d =>
    obtain ⟨n, hn, hle, hsz⟩ := symbolsNum_spec t
    simp only [Option.isNone_some, Bool.false_eq_true, if_false, bind_ok_eq _ hn, Bool.not_false, Bool.true_and]
    by_cases hi : BitVec.ult i n = true
    · rw [if_pos hi]
      have hi' : i.toNat < n.toNat := by simpa [BitVec.ult] using hi
      have hrd := ht.sym.rd hd "get_symbol/pSym" (i * t.sym.entSize).toNat (SymTab.symSizeOf t.cfg.cls)
        (by have := entry_in_range (size := t.sym.size.toNat) (rec := SymTab.symSizeOf t.cfg.cls) (i := i)
              (e := t.sym.entSize) (by omega) (hsz (by omega)); omega)
      rw [bind_ok_eq _ hrd]
      obtain ⟨r, hr⟩ := symGetString_total t.str ht.str
        (SymTab.decodeRaw t.cfg (slice d (i * t.sym.entSize).toNat (SymTab.symSizeOf t.cfg.cls))).name
      rw [bind_ok_eq _ hr]
      exact ⟨_, rfl⟩
    · rw [if_neg hi]; exact ⟨_, rfl⟩

/-- `generic_get_symbol_ptr<T>(i)` + the `st_value` read of the by-value search -/
theorem symPtrValue_total (t : SymTab) (ht : TabOk t) (i : BitVec 64) : ∃ r, t.symPtrValue i = .ok r := by
  rw [SymTie.symPtrValue_unfold]
  unfold SymTab.guardNum
  simp only [ht.sym.secData, sym32_ptr_guard, sym64_ptr_guard, sym32_ptr_off, sym64_ptr_off, ite_self]
  cases hd : t.sym.data with
  | none => exact ⟨_, rfl⟩
  | some d =>
    obtain ⟨n, hn, hle, hsz⟩ := symbolsNum_spec t
    simp only [Option.isNone_some, Bool.false_eq_true, if_false, bind_ok_eq _ hn, Bool.not_false, Bool.true_and]
    by_cases hi : BitVec.ult i n = true
    · rw [if_pos hi]
      have hi' : i.toNat < n.toNat := by simpa [BitVec.ult] using hi
      have hin := entry_in_range (size := t.sym.size.toNat) (rec := SymTab.symSizeOf t.cfg.cls) (i := i)
            (e := t.sym.entSize) (by omega) (hsz (by omega))
      have hfield : ∀ fo fw, fo + fw ≤ SymTab.symSizeOf t.cfg.cls →
          rdRange "search_symbols/st_value" (some d) ((i * t.sym.entSize).toNat + fo) fw =
            .ok (slice d ((i * t.sym.entSize).toNat + fo) fw) :=
        fun fo fw hf => ht.sym.rd hd _ _ _ (by omega)
      cases hc : t.cfg.cls <;> simp only [hc] at hfield ⊢ <;> (repeat' split) <;>
        first
          | exact ⟨_, rfl⟩
          | (rw [bind_ok_eq _ (hfield _ _ (by decide))]; exact ⟨_, rfl⟩)
    · rw [if_neg hi]; exact ⟨_, rfl⟩

theorem linearGo_total (t : SymTab) (ht : TabOk t) (name : Bytes) :
    ∀ (k : Nat) (i : BitVec 64) (a : Attrs), ∃ r, SymTab.linearGo t name k i a = .ok r := by
  intro k
  induction k with
  | zero => intro i a; exact ⟨_, rfl⟩
  | succ k ih =>
    intro i a
    unfold SymTab.linearGo
    obtain ⟨r, hr⟩ := getSymbol_total t ht i [] a
    rw [bind_ok_eq _ hr]
    split
    · exact ⟨_, rfl⟩
    · exact ih _ _

theorem searchGo_total (t : SymTab) (ht : TabOk t) (value : BitVec 64) :
    ∀ (k : Nat) (i : BitVec 64), ∃ r, SymTab.searchGo t value k i = .ok r := by
  intro k
  induction k with
  | zero => intro i; exact ⟨_, rfl⟩
  | succ k ih =>
    intro i
    unfold SymTab.searchGo
    obtain ⟨r, hr⟩ := symPtrValue_total t ht i
    rw [bind_ok_eq _ hr]
    cases r with
    | none => exact ⟨_, rfl⟩
    | some v =>
      dsimp only
      split
      · exact ⟨_, rfl⟩
      · exact ih _

/-- lookup by value -/
theorem getByValue_total (t : SymTab) (ht : TabOk t) (value : BitVec 64) (str : Bytes) (a : Attrs) :
    ∃ r, t.getByValue value str a = .ok r := by
  unfold SymTab.getByValue
  obtain ⟨n, hn, -, -⟩ := symbolsNum_spec t
  rw [bind_ok_eq _ hn]
  obtain ⟨r, hr⟩ := searchGo_total t ht value n.toNat 0
  rw [bind_ok_eq _ hr]
  cases r with
  | none => exact ⟨_, rfl⟩
  | some idx =>
    dsimp only
    obtain ⟨g, hg⟩ := getSymbol_total t ht idx str a
    rw [bind_ok_eq _ hg]
    exact ⟨_, rfl⟩

/-! ### relocation entries -/

open Reloc Spec in
/-- `generic_get_entry_rel/rela<T>` behind its guards: all three field reads are inside the section -/
theorem getGeneric_ok {c : Cls} {k : RelKind} {ops : RecOps} (ok : OpsOk c k ops) (enc : Enc) (b : SecBuf)
    (hs : Sec b) {d : Bytes} (hd : b.data = some d) (hE : ops.size ≤ b.entSize.toNat) (idx : BitVec 64)
    (hidx : idx.toNat < b.size.toNat / b.entSize.toNat) :
    ∃ e, Reloc.getGeneric ops enc b idx = .ok (b, some e) := by
  have hsmall : ops.entsizeSmall b.entSize = false := by
    cases h : ops.entsizeSmall b.entSize with
    | false => rfl
    | true => have := (ok.entsizeSmall _).mp h; omega
  have hin := entry_in_range (size := b.size.toNat) (rec := ops.size) (i := idx) (e := b.entSize) hidx hE
  have hW := wordBytes_cases c
  have hSz : ops.size = (if hasAddend k then 3 else 2) * wordBytes c := by
    rw [ok.size]; cases k <;> simp [Spec.entSize, hasAddend]
  have hrd : ∀ site fo fw, fo + fw ≤ ops.size →
      rdRange site (some d) ((idx * b.entSize).toNat + fo) fw = .ok (slice d ((idx * b.entSize).toNat + fo) fw) :=
    fun site fo fw hf => hs.rd hd _ _ _ (by omega)
  unfold Reloc.getGeneric
  simp only [hsmall, Bool.false_eq_true, if_false, hs.getData, ok.getOff, hd, ok.offsetOff, ok.offsetW, ok.infoOff,
    ok.infoW]
  rw [hrd _ 0 _ (by rw [hSz]; split <;> omega), hrd _ _ _ (by rw [hSz]; split <;> omega)]
  cases k with
  | rel =>
    have hna : ops.hasAddend = false := by rw [ok.hasAddend]; rfl
    simp only [hna, bind, Except.bind, pure, Except.pure, Bool.false_eq_true, if_false]
    exact ⟨_, rfl⟩
  | rela =>
    have hya : ops.hasAddend = true := by rw [ok.hasAddend]; rfl
    simp only [hya, if_true, ok.addendOff hya, ok.addendW hya]
    rw [hrd _ _ _ (by rw [hSz]; simp [hasAddend]; omega)]
    simp only [bind, Except.bind, pure, Except.pure]
    exact ⟨_, rfl⟩

open Reloc Spec in
theorem relGetGeneric_total {c : Cls} {k : RelKind} {ops : RecOps} (ok : OpsOk c k ops) (nodata : Bool → Bool)
    (hnd : nodata true = true) (enc : Enc) (b : SecBuf) (hs : Sec b) (idx : BitVec 64)
    (hidx : idx.toNat < b.size.toNat / b.entSize.toNat) :
    ∃ r, TQ.relGetGeneric ops nodata enc b idx = .ok r := by
  unfold TQ.relGetGeneric
  by_cases h1 : ops.entsizeSmall b.entSize = true
  · rw [if_pos h1]; exact ⟨_, rfl⟩
  rw [if_neg h1, hs.secData]
  cases hd : b.data with
  | none => simp only [Option.isNone_none, hnd, if_true]; exact ⟨_, rfl⟩
  | some d =>
    have hE : ops.size ≤ b.entSize.toNat := by
      have : ¬ b.entSize.toNat < ops.size := fun h => h1 ((ok.entsizeSmall b.entSize).mpr h)
      omega
    obtain ⟨e, he⟩ := getGeneric_ok ok enc b hs hd hE idx hidx
    by_cases h2 : nodata (some d).isNone = true
    · rw [if_pos h2]; exact ⟨_, rfl⟩
    · rw [if_neg h2, he]; exact ⟨_, rfl⟩

/-- **relocation `get_entry` without symbol resolution** is total on every `Sec` section -/
theorem relGet_total (enc : Enc) (b : SecBuf) (hs : Sec b) (idx : BitVec 64) :
    ∃ r, TQ.relGet enc b idx = .ok r := by
  unfold TQ.relGet
  rw [Reloc.entriesNum_ok]
  simp only [Reloc.get_idx_oob, Reloc.entriesNumV_toNat]
  by_cases hidx : b.size.toNat / b.entSize.toNat ≤ idx.toNat
  · simp only [hidx, decide_true, if_true]; exact ⟨_, rfl⟩
  · simp only [hidx, decide_false, Bool.false_eq_true, if_false]
    have hi : idx.toNat < b.size.toNat / b.entSize.toNat := by omega
    repeat' split
    · exact relGetGeneric_total Reloc.opsOk32rel _ rfl enc b hs idx hi
    · exact relGetGeneric_total Reloc.opsOk32rela _ rfl enc b hs idx hi
    · exact ⟨_, rfl⟩
    · exact relGetGeneric_total Reloc.opsOk64rel _ rfl enc b hs idx hi
    · exact relGetGeneric_total Reloc.opsOk64rela _ rfl enc b hs idx hi
    · exact ⟨_, rfl⟩

/-- **relocation `get_entry` with symbol resolution** : total for every symbol table accessor built on
    `Sec` sections and also when `sh_link` names no section (`none`) -/
theorem relGetResolved_total (enc : Enc) (b : SecBuf) (hs : Sec b) (symtab : Option SymTab)
    (ht : ∀ t, symtab = some t → TabOk t) (idx : BitVec 64) :
    ∃ r, TQ.relGetResolved enc b symtab idx = .ok r := by
  unfold TQ.relGetResolved TQ.relGetResolvedWith
  obtain ⟨r, hr⟩ := relGet_total enc b hs idx
  rw [hr]
  dsimp only
  cases symtab with
  | none => simp only [tq_reloc_nosymtab, if_true]; exact ⟨_, rfl⟩
  | some t =>
    dsimp only
    split
    · exact ⟨_, rfl⟩
    · obtain ⟨g, hg⟩ := getSymbol_total t (ht t rfl)
        (tq_reloc_sym_index (r.getD { offset := 0, symbol := tq_reloc_symbol_init, type := 0, addend := 0 }).symbol) [] {}
      rw [hg]; exact ⟨_, rfl⟩

/-! ### the SysV hash walk (after fixes/11, 12) -/

theorem sym_rd32_ok {h : SecBuf} (hs : Sec h) {d : Bytes} (hd : h.data = some d) (site : String) (e : Enc)
    (off : Nat) (hr : off + 4 ≤ h.size.toNat) :
    SymTab.rd32 site e (some d) off = .ok (BitVec.ofNat 32 (rdField e (slice d off 4))) := by
  unfold SymTab.rd32
  rw [bind_ok_eq _ (hs.rd hd site off 4 (by omega))]; rfl

theorem sym_rd64_ok {h : SecBuf} (hs : Sec h) {d : Bytes} (hd : h.data = some d) (site : String) (e : Enc)
    (off : Nat) (hr : off + 8 ≤ h.size.toNat) :
    SymTab.rd64 site e (some d) off = .ok (BitVec.ofNat 64 (rdField e (slice d off 8))) := by
  unfold SymTab.rd64
  rw [bind_ok_eq _ (hs.rd hd site off 8 (by omega))]; rfl

/-- the chain walk: every chain word read lies inside the section (the table fits: fixes/11) and the
    step counter (fixes/12) keeps `nchain + 1` units of fuel from running out -/
theorem sysvLoop_total (t : SymTab) (ht : TabOk t) {h : SecBuf} (hs : Sec h) {d : Bytes} (hd : h.data = some d)
    (name : Bytes) (nbucket nchain : BitVec 32) (hfit : 2 + nbucket.toNat + nchain.toNat ≤ h.size.toNat / 4) :
    ∀ (fuel : Nat) (y steps : BitVec 32) (str : Bytes) (a : Attrs), nchain.toNat + 1 ≤ fuel + steps.toNat →
      ∃ r, TQ.sysvLoop t (some d) name nbucket nchain fuel y steps str a = .ok r := by
  intro fuel
  induction fuel with
  | zero =>
    intro y steps str a hf
    unfold TQ.sysvLoop
    tq_tie
    have : tq_sysv_step_ok steps nchain = false := by
      simp only [tq_sysv_step_ok, BitVec.ult, decide_eq_false_iff_not]; omega
    simp only [this, Bool.and_false, Bool.false_eq_true, if_false]
    exact ⟨_, rfl⟩
  | succ k ih =>
    intro y steps str a hf
    unfold TQ.sysvLoop
    tq_tie
    split
    · rename_i hc
      simp only [Bool.and_eq_true, sysv_walk_lt_nchain, tq_sysv_step_ok, BitVec.ult, decide_eq_true_eq] at hc
      obtain ⟨⟨⟨-, -⟩, hy⟩, hst⟩ := hc
      have hnb := nbucket.isLt; have hnc := nchain.isLt; have hyl := y.isLt
      simp only [Nat.reducePow] at hnb hnc hyl
      have hoff : (sysv_chain_off nbucket y).toNat = ((2 + nbucket.toNat) % 4294967296 + y.toNat) % 4294967296 * 4 := by
        simp only [sysv_chain_off, BitVec.toNat_mul, BitVec.toNat_setWidth, BitVec.toNat_add, BitVec.toNat_ofNat,
          Nat.reducePow, Nat.reduceMod]
        omega
      have hrd := sym_rd32_ok hs hd "hash_lookup/chain" t.cfg.enc (sysv_chain_off nbucket y).toNat (by rw [hoff]; omega)
      simp only [hrd]
      obtain ⟨r, hr⟩ := getSymbol_total t ht
        (BitVec.setWidth 64 (BitVec.ofNat 32 (rdField t.cfg.enc (slice d (sysv_chain_off nbucket y).toNat 4)))) str a
      simp only [hr]
      have hs1 : (steps + 1).toNat = steps.toNat + 1 := by
        have := steps.isLt
        have h1 : (1 : BitVec 32).toNat = 1 := rfl
        simp only [BitVec.toNat_add, h1, Nat.reducePow]
        omega
      exact ih _ _ _ _ (by rw [hs1]; omega)
    · exact ⟨_, rfl⟩

/-- **`hash_lookup` is total** on ARBITRARY hash section contents -/
theorem hashLookup_total (t : SymTab) (ht : TabOk t) (h : SecBuf) (hs : Sec h) (name : Bytes) (a : Attrs) :
    ∃ r, TQ.hashLookup t h name a = .ok r := by
  unfold TQ.hashLookup
  tq_tie
  simp only [hs.secData]
  by_cases hb : tq_sysv_hdr_bad h.data.isNone h.size = true
  · rw [if_pos hb]; exact ⟨_, rfl⟩
  rw [if_neg hb]
  cases hd : h.data with
  | none => simp [tq_sysv_hdr_bad, hd] at hb
  | some d =>
    have hsz : 8 ≤ h.size.toNat := by
      simp only [tq_sysv_hdr_bad, hd, Option.isNone_some, Bool.false_or, se2, BitVec.ult, decide_eq_true_eq] at hb
      have : (2#64 * 4#64).toNat = 8 := by decide
      omega
    simp only [sym_rd32_ok hs hd _ _ 0 (by omega), sysv_nchain_off,
      sym_rd32_ok hs hd _ _ (4#64).toNat (by simp; omega)]
    generalize BitVec.ofNat 32 (rdField t.cfg.enc (slice d 0 4)) = nbucket
    generalize BitVec.ofNat 32 (rdField t.cfg.enc (slice d (4#64).toNat 4)) = nchain
    by_cases hf : tq_sysv_fit_bad nbucket h.size nchain = true
    · rw [if_pos hf]; exact ⟨_, rfl⟩
    rw [if_neg hf]
    have hnb := nbucket.isLt; have hnc := nchain.isLt; have hsl := h.size.isLt
    simp only [Nat.reducePow] at hnb hnc hsl
    simp only [tq_sysv_fit_bad, Bool.or_eq_true, beq_iff_eq, not_or, se2, BitVec.ult, decide_eq_true_eq,
      BitVec.toNat_sub, BitVec.toNat_udiv, BitVec.toNat_add, BitVec.toNat_setWidth, BitVec.toNat_ofNat,
      Nat.reducePow, Nat.reduceMod] at hf
    obtain ⟨hnz, hfit⟩ := hf
    have hnz' : nbucket.toNat ≠ 0 := fun h0 => hnz (BitVec.eq_of_toNat_eq (by simpa using h0))
    have hfit' : 2 + nbucket.toNat + nchain.toNat ≤ h.size.toNat / 4 := by omega
    have hboff : (sysv_bucket_off (elf_hash (SymTab.cName name)) nbucket).toNat + 4 ≤ h.size.toNat := by
      have hm : (elf_hash (SymTab.cName name)).toNat % nbucket.toNat < nbucket.toNat := Nat.mod_lt _ (by omega)
      simp only [sysv_bucket_off, BitVec.toNat_mul, BitVec.toNat_setWidth, BitVec.toNat_add, BitVec.toNat_ofNat,
        BitVec.toNat_umod, Nat.reducePow, Nat.reduceMod]
      omega
    simp only [sym_rd32_ok hs hd _ _ _ hboff]
    obtain ⟨r, hr⟩ := getSymbol_total t ht (BitVec.setWidth 64 (BitVec.ofNat 32 (rdField t.cfg.enc
      (slice d (sysv_bucket_off (elf_hash (SymTab.cName name)) nbucket).toNat 4)))) [] a
    simp only [hr]
    split
    · exact ⟨_, rfl⟩
    · obtain ⟨st, hst⟩ := sysvLoop_total t ht hs hd name nbucket nchain hfit' (nchain.toNat + 1)
        (BitVec.ofNat 32 (rdField t.cfg.enc (slice d (sysv_bucket_off (elf_hash (SymTab.cName name)) nbucket).toNat 4)))
        0 r.2.1 r.2.2 (by simp)
      rw [hst]; exact ⟨_, rfl⟩

end C18
end ElfioVerif
