/-
Helper lemmas for C01's `inspect_total` (Props/C01.lean): total safety of the accessor models of
Model/Inspect.lean on sections/segments of ARBITRARY content, entry size, link — the only
hypotheses are the buffer facts the loader invariant `LoadedSec` / `LoadedSeg` gives
(`size < allocation`, NUL terminator behind the data) and that the section is *settled*
(`get_data()` has been called: the accessor models' own `SecBuf.getData` is then the identity).

  notes      : C13.get_note_total                      (source size ≤ 2^32 - 3)
  strings    : getString_total' (Lemmas/LoadSafety), C08.getStringCore_eq (site-tied model)
  dynamic    : `dyn_entriesNum_total`, `dyn_getEntry_total`   (new: arbitrary sh_entsize / sh_size / content)
  symbols    : `sym_num_total`, `sym_get_total`               (new: arbitrary sh_entsize / sh_size / content)
  modinfo    : `modinfo_total`                                (new: arbitrary content)
-/
import ElfioVerif.Lemmas.LoadSafety
import ElfioVerif.Lemmas.LoadMembers
import ElfioVerif.Model.Inspect
import ElfioVerif.Props.C13
import ElfioVerif.Props.C08
import ElfioVerif.Lemmas.Dynamic
import ElfioVerif.Lemmas.SymbolsTie
import ElfioVerif.Lemmas.TablesTie
import ElfioVerif.Lemmas.SymTie
namespace ElfioVerif
open Gen
namespace Inspect

/-! ### settled sections: `get_data()` has been called -/

/-- `get_data()` would not call `load_data()` again -/
def Settled (b : SecBuf) : Prop := (!b.isLoaded && b.canLoad) = false

theorem getData_of_settled {b : SecBuf} (h : Settled b) : b.getData = b := by
  unfold SecBuf.getData
  unfold Settled at h
  simp [h]

theorem secLoadData_ok_isLoaded (c : Cls) (tr : List Trans) (ls : LoadSt) (b : SecBuf)
    (h : (secLoadData c tr ls b).2.2 = true) : (secLoadData c tr ls b).2.1.isLoaded = true := by
  revert h
  rw [secLoadData_eq]
  repeat' split
  all_goals (intro h; first | rfl | exact h | (exfalso; simp at h))

/-- after `sections[i]->get_data()` (against the stream) the section is settled -/
theorem secGetData_settled (c : Cls) (tr : List Trans) (ls : LoadSt) (b : SecBuf) :
    Settled (secGetData c tr ls b).2 := by
  rw [secGetData_eq]
  by_cases hc : (!b.isLoaded && b.canLoad) = true
  · rw [if_pos hc]
    by_cases hk : (secLoadData c tr ls b).2.2 = true
    · simp only [hk, if_true]
      unfold Settled
      rw [secLoadData_ok_isLoaded c tr ls b hk]; rfl
    · simp only [hk]
      unfold Settled; simp
  · rw [if_neg hc]
    unfold Settled
    simpa using hc

/-- the buffer facts of a settled loaded section the accessors rely on -/
structure Ready (b : SecBuf) : Prop where
  settled : Settled b
  len : ∀ d, b.data = some d → d.length = b.size.toNat + 1
  nul : ∀ d, b.data = some d → d[b.size.toNat]? = some 0

theorem Ready.bufOk {b : SecBuf} (h : Ready b) : BufOk b := by
  intro d hd; have := h.len d hd; omega

theorem ready_of_loaded {tr img} {b : SecBuf} (h : LoadedSec tr b img) (hs : Settled b) : Ready b := by
  refine ⟨hs, h.len, ?_⟩
  intro d hd
  obtain ⟨h1, h2⟩ := h.exact d hd
  rw [h1, List.getElem?_append_right (by omega), h2]; simp

/-- a resident loaded section is not larger than the input -/
theorem LoadedSec.size_le {tr img} {b : SecBuf} (h : LoadedSec tr b img) {d : Bytes} (hd : b.data = some d) :
    b.size.toNat ≤ img.length := by
  have := (h.exact d hd).2
  rw [slice_length] at this
  omega

theorem LoadedSeg.size_le {tr img} {g : Seg} (h : LoadedSeg tr g img) {d : Bytes} (hd : g.data = some d) :
    g.filesz.toNat ≤ img.length := by
  have := (h.exact d hd).2
  rw [slice_length] at this
  omega

/-! ### the generic loop -/

theorem forIdx_total {σ : Type} (P : σ → Prop) (f : σ → Nat → M σ)
    (hf : ∀ s i, P s → ∃ s', f s i = .ok s' ∧ P s') :
    ∀ (l : List Nat) (s : σ), P s → ∃ s', forIdx l f s = .ok s' ∧ P s' := by
  intro l
  induction l with
  | nil => intro s hs; exact ⟨s, rfl, hs⟩
  | cons i rest ih =>
    intro s hs
    obtain ⟨s1, h1, hp1⟩ := hf s i hs
    obtain ⟨s2, h2, hp2⟩ := ih s1 hp1
    refine ⟨s2, ?_, hp2⟩
    unfold forIdx
    rw [h1]
    exact h2

/-! ### notes -/

/-- The note accessor on ANY source whose size does not exceed its allocation (and, when there is
    data, is at most 2^32 - 3): the constructor and `get_note` at EVERY index return. -/
theorem notes_total (e : Enc) (src : NoteSrc) (hok : C13.SrcOk src)
    (hs : ∀ a, src.data = some a → src.size.toNat ≤ 4294967293) :
    ∃ pos, Note.process e src = .ok pos ∧ ∀ k : BitVec 32, ∃ r, Note.get e src pos k = .ok r := by
  obtain ⟨data, size⟩ := src
  cases data with
  | none =>
    refine ⟨[], ?_, fun k => ⟨none, C13.get_note_absent e _ [] k (by simp)⟩⟩
    unfold Note.process
    rw [walk_empty_eq]
    try rw [NoteTie.walk_start]
    simp [pure, Except.pure]
  | some a => exact C13.get_note_total e ⟨some a, size⟩ hok (hs a rfl)

theorem allNotes_total (e : Enc) (src : NoteSrc) (pos : List (BitVec 64))
    (h : ∀ k : BitVec 32, ∃ r, Note.get e src pos k = .ok r) : allNotes e src pos = .ok () := by
  unfold allNotes
  obtain ⟨u, hu, -⟩ := forIdx_total (fun _ : Unit => True)
    (fun _ j => ignore (Note.get e src pos (BitVec.ofNat 32 j)))
    (fun s i _ => by
      obtain ⟨r, hr⟩ := h (BitVec.ofNat 32 i)
      exact ⟨(), by simp only [hr, ignore]; rfl, trivial⟩)
    (List.range (Note.num pos).toNat) () trivial
  exact hu

theorem secNoteSrc_ok {tr img} {b : SecBuf} (h : LoadedSec tr b img) : C13.SrcOk b.noteSrc := by
  intro a ha
  have := h.len a ha
  simp only [SecBuf.noteSrc] at *
  omega

theorem segNoteSrc_ok {tr img} {g : Seg} (h : LoadedSeg tr g img) : C13.SrcOk (segNoteSrc g) := by
  intro a ha
  have := h.len a ha
  simp only [segNoteSrc] at *
  omega

/-! ### strings: the site-tied model of C08 is safe on the same sections -/

theorem str_sites_total {b : SecBuf} (hb : BufOk b) (idx : BitVec 32) :
    ∃ r, StrSec.getStringCore b idx = .ok (b, r) := by
  refine ⟨_, C08.getStringCore_eq b idx ?_⟩
  intro a ha
  have := hb a ha
  omega

/-! ### modinfo: the constructor's parser on arbitrary content -/

theorem takeWhile_length_le {p : UInt8 → Bool} :
    ∀ (l : Bytes) (k : Nat) (x : UInt8), l[k]? = some x → p x = false → (l.takeWhile p).length ≤ k := by
  intro l
  induction l with
  | nil => intro k x h; simp at h
  | cons y ys ih =>
    intro k x h hp
    cases k with
    | zero =>
      simp only [List.getElem?_cons_zero, Option.some.injEq] at h
      subst h
      simp [List.takeWhile, hp]
    | succ k =>
      simp only [List.getElem?_cons_succ] at h
      rw [List.takeWhile_cons]
      split
      · have := ih k x h hp
        simp only [List.length_cons]; omega
      · simp

/-- `std::string info = pdata + i` terminates inside the allocation: the loader's NUL is there -/
theorem cstr_total (site : String) (a : Bytes) (S i : Nat) (hlen : a.length = S + 1)
    (hnul : a[S]? = some 0) (hi : i ≤ S) :
    ∃ s, Modinfo.cstr site (some a) i = .ok s ∧ i + s.length ≤ S ∧
      (∀ x, a[i]? = some x → x ≠ 0 → 1 ≤ s.length) := by
  unfold Modinfo.cstr
  have hget : (a.drop i)[S - i]? = some 0 := by
    rw [List.getElem?_drop]
    have : i + (S - i) = S := by omega
    rw [this]; exact hnul
  have hle := takeWhile_length_le (p := fun x => decide (x ≠ 0)) (a.drop i) (S - i) 0 hget (by simp)
  have hdl : (a.drop i).length = S + 1 - i := by rw [List.length_drop, hlen]
  refine ⟨(a.drop i).takeWhile (· ≠ 0), ?_, by omega, ?_⟩
  · simp only []
    rw [if_pos (by omega)]
    rfl
  · intro x hx hx0
    have hd : a.drop i = x :: a.drop (i + 1) := by
      have hlt : i < a.length := by omega
      rw [List.getElem?_eq_getElem hlt] at hx
      simp only [Option.some.injEq] at hx
      rw [← hx]
      exact List.drop_eq_getElem_cons hlt
    rw [hd, List.takeWhile_cons]
    simp [hx0]

theorem skipNul_total (a : Bytes) (size : BitVec 64) (hlen : a.length = size.toNat + 1) :
    ∀ (fuel : Nat) (i : BitVec 64), i.toNat ≤ size.toNat → size.toNat - i.toNat + 1 ≤ fuel →
      ∃ i', Modinfo.skipNul (some a) size fuel i = .ok i' ∧ i.toNat ≤ i'.toNat ∧ i'.toNat ≤ size.toNat ∧
        (i'.toNat < size.toNat → ∀ x, a[i'.toNat]? = some x → x ≠ 0) := by
  intro fuel
  induction fuel with
  | zero => intro i _ hf; omega
  | succ f ih =>
    intro i hi hf
    have hs := size.isLt
    unfold Modinfo.skipNul
    simp only [ModTie.skip_cond_eq, ModTie.skipByteIsNul_eq, ModTie.skip_incr, decide_eq_true_eq]
    by_cases hc : i.toNat < size.toNat
    · have hcond : mod_loop_cond i size = true := by
        unfold mod_loop_cond; rw [BitVec.ult]; simpa using hc
      rw [if_pos hcond]
      rw [rdRange_some_ok (by omega)]
      simp only [bind, Except.bind]
      by_cases hz : slice a i.toNat 1 = [0]
      · rw [if_pos hz]
        have h1 : (i + 1).toNat = i.toNat + 1 := by
          have e1 : (1 : BitVec 64).toNat = 1 := rfl
          rw [BitVec.toNat_add, e1]
          simp only [Nat.reducePow] at *
          omega
        obtain ⟨i', e, h2, h3, h4⟩ := ih (i + 1) (by omega) (by omega)
        exact ⟨i', e, by omega, h3, h4⟩
      · rw [if_neg hz]
        refine ⟨i, rfl, Nat.le_refl _, hi, ?_⟩
        intro _ x hx hx0
        apply hz
        subst hx0
        have hlt : i.toNat < a.length := by omega
        unfold slice
        rw [List.drop_eq_getElem_cons hlt]
        rw [List.getElem?_eq_getElem hlt] at hx
        simp only [Option.some.injEq] at hx
        rw [hx]; rfl
    · have hcond : mod_loop_cond i size = false := by
        unfold mod_loop_cond; rw [BitVec.ult]; simpa using hc
      rw [hcond]
      exact ⟨i, rfl, Nat.le_refl _, hi, fun h => absurd h hc⟩

theorem parseLoop_total (a : Bytes) (size : BitVec 64) (hlen : a.length = size.toNat + 1)
    (hnul : a[size.toNat]? = some 0) :
    ∀ (fuel : Nat) (i : BitVec 64) (acc : List Modinfo.Attr), i.toNat ≤ size.toNat →
      size.toNat - i.toNat + 2 ≤ fuel → ∃ r, Modinfo.parseLoop (some a) size fuel i acc = .ok r := by
  intro fuel
  induction fuel with
  | zero => intro i acc _ hf; omega
  | succ f ih =>
    intro i acc hi hf
    have hs := size.isLt
    unfold Modinfo.parseLoop
    by_cases hc : i.toNat < size.toNat
    · have hcond : mod_loop_cond i size = true := by
        unfold mod_loop_cond; rw [BitVec.ult]; simpa using hc
      rw [if_pos hcond]
      obtain ⟨i', e, h1, h2, h3⟩ := skipNul_total a size hlen (size.toNat + 1) i hi (by omega)
      simp only [e, bind, Except.bind]
      by_cases hr : i'.toNat < size.toNat
      · have hrc : mod_rec_cond i' size = true := by
          unfold mod_rec_cond; rw [BitVec.ult]; simpa using hr
        rw [if_pos hrc]
        obtain ⟨s, es, hs1, hs2⟩ := cstr_total "modinfo/record" a size.toNat i'.toNat hlen hnul h2
        simp only [es]
        have hx : ∃ x, a[i'.toNat]? = some x := ⟨a[i'.toNat]'(by omega), List.getElem?_eq_getElem (by omega)⟩
        obtain ⟨x, hx⟩ := hx
        have hpos := hs2 x hx (h3 hr x hx)
        have hadv : (mod_advance i' (BitVec.ofNat 64 s.length)).toNat = i'.toNat + s.length := by
          unfold mod_advance
          simp only [BitVec.toNat_add, BitVec.toNat_ofNat, Nat.reducePow] at *
          omega
        exact ih _ _ (by omega) (by omega)
      · have hrc : mod_rec_cond i' size = false := by
          unfold mod_rec_cond; rw [BitVec.ult]; simpa using hr
        rw [hrc]
        exact ih _ _ h2 (by omega)
    · have hcond : mod_loop_cond i size = false := by
        unfold mod_loop_cond; rw [BitVec.ult]; simpa using hc
      rw [hcond]
      exact ⟨acc, rfl⟩

/-- **modinfo_total** : on ANY settled section whose buffer is `size + 1` bytes with the NUL
    terminator behind the data (arbitrary content: records without `=`, without a final NUL, runs
    of NULs, empty), the constructor's parser returns; the getters only look at its result. -/
theorem modinfo_total {b : SecBuf} (h : Ready b) : ∃ c, Modinfo.parse b = .ok c := by
  rw [ModTie.parse_eq]
  rw [getData_of_settled h.settled]
  cases hd : b.data with
  | none => exact ⟨[], rfl⟩
  | some a =>
    exact parseLoop_total a b.size (h.len a hd) (h.nul a hd) (b.size.toNat + 2) 0 [] (by simp) (by simp)

/-! ### bit-vector arithmetic used below -/

macro "bvn'" : tactic =>
  `(tactic| simp only [BitVec.ult, BitVec.ule, BitVec.toNat_add, BitVec.toNat_sub, BitVec.toNat_mul,
      BitVec.toNat_ofNat, BitVec.toNat_setWidth, BitVec.toNat_udiv, Nat.reducePow, Nat.reduceMod,
      Nat.reduceDiv, Nat.reduceMul, Nat.reduceAdd, Nat.reduceSub, decide_eq_true_eq, decide_eq_false_iff_not,
      Bool.or_eq_true, Bool.and_eq_true, Bool.or_eq_false_iff, Bool.and_eq_false_imp, Bool.not_eq_true',
      Bool.not_eq_false'] at *)

/-- `index < size / entsize` means the whole record of that index lies inside `[0, size)` -/
theorem rec_inside {I S E : Nat} (h : I < S / E) : I * E + E ≤ S := by
  have h1 : (I + 1) * E ≤ (S / E) * E := Nat.mul_le_mul_right E h
  have h2 : (S / E) * E ≤ S := Nat.div_mul_le_self S E
  rw [Nat.succ_mul] at h1
  omega

/-! ### the dynamic accessor on arbitrary sections -/

open DynAcc in
/-- `string_section_accessor::get_string` as the dynamic accessor's model states it -/
theorem dynGetString_total (s : Option SecBuf) (h : ∀ s0, s = some s0 → Settled s0 ∧ BufOk s0)
    (idx : BitVec 32) : ∃ r, DynAcc.getString s idx = .ok (s, r) := by
  cases s with
  | none => exact ⟨none, rfl⟩
  | some s0 =>
    obtain ⟨hs, hb⟩ := h s0 rfl
    unfold DynAcc.getString
    simp only [getData_of_settled hs]
    by_cases h1 : dynstr_get_oob idx s0.size s0.data.isNone = true
    · rw [if_pos h1]; exact ⟨none, rfl⟩
    · rw [if_neg h1]
      by_cases h2 : dynstr_get_underflow (dynstr_get_remaining s0.size idx) s0.size = true
      · rw [if_pos h2]; exact ⟨none, rfl⟩
      · rw [if_neg h2]
        cases hd : s0.data with
        | none => simp [dynstr_get_oob, hd] at h1
        | some d =>
          have hlt := hb d hd
          have hsz := s0.size.isLt
          have hix := idx.isLt
          have hrem : idx.toNat + (dynstr_get_remaining s0.size idx).toNat ≤ d.length := by
            unfold dynstr_get_oob at h1
            unfold dynstr_get_remaining
            rw [hd] at h1
            bvn'
            omega
          rw [rdRange_some_ok hrem]
          exact ⟨_, rfl⟩

theorem readRec32_total (e : Enc) (sec : SecBuf) (d : Bytes) (hd : sec.data = some d) (off : Nat)
    (h : off + 8 ≤ d.length) : ∃ r, DynAcc.readRec32 e sec off = .ok r := by
  unfold DynAcc.readRec32
  simp only [hd, Elf32_Dyn.d_tag_off, Elf32_Dyn.d_tag_w, Elf32_Dyn.d_un_d_val_off, Elf32_Dyn.d_un_d_val_w,
    Elf32_Dyn.d_un_d_ptr_off, Elf32_Dyn.d_un_d_ptr_w]
  rw [rdRange_some_ok (by omega)]
  simp only [bind, Except.bind]
  split
  · exact ⟨_, rfl⟩
  · split
    · rw [rdRange_some_ok (by omega)]; exact ⟨_, rfl⟩
    · rw [rdRange_some_ok (by omega)]; exact ⟨_, rfl⟩

theorem readRec64_total (e : Enc) (sec : SecBuf) (d : Bytes) (hd : sec.data = some d) (off : Nat)
    (h : off + 16 ≤ d.length) : ∃ r, DynAcc.readRec64 e sec off = .ok r := by
  unfold DynAcc.readRec64
  simp only [hd, Elf64_Dyn.d_tag_off, Elf64_Dyn.d_tag_w, Elf64_Dyn.d_un_d_val_off, Elf64_Dyn.d_un_d_val_w,
    Elf64_Dyn.d_un_d_ptr_off, Elf64_Dyn.d_un_d_ptr_w]
  rw [rdRange_some_ok (by omega)]
  simp only [bind, Except.bind]
  split
  · exact ⟨_, rfl⟩
  · split
    · rw [rdRange_some_ok (by omega)]; exact ⟨_, rfl⟩
    · rw [rdRange_some_ok (by omega)]; exact ⟨_, rfl⟩

/-- `generic_get_entry_dyn<T>` at an index below `size / entsize` stays inside the buffer, whatever
    the entry size (its own guards: no data, entry size below `sizeof(T)`) -/
theorem rawEntryOn_total (c32 : Bool) (e : Enc) (sec : SecBuf) (hb : BufOk sec) (idx : BitVec 64)
    (hi : idx.toNat < sec.size.toNat / sec.entSize.toNat) :
    ∃ r, DynAcc.rawEntryOn c32 e sec idx = .ok r := by
  have hS := sec.size.isLt
  have hE := sec.entSize.isLt
  have hI := idx.isLt
  have hin := rec_inside hi
  have hE0 : sec.entSize.toNat ≠ 0 := by
    intro h0; rw [h0, Nat.div_zero] at hi; omega
  have hne : ¬ (sec.entSize = 0) := by
    intro h0; apply hE0; rw [h0]; rfl
  have hq : 1 ≤ sec.size.toNat / sec.entSize.toNat := by omega
  have hq2 : sec.size.toNat / sec.entSize.toNat ≤ sec.size.toNat := Nat.div_le_self _ _
  have one : BitVec.signExtend 64 1#32 = 1#64 := by decide
  unfold DynAcc.rawEntryOn
  dyn_tie
  cases c32
  · -- ELF64
    simp only [Bool.false_eq_true, if_false]
    by_cases g1 : dyn64_get_nodata sec.data.isNone sec.entSize = true
    · rw [if_pos g1]; exact ⟨_, rfl⟩
    rw [if_neg g1, if_neg hne]
    cases hd : sec.data with
    | none => simp [dyn64_get_nodata, hd] at g1
    | some d =>
      have hlt := hb d hd
      have hge : 16 ≤ sec.entSize.toNat := by
        unfold dyn64_get_nodata at g1
        rw [hd] at g1
        simp only [sizeof_Elf64_Dyn] at g1
        bvn'
        omega
      have g3 : dyn64_get_index_ovf idx sec.size sec.entSize = false := by
        unfold dyn64_get_index_ovf
        rw [one]
        have e1 : (1#64 : BitVec 64).toNat = 1 := rfl
        simp only [BitVec.ult, BitVec.toNat_sub, BitVec.toNat_udiv, e1, Nat.reducePow, decide_eq_false_iff_not]
        omega
      have ho : (dyn64_get_offset idx sec.entSize).toNat = idx.toNat * sec.entSize.toNat := by
        unfold dyn64_get_offset
        rw [BitVec.toNat_mul]
        simp only [Nat.reducePow] at *
        exact Nat.mod_eq_of_lt (by omega)
      have g4 : dyn64_get_offset_ovf (dyn64_get_offset idx sec.entSize) sec.size = false := by
        unfold dyn64_get_offset_ovf
        rw [BitVec.ult, ho]
        simp only [sizeof_Elf64_Dyn, BitVec.toNat_sub, BitVec.toNat_ofNat, Nat.reducePow, Nat.reduceMod,
          decide_eq_false_iff_not] at *
        omega
      rw [g3, g4, ho]
      simp only [Bool.false_eq_true, if_false]
      exact readRec64_total e sec d hd _ (by omega)
  · -- ELF32
    simp only [if_true]
    by_cases g1 : dyn32_get_nodata sec.data.isNone sec.entSize = true
    · rw [if_pos g1]; exact ⟨_, rfl⟩
    rw [if_neg g1, if_neg hne]
    cases hd : sec.data with
    | none => simp [dyn32_get_nodata, hd] at g1
    | some d =>
      have hlt := hb d hd
      have hge : 8 ≤ sec.entSize.toNat := by
        unfold dyn32_get_nodata at g1
        rw [hd] at g1
        simp only [sizeof_Elf32_Dyn] at g1
        bvn'
        omega
      have g3 : dyn32_get_index_ovf idx sec.size sec.entSize = false := by
        unfold dyn32_get_index_ovf
        rw [one]
        have e1 : (1#64 : BitVec 64).toNat = 1 := rfl
        simp only [BitVec.ult, BitVec.toNat_sub, BitVec.toNat_udiv, e1, Nat.reducePow, decide_eq_false_iff_not]
        omega
      have ho : (dyn32_get_offset idx sec.entSize).toNat = idx.toNat * sec.entSize.toNat := by
        unfold dyn32_get_offset
        rw [BitVec.toNat_mul]
        simp only [Nat.reducePow] at *
        exact Nat.mod_eq_of_lt (by omega)
      have g4 : dyn32_get_offset_ovf (dyn32_get_offset idx sec.entSize) sec.size = false := by
        unfold dyn32_get_offset_ovf
        rw [BitVec.ult, ho]
        simp only [sizeof_Elf32_Dyn, BitVec.toNat_sub, BitVec.toNat_ofNat, Nat.reducePow, Nat.reduceMod,
          decide_eq_false_iff_not] at *
        omega
      rw [g3, g4, ho]
      simp only [Bool.false_eq_true, if_false]
      exact readRec32_total e sec d hd _ (by omega)

/-- what the dynamic accessor needs of its two sections, and of its cached count -/
structure DynReady (a : DynAcc) : Prop where
  sec : Settled a.sec
  buf : BufOk a.sec
  str : ∀ s, a.str = some s → Settled s ∧ BufOk s
  cache : a.cache.toNat ≤ a.sec.size.toNat / a.sec.entSize.toNat

theorem DynReady.withCache {a : DynAcc} (h : DynReady a) (n : BitVec 64)
    (hn : n.toNat ≤ a.sec.size.toNat / a.sec.entSize.toNat) : DynReady { a with cache := n } :=
  ⟨h.sec, h.buf, h.str, hn⟩

/-- `get_entry` behind `get_entries_num()`: for any count not above `size / entsize` and ANY index
    it returns, and leaves both sections as they are -/
theorem getEntryCore_total (a : DynAcc) (h : DynReady a) (count idx : BitVec 64)
    (hc : count.toNat ≤ a.sec.size.toNat / a.sec.entSize.toNat) :
    ∃ r, a.getEntryCore count idx = .ok (a, r) := by
  unfold DynAcc.getEntryCore
  dyn_tie
  by_cases g0 : dyn_get_index_invalid idx count = true
  · rw [if_pos g0]; exact ⟨_, rfl⟩
  · rw [if_neg g0]
    have hi : idx.toNat < a.sec.size.toNat / a.sec.entSize.toNat := by
      unfold dyn_get_index_invalid at g0
      bvn'
      omega
    rw [getData_of_settled h.sec]
    obtain ⟨r, hr⟩ := rawEntryOn_total (dyn_get_is32 (DynAcc.classByte a.cfg.cls)) a.cfg.enc a.sec h.buf idx hi
    obtain ⟨tag, value⟩ := r
    simp only [hr, bind, Except.bind]
    split
    · obtain ⟨s, hs⟩ := dynGetString_total a.str h.str (dyn_get_string_index value)
      simp only [hs]
      cases s with
      | none => exact ⟨_, rfl⟩
      | some s => exact ⟨_, rfl⟩
    · exact ⟨_, rfl⟩

theorem numLoop_total (a : DynAcc) (h : DynReady a) :
    ∀ (fuel : Nat) (i prev : BitVec 64), ∃ i', DynAcc.numLoop fuel a i prev = .ok (a, i') := by
  intro fuel
  induction fuel with
  | zero => intro i prev; exact ⟨i, rfl⟩
  | succ f ih =>
    intro i prev
    unfold DynAcc.numLoop
    dyn_tie
    split
    · obtain ⟨r, hr⟩ := getEntryCore_total a h a.cache i h.cache
      simp only [hr, bind, Except.bind]
      split
      · exact ⟨_, rfl⟩
      · exact ih _ _
    · exact ⟨_, rfl⟩

theorem clamp_le (n i : BitVec 64) : (dyn_num_clamp n i).toNat ≤ n.toNat := by
  unfold dyn_num_clamp
  split
  · rename_i h
    rw [BitVec.ult] at h
    simp only [decide_eq_true_eq] at h
    omega
  · exact Nat.le_refl _

/-- **dyn_entriesNum_total** : `get_entries_num()` returns on ANY settled section (entry size 0, too
    small, huge, not dividing the size; no DT_NULL; no data), touches nothing but the cached count, and
    the count never exceeds `size / entsize` -/
theorem dyn_entriesNum_total (a : DynAcc) (h : DynReady a) :
    ∃ n, a.entriesNum = .ok ({ a with cache := n }, n) ∧
      n.toNat ≤ a.sec.size.toNat / a.sec.entSize.toNat := by
  unfold DynAcc.entriesNum
  dyn_tie
  by_cases hr : dyn_num_recompute a.cache a.sec.entSize a.needed = true
  · rw [if_pos hr]
    have hne : ¬ (a.sec.entSize = 0) := by
      intro h0
      unfold dyn_num_recompute at hr
      rw [h0] at hr
      simp at hr
    rw [if_neg hne]
    have htot : (dyn_num_total a.sec.size a.sec.entSize).toNat = a.sec.size.toNat / a.sec.entSize.toNat := by
      unfold dyn_num_total; rw [BitVec.toNat_udiv]
    have h1 : DynReady { a with cache := dyn_num_total a.sec.size a.sec.entSize } :=
      h.withCache _ (by rw [htot]; exact Nat.le_refl _)
    obtain ⟨i, hi⟩ := numLoop_total _ h1 (dyn_num_total a.sec.size a.sec.entSize).toNat 0 (BitVec.ofNat 64 DT_NULL)
    simp only [hi, bind, Except.bind, pure, Except.pure]
    refine ⟨_, rfl, ?_⟩
    have := clamp_le (dyn_num_total a.sec.size a.sec.entSize) i
    rw [htot] at this
    exact this
  · rw [if_neg hr]
    exact ⟨a.cache, rfl, h.cache⟩

/-- **dyn_getEntry_total** : `get_entry(index, …)` returns for EVERY 64-bit index on any settled
    section, and leaves both sections as they are (only the cached count changes) -/
theorem dyn_getEntry_total (a : DynAcc) (h : DynReady a) (idx : BitVec 64) :
    ∃ n r, a.getEntry idx = .ok ({ a with cache := n }, r) ∧
      n.toNat ≤ a.sec.size.toNat / a.sec.entSize.toNat := by
  unfold DynAcc.getEntry
  obtain ⟨n, hn, hle⟩ := dyn_entriesNum_total a h
  obtain ⟨r, hr⟩ := getEntryCore_total _ (h.withCache n hle) n idx hle
  simp only [hn, bind, Except.bind, hr]
  exact ⟨n, r, rfl, hle⟩

theorem dynDumpLoop_total (n : BitVec 64) :
    ∀ (fuel : Nat) (a : DynAcc) (i : BitVec 64), DynReady a → dynDumpLoop n fuel a i = .ok () := by
  intro fuel
  induction fuel with
  | zero => intro a i _; rfl
  | succ f ih =>
    intro a i h
    unfold dynDumpLoop
    split
    · obtain ⟨m, r, hr, hle⟩ := dyn_getEntry_total a h i
      simp only [hr]
      split
      · rfl
      · exact ih _ _ (h.withCache m hle)
    · rfl

/-! ### the symbol accessor on arbitrary sections -/

structure SymReady (t : SymTab) : Prop where
  sym : Settled t.sym
  buf : BufOk t.sym
  str : ∀ s, t.str = some s → Settled s ∧ BufOk s

theorem secData_of_settled {s : SecBuf} (h : Settled s) : secData s = s.data := by
  unfold secData; rw [getData_of_settled h]

theorem symGetString_total (s : Option SecBuf) (h : ∀ s0, s = some s0 → Settled s0 ∧ BufOk s0)
    (idx : BitVec 32) : ∃ r, SymTab.getString s idx = .ok r := by
  cases s with
  | none => exact ⟨none, rfl⟩
  | some s0 =>
    obtain ⟨hs, hb⟩ := h s0 rfl
    unfold SymTab.getString
    simp only [secData_of_settled hs]
    by_cases h1 : str_get_oob idx s0.size s0.data.isNone = true
    · rw [if_pos h1]; exact ⟨none, rfl⟩
    · rw [if_neg h1]
      by_cases h2 : symstr_get_underflow (symstr_get_remaining s0.size idx) s0.size = true
      · rw [if_pos h2]; exact ⟨none, rfl⟩
      · rw [if_neg h2]
        cases hd : s0.data with
        | none => exact ⟨none, rfl⟩
        | some d =>
          have hlt := hb d hd
          have hsz := s0.size.isLt
          have hix := idx.isLt
          have hrem : idx.toNat + (symstr_get_remaining s0.size idx).toNat ≤ d.length := by
            unfold str_get_oob at h1
            unfold symstr_get_remaining
            rw [hd] at h1
            bvn'
            omega
          simp only []
          cases hc : SymTab.cstr (slice d idx.toNat (symstr_get_remaining s0.size idx).toNat) with
          | some str => exact ⟨_, rfl⟩
          | none =>
            simp only []
            rw [if_neg (by rw [slice_length_of_le hrem]; omega)]
            exact ⟨_, rfl⟩

/-- **sym_num_total** : `get_symbols_num()` returns on any section (entry size 0 / small / huge) -/
theorem sym_num_total (t : SymTab) : ∃ n, t.symbolsNum = .ok n ∧
    (n.toNat ≠ 0 → n.toNat = t.sym.size.toNat / t.sym.entSize.toNat ∧
      SymTab.symSizeOf t.cfg.cls ≤ t.sym.entSize.toNat) := by
  have key : ∀ (minSz : BitVec 64) (k : Nat), minSz.toNat = k → 0 < k → SymTab.symSizeOf t.cfg.cls = k →
      ∃ n, (if sym_num_cond t.sym.entSize minSz t.sym.size t.sym.streamSize then
              if t.sym.entSize = 0 then (throw (.divZero "get_symbols_num") : M (BitVec 64))
              else pure (sym_num_div t.sym.size t.sym.entSize)
            else pure 0) = .ok n ∧
        (n.toNat ≠ 0 → n.toNat = t.sym.size.toNat / t.sym.entSize.toNat ∧
          SymTab.symSizeOf t.cfg.cls ≤ t.sym.entSize.toNat) := by
    intro minSz k hk hk0 hsz
    by_cases hc : sym_num_cond t.sym.entSize minSz t.sym.size t.sym.streamSize = true
    · rw [if_pos hc]
      have hge : k ≤ t.sym.entSize.toNat := by
        unfold sym_num_cond at hc
        simp only [BitVec.ule, Bool.and_eq_true, decide_eq_true_eq] at hc
        omega
      have hne : ¬ (t.sym.entSize = 0) := by
        intro h0
        rw [h0] at hge
        have : (0 : BitVec 64).toNat = 0 := rfl
        omega
      rw [if_neg hne]
      refine ⟨_, rfl, fun _ => ⟨?_, by omega⟩⟩
      unfold sym_num_div; rw [BitVec.toNat_udiv]
    · rw [if_neg hc]
      exact ⟨0, rfl, fun h => absurd rfl h⟩
  rw [SymTab.symbolsNum_hand]
  cases hcl : t.cfg.cls
  · have := key sym_num_min32 16 (by decide) (by decide) (by rw [hcl]; rfl)
    rw [hcl] at this
    exact this
  · have := key sym_num_min64 24 (by decide) (by decide) (by rw [hcl]; rfl)
    rw [hcl] at this
    exact this

/-- **sym_get_total** : `get_symbol(index, …)` returns for EVERY 64-bit index on any settled symbol
    section with any linked string section (st_name out of range, unterminated strings) -/
theorem sym_get_total (t : SymTab) (h : SymReady t) (idx : BitVec 64) (str : Bytes) (a : Attrs) :
    ∃ r, t.getSymbol idx str a = .ok r := by
  rw [SymTie.getSymbol_unfold]
  simp only [secData_of_settled h.sym]
  unfold SymTab.guardNum
  cases hd : t.sym.data with
  | none =>
    simp only [Option.isNone_none, if_true, bind, Except.bind, pure, Except.pure, sym32_get_guard,
      sym64_get_guard, Bool.not_true, Bool.false_and, ite_self, Bool.false_eq_true, if_false]
    exact ⟨_, rfl⟩
  | some d =>
    obtain ⟨n, hn, hnz⟩ := sym_num_total t
    simp only [Option.isNone_some, Bool.false_eq_true, if_false, hn, bind, Except.bind]
    have hg : (if t.c32 = true then sym32_get_guard false idx n else sym64_get_guard false idx n) =
        decide (idx.toNat < n.toNat) := by
      simp [sym32_get_guard, sym64_get_guard, BitVec.ult]
    rw [hg]
    by_cases hi : idx.toNat < n.toNat
    · simp only [hi, decide_true, if_true]
      obtain ⟨hn1, hge⟩ := hnz (by omega)
      have hin := rec_inside (hn1 ▸ hi)
      have hlt := h.buf d hd
      have hS := t.sym.size.isLt
      have ho : (if t.c32 = true then sym32_get_off idx t.sym.entSize else sym64_get_off idx t.sym.entSize).toNat
          = idx.toNat * t.sym.entSize.toNat := by
        simp only [sym32_get_off, sym64_get_off, ite_self]
        rw [BitVec.toNat_mul]
        simp only [Nat.reducePow] at *
        exact Nat.mod_eq_of_lt (by omega)
      rw [ho, rdRange_some_ok (by omega)]
      simp only []
      obtain ⟨s, hs⟩ := symGetString_total t.str h.str
        (SymTab.decodeRaw t.cfg (slice d (idx.toNat * t.sym.entSize.toNat) (SymTab.symSizeOf t.cfg.cls))).name
      simp only [hs]
      exact ⟨_, rfl⟩
    · simp only [hi, decide_false, Bool.false_eq_true, if_false]
      exact ⟨_, rfl⟩

theorem getSym_total (t : SymTab) (h : SymReady t) (k : BitVec 64) : ∃ r, getSym t k = .ok r := by
  unfold getSym
  obtain ⟨r, hr⟩ := sym_get_total t h k [] {}
  simp only [hr]
  exact ⟨_, rfl⟩

theorem allSyms_total (t : SymTab) (h : SymReady t) (n : Nat) : allSyms t n = .ok () := by
  unfold allSyms
  obtain ⟨u, hu, -⟩ := forIdx_total (fun _ : Unit => True)
    (fun _ k => ignore (getSym t (BitVec.ofNat 64 k)))
    (fun s k _ => by
      obtain ⟨r, hr⟩ := getSym_total t h (BitVec.ofNat 64 k)
      exact ⟨(), by simp only [hr, ignore]; rfl, trivial⟩)
    (List.range n) () trivial
  exact hu

/-! ### `dump::segment_headers` : every member section exists -/

theorem allM_total {α : Type} (f : α → M Unit) : ∀ (l : List α), (∀ x ∈ l, f x = .ok ()) → allM l f = .ok () := by
  intro l
  induction l with
  | nil => intro _; rfl
  | cons x rest ih =>
    intro h
    unfold allM
    rw [h x (by simp)]
    exact ih (fun y hy => h y (by simp [hy]))

theorem dumpSegMembers_total (o : Obj) (h : MembersOk o) : dumpSegMembers o = .ok () := by
  unfold dumpSegMembers
  apply allM_total
  intro g hg
  apply allM_total
  intro m hm
  have hlt := h g (List.mem_of_mem_take hg) m hm
  unfold memberCheck
  rw [List.getElem?_eq_getElem hlt]
  rfl

/-- what the data requests leave alone: the number of sections and the segments' member lists -/
def Frame (o o' : Obj) : Prop :=
  o'.secs.length = o.secs.length ∧ ∀ g' ∈ o'.segs, ∃ g ∈ o.segs, g'.secs = g.secs

theorem Frame.refl (o : Obj) : Frame o o := ⟨rfl, fun g hg => ⟨g, hg, rfl⟩⟩

theorem Frame.trans {a b c : Obj} (h1 : Frame a b) (h2 : Frame b c) : Frame a c := by
  refine ⟨h2.1.trans h1.1, fun g hg => ?_⟩
  obtain ⟨g1, hg1, e1⟩ := h2.2 g hg
  obtain ⟨g0, hg0, e0⟩ := h1.2 g1 hg1
  exact ⟨g0, hg0, e1.trans e0⟩

theorem Frame.of_secs {o o' : Obj} (hl : o'.secs.length = o.secs.length) (hg : o'.segs = o.segs) : Frame o o' :=
  ⟨hl, fun g h => ⟨g, hg ▸ h, rfl⟩⟩

theorem Frame.members {o o' : Obj} (f : Frame o o') (h : MembersOk o) : MembersOk o' :=
  h.of_same f.1 f.2

end Inspect
end ElfioVerif
