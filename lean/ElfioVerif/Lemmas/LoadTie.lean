/-
Bridging lemmas between the expressions regenerated from the C++ source (Gen/SitesLoad.lean,
Gen/Sites.lean) that the loader model calls and the hand forms the loader proofs were written
against.  Each lemma is `generated site args = hand expression`; it is proved by unfolding the
generated definition, so a change of the source text of the condition breaks the lemma and with it
every theorem downstream (LoadSafety, LoadSpec, C01 C02 C15 C17 ...).

Also here: the 32-bit instantiation of a class template yields the same expression as the 64-bit
one (`rfl`), so the model may call either.
-/
import ElfioVerif.Model.Load
namespace ElfioVerif
namespace LoadTie
open Gen

/-! ### `section_impl<T>::load` / `segment_impl<T>::load` -/

theorem sec32_load_unseekable_eq : sec32_load_unseekable = sec64_load_unseekable := rfl
theorem seg32_load_unseekable_eq : seg32_load_unseekable = sec64_load_unseekable := rfl
theorem sec32_load_stream_size_eq : sec32_load_stream_size = sec64_load_stream_size := rfl
theorem seg64_load_stream_size_eq : seg64_load_stream_size = sec64_load_stream_size := rfl
theorem seg32_load_stream_size_eq : seg32_load_stream_size = sec64_load_stream_size := rfl
theorem sec32_load_eager_eq : sec32_load_eager = sec64_load_eager := rfl
theorem seg64_load_eager_eq : seg64_load_eager = sec64_load_eager := rfl
theorem seg32_load_eager_eq : seg32_load_eager = sec64_load_eager := rfl

/-- `set_stream_size( size_t( stream.tellg() ) )` : the position converted to `size_t` -/
@[simp] theorem load_stream_size_val (p : BitVec 64) : sec64_load_stream_size p = p := rfl

/-- `if ( !( is_lazy || is_loaded ) )` -/
theorem load_eager_val (isLazy isLoaded : Bool) : sec64_load_eager isLazy isLoaded = !(isLazy || isLoaded) := rfl

/-- the eager test of either class -/
@[simp] theorem secEager_val (c : Cls) (isLazy isLoaded : Bool) :
    secEager c isLazy isLoaded = !(isLazy || isLoaded) := by
  cases c <;> rfl

@[simp] theorem segEager_val (c : Cls) (isLazy isLoaded : Bool) :
    segEager c isLazy isLoaded = !(isLazy || isLoaded) := by
  cases c <;> rfl

theorem ofNat64_bne (g n : Nat) (hg : g < 18446744073709551616) (hn : n < 18446744073709551616) :
    (BitVec.ofNat 64 g != BitVec.ofNat 64 n) = (g != n) := by
  by_cases h : g = n
  · subst h
    rw [bne_self_eq_false, bne_self_eq_false]
  · have h2 : BitVec.ofNat 64 g ≠ BitVec.ofNat 64 n := by
      intro hh
      have := congrArg BitVec.toNat hh
      simp only [BitVec.toNat_ofNat, Nat.reducePow] at this
      rw [Nat.mod_eq_of_lt hg, Nat.mod_eq_of_lt hn] at this
      exact h this
    rw [bne_iff_ne.mpr h, bne_iff_ne.mpr h2]

/-- `if ( static_cast<size_t>( stream.gcount() ) != sizeof( header ) )` -/
theorem secShortHdr_val (c : Cls) (g : Nat) (hg : g < 18446744073709551616) :
    secShortHdr c (BitVec.ofNat 64 g) = (g != shdrSize c) := by
  cases c
  · exact ofNat64_bne g sizeof_Elf32_Shdr hg (by decide)
  · exact ofNat64_bne g sizeof_Elf64_Shdr hg (by decide)

/-- a `read` stores at most what was asked for -/
theorem read_gcount_le (s : IStream) (n : Nat) : (s.read n).1.gcount ≤ n := by
  unfold IStream.read
  split
  · simp
  · split
    · simp
    · simp only [slice, List.length_take]; omega

/-- `section_impl::load` with its two generated conditions in hand form -/
theorem secLoad_hand (c : Cls) (enc : Enc) (tr : List Trans) (ls : LoadSt) (hdrOff : Int) (isLazy : Bool)
    (idx : Nat) :
    secLoad c enc tr ls hdrOff isLazy idx =
      (let (st, ss) := streamSizeOf tr ls.st
       let st := st.seekg (trApply tr hdrOff)
       let (st, got) := st.read (shdrSize c)
       let b0 : SecBuf := { cls := c, stype := 0, size := 0, data := none, dataSize := 0, streamSize := ss,
                            translatorEmpty := tr.isEmpty, isLazy := isLazy, index := idx }
       let ls := { ls with st := st }
       if st.gcount != shdrSize c then
         (ls, { b0 with addrSet := true })
       else
         let b := decodeShdr c enc got b0
         let b := { b with fileData := fileDataOf c tr st b }
         if sec64_load_eager isLazy b.isLoaded then
           let (ls, b) := secGetData c tr ls b
           (ls, { b with addrSet := true })
         else (ls, { b with addrSet := true })) := by
  unfold secLoad
  generalize streamSizeOf tr ls.st = p
  obtain ⟨st0, ss⟩ := p
  simp only []
  have hg := read_gcount_le (st0.seekg (trApply tr hdrOff)) (shdrSize c)
  generalize (st0.seekg (trApply tr hdrOff)).read (shdrSize c) = r at hg
  obtain ⟨st1, got⟩ := r
  have hs : shdrSize c ≤ 64 := by cases c <;> decide
  simp only [] at hg ⊢
  rw [secShortHdr_val c st1.gcount (by omega), secEager_val]
  rfl

/-- `segment_impl::load` with its generated condition in hand form -/
theorem segLoad_hand (c : Cls) (enc : Enc) (tr : List Trans) (ls : LoadSt) (hdrOff : Int) (isLazy : Bool) :
    segLoad c enc tr ls hdrOff isLazy =
      (let (st, ss) := streamSizeOf tr ls.st
       let st := st.seekg (trApply tr hdrOff)
       let (st, got) := st.read (phdrSize c)
       let raw := wr (List.replicate (phdrSize c) 0) 0 got
       let g : Seg := decodePhdr c enc raw { streamSize := ss, isLazy := isLazy, offsetSet := true }
       let ls := { ls with st := st }
       if !(isLazy || g.isLoaded) then
         let (ls, g, ok) := segLoadData c tr ls g
         (ls, g, ok)
       else (ls, g, true)) := by
  cases c <;> rfl

/-! ### `section_impl<T>::load_data` -/

theorem sec32_load_data_complete_eq : sec32_load_data_complete = sec64_load_data_complete := rfl

@[simp] theorem secNeedsLoad_val (c : Cls) (dn : Bool) (ty : BitVec 32) :
    secNeedsLoad c dn ty = (dn && !isNullOrNobitsTy ty) := by
  have e0 : SHT_NULL = 0 := rfl
  have e8 : SHT_NOBITS = 8 := rfl
  cases c <;>
  · simp only [secNeedsLoad, sec32_load_data_need, sec64_load_data_need, isNullOrNobitsTy, e0, e8]
    cases dn <;> simp [bne, BEq.comm]

@[simp] theorem secSizeT_val (c : Cls) (size : BitVec 64) : secSizeT c size = sec64_load_data_sizet size := by
  cases c <;> rfl
@[simp] theorem secAllocN_val (c : Cls) (size : BitVec 64) : secAllocN c size = sec64_load_data_alloc size := by
  cases c <;> rfl
@[simp] theorem secSeekTo_val (c : Cls) (off : BitVec 64) : secSeekTo c off = off := by cases c <;> rfl
@[simp] theorem secReadN_val (c : Cls) (size : BitVec 64) : secReadN c size = size := by cases c <;> rfl
@[simp] theorem secIncomplete_val (c : Cls) (b : Bool) : secIncomplete c b = !b := by cases c <;> rfl

/-- `(0 != size) && (nullptr != data)` -/
@[simp] theorem secDoRead_val (c : Cls) (size : BitVec 64) (dn : Bool) :
    secDoRead c size dn = (size != 0 && !dn) := by
  cases c <;>
  · simp only [secDoRead, sec32_load_data_do_read, sec64_load_data_do_read]
    cases dn <;> simp [bne, BEq.comm]

/-- `if (size != 0) return false;` -/
@[simp] theorem secAllocFailed_val (c : Cls) (size : BitVec 64) : secAllocFailed c size = (size != 0) := by
  cases c <;> simp [secAllocFailed, sec32_load_data_alloc_failed, sec64_load_data_alloc_failed]

/-- `(nullptr != data) || (SHT_NULL == get_type()) || (SHT_NOBITS == get_type())` -/
@[simp] theorem secLoadedAfter_val (c : Cls) (dn : Bool) (ty : BitVec 32) :
    secLoadedAfter c dn ty = (!dn || isNullOrNobitsTy ty) := by
  have e0 : SHT_NULL = 0 := rfl
  have e8 : SHT_NOBITS = 8 := rfl
  cases c <;>
  · simp only [secLoadedAfter, sec32_load_data_loaded, sec64_load_data_loaded, isNullOrNobitsTy, e0, e8]
    cases dn <;> simp [BEq.comm]

/-- `static_cast<Elf_Xword>(pstream->gcount()) == size` for a count that fits 64 bits -/
theorem load_data_complete_val (g : Nat) (n : BitVec 64) (hg : g < 18446744073709551616) :
    sec64_load_data_complete (BitVec.ofNat 64 g) n = (g == n.toNat) := by
  unfold sec64_load_data_complete
  by_cases h : g = n.toNat
  · subst h; simp
  · have : BitVec.ofNat 64 g ≠ n := by
      intro hh
      have := congrArg BitVec.toNat hh
      simp only [BitVec.toNat_ofNat, Nat.reducePow] at this
      rw [Nat.mod_eq_of_lt hg] at this
      exact h this
    rw [beq_eq_false_iff_ne.mpr this, beq_eq_false_iff_ne.mpr h]

theorem readNeg_gcount (s : IStream) : s.readNeg.gcount = 0 := by
  unfold IStream.readNeg; split <;> rfl

/-- the isolated read with `is_complete` in hand form -/
theorem isolatedRead_hand (st : IStream) (off n : BitVec 64) :
    isolatedRead st off n =
      (let st1 := (st.clear).seekg off.toInt
       let (st2, got, complete) :=
         if n.toInt < 0 then (st1.readNeg, ([] : Bytes), false)
         else
           let r := st1.read n.toNat
           (r.1, r.2, r.1.gcount == n.toNat)
       ({ st2 with eof := st2.eof || st.eof, fail := st2.fail || st.fail }, got, complete)) := by
  unfold isolatedRead
  simp only []
  split
  · rename_i hneg
    simp only [readNeg_gcount]
    have : sec64_load_data_complete (BitVec.ofNat 64 0) n = false := by
      rw [load_data_complete_val 0 n (by decide)]
      have : n.toNat ≠ 0 := by
        intro h0
        have : n = 0 := BitVec.eq_of_toNat_eq (by simpa using h0)
        subst this
        simp at hneg
      simp [Ne.symm this]
    rw [this]
  · have hle := read_gcount_le ((st.clear).seekg off.toInt) n.toNat
    have := n.isLt
    simp only []
    rw [load_data_complete_val _ n (by omega)]

/-- `section_impl::load_data` with its generated conditions in hand form -/
theorem secLoadData_hand (c : Cls) (tr : List Trans) (ls : LoadSt) (b : SecBuf) :
    secLoadData c tr ls b =
      (let off : BitVec 64 := BitVec.ofInt 64 (trApply tr b.offset.toInt)
       let size := b.size
       let offGt := match c with
         | .c32 => sec32_load_data_off_gt off b.streamSize
         | .c64 => sec64_load_data_off_gt off b.streamSize
       if offGt then (ls, b, false) else
       let sizeGt := match c with
         | .c32 => sec32_load_data_size_gt size b.streamSize off
         | .c64 => sec64_load_data_size_gt size b.streamSize off
       if sizeGt then (ls, b, false) else
       if b.data.isNone && !isNullOrNobitsTy b.stype then
         if sec64_load_data_sizet size then (ls, b, false) else
         let n := (sec64_load_data_alloc size).toNat
         let ls := { ls with allocs := ls.allocs ++ [n] }
         if size != 0 then
           let (st, got, complete) := isolatedRead ls.st off size
           let ls := { ls with st := st }
           if !complete then (ls, { b with data := none, dataSize := 0 }, false)
           else (ls, { b with data := some (got ++ [0]), dataSize := size, isLoaded := true }, true)
         else (ls, { b with data := some (alloc 1), dataSize := 0, isLoaded := true }, true)
       else
         let l := b.data.isSome || isNullOrNobitsTy b.stype
         (ls, { b with isLoaded := l }, l)) := by
  have hsome : (!b.data.isNone) = b.data.isSome := by cases b.data <;> rfl
  unfold secLoadData
  simp only [secNeedsLoad_val, secSizeT_val, secAllocN_val, secDoRead_val, secSeekTo_val, secReadN_val,
    secIncomplete_val, secAllocFailed_val, secLoadedAfter_val, hsome, Bool.not_false, Bool.and_true]
  cases c <;> (repeat' split) <;> first | rfl | (simp_all; done)

/-! ### `segment_impl<T>::load_data` -/

theorem seg32_load_data_ok_eq : seg32_load_data_ok = seg64_load_data_ok := rfl
theorem seg32_load_data_seek_eq : seg32_load_data_seek = seg64_load_data_seek := rfl
theorem seg32_load_data_readn_eq : seg32_load_data_readn = seg64_load_data_readn := rfl

/-- `if ( is_complete )` -/
@[simp] theorem segDataOk_val (c : Cls) (b : Bool) : segDataOk c b = b := by cases c <;> rfl

/-- `pstream->seekg( p_offset )` -/
@[simp] theorem segSeekTo_val (c : Cls) (off : BitVec 64) : segSeekTo c off = off := by cases c <;> rfl

/-- `pstream->read( data.get(), size )` -/
@[simp] theorem segReadN_val (c : Cls) (size : BitVec 64) : segReadN c size = size := by cases c <;> rfl

end LoadTie
end ElfioVerif
