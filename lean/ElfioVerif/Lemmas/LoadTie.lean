/-
Bridging lemmas between the expressions regenerated from the C++ source (Gen/SitesLoad.lean,
Gen/Sites.lean) that the loader model calls and the hand forms the loader proofs were written
against.  Each lemma is `generated site args = hand expression`; it is proved by unfolding the
generated definition, so a change of the source text of the condition breaks the lemma and with it
every theorem downstream (LoadSafety, LoadSpec, C01 C02 C15 C17 ...).

Also here: the 32-bit instantiation of a class template yields the same expression as the 64-bit
one (`rfl`), so the model may call either.
-/
import ElfioVerif.Model.Load
namespace ElfioVerif
open Gen

/-! ### reference forms of the loader loops

The loops the loader proofs (LoadSafety, LoadSpec, LoadMembers, C15, C17) were written against:
structural recursion on the number of remaining headers, the class fixed by the caller.  The model
(`loadSectionsLoopG`, `loadSegmentsLoopG` in Model/Load.lean) evaluates the generated loop condition,
class dispatch and failure test instead; `LoadTie.loadSectionsLoopG_eq` / `loadSegmentsLoopG_eq` prove
the two equal, so every theorem about these forms is a theorem about the model. -/

def loadSectionsLoop (c : Cls) (enc : Enc) (tr : List Trans) (isLazy : Bool) (shoff : Int) (entsize : Nat) :
    Nat → Nat → LoadSt → List SecBuf → LoadSt × List SecBuf
  | 0, _, ls, acc => (ls, acc.reverse)
  | n + 1, i, ls, acc =>
    let (ls, b) := secLoad c enc tr ls (shoff + (Int.ofNat i) * (Int.ofNat entsize)) isLazy i
    loadSectionsLoop c enc tr isLazy shoff entsize n (i + 1) ls (b :: acc)

def loadSegmentsLoop (c : Cls) (enc : Enc) (tr : List Trans) (isLazy : Bool) (phoff : Int) (entsize : Nat)
    (secs : List SecBuf) : Nat → Nat → LoadSt → List Seg → LoadSt × List Seg × Bool
  | 0, _, ls, acc => (ls, acc.reverse, true)
  | n + 1, i, ls, acc =>
    let (ls, g, ok) := segLoad c enc tr ls (phoff + (Int.ofNat i) * (Int.ofNat entsize)) isLazy
    if !ok || ls.st.fail then (ls, acc.reverse, false)
    else
      let members := (secs.filter (memberOf g)).map (fun b => BitVec.ofNat 16 b.index)
      let g := { g with index := i, secs := members }
      loadSegmentsLoop c enc tr isLazy phoff entsize secs n (i + 1) ls (g :: acc)

/-- reference form of the bounded string lookup: bytes of `data` from `idx` up to (excluding) the first
    NUL, searching `[idx, size)` (`LoadTie.getString_hand`: the model's `getString`, which evaluates the
    generated bounds tests of `get_string`, is this lookup) -/
def cstrAt (site : String) (data : Bytes) (size idx : Nat) : M (Option Bytes) :=
  if idx ≥ size then pure none else
  let avail := slice data idx (size - idx)
  match avail.idxOf? (0 : UInt8) with
  | some k => pure (some (avail.take k))
  | none => if avail.length < size - idx then throw (.oobRead site) else pure none

/-- reference form of the name loop of `load_sections`: one `get_string` per section, in order
    (`LoadTie.resolveNamesG_eq`: the model's indexed loop over `sections[i]` with the generated loop
    condition and `p != nullptr` test is this map) -/
def resolveNames (strtab : SecBuf) : List SecBuf → M (List SecBuf)
  | [] => pure []
  | b :: rest => do
    let r ← getString strtab b.nameOff
    let b := match r with | some s => { b with name := s } | none => b
    let rest ← resolveNames strtab rest
    pure (b :: rest)

namespace LoadTie

/-! ### `section_impl<T>::load` / `segment_impl<T>::load` -/

theorem sec32_load_unseekable_eq : sec32_load_unseekable = sec64_load_unseekable := rfl
theorem seg32_load_unseekable_eq : seg32_load_unseekable = sec64_load_unseekable := rfl
theorem sec32_load_stream_size_eq : sec32_load_stream_size = sec64_load_stream_size := rfl
theorem seg64_load_stream_size_eq : seg64_load_stream_size = sec64_load_stream_size := rfl
theorem seg32_load_stream_size_eq : seg32_load_stream_size = sec64_load_stream_size := rfl
theorem sec32_load_eager_eq : sec32_load_eager = sec64_load_eager := rfl
theorem seg64_load_eager_eq : seg64_load_eager = sec64_load_eager := rfl
theorem seg32_load_eager_eq : seg32_load_eager = sec64_load_eager := rfl

/-- `set_stream_size( size_t( stream.tellg() ) )` : the position converted to `size_t` -/
@[simp] theorem load_stream_size_val (p : BitVec 64) : sec64_load_stream_size p = p := rfl

/-- `if ( !( is_lazy || is_loaded ) )` -/
theorem load_eager_val (isLazy isLoaded : Bool) : sec64_load_eager isLazy isLoaded = !(isLazy || isLoaded) := rfl

/-- the eager test of either class -/
@[simp] theorem secEager_val (c : Cls) (isLazy isLoaded : Bool) :
    secEager c isLazy isLoaded = !(isLazy || isLoaded) := by
  cases c <;> rfl

@[simp] theorem segEager_val (c : Cls) (isLazy isLoaded : Bool) :
    segEager c isLazy isLoaded = !(isLazy || isLoaded) := by
  cases c <;> rfl

theorem ofNat64_bne (g n : Nat) (hg : g < 18446744073709551616) (hn : n < 18446744073709551616) :
    (BitVec.ofNat 64 g != BitVec.ofNat 64 n) = (g != n) := by
  by_cases h : g = n
  · subst h
    rw [bne_self_eq_false, bne_self_eq_false]
  · have h2 : BitVec.ofNat 64 g ≠ BitVec.ofNat 64 n := by
      intro hh
      have := congrArg BitVec.toNat hh
      simp only [BitVec.toNat_ofNat, Nat.reducePow] at this
      rw [Nat.mod_eq_of_lt hg, Nat.mod_eq_of_lt hn] at this
      exact h this
    rw [bne_iff_ne.mpr h, bne_iff_ne.mpr h2]

/-- `if ( static_cast<size_t>( stream.gcount() ) != sizeof( header ) )` -/
theorem secShortHdr_val (c : Cls) (g : Nat) (hg : g < 18446744073709551616) :
    secShortHdr c (BitVec.ofNat 64 g) = (g != shdrSize c) := by
  cases c
  · exact ofNat64_bne g sizeof_Elf32_Shdr hg (by decide)
  · exact ofNat64_bne g sizeof_Elf64_Shdr hg (by decide)

/-- a `read` stores at most what was asked for -/
theorem read_gcount_le (s : IStream) (n : Nat) : (s.read n).1.gcount ≤ n := by
  unfold IStream.read
  split
  · simp
  · split
    · simp
    · simp only [slice, List.length_take]; omega

/-- `section_impl::load` with its two generated conditions in hand form -/
theorem secLoad_hand (c : Cls) (enc : Enc) (tr : List Trans) (ls : LoadSt) (hdrOff : Int) (isLazy : Bool)
    (idx : Nat) :
    secLoad c enc tr ls hdrOff isLazy idx =
      (let (st, ss) := streamSizeOf tr ls.st
       let st := st.seekg (trApply tr hdrOff)
       let (st, got) := st.read (shdrSize c)
       let b0 : SecBuf := { cls := c, stype := 0, size := 0, data := none, dataSize := 0, streamSize := ss,
                            translatorEmpty := tr.isEmpty, isLazy := isLazy, index := idx }
       let ls := { ls with st := st }
       if st.gcount != shdrSize c then
         (ls, { b0 with addrSet := true })
       else
         let b := decodeShdr c enc got b0
         let b := { b with fileData := fileDataOf c tr st b }
         if sec64_load_eager isLazy b.isLoaded then
           let (ls, b) := secGetData c tr ls b
           (ls, { b with addrSet := true })
         else (ls, { b with addrSet := true })) := by
  unfold secLoad
  generalize streamSizeOf tr ls.st = p
  obtain ⟨st0, ss⟩ := p
  simp only []
  have hg := read_gcount_le (st0.seekg (trApply tr hdrOff)) (shdrSize c)
  generalize (st0.seekg (trApply tr hdrOff)).read (shdrSize c) = r at hg
  obtain ⟨st1, got⟩ := r
  have hs : shdrSize c ≤ 64 := by cases c <;> decide
  simp only [] at hg ⊢
  rw [secShortHdr_val c st1.gcount (by omega), secEager_val]
  rfl

/-- `segment_impl::load` with its generated condition in hand form -/
theorem segLoad_hand (c : Cls) (enc : Enc) (tr : List Trans) (ls : LoadSt) (hdrOff : Int) (isLazy : Bool) :
    segLoad c enc tr ls hdrOff isLazy =
      (let (st, ss) := streamSizeOf tr ls.st
       let st := st.seekg (trApply tr hdrOff)
       let (st, got) := st.read (phdrSize c)
       let raw := wr (List.replicate (phdrSize c) 0) 0 got
       let g : Seg := decodePhdr c enc raw { streamSize := ss, isLazy := isLazy, offsetSet := true }
       let ls := { ls with st := st }
       if !(isLazy || g.isLoaded) then
         let (ls, g, ok) := segLoadData c tr ls g
         (ls, g, ok)
       else (ls, g, g.isLoaded || segRangeOk c tr g)) := by
  cases c <;> rfl

/-! ### `section_impl<T>::load_data` -/

theorem sec32_load_data_complete_eq : sec32_load_data_complete = sec64_load_data_complete := rfl

@[simp] theorem secNeedsLoad_val (c : Cls) (dn : Bool) (ty : BitVec 32) :
    secNeedsLoad c dn ty = (dn && !isNullOrNobitsTy ty) := by
  have e0 : SHT_NULL = 0 := rfl
  have e8 : SHT_NOBITS = 8 := rfl
  cases c <;>
  · simp only [secNeedsLoad, sec32_load_data_need, sec64_load_data_need, isNullOrNobitsTy, e0, e8]
    cases dn <;> simp [bne, BEq.comm]

@[simp] theorem secSizeT_val (c : Cls) (size : BitVec 64) : secSizeT c size = sec64_load_data_sizet size := by
  cases c <;> rfl
@[simp] theorem secAllocN_val (c : Cls) (size : BitVec 64) : secAllocN c size = sec64_load_data_alloc size := by
  cases c <;> rfl
@[simp] theorem secSeekTo_val (c : Cls) (off : BitVec 64) : secSeekTo c off = off := by cases c <;> rfl
@[simp] theorem secReadN_val (c : Cls) (size : BitVec 64) : secReadN c size = size := by cases c <;> rfl
@[simp] theorem secIncomplete_val (c : Cls) (b : Bool) : secIncomplete c b = !b := by cases c <;> rfl

/-- `(0 != size) && (nullptr != data)` -/
@[simp] theorem secDoRead_val (c : Cls) (size : BitVec 64) (dn : Bool) :
    secDoRead c size dn = (size != 0 && !dn) := by
  cases c <;>
  · simp only [secDoRead, sec32_load_data_do_read, sec64_load_data_do_read]
    cases dn <;> simp [bne, BEq.comm]

/-- `if (size != 0) return false;` -/
@[simp] theorem secAllocFailed_val (c : Cls) (size : BitVec 64) : secAllocFailed c size = (size != 0) := by
  cases c <;> simp [secAllocFailed, sec32_load_data_alloc_failed, sec64_load_data_alloc_failed]

/-- `(nullptr != data) || (SHT_NULL == get_type()) || (SHT_NOBITS == get_type())` -/
@[simp] theorem secLoadedAfter_val (c : Cls) (dn : Bool) (ty : BitVec 32) :
    secLoadedAfter c dn ty = (!dn || isNullOrNobitsTy ty) := by
  have e0 : SHT_NULL = 0 := rfl
  have e8 : SHT_NOBITS = 8 := rfl
  cases c <;>
  · simp only [secLoadedAfter, sec32_load_data_loaded, sec64_load_data_loaded, isNullOrNobitsTy, e0, e8]
    cases dn <;> simp [BEq.comm]

/-- `static_cast<Elf_Xword>(pstream->gcount()) == size` for a count that fits 64 bits -/
theorem load_data_complete_val (g : Nat) (n : BitVec 64) (hg : g < 18446744073709551616) :
    sec64_load_data_complete (BitVec.ofNat 64 g) n = (g == n.toNat) := by
  unfold sec64_load_data_complete
  by_cases h : g = n.toNat
  · subst h; simp
  · have : BitVec.ofNat 64 g ≠ n := by
      intro hh
      have := congrArg BitVec.toNat hh
      simp only [BitVec.toNat_ofNat, Nat.reducePow] at this
      rw [Nat.mod_eq_of_lt hg] at this
      exact h this
    rw [beq_eq_false_iff_ne.mpr this, beq_eq_false_iff_ne.mpr h]

theorem readNeg_gcount (s : IStream) : s.readNeg.gcount = 0 := by
  unfold IStream.readNeg; split <;> rfl

/-- the isolated read with `is_complete` in hand form -/
theorem isolatedRead_hand (st : IStream) (off n : BitVec 64) :
    isolatedRead st off n =
      (let st1 := (st.clear).seekg off.toInt
       let (st2, got, complete) :=
         if n.toInt < 0 then (st1.readNeg, ([] : Bytes), false)
         else
           let r := st1.read n.toNat
           (r.1, r.2, r.1.gcount == n.toNat)
       ({ st2 with eof := st2.eof || st.eof, fail := st2.fail || st.fail }, got, complete)) := by
  unfold isolatedRead
  simp only []
  split
  · rename_i hneg
    simp only [readNeg_gcount]
    have : sec64_load_data_complete (BitVec.ofNat 64 0) n = false := by
      rw [load_data_complete_val 0 n (by decide)]
      have : n.toNat ≠ 0 := by
        intro h0
        have : n = 0 := BitVec.eq_of_toNat_eq (by simpa using h0)
        subst this
        simp at hneg
      simp [Ne.symm this]
    rw [this]
  · have hle := read_gcount_le ((st.clear).seekg off.toInt) n.toNat
    have := n.isLt
    simp only []
    rw [load_data_complete_val _ n (by omega)]

/-- `section_impl::load_data` with its generated conditions in hand form -/
theorem secLoadData_hand (c : Cls) (tr : List Trans) (ls : LoadSt) (b : SecBuf) :
    secLoadData c tr ls b =
      (let off : BitVec 64 := BitVec.ofInt 64 (trApply tr b.offset.toInt)
       let size := b.size
       let offGt := match c with
         | .c32 => sec32_load_data_off_gt off b.streamSize
         | .c64 => sec64_load_data_off_gt off b.streamSize
       if offGt then (ls, b, false) else
       let sizeGt := match c with
         | .c32 => sec32_load_data_size_gt size b.streamSize off
         | .c64 => sec64_load_data_size_gt size b.streamSize off
       if sizeGt then (ls, b, false) else
       if b.data.isNone && !isNullOrNobitsTy b.stype then
         if sec64_load_data_sizet size then (ls, b, false) else
         let n := (sec64_load_data_alloc size).toNat
         let ls := { ls with allocs := ls.allocs ++ [n] }
         if size != 0 then
           let (st, got, complete) := isolatedRead ls.st off size
           let ls := { ls with st := st }
           if !complete then (ls, { b with data := none, dataSize := 0 }, false)
           else (ls, { b with data := some (got ++ [0]), dataSize := size, isLoaded := true }, true)
         else (ls, { b with data := some (alloc 1), dataSize := 0, isLoaded := true }, true)
       else
         let l := b.data.isSome || isNullOrNobitsTy b.stype
         (ls, { b with isLoaded := l }, l)) := by
  have hsome : (!b.data.isNone) = b.data.isSome := by cases b.data <;> rfl
  unfold secLoadData
  simp only [secNeedsLoad_val, secSizeT_val, secAllocN_val, secDoRead_val, secSeekTo_val, secReadN_val,
    secIncomplete_val, secAllocFailed_val, secLoadedAfter_val, hsome, Bool.not_false, Bool.and_true]
  cases c <;> (repeat' split) <;> first | rfl | (simp_all; done)

/-! ### `segment_impl<T>::load_data` -/

theorem seg32_load_data_ok_eq : seg32_load_data_ok = seg64_load_data_ok := rfl
theorem seg32_load_data_seek_eq : seg32_load_data_seek = seg64_load_data_seek := rfl
theorem seg32_load_data_readn_eq : seg32_load_data_readn = seg64_load_data_readn := rfl

/-- `if ( is_complete )` -/
@[simp] theorem segDataOk_val (c : Cls) (b : Bool) : segDataOk c b = b := by cases c <;> rfl

/-- `pstream->seekg( p_offset )` -/
@[simp] theorem segSeekTo_val (c : Cls) (off : BitVec 64) : segSeekTo c off = off := by cases c <;> rfl

/-- `pstream->read( data.get(), size )` -/
@[simp] theorem segReadN_val (c : Cls) (size : BitVec 64) : segReadN c size = size := by cases c <;> rfl

/-! ### `segment_impl<T>::is_file_range_valid` and its two callers -/

/-- `if ( !is_file_range_valid() )` -/
@[simp] theorem segRangeBad_val (c : Cls) (r : Bool) : segRangeBad c r = !r := by cases c <;> rfl

/-- `return is_loaded || is_file_range_valid();` -/
@[simp] theorem segLazyRet_val (c : Cls) (l r : Bool) : segLazyRet c l r = (l || r) := by cases c <;> rfl

/-- the first test of `is_file_range_valid()` is the first test of `load_data()` -/
theorem seg64_range_skip_eq : seg64_range_skip = seg64_load_data_skip := rfl
theorem seg32_range_skip_eq : seg32_range_skip = seg64_load_data_skip := rfl

/-- `is_file_range_valid()` with the tests of either instantiation in one form (they are the tests
    `section_impl::load_data` makes) -/
theorem segRangeOk_hand (c : Cls) (tr : List Trans) (g : Seg) :
    segRangeOk c tr g =
      (if seg64_load_data_skip g.stype g.filesz then true else
       if sec64_load_data_off_gt (BitVec.ofInt 64 (trApply tr g.offset.toInt)) g.streamSize then false else
       if sec64_load_data_size_gt g.filesz g.streamSize (BitVec.ofInt 64 (trApply tr g.offset.toInt)) then false else
       if sec64_load_data_sizet g.filesz then false else true) := by
  cases c <;> rfl

/-- `segment_impl::load_data()` with the tests of `is_file_range_valid()` written out in place: the
    decision sequence the function had before the tests moved into the helper (kept as the form the
    proofs case-split on) -/
theorem segLoadData_flat (c : Cls) (tr : List Trans) (ls : LoadSt) (g : Seg) :
    segLoadData c tr ls g =
      (let skip := match c with
         | .c32 => seg32_load_data_skip g.stype g.filesz
         | .c64 => seg64_load_data_skip g.stype g.filesz
       if skip then (ls, g, true) else
       let off : BitVec 64 := BitVec.ofInt 64 (trApply tr g.offset.toInt)
       let size := g.filesz
       let offGt := match c with
         | .c32 => seg32_range_off_gt off g.streamSize
         | .c64 => seg64_range_off_gt off g.streamSize
       if offGt then (ls, { g with data := none }, false) else
       let sizeGt := match c with
         | .c32 => seg32_range_size_gt size g.streamSize off
         | .c64 => seg64_range_size_gt size g.streamSize off
       if sizeGt then (ls, { g with data := none }, false) else
       let st' := match c with | .c32 => seg32_range_sizet size | .c64 => seg64_range_sizet size
       if st' then (ls, { g with data := none }, false) else
       let n := (match c with | .c32 => seg32_load_data_alloc size | .c64 => seg64_load_data_alloc size).toNat
       let ls := { ls with allocs := ls.allocs ++ [n] }
       let st1 := (ls.st.clear).seekg (segSeekTo c off).toInt
       let (st2, got) :=
         if (segReadN c size).toInt < 0 then (st1.readNeg, ([] : Bytes)) else st1.read (segReadN c size).toNat
       let isComplete := !st2.fail
       let st3 := { st2 with eof := st2.eof || ls.st.eof, fail := st2.fail || ls.st.fail }
       let ls := { ls with st := st3 }
       if segDataOk c isComplete then (ls, { g with data := some (got ++ [0]), isLoaded := true }, true)
       else (ls, { g with data := none }, false)) := by
  have e32 : seg32_range_skip = seg32_load_data_skip := rfl
  have e64 : seg64_range_skip = seg64_load_data_skip := rfl
  unfold segLoadData segRangeOk
  cases c
  · simp only [segRangeBad_val, e32]
    by_cases h0 : seg32_load_data_skip g.stype g.filesz = true
    · simp only [h0, Bool.false_eq_true, if_true, if_false, Bool.not_false, Bool.not_true]
    by_cases h1 : seg32_range_off_gt (BitVec.ofInt 64 (trApply tr g.offset.toInt)) g.streamSize = true
    · simp only [h0, h1, Bool.false_eq_true, if_true, if_false, Bool.not_false, Bool.not_true]
    by_cases h2 : seg32_range_size_gt g.filesz g.streamSize (BitVec.ofInt 64 (trApply tr g.offset.toInt)) = true
    · simp only [h0, h1, h2, Bool.false_eq_true, if_true, if_false, Bool.not_false, Bool.not_true]
    by_cases h3 : seg32_range_sizet g.filesz = true
    · simp only [h0, h1, h2, h3, Bool.false_eq_true, if_true, if_false, Bool.not_false, Bool.not_true]
    · simp only [h0, h1, h2, h3, Bool.false_eq_true, if_true, if_false, Bool.not_false, Bool.not_true]
  · simp only [segRangeBad_val, e64]
    by_cases h0 : seg64_load_data_skip g.stype g.filesz = true
    · simp only [h0, Bool.false_eq_true, if_true, if_false, Bool.not_false, Bool.not_true]
    by_cases h1 : seg64_range_off_gt (BitVec.ofInt 64 (trApply tr g.offset.toInt)) g.streamSize = true
    · simp only [h0, h1, Bool.false_eq_true, if_true, if_false, Bool.not_false, Bool.not_true]
    by_cases h2 : seg64_range_size_gt g.filesz g.streamSize (BitVec.ofInt 64 (trApply tr g.offset.toInt)) = true
    · simp only [h0, h1, h2, Bool.false_eq_true, if_true, if_false, Bool.not_false, Bool.not_true]
    by_cases h3 : seg64_range_sizet g.filesz = true
    · simp only [h0, h1, h2, h3, Bool.false_eq_true, if_true, if_false, Bool.not_false, Bool.not_true]
    · simp only [h0, h1, h2, h3, Bool.false_eq_true, if_true, if_false, Bool.not_false, Bool.not_true]

/-! ### `elfio::load_sections` / `elfio::load_segments` -/

/-- `i < num` on two `Elf_Half` promoted to `int` -/
theorem half_lt (i n : BitVec 16) :
    BitVec.slt (BitVec.setWidth 32 i) (BitVec.setWidth 32 n) = decide (i.toNat < n.toNat) := by
  have hi := i.isLt
  have hn := n.isLt
  simp only [BitVec.slt, BitVec.toInt_eq_toNat_cond, BitVec.toNat_setWidth, Nat.reducePow]
  rw [Nat.mod_eq_of_lt (by omega), Nat.mod_eq_of_lt (by omega)]
  simp only [show 2 * i.toNat < 4294967296 by omega, show 2 * n.toNat < 4294967296 by omega, if_true]
  simp

theorem load_sections_for_val (i n : BitVec 16) : load_sections_for i n = decide (i.toNat < n.toNat) :=
  half_lt i n
theorem load_segments_for_val (i n : BitVec 16) : load_segments_for i n = decide (i.toNat < n.toNat) :=
  half_lt i n

theorem half_succ (i n : BitVec 16) (h : i.toNat < n.toNat) : (i + 1).toNat = i.toNat + 1 := by
  have hn := n.isLt
  have h1 : (1 : BitVec 16).toNat = 1 := rfl
  rw [BitVec.toNat_add, h1]
  simp only [Nat.reducePow]
  omega

/-- the section loop with the generated condition runs exactly `num - i` iterations -/
theorem loadSectionsLoopG_eq (c : Cls) (enc : Enc) (tr : List Trans) (isLazy : Bool) (shoff : Int)
    (entsize : Nat) (num : BitVec 16) :
    ∀ (fuel : Nat) (i : BitVec 16) (ls : LoadSt) (acc : List SecBuf),
      i.toNat ≤ num.toNat → num.toNat - i.toNat ≤ fuel →
      loadSectionsLoopG c enc tr isLazy shoff entsize num fuel i ls acc =
        loadSectionsLoop c enc tr isLazy shoff entsize (num.toNat - i.toNat) i.toNat ls acc := by
  intro fuel
  induction fuel with
  | zero =>
    intro i ls acc _ hf
    have : num.toNat - i.toNat = 0 := by omega
    rw [this]; rfl
  | succ f ih =>
    intro i ls acc hle hf
    unfold loadSectionsLoopG
    rw [load_sections_for_val]
    by_cases hlt : i.toNat < num.toNat
    · have hs := half_succ i num hlt
      have e : num.toNat - i.toNat = (num.toNat - (i + 1).toNat) + 1 := by omega
      simp only [hlt, decide_true, if_true]
      rw [e, loadSectionsLoop]
      simp only []
      rw [ih (i + 1) _ _ (by omega) (by omega), hs]
    · have : num.toNat - i.toNat = 0 := by omega
      simp only [hlt, decide_false, Bool.false_eq_true, if_false, this]
      rfl

/-- `file_class == ELFCLASS64` / `== ELFCLASS32` select the instantiation of the file's class -/
def classByteOf (c : Cls) : Nat := match c with | .c32 => ELFCLASS32 | .c64 => ELFCLASS64

theorem segClassOf_classByte (c : Cls) : segClassOf (BitVec.ofNat 8 (classByteOf c)) = some c := by
  cases c <;> decide

/-- `!seg->load( … ) || stream.fail()` -/
theorem load_segments_failed_val (ok fail : Bool) : load_segments_failed ok fail = (!ok || fail) := rfl

/-- the segment loop with the generated condition, class dispatch and failure test -/
theorem loadSegmentsLoopG_eq (c : Cls) (enc : Enc) (tr : List Trans) (isLazy : Bool) (phoff : Int)
    (entsize : Nat) (secs : List SecBuf) (fileClass : BitVec 8) (num : BitVec 16)
    (hcls : segClassOf fileClass = some c) :
    ∀ (fuel : Nat) (i : BitVec 16) (ls : LoadSt) (acc : List Seg),
      i.toNat ≤ num.toNat → num.toNat - i.toNat ≤ fuel →
      loadSegmentsLoopG enc tr isLazy phoff entsize secs fileClass num fuel i ls acc =
        loadSegmentsLoop c enc tr isLazy phoff entsize secs (num.toNat - i.toNat) i.toNat ls acc := by
  intro fuel
  induction fuel with
  | zero =>
    intro i ls acc _ hf
    have : num.toNat - i.toNat = 0 := by omega
    rw [this]; rfl
  | succ f ih =>
    intro i ls acc hle hf
    unfold loadSegmentsLoopG
    rw [load_segments_for_val]
    by_cases hlt : i.toNat < num.toNat
    · have hs := half_succ i num hlt
      have e : num.toNat - i.toNat = (num.toNat - (i + 1).toNat) + 1 := by omega
      simp only [hlt, decide_true, if_true, hcls]
      rw [e, loadSegmentsLoop]
      generalize segLoad c enc tr ls (phoff + Int.ofNat i.toNat * Int.ofNat entsize) isLazy = r
      obtain ⟨ls', g, ok⟩ := r
      simp only [load_segments_failed_val]
      by_cases hfl : (!ok || ls'.st.fail) = true
      · simp only [hfl, if_true]
      · simp only [hfl, if_false, Bool.false_eq_true]
        rw [ih (i + 1) _ _ (by omega) (by omega), hs]
    · have : num.toNat - i.toNat = 0 := by omega
      simp only [hlt, decide_false, Bool.false_eq_true, if_false, this]
      rfl

/-- `SHN_UNDEF != shstrndx` -/
theorem load_sections_has_strtab_val (x : BitVec 16) :
    load_sections_has_strtab x = !(x == BitVec.ofNat 16 SHN_UNDEF) := by
  have e : SHN_UNDEF = 0 := rfl
  unfold load_sections_has_strtab
  rw [e]
  by_cases h : x = 0
  · subst h; decide
  · have h1 : (x == BitVec.ofNat 16 0) = false := by simpa using h
    have h2 : BitVec.ofNat 32 0 ≠ BitVec.setWidth 32 x := by
      intro hh
      apply h
      have := congrArg BitVec.toNat hh
      simp only [BitVec.toNat_ofNat, BitVec.toNat_setWidth, Nat.reducePow, Nat.zero_mod] at this
      have hx := x.isLt
      rw [Nat.mod_eq_of_lt (by omega)] at this
      exact BitVec.eq_of_toNat_eq (by simpa using this.symm)
    rw [h1, bne_iff_ne.mpr h2]; rfl

/-! ### `elfio::load( std::istream&, bool )` and `elf_header_impl<T>::load` -/

/-- `e_ident[i] != ELFMAGi` on a `char` promoted to `int` -/
theorem magic0 : ∀ v : BitVec 8,
    (BitVec.signExtend 32 v != BitVec.setWidth 32 (BitVec.ofNat 8 ELFMAG0)) = (v.toNat != ELFMAG0) := by decide
theorem magic1 : ∀ v : BitVec 8,
    (BitVec.signExtend 32 v != BitVec.setWidth 32 (BitVec.ofNat 8 ELFMAG1)) = (v.toNat != ELFMAG1) := by decide
theorem magic2 : ∀ v : BitVec 8,
    (BitVec.signExtend 32 v != BitVec.setWidth 32 (BitVec.ofNat 8 ELFMAG2)) = (v.toNat != ELFMAG2) := by decide
theorem magic3 : ∀ v : BitVec 8,
    (BitVec.signExtend 32 v != BitVec.setWidth 32 (BitVec.ofNat 8 ELFMAG3)) = (v.toNat != ELFMAG3) := by decide

theorem identChar_toNat (ident : Bytes) (i : Nat) : (identChar ident i).toNat = (ident.getD i 0).toNat := by
  unfold identChar
  have := (ident.getD i 0).toNat_lt
  simp only [BitVec.toNat_ofNat, Nat.reducePow]
  omega

/-- the signature test -/
theorem load_bad_magic_val (g : Nat) (hg : g < 18446744073709551616) (ident : Bytes) :
    load_bad_magic (BitVec.ofNat 64 g) (identChar ident EI_MAG0) (identChar ident EI_MAG1)
        (identChar ident EI_MAG2) (identChar ident EI_MAG3) =
      (g != 16 || ((ident.getD 0 0).toNat != ELFMAG0 || (ident.getD 1 0).toNat != ELFMAG1 ||
        (ident.getD 2 0).toNat != ELFMAG2 || (ident.getD 3 0).toNat != ELFMAG3)) := by
  unfold load_bad_magic
  rw [magic0, magic1, magic2, magic3, identChar_toNat, identChar_toNat, identChar_toNat, identChar_toNat,
    show (16#64 : BitVec 64) = BitVec.ofNat 64 16 from rfl, ofNat64_bne g 16 hg (by decide)]
  simp only [Bool.or_assoc]
  rfl

theorem bad_class_bv : ∀ v : BitVec 8, load_bad_class v = (clsOfByte v.toNat).isNone := by decide
theorem bad_enc_bv : ∀ v : BitVec 8, load_bad_enc v = (encOfByte v.toNat).isNone := by decide

theorem load_bad_class_val (ident : Bytes) :
    load_bad_class (identChar ident EI_CLASS) = (clsOfByte (ident.getD EI_CLASS 0).toNat).isNone := by
  rw [bad_class_bv, identChar_toNat]
theorem load_bad_enc_val (ident : Bytes) :
    load_bad_enc (identChar ident EI_DATA) = (encOfByte (ident.getD EI_DATA 0).toNat).isNone := by
  rw [bad_enc_bv, identChar_toNat]

theorem hdr32_load_ok_eq_shape : hdr32_load_ok (BitVec.ofNat 64 sizeof_Elf32_Ehdr) = true := by decide
theorem hdr64_load_ok_eq_shape : hdr64_load_ok (BitVec.ofNat 64 sizeof_Elf64_Ehdr) = true := by decide

/-- `return ( stream.gcount() == sizeof( header ) )` and its use `if ( !header->load( stream ) )` -/
theorem load_hdr_failed_val (c : Cls) (g : Nat) (hg : g < 18446744073709551616) :
    load_hdr_failed (hdrLoadOk c (BitVec.ofNat 64 g)) = (g != ehdrSize c) := by
  have key : ∀ n, n < 18446744073709551616 →
      (!(BitVec.ofNat 64 g == BitVec.ofNat 64 n)) = (g != n) := by
    intro n hn
    have := ofNat64_bne g n hg hn
    simpa [bne] using this
  cases c
  · exact key sizeof_Elf32_Ehdr (by decide)
  · exact key sizeof_Elf64_Ehdr (by decide)

theorem seekg_of_ok (st : IStream) (p : Int) (h0 : 0 ≤ p) (hf : st.fail = false)
    (hk : st.kind = .str → p.toNat ≤ st.data.length) :
    st.seekg p = { st with eof := false, pos := p.toNat } := by
  unfold IStream.seekg
  simp only [hf, Bool.false_eq_true, if_false, show ¬ p < 0 by omega]
  cases hkind : st.kind
  · simp only [hk hkind, if_true]
  · rfl

theorem seekg_good (st : IStream) (p : Int) (hg : (st.seekg p).fail = false) :
    0 ≤ p ∧ st.fail = false ∧ (st.kind = .str → p.toNat ≤ st.data.length) := by
  unfold IStream.seekg at hg
  by_cases hf : st.fail = true
  · simp [hf] at hg
  · have hf' : st.fail = false := by simpa using hf
    simp only [hf', Bool.false_eq_true, if_false] at hg
    by_cases hp : p < 0
    · simp [hp] at hg
    · simp only [hp, if_false] at hg
      refine ⟨by omega, hf', fun hk => ?_⟩
      simp only [hk] at hg
      by_cases hl : p.toNat ≤ st.data.length
      · exact hl
      · simp [hl] at hg

theorem read_full_state (s : IStream) (n : Nat) (h : (s.read n).1.gcount = n) (hn : 0 < n) :
    s.fail = false ∧ s.eof = false ∧ (s.read n).1 = { s with pos := s.pos + n, gcount := n } ∧
    (s.read n).2 = slice s.data s.pos n := by
  unfold IStream.read at h ⊢
  by_cases hg : s.good = true
  · simp only [hg, Bool.not_true, Bool.false_eq_true, if_false] at h ⊢
    have hfe : s.fail = false ∧ s.eof = false := by
      unfold IStream.good at hg; simp at hg; exact ⟨hg.2, hg.1⟩
    by_cases hl : (slice s.data s.pos n).length = n
    · simp only [hl, if_true]
      exact ⟨hfe.1, hfe.2, trivial, trivial⟩
    · simp only [hl, if_false] at h
  · simp [hg] at h; omega


/-- reading the header again from the same position yields the identification bytes again -/
theorem reread_getD (st : IStream) (p : Int) (n i : Nat) (hi : i < 16) (hn : 16 ≤ n)
    (h1 : ((st.seekg p).read 16).1.gcount = 16)
    (h2 : ((((st.seekg p).read 16).1.seekg p).read n).1.gcount = n) :
    ((((st.seekg p).read 16).1.seekg p).read n).2.getD i 0 = ((st.seekg p).read 16).2.getD i 0 := by
  obtain ⟨f0, e0, s1, d1⟩ := read_full_state (st.seekg p) 16 h1 (by decide)
  obtain ⟨hp, hf, hk⟩ := seekg_good st p f0
  have hs0 := seekg_of_ok st p hp hf hk
  rw [s1] at h2 ⊢
  rw [d1]
  have hs2 : ({ st.seekg p with pos := (st.seekg p).pos + 16, gcount := 16 } : IStream).seekg p =
      { st with eof := false, pos := p.toNat, gcount := 16 } := by
    rw [seekg_of_ok _ p hp (by simpa using f0) (by rw [hs0]; simpa using hk)]
    rw [hs0]
  rw [hs2] at h2 ⊢
  obtain ⟨-, -, -, d2⟩ := read_full_state _ n h2 (by omega)
  rw [d2, hs0]
  simp only [slice, List.getD_eq_getElem?_getD, List.getElem?_take, List.getElem?_drop, hi,
    show i < n by omega, if_true]

/-- the part of the reference `load` after the header was read -/
def loadTablesHand (o : Obj) (c : Cls) (enc : Enc) (hdr : Bytes) (st : IStream) (isLazy : Bool) : M LoadRes := do
  -- load_sections
  let num := Hdr.e_shnum c enc hdr
  let entsize := Hdr.e_shentsize c enc hdr
  let shoff := Hdr.e_shoff c enc hdr
  let clsByte : BitVec 8 := Hdr.ident hdr EI_CLASS
  let ls : LoadSt := { st := st }
  let (ls, secs) :=
    if load_sections_entsize_bad num clsByte entsize then (ls, ([] : List SecBuf))
    else loadSectionsLoop c enc o.trans isLazy shoff.toInt entsize.toNat num.toNat 0 ls []
  let (ls, secs) ←
    if load_sections_entsize_bad num clsByte entsize then pure (ls, secs) else do
      let shstrndx := Hdr.e_shstrndx c enc hdr
      if shstrndx == BitVec.ofNat 16 SHN_UNDEF then pure (ls, secs) else
      match secs[shstrndx.toNat]? with
      | none => pure (ls, secs)
      | some strtab =>
        let (ls, strtab) := secGetData c o.trans ls strtab
        let secs := secs.set shstrndx.toNat strtab
        let secs ← resolveNames strtab secs
        pure (ls, secs)
  -- load_segments
  let pnum := Hdr.e_phnum c enc hdr
  let pentsize := Hdr.e_phentsize c enc hdr
  let phoff := Hdr.e_phoff c enc hdr
  if load_segments_entsize_bad pnum clsByte pentsize then
    pure { obj := { o with secs := secs, stream := ls.st }, ok := false, allocs := ls.allocs }
  else
    let (ls, segs, ok) :=
      loadSegmentsLoop c enc o.trans isLazy phoff.toInt pentsize.toNat secs pnum.toNat 0 ls []
    pure { obj := { o with secs := secs, segs := segs, stream := ls.st }, ok := ok, allocs := ls.allocs }


/-- `elfio::load` as the loader proofs see it: hand-written gate conditions, reference loops -/
def loadHand (o : Obj) (st : IStream) (isLazy : Bool) : M LoadRes := do
  let o := { o with secs := [], segs := [] }
  let st := st.seekg (trApply o.trans 0)
  let (st, ident) := st.read 16
  let fail (o : Obj) (st : IStream) (al : List Nat) : M LoadRes :=
    pure { obj := { o with stream := st }, ok := false, allocs := al }
  if st.gcount != 16 then fail o st [] else
  let idb (i : Nat) : Nat := (ident.getD i 0).toNat
  if idb 0 != ELFMAG0 || idb 1 != ELFMAG1 || idb 2 != ELFMAG2 || idb 3 != ELFMAG3 then fail o st [] else
  match clsOfByte (idb EI_CLASS), encOfByte (idb EI_DATA) with
  | none, _ => fail o st []
  | some _, none => fail o st []
  | some c, some enc =>
    -- convertor.setup; create_header; header->load
    let st := st.seekg (trApply o.trans 0)
    let (st, got) := st.read (ehdrSize c)
    let hdr := wr (Hdr.create c enc (idb EI_DATA)) 0 got
    let o := { o with cls := c, enc := enc, hdr := some hdr }
    if st.gcount != ehdrSize c then fail o st [] else
    -- load_sections
    let num := Hdr.e_shnum c enc hdr
    let entsize := Hdr.e_shentsize c enc hdr
    let shoff := Hdr.e_shoff c enc hdr
    let clsByte : BitVec 8 := Hdr.ident hdr EI_CLASS
    let ls : LoadSt := { st := st }
    let (ls, secs) :=
      if load_sections_entsize_bad num clsByte entsize then (ls, ([] : List SecBuf))
      else loadSectionsLoop c enc o.trans isLazy shoff.toInt entsize.toNat num.toNat 0 ls []
    let (ls, secs) ←
      if load_sections_entsize_bad num clsByte entsize then pure (ls, secs) else do
        let shstrndx := Hdr.e_shstrndx c enc hdr
        if shstrndx == BitVec.ofNat 16 SHN_UNDEF then pure (ls, secs) else
        match secs[shstrndx.toNat]? with
        | none => pure (ls, secs)
        | some strtab =>
          let (ls, strtab) := secGetData c o.trans ls strtab
          let secs := secs.set shstrndx.toNat strtab
          let secs ← resolveNames strtab secs
          pure (ls, secs)
    -- load_segments
    let pnum := Hdr.e_phnum c enc hdr
    let pentsize := Hdr.e_phentsize c enc hdr
    let phoff := Hdr.e_phoff c enc hdr
    if load_segments_entsize_bad pnum clsByte pentsize then
      pure { obj := { o with secs := secs, stream := ls.st }, ok := false, allocs := ls.allocs }
    else
      let (ls, segs, ok) :=
        loadSegmentsLoop c enc o.trans isLazy phoff.toInt pentsize.toNat secs pnum.toNat 0 ls []
      pure { obj := { o with secs := secs, segs := segs, stream := ls.st }, ok := ok, allocs := ls.allocs }


/-! ### `string_section_accessor::get_string` as the loader uses it -/

/-- `get_string` with its generated bounds tests in hand form -/
theorem getString_hand (b : SecBuf) (index : BitVec 32) :
    getString b index =
      (match b.data with
       | none => pure none
       | some d => cstrAt "get_string/memchr" d b.size.toNat index.toNat) := by
  unfold getString
  cases hd : b.data with
  | none => simp
  | some d =>
    have hi := index.isLt
    have hs := b.size.isLt
    simp only [str_get_section_size, str_get_idx_ge_size, str_get_remaining, str_get_underflow, str_get_memchr_n,
      Option.isNone_some, Bool.or_false, BitVec.ule, BitVec.ult, BitVec.toNat_setWidth, BitVec.toNat_sub,
      Nat.reducePow]
    rw [Nat.mod_eq_of_lt (by omega : index.toNat < 18446744073709551616)]
    unfold cstrAt
    by_cases hge : b.size.toNat ≤ index.toNat
    · simp [hge]
    · have hlt : index.toNat < b.size.toNat := by omega
      have hrem : (18446744073709551616 - index.toNat + b.size.toNat) % 18446744073709551616
          = b.size.toNat - index.toNat := by omega
      have hnu : ¬ (b.size.toNat < b.size.toNat - index.toNat) := by omega
      simp only [hge, hrem, hnu, decide_false, Bool.false_eq_true, if_false, ge_iff_le]
      rfl

/-! ### the name loop of `load_sections` -/

theorem loadSectionsLoop_length (c : Cls) (enc : Enc) (tr : List Trans) (isLazy : Bool) (shoff : Int)
    (entsize : Nat) :
    ∀ (n i : Nat) (ls : LoadSt) (acc : List SecBuf),
      (loadSectionsLoop c enc tr isLazy shoff entsize n i ls acc).2.length = acc.length + n := by
  intro n
  induction n with
  | zero => intro i ls acc; simp [loadSectionsLoop]
  | succ n ih =>
    intro i ls acc
    rw [loadSectionsLoop]
    simp only []
    rw [ih]
    simp; omega

theorem load_sections_names_for_val (i n : BitVec 16) :
    load_sections_names_for i n = decide (i.toNat < n.toNat) := half_lt i n

/-- the indexed name loop over the `num` sections is the map `resolveNames` -/
theorem resolveNamesG_eq (strtab : SecBuf) (num : BitVec 16) :
    ∀ (fuel : Nat) (i : BitVec 16) (done rest : List SecBuf),
      done.length = i.toNat → (done ++ rest).length = num.toNat → rest.length ≤ fuel →
      resolveNamesG strtab num fuel i (done ++ rest) =
        (resolveNames strtab rest >>= fun r => pure (done ++ r)) := by
  intro fuel
  induction fuel with
  | zero =>
    intro i done rest _ _ hf
    have : rest = [] := List.eq_nil_of_length_eq_zero (by omega)
    subst this
    rfl
  | succ f ih =>
    intro i done rest hd ht hf
    unfold resolveNamesG
    rw [load_sections_names_for_val]
    cases rest with
    | nil =>
      have : ¬ i.toNat < num.toNat := by simp at ht; omega
      simp only [this, decide_false, Bool.false_eq_true, if_false]
      rfl
    | cons b rest' =>
      have hlt : i.toNat < num.toNat := by simp at ht; omega
      have hs := half_succ i num hlt
      have hget : (done ++ b :: rest')[i.toNat]? = some b := by
        rw [List.getElem?_append_right (by omega)]; simp [hd]
      simp only [hlt, decide_true, if_true, hget, resolveNames]
      cases hg : getString strtab b.nameOff with
      | error e => rfl
      | ok r =>
        simp only [bind, Except.bind]
        have hset : ∀ b' : SecBuf, (done ++ b :: rest').set i.toNat b' = (done ++ [b']) ++ rest' := by
          intro b'
          rw [List.set_append_right _ _ (by omega)]
          simp [hd]
        rw [hset, ih (i + 1) _ rest' (by simp; omega) (by simp at ht ⊢; omega) (by simp at hf; omega)]
        cases hr : resolveNames strtab rest' with
        | error e => rfl
        | ok rs =>
          simp only [bind, Except.bind, pure, Except.pure, load_sections_name_found]
          cases r <;> simp

/-! ### header offsets of the two loops -/

/-- `static_cast<std::streamoff>( offset ) + static_cast<std::streampos>( i ) * entry_size` : the header
    offset the model computes over `Int` is the generated 64-bit expression whenever the C++ addition
    does not overflow `streamoff` (an offset within `2^32` of `2^63`) -/
theorem load_sections_hdr_off_val (offset : BitVec 64) (i entsize : BitVec 16)
    (h : offset.toInt + (Int.ofNat i.toNat) * (Int.ofNat entsize.toNat) < 9223372036854775808) :
    (load_sections_hdr_off offset i entsize).toInt =
      offset.toInt + (Int.ofNat i.toNat) * (Int.ofNat entsize.toNat) := by
  have hi := i.isLt
  have he := entsize.isLt
  have ho := offset.isLt
  have hlt : i.toNat * entsize.toNat < 4294967296 := by
    have := Nat.mul_lt_mul'' hi he
    simpa using this
  have hm : (BitVec.setWidth 64 i * BitVec.setWidth 64 entsize).toNat = i.toNat * entsize.toNat := by
    simp only [BitVec.toNat_mul, BitVec.toNat_setWidth, Nat.reducePow]
    rw [Nat.mod_eq_of_lt (by omega : i.toNat < 18446744073709551616),
      Nat.mod_eq_of_lt (by omega : entsize.toNat < 18446744073709551616), Nat.mod_eq_of_lt (by omega)]
  unfold load_sections_hdr_off
  generalize hmv : i.toNat * entsize.toNat = m at hlt hm
  have hcast : (Int.ofNat i.toNat) * (Int.ofNat entsize.toNat) = (m : Int) := by
    rw [← hmv]; simp
  rw [hcast] at h ⊢
  simp only [BitVec.toInt_eq_toNat_cond, BitVec.toNat_add, hm, Nat.reducePow] at h ⊢
  split at h <;> split <;> omega

theorem load_segments_hdr_off_eq : load_segments_hdr_off = load_sections_hdr_off := rfl

/-! ### the model's `load` is the reference form -/

theorem loadTables_hand (o : Obj) (c : Cls) (enc : Enc) (hdr : Bytes) (st : IStream) (isLazy : Bool)
    (hcls : segClassOf (Hdr.ident hdr EI_CLASS) = some c) :
    loadTables o c enc hdr st isLazy = loadTablesHand o c enc hdr st isLazy := by
  have hseg : ∀ (ls : LoadSt) (secs : List SecBuf),
      loadSegmentsLoopG enc o.trans isLazy (Hdr.e_phoff c enc hdr).toInt (Hdr.e_phentsize c enc hdr).toNat secs
        (Hdr.ident hdr EI_CLASS) (Hdr.e_phnum c enc hdr) (Hdr.e_phnum c enc hdr).toNat 0 ls [] =
      loadSegmentsLoop c enc o.trans isLazy (Hdr.e_phoff c enc hdr).toInt (Hdr.e_phentsize c enc hdr).toNat secs
        (Hdr.e_phnum c enc hdr).toNat 0 ls [] := by
    intro ls secs
    have := loadSegmentsLoopG_eq c enc o.trans isLazy (Hdr.e_phoff c enc hdr).toInt
      (Hdr.e_phentsize c enc hdr).toNat secs _ (Hdr.e_phnum c enc hdr) hcls (Hdr.e_phnum c enc hdr).toNat 0 ls []
      (by simp) (by simp)
    simpa using this
  have hsec : ∀ (ls : LoadSt),
      loadSectionsLoopG c enc o.trans isLazy (Hdr.e_shoff c enc hdr).toInt (Hdr.e_shentsize c enc hdr).toNat
        (Hdr.e_shnum c enc hdr) (Hdr.e_shnum c enc hdr).toNat 0 ls [] =
      loadSectionsLoop c enc o.trans isLazy (Hdr.e_shoff c enc hdr).toInt (Hdr.e_shentsize c enc hdr).toNat
        (Hdr.e_shnum c enc hdr).toNat 0 ls [] := by
    intro ls
    have := loadSectionsLoopG_eq c enc o.trans isLazy (Hdr.e_shoff c enc hdr).toInt
      (Hdr.e_shentsize c enc hdr).toNat (Hdr.e_shnum c enc hdr) (Hdr.e_shnum c enc hdr).toNat 0 ls []
      (by simp) (by simp)
    simpa using this
  unfold loadTables loadTablesHand loadSectionsM loadSegmentsM
  simp only [hseg, hsec, load_sections_has_strtab_val]
  by_cases hp : load_segments_entsize_bad (Hdr.e_phnum c enc hdr) (Hdr.ident hdr EI_CLASS) (Hdr.e_phentsize c enc hdr) = true <;>
  by_cases hb : load_sections_entsize_bad (Hdr.e_shnum c enc hdr) (Hdr.ident hdr EI_CLASS) (Hdr.e_shentsize c enc hdr) = true <;>
  simp only [hp, hb, if_true, if_false, Bool.false_eq_true, pure_bind] <;>
  (try rfl) <;>
  by_cases hu : (Hdr.e_shstrndx c enc hdr == BitVec.ofNat 16 SHN_UNDEF) = true <;>
  simp only [hu, Bool.not_true, Bool.not_false, Bool.false_eq_true, if_false, if_true, pure_bind] <;>
  (try rfl)
  all_goals
    have hlen := loadSectionsLoop_length c enc o.trans isLazy (Hdr.e_shoff c enc hdr).toInt
      (Hdr.e_shentsize c enc hdr).toNat (Hdr.e_shnum c enc hdr).toNat 0 { st := st } []
    generalize loadSectionsLoop c enc o.trans isLazy (Hdr.e_shoff c enc hdr).toInt (Hdr.e_shentsize c enc hdr).toNat
      (Hdr.e_shnum c enc hdr).toNat 0 { st := st } [] = q at hlen
    have hnames : ∀ (strtab : SecBuf) (l : List SecBuf), l.length = (Hdr.e_shnum c enc hdr).toNat →
        resolveNamesG strtab (Hdr.e_shnum c enc hdr) (Hdr.e_shnum c enc hdr).toNat 0 l = resolveNames strtab l := by
      intro strtab l hl
      have := resolveNamesG_eq strtab (Hdr.e_shnum c enc hdr) (Hdr.e_shnum c enc hdr).toNat 0 [] l rfl
        (by simpa using hl) (by omega)
      simp only [List.nil_append] at this
      rw [this]
      cases resolveNames strtab l <;> rfl
    cases q.2[(Hdr.e_shstrndx c enc hdr).toNat]? with
    | none => simp only [pure_bind]
    | some strtab =>
      simp only [pure_bind, bind_assoc]
      rw [hnames _ _ (by rw [List.length_set]; simpa using hlen)]


theorem wr0_getD (z src : Bytes) (i : Nat) (h : i < src.length) : (wr z 0 src).getD i 0 = src.getD i 0 := by
  unfold wr
  simp [List.getD_eq_getElem?_getD, List.getElem?_append, h]

theorem clsOfByte_some (x : Nat) (c : Cls) (h : clsOfByte x = some c) : x = classByteOf c := by
  unfold clsOfByte at h
  split at h
  · cases h; assumption
  · split at h
    · cases h; assumption
    · cases h

theorem sixteen_le_ehdrSize (c : Cls) : 16 ≤ ehdrSize c := by cases c <;> decide

theorem load_hand (o : Obj) (st : IStream) (isLazy : Bool) : load o st isLazy = loadHand o st isLazy := by
  unfold load loadHand
  simp only []
  generalize hr1 : (st.seekg (trApply o.trans 0)).read 16 = r1
  have hg1 : r1.1.gcount ≤ 16 := by rw [← hr1]; exact read_gcount_le _ _
  rw [load_bad_magic_val r1.1.gcount (by omega) r1.2, load_bad_class_val, load_bad_enc_val]
  simp only [load_no_header]
  by_cases hc16 : (r1.1.gcount != 16) = true
  · simp only [hc16, Bool.true_or, if_true]
  · simp only [hc16, Bool.false_or]
    split
    · rfl
    · cases hcl : clsOfByte (r1.2.getD EI_CLASS 0).toNat <;> cases hen : encOfByte (r1.2.getD EI_DATA 0).toNat <;>
        simp only [Option.isNone_none, Option.isNone_some, if_true, Bool.false_eq_true, if_false]
      rename_i c enc
      have h16 := sixteen_le_ehdrSize c
      have hg2 := read_gcount_le (r1.1.seekg (trApply o.trans 0)) (ehdrSize c)
      have he : ehdrSize c ≤ 64 := by cases c <;> decide
      rw [load_hdr_failed_val c _ (by omega)]
      by_cases h2 : (((r1.1.seekg (trApply o.trans 0)).read (ehdrSize c)).1.gcount != ehdrSize c) = true
      · simp only [h2, if_true]
      · simp only [h2, if_false, Bool.false_eq_true]
        have h2' : ((r1.1.seekg (trApply o.trans 0)).read (ehdrSize c)).1.gcount = ehdrSize c := by simpa using h2
        have h1' : r1.1.gcount = 16 := by simpa using hc16
        have hlen : ((r1.1.seekg (trApply o.trans 0)).read (ehdrSize c)).2.length = ehdrSize c := by
          have := IStream.read_full _ _ h2' (by omega)
          rw [this.1]; simp [slice]; omega
        have hcls : segClassOf (Hdr.ident (wr (Hdr.create c enc (r1.2.getD EI_DATA 0).toNat) 0
            ((r1.1.seekg (trApply o.trans 0)).read (ehdrSize c)).2) EI_CLASS) = some c := by
          unfold Hdr.ident
          rw [wr0_getD _ _ _ (by rw [hlen]; have : EI_CLASS = 4 := rfl; omega)]
          subst hr1
          rw [reread_getD st (trApply o.trans 0) (ehdrSize c) EI_CLASS (by decide) h16 h1' h2',
            clsOfByte_some _ c hcl]
          exact segClassOf_classByte c
        rw [loadTables_hand _ _ _ _ _ _ hcls]
        rfl


end LoadTie
end ElfioVerif
