/-
Bridging lemmas between the expressions regenerated from the C++ source (Gen/SitesLoad.lean,
Gen/Sites.lean) that the loader model calls and the hand forms the loader proofs were written
against.  Each lemma is `generated site args = hand expression`; it is proved by unfolding the
generated definition, so a change of the source text of the condition breaks the lemma and with it
every theorem downstream (LoadSafety, LoadSpec, C01 C02 C15 C17 ...).

Also here: the 32-bit instantiation of a class template yields the same expression as the 64-bit
one (`rfl`), so the model may call either.
-/
import ElfioVerif.Model.Load
namespace ElfioVerif
namespace LoadTie
open Gen

/-! ### `section_impl<T>::load` / `segment_impl<T>::load` -/

theorem sec32_load_unseekable_eq : sec32_load_unseekable = sec64_load_unseekable := rfl
theorem seg32_load_unseekable_eq : seg32_load_unseekable = sec64_load_unseekable := rfl
theorem sec32_load_stream_size_eq : sec32_load_stream_size = sec64_load_stream_size := rfl
theorem seg64_load_stream_size_eq : seg64_load_stream_size = sec64_load_stream_size := rfl
theorem seg32_load_stream_size_eq : seg32_load_stream_size = sec64_load_stream_size := rfl
theorem sec32_load_eager_eq : sec32_load_eager = sec64_load_eager := rfl
theorem seg64_load_eager_eq : seg64_load_eager = sec64_load_eager := rfl
theorem seg32_load_eager_eq : seg32_load_eager = sec64_load_eager := rfl

/-- `set_stream_size( size_t( stream.tellg() ) )` : the position converted to `size_t` -/
@[simp] theorem load_stream_size_val (p : BitVec 64) : sec64_load_stream_size p = p := rfl

/-- `if ( !( is_lazy || is_loaded ) )` -/
theorem load_eager_val (isLazy isLoaded : Bool) : sec64_load_eager isLazy isLoaded = !(isLazy || isLoaded) := rfl

/-- the eager test of either class -/
@[simp] theorem secEager_val (c : Cls) (isLazy isLoaded : Bool) :
    secEager c isLazy isLoaded = !(isLazy || isLoaded) := by
  cases c <;> rfl

@[simp] theorem segEager_val (c : Cls) (isLazy isLoaded : Bool) :
    segEager c isLazy isLoaded = !(isLazy || isLoaded) := by
  cases c <;> rfl

theorem ofNat64_bne (g n : Nat) (hg : g < 18446744073709551616) (hn : n < 18446744073709551616) :
    (BitVec.ofNat 64 g != BitVec.ofNat 64 n) = (g != n) := by
  by_cases h : g = n
  · subst h
    rw [bne_self_eq_false, bne_self_eq_false]
  · have h2 : BitVec.ofNat 64 g ≠ BitVec.ofNat 64 n := by
      intro hh
      have := congrArg BitVec.toNat hh
      simp only [BitVec.toNat_ofNat, Nat.reducePow] at this
      rw [Nat.mod_eq_of_lt hg, Nat.mod_eq_of_lt hn] at this
      exact h this
    rw [bne_iff_ne.mpr h, bne_iff_ne.mpr h2]

/-- `if ( static_cast<size_t>( stream.gcount() ) != sizeof( header ) )` -/
theorem secShortHdr_val (c : Cls) (g : Nat) (hg : g < 18446744073709551616) :
    secShortHdr c (BitVec.ofNat 64 g) = (g != shdrSize c) := by
  cases c
  · exact ofNat64_bne g sizeof_Elf32_Shdr hg (by decide)
  · exact ofNat64_bne g sizeof_Elf64_Shdr hg (by decide)

/-- a `read` stores at most what was asked for -/
theorem read_gcount_le (s : IStream) (n : Nat) : (s.read n).1.gcount ≤ n := by
  unfold IStream.read
  split
  · simp
  · split
    · simp
    · simp only [slice, List.length_take]; omega

/-- `section_impl::load` with its two generated conditions in hand form -/
theorem secLoad_hand (c : Cls) (enc : Enc) (tr : List Trans) (ls : LoadSt) (hdrOff : Int) (isLazy : Bool)
    (idx : Nat) :
    secLoad c enc tr ls hdrOff isLazy idx =
      (let (st, ss) := streamSizeOf tr ls.st
       let st := st.seekg (trApply tr hdrOff)
       let (st, got) := st.read (shdrSize c)
       let b0 : SecBuf := { cls := c, stype := 0, size := 0, data := none, dataSize := 0, streamSize := ss,
                            translatorEmpty := tr.isEmpty, isLazy := isLazy, index := idx }
       let ls := { ls with st := st }
       if st.gcount != shdrSize c then
         (ls, { b0 with addrSet := true })
       else
         let b := decodeShdr c enc got b0
         let b := { b with fileData := fileDataOf c tr st b }
         if sec64_load_eager isLazy b.isLoaded then
           let (ls, b) := secGetData c tr ls b
           (ls, { b with addrSet := true })
         else (ls, { b with addrSet := true })) := by
  unfold secLoad
  generalize streamSizeOf tr ls.st = p
  obtain ⟨st0, ss⟩ := p
  simp only []
  have hg := read_gcount_le (st0.seekg (trApply tr hdrOff)) (shdrSize c)
  generalize (st0.seekg (trApply tr hdrOff)).read (shdrSize c) = r at hg
  obtain ⟨st1, got⟩ := r
  have hs : shdrSize c ≤ 64 := by cases c <;> decide
  simp only [] at hg ⊢
  rw [secShortHdr_val c st1.gcount (by omega), secEager_val]
  rfl

/-- `segment_impl::load` with its generated condition in hand form -/
theorem segLoad_hand (c : Cls) (enc : Enc) (tr : List Trans) (ls : LoadSt) (hdrOff : Int) (isLazy : Bool) :
    segLoad c enc tr ls hdrOff isLazy =
      (let (st, ss) := streamSizeOf tr ls.st
       let st := st.seekg (trApply tr hdrOff)
       let (st, got) := st.read (phdrSize c)
       let raw := wr (List.replicate (phdrSize c) 0) 0 got
       let g : Seg := decodePhdr c enc raw { streamSize := ss, isLazy := isLazy, offsetSet := true }
       let ls := { ls with st := st }
       if !(isLazy || g.isLoaded) then
         let (ls, g, ok) := segLoadData c tr ls g
         (ls, g, ok)
       else (ls, g, true)) := by
  cases c <;> rfl

/-! ### `segment_impl<T>::load_data` -/

theorem seg32_load_data_ok_eq : seg32_load_data_ok = seg64_load_data_ok := rfl
theorem seg32_load_data_seek_eq : seg32_load_data_seek = seg64_load_data_seek := rfl
theorem seg32_load_data_readn_eq : seg32_load_data_readn = seg64_load_data_readn := rfl

/-- `if ( is_complete )` -/
@[simp] theorem segDataOk_val (c : Cls) (b : Bool) : segDataOk c b = b := by cases c <;> rfl

/-- `pstream->seekg( p_offset )` -/
@[simp] theorem segSeekTo_val (c : Cls) (off : BitVec 64) : segSeekTo c off = off := by cases c <;> rfl

/-- `pstream->read( data.get(), size )` -/
@[simp] theorem segReadN_val (c : Cls) (size : BitVec 64) : segReadN c size = size := by cases c <;> rfl

end LoadTie
end ElfioVerif
