/-
Helper lemmas for C01 / C17: what the stream operations preserve, what a complete read
delivers, the invariants `LoadedSec` / `LoadedSeg` every loaded section / segment satisfies,
their establishment by `secLoad` / `segLoad` and preservation by the (lazy) data requests,
and the lifting over the loader's loops.
-/
import ElfioVerif.Model.Load
import ElfioVerif.Lemmas.LoadTie
namespace ElfioVerif
open Gen

/-! ### stream operations never change the bytes or the kind of the stream -/
namespace IStream

@[simp] theorem seekg_data (s : IStream) (p : Int) : (s.seekg p).data = s.data := by
  unfold seekg; (try dsimp only); (repeat' split) <;> rfl
@[simp] theorem seekg_kind (s : IStream) (p : Int) : (s.seekg p).kind = s.kind := by
  unfold seekg; (try dsimp only); (repeat' split) <;> rfl
@[simp] theorem seekEnd_data (s : IStream) : s.seekEnd.data = s.data := by
  unfold seekEnd; (try dsimp only); (repeat' split) <;> rfl
@[simp] theorem seekEnd_kind (s : IStream) : s.seekEnd.kind = s.kind := by
  unfold seekEnd; (try dsimp only); (repeat' split) <;> rfl
@[simp] theorem tellg_data (s : IStream) : s.tellg.1.data = s.data := by
  unfold tellg; (try dsimp only); (repeat' split) <;> rfl
@[simp] theorem tellg_kind (s : IStream) : s.tellg.1.kind = s.kind := by
  unfold tellg; (try dsimp only); (repeat' split) <;> rfl
@[simp] theorem read_data (s : IStream) (n : Nat) : (s.read n).1.data = s.data := by
  unfold read; (try dsimp only); (repeat' split) <;> rfl
@[simp] theorem read_kind (s : IStream) (n : Nat) : (s.read n).1.kind = s.kind := by
  unfold read; (try dsimp only); (repeat' split) <;> rfl
@[simp] theorem readNeg_data (s : IStream) : s.readNeg.data = s.data := by
  unfold readNeg; (try dsimp only); (repeat' split) <;> rfl
@[simp] theorem readNeg_kind (s : IStream) : s.readNeg.kind = s.kind := by
  unfold readNeg; (try dsimp only); (repeat' split) <;> rfl
@[simp] theorem clear_data (s : IStream) : s.clear.data = s.data := rfl
@[simp] theorem clear_kind (s : IStream) : s.clear.kind = s.kind := rfl
@[simp] theorem clear_good (s : IStream) : s.clear.good = true := rfl
@[simp] theorem clear_fail (s : IStream) : s.clear.fail = false := rfl

/-- the number of bytes stored is `gcount` -/
theorem read_length_gcount (s : IStream) (n : Nat) : (s.read n).2.length = (s.read n).1.gcount := by
  unfold read; (repeat' split) <;> simp_all

theorem read_not_good (s : IStream) (n : Nat) (h : s.good = false) :
    (s.read n).1.gcount = 0 ∧ (s.read n).1.fail = true ∧ (s.read n).2 = [] := by
  unfold read; simp [h]

/-- a read that delivers a non-zero `gcount` started on a good stream -/
theorem good_of_gcount (s : IStream) (n : Nat) (h : (s.read n).1.gcount ≠ 0) : s.good = true := by
  cases hg : s.good
  · exact absurd (read_not_good s n hg).1 h
  · rfl

/-- a stream that is not failed after a read was good before it and the read was complete -/
theorem read_not_fail (s : IStream) (n : Nat) (h : (s.read n).1.fail = false) :
    s.good = true ∧ (s.read n).2 = slice s.data s.pos n ∧ (slice s.data s.pos n).length = n := by
  cases hg : s.good
  · have := (read_not_good s n hg).2.1
    rw [this] at h; exact absurd h (by decide)
  · by_cases hl : (slice s.data s.pos n).length = n
    · refine ⟨rfl, ?_, hl⟩
      rw [read, if_neg (by simp [hg]), if_pos hl]
    · rw [read, if_neg (by simp [hg]), if_neg hl] at h; simp at h

/-- `seekg` on a failed stream does nothing useful: the stream stays failed -/
theorem seekg_fail (s : IStream) (p : Int) (h : s.fail = true) : (s.seekg p).fail = true := by
  unfold seekg; simp [h]

theorem good_fail {s : IStream} (h : s.good = true) : s.fail = false := by
  unfold good at h; cases hf : s.fail <;> simp_all

/-- a good stream after `seekg p` stands at `p` (and `p` is not negative) -/
theorem seekg_good (s : IStream) (p : Int) (h : (s.seekg p).good = true) :
    0 ≤ p ∧ (s.seekg p).pos = p.toNat ∧ s.fail = false := by
  unfold seekg at h ⊢
  simp only [] at h ⊢
  cases hf : s.fail
  · simp only [hf, Bool.false_eq_true, if_false] at h ⊢
    by_cases hp : p < 0
    · simp [hp, good] at h
    · simp only [hp, if_false] at h ⊢
      refine ⟨by omega, ?_, trivial⟩
      cases hk : s.kind
      · simp only [hk] at h ⊢
        by_cases hl : p.toNat ≤ s.data.length
        · simp [hl]
        · simp [hl, good] at h
      · simp [hk]
  · simp [hf, good] at h

end IStream

theorem ofInt_neg_one : BitVec.ofInt 64 (-1) = u64max := by decide

/-- the stream-size probe neither sets nor clears failbit on the modelled stream kinds (seeking
    to the end of a string- or file-backed stream that has not failed never fails) -/
theorem seekEnd_tellg_fail (st : IStream) : (st.seekEnd.tellg).1.fail = st.fail := by
  unfold IStream.seekEnd IStream.tellg IStream.good
  cases hf : st.fail <;> simp

/-- the `clear()` branch of the probe (streams that cannot seek to their end) is dead here: the
    probe does not depend on the translation table -/
theorem streamSizeOf_eq (tr : List Trans) (st : IStream) :
    streamSizeOf tr st = ((st.seekEnd.tellg).1, BitVec.ofInt 64 (st.seekEnd.tellg).2) := by
  unfold streamSizeOf
  simp only [sec64_load_unseekable, seekEnd_tellg_fail]
  cases st.fail <;> cases tr.isEmpty <;> rfl

theorem streamSizeOf_tr_indep (tr tr' : List Trans) (st : IStream) :
    streamSizeOf tr st = streamSizeOf tr' st := by
  rw [streamSizeOf_eq, streamSizeOf_eq]

theorem streamSizeOf_val (tr : List Trans) (st : IStream) :
    streamSizeOf tr st =
      if st.fail then ({ st with eof := false, fail := true }, u64max)
      else ({ st with eof := false, pos := st.data.length }, BitVec.ofNat 64 st.data.length) := by
  rw [streamSizeOf_eq]
  unfold IStream.seekEnd IStream.tellg IStream.good
  cases hf : st.fail
  · simp
  · simp [ofInt_neg_one]

theorem streamSizeOf_nil (st : IStream) :
    streamSizeOf [] st =
      if st.fail then ({ st with eof := false, fail := true }, u64max)
      else ({ st with eof := false, pos := st.data.length }, BitVec.ofNat 64 st.data.length) :=
  streamSizeOf_val [] st

@[simp] theorem streamSizeOf_data (tr : List Trans) (st : IStream) : (streamSizeOf tr st).1.data = st.data := by
  rw [streamSizeOf_val]; split <;> rfl

@[simp] theorem streamSizeOf_kind (tr : List Trans) (st : IStream) : (streamSizeOf tr st).1.kind = st.kind := by
  rw [streamSizeOf_val]; split <;> rfl

/-- a failed stream stays failed through the stream-size probe -/
theorem streamSizeOf_fail (tr : List Trans) (st : IStream) (h : st.fail = true) :
    (streamSizeOf tr st).1.fail = true := by
  rw [streamSizeOf_val]; simp [h]

/-- the probe leaves failbit as it was -/
theorem streamSizeOf_fail_eq (tr : List Trans) (st : IStream) : (streamSizeOf tr st).1.fail = st.fail := by
  rw [streamSizeOf_val]; cases hf : st.fail <;> simp

/-- with or without address translation the recorded stream size is the input length, or
    `SIZE_MAX` exactly when the stream had failed before -/
theorem streamSizeOf_size (tr : List Trans) (st : IStream) :
    (st.fail = false ∧ (streamSizeOf tr st).2 = BitVec.ofNat 64 st.data.length) ∨
    (st.fail = true ∧ (streamSizeOf tr st).2 = u64max) := by
  rw [streamSizeOf_val]
  cases hf : st.fail <;> simp

theorem streamSizeOf_nil_size (st : IStream) :
    (st.fail = false ∧ (streamSizeOf [] st).2 = BitVec.ofNat 64 st.data.length) ∨
    (st.fail = true ∧ (streamSizeOf [] st).2 = u64max) := streamSizeOf_size [] st

/-! ### `isolatedRead` -/

theorem toInt_nonneg_toNat (x : BitVec 64) (h : 0 ≤ x.toInt) : x.toInt.toNat = x.toNat := by
  rw [BitVec.toInt_eq_toNat_cond] at h ⊢
  have := x.isLt
  simp only [Nat.reducePow] at *
  split at h <;> omega

@[simp] theorem isolatedRead_data (st : IStream) (off n : BitVec 64) :
    (isolatedRead st off n).1.data = st.data := by
  rw [LoadTie.isolatedRead_hand]; dsimp only; split <;> simp

@[simp] theorem isolatedRead_kind (st : IStream) (off n : BitVec 64) :
    (isolatedRead st off n).1.kind = st.kind := by
  rw [LoadTie.isolatedRead_hand]; dsimp only; split <;> simp

/-- a complete isolated read delivers exactly the `n` bytes of the stream at `off` -/
theorem isolatedRead_complete (st : IStream) (off n : BitVec 64)
    (h : (isolatedRead st off n).2.2 = true) (hn : n ≠ 0) :
    (isolatedRead st off n).2.1 = slice st.data off.toNat n.toNat ∧
    (slice st.data off.toNat n.toNat).length = n.toNat := by
  have hn' : 0 < n.toNat := by
    rcases Nat.eq_zero_or_pos n.toNat with h0 | h0
    · exact absurd (BitVec.eq_of_toNat_eq (by simpa using h0)) hn
    · exact h0
  rw [LoadTie.isolatedRead_hand] at h ⊢
  dsimp only at h ⊢
  by_cases hneg : n.toInt < 0
  · simp [hneg] at h
  · simp only [hneg, if_false] at h ⊢
    have hgc : ((st.clear.seekg off.toInt).read n.toNat).1.gcount = n.toNat := by simpa using h
    have hg := IStream.good_of_gcount _ _ (by rw [hgc]; omega)
    obtain ⟨hoff, hpos, -⟩ := IStream.seekg_good _ _ hg
    obtain ⟨hgot, hle⟩ := IStream.read_full _ _ hgc hn'
    rw [hpos, toInt_nonneg_toNat off hoff] at hgot hle
    simp only [IStream.seekg_data, IStream.clear_data] at hgot hle
    exact ⟨hgot, slice_length_of_le hle⟩

/-- translated data offset as the 64-bit value the guards of `load_data` see -/
def dataOff (tr : List Trans) (o : BitVec 64) : BitVec 64 := BitVec.ofInt 64 (trApply tr o.toInt)

@[simp] theorem dataOff_nil (o : BitVec 64) : dataOff [] o = o := by
  simp [dataOff, trApply]

/-! ### the guards of `load_data` as arithmetic -/

theorem g_off_gt_false {off ss : BitVec 64} (h : sec64_load_data_off_gt off ss = false) :
    off.toNat ≤ ss.toNat := by
  simp [sec64_load_data_off_gt, BitVec.ult] at h; exact h

theorem g_size_gt_false {size ss off : BitVec 64} (h : sec64_load_data_size_gt size ss off = false)
    (ho : off.toNat ≤ ss.toNat) : off.toNat + size.toNat ≤ ss.toNat := by
  have h1 := size.isLt; have h2 := ss.isLt; have h3 := off.isLt
  simp only [sec64_load_data_size_gt, BitVec.ult, Bool.or_eq_false_iff, decide_eq_false_iff_not,
    BitVec.toNat_sub, Nat.reducePow] at *
  omega

theorem g_sizet_false {size : BitVec 64} (h : sec64_load_data_sizet size = false) :
    (sec64_load_data_alloc size).toNat = size.toNat + 1 := by
  have h1 := size.isLt
  simp only [sec64_load_data_sizet, sec64_load_data_alloc, BitVec.ult, BitVec.signExtend, BitVec.toInt,
    BitVec.toNat_add, BitVec.toNat_sub, BitVec.toNat_ofNat, BitVec.toNat_ofInt, Nat.reducePow,
    Nat.reduceMod, Nat.reduceMul, decide_eq_false_iff_not] at *
  simp at h ⊢
  omega

/-! ### the invariants -/

/-- What holds of every section the loader produces (and keeps holding under data requests).
    `tr` is the address translation table, `img` the bytes of the input stream. -/
structure LoadedSec (tr : List Trans) (b : SecBuf) (img : Bytes) : Prop where
  /-- a resident buffer is `size + 1` bytes long (the NUL terminator; `alloc 1` when `size = 0`) -/
  len : ∀ d, b.data = some d → d.length = b.size.toNat + 1
  /-- it is exactly the `size` bytes of the input at the (translated) offset plus the terminator -/
  exact : ∀ d, b.data = some d →
    d = slice img (dataOff tr b.offset).toNat b.size.toNat ++ [0] ∧
    (slice img (dataOff tr b.offset).toNat b.size.toNat).length = b.size.toNat
  dsz : ∀ d, b.data = some d → b.dataSize = b.size
  /-- recorded stream size: the input length (with or without address translation), or `SIZE_MAX`
      when the stream had failed before: then the section is the zeroed `SHT_NULL` one without data -/
  ss : b.streamSize = BitVec.ofNat 64 img.length ∨
       (b.streamSize = u64max ∧ isNullOrNobitsTy b.stype = true ∧ b.data = none)

/-- the first `size` bytes of a resident buffer are the bytes of the input at the offset -/
theorem LoadedSec.bytes {tr img} {b : SecBuf} (h : LoadedSec tr b img) (d : Bytes) (hd : b.data = some d) :
    d.take b.size.toNat = slice img (dataOff tr b.offset).toNat b.size.toNat ∧
    (slice img (dataOff tr b.offset).toNat b.size.toNat).length = b.size.toNat := by
  obtain ⟨h1, h2⟩ := h.exact d hd
  refine ⟨?_, h2⟩
  rw [h1]; exact List.take_left' h2

/-- the header-side fields of a section (everything the data requests leave alone) -/
structure SameHdr (b' b : SecBuf) : Prop where
  cls : b'.cls = b.cls
  stype : b'.stype = b.stype
  size : b'.size = b.size
  streamSize : b'.streamSize = b.streamSize
  offset : b'.offset = b.offset
  nameOff : b'.nameOff = b.nameOff
  flags : b'.flags = b.flags
  addr : b'.addr = b.addr
  link : b'.link = b.link
  info : b'.info = b.info
  addrAlign : b'.addrAlign = b.addrAlign
  entSize : b'.entSize = b.entSize
  index : b'.index = b.index
  isLazy : b'.isLazy = b.isLazy

theorem SameHdr.refl (b : SecBuf) : SameHdr b b := by constructor <;> rfl
theorem SameHdr.trans {a b c : SecBuf} (h1 : SameHdr a b) (h2 : SameHdr b c) : SameHdr a c := by
  constructor
  · exact h1.cls.trans h2.cls
  · exact h1.stype.trans h2.stype
  · exact h1.size.trans h2.size
  · exact h1.streamSize.trans h2.streamSize
  · exact h1.offset.trans h2.offset
  · exact h1.nameOff.trans h2.nameOff
  · exact h1.flags.trans h2.flags
  · exact h1.addr.trans h2.addr
  · exact h1.link.trans h2.link
  · exact h1.info.trans h2.info
  · exact h1.addrAlign.trans h2.addrAlign
  · exact h1.entSize.trans h2.entSize
  · exact h1.index.trans h2.index
  · exact h1.isLazy.trans h2.isLazy

/-- an allocation request of the loader: `size + 1` bytes for a byte range that lies inside the
    input stream (at its translated position when an address translation table is set; `tr` is kept
    as a parameter for the callers, the bound no longer depends on it) -/
def AllocOk (_tr : List Trans) (img : Bytes) (n : Nat) : Prop :=
  ∃ off size : Nat, n = size + 1 ∧
    (img.length < 18446744073709551616 → off + size ≤ img.length)

/-- the loader's threaded state: the stream still is the input, all requests so far are fine -/
structure StOk (tr : List Trans) (img : Bytes) (kind : StreamKind) (ls : LoadSt) : Prop where
  data : ls.st.data = img
  kind : ls.st.kind = kind
  allocs : ∀ a ∈ ls.allocs, AllocOk tr img a

theorem toNat_ofNat_len {img : Bytes} (h : img.length < 18446744073709551616) :
    (BitVec.ofNat 64 img.length).toNat = img.length := by
  simp only [BitVec.toNat_ofNat, Nat.reducePow]; omega

/-! ### `section_impl::load_data` -/

theorem secLoadData_eq (c : Cls) (tr : List Trans) (ls : LoadSt) (b : SecBuf) :
    secLoadData c tr ls b =
      (if sec64_load_data_off_gt (dataOff tr b.offset) b.streamSize then (ls, b, false) else
       if sec64_load_data_size_gt b.size b.streamSize (dataOff tr b.offset) then (ls, b, false) else
       if b.data.isNone && !isNullOrNobitsTy b.stype then
         if sec64_load_data_sizet b.size then (ls, b, false) else
         if b.size != 0 then
           if !(isolatedRead ls.st (dataOff tr b.offset) b.size).2.2 then
             ({ st := (isolatedRead ls.st (dataOff tr b.offset) b.size).1,
                allocs := ls.allocs ++ [(sec64_load_data_alloc b.size).toNat] },
              { b with data := none, dataSize := 0 }, false)
           else
             ({ st := (isolatedRead ls.st (dataOff tr b.offset) b.size).1,
                allocs := ls.allocs ++ [(sec64_load_data_alloc b.size).toNat] },
              { b with data := some ((isolatedRead ls.st (dataOff tr b.offset) b.size).2.1 ++ [0]),
                       dataSize := b.size, isLoaded := true }, true)
         else ({ ls with allocs := ls.allocs ++ [(sec64_load_data_alloc b.size).toNat] },
               { b with data := some (alloc 1), dataSize := 0, isLoaded := true }, true)
       else (ls, { b with isLoaded := b.data.isSome || isNullOrNobitsTy b.stype },
             b.data.isSome || isNullOrNobitsTy b.stype)) := by
  -- the model's conditions are the generated ones; `LoadTie.secLoadData_hand` is their hand form
  rw [LoadTie.secLoadData_hand]
  cases c <;> rfl

theorem StOk.push {tr img kind} {ls : LoadSt} (h : StOk tr img kind ls) (st : IStream) (n : Nat)
    (hd : st.data = img) (hk : st.kind = kind) (hn : AllocOk tr img n) :
    StOk tr img kind { st := st, allocs := ls.allocs ++ [n] } := by
  refine ⟨hd, hk, ?_⟩
  intro a ha
  simp only [List.mem_append, List.mem_singleton] at ha
  rcases ha with ha | ha
  · exact h.allocs a ha
  · exact ha ▸ hn

/-- the request `load_data` makes is `size + 1` bytes for a range inside the input -/
theorem secLoadData_allocOk {tr img} {b : SecBuf} (hb : LoadedSec tr b img)
    (h1 : sec64_load_data_off_gt (dataOff tr b.offset) b.streamSize = false)
    (h2 : sec64_load_data_size_gt b.size b.streamSize (dataOff tr b.offset) = false)
    (h3 : (b.data.isNone && !isNullOrNobitsTy b.stype) = true)
    (h4 : sec64_load_data_sizet b.size = false) :
    AllocOk tr img (sec64_load_data_alloc b.size).toNat := by
  refine ⟨(dataOff tr b.offset).toNat, b.size.toNat, g_sizet_false h4, ?_⟩
  intro hlen
  have hle := g_size_gt_false h2 (g_off_gt_false h1)
  rcases hb.ss with hss | ⟨-, hn, -⟩
  · rw [hss, toNat_ofNat_len hlen] at hle; exact hle
  · simp [hn] at h3

theorem secLoadData_spec (c : Cls) (tr : List Trans) (ls : LoadSt) (b : SecBuf) (img : Bytes)
    (kind : StreamKind) (hs : StOk tr img kind ls) (hb : LoadedSec tr b img) :
    StOk tr img kind (secLoadData c tr ls b).1 ∧ LoadedSec tr (secLoadData c tr ls b).2.1 img ∧
    SameHdr (secLoadData c tr ls b).2.1 b := by
  rw [secLoadData_eq]
  by_cases h1 : sec64_load_data_off_gt (dataOff tr b.offset) b.streamSize = true
  · rw [if_pos h1]; exact ⟨hs, hb, SameHdr.refl b⟩
  rw [if_neg h1]
  by_cases h2 : sec64_load_data_size_gt b.size b.streamSize (dataOff tr b.offset) = true
  · rw [if_pos h2]; exact ⟨hs, hb, SameHdr.refl b⟩
  rw [if_neg h2]
  by_cases h3 : (b.data.isNone && !isNullOrNobitsTy b.stype) = true
  · rw [if_pos h3]
    by_cases h4 : sec64_load_data_sizet b.size = true
    · rw [if_pos h4]; exact ⟨hs, hb, SameHdr.refl b⟩
    rw [if_neg h4]
    have hal := secLoadData_allocOk hb (by simpa using h1) (by simpa using h2) h3 (by simpa using h4)
    have hnn : isNullOrNobitsTy b.stype = false := by
      cases hx : isNullOrNobitsTy b.stype <;> simp [hx] at h3 ⊢
    -- the stream-size clause of the invariant for a non-null section that gets data
    have hss : ∀ b' : SecBuf, b'.streamSize = b.streamSize → b'.stype = b.stype →
        b'.streamSize = BitVec.ofNat 64 img.length ∨
        (b'.streamSize = u64max ∧ isNullOrNobitsTy b'.stype = true ∧ b'.data = none) := by
      intro b' e1 e2
      rcases hb.ss with hv | ⟨-, hn, -⟩
      · exact Or.inl (e1 ▸ hv)
      · rw [hnn] at hn; exact absurd hn (by decide)
    by_cases h5 : (b.size != 0) = true
    · rw [if_pos h5]
      have hsz : b.size ≠ 0 := by simpa using h5
      by_cases h6 : (!(isolatedRead ls.st (dataOff tr b.offset) b.size).2.2) = true
      · rw [if_pos h6]
        refine ⟨hs.push _ _ (by simp [hs.data]) (by simp [hs.kind]) hal, ?_, by constructor <;> rfl⟩
        exact ⟨fun d hd => (by simp at hd), fun d hd => (by simp at hd), fun d hd => (by simp at hd),
          hss _ rfl rfl⟩
      · rw [if_neg h6]
        have hc : (isolatedRead ls.st (dataOff tr b.offset) b.size).2.2 = true := by simpa using h6
        obtain ⟨hgot, hlen⟩ := isolatedRead_complete _ _ _ hc hsz
        rw [hs.data] at hgot hlen
        refine ⟨hs.push _ _ (by simp [hs.data]) (by simp [hs.kind]) hal, ?_, by constructor <;> rfl⟩
        refine ⟨?_, ?_, ?_, hss _ rfl rfl⟩
        · intro d hd
          simp only [Option.some.injEq] at hd
          subst hd; simp [hgot, hlen]
        · intro d hd
          simp only [Option.some.injEq] at hd
          subst hd
          exact ⟨by rw [hgot], hlen⟩
        · intro d _; rfl
    · rw [if_neg h5]
      have hsz : b.size = 0 := by simpa using h5
      refine ⟨?_, ?_, by constructor <;> rfl⟩
      · exact hs.push ls.st _ hs.data hs.kind hal
      · refine ⟨?_, ?_, ?_, hss _ rfl rfl⟩
        · intro d hd
          simp only [Option.some.injEq] at hd
          subst hd; simp [hsz]
        · intro d hd
          simp only [Option.some.injEq] at hd
          subst hd
          simp [hsz, slice, alloc]
        · intro d _; exact hsz.symm
  · rw [if_neg h3]
    refine ⟨hs, ⟨hb.len, hb.exact, hb.dsz, hb.ss⟩, by constructor <;> rfl⟩

/-- the invariant only looks at the buffer, the size/offset/type and the recorded stream size -/
theorem LoadedSec.of_same {tr img} {b b' : SecBuf} (h : LoadedSec tr b img)
    (e1 : b'.data = b.data) (e2 : b'.size = b.size) (e3 : b'.offset = b.offset)
    (e4 : b'.dataSize = b.dataSize) (e5 : b'.streamSize = b.streamSize) (e6 : b'.stype = b.stype) :
    LoadedSec tr b' img := by
  refine ⟨?_, ?_, ?_, ?_⟩
  · intro d hd; rw [e2]; exact h.len d (e1 ▸ hd)
  · intro d hd; rw [e2, e3]; exact h.exact d (e1 ▸ hd)
  · intro d hd; rw [e2, e4]; exact h.dsz d (e1 ▸ hd)
  · rw [e5, e6, e1]; exact h.ss

theorem secGetData_eq (c : Cls) (tr : List Trans) (ls : LoadSt) (b : SecBuf) :
    secGetData c tr ls b =
      if (!b.isLoaded && b.canLoad) = true then
        ((secLoadData c tr ls b).1,
         if (secLoadData c tr ls b).2.2 = true then (secLoadData c tr ls b).2.1
         else { (secLoadData c tr ls b).2.1 with canLoad := false })
      else (ls, b) := rfl

/-- `get_data()` against the stream keeps the loader state and the section invariant -/
theorem secGetData_spec (c : Cls) (tr : List Trans) (ls : LoadSt) (b : SecBuf) (img : Bytes)
    (kind : StreamKind) (hs : StOk tr img kind ls) (hb : LoadedSec tr b img) :
    StOk tr img kind (secGetData c tr ls b).1 ∧ LoadedSec tr (secGetData c tr ls b).2 img ∧
    SameHdr (secGetData c tr ls b).2 b := by
  rw [secGetData_eq]
  obtain ⟨h1, h2, h3⟩ := secLoadData_spec c tr ls b img kind hs hb
  split
  · refine ⟨h1, ?_, ?_⟩
    · split
      · exact h2
      · exact h2.of_same rfl rfl rfl rfl rfl rfl
    · split
      · exact h3
      · exact SameHdr.trans (by constructor <;> rfl) h3
  · exact ⟨hs, hb, SameHdr.refl b⟩

/-! ### reading a table entry: stream-size probe, seek, read -/

/-- the first three stream operations of `section_impl::load` / `segment_impl::load` -/
def hdrRead (tr : List Trans) (st : IStream) (hdrOff : Int) (n : Nat) : IStream × Bytes :=
  ((streamSizeOf tr st).1.seekg (trApply tr hdrOff)).read n

@[simp] theorem hdrRead_data (tr st hdrOff n) : (hdrRead tr st hdrOff n).1.data = st.data := by
  simp [hdrRead]
@[simp] theorem hdrRead_kind (tr st hdrOff n) : (hdrRead tr st hdrOff n).1.kind = st.kind := by
  simp [hdrRead]

/-- a table entry read that delivered anything started on a stream that had not failed -/
theorem hdrRead_gcount (tr : List Trans) (st : IStream) (hdrOff : Int) (n : Nat)
    (h : (hdrRead tr st hdrOff n).1.gcount ≠ 0) : st.fail = false := by
  have hg := IStream.good_of_gcount _ _ h
  have hf := (IStream.seekg_good _ _ hg).2.2
  cases hx : st.fail
  · rfl
  · rw [streamSizeOf_fail tr st hx] at hf; exact absurd hf (by decide)

theorem hdrRead_failed (tr : List Trans) (st : IStream) (hdrOff : Int) (n : Nat)
    (h : st.fail = true) : (hdrRead tr st hdrOff n).1.gcount = 0 ∧ (hdrRead tr st hdrOff n).2 = [] := by
  have h1 := streamSizeOf_fail tr st h
  have h2 := IStream.seekg_fail _ (trApply tr hdrOff) h1
  have h3 : ((streamSizeOf tr st).1.seekg (trApply tr hdrOff)).good = false := by
    simp [IStream.good, h2]
  exact ⟨(IStream.read_not_good _ n h3).1, (IStream.read_not_good _ n h3).2.2⟩

theorem shdrSize_ne_zero (c : Cls) : shdrSize c ≠ 0 := by cases c <;> decide
theorem phdrSize_ne_zero (c : Cls) : phdrSize c ≠ 0 := by cases c <;> decide

@[simp] theorem decodeShdr_data (c enc r b) : (decodeShdr c enc r b).data = b.data := by cases c <;> rfl
@[simp] theorem decodeShdr_streamSize (c enc r b) : (decodeShdr c enc r b).streamSize = b.streamSize := by
  cases c <;> rfl
@[simp] theorem decodeShdr_dataSize (c enc r b) : (decodeShdr c enc r b).dataSize = b.dataSize := by
  cases c <;> rfl
@[simp] theorem decodeShdr_isLoaded (c enc r b) : (decodeShdr c enc r b).isLoaded = b.isLoaded := by
  cases c <;> rfl
@[simp] theorem decodeShdr_canLoad (c enc r b) : (decodeShdr c enc r b).canLoad = b.canLoad := by
  cases c <;> rfl
@[simp] theorem decodeShdr_index (c enc r b) : (decodeShdr c enc r b).index = b.index := by cases c <;> rfl
@[simp] theorem decodeShdr_isLazy (c enc r b) : (decodeShdr c enc r b).isLazy = b.isLazy := by cases c <;> rfl
@[simp] theorem decodeShdr_cls (c enc r b) : (decodeShdr c enc r b).cls = b.cls := by cases c <;> rfl

/-- the section object before its header is read -/
def secB0 (c : Cls) (tr : List Trans) (ss : BitVec 64) (isLazy : Bool) (idx : Nat) : SecBuf :=
  { cls := c, stype := 0, size := 0, data := none, dataSize := 0, streamSize := ss,
    translatorEmpty := tr.isEmpty, isLazy := isLazy, index := idx }

/-- the section after a complete header read, before any data request -/
def secHdrOnly (c : Cls) (enc : Enc) (tr : List Trans) (st : IStream) (got : Bytes) (ss : BitVec 64)
    (isLazy : Bool) (idx : Nat) : SecBuf :=
  { decodeShdr c enc got (secB0 c tr ss isLazy idx) with
    fileData := fileDataOf c tr st (decodeShdr c enc got (secB0 c tr ss isLazy idx)) }

theorem secLoad_eq (c : Cls) (enc : Enc) (tr : List Trans) (ls : LoadSt) (hdrOff : Int) (isLazy : Bool)
    (idx : Nat) :
    secLoad c enc tr ls hdrOff isLazy idx =
      if ((hdrRead tr ls.st hdrOff (shdrSize c)).1.gcount != shdrSize c) = true then
        ({ ls with st := (hdrRead tr ls.st hdrOff (shdrSize c)).1 },
         { secB0 c tr (streamSizeOf tr ls.st).2 isLazy idx with addrSet := true })
      else
        if sec64_load_eager isLazy (secHdrOnly c enc tr (hdrRead tr ls.st hdrOff (shdrSize c)).1
              (hdrRead tr ls.st hdrOff (shdrSize c)).2 (streamSizeOf tr ls.st).2 isLazy idx).isLoaded = true then
          ((secGetData c tr { ls with st := (hdrRead tr ls.st hdrOff (shdrSize c)).1 }
              (secHdrOnly c enc tr (hdrRead tr ls.st hdrOff (shdrSize c)).1
                (hdrRead tr ls.st hdrOff (shdrSize c)).2 (streamSizeOf tr ls.st).2 isLazy idx)).1,
           { (secGetData c tr { ls with st := (hdrRead tr ls.st hdrOff (shdrSize c)).1 }
              (secHdrOnly c enc tr (hdrRead tr ls.st hdrOff (shdrSize c)).1
                (hdrRead tr ls.st hdrOff (shdrSize c)).2 (streamSizeOf tr ls.st).2 isLazy idx)).2
             with addrSet := true })
        else
          ({ ls with st := (hdrRead tr ls.st hdrOff (shdrSize c)).1 },
           { secHdrOnly c enc tr (hdrRead tr ls.st hdrOff (shdrSize c)).1
                (hdrRead tr ls.st hdrOff (shdrSize c)).2 (streamSizeOf tr ls.st).2 isLazy idx
             with addrSet := true }) := by
  -- the two conditions of `section_impl::load` are the generated ones (Gen/SitesLoad.lean)
  rw [LoadTie.secLoad_hand]
  rfl

/-- the stream-size clause of `LoadedSec` right after the header read -/
theorem secLoad_ss (tr : List Trans) (st : IStream) (hdrOff : Int) (n : Nat) (img : Bytes)
    (hd : st.data = img) (stype : BitVec 32)
    (h : (hdrRead tr st hdrOff n).1.gcount ≠ 0 ∨ isNullOrNobitsTy stype = true) :
    (streamSizeOf tr st).2 = BitVec.ofNat 64 img.length ∨
    ((streamSizeOf tr st).2 = u64max ∧
      isNullOrNobitsTy stype = true ∧ (none : Option Bytes) = none) := by
  rcases streamSizeOf_size tr st with ⟨-, h2⟩ | ⟨h1, h2⟩
  · exact Or.inl (hd ▸ h2)
  · rcases h with h | h
    · exact absurd (hdrRead_failed tr st hdrOff n h1).1 h
    · exact Or.inr ⟨h2, h, rfl⟩

theorem StOk.setSt {tr img kind} {ls : LoadSt} (h : StOk tr img kind ls) (st : IStream)
    (hd : st.data = img) (hk : st.kind = kind) : StOk tr img kind { ls with st := st } :=
  ⟨hd, hk, h.allocs⟩

/-- `section_impl::load` establishes the invariant, whatever the stream state and the bytes -/
theorem secLoad_spec (c : Cls) (enc : Enc) (tr : List Trans) (ls : LoadSt) (hdrOff : Int)
    (isLazy : Bool) (idx : Nat) (img : Bytes) (kind : StreamKind) (hs : StOk tr img kind ls) :
    StOk tr img kind (secLoad c enc tr ls hdrOff isLazy idx).1 ∧
    LoadedSec tr (secLoad c enc tr ls hdrOff isLazy idx).2 img := by
  rw [secLoad_eq]
  have hs' : StOk tr img kind { ls with st := (hdrRead tr ls.st hdrOff (shdrSize c)).1 } :=
    hs.setSt _ (by simp [hs.data]) (by simp [hs.kind])
  split
  · refine ⟨hs', fun d hd => (by simp [secB0] at hd), fun d hd => (by simp [secB0] at hd),
      fun d hd => (by simp [secB0] at hd), ?_⟩
    exact secLoad_ss tr ls.st hdrOff (shdrSize c) img hs.data 0 (Or.inr (by decide))
  · rename_i hg
    have hg' : (hdrRead tr ls.st hdrOff (shdrSize c)).1.gcount ≠ 0 := by
      have : (hdrRead tr ls.st hdrOff (shdrSize c)).1.gcount = shdrSize c := by simpa using hg
      rw [this]; exact shdrSize_ne_zero c
    have hb : LoadedSec tr (secHdrOnly c enc tr (hdrRead tr ls.st hdrOff (shdrSize c)).1
        (hdrRead tr ls.st hdrOff (shdrSize c)).2 (streamSizeOf tr ls.st).2 isLazy idx) img := by
      refine ⟨fun d hd => (by simp [secHdrOnly, secB0] at hd), fun d hd => (by simp [secHdrOnly, secB0] at hd),
        fun d hd => (by simp [secHdrOnly, secB0] at hd), ?_⟩
      have := secLoad_ss tr ls.st hdrOff (shdrSize c) img hs.data
        (secHdrOnly c enc tr (hdrRead tr ls.st hdrOff (shdrSize c)).1
          (hdrRead tr ls.st hdrOff (shdrSize c)).2 (streamSizeOf tr ls.st).2 isLazy idx).stype (Or.inl hg')
      simpa [secHdrOnly, secB0] using this
    split
    · obtain ⟨h1, h2, -⟩ := secGetData_spec c tr _ _ img kind hs' hb
      exact ⟨h1, h2.of_same rfl rfl rfl rfl rfl rfl⟩
    · exact ⟨hs', hb.of_same rfl rfl rfl rfl rfl rfl⟩

/-! ### segments -/

/-- What holds of every segment the loader produces. -/
structure LoadedSeg (tr : List Trans) (g : Seg) (img : Bytes) : Prop where
  len : ∀ d, g.data = some d → d.length = g.filesz.toNat + 1
  exact : ∀ d, g.data = some d →
    d = slice img (dataOff tr g.offset).toNat g.filesz.toNat ++ [0] ∧
    (slice img (dataOff tr g.offset).toNat g.filesz.toNat).length = g.filesz.toNat
  ss : g.streamSize = BitVec.ofNat 64 img.length ∨
       (g.streamSize = u64max ∧ seg64_load_data_skip g.stype g.filesz = true ∧ g.data = none)

theorem LoadedSeg.bytes {tr img} {g : Seg} (h : LoadedSeg tr g img) (d : Bytes) (hd : g.data = some d) :
    d.take g.filesz.toNat = slice img (dataOff tr g.offset).toNat g.filesz.toNat ∧
    (slice img (dataOff tr g.offset).toNat g.filesz.toNat).length = g.filesz.toNat := by
  obtain ⟨h1, h2⟩ := h.exact d hd
  refine ⟨?_, h2⟩
  rw [h1]; exact List.take_left' h2

/-- the `clear(); seekg(off); read(size)` of `segment_impl::load_data` -/
def segRead (st : IStream) (off size : BitVec 64) : IStream × Bytes :=
  if size.toInt < 0 then ((st.clear.seekg off.toInt).readNeg, ([] : Bytes))
  else (st.clear.seekg off.toInt).read size.toNat

/-- re-raise the state bits the stream had before the isolated read -/
def mergeFlags (st2 st : IStream) : IStream :=
  { st2 with eof := st2.eof || st.eof, fail := st2.fail || st.fail }

@[simp] theorem segRead_data (st off size) : (segRead st off size).1.data = st.data := by
  unfold segRead; split <;> simp
@[simp] theorem segRead_kind (st off size) : (segRead st off size).1.kind = st.kind := by
  unfold segRead; split <;> simp

theorem readNeg_fail (s : IStream) : s.readNeg.fail = true := by
  unfold IStream.readNeg; split <;> rfl

theorem segRead_ok (st : IStream) (off size : BitVec 64) (h : (segRead st off size).1.fail = false) :
    (segRead st off size).2 = slice st.data off.toNat size.toNat ∧
    (slice st.data off.toNat size.toNat).length = size.toNat := by
  unfold segRead at h ⊢
  by_cases hneg : size.toInt < 0
  · rw [if_pos hneg] at h; rw [readNeg_fail] at h; exact absurd h (by decide)
  · rw [if_neg hneg] at h ⊢
    obtain ⟨hg, hgot, hlen⟩ := IStream.read_not_fail _ _ h
    obtain ⟨hoff, hpos, -⟩ := IStream.seekg_good _ _ hg
    rw [hpos, toInt_nonneg_toNat off hoff] at hgot hlen
    simp only [IStream.seekg_data, IStream.clear_data] at hgot hlen
    exact ⟨hgot, hlen⟩

theorem segLoadData_eq (c : Cls) (tr : List Trans) (ls : LoadSt) (g : Seg) :
    segLoadData c tr ls g =
      (if seg64_load_data_skip g.stype g.filesz then (ls, g, true) else
       if sec64_load_data_off_gt (dataOff tr g.offset) g.streamSize then (ls, { g with data := none }, false) else
       if sec64_load_data_size_gt g.filesz g.streamSize (dataOff tr g.offset) then
         (ls, { g with data := none }, false) else
       if sec64_load_data_sizet g.filesz then (ls, { g with data := none }, false) else
       if (!(segRead ls.st (dataOff tr g.offset) g.filesz).1.fail) = true then
         ({ st := mergeFlags (segRead ls.st (dataOff tr g.offset) g.filesz).1 ls.st,
            allocs := ls.allocs ++ [(sec64_load_data_alloc g.filesz).toNat] },
          { g with data := some ((segRead ls.st (dataOff tr g.offset) g.filesz).2 ++ [0]), isLoaded := true },
          true)
       else
         ({ st := mergeFlags (segRead ls.st (dataOff tr g.offset) g.filesz).1 ls.st,
            allocs := ls.allocs ++ [(sec64_load_data_alloc g.filesz).toNat] },
          { g with data := none }, false)) := by
  rw [LoadTie.segLoadData_flat]
  cases c <;> rfl

theorem LoadedSeg.of_same {tr img} {g g' : Seg} (h : LoadedSeg tr g img)
    (e1 : g'.data = g.data) (e2 : g'.filesz = g.filesz) (e3 : g'.offset = g.offset)
    (e5 : g'.streamSize = g.streamSize) (e6 : g'.stype = g.stype) : LoadedSeg tr g' img := by
  refine ⟨?_, ?_, ?_⟩
  · intro d hd; rw [e2]; exact h.len d (e1 ▸ hd)
  · intro d hd; rw [e2, e3]; exact h.exact d (e1 ▸ hd)
  · rw [e5, e6, e1, e2]; exact h.ss

/-- dropping the data pointer keeps the invariant -/
theorem LoadedSeg.dropData {tr img} {g : Seg} (h : LoadedSeg tr g img) :
    LoadedSeg tr { g with data := none } img := by
  refine ⟨fun d hd => (by simp at hd), fun d hd => (by simp at hd), ?_⟩
  rcases h.ss with h1 | ⟨h1, h2, -⟩
  · exact Or.inl h1
  · exact Or.inr ⟨h1, h2, rfl⟩

/-- the header-side fields of a segment -/
structure SameSegHdr (g' g : Seg) : Prop where
  stype : g'.stype = g.stype
  flags : g'.flags = g.flags
  offset : g'.offset = g.offset
  vaddr : g'.vaddr = g.vaddr
  paddr : g'.paddr = g.paddr
  filesz : g'.filesz = g.filesz
  memsz : g'.memsz = g.memsz
  align : g'.align = g.align
  streamSize : g'.streamSize = g.streamSize
  isLazy : g'.isLazy = g.isLazy

theorem SameSegHdr.refl (g : Seg) : SameSegHdr g g := by constructor <;> rfl

theorem segLoadData_spec (c : Cls) (tr : List Trans) (ls : LoadSt) (g : Seg) (img : Bytes)
    (kind : StreamKind) (hs : StOk tr img kind ls) (hg : LoadedSeg tr g img) :
    StOk tr img kind (segLoadData c tr ls g).1 ∧ LoadedSeg tr (segLoadData c tr ls g).2.1 img ∧
    SameSegHdr (segLoadData c tr ls g).2.1 g := by
  rw [segLoadData_eq]
  by_cases h0 : seg64_load_data_skip g.stype g.filesz = true
  · rw [if_pos h0]; exact ⟨hs, hg, SameSegHdr.refl g⟩
  rw [if_neg h0]
  by_cases h1 : sec64_load_data_off_gt (dataOff tr g.offset) g.streamSize = true
  · rw [if_pos h1]; exact ⟨hs, hg.dropData, by constructor <;> rfl⟩
  rw [if_neg h1]
  by_cases h2 : sec64_load_data_size_gt g.filesz g.streamSize (dataOff tr g.offset) = true
  · rw [if_pos h2]; exact ⟨hs, hg.dropData, by constructor <;> rfl⟩
  rw [if_neg h2]
  by_cases h4 : sec64_load_data_sizet g.filesz = true
  · rw [if_pos h4]; exact ⟨hs, hg.dropData, by constructor <;> rfl⟩
  rw [if_neg h4]
  have hal : AllocOk tr img (sec64_load_data_alloc g.filesz).toNat := by
    refine ⟨(dataOff tr g.offset).toNat, g.filesz.toNat, g_sizet_false (by simpa using h4), ?_⟩
    intro hlen
    have hle := g_size_gt_false (by simpa using h2) (g_off_gt_false (by simpa using h1))
    rcases hg.ss with hss | ⟨-, hn, -⟩
    · rw [hss, toNat_ofNat_len hlen] at hle; exact hle
    · exact absurd hn h0
  have hss : g.streamSize = BitVec.ofNat 64 img.length ∨
      (g.streamSize = u64max ∧ seg64_load_data_skip g.stype g.filesz = true ∧
        (none : Option Bytes) = none) := by
    rcases hg.ss with h | ⟨hv, hn, -⟩
    · exact Or.inl h
    · exact Or.inr ⟨hv, hn, rfl⟩
  have hss' : ∀ d : Option Bytes, g.streamSize = BitVec.ofNat 64 img.length ∨
      (g.streamSize = u64max ∧ seg64_load_data_skip g.stype g.filesz = true ∧ d = none) := by
    intro d
    rcases hg.ss with h | ⟨hv, hn, -⟩
    · exact Or.inl h
    · exact absurd hn h0
  have hst : StOk tr img kind
      { st := mergeFlags (segRead ls.st (dataOff tr g.offset) g.filesz).1 ls.st,
        allocs := ls.allocs ++ [(sec64_load_data_alloc g.filesz).toNat] } :=
    hs.push _ _ (by simp [mergeFlags, hs.data]) (by simp [mergeFlags, hs.kind]) hal
  by_cases h6 : (!(segRead ls.st (dataOff tr g.offset) g.filesz).1.fail) = true
  · rw [if_pos h6]
    obtain ⟨hgot, hlen⟩ := segRead_ok _ _ _ (by simpa using h6)
    rw [hs.data] at hgot hlen
    refine ⟨hst, ⟨?_, ?_, hss' _⟩, by constructor <;> rfl⟩
    · intro d hd
      simp only [Option.some.injEq] at hd
      subst hd; simp [hgot, hlen]
    · intro d hd
      simp only [Option.some.injEq] at hd
      subst hd
      exact ⟨by rw [hgot], hlen⟩
  · rw [if_neg h6]
    exact ⟨hst, ⟨fun d hd => (by simp at hd), fun d hd => (by simp at hd), hss⟩, by constructor <;> rfl⟩

theorem segGetData_eq (c : Cls) (tr : List Trans) (ls : LoadSt) (g : Seg) :
    segGetData c tr ls g =
      if (!g.isLoaded) = true then ((segLoadData c tr ls g).1, (segLoadData c tr ls g).2.1) else (ls, g) := rfl

theorem segGetData_spec (c : Cls) (tr : List Trans) (ls : LoadSt) (g : Seg) (img : Bytes)
    (kind : StreamKind) (hs : StOk tr img kind ls) (hg : LoadedSeg tr g img) :
    StOk tr img kind (segGetData c tr ls g).1 ∧ LoadedSeg tr (segGetData c tr ls g).2 img ∧
    SameSegHdr (segGetData c tr ls g).2 g := by
  rw [segGetData_eq]
  split
  · exact segLoadData_spec c tr ls g img kind hs hg
  · exact ⟨hs, hg, SameSegHdr.refl g⟩

@[simp] theorem decodePhdr_data (c enc r g) : (decodePhdr c enc r g).data = g.data := by cases c <;> rfl
@[simp] theorem decodePhdr_streamSize (c enc r g) : (decodePhdr c enc r g).streamSize = g.streamSize := by
  cases c <;> rfl
@[simp] theorem decodePhdr_isLoaded (c enc r g) : (decodePhdr c enc r g).isLoaded = g.isLoaded := by
  cases c <;> rfl
@[simp] theorem decodePhdr_isLazy (c enc r g) : (decodePhdr c enc r g).isLazy = g.isLazy := by
  cases c <;> rfl

/-- the segment object right after its program header was read (short reads keep the zeros) -/
def segHdr (c : Cls) (enc : Enc) (tr : List Trans) (st : IStream) (hdrOff : Int) (isLazy : Bool) : Seg :=
  decodePhdr c enc (wr (List.replicate (phdrSize c) 0) 0 (hdrRead tr st hdrOff (phdrSize c)).2)
    { streamSize := (streamSizeOf tr st).2, isLazy := isLazy, offsetSet := true }

theorem segLoad_eq (c : Cls) (enc : Enc) (tr : List Trans) (ls : LoadSt) (hdrOff : Int) (isLazy : Bool) :
    segLoad c enc tr ls hdrOff isLazy =
      if (!(isLazy || (segHdr c enc tr ls.st hdrOff isLazy).isLoaded)) = true then
        segLoadData c tr { ls with st := (hdrRead tr ls.st hdrOff (phdrSize c)).1 }
          (segHdr c enc tr ls.st hdrOff isLazy)
      else ({ ls with st := (hdrRead tr ls.st hdrOff (phdrSize c)).1 }, segHdr c enc tr ls.st hdrOff isLazy,
            (segHdr c enc tr ls.st hdrOff isLazy).isLoaded ||
              segRangeOk c tr (segHdr c enc tr ls.st hdrOff isLazy)) := by
  -- `if ( !( is_lazy || is_loaded ) )` and `return is_loaded || is_file_range_valid()` are the generated
  -- expressions of either instantiation
  cases c <;> rfl

/-- a program header of which nothing was read is the `PT_NULL` one -/
theorem decodePhdr_zero_stype (c : Cls) (enc : Enc) (g : Seg) :
    (decodePhdr c enc (wr (List.replicate (phdrSize c) 0) 0 []) g).stype = 0 := by
  cases c <;> cases enc <;> (simp only [decodePhdr]; decide)

theorem segHdr_inv (c : Cls) (enc : Enc) (tr : List Trans) (st : IStream) (hdrOff : Int) (isLazy : Bool)
    (img : Bytes) (hd : st.data = img) : LoadedSeg tr (segHdr c enc tr st hdrOff isLazy) img := by
  refine ⟨fun d hd => (by simp [segHdr] at hd), fun d hd => (by simp [segHdr] at hd), ?_⟩
  rcases streamSizeOf_size tr st with ⟨-, h2⟩ | ⟨h1, h2⟩
  · exact Or.inl (by simp [segHdr, h2, hd])
  · refine Or.inr ⟨by simp [segHdr, h2], ?_, by simp [segHdr]⟩
    have hz : (segHdr c enc tr st hdrOff isLazy).stype = 0 := by
      unfold segHdr
      rw [(hdrRead_failed tr st hdrOff (phdrSize c) h1).2]
      exact decodePhdr_zero_stype c enc _
    rw [hz]; unfold seg64_load_data_skip; rw [Bool.or_eq_true]; left; decide

/-- `segment_impl::load` establishes the invariant -/
theorem segLoad_spec (c : Cls) (enc : Enc) (tr : List Trans) (ls : LoadSt) (hdrOff : Int)
    (isLazy : Bool) (img : Bytes) (kind : StreamKind) (hs : StOk tr img kind ls) :
    StOk tr img kind (segLoad c enc tr ls hdrOff isLazy).1 ∧
    LoadedSeg tr (segLoad c enc tr ls hdrOff isLazy).2.1 img := by
  rw [segLoad_eq]
  have hs' : StOk tr img kind { ls with st := (hdrRead tr ls.st hdrOff (phdrSize c)).1 } :=
    hs.setSt _ (by simp [hs.data]) (by simp [hs.kind])
  have hg := segHdr_inv c enc tr ls.st hdrOff isLazy img hs.data
  split
  · obtain ⟨h1, h2, -⟩ := segLoadData_spec c tr _ _ img kind hs' hg
    exact ⟨h1, h2⟩
  · exact ⟨hs', hg⟩

/-! ### bounded string lookup -/

/-- what a successful bounded string lookup returns: the bytes at `idx` up to (excluding) a NUL
    that lies inside `[0, size)` -/
structure CStrAt (data : Bytes) (size idx : Nat) (s : Bytes) : Prop where
  inside : idx + s.length < size
  noNul : (0 : UInt8) ∉ s
  bytes : s = slice data idx s.length
  term : data[idx + s.length]? = some 0

/-- the checked search never leaves a buffer that is longer than the section size -/
theorem cstrAt_total (site : String) (data : Bytes) (size idx : Nat) (h : size < data.length) :
    ∃ r, cstrAt site data size idx = .ok r ∧ ∀ s, r = some s → CStrAt data size idx s := by
  unfold cstrAt
  by_cases hi : idx ≥ size
  · exact ⟨none, by simp [hi, pure, Except.pure], fun s hs => by cases hs⟩
  · rw [if_neg hi]
    have hal : (slice data idx (size - idx)).length = size - idx := by
      rw [slice_length]; omega
    dsimp only
    cases hk : (slice data idx (size - idx)).idxOf? (0 : UInt8) with
    | none =>
      refine ⟨none, ?_, fun s hs => by cases hs⟩
      simp [hal, pure, Except.pure]
    | some k =>
      refine ⟨some ((slice data idx (size - idx)).take k), rfl, ?_⟩
      intro s hs
      simp only [Option.some.injEq] at hs
      subst hs
      obtain ⟨hkl, hk0, hkj⟩ := List.idxOf?_eq_some_iff.mp hk
      have hkl' : k < size - idx := hal ▸ hkl
      have hlen : ((slice data idx (size - idx)).take k).length = k := by
        rw [List.length_take, hal]; omega
      refine ⟨by rw [hlen]; omega, ?_, ?_, ?_⟩
      · intro hm
        obtain ⟨j, hj, hj0⟩ := List.mem_iff_getElem.mp hm
        rw [List.getElem_take] at hj0
        rw [hlen] at hj
        exact hkj j hj hj0
      · rw [hlen]; unfold slice; rw [List.take_take]; congr 1; omega
      · rw [hlen]
        have : (slice data idx (size - idx))[k]? = some 0 := by
          rw [List.getElem?_eq_getElem hkl, hk0]
        unfold slice at this
        rw [List.getElem?_take, if_pos hkl', List.getElem?_drop] at this
        exact this

/-- the buffer fact the string reader needs -/
def BufOk (b : SecBuf) : Prop := ∀ d, b.data = some d → b.size.toNat < d.length

theorem LoadedSec.bufOk {tr img} {b : SecBuf} (h : LoadedSec tr b img) : BufOk b := by
  intro d hd; have := h.len d hd; omega

/-- `get_string(index)` is memory-safe for EVERY 32-bit index, and what it returns is a
    NUL-free run of section bytes inside `[0, size)` -/
theorem getString_total' (b : SecBuf) (hb : BufOk b) (idx : BitVec 32) :
    ∃ r, getString b idx = .ok r ∧
      ∀ s, r = some s → ∃ d, b.data = some d ∧ CStrAt d b.size.toNat idx.toNat s := by
  rw [LoadTie.getString_hand]
  cases hd : b.data with
  | none => exact ⟨none, rfl, fun s hs => by cases hs⟩
  | some d =>
    obtain ⟨r, hr, hs⟩ := cstrAt_total "get_string/memchr" d b.size.toNat idx.toNat (hb d hd)
    exact ⟨r, hr, fun s h => ⟨d, rfl, hs s h⟩⟩

/-- the section with the name `resolveNames` gives it -/
def withName (strtab b : SecBuf) : SecBuf :=
  match getString strtab b.nameOff with
  | .ok (some s) => { b with name := s }
  | _ => b

theorem resolveNames_eq (strtab : SecBuf) (hb : BufOk strtab) (secs : List SecBuf) :
    resolveNames strtab secs = .ok (secs.map (withName strtab)) := by
  induction secs with
  | nil => rfl
  | cons b rest ih =>
    obtain ⟨r, hr, -⟩ := getString_total' strtab hb b.nameOff
    unfold resolveNames
    rw [hr, ih]
    cases r <;> simp [bind, Except.bind, pure, Except.pure, withName, hr]

theorem withName_sameHdr (strtab b : SecBuf) : SameHdr (withName strtab b) b := by
  unfold withName; split <;> constructor <;> rfl

theorem withName_inv {tr img} (strtab : SecBuf) {b : SecBuf} (h : LoadedSec tr b img) :
    LoadedSec tr (withName strtab b) img := by
  unfold withName; split
  · exact h.of_same rfl rfl rfl rfl rfl rfl
  · exact h

/-! ### the loops -/

theorem loadSectionsLoop_succ (c enc tr isLazy shoff entsize n i ls acc) :
    loadSectionsLoop c enc tr isLazy shoff entsize (n + 1) i ls acc =
      loadSectionsLoop c enc tr isLazy shoff entsize n (i + 1)
        (secLoad c enc tr ls (shoff + (Int.ofNat i) * (Int.ofNat entsize)) isLazy i).1
        ((secLoad c enc tr ls (shoff + (Int.ofNat i) * (Int.ofNat entsize)) isLazy i).2 :: acc) := rfl

theorem loadSectionsLoop_spec (c : Cls) (enc : Enc) (tr : List Trans) (isLazy : Bool) (shoff : Int)
    (entsize : Nat) (img : Bytes) (kind : StreamKind) :
    ∀ (n i : Nat) (ls : LoadSt) (acc : List SecBuf), StOk tr img kind ls →
      (∀ b ∈ acc, LoadedSec tr b img) →
      StOk tr img kind (loadSectionsLoop c enc tr isLazy shoff entsize n i ls acc).1 ∧
      ∀ b ∈ (loadSectionsLoop c enc tr isLazy shoff entsize n i ls acc).2, LoadedSec tr b img := by
  intro n
  induction n with
  | zero =>
    intro i ls acc hs hacc
    exact ⟨hs, fun b hb => hacc b (by simpa [loadSectionsLoop] using hb)⟩
  | succ n ih =>
    intro i ls acc hs hacc
    rw [loadSectionsLoop_succ]
    obtain ⟨h1, h2⟩ := secLoad_spec c enc tr ls (shoff + (Int.ofNat i) * (Int.ofNat entsize)) isLazy i img kind hs
    apply ih _ _ _ h1
    intro b hb
    rcases List.mem_cons.mp hb with rfl | hb
    · exact h2
    · exact hacc b hb

theorem loadSegmentsLoop_succ (c enc tr isLazy phoff entsize secs n i ls acc) :
    loadSegmentsLoop c enc tr isLazy phoff entsize secs (n + 1) i ls acc =
      if (!(segLoad c enc tr ls (phoff + (Int.ofNat i) * (Int.ofNat entsize)) isLazy).2.2 ||
          (segLoad c enc tr ls (phoff + (Int.ofNat i) * (Int.ofNat entsize)) isLazy).1.st.fail) = true then
        ((segLoad c enc tr ls (phoff + (Int.ofNat i) * (Int.ofNat entsize)) isLazy).1, acc.reverse, false)
      else
        loadSegmentsLoop c enc tr isLazy phoff entsize secs n (i + 1)
          (segLoad c enc tr ls (phoff + (Int.ofNat i) * (Int.ofNat entsize)) isLazy).1
          ({ (segLoad c enc tr ls (phoff + (Int.ofNat i) * (Int.ofNat entsize)) isLazy).2.1 with
              index := i,
              secs := (secs.filter (memberOf (segLoad c enc tr ls (phoff + (Int.ofNat i) * (Int.ofNat entsize)) isLazy).2.1)).map
                        (fun b => BitVec.ofNat 16 b.index) } :: acc) := rfl

theorem loadSegmentsLoop_spec (c : Cls) (enc : Enc) (tr : List Trans) (isLazy : Bool) (phoff : Int)
    (entsize : Nat) (secs : List SecBuf) (img : Bytes) (kind : StreamKind) :
    ∀ (n i : Nat) (ls : LoadSt) (acc : List Seg), StOk tr img kind ls →
      (∀ g ∈ acc, LoadedSeg tr g img) →
      StOk tr img kind (loadSegmentsLoop c enc tr isLazy phoff entsize secs n i ls acc).1 ∧
      ∀ g ∈ (loadSegmentsLoop c enc tr isLazy phoff entsize secs n i ls acc).2.1, LoadedSeg tr g img := by
  intro n
  induction n with
  | zero =>
    intro i ls acc hs hacc
    exact ⟨hs, fun g hg => hacc g (by simpa [loadSegmentsLoop] using hg)⟩
  | succ n ih =>
    intro i ls acc hs hacc
    rw [loadSegmentsLoop_succ]
    obtain ⟨h1, h2⟩ := segLoad_spec c enc tr ls (phoff + (Int.ofNat i) * (Int.ofNat entsize)) isLazy img kind hs
    split
    · exact ⟨h1, fun g hg => hacc g (by simpa using hg)⟩
    · apply ih _ _ _ h1
      intro g hg
      rcases List.mem_cons.mp hg with rfl | hg
      · exact h2.of_same rfl rfl rfl rfl rfl
      · exact hacc g hg

/-! ### `load` decomposed into its phases (definitionally the same function) -/

def loadSegsPhase (o : Obj) (c : Cls) (enc : Enc) (hdr : Bytes) (isLazy : Bool) (ls : LoadSt)
    (secs : List SecBuf) : M LoadRes :=
  if load_segments_entsize_bad (Hdr.e_phnum c enc hdr) (Hdr.ident hdr EI_CLASS) (Hdr.e_phentsize c enc hdr) then
    pure { obj := { o with secs := secs, stream := ls.st }, ok := false, allocs := ls.allocs }
  else
    let r := loadSegmentsLoop c enc o.trans isLazy (Hdr.e_phoff c enc hdr).toInt (Hdr.e_phentsize c enc hdr).toNat
              secs (Hdr.e_phnum c enc hdr).toNat 0 ls []
    pure { obj := { o with secs := secs, segs := r.2.1, stream := r.1.st }, ok := r.2.2, allocs := r.1.allocs }

def loadNamesK (c : Cls) (enc : Enc) (tr : List Trans) (hdr : Bytes) (ls : LoadSt) (secs : List SecBuf)
    (k : LoadSt × List SecBuf → M LoadRes) : M LoadRes :=
  if Hdr.e_shstrndx c enc hdr == BitVec.ofNat 16 SHN_UNDEF then k (ls, secs) else
  match secs[(Hdr.e_shstrndx c enc hdr).toNat]? with
  | none => k (ls, secs)
  | some strtab =>
    (resolveNames (secGetData c tr ls strtab).2
      (secs.set (Hdr.e_shstrndx c enc hdr).toNat (secGetData c tr ls strtab).2)) >>= fun secs' =>
    k ((secGetData c tr ls strtab).1, secs')

def loadSecs0 (c : Cls) (enc : Enc) (tr : List Trans) (hdr : Bytes) (isLazy : Bool) (st : IStream) :
    LoadSt × List SecBuf :=
  if load_sections_entsize_bad (Hdr.e_shnum c enc hdr) (Hdr.ident hdr EI_CLASS) (Hdr.e_shentsize c enc hdr) then
    ({ st := st }, [])
  else
    loadSectionsLoop c enc tr isLazy (Hdr.e_shoff c enc hdr).toInt (Hdr.e_shentsize c enc hdr).toNat
        (Hdr.e_shnum c enc hdr).toNat 0 { st := st } []

def loadAfterHdr (o : Obj) (c : Cls) (enc : Enc) (hdr : Bytes) (isLazy : Bool) (st : IStream) : M LoadRes :=
  if load_sections_entsize_bad (Hdr.e_shnum c enc hdr) (Hdr.ident hdr EI_CLASS) (Hdr.e_shentsize c enc hdr) then
    loadSegsPhase o c enc hdr isLazy (loadSecs0 c enc o.trans hdr isLazy st).1 (loadSecs0 c enc o.trans hdr isLazy st).2
  else
    loadNamesK c enc o.trans hdr (loadSecs0 c enc o.trans hdr isLazy st).1 (loadSecs0 c enc o.trans hdr isLazy st).2
      (fun p => loadSegsPhase o c enc hdr isLazy p.1 p.2)

def failRes (o : Obj) (st : IStream) : LoadRes := { obj := { o with stream := st }, ok := false, allocs := [] }

theorem load_eq (o : Obj) (st : IStream) (isLazy : Bool) :
    load o st isLazy =
      (let o0 : Obj := { o with secs := [], segs := [] }
       let r1 := (st.seekg (trApply o.trans 0)).read 16
       let idb (i : Nat) : Nat := (r1.2.getD i 0).toNat
       if r1.1.gcount != 16 then .ok (failRes o0 r1.1) else
       if idb 0 != ELFMAG0 || idb 1 != ELFMAG1 || idb 2 != ELFMAG2 || idb 3 != ELFMAG3 then .ok (failRes o0 r1.1) else
       match clsOfByte (idb EI_CLASS), encOfByte (idb EI_DATA) with
       | none, _ => .ok (failRes o0 r1.1)
       | some _, none => .ok (failRes o0 r1.1)
       | some c, some enc =>
         let r2 := (r1.1.seekg (trApply o.trans 0)).read (ehdrSize c)
         let hdr := wr (Hdr.create c enc (idb EI_DATA)) 0 r2.2
         let o1 : Obj := { o0 with cls := c, enc := enc, hdr := some hdr }
         if r2.1.gcount != ehdrSize c then .ok (failRes o1 r2.1) else
         loadAfterHdr o1 c enc hdr isLazy r2.1) := by
  -- the model's gate conditions, loop conditions and class dispatch are the generated ones;
  -- `LoadTie.load_hand` is their hand form
  rw [LoadTie.load_hand]
  unfold LoadTie.loadHand
  rfl

/-- everything the loader guarantees about its result -/
structure LoadPost (o : Obj) (img : Bytes) (kind : StreamKind) (r : LoadRes) : Prop where
  trans : r.obj.trans = o.trans
  sdata : r.obj.stream.data = img
  skind : r.obj.stream.kind = kind
  secs : ∀ b ∈ r.obj.secs, LoadedSec o.trans b img
  segs : ∀ g ∈ r.obj.segs, LoadedSeg o.trans g img
  allocs : ∀ a ∈ r.allocs, AllocOk o.trans img a

theorem loadSegsPhase_spec (o : Obj) (c : Cls) (enc : Enc) (hdr : Bytes) (isLazy : Bool) (ls : LoadSt)
    (secs : List SecBuf) (img : Bytes) (kind : StreamKind) (ho : o.segs = [])
    (hs : StOk o.trans img kind ls) (hsecs : ∀ b ∈ secs, LoadedSec o.trans b img) :
    ∃ r, loadSegsPhase o c enc hdr isLazy ls secs = .ok r ∧ LoadPost o img kind r := by
  unfold loadSegsPhase
  split
  · exact ⟨_, rfl, ⟨rfl, hs.data, hs.kind, hsecs, by simp [ho], hs.allocs⟩⟩
  · obtain ⟨h1, h2⟩ := loadSegmentsLoop_spec c enc o.trans isLazy (Hdr.e_phoff c enc hdr).toInt
      (Hdr.e_phentsize c enc hdr).toNat secs img kind (Hdr.e_phnum c enc hdr).toNat 0 ls [] hs
      (fun g hg => by cases hg)
    exact ⟨_, rfl, ⟨rfl, h1.data, h1.kind, hsecs, h2, h1.allocs⟩⟩

theorem loadNamesK_spec (c : Cls) (enc : Enc) (tr : List Trans) (hdr : Bytes) (ls : LoadSt)
    (secs : List SecBuf) (k : LoadSt × List SecBuf → M LoadRes) (img : Bytes) (kind : StreamKind)
    (P : LoadRes → Prop)
    (hk : ∀ ls secs, StOk tr img kind ls → (∀ b ∈ secs, LoadedSec tr b img) → ∃ r, k (ls, secs) = .ok r ∧ P r)
    (hs : StOk tr img kind ls) (hsecs : ∀ b ∈ secs, LoadedSec tr b img) :
    ∃ r, loadNamesK c enc tr hdr ls secs k = .ok r ∧ P r := by
  unfold loadNamesK
  split
  · exact hk ls secs hs hsecs
  · split
    · exact hk ls secs hs hsecs
    · rename_i strtab hget
      have hmem : strtab ∈ secs := List.mem_of_getElem? hget
      obtain ⟨h1, h2, -⟩ := secGetData_spec c tr ls strtab img kind hs (hsecs _ hmem)
      rw [resolveNames_eq _ h2.bufOk]
      apply hk _ _ h1
      intro b hb
      obtain ⟨b0, hb0, rfl⟩ := List.mem_map.mp hb
      apply withName_inv
      rcases List.mem_or_eq_of_mem_set hb0 with h | h
      · exact hsecs _ h
      · exact h ▸ h2

theorem loadSecs0_spec (c : Cls) (enc : Enc) (tr : List Trans) (hdr : Bytes) (isLazy : Bool) (st : IStream) :
    StOk tr st.data st.kind (loadSecs0 c enc tr hdr isLazy st).1 ∧
    ∀ b ∈ (loadSecs0 c enc tr hdr isLazy st).2, LoadedSec tr b st.data := by
  unfold loadSecs0
  have h0 : StOk tr st.data st.kind { st := st } := ⟨rfl, rfl, fun a ha => by cases ha⟩
  split
  · exact ⟨h0, fun b hb => by cases hb⟩
  · exact loadSectionsLoop_spec c enc tr isLazy _ _ st.data st.kind _ 0 _ [] h0 (fun b hb => by cases hb)

theorem loadAfterHdr_spec (o : Obj) (c : Cls) (enc : Enc) (hdr : Bytes) (isLazy : Bool) (st : IStream)
    (ho : o.segs = []) :
    ∃ r, loadAfterHdr o c enc hdr isLazy st = .ok r ∧ LoadPost o st.data st.kind r := by
  unfold loadAfterHdr
  obtain ⟨h1, h2⟩ := loadSecs0_spec c enc o.trans hdr isLazy st
  split
  · exact loadSegsPhase_spec o c enc hdr isLazy _ _ _ _ ho h1 h2
  · exact loadNamesK_spec c enc o.trans hdr _ _ _ st.data st.kind _
      (fun ls secs hs hsecs => loadSegsPhase_spec o c enc hdr isLazy ls secs _ _ ho hs hsecs) h1 h2

theorem failRes_post (o : Obj) (st : IStream) (ho1 : o.secs = []) (ho2 : o.segs = []) :
    LoadPost o st.data st.kind (failRes o st) :=
  ⟨rfl, rfl, rfl, by simp [failRes, ho1], by simp [failRes, ho2], fun a ha => by cases ha⟩

/-- `elfio::load` returns (never faults) on every byte string, and its result satisfies the
    loader invariants -/
theorem load_spec (o : Obj) (st : IStream) (isLazy : Bool) :
    ∃ r, load o st isLazy = .ok r ∧ LoadPost o st.data st.kind r := by
  rw [load_eq]
  dsimp only
  have hd1 : ((st.seekg (trApply o.trans 0)).read 16).1.data = st.data := by simp
  have hk1 : ((st.seekg (trApply o.trans 0)).read 16).1.kind = st.kind := by simp
  have hfail : ∀ (o' : Obj) (st' : IStream), o'.trans = o.trans → o'.secs = [] → o'.segs = [] →
      st'.data = st.data → st'.kind = st.kind →
      ∃ r, (Except.ok (failRes o' st') : M LoadRes) = Except.ok r ∧ LoadPost o st.data st.kind r := by
    intro o' st' h1 h2 h3 h4 h5
    refine ⟨_, rfl, ?_⟩
    have := failRes_post o' st' h2 h3
    rw [h4, h5] at this
    exact ⟨this.trans.trans h1, this.sdata, this.skind, h1 ▸ this.secs, h1 ▸ this.segs, h1 ▸ this.allocs⟩
  split
  · exact hfail _ _ rfl rfl rfl hd1 hk1
  split
  · exact hfail _ _ rfl rfl rfl hd1 hk1
  split
  · exact hfail _ _ rfl rfl rfl hd1 hk1
  · exact hfail _ _ rfl rfl rfl hd1 hk1
  · rename_i c enc _ _
    have hd2 : ((((st.seekg (trApply o.trans 0)).read 16).1.seekg (trApply o.trans 0)).read (ehdrSize c)).1.data
        = st.data := by simp
    have hk2 : ((((st.seekg (trApply o.trans 0)).read 16).1.seekg (trApply o.trans 0)).read (ehdrSize c)).1.kind
        = st.kind := by simp
    split
    · exact hfail _ _ rfl rfl rfl hd2 hk2
    · obtain ⟨r, hr, hp⟩ := loadAfterHdr_spec
        { cls := c, enc := enc,
          hdr := some (wr (Hdr.create c enc
            (List.getD ((st.seekg (trApply o.trans 0)).read 16).2 EI_DATA 0).toNat) 0
            ((((st.seekg (trApply o.trans 0)).read 16).1.seekg (trApply o.trans 0)).read (ehdrSize c)).2),
          secs := [], segs := [], trans := o.trans, curPos := o.curPos, stream := o.stream } c enc
        (wr (Hdr.create c enc (List.getD ((st.seekg (trApply o.trans 0)).read 16).2 EI_DATA 0).toNat) 0
            ((((st.seekg (trApply o.trans 0)).read 16).1.seekg (trApply o.trans 0)).read (ehdrSize c)).2)
        isLazy
        ((((st.seekg (trApply o.trans 0)).read 16).1.seekg (trApply o.trans 0)).read (ehdrSize c)).1 rfl
      rw [hd2, hk2] at hp
      exact ⟨r, hr, ⟨hp.trans, hp.sdata, hp.skind, hp.secs, hp.segs, hp.allocs⟩⟩

/-! ### reads that are in range succeed (used by the prefix family C17) -/

theorem IStream.seekg_ok (s : IStream) (p : Int) (hf : s.fail = false) (hp : 0 ≤ p)
    (hl : p.toNat ≤ s.data.length) : s.seekg p = { s with eof := false, pos := p.toNat } := by
  unfold IStream.seekg
  have hp' : ¬ p < 0 := by omega
  cases hk : s.kind <;> simp [hf, hp', hl, hk]

theorem IStream.read_ok (s : IStream) (n : Nat) (hg : s.good = true) (hl : s.pos + n ≤ s.data.length) :
    s.read n = ({ s with pos := s.pos + n, gcount := n }, slice s.data s.pos n) := by
  unfold IStream.read
  rw [if_neg (by simp [hg]), if_pos (slice_length_of_le hl)]

/-- an isolated read of a range inside the stream is complete, delivers the range and leaves
    the failure state as it was -/
theorem isolatedRead_inrange (st : IStream) (off n : BitVec 64) (h0 : 0 ≤ off.toInt) (hn : 0 ≤ n.toInt)
    (hr : off.toNat + n.toNat ≤ st.data.length) :
    (isolatedRead st off n).2.1 = slice st.data off.toNat n.toNat ∧
    (isolatedRead st off n).2.2 = true ∧ (isolatedRead st off n).1.fail = st.fail ∧
    (isolatedRead st off n).1.eof = st.eof := by
  have hoff := toInt_nonneg_toNat off h0
  have hs : st.clear.seekg off.toInt = { st.clear with eof := false, pos := off.toNat } := by
    rw [IStream.seekg_ok _ _ rfl h0 (by rw [hoff]; simp only [IStream.clear_data]; omega), hoff]
  rw [LoadTie.isolatedRead_hand]
  dsimp only
  rw [if_neg (by omega), hs, IStream.read_ok _ _ rfl (by simpa [IStream.clear] using hr)]
  simp [IStream.clear]

/-- a complete table-entry read (no translation) delivered the bytes of the stream at the
    entry's offset -/
theorem hdrRead_full (st : IStream) (hdrOff : Int) (n : Nat) (hn : 0 < n)
    (h : (hdrRead [] st hdrOff n).1.gcount = n) :
    0 ≤ hdrOff ∧ (hdrRead [] st hdrOff n).2 = slice st.data hdrOff.toNat n ∧
    hdrOff.toNat + n ≤ st.data.length ∧ st.fail = false ∧ (hdrRead [] st hdrOff n).1.fail = false := by
  have hf := hdrRead_gcount [] st hdrOff n (by omega)
  unfold hdrRead at h ⊢
  have hg := IStream.good_of_gcount _ _ (by rw [h]; omega)
  obtain ⟨hoff, hpos, -⟩ := IStream.seekg_good _ _ hg
  obtain ⟨hgot, hle⟩ := IStream.read_full _ _ h hn
  simp only [trApply] at hoff hpos hgot hle hg ⊢
  rw [hpos] at hgot hle
  simp only [IStream.seekg_data, streamSizeOf_data] at hgot hle
  refine ⟨hoff, hgot, hle, hf, ?_⟩
  rw [IStream.read_ok _ _ hg (by rw [hpos]; simpa using hle)]
  exact IStream.good_fail hg

/-- a complete isolated read was at a non-negative offset with a non-negative count -/
theorem isolatedRead_complete_nonneg (st : IStream) (off n : BitVec 64)
    (h : (isolatedRead st off n).2.2 = true) (hn : n ≠ 0) : 0 ≤ off.toInt ∧ 0 ≤ n.toInt := by
  have hn' : 0 < n.toNat := by
    rcases Nat.eq_zero_or_pos n.toNat with h0 | h0
    · exact absurd (BitVec.eq_of_toNat_eq (by simpa using h0)) hn
    · exact h0
  rw [LoadTie.isolatedRead_hand] at h
  dsimp only at h
  by_cases hneg : n.toInt < 0
  · simp [hneg] at h
  · simp only [hneg, if_false] at h
    have hgc : ((st.clear.seekg off.toInt).read n.toNat).1.gcount = n.toNat := by simpa using h
    have hg := IStream.good_of_gcount _ _ (by rw [hgc]; omega)
    exact ⟨(IStream.seekg_good _ _ hg).1, by omega⟩

/-- data requests never touch the header-side fields (no invariant needed) -/
theorem secLoadData_sameHdr (c : Cls) (tr : List Trans) (ls : LoadSt) (b : SecBuf) :
    SameHdr (secLoadData c tr ls b).2.1 b := by
  rw [secLoadData_eq]
  repeat' split
  all_goals (constructor <;> rfl)

theorem secGetData_sameHdr (c : Cls) (tr : List Trans) (ls : LoadSt) (b : SecBuf) :
    SameHdr (secGetData c tr ls b).2 b := by
  rw [secGetData_eq]
  split
  · split
    · exact secLoadData_sameHdr c tr ls b
    · exact SameHdr.trans (by constructor <;> rfl) (secLoadData_sameHdr c tr ls b)
  · exact SameHdr.refl b

/-! ### `load_data` without translation on an input shorter than 2^63: a pure function of the
    section and the input bytes; the stream's failure state is left as it was -/

/-- the section side of `load_data` when every in-range read succeeds -/
def loadDataPure (img : Bytes) (b : SecBuf) : SecBuf × Bool :=
  if sec64_load_data_off_gt b.offset b.streamSize then (b, false) else
  if sec64_load_data_size_gt b.size b.streamSize b.offset then (b, false) else
  if b.data.isNone && !isNullOrNobitsTy b.stype then
    if sec64_load_data_sizet b.size then (b, false) else
    ({ b with data := some (slice img b.offset.toNat b.size.toNat ++ [0]), dataSize := b.size, isLoaded := true },
     true)
  else ({ b with isLoaded := b.data.isSome || isNullOrNobitsTy b.stype },
        b.data.isSome || isNullOrNobitsTy b.stype)

def getDataPure (img : Bytes) (b : SecBuf) : SecBuf :=
  if (!b.isLoaded && b.canLoad) = true then
    (if (loadDataPure img b).2 = true then (loadDataPure img b).1
     else { (loadDataPure img b).1 with canLoad := false })
  else b

theorem toInt_nonneg_of_lt {x : BitVec 64} (h : x.toNat < 9223372036854775808) : 0 ≤ x.toInt := by
  rw [BitVec.toInt_eq_toNat_cond]
  simp only [Nat.reducePow]
  split <;> omega

theorem secLoadData_pure (c : Cls) (ls : LoadSt) (b : SecBuf) (img : Bytes) (hd : ls.st.data = img)
    (hb : LoadedSec [] b img) (hlen : img.length < 9223372036854775808) :
    (secLoadData c [] ls b).2 = loadDataPure img b ∧
    (secLoadData c [] ls b).1.st.fail = ls.st.fail := by
  rw [secLoadData_eq]
  unfold loadDataPure
  simp only [dataOff_nil]
  by_cases h1 : sec64_load_data_off_gt b.offset b.streamSize = true
  · simp only [h1, if_true]; exact ⟨trivial, trivial⟩
  rw [if_neg h1, if_neg h1]
  by_cases h2 : sec64_load_data_size_gt b.size b.streamSize b.offset = true
  · simp only [h2, if_true]; exact ⟨trivial, trivial⟩
  rw [if_neg h2, if_neg h2]
  by_cases h3 : (b.data.isNone && !isNullOrNobitsTy b.stype) = true
  · rw [if_pos h3, if_pos h3]
    by_cases h4 : sec64_load_data_sizet b.size = true
    · simp only [h4, if_true]; exact ⟨trivial, trivial⟩
    rw [if_neg h4, if_neg h4]
    have hle := g_size_gt_false (by simpa using h2) (g_off_gt_false (by simpa using h1))
    have hss : b.streamSize = BitVec.ofNat 64 img.length := by
      rcases hb.ss with hss | ⟨-, hn, -⟩
      · exact hss
      · simp [hn] at h3
    rw [hss, toNat_ofNat_len (by omega)] at hle
    by_cases h5 : (b.size != 0) = true
    · rw [if_pos h5]
      obtain ⟨e1, e2, e3, -⟩ := isolatedRead_inrange ls.st b.offset b.size
        (toInt_nonneg_of_lt (by omega)) (toInt_nonneg_of_lt (by omega)) (by rw [hd]; exact hle)
      rw [if_neg (by simp [e2]), e1, hd]
      exact ⟨rfl, e3⟩
    · rw [if_neg h5]
      have hsz : b.size = 0 := by simpa using h5
      refine ⟨?_, rfl⟩
      simp [hsz, slice, alloc]
  · rw [if_neg h3, if_neg h3]
    exact ⟨rfl, rfl⟩

theorem secGetData_pure (c : Cls) (ls : LoadSt) (b : SecBuf) (img : Bytes) (hd : ls.st.data = img)
    (hb : LoadedSec [] b img) (hlen : img.length < 9223372036854775808) :
    (secGetData c [] ls b).2 = getDataPure img b ∧ (secGetData c [] ls b).1.st.fail = ls.st.fail := by
  obtain ⟨h1, h2⟩ := secLoadData_pure c ls b img hd hb hlen
  rw [secGetData_eq]
  unfold getDataPure
  split
  · refine ⟨?_, h2⟩
    rw [← h1]
  · exact ⟨rfl, rfl⟩

/-- the section after a complete header read satisfies the invariant -/
theorem secHdrOnly_inv (c : Cls) (enc : Enc) (tr : List Trans) (st : IStream) (hdrOff : Int)
    (isLazy : Bool) (idx : Nat) (img : Bytes) (hd : st.data = img)
    (hg : (hdrRead tr st hdrOff (shdrSize c)).1.gcount ≠ 0) :
    LoadedSec tr (secHdrOnly c enc tr (hdrRead tr st hdrOff (shdrSize c)).1
        (hdrRead tr st hdrOff (shdrSize c)).2 (streamSizeOf tr st).2 isLazy idx) img := by
  refine ⟨fun d hd => (by simp [secHdrOnly, secB0] at hd), fun d hd => (by simp [secHdrOnly, secB0] at hd),
    fun d hd => (by simp [secHdrOnly, secB0] at hd), ?_⟩
  have := secLoad_ss tr st hdrOff (shdrSize c) img hd
    (secHdrOnly c enc tr (hdrRead tr st hdrOff (shdrSize c)).1
      (hdrRead tr st hdrOff (shdrSize c)).2 (streamSizeOf tr st).2 isLazy idx).stype (Or.inl hg)
  simpa [secHdrOnly, secB0] using this

/-! ### `segment_impl::load_data` as a pure function (no translation, input shorter than 2^63) -/

theorem segRead_inrange (st : IStream) (off n : BitVec 64) (h0 : 0 ≤ off.toInt) (hn : 0 ≤ n.toInt)
    (hr : off.toNat + n.toNat ≤ st.data.length) :
    (segRead st off n).2 = slice st.data off.toNat n.toNat ∧ (segRead st off n).1.fail = false := by
  have hoff := toInt_nonneg_toNat off h0
  have hs : st.clear.seekg off.toInt = { st.clear with eof := false, pos := off.toNat } := by
    rw [IStream.seekg_ok _ _ rfl h0 (by rw [hoff]; simp only [IStream.clear_data]; omega), hoff]
  unfold segRead
  rw [if_neg (by omega), hs, IStream.read_ok _ _ rfl (by simpa [IStream.clear] using hr)]
  simp [IStream.clear]

def segLoadDataPure (img : Bytes) (g : Seg) : Seg × Bool :=
  if seg64_load_data_skip g.stype g.filesz then (g, true) else
  if sec64_load_data_off_gt g.offset g.streamSize then ({ g with data := none }, false) else
  if sec64_load_data_size_gt g.filesz g.streamSize g.offset then ({ g with data := none }, false) else
  if sec64_load_data_sizet g.filesz then ({ g with data := none }, false) else
  ({ g with data := some (slice img g.offset.toNat g.filesz.toNat ++ [0]), isLoaded := true }, true)

theorem segLoadData_pure (c : Cls) (ls : LoadSt) (g : Seg) (img : Bytes) (hd : ls.st.data = img)
    (hg : LoadedSeg [] g img) (hlen : img.length < 9223372036854775808) :
    (segLoadData c [] ls g).2 = segLoadDataPure img g ∧ (segLoadData c [] ls g).1.st.fail = ls.st.fail := by
  rw [segLoadData_eq]
  unfold segLoadDataPure
  simp only [dataOff_nil]
  by_cases h0 : seg64_load_data_skip g.stype g.filesz = true
  · simp only [h0, if_true]; exact ⟨trivial, trivial⟩
  rw [if_neg h0, if_neg h0]
  by_cases h1 : sec64_load_data_off_gt g.offset g.streamSize = true
  · simp only [h1, if_true]; exact ⟨trivial, trivial⟩
  rw [if_neg h1, if_neg h1]
  by_cases h2 : sec64_load_data_size_gt g.filesz g.streamSize g.offset = true
  · simp only [h2, if_true]; exact ⟨trivial, trivial⟩
  rw [if_neg h2, if_neg h2]
  by_cases h4 : sec64_load_data_sizet g.filesz = true
  · simp only [h4, if_true]; exact ⟨trivial, trivial⟩
  rw [if_neg h4, if_neg h4]
  have hle := g_size_gt_false (by simpa using h2) (g_off_gt_false (by simpa using h1))
  have hss : g.streamSize = BitVec.ofNat 64 img.length := by
    rcases hg.ss with hss | ⟨-, hn, -⟩
    · exact hss
    · exact absurd hn h0
  rw [hss, toNat_ofNat_len (by omega)] at hle
  obtain ⟨e1, e2⟩ := segRead_inrange ls.st g.offset g.filesz
    (toInt_nonneg_of_lt (by omega)) (toInt_nonneg_of_lt (by omega)) (by rw [hd]; exact hle)
  rw [if_pos (by simp [e2]), e1, hd]
  refine ⟨rfl, ?_⟩
  simp [mergeFlags, e2]

/-- without a translation table `is_file_range_valid()` is the result of the pure `load_data()` -/
theorem segRangeOk_eq_pure (c : Cls) (g : Seg) (img : Bytes) :
    segRangeOk c [] g = (segLoadDataPure img g).2 := by
  rw [LoadTie.segRangeOk_hand]
  unfold segLoadDataPure
  have e : BitVec.ofInt 64 (trApply [] g.offset.toInt) = g.offset := dataOff_nil g.offset
  rw [e]
  repeat' split
  all_goals rfl

/-- **`load_data()` returns what `is_file_range_valid()` returns** (any translation table, stream in any
    position / error state, input shorter than 2^63): on a segment object as `load` creates it the range
    tests are the only way `load_data()` fails — once they pass, the isolated read is inside the stream
    and complete.  This is what makes the lazy `load` answer exactly as the eager one. -/
theorem segLoadData_ok_eq_rangeOk (c : Cls) (tr : List Trans) (ls : LoadSt) (g : Seg) (img : Bytes)
    (hd : ls.st.data = img) (hg : LoadedSeg tr g img) (hlen : img.length < 9223372036854775808) :
    (segLoadData c tr ls g).2.2 = segRangeOk c tr g := by
  rw [segLoadData_eq, LoadTie.segRangeOk_hand]
  show _ = (if seg64_load_data_skip g.stype g.filesz = true then true else
    if sec64_load_data_off_gt (dataOff tr g.offset) g.streamSize = true then false else
    if sec64_load_data_size_gt g.filesz g.streamSize (dataOff tr g.offset) = true then false else
    if sec64_load_data_sizet g.filesz = true then false else true)
  by_cases h0 : seg64_load_data_skip g.stype g.filesz = true
  · rw [if_pos h0, if_pos h0]
  rw [if_neg h0, if_neg h0]
  by_cases h1 : sec64_load_data_off_gt (dataOff tr g.offset) g.streamSize = true
  · rw [if_pos h1, if_pos h1]
  rw [if_neg h1, if_neg h1]
  by_cases h2 : sec64_load_data_size_gt g.filesz g.streamSize (dataOff tr g.offset) = true
  · rw [if_pos h2, if_pos h2]
  rw [if_neg h2, if_neg h2]
  by_cases h4 : sec64_load_data_sizet g.filesz = true
  · rw [if_pos h4, if_pos h4]
  rw [if_neg h4, if_neg h4]
  have hle := g_size_gt_false (by simpa using h2) (g_off_gt_false (by simpa using h1))
  have hss : g.streamSize = BitVec.ofNat 64 img.length := by
    rcases hg.ss with hss | ⟨-, hn, -⟩
    · exact hss
    · exact absurd hn h0
  rw [hss, toNat_ofNat_len (by omega)] at hle
  obtain ⟨-, e2⟩ := segRead_inrange ls.st (dataOff tr g.offset) g.filesz
    (toInt_nonneg_of_lt (by omega)) (toInt_nonneg_of_lt (by omega)) (by rw [hd]; exact hle)
  rw [if_pos (by simp [e2])]

/-- … in particular for the two modes of `segment_impl::load` on the same stream: **the lazy load of a
    program header returns what the eager load returns** -/
theorem segLoad_ok_lazy_eq_eager (c : Cls) (enc : Enc) (tr : List Trans) (ls : LoadSt) (hdrOff : Int)
    (hlen : ls.st.data.length < 9223372036854775808) :
    (segLoad c enc tr ls hdrOff true).2.2 = (segLoad c enc tr ls hdrOff false).2.2 := by
  rw [segLoad_eq, segLoad_eq]
  have hl : (segHdr c enc tr ls.st hdrOff false).isLoaded = false := by simp [segHdr]
  have hl' : (segHdr c enc tr ls.st hdrOff true).isLoaded = false := by simp [segHdr]
  simp only [hl, hl', Bool.or_false, Bool.not_true, Bool.not_false, Bool.false_eq_true, if_false, if_true,
    Bool.false_or]
  rw [segLoadData_ok_eq_rangeOk c tr _ _ ls.st.data (by simp)
    (segHdr_inv c enc tr ls.st hdrOff false ls.st.data rfl) hlen]
  -- the range test does not look at the `is_lazy` flag
  have e : ∀ l, segRangeOk c tr (segHdr c enc tr ls.st hdrOff l) =
      segRangeOk c tr { segHdr c enc tr ls.st hdrOff l with isLazy := false } := fun l => by
    rw [LoadTie.segRangeOk_hand, LoadTie.segRangeOk_hand]
  rw [e true, e false]
  congr 1
  unfold segHdr
  cases c <;> rfl

theorem segLoadData_fail_mono (c : Cls) (tr : List Trans) (ls : LoadSt) (g : Seg) (h : ls.st.fail = true) :
    (segLoadData c tr ls g).1.st.fail = true := by
  rw [segLoadData_eq]
  repeat' split
  all_goals first | exact h | simp [mergeFlags, h]

theorem segLoad_fail_mono (c : Cls) (enc : Enc) (tr : List Trans) (ls : LoadSt) (hdrOff : Int) (isLazy : Bool)
    (h : ls.st.fail = true) : (segLoad c enc tr ls hdrOff isLazy).1.st.fail = true := by
  rw [segLoad_eq]
  have hf : (hdrRead tr ls.st hdrOff (phdrSize c)).1.fail = true := by
    have h1 := streamSizeOf_fail tr ls.st h
    have h2 := IStream.seekg_fail _ (trApply tr hdrOff) h1
    have h3 : ((streamSizeOf tr ls.st).1.seekg (trApply tr hdrOff)).good = false := by simp [IStream.good, h2]
    exact (IStream.read_not_good _ _ h3).2.1
  split
  · exact segLoadData_fail_mono c tr _ _ hf
  · exact hf

end ElfioVerif
