/-
Helper lemmas for C01 / C17: what the stream operations preserve, what a complete read
delivers, the invariants `LoadedSec` / `LoadedSeg` every loaded section / segment satisfies,
their establishment by `secLoad` / `segLoad` and preservation by the (lazy) data requests,
and the lifting over the loader's loops.
-/
import ElfioVerif.Model.Load
namespace ElfioVerif
open Gen

/-! ### stream operations never change the bytes or the kind of the stream -/
namespace IStream

@[simp] theorem seekg_data (s : IStream) (p : Int) : (s.seekg p).data = s.data := by
  unfold seekg; (try dsimp only); (repeat' split) <;> rfl
@[simp] theorem seekg_kind (s : IStream) (p : Int) : (s.seekg p).kind = s.kind := by
  unfold seekg; (try dsimp only); (repeat' split) <;> rfl
@[simp] theorem seekEnd_data (s : IStream) : s.seekEnd.data = s.data := by
  unfold seekEnd; (try dsimp only); (repeat' split) <;> rfl
@[simp] theorem seekEnd_kind (s : IStream) : s.seekEnd.kind = s.kind := by
  unfold seekEnd; (try dsimp only); (repeat' split) <;> rfl
@[simp] theorem tellg_data (s : IStream) : s.tellg.1.data = s.data := by
  unfold tellg; (try dsimp only); (repeat' split) <;> rfl
@[simp] theorem tellg_kind (s : IStream) : s.tellg.1.kind = s.kind := by
  unfold tellg; (try dsimp only); (repeat' split) <;> rfl
@[simp] theorem read_data (s : IStream) (n : Nat) : (s.read n).1.data = s.data := by
  unfold read; (try dsimp only); (repeat' split) <;> rfl
@[simp] theorem read_kind (s : IStream) (n : Nat) : (s.read n).1.kind = s.kind := by
  unfold read; (try dsimp only); (repeat' split) <;> rfl
@[simp] theorem readNeg_data (s : IStream) : s.readNeg.data = s.data := by
  unfold readNeg; (try dsimp only); (repeat' split) <;> rfl
@[simp] theorem readNeg_kind (s : IStream) : s.readNeg.kind = s.kind := by
  unfold readNeg; (try dsimp only); (repeat' split) <;> rfl
@[simp] theorem clear_data (s : IStream) : s.clear.data = s.data := rfl
@[simp] theorem clear_kind (s : IStream) : s.clear.kind = s.kind := rfl
@[simp] theorem clear_good (s : IStream) : s.clear.good = true := rfl
@[simp] theorem clear_fail (s : IStream) : s.clear.fail = false := rfl

/-- the number of bytes stored is `gcount` -/
theorem read_length_gcount (s : IStream) (n : Nat) : (s.read n).2.length = (s.read n).1.gcount := by
  unfold read; (repeat' split) <;> simp_all

theorem read_not_good (s : IStream) (n : Nat) (h : s.good = false) :
    (s.read n).1.gcount = 0 ∧ (s.read n).1.fail = true ∧ (s.read n).2 = [] := by
  unfold read; simp [h]

/-- a read that delivers a non-zero `gcount` started on a good stream -/
theorem good_of_gcount (s : IStream) (n : Nat) (h : (s.read n).1.gcount ≠ 0) : s.good = true := by
  cases hg : s.good
  · exact absurd (read_not_good s n hg).1 h
  · rfl

/-- a stream that is not failed after a read was good before it and the read was complete -/
theorem read_not_fail (s : IStream) (n : Nat) (h : (s.read n).1.fail = false) :
    s.good = true ∧ (s.read n).2 = slice s.data s.pos n ∧ (slice s.data s.pos n).length = n := by
  cases hg : s.good
  · have := (read_not_good s n hg).2.1
    rw [this] at h; exact absurd h (by decide)
  · by_cases hl : (slice s.data s.pos n).length = n
    · refine ⟨rfl, ?_, hl⟩
      rw [read, if_neg (by simp [hg]), if_pos hl]
    · rw [read, if_neg (by simp [hg]), if_neg hl] at h; simp at h

/-- `seekg` on a failed stream does nothing useful: the stream stays failed -/
theorem seekg_fail (s : IStream) (p : Int) (h : s.fail = true) : (s.seekg p).fail = true := by
  unfold seekg; simp [h]

theorem good_fail {s : IStream} (h : s.good = true) : s.fail = false := by
  unfold good at h; cases hf : s.fail <;> simp_all

/-- a good stream after `seekg p` stands at `p` (and `p` is not negative) -/
theorem seekg_good (s : IStream) (p : Int) (h : (s.seekg p).good = true) :
    0 ≤ p ∧ (s.seekg p).pos = p.toNat ∧ s.fail = false := by
  unfold seekg at h ⊢
  simp only [] at h ⊢
  cases hf : s.fail
  · simp only [hf, Bool.false_eq_true, if_false] at h ⊢
    by_cases hp : p < 0
    · simp [hp, good] at h
    · simp only [hp, if_false] at h ⊢
      refine ⟨by omega, ?_, trivial⟩
      cases hk : s.kind
      · simp only [hk] at h ⊢
        by_cases hl : p.toNat ≤ s.data.length
        · simp [hl]
        · simp [hl, good] at h
      · simp [hk]
  · simp [hf, good] at h

end IStream

theorem ofInt_neg_one : BitVec.ofInt 64 (-1) = u64max := by decide

theorem streamSizeOf_nil (st : IStream) :
    streamSizeOf [] st =
      if st.fail then ({ st with eof := false, fail := true }, u64max)
      else ({ st with eof := false, pos := st.data.length }, BitVec.ofNat 64 st.data.length) := by
  unfold streamSizeOf IStream.seekEnd IStream.tellg IStream.good
  cases hf : st.fail
  · simp [hf]
  · simp [hf, ofInt_neg_one]

theorem streamSizeOf_cons (t : Trans) (tr : List Trans) (st : IStream) :
    streamSizeOf (t :: tr) st = (st, u64max) := rfl

@[simp] theorem streamSizeOf_data (tr : List Trans) (st : IStream) : (streamSizeOf tr st).1.data = st.data := by
  cases tr with
  | nil => rw [streamSizeOf_nil]; split <;> rfl
  | cons t tr => rfl

@[simp] theorem streamSizeOf_kind (tr : List Trans) (st : IStream) : (streamSizeOf tr st).1.kind = st.kind := by
  cases tr with
  | nil => rw [streamSizeOf_nil]; split <;> rfl
  | cons t tr => rfl

/-- a failed stream stays failed through the stream-size probe -/
theorem streamSizeOf_fail (tr : List Trans) (st : IStream) (h : st.fail = true) :
    (streamSizeOf tr st).1.fail = true := by
  cases tr with
  | nil => rw [streamSizeOf_nil]; simp [h]
  | cons t tr => exact h

/-- without address translation the recorded stream size is the input length, or
    `SIZE_MAX` exactly when the stream had failed before -/
theorem streamSizeOf_nil_size (st : IStream) :
    (st.fail = false ∧ (streamSizeOf [] st).2 = BitVec.ofNat 64 st.data.length) ∨
    (st.fail = true ∧ (streamSizeOf [] st).2 = u64max) := by
  rw [streamSizeOf_nil]
  cases hf : st.fail <;> simp

/-! ### `isolatedRead` -/

theorem toInt_nonneg_toNat (x : BitVec 64) (h : 0 ≤ x.toInt) : x.toInt.toNat = x.toNat := by
  rw [BitVec.toInt_eq_toNat_cond] at h ⊢
  have := x.isLt
  simp only [Nat.reducePow] at *
  split at h <;> omega

@[simp] theorem isolatedRead_data (st : IStream) (off n : BitVec 64) :
    (isolatedRead st off n).1.data = st.data := by
  unfold isolatedRead; dsimp only; split <;> simp

@[simp] theorem isolatedRead_kind (st : IStream) (off n : BitVec 64) :
    (isolatedRead st off n).1.kind = st.kind := by
  unfold isolatedRead; dsimp only; split <;> simp

/-- a complete isolated read delivers exactly the `n` bytes of the stream at `off` -/
theorem isolatedRead_complete (st : IStream) (off n : BitVec 64)
    (h : (isolatedRead st off n).2.2 = true) (hn : n ≠ 0) :
    (isolatedRead st off n).2.1 = slice st.data off.toNat n.toNat ∧
    (slice st.data off.toNat n.toNat).length = n.toNat := by
  have hn' : 0 < n.toNat := by
    rcases Nat.eq_zero_or_pos n.toNat with h0 | h0
    · exact absurd (BitVec.eq_of_toNat_eq (by simpa using h0)) hn
    · exact h0
  unfold isolatedRead at h ⊢
  dsimp only at h ⊢
  by_cases hneg : n.toInt < 0
  · simp [hneg] at h
  · simp only [hneg, if_false] at h ⊢
    have hgc : ((st.clear.seekg off.toInt).read n.toNat).1.gcount = n.toNat := by simpa using h
    have hg := IStream.good_of_gcount _ _ (by rw [hgc]; omega)
    obtain ⟨hoff, hpos, -⟩ := IStream.seekg_good _ _ hg
    obtain ⟨hgot, hle⟩ := IStream.read_full _ _ hgc hn'
    rw [hpos, toInt_nonneg_toNat off hoff] at hgot hle
    simp only [IStream.seekg_data, IStream.clear_data] at hgot hle
    exact ⟨hgot, slice_length_of_le hle⟩

/-- translated data offset as the 64-bit value the guards of `load_data` see -/
def dataOff (tr : List Trans) (o : BitVec 64) : BitVec 64 := BitVec.ofInt 64 (trApply tr o.toInt)

@[simp] theorem dataOff_nil (o : BitVec 64) : dataOff [] o = o := by
  simp [dataOff, trApply]

/-! ### the guards of `load_data` as arithmetic -/

theorem g_off_gt_false {off ss : BitVec 64} (h : sec64_load_data_off_gt off ss = false) :
    off.toNat ≤ ss.toNat := by
  simp [sec64_load_data_off_gt, BitVec.ult] at h; exact h

theorem g_size_gt_false {size ss off : BitVec 64} (h : sec64_load_data_size_gt size ss off = false)
    (ho : off.toNat ≤ ss.toNat) : off.toNat + size.toNat ≤ ss.toNat := by
  have h1 := size.isLt; have h2 := ss.isLt; have h3 := off.isLt
  simp only [sec64_load_data_size_gt, BitVec.ult, Bool.or_eq_false_iff, decide_eq_false_iff_not,
    BitVec.toNat_sub, Nat.reducePow] at *
  omega

theorem g_sizet_false {size : BitVec 64} (h : sec64_load_data_sizet size = false) :
    (sec64_load_data_alloc size).toNat = size.toNat + 1 := by
  have h1 := size.isLt
  simp only [sec64_load_data_sizet, sec64_load_data_alloc, BitVec.ult, BitVec.signExtend, BitVec.toInt,
    BitVec.toNat_add, BitVec.toNat_sub, BitVec.toNat_ofNat, BitVec.toNat_ofInt, Nat.reducePow,
    Nat.reduceMod, Nat.reduceMul, decide_eq_false_iff_not] at *
  simp at h ⊢
  omega

/-! ### the invariants -/

/-- What holds of every section the loader produces (and keeps holding under data requests).
    `tr` is the address translation table, `img` the bytes of the input stream. -/
structure LoadedSec (tr : List Trans) (b : SecBuf) (img : Bytes) : Prop where
  /-- a resident buffer is `size + 1` bytes long (the NUL terminator; `alloc 1` when `size = 0`) -/
  len : ∀ d, b.data = some d → d.length = b.size.toNat + 1
  /-- its first `size` bytes are the bytes of the input at the (translated) offset -/
  bytes : ∀ d, b.data = some d →
    d.take b.size.toNat = slice img (dataOff tr b.offset).toNat b.size.toNat ∧
    (slice img (dataOff tr b.offset).toNat b.size.toNat).length = b.size.toNat
  dsz : ∀ d, b.data = some d → b.dataSize = b.size
  /-- recorded stream size: the input length, or `SIZE_MAX` (translation in use, or the stream
      had failed before: then the section is the zeroed `SHT_NULL` one without data) -/
  ss : (tr = [] ∧ b.streamSize = BitVec.ofNat 64 img.length) ∨
       (b.streamSize = u64max ∧ (tr = [] → isNullOrNobitsTy b.stype = true ∧ b.data = none))

/-- the header-side fields of a section (everything the data requests leave alone) -/
structure SameHdr (b' b : SecBuf) : Prop where
  cls : b'.cls = b.cls
  stype : b'.stype = b.stype
  size : b'.size = b.size
  streamSize : b'.streamSize = b.streamSize
  offset : b'.offset = b.offset
  nameOff : b'.nameOff = b.nameOff
  flags : b'.flags = b.flags
  addr : b'.addr = b.addr
  link : b'.link = b.link
  info : b'.info = b.info
  addrAlign : b'.addrAlign = b.addrAlign
  entSize : b'.entSize = b.entSize
  index : b'.index = b.index
  isLazy : b'.isLazy = b.isLazy

theorem SameHdr.refl (b : SecBuf) : SameHdr b b := by constructor <;> rfl
theorem SameHdr.trans {a b c : SecBuf} (h1 : SameHdr a b) (h2 : SameHdr b c) : SameHdr a c := by
  constructor
  · exact h1.cls.trans h2.cls
  · exact h1.stype.trans h2.stype
  · exact h1.size.trans h2.size
  · exact h1.streamSize.trans h2.streamSize
  · exact h1.offset.trans h2.offset
  · exact h1.nameOff.trans h2.nameOff
  · exact h1.flags.trans h2.flags
  · exact h1.addr.trans h2.addr
  · exact h1.link.trans h2.link
  · exact h1.info.trans h2.info
  · exact h1.addrAlign.trans h2.addrAlign
  · exact h1.entSize.trans h2.entSize
  · exact h1.index.trans h2.index
  · exact h1.isLazy.trans h2.isLazy

/-- an allocation request of the loader: `size + 1` bytes for a byte range that (without
    address translation) lies inside the input -/
def AllocOk (tr : List Trans) (img : Bytes) (n : Nat) : Prop :=
  ∃ off size : Nat, n = size + 1 ∧
    (tr = [] → img.length < 18446744073709551616 → off + size ≤ img.length)

/-- the loader's threaded state: the stream still is the input, all requests so far are fine -/
structure StOk (tr : List Trans) (img : Bytes) (kind : StreamKind) (ls : LoadSt) : Prop where
  data : ls.st.data = img
  kind : ls.st.kind = kind
  allocs : ∀ a ∈ ls.allocs, AllocOk tr img a

theorem toNat_ofNat_len {img : Bytes} (h : img.length < 18446744073709551616) :
    (BitVec.ofNat 64 img.length).toNat = img.length := by
  simp only [BitVec.toNat_ofNat, Nat.reducePow]; omega

/-! ### `section_impl::load_data` -/

theorem secLoadData_eq (c : Cls) (tr : List Trans) (ls : LoadSt) (b : SecBuf) :
    secLoadData c tr ls b =
      (if sec64_load_data_off_gt (dataOff tr b.offset) b.streamSize then (ls, b, false) else
       if sec64_load_data_size_gt b.size b.streamSize (dataOff tr b.offset) then (ls, b, false) else
       if b.data.isNone && !isNullOrNobitsTy b.stype then
         if sec64_load_data_sizet b.size then (ls, b, false) else
         if b.size != 0 then
           if !(isolatedRead ls.st (dataOff tr b.offset) b.size).2.2 then
             ({ st := (isolatedRead ls.st (dataOff tr b.offset) b.size).1,
                allocs := ls.allocs ++ [(sec64_load_data_alloc b.size).toNat] },
              { b with data := none, dataSize := 0 }, false)
           else
             ({ st := (isolatedRead ls.st (dataOff tr b.offset) b.size).1,
                allocs := ls.allocs ++ [(sec64_load_data_alloc b.size).toNat] },
              { b with data := some ((isolatedRead ls.st (dataOff tr b.offset) b.size).2.1 ++ [0]),
                       dataSize := b.size, isLoaded := true }, true)
         else ({ ls with allocs := ls.allocs ++ [(sec64_load_data_alloc b.size).toNat] },
               { b with data := some (alloc 1), dataSize := 0, isLoaded := true }, true)
       else (ls, { b with isLoaded := b.data.isSome || isNullOrNobitsTy b.stype },
             b.data.isSome || isNullOrNobitsTy b.stype)) := by
  cases c <;> rfl

theorem StOk.push {tr img kind} {ls : LoadSt} (h : StOk tr img kind ls) (st : IStream) (n : Nat)
    (hd : st.data = img) (hk : st.kind = kind) (hn : AllocOk tr img n) :
    StOk tr img kind { st := st, allocs := ls.allocs ++ [n] } := by
  refine ⟨hd, hk, ?_⟩
  intro a ha
  simp only [List.mem_append, List.mem_singleton] at ha
  rcases ha with ha | ha
  · exact h.allocs a ha
  · exact ha ▸ hn

/-- the request `load_data` makes is `size + 1` bytes for a range inside the input -/
theorem secLoadData_allocOk {tr img} {b : SecBuf} (hb : LoadedSec tr b img)
    (h1 : sec64_load_data_off_gt (dataOff tr b.offset) b.streamSize = false)
    (h2 : sec64_load_data_size_gt b.size b.streamSize (dataOff tr b.offset) = false)
    (h3 : (b.data.isNone && !isNullOrNobitsTy b.stype) = true)
    (h4 : sec64_load_data_sizet b.size = false) :
    AllocOk tr img (sec64_load_data_alloc b.size).toNat := by
  refine ⟨(dataOff tr b.offset).toNat, b.size.toNat, g_sizet_false h4, ?_⟩
  intro htr hlen
  have hle := g_size_gt_false h2 (g_off_gt_false h1)
  rcases hb.ss with ⟨-, hss⟩ | ⟨-, hn⟩
  · rw [hss, toNat_ofNat_len hlen] at hle; exact hle
  · have := (hn htr).1
    simp [this] at h3

theorem secLoadData_spec (c : Cls) (tr : List Trans) (ls : LoadSt) (b : SecBuf) (img : Bytes)
    (kind : StreamKind) (hs : StOk tr img kind ls) (hb : LoadedSec tr b img) :
    StOk tr img kind (secLoadData c tr ls b).1 ∧ LoadedSec tr (secLoadData c tr ls b).2.1 img ∧
    SameHdr (secLoadData c tr ls b).2.1 b := by
  rw [secLoadData_eq]
  by_cases h1 : sec64_load_data_off_gt (dataOff tr b.offset) b.streamSize = true
  · rw [if_pos h1]; exact ⟨hs, hb, SameHdr.refl b⟩
  rw [if_neg h1]
  by_cases h2 : sec64_load_data_size_gt b.size b.streamSize (dataOff tr b.offset) = true
  · rw [if_pos h2]; exact ⟨hs, hb, SameHdr.refl b⟩
  rw [if_neg h2]
  by_cases h3 : (b.data.isNone && !isNullOrNobitsTy b.stype) = true
  · rw [if_pos h3]
    by_cases h4 : sec64_load_data_sizet b.size = true
    · rw [if_pos h4]; exact ⟨hs, hb, SameHdr.refl b⟩
    rw [if_neg h4]
    have hal := secLoadData_allocOk hb (by simpa using h1) (by simpa using h2) h3 (by simpa using h4)
    have hnn : isNullOrNobitsTy b.stype = false := by
      cases hx : isNullOrNobitsTy b.stype <;> simp [hx] at h3 ⊢
    -- the stream-size clause of the invariant for a non-null section that gets data
    have hss : ∀ b' : SecBuf, b'.streamSize = b.streamSize → b'.stype = b.stype →
        (tr = [] ∧ b'.streamSize = BitVec.ofNat 64 img.length) ∨
        (b'.streamSize = u64max ∧ (tr = [] → isNullOrNobitsTy b'.stype = true ∧ b'.data = none)) := by
      intro b' e1 e2
      rcases hb.ss with ⟨ht, hv⟩ | ⟨hv, hn⟩
      · exact Or.inl ⟨ht, e1 ▸ hv⟩
      · refine Or.inr ⟨e1 ▸ hv, fun ht => ?_⟩
        have := (hn ht).1; rw [hnn] at this; exact absurd this (by decide)
    by_cases h5 : (b.size != 0) = true
    · rw [if_pos h5]
      have hsz : b.size ≠ 0 := by simpa using h5
      by_cases h6 : (!(isolatedRead ls.st (dataOff tr b.offset) b.size).2.2) = true
      · rw [if_pos h6]
        refine ⟨hs.push _ _ (by simp [hs.data]) (by simp [hs.kind]) hal, ?_, by constructor <;> rfl⟩
        exact ⟨fun d hd => (by simp at hd), fun d hd => (by simp at hd), fun d hd => (by simp at hd),
          hss _ rfl rfl⟩
      · rw [if_neg h6]
        have hc : (isolatedRead ls.st (dataOff tr b.offset) b.size).2.2 = true := by simpa using h6
        obtain ⟨hgot, hlen⟩ := isolatedRead_complete _ _ _ hc hsz
        rw [hs.data] at hgot hlen
        refine ⟨hs.push _ _ (by simp [hs.data]) (by simp [hs.kind]) hal, ?_, by constructor <;> rfl⟩
        refine ⟨?_, ?_, ?_, hss _ rfl rfl⟩
        · intro d hd
          simp only [Option.some.injEq] at hd
          subst hd; simp [hgot, hlen]
        · intro d hd
          simp only [Option.some.injEq] at hd
          subst hd
          refine ⟨?_, hlen⟩
          rw [hgot]
          exact List.take_left' hlen
        · intro d _; rfl
    · rw [if_neg h5]
      have hsz : b.size = 0 := by simpa using h5
      refine ⟨?_, ?_, by constructor <;> rfl⟩
      · exact hs.push ls.st _ hs.data hs.kind hal
      · refine ⟨?_, ?_, ?_, hss _ rfl rfl⟩
        · intro d hd
          simp only [Option.some.injEq] at hd
          subst hd; simp [hsz]
        · intro d hd
          simp [hsz, slice]
        · intro d _; exact hsz.symm
  · rw [if_neg h3]
    refine ⟨hs, ⟨hb.len, hb.bytes, hb.dsz, hb.ss⟩, by constructor <;> rfl⟩

/-- the invariant only looks at the buffer, the size/offset/type and the recorded stream size -/
theorem LoadedSec.of_same {tr img} {b b' : SecBuf} (h : LoadedSec tr b img)
    (e1 : b'.data = b.data) (e2 : b'.size = b.size) (e3 : b'.offset = b.offset)
    (e4 : b'.dataSize = b.dataSize) (e5 : b'.streamSize = b.streamSize) (e6 : b'.stype = b.stype) :
    LoadedSec tr b' img := by
  refine ⟨?_, ?_, ?_, ?_⟩
  · intro d hd; rw [e2]; exact h.len d (e1 ▸ hd)
  · intro d hd; rw [e2, e3]; exact h.bytes d (e1 ▸ hd)
  · intro d hd; rw [e2, e4]; exact h.dsz d (e1 ▸ hd)
  · rw [e5, e6, e1]; exact h.ss

theorem secGetData_eq (c : Cls) (tr : List Trans) (ls : LoadSt) (b : SecBuf) :
    secGetData c tr ls b =
      if (!b.isLoaded && b.canLoad) = true then
        ((secLoadData c tr ls b).1,
         if (secLoadData c tr ls b).2.2 = true then (secLoadData c tr ls b).2.1
         else { (secLoadData c tr ls b).2.1 with canLoad := false })
      else (ls, b) := rfl

/-- `get_data()` against the stream keeps the loader state and the section invariant -/
theorem secGetData_spec (c : Cls) (tr : List Trans) (ls : LoadSt) (b : SecBuf) (img : Bytes)
    (kind : StreamKind) (hs : StOk tr img kind ls) (hb : LoadedSec tr b img) :
    StOk tr img kind (secGetData c tr ls b).1 ∧ LoadedSec tr (secGetData c tr ls b).2 img ∧
    SameHdr (secGetData c tr ls b).2 b := by
  rw [secGetData_eq]
  obtain ⟨h1, h2, h3⟩ := secLoadData_spec c tr ls b img kind hs hb
  split
  · refine ⟨h1, ?_, ?_⟩
    · split
      · exact h2
      · exact h2.of_same rfl rfl rfl rfl rfl rfl
    · split
      · exact h3
      · exact SameHdr.trans (by constructor <;> rfl) h3
  · exact ⟨hs, hb, SameHdr.refl b⟩

/-! ### reading a table entry: stream-size probe, seek, read -/

/-- the first three stream operations of `section_impl::load` / `segment_impl::load` -/
def hdrRead (tr : List Trans) (st : IStream) (hdrOff : Int) (n : Nat) : IStream × Bytes :=
  ((streamSizeOf tr st).1.seekg (trApply tr hdrOff)).read n

@[simp] theorem hdrRead_data (tr st hdrOff n) : (hdrRead tr st hdrOff n).1.data = st.data := by
  simp [hdrRead]
@[simp] theorem hdrRead_kind (tr st hdrOff n) : (hdrRead tr st hdrOff n).1.kind = st.kind := by
  simp [hdrRead]

/-- a table entry read that delivered anything started on a stream that had not failed -/
theorem hdrRead_gcount (tr : List Trans) (st : IStream) (hdrOff : Int) (n : Nat)
    (h : (hdrRead tr st hdrOff n).1.gcount ≠ 0) : st.fail = false := by
  have hg := IStream.good_of_gcount _ _ h
  have hf := (IStream.seekg_good _ _ hg).2.2
  cases hx : st.fail
  · rfl
  · rw [streamSizeOf_fail tr st hx] at hf; exact absurd hf (by decide)

theorem hdrRead_failed (tr : List Trans) (st : IStream) (hdrOff : Int) (n : Nat)
    (h : st.fail = true) : (hdrRead tr st hdrOff n).1.gcount = 0 ∧ (hdrRead tr st hdrOff n).2 = [] := by
  have h1 := streamSizeOf_fail tr st h
  have h2 := IStream.seekg_fail _ (trApply tr hdrOff) h1
  have h3 : ((streamSizeOf tr st).1.seekg (trApply tr hdrOff)).good = false := by
    simp [IStream.good, h2]
  exact ⟨(IStream.read_not_good _ n h3).1, (IStream.read_not_good _ n h3).2.2⟩

theorem shdrSize_ne_zero (c : Cls) : shdrSize c ≠ 0 := by cases c <;> decide
theorem phdrSize_ne_zero (c : Cls) : phdrSize c ≠ 0 := by cases c <;> decide

@[simp] theorem decodeShdr_data (c enc r b) : (decodeShdr c enc r b).data = b.data := by cases c <;> rfl
@[simp] theorem decodeShdr_streamSize (c enc r b) : (decodeShdr c enc r b).streamSize = b.streamSize := by
  cases c <;> rfl
@[simp] theorem decodeShdr_dataSize (c enc r b) : (decodeShdr c enc r b).dataSize = b.dataSize := by
  cases c <;> rfl
@[simp] theorem decodeShdr_isLoaded (c enc r b) : (decodeShdr c enc r b).isLoaded = b.isLoaded := by
  cases c <;> rfl
@[simp] theorem decodeShdr_canLoad (c enc r b) : (decodeShdr c enc r b).canLoad = b.canLoad := by
  cases c <;> rfl
@[simp] theorem decodeShdr_index (c enc r b) : (decodeShdr c enc r b).index = b.index := by cases c <;> rfl
@[simp] theorem decodeShdr_isLazy (c enc r b) : (decodeShdr c enc r b).isLazy = b.isLazy := by cases c <;> rfl
@[simp] theorem decodeShdr_cls (c enc r b) : (decodeShdr c enc r b).cls = b.cls := by cases c <;> rfl

/-- the section object before its header is read -/
def secB0 (c : Cls) (tr : List Trans) (ss : BitVec 64) (isLazy : Bool) (idx : Nat) : SecBuf :=
  { cls := c, stype := 0, size := 0, data := none, dataSize := 0, streamSize := ss,
    translatorEmpty := tr.isEmpty, isLazy := isLazy, index := idx }

/-- the section after a complete header read, before any data request -/
def secHdrOnly (c : Cls) (enc : Enc) (tr : List Trans) (st : IStream) (got : Bytes) (ss : BitVec 64)
    (isLazy : Bool) (idx : Nat) : SecBuf :=
  { decodeShdr c enc got (secB0 c tr ss isLazy idx) with
    fileData := fileDataOf c tr st (decodeShdr c enc got (secB0 c tr ss isLazy idx)) }

theorem secLoad_eq (c : Cls) (enc : Enc) (tr : List Trans) (ls : LoadSt) (hdrOff : Int) (isLazy : Bool)
    (idx : Nat) :
    secLoad c enc tr ls hdrOff isLazy idx =
      if ((hdrRead tr ls.st hdrOff (shdrSize c)).1.gcount != shdrSize c) = true then
        ({ ls with st := (hdrRead tr ls.st hdrOff (shdrSize c)).1 },
         { secB0 c tr (streamSizeOf tr ls.st).2 isLazy idx with addrSet := true })
      else
        if sec64_load_eager isLazy (secHdrOnly c enc tr (hdrRead tr ls.st hdrOff (shdrSize c)).1
              (hdrRead tr ls.st hdrOff (shdrSize c)).2 (streamSizeOf tr ls.st).2 isLazy idx).isLoaded = true then
          ((secGetData c tr { ls with st := (hdrRead tr ls.st hdrOff (shdrSize c)).1 }
              (secHdrOnly c enc tr (hdrRead tr ls.st hdrOff (shdrSize c)).1
                (hdrRead tr ls.st hdrOff (shdrSize c)).2 (streamSizeOf tr ls.st).2 isLazy idx)).1,
           { (secGetData c tr { ls with st := (hdrRead tr ls.st hdrOff (shdrSize c)).1 }
              (secHdrOnly c enc tr (hdrRead tr ls.st hdrOff (shdrSize c)).1
                (hdrRead tr ls.st hdrOff (shdrSize c)).2 (streamSizeOf tr ls.st).2 isLazy idx)).2
             with addrSet := true })
        else
          ({ ls with st := (hdrRead tr ls.st hdrOff (shdrSize c)).1 },
           { secHdrOnly c enc tr (hdrRead tr ls.st hdrOff (shdrSize c)).1
                (hdrRead tr ls.st hdrOff (shdrSize c)).2 (streamSizeOf tr ls.st).2 isLazy idx
             with addrSet := true }) := rfl

/-- the stream-size clause of `LoadedSec` right after the header read -/
theorem secLoad_ss (tr : List Trans) (st : IStream) (hdrOff : Int) (n : Nat) (img : Bytes)
    (hd : st.data = img) (stype : BitVec 32)
    (h : (hdrRead tr st hdrOff n).1.gcount ≠ 0 ∨ isNullOrNobitsTy stype = true) :
    (tr = [] ∧ (streamSizeOf tr st).2 = BitVec.ofNat 64 img.length) ∨
    ((streamSizeOf tr st).2 = u64max ∧
      (tr = [] → isNullOrNobitsTy stype = true ∧ (none : Option Bytes) = none)) := by
  cases tr with
  | cons t tr => exact Or.inr ⟨rfl, fun h => by cases h⟩
  | nil =>
    rcases streamSizeOf_nil_size st with ⟨-, h2⟩ | ⟨h1, h2⟩
    · exact Or.inl ⟨rfl, hd ▸ h2⟩
    · rcases h with h | h
      · exact absurd (hdrRead_failed [] st hdrOff n h1).1 h
      · exact Or.inr ⟨h2, fun _ => ⟨h, rfl⟩⟩

theorem StOk.setSt {tr img kind} {ls : LoadSt} (h : StOk tr img kind ls) (st : IStream)
    (hd : st.data = img) (hk : st.kind = kind) : StOk tr img kind { ls with st := st } :=
  ⟨hd, hk, h.allocs⟩

/-- `section_impl::load` establishes the invariant, whatever the stream state and the bytes -/
theorem secLoad_spec (c : Cls) (enc : Enc) (tr : List Trans) (ls : LoadSt) (hdrOff : Int)
    (isLazy : Bool) (idx : Nat) (img : Bytes) (kind : StreamKind) (hs : StOk tr img kind ls) :
    StOk tr img kind (secLoad c enc tr ls hdrOff isLazy idx).1 ∧
    LoadedSec tr (secLoad c enc tr ls hdrOff isLazy idx).2 img := by
  rw [secLoad_eq]
  have hs' : StOk tr img kind { ls with st := (hdrRead tr ls.st hdrOff (shdrSize c)).1 } :=
    hs.setSt _ (by simp [hs.data]) (by simp [hs.kind])
  split
  · refine ⟨hs', fun d hd => (by simp [secB0] at hd), fun d hd => (by simp [secB0] at hd),
      fun d hd => (by simp [secB0] at hd), ?_⟩
    exact secLoad_ss tr ls.st hdrOff (shdrSize c) img hs.data 0 (Or.inr (by decide))
  · rename_i hg
    have hg' : (hdrRead tr ls.st hdrOff (shdrSize c)).1.gcount ≠ 0 := by
      have : (hdrRead tr ls.st hdrOff (shdrSize c)).1.gcount = shdrSize c := by simpa using hg
      rw [this]; exact shdrSize_ne_zero c
    have hb : LoadedSec tr (secHdrOnly c enc tr (hdrRead tr ls.st hdrOff (shdrSize c)).1
        (hdrRead tr ls.st hdrOff (shdrSize c)).2 (streamSizeOf tr ls.st).2 isLazy idx) img := by
      refine ⟨fun d hd => (by simp [secHdrOnly, secB0] at hd), fun d hd => (by simp [secHdrOnly, secB0] at hd),
        fun d hd => (by simp [secHdrOnly, secB0] at hd), ?_⟩
      have := secLoad_ss tr ls.st hdrOff (shdrSize c) img hs.data
        (secHdrOnly c enc tr (hdrRead tr ls.st hdrOff (shdrSize c)).1
          (hdrRead tr ls.st hdrOff (shdrSize c)).2 (streamSizeOf tr ls.st).2 isLazy idx).stype (Or.inl hg')
      simpa [secHdrOnly, secB0] using this
    split
    · obtain ⟨h1, h2, -⟩ := secGetData_spec c tr _ _ img kind hs' hb
      exact ⟨h1, h2.of_same rfl rfl rfl rfl rfl rfl⟩
    · exact ⟨hs', hb.of_same rfl rfl rfl rfl rfl rfl⟩

/-! ### segments -/

/-- What holds of every segment the loader produces. -/
structure LoadedSeg (tr : List Trans) (g : Seg) (img : Bytes) : Prop where
  len : ∀ d, g.data = some d → d.length = g.filesz.toNat + 1
  bytes : ∀ d, g.data = some d →
    d.take g.filesz.toNat = slice img (dataOff tr g.offset).toNat g.filesz.toNat ∧
    (slice img (dataOff tr g.offset).toNat g.filesz.toNat).length = g.filesz.toNat
  ss : (tr = [] ∧ g.streamSize = BitVec.ofNat 64 img.length) ∨
       (g.streamSize = u64max ∧ (tr = [] → seg64_load_data_skip g.stype g.filesz = true ∧ g.data = none))

/-- the `clear(); seekg(off); read(size)` of `segment_impl::load_data` -/
def segRead (st : IStream) (off size : BitVec 64) : IStream × Bytes :=
  if size.toInt < 0 then ((st.clear.seekg off.toInt).readNeg, ([] : Bytes))
  else (st.clear.seekg off.toInt).read size.toNat

/-- re-raise the state bits the stream had before the isolated read -/
def mergeFlags (st2 st : IStream) : IStream :=
  { st2 with eof := st2.eof || st.eof, fail := st2.fail || st.fail }

@[simp] theorem segRead_data (st off size) : (segRead st off size).1.data = st.data := by
  unfold segRead; split <;> simp
@[simp] theorem segRead_kind (st off size) : (segRead st off size).1.kind = st.kind := by
  unfold segRead; split <;> simp

theorem readNeg_fail (s : IStream) : s.readNeg.fail = true := by
  unfold IStream.readNeg; split <;> rfl

theorem segRead_ok (st : IStream) (off size : BitVec 64) (h : (segRead st off size).1.fail = false) :
    (segRead st off size).2 = slice st.data off.toNat size.toNat ∧
    (slice st.data off.toNat size.toNat).length = size.toNat := by
  unfold segRead at h ⊢
  by_cases hneg : size.toInt < 0
  · rw [if_pos hneg] at h; rw [readNeg_fail] at h; exact absurd h (by decide)
  · rw [if_neg hneg] at h ⊢
    obtain ⟨hg, hgot, hlen⟩ := IStream.read_not_fail _ _ h
    obtain ⟨hoff, hpos, -⟩ := IStream.seekg_good _ _ hg
    rw [hpos, toInt_nonneg_toNat off hoff] at hgot hlen
    simp only [IStream.seekg_data, IStream.clear_data] at hgot hlen
    exact ⟨hgot, hlen⟩

theorem segLoadData_eq (c : Cls) (tr : List Trans) (ls : LoadSt) (g : Seg) :
    segLoadData c tr ls g =
      (if seg64_load_data_skip g.stype g.filesz then (ls, g, true) else
       if sec64_load_data_off_gt (dataOff tr g.offset) g.streamSize then (ls, { g with data := none }, false) else
       if sec64_load_data_size_gt g.filesz g.streamSize (dataOff tr g.offset) then
         (ls, { g with data := none }, false) else
       if sec64_load_data_sizet g.filesz then (ls, { g with data := none }, false) else
       if (!(segRead ls.st (dataOff tr g.offset) g.filesz).1.fail) = true then
         ({ st := mergeFlags (segRead ls.st (dataOff tr g.offset) g.filesz).1 ls.st,
            allocs := ls.allocs ++ [(sec64_load_data_alloc g.filesz).toNat] },
          { g with data := some ((segRead ls.st (dataOff tr g.offset) g.filesz).2 ++ [0]), isLoaded := true },
          true)
       else
         ({ st := mergeFlags (segRead ls.st (dataOff tr g.offset) g.filesz).1 ls.st,
            allocs := ls.allocs ++ [(sec64_load_data_alloc g.filesz).toNat] },
          { g with data := none }, false)) := by
  cases c <;> rfl

theorem LoadedSeg.of_same {tr img} {g g' : Seg} (h : LoadedSeg tr g img)
    (e1 : g'.data = g.data) (e2 : g'.filesz = g.filesz) (e3 : g'.offset = g.offset)
    (e5 : g'.streamSize = g.streamSize) (e6 : g'.stype = g.stype) : LoadedSeg tr g' img := by
  refine ⟨?_, ?_, ?_⟩
  · intro d hd; rw [e2]; exact h.len d (e1 ▸ hd)
  · intro d hd; rw [e2, e3]; exact h.bytes d (e1 ▸ hd)
  · rw [e5, e6, e1, e2]; exact h.ss

/-- dropping the data pointer keeps the invariant -/
theorem LoadedSeg.dropData {tr img} {g : Seg} (h : LoadedSeg tr g img) :
    LoadedSeg tr { g with data := none } img := by
  refine ⟨fun d hd => (by simp at hd), fun d hd => (by simp at hd), ?_⟩
  rcases h.ss with h1 | ⟨h1, h2⟩
  · exact Or.inl h1
  · exact Or.inr ⟨h1, fun ht => ⟨(h2 ht).1, rfl⟩⟩

/-- the header-side fields of a segment -/
structure SameSegHdr (g' g : Seg) : Prop where
  stype : g'.stype = g.stype
  flags : g'.flags = g.flags
  offset : g'.offset = g.offset
  vaddr : g'.vaddr = g.vaddr
  paddr : g'.paddr = g.paddr
  filesz : g'.filesz = g.filesz
  memsz : g'.memsz = g.memsz
  align : g'.align = g.align
  streamSize : g'.streamSize = g.streamSize
  isLazy : g'.isLazy = g.isLazy

theorem SameSegHdr.refl (g : Seg) : SameSegHdr g g := by constructor <;> rfl

theorem segLoadData_spec (c : Cls) (tr : List Trans) (ls : LoadSt) (g : Seg) (img : Bytes)
    (kind : StreamKind) (hs : StOk tr img kind ls) (hg : LoadedSeg tr g img) :
    StOk tr img kind (segLoadData c tr ls g).1 ∧ LoadedSeg tr (segLoadData c tr ls g).2.1 img ∧
    SameSegHdr (segLoadData c tr ls g).2.1 g := by
  rw [segLoadData_eq]
  by_cases h0 : seg64_load_data_skip g.stype g.filesz = true
  · rw [if_pos h0]; exact ⟨hs, hg, SameSegHdr.refl g⟩
  rw [if_neg h0]
  by_cases h1 : sec64_load_data_off_gt (dataOff tr g.offset) g.streamSize = true
  · rw [if_pos h1]; exact ⟨hs, hg.dropData, by constructor <;> rfl⟩
  rw [if_neg h1]
  by_cases h2 : sec64_load_data_size_gt g.filesz g.streamSize (dataOff tr g.offset) = true
  · rw [if_pos h2]; exact ⟨hs, hg.dropData, by constructor <;> rfl⟩
  rw [if_neg h2]
  by_cases h4 : sec64_load_data_sizet g.filesz = true
  · rw [if_pos h4]; exact ⟨hs, hg.dropData, by constructor <;> rfl⟩
  rw [if_neg h4]
  have hal : AllocOk tr img (sec64_load_data_alloc g.filesz).toNat := by
    refine ⟨(dataOff tr g.offset).toNat, g.filesz.toNat, g_sizet_false (by simpa using h4), ?_⟩
    intro htr hlen
    have hle := g_size_gt_false (by simpa using h2) (g_off_gt_false (by simpa using h1))
    rcases hg.ss with ⟨-, hss⟩ | ⟨-, hn⟩
    · rw [hss, toNat_ofNat_len hlen] at hle; exact hle
    · exact absurd (hn htr).1 h0
  have hss : (tr = [] ∧ g.streamSize = BitVec.ofNat 64 img.length) ∨
      (g.streamSize = u64max ∧ (tr = [] → seg64_load_data_skip g.stype g.filesz = true ∧
        (none : Option Bytes) = none)) := by
    rcases hg.ss with h | ⟨hv, hn⟩
    · exact Or.inl h
    · exact Or.inr ⟨hv, fun ht => ⟨(hn ht).1, rfl⟩⟩
  have hss' : ∀ d : Option Bytes, (tr = [] ∧ g.streamSize = BitVec.ofNat 64 img.length) ∨
      (g.streamSize = u64max ∧ (tr = [] → seg64_load_data_skip g.stype g.filesz = true ∧ d = none)) := by
    intro d
    rcases hg.ss with h | ⟨hv, hn⟩
    · exact Or.inl h
    · exact Or.inr ⟨hv, fun ht => absurd (hn ht).1 h0⟩
  have hst : StOk tr img kind
      { st := mergeFlags (segRead ls.st (dataOff tr g.offset) g.filesz).1 ls.st,
        allocs := ls.allocs ++ [(sec64_load_data_alloc g.filesz).toNat] } :=
    hs.push _ _ (by simp [mergeFlags, hs.data]) (by simp [mergeFlags, hs.kind]) hal
  by_cases h6 : (!(segRead ls.st (dataOff tr g.offset) g.filesz).1.fail) = true
  · rw [if_pos h6]
    obtain ⟨hgot, hlen⟩ := segRead_ok _ _ _ (by simpa using h6)
    rw [hs.data] at hgot hlen
    refine ⟨hst, ⟨?_, ?_, hss' _⟩, by constructor <;> rfl⟩
    · intro d hd
      simp only [Option.some.injEq] at hd
      subst hd; simp [hgot, hlen]
    · intro d hd
      simp only [Option.some.injEq] at hd
      subst hd
      refine ⟨?_, hlen⟩
      rw [hgot]
      exact List.take_left' hlen
  · rw [if_neg h6]
    exact ⟨hst, ⟨fun d hd => (by simp at hd), fun d hd => (by simp at hd), hss⟩, by constructor <;> rfl⟩

theorem segGetData_eq (c : Cls) (tr : List Trans) (ls : LoadSt) (g : Seg) :
    segGetData c tr ls g =
      if (!g.isLoaded) = true then ((segLoadData c tr ls g).1, (segLoadData c tr ls g).2.1) else (ls, g) := rfl

theorem segGetData_spec (c : Cls) (tr : List Trans) (ls : LoadSt) (g : Seg) (img : Bytes)
    (kind : StreamKind) (hs : StOk tr img kind ls) (hg : LoadedSeg tr g img) :
    StOk tr img kind (segGetData c tr ls g).1 ∧ LoadedSeg tr (segGetData c tr ls g).2 img ∧
    SameSegHdr (segGetData c tr ls g).2 g := by
  rw [segGetData_eq]
  split
  · exact segLoadData_spec c tr ls g img kind hs hg
  · exact ⟨hs, hg, SameSegHdr.refl g⟩

@[simp] theorem decodePhdr_data (c enc r g) : (decodePhdr c enc r g).data = g.data := by cases c <;> rfl
@[simp] theorem decodePhdr_streamSize (c enc r g) : (decodePhdr c enc r g).streamSize = g.streamSize := by
  cases c <;> rfl
@[simp] theorem decodePhdr_isLoaded (c enc r g) : (decodePhdr c enc r g).isLoaded = g.isLoaded := by
  cases c <;> rfl
@[simp] theorem decodePhdr_isLazy (c enc r g) : (decodePhdr c enc r g).isLazy = g.isLazy := by
  cases c <;> rfl

/-- the segment object right after its program header was read (short reads keep the zeros) -/
def segHdr (c : Cls) (enc : Enc) (tr : List Trans) (st : IStream) (hdrOff : Int) (isLazy : Bool) : Seg :=
  decodePhdr c enc (wr (List.replicate (phdrSize c) 0) 0 (hdrRead tr st hdrOff (phdrSize c)).2)
    { streamSize := (streamSizeOf tr st).2, isLazy := isLazy, offsetSet := true }

theorem segLoad_eq (c : Cls) (enc : Enc) (tr : List Trans) (ls : LoadSt) (hdrOff : Int) (isLazy : Bool) :
    segLoad c enc tr ls hdrOff isLazy =
      if (!(isLazy || (segHdr c enc tr ls.st hdrOff isLazy).isLoaded)) = true then
        segLoadData c tr { ls with st := (hdrRead tr ls.st hdrOff (phdrSize c)).1 }
          (segHdr c enc tr ls.st hdrOff isLazy)
      else ({ ls with st := (hdrRead tr ls.st hdrOff (phdrSize c)).1 }, segHdr c enc tr ls.st hdrOff isLazy, true) :=
  rfl

/-- a program header of which nothing was read is the `PT_NULL` one -/
theorem decodePhdr_zero_stype (c : Cls) (enc : Enc) (g : Seg) :
    (decodePhdr c enc (wr (List.replicate (phdrSize c) 0) 0 []) g).stype = 0 := by
  cases c <;> cases enc <;> (simp only [decodePhdr]; decide)

theorem segHdr_inv (c : Cls) (enc : Enc) (tr : List Trans) (st : IStream) (hdrOff : Int) (isLazy : Bool)
    (img : Bytes) (hd : st.data = img) : LoadedSeg tr (segHdr c enc tr st hdrOff isLazy) img := by
  refine ⟨fun d hd => (by simp [segHdr] at hd), fun d hd => (by simp [segHdr] at hd), ?_⟩
  cases tr with
  | cons t tr => exact Or.inr ⟨by simp [segHdr, streamSizeOf_cons], fun h => by cases h⟩
  | nil =>
    rcases streamSizeOf_nil_size st with ⟨-, h2⟩ | ⟨h1, h2⟩
    · exact Or.inl ⟨rfl, by simp [segHdr, h2, hd]⟩
    · refine Or.inr ⟨by simp [segHdr, h2], fun _ => ⟨?_, by simp [segHdr]⟩⟩
      have hz : (segHdr c enc [] st hdrOff isLazy).stype = 0 := by
        unfold segHdr
        rw [(hdrRead_failed [] st hdrOff (phdrSize c) h1).2]
        exact decodePhdr_zero_stype c enc _
      rw [hz]; unfold seg64_load_data_skip; rw [Bool.or_eq_true]; left; decide

/-- `segment_impl::load` establishes the invariant -/
theorem segLoad_spec (c : Cls) (enc : Enc) (tr : List Trans) (ls : LoadSt) (hdrOff : Int)
    (isLazy : Bool) (img : Bytes) (kind : StreamKind) (hs : StOk tr img kind ls) :
    StOk tr img kind (segLoad c enc tr ls hdrOff isLazy).1 ∧
    LoadedSeg tr (segLoad c enc tr ls hdrOff isLazy).2.1 img := by
  rw [segLoad_eq]
  have hs' : StOk tr img kind { ls with st := (hdrRead tr ls.st hdrOff (phdrSize c)).1 } :=
    hs.setSt _ (by simp [hs.data]) (by simp [hs.kind])
  have hg := segHdr_inv c enc tr ls.st hdrOff isLazy img hs.data
  split
  · obtain ⟨h1, h2, -⟩ := segLoadData_spec c tr _ _ img kind hs' hg
    exact ⟨h1, h2⟩
  · exact ⟨hs', hg⟩

end ElfioVerif
