/-
The generated struct layouts and constants (Gen/Layout.lean, extracted from /repo by the layout
probe on every run) equal the specification's tables (Spec/Records.lean); the model's record
decoders therefore read every field where and how the gABI says.
-/
import ElfioVerif.Model.Obj
import ElfioVerif.Spec.Records
namespace ElfioVerif
open Gen

theorem layout_Ehdr32 : layout_Elf32_Ehdr = Spec.ehdr32 := by decide
theorem layout_Ehdr64 : layout_Elf64_Ehdr = Spec.ehdr64 := by decide
theorem layout_Shdr32 : layout_Elf32_Shdr = Spec.shdr32 := by decide
theorem layout_Shdr64 : layout_Elf64_Shdr = Spec.shdr64 := by decide
theorem layout_Phdr32 : layout_Elf32_Phdr = Spec.phdr32 := by decide
theorem layout_Phdr64 : layout_Elf64_Phdr = Spec.phdr64 := by decide
theorem sizes_eq (c : Cls) :
    ehdrSize c = Spec.ehdrSize c ∧ shdrSize c = Spec.shdrSize c ∧ phdrSize c = Spec.phdrSize c := by
  cases c <;> decide
theorem consts_eq :
    ELFMAG0 = 0x7f ∧ ELFMAG1 = 0x45 ∧ ELFMAG2 = 0x4c ∧ ELFMAG3 = 0x46 ∧
    Gen.EI_CLASS = Spec.EI_CLASS ∧ Gen.EI_DATA = Spec.EI_DATA ∧
    Gen.ELFCLASS32 = Spec.ELFCLASS32 ∧ Gen.ELFCLASS64 = Spec.ELFCLASS64 ∧
    Gen.ELFDATA2LSB = Spec.ELFDATA2LSB ∧ Gen.ELFDATA2MSB = Spec.ELFDATA2MSB ∧
    Gen.SHT_NULL = Spec.SHT_NULL ∧ Gen.SHT_NOBITS = Spec.SHT_NOBITS ∧
    Gen.SHF_ALLOC = Spec.SHF_ALLOC ∧ Gen.SHF_TLS = Spec.SHF_TLS ∧
    Gen.PT_NULL = Spec.PT_NULL ∧ Gen.PT_TLS = Spec.PT_TLS ∧ Gen.SHN_UNDEF = Spec.SHN_UNDEF := by decide

/-- a field getter of the model equals the specification's decoder at the specification's offset -/
theorem fld_eq_spec (enc : Enc) (r : Bytes) (off w : Nat) (hw : w = 1 ∨ w = 2 ∨ w = 4 ∨ w = 8)
    (hr : off + w ≤ r.length) :
    (fld enc r off w).toNat = decodeInt enc (slice r off w) := by
  unfold fld
  have hl : (slice r off w).length = w := slice_length_of_le hr
  rw [rdField_eq enc _ (by rw [hl]; exact hw)]
  simp only [BitVec.toNat_ofNat]
  apply Nat.mod_eq_of_lt
  have := leDecode_lt (slice r off w)
  have hb : decodeInt enc (slice r off w) < 2 ^ (8 * w) := by
    cases enc
    · simpa [decodeInt, hl] using this
    · have := leDecode_lt (slice r off w).reverse
      simpa [decodeInt, beDecode, hl] using this
  rcases hw with h | h | h | h <;> subst h <;> simp only [Nat.reducePow, Nat.reduceMul] at hb ⊢ <;> omega

end ElfioVerif
