/-
Helper lemmas for C07: the generated guards of `insert_data`/`set_data` as Nat facts, and the
list identities behind the three copy patterns.
-/
import ElfioVerif.Model.SecBuf
import ElfioVerif.Spec.Edit
namespace ElfioVerif
open Gen

/-! ### both instantiations of the template carry the same guards -/
theorem sec32_eq_sec64_guards :
    sec32_insert_not_nobits = sec64_insert_not_nobits ∧
    sec32_insert_make_resident = sec64_insert_make_resident ∧
    sec32_insert_pos_gt_size = sec64_insert_pos_gt_size ∧
    sec32_insert_ovf_size = sec64_insert_ovf_size ∧
    sec32_insert_new_size = sec64_insert_new_size ∧
    sec32_insert_fits_inplace = sec64_insert_fits_inplace ∧
    sec32_insert_ovf_dbl = sec64_insert_ovf_dbl ∧
    sec32_insert_dbl = sec64_insert_dbl ∧
    sec32_insert_ovf_add = sec64_insert_ovf_add ∧
    sec32_insert_dbl_add = sec64_insert_dbl_add ∧
    sec32_insert_ovf_sizet = sec64_insert_ovf_sizet ∧
    sec32_set_data_not_nobits = sec64_set_data_not_nobits ∧
    sec32_set_data_alloc = sec64_set_data_alloc :=
  ⟨rfl, rfl, rfl, rfl, rfl, rfl, rfl, rfl, rfl, rfl, rfl, rfl, rfl⟩

@[simp] theorem s32_not_nobits : sec32_insert_not_nobits = sec64_insert_not_nobits := rfl
@[simp] theorem s32_make_resident : sec32_insert_make_resident = sec64_insert_make_resident := rfl
@[simp] theorem s32_pos_gt : sec32_insert_pos_gt_size = sec64_insert_pos_gt_size := rfl
@[simp] theorem s32_ovf_size : sec32_insert_ovf_size = sec64_insert_ovf_size := rfl
@[simp] theorem s32_new_size : sec32_insert_new_size = sec64_insert_new_size := rfl
@[simp] theorem s32_fits : sec32_insert_fits_inplace = sec64_insert_fits_inplace := rfl
@[simp] theorem s32_sd_not_nobits : sec32_set_data_not_nobits = sec64_set_data_not_nobits := rfl
@[simp] theorem s32_sd_alloc : sec32_set_data_alloc = sec64_set_data_alloc := rfl

/-! ### the guards as arithmetic -/

/-- unfold BitVec comparisons/arithmetic to `Nat` with all powers of two as numerals -/
macro "bv_nat" : tactic =>
  `(tactic| simp only [BitVec.ult, BitVec.ule, BitVec.toNat_add, BitVec.toNat_sub, BitVec.toNat_mul,
      BitVec.toNat_ofNat, BitVec.toNat_setWidth, BitVec.toNat_udiv, BitVec.signExtend,
      BitVec.toInt, Nat.reducePow, Nat.reduceMod, Nat.reduceDiv, Nat.reduceMul, Nat.reduceLTLE,
      decide_eq_true_eq, decide_eq_false_iff_not] at *)

theorem g_pos_gt (p s : BitVec 64) : sec64_insert_pos_gt_size p s = decide (s.toNat < p.toNat) := by
  simp [sec64_insert_pos_gt_size, BitVec.ult]

theorem g_ovf_size_false (n s : BitVec 64) (h : s.toNat + n.toNat < 18446744073709551616) :
    sec64_insert_ovf_size n s = false := by
  have h1 := s.isLt; have h2 := n.isLt
  unfold sec64_insert_ovf_size
  rw [BitVec.ult, BitVec.toNat_sub]
  simp only [BitVec.toNat_ofNat, Nat.reducePow, Nat.reduceMod, decide_eq_false_iff_not] at *
  omega

theorem g_new_size (s n : BitVec 64) (h : s.toNat + n.toNat < 18446744073709551616) :
    (sec64_insert_new_size s n).toNat = s.toNat + n.toNat := by
  unfold sec64_insert_new_size
  rw [BitVec.toNat_add]
  simp only [Nat.reducePow]
  omega

theorem g_fits (ns ds : BitVec 64) : sec64_insert_fits_inplace ns ds = decide (ns.toNat ≤ ds.toNat) := by
  simp [sec64_insert_fits_inplace, BitVec.ule]

theorem g_not_nobits (t : BitVec 32) :
    sec64_insert_not_nobits t = (t != BitVec.ofNat 32 SHT_NOBITS) := rfl

theorem growSize_eq (c32 : Bool) (ds n : BitVec 64)
    (h : 2 * ds.toNat + n.toNat < 18446744073709551616) :
    SecBuf.growSize c32 ds n = some (BitVec.ofNat 64 (2 * ds.toNat + n.toNat)) := by
  have hd := ds.isLt; have hn := n.isLt
  simp only [Nat.reducePow] at hd hn
  have e1 : sec64_insert_ovf_dbl ds = false := by
    unfold sec64_insert_ovf_dbl
    rw [BitVec.ult, BitVec.toNat_udiv]
    simp only [BitVec.signExtend, BitVec.toInt, BitVec.toNat_ofNat, Nat.reducePow, Nat.reduceMod,
      decide_eq_false_iff_not]
    simp
    omega
  have e2 : sec64_insert_dbl ds = BitVec.ofNat 64 (2 * ds.toNat) := by
    apply BitVec.eq_of_toNat_eq
    unfold sec64_insert_dbl
    rw [BitVec.toNat_mul]
    simp only [BitVec.signExtend, BitVec.toInt, BitVec.toNat_ofNat, Nat.reducePow, Nat.reduceMod]
    simp
    omega
  have e3 : sec64_insert_ovf_add n (BitVec.ofNat 64 (2 * ds.toNat)) = false := by
    unfold sec64_insert_ovf_add
    rw [BitVec.ult, BitVec.toNat_sub]
    simp only [BitVec.toNat_ofNat, Nat.reducePow, Nat.reduceMod, decide_eq_false_iff_not]
    omega
  have e4 : sec64_insert_dbl_add (BitVec.ofNat 64 (2 * ds.toNat)) n
      = BitVec.ofNat 64 (2 * ds.toNat + n.toNat) := by
    apply BitVec.eq_of_toNat_eq
    unfold sec64_insert_dbl_add
    rw [BitVec.toNat_add]
    simp only [BitVec.toNat_ofNat, Nat.reducePow]
    omega
  have e5 : sec64_insert_ovf_sizet (BitVec.ofNat 64 (2 * ds.toNat + n.toNat)) = false := by
    unfold sec64_insert_ovf_sizet
    rw [BitVec.ult]
    simp only [BitVec.toNat_ofNat, Nat.reducePow, Nat.reduceMod, decide_eq_false_iff_not]
    omega
  obtain ⟨_, _, _, _, _, _, h7, h8, h9, h10, h11, _, _⟩ := sec32_eq_sec64_guards
  -- `nullptr != new_data` : the generated test on a successful allocation
  have e6 : sec32_insert_alloc_ok true = true := rfl
  have e7 : sec64_insert_alloc_ok true = true := rfl
  cases c32 <;> simp only [SecBuf.growSize, h7, h8, h9, h10, h11, e1, e2, e6, e7] <;> simp <;>
    exact ⟨e3, by rw [e4]; exact e5, e4⟩

/-! ### hand forms of the conditions regenerated from `set_data` / `insert_data`

`if ( translator->empty() )`, the stream-size arguments, `nullptr != data.get() && nullptr != raw_data`:
the model calls the generated definitions; these lemmas restate the operations with the conditions
written out, which is the form the C07 / C09 / C11 / C12 proofs were written against. -/

theorem SecBuf.setFinish_hand (b : SecBuf) :
    b.setFinish =
      (let b := b.setSize b.dataSize
       if b.translatorEmpty then { b with streamSize := b.dataSize } else b) := by
  unfold SecBuf.setFinish
  simp only []
  cases (b.setSize b.dataSize).cls <;> rfl

theorem SecBuf.insertFinish_hand (b : SecBuf) (newSize n : BitVec 64) :
    b.insertFinish newSize n =
      (let b := b.setSize newSize
       if b.translatorEmpty then { b with streamSize := b.streamSize + n } else b) := by
  unfold SecBuf.insertFinish
  simp only []
  cases (b.setSize newSize).cls <;> rfl

theorem SecBuf.setData_hand (b : SecBuf) (raw : Option Bytes) (sz : BitVec 64) :
    b.setData raw sz =
      (let c32 := b.cls == .c32
       if (if c32 then sec32_set_data_not_nobits b.stype else sec64_set_data_not_nobits b.stype) then
         let n := if c32 then sec32_set_data_alloc sz else sec64_set_data_alloc sz
         match raw with
         | some r => do
           let src ← rdRange "set_data/copy-src" (some r) 0 sz.toNat
           let d ← wrRange "set_data/copy" (some (alloc n.toNat)) 0 src
           pure (SecBuf.setFinish { b with data := d, dataSize := sz })
         | none => pure (SecBuf.setFinish { b with data := some (alloc n.toNat), dataSize := 0 })
       else pure (SecBuf.setFinish b)) := by
  unfold SecBuf.setData
  cases raw <;> cases (b.cls == Cls.c32) <;> rfl

/-! ### copy patterns -/
theorem inplace_view (a raw : Bytes) (pos size : Nat) (hp : pos ≤ size)
    (hs : size + raw.length ≤ a.length) :
    (wr (wr a (pos + raw.length) (slice a pos (size - pos))) pos raw).take (size + raw.length)
      = (a.take size).take pos ++ raw ++ (a.take size).drop pos := by
  have htl : (slice a pos (size - pos)).length = size - pos := by simp [slice]; omega
  apply List.ext_getElem?
  intro i
  simp only [List.getElem?_take]
  rw [wr_getElem? _ _ _ _ (by rw [wr_length _ _ _ (by omega)]; omega)]
  rw [wr_getElem? _ _ _ _ (by omega)]
  simp only [List.getElem?_append, List.getElem?_take, List.getElem?_drop, List.length_append,
    List.length_take, List.length_drop, slice]
  ite_omega

theorem grow_view (a raw : Bytes) (pos size nds : Nat) (hp : pos ≤ size) (hs : size ≤ a.length)
    (hn : size + raw.length ≤ nds) :
    (wr (wr (wr (alloc nds) 0 (slice a 0 pos)) pos raw) (pos + raw.length)
        (slice a pos (size - pos))).take (size + raw.length)
      = (a.take size).take pos ++ raw ++ (a.take size).drop pos := by
  have h1 : (slice a 0 pos).length = pos := by simp [slice]; omega
  have h2 : (slice a pos (size - pos)).length = size - pos := by simp [slice]; omega
  have l1 : (wr (alloc nds) 0 (slice a 0 pos)).length = nds := by
    rw [wr_length _ _ _ (by simp [alloc_length]; omega)]; simp
  have l2 : (wr (wr (alloc nds) 0 (slice a 0 pos)) pos raw).length = nds := by
    rw [wr_length _ _ _ (by omega)]; exact l1
  apply List.ext_getElem?
  intro i
  simp only [List.getElem?_take]
  rw [wr_getElem? _ _ _ _ (by omega)]
  rw [wr_getElem? _ _ _ _ (by omega)]
  rw [wr_getElem? _ _ _ _ (by simp [alloc_length]; omega)]
  simp only [List.getElem?_append, List.getElem?_take, List.getElem?_drop, List.length_append,
    List.length_take, List.length_drop, slice, h1, List.drop_zero]
  ite_omega

end ElfioVerif
