/-
Bridging lemma for `symbol_section_accessor::get_symbols_num`: the model selects the minimum entry
size through the generated `switch ( elf_file.get_class() )` (Gen/SitesC09.lean `sym_num_class`);
the proofs of C09 / C01 (inspection) / C18 were written against the form that matches on the class.
-/
import ElfioVerif.Model.Symbols
namespace ElfioVerif
namespace SymTab
open Gen

/-- `get_symbols_num()` with the class switch in hand form -/
theorem symbolsNum_hand (t : SymTab) :
    t.symbolsNum =
      (let minSz := match t.cfg.cls with | .c32 => sym_num_min32 | .c64 => sym_num_min64
       if sym_num_cond t.sym.entSize minSz t.sym.size t.sym.streamSize then
         if t.sym.entSize = 0 then throw (.divZero "get_symbols_num")
         else pure (sym_num_div t.sym.size t.sym.entSize)
       else pure 0) := by
  unfold symbolsNum
  cases t.cfg.cls <;> rfl

end SymTab
end ElfioVerif
