/-
Helper lemmas for Props/ComposeTables3.lean (continues Lemmas/LoadedTables2.lean).

  §1  version requirement / definition entries through C18's GUARDED walkers (`TQ.needGet`, `TQ.defGet`: the code after
      fixes/19): `chainOffG` (the offset of the `k`-th record of a chain whose links are all > 0 and stay inside the
      section), `needChainWf` / `defChainWf` (decidable well-formedness of the chain up to entry `k`),
      `tq_needGet_core` / `tq_defGet_core`: on a section with C07's invariant the guarded walker returns the reference
      view when the chain is well-formed and refuses otherwise.
-/
import ElfioVerif.Props.ComposeTables2
set_option linter.unusedSimpArgs false
set_option linter.unusedVariables false
namespace ElfioVerif.ComposeTables
open Gen C02 Inspect LoadedTables

/-! ### 1. version chains: the guarded walkers against the reference reader -/

/-- unsigned field of `w` bytes at `off` in the byte order `e` (0-extended when it leaves the byte string; used only
    inside) -/
def fieldAt (e : Enc) (bs : Bytes) (off w : Nat) : Nat := decodeInt e (slice bs off w)

theorem tabField_in {e : Enc} {bs : Bytes} {off w : Nat} (h : off + w ≤ bs.length) :
    Spec.tabField e bs off w = some (fieldAt e bs off w) := by
  unfold Spec.tabField fieldAt; rw [if_pos h]

/-- offset of the `k`-th record of the chain that starts at `off` when every link on the way is well-formed: the link
    field (4 bytes at `nof` of a record of `rsz` bytes) is > 0 and the record it leads to lies inside `bs`; `none`
    otherwise.  (`Spec.verneedOff` / `Spec.verdefOff` without these conditions: `chainOffG_need`, `chainOffG_def`.) -/
def chainOffG (e : Enc) (bs : Bytes) (rsz nof : Nat) : Nat → Nat → Option Nat
  | 0, off => some off
  | k + 1, off =>
    if fieldAt e bs (off + nof) 4 = 0 ∨ bs.length < off + fieldAt e bs (off + nof) 4 + rsz then none
    else chainOffG e bs rsz nof k (off + fieldAt e bs (off + nof) 4)

theorem chainOffG_inside {e : Enc} {bs : Bytes} {rsz nof : Nat} :
    ∀ (k off o : Nat), off + rsz ≤ bs.length → chainOffG e bs rsz nof k off = some o → o + rsz ≤ bs.length := by
  intro k
  induction k with
  | zero => intro off o h1 h2; simp only [chainOffG, Option.some.injEq] at h2; omega
  | succ k ih =>
    intro off o h1 h2
    simp only [chainOffG] at h2
    split at h2
    · cases h2
    · rename_i hc
      exact ih _ o (by omega) h2

theorem decodeVerneed_in {e : Enc} {bs : Bytes} {off : Nat} (h : off + 16 ≤ bs.length) :
    Spec.decodeVerneed e bs off = some ⟨fieldAt e bs off 2, fieldAt e bs (off + 2) 2, fieldAt e bs (off + 4) 4,
      fieldAt e bs (off + 8) 4, fieldAt e bs (off + 12) 4⟩ := by
  simp only [Spec.decodeVerneed, tabField_in (show off + 2 ≤ bs.length by omega),
    tabField_in (show off + 2 + 2 ≤ bs.length by omega), tabField_in (show off + 4 + 4 ≤ bs.length by omega),
    tabField_in (show off + 8 + 4 ≤ bs.length by omega), tabField_in (show off + 12 + 4 ≤ bs.length by omega)]
  rfl

theorem decodeVernaux_in {e : Enc} {bs : Bytes} {off : Nat} (h : off + 16 ≤ bs.length) :
    Spec.decodeVernaux e bs off = some ⟨fieldAt e bs off 4, fieldAt e bs (off + 4) 2, fieldAt e bs (off + 6) 2,
      fieldAt e bs (off + 8) 4, fieldAt e bs (off + 12) 4⟩ := by
  simp only [Spec.decodeVernaux, tabField_in (show off + 4 ≤ bs.length by omega),
    tabField_in (show off + 4 + 2 ≤ bs.length by omega), tabField_in (show off + 6 + 2 ≤ bs.length by omega),
    tabField_in (show off + 8 + 4 ≤ bs.length by omega), tabField_in (show off + 12 + 4 ≤ bs.length by omega)]
  rfl

theorem decodeVerdef_in {e : Enc} {bs : Bytes} {off : Nat} (h : off + 20 ≤ bs.length) :
    Spec.decodeVerdef e bs off = some ⟨fieldAt e bs off 2, fieldAt e bs (off + 2) 2, fieldAt e bs (off + 4) 2,
      fieldAt e bs (off + 6) 2, fieldAt e bs (off + 8) 4, fieldAt e bs (off + 12) 4, fieldAt e bs (off + 16) 4⟩ := by
  simp only [Spec.decodeVerdef, tabField_in (show off + 2 ≤ bs.length by omega),
    tabField_in (show off + 2 + 2 ≤ bs.length by omega), tabField_in (show off + 4 + 2 ≤ bs.length by omega),
    tabField_in (show off + 6 + 2 ≤ bs.length by omega), tabField_in (show off + 8 + 4 ≤ bs.length by omega),
    tabField_in (show off + 12 + 4 ≤ bs.length by omega), tabField_in (show off + 16 + 4 ≤ bs.length by omega)]
  rfl

theorem decodeVerdaux_in {e : Enc} {bs : Bytes} {off : Nat} (h : off + 8 ≤ bs.length) :
    Spec.decodeVerdaux e bs off = some ⟨fieldAt e bs off 4, fieldAt e bs (off + 4) 4⟩ := by
  simp only [Spec.decodeVerdaux, tabField_in (show off + 4 ≤ bs.length by omega),
    tabField_in (show off + 4 + 4 ≤ bs.length by omega)]
  rfl

/-- on a well-formed chain the guarded offset is the reference reader's -/
theorem chainOffG_need {e : Enc} {bs : Bytes} :
    ∀ (k off o : Nat), off + 16 ≤ bs.length → chainOffG e bs 16 12 k off = some o →
      Spec.verneedOff e bs k off = some o := by
  intro k
  induction k with
  | zero => intro off o _ h; simpa [chainOffG, Spec.verneedOff] using h
  | succ k ih =>
    intro off o h1 h2
    simp only [chainOffG] at h2
    split at h2
    · cases h2
    · rename_i hc
      simp only [Spec.verneedOff, decodeVerneed_in h1, bind, Option.bind]
      exact ih _ o (by omega) h2

theorem chainOffG_def {e : Enc} {bs : Bytes} :
    ∀ (k off o : Nat), off + 20 ≤ bs.length → chainOffG e bs 20 16 k off = some o →
      Spec.verdefOff e bs k off = some o := by
  intro k
  induction k with
  | zero => intro off o _ h; simpa [chainOffG, Spec.verdefOff] using h
  | succ k ih =>
    intro off o h1 h2
    simp only [chainOffG] at h2
    split at h2
    · cases h2
    · rename_i hc
      simp only [Spec.verdefOff, decodeVerdef_in h1, bind, Option.bind]
      exact ih _ o (by omega) h2

/-- **the chain of version requirements is well-formed up to entry `k`** (decidable): the section holds a `Verneed`
    record (16 bytes); each of the first `k` links `vn_next` is > 0 and leads to a record inside the section; the
    first `Vernaux` record (16 bytes) of entry `k` (at `vn_aux` from it) lies inside the section; `vn_file` and
    `vna_name` are offsets of NUL-terminated strings inside the string table `tab` -/
def needChainWf (e : Enc) (bs tab : Bytes) (k : Nat) : Bool :=
  decide (16 ≤ bs.length) &&
  match chainOffG e bs 16 12 k 0 with
  | none => false
  | some off =>
    decide (off + fieldAt e bs (off + 8) 4 + 16 ≤ bs.length) &&
    (Spec.tabStrAt tab (fieldAt e bs (off + 4) 4)).isSome &&
    (Spec.tabStrAt tab (fieldAt e bs (off + fieldAt e bs (off + 8) 4 + 8) 4)).isSome

/-- the same for version definitions: `Verdef` records of 20 bytes linked by `vd_next`, first `Verdaux` record
    (8 bytes) at `vd_aux`, its `vda_name` inside the string table -/
def defChainWf (e : Enc) (bs tab : Bytes) (k : Nat) : Bool :=
  decide (20 ≤ bs.length) &&
  match chainOffG e bs 20 16 k 0 with
  | none => false
  | some off =>
    decide (off + fieldAt e bs (off + 12) 4 + 8 ≤ bs.length) &&
    (Spec.tabStrAt tab (fieldAt e bs (off + fieldAt e bs (off + 12) 4) 4)).isSome

/-- on a well-formed chain the reference reader succeeds -/
theorem needView_of_wf {e : Enc} {bs tab : Bytes} {k : Nat} (h : needChainWf e bs tab k = true) :
    ∃ off file name, chainOffG e bs 16 12 k 0 = some off ∧ off + 16 ≤ bs.length ∧
      off + fieldAt e bs (off + 8) 4 + 16 ≤ bs.length ∧
      Spec.tabStrAt tab (fieldAt e bs (off + 4) 4) = some file ∧
      Spec.tabStrAt tab (fieldAt e bs (off + fieldAt e bs (off + 8) 4 + 8) 4) = some name ∧
      Spec.needView e bs tab k = some
        { version := fieldAt e bs off 2, file := file, hash := fieldAt e bs (off + fieldAt e bs (off + 8) 4) 4,
          flags := fieldAt e bs (off + fieldAt e bs (off + 8) 4 + 4) 2,
          other := fieldAt e bs (off + fieldAt e bs (off + 8) 4 + 6) 2, name := name } := by
  unfold needChainWf at h
  simp only [Bool.and_eq_true, decide_eq_true_eq] at h
  obtain ⟨h16, h⟩ := h
  cases ho : chainOffG e bs 16 12 k 0 with
  | none => rw [ho] at h; cases h
  | some off =>
    rw [ho] at h
    simp only [Bool.and_eq_true, decide_eq_true_eq, Option.isSome_iff_exists] at h
    obtain ⟨⟨haux, file, hfile⟩, name, hname⟩ := h
    have hin := chainOffG_inside k 0 off (by omega) ho
    refine ⟨off, file, name, rfl, hin, haux, hfile, hname, ?_⟩
    simp only [Spec.needView, chainOffG_need k 0 off (by omega) ho, decodeVerneed_in hin, decodeVernaux_in haux,
      hfile, hname, bind, Option.bind, pure]

theorem defView_of_wf {e : Enc} {bs tab : Bytes} {k : Nat} (h : defChainWf e bs tab k = true) :
    ∃ off name, chainOffG e bs 20 16 k 0 = some off ∧ off + 20 ≤ bs.length ∧
      off + fieldAt e bs (off + 12) 4 + 8 ≤ bs.length ∧
      Spec.tabStrAt tab (fieldAt e bs (off + fieldAt e bs (off + 12) 4) 4) = some name ∧
      Spec.defView e bs tab k = some
        { flags := fieldAt e bs (off + 2) 2, ndx := fieldAt e bs (off + 4) 2, hash := fieldAt e bs (off + 8) 4,
          name := name } := by
  unfold defChainWf at h
  simp only [Bool.and_eq_true, decide_eq_true_eq] at h
  obtain ⟨h20, h⟩ := h
  cases ho : chainOffG e bs 20 16 k 0 with
  | none => rw [ho] at h; cases h
  | some off =>
    rw [ho] at h
    simp only [Bool.and_eq_true, decide_eq_true_eq, Option.isSome_iff_exists] at h
    obtain ⟨haux, name, hname⟩ := h
    have hin := chainOffG_inside k 0 off (by omega) ho
    refine ⟨off, name, rfl, hin, haux, hname, ?_⟩
    simp only [Spec.defView, chainOffG_def k 0 off (by omega) ho, decodeVerdef_in hin, decodeVerdaux_in haux,
      hname, bind, Option.bind, pure]

/-- a checked 32-bit read inside a section with C07's invariant: the field of the content, after conversion -/
theorem rd32_at {b : SecBuf} (hI : b.Inv) (e : Enc) (site : String) (off : Nat) (h : off + 4 ≤ b.content.length) :
    ∃ x, rd32 site b.getData.data off = .ok x ∧ (cv32 e x).toNat = fieldAt e b.content off 4 :=
  C14.rd32_spec hI e site off _ (tabField_in h)

theorem rd16_at {b : SecBuf} (hI : b.Inv) (e : Enc) (site : String) (off : Nat) (h : off + 2 ≤ b.content.length) :
    ∃ x, rd16 site b.getData.data off = .ok x ∧ (cv16 e x).toNat = fieldAt e b.content off 2 :=
  C14.rd16_spec hI e site off _ (tabField_in h)

/-- the guarded chain walk of `versym_r_section_accessor::get_entry` computes `chainOffG` -/
theorem needLoop_spec {b : SecBuf} (hI : b.Inv) (e : Enc) (no : BitVec 32) :
    ∀ (j fuel : Nat) (i : BitVec 32) (pos : BitVec 64),
      pos.toNat + 16 ≤ b.size.toNat → i.toNat + j = no.toNat → j < fuel →
      TQ.needLoop e b.getData.data b.size no fuel i
          (pos, pos.toNat, pos.toNat + fieldAt e b.content (pos.toNat + 8) 4) =
        .ok ((chainOffG e b.content 16 12 j pos.toNat).map fun off =>
          (BitVec.ofNat 64 off, off, off + fieldAt e b.content (off + 8) 4)) := by
  intro j
  have hl := C07.content_length hI
  induction j with
  | zero =>
    intro fuel i pos hp hi hf
    obtain ⟨f, rfl⟩ : ∃ f, fuel = f + 1 := ⟨fuel - 1, by omega⟩
    have hc : vr_loop_cond i no = false := by
      simp only [vr_loop_cond, BitVec.ult, decide_eq_false_iff_not]; omega
    simp [TQ.needLoop, hc, chainOffG, pure, Except.pure]
  | succ j ih =>
    intro fuel i pos hp hi hf
    obtain ⟨f, rfl⟩ : ∃ f, fuel = f + 1 := ⟨fuel - 1, by omega⟩
    have hc : vr_loop_cond i no = true := by
      simp only [vr_loop_cond, BitVec.ult, decide_eq_true_eq]; omega
    have hi1 : (vr_i_incr i).toNat + j = no.toNat := by
      have h1' : (1#32 : BitVec 32).toNat = 1 := rfl
      have := no.isLt
      simp only [Nat.reducePow] at this
      simp only [vr_i_incr, BitVec.toNat_add, Nat.reducePow]
      rw [h1']; omega
    obtain ⟨nx, hnx, hnxv⟩ := rd32_at hI e "verneed/vn_next" (pos.toNat + 12) (by omega)
    have hsl := b.size.isLt; have hpl := pos.isLt
    simp only [Nat.reducePow] at hsl hpl
    have hnext : (tq_vr_next (cv32 e) nx).toNat = fieldAt e b.content (pos.toNat + 12) 4 := by
      simp only [tq_vr_next, C14.cv32_off, hnxv]
    have hnoff : (vr_next_off (cv32 e) nx).toNat = fieldAt e b.content (pos.toNat + 12) 4 := by
      simp only [vr_next_off, C14.cv32_off, hnxv]
    have hx32 : fieldAt e b.content (pos.toNat + 12) 4 < 4294967296 := by
      rw [← hnxv]; exact (cv32 e nx).isLt
    unfold TQ.needLoop
    simp only [hc, if_true, show Elfxx_Verneed.vn_next_off = 12 from rfl, show Elfxx_Verneed.vn_aux_off = 8 from rfl,
      hnx, chainOffG]
    by_cases hb : tq_vr_next_bad (tq_vr_next (cv32 e) nx) b.size pos = true
    · rw [if_pos hb]
      have : fieldAt e b.content (pos.toNat + 12) 4 = 0 ∨
          b.content.length < pos.toNat + fieldAt e b.content (pos.toNat + 12) 4 + 16 := by
        rw [← hnext, hl]
        simp only [tq_vr_next_bad, Bool.or_eq_true, beq_iff_eq, BitVec.ult, decide_eq_true_eq, BitVec.toNat_sub,
          BitVec.toNat_ofNat, show sizeof_Elfxx_Verneed = 16 from rfl, Nat.reducePow, Nat.reduceMod] at hb
        rcases hb with hb | hb
        · left; rw [hb]; decide
        · right; omega
      rw [if_pos this]; rfl
    · rw [if_neg hb]
      have hnb : ¬ (fieldAt e b.content (pos.toNat + 12) 4 = 0 ∨
          b.content.length < pos.toNat + fieldAt e b.content (pos.toNat + 12) 4 + 16) := by
        rw [← hnext, hl]
        simp only [tq_vr_next_bad, Bool.or_eq_true, beq_iff_eq, BitVec.ult, decide_eq_true_eq, BitVec.toNat_sub,
          BitVec.toNat_ofNat, show sizeof_Elfxx_Verneed = 16 from rfl, Nat.reducePow, Nat.reduceMod, not_or] at hb
        obtain ⟨hb1, hb2⟩ := hb
        intro h
        rcases h with h | h
        · apply hb1
          apply BitVec.eq_of_toNat_eq
          rw [h]; rfl
        · omega
      rw [if_neg hnb]
      have hnb' := not_or.mp hnb
      have hpos' : (tq_vr_pos_incr pos (tq_vr_next (cv32 e) nx)).toNat =
          pos.toNat + fieldAt e b.content (pos.toNat + 12) 4 := by
        simp only [tq_vr_pos_incr, BitVec.toNat_add, Nat.reducePow, hnext]; omega
      rw [hnoff, ← hpos']
      obtain ⟨ax, hax, haxv⟩ := rd32_at hI e "verneed/vn_aux"
        ((tq_vr_pos_incr pos (tq_vr_next (cv32 e) nx)).toNat + 8) (by rw [hpos']; omega)
      rw [hax]
      have hva : (vr_aux_off1 (cv32 e) ax).toNat =
          fieldAt e b.content ((tq_vr_pos_incr pos (tq_vr_next (cv32 e) nx)).toNat + 8) 4 := by
        simp only [vr_aux_off1, C14.cv32_off, haxv]
      simp only [hva]
      exact ih f (vr_i_incr i) _ (by rw [hpos']; omega) hi1 (by omega)

/-- the guarded chain walk of `versym_d_section_accessor::get_entry` computes `chainOffG` -/
theorem defLoop_spec {b : SecBuf} (hI : b.Inv) (e : Enc) (no : BitVec 32) :
    ∀ (j fuel : Nat) (i : BitVec 32) (pos : BitVec 64),
      pos.toNat + 20 ≤ b.size.toNat → i.toNat + j = no.toNat → j < fuel →
      TQ.defLoop e b.getData.data b.size no fuel i
          (pos, pos.toNat, pos.toNat + fieldAt e b.content (pos.toNat + 12) 4) =
        .ok ((chainOffG e b.content 20 16 j pos.toNat).map fun off =>
          (BitVec.ofNat 64 off, off, off + fieldAt e b.content (off + 12) 4)) := by
  intro j
  have hl := C07.content_length hI
  induction j with
  | zero =>
    intro fuel i pos hp hi hf
    obtain ⟨f, rfl⟩ : ∃ f, fuel = f + 1 := ⟨fuel - 1, by omega⟩
    have hc : vd_loop_cond i no = false := by
      simp only [vd_loop_cond, BitVec.ult, decide_eq_false_iff_not]; omega
    simp [TQ.defLoop, hc, chainOffG, pure, Except.pure]
  | succ j ih =>
    intro fuel i pos hp hi hf
    obtain ⟨f, rfl⟩ : ∃ f, fuel = f + 1 := ⟨fuel - 1, by omega⟩
    have hc : vd_loop_cond i no = true := by
      simp only [vd_loop_cond, BitVec.ult, decide_eq_true_eq]; omega
    have hi1 : (vd_i_incr i).toNat + j = no.toNat := by
      have h1' : (1#32 : BitVec 32).toNat = 1 := rfl
      have := no.isLt
      simp only [Nat.reducePow] at this
      simp only [vd_i_incr, BitVec.toNat_add, Nat.reducePow]
      rw [h1']; omega
    obtain ⟨nx, hnx, hnxv⟩ := rd32_at hI e "verdef/vd_next" (pos.toNat + 16) (by omega)
    have hsl := b.size.isLt; have hpl := pos.isLt
    simp only [Nat.reducePow] at hsl hpl
    have hnext : (tq_vd_next (cv32 e) nx).toNat = fieldAt e b.content (pos.toNat + 16) 4 := by
      simp only [tq_vd_next, C14.cv32_off, hnxv]
    have hnoff : (vd_next_off (cv32 e) nx).toNat = fieldAt e b.content (pos.toNat + 16) 4 := by
      simp only [vd_next_off, C14.cv32_off, hnxv]
    have hx32 : fieldAt e b.content (pos.toNat + 16) 4 < 4294967296 := by
      rw [← hnxv]; exact (cv32 e nx).isLt
    unfold TQ.defLoop
    simp only [hc, if_true, show Elfxx_Verdef.vd_next_off = 16 from rfl, show Elfxx_Verdef.vd_aux_off = 12 from rfl,
      hnx, chainOffG]
    by_cases hb : tq_vd_next_bad (tq_vd_next (cv32 e) nx) b.size pos = true
    · rw [if_pos hb]
      have : fieldAt e b.content (pos.toNat + 16) 4 = 0 ∨
          b.content.length < pos.toNat + fieldAt e b.content (pos.toNat + 16) 4 + 20 := by
        rw [← hnext, hl]
        simp only [tq_vd_next_bad, Bool.or_eq_true, beq_iff_eq, BitVec.ult, decide_eq_true_eq, BitVec.toNat_sub,
          BitVec.toNat_ofNat, show sizeof_Elfxx_Verdef = 20 from rfl, Nat.reducePow, Nat.reduceMod] at hb
        rcases hb with hb | hb
        · left; rw [hb]; decide
        · right; omega
      rw [if_pos this]; rfl
    · rw [if_neg hb]
      have hnb : ¬ (fieldAt e b.content (pos.toNat + 16) 4 = 0 ∨
          b.content.length < pos.toNat + fieldAt e b.content (pos.toNat + 16) 4 + 20) := by
        rw [← hnext, hl]
        simp only [tq_vd_next_bad, Bool.or_eq_true, beq_iff_eq, BitVec.ult, decide_eq_true_eq, BitVec.toNat_sub,
          BitVec.toNat_ofNat, show sizeof_Elfxx_Verdef = 20 from rfl, Nat.reducePow, Nat.reduceMod, not_or] at hb
        obtain ⟨hb1, hb2⟩ := hb
        intro h
        rcases h with h | h
        · apply hb1
          apply BitVec.eq_of_toNat_eq
          rw [h]; rfl
        · omega
      rw [if_neg hnb]
      have hnb' := not_or.mp hnb
      have hpos' : (tq_vd_pos_incr pos (tq_vd_next (cv32 e) nx)).toNat =
          pos.toNat + fieldAt e b.content (pos.toNat + 16) 4 := by
        simp only [tq_vd_pos_incr, BitVec.toNat_add, Nat.reducePow, hnext]; omega
      rw [hnoff, ← hpos']
      obtain ⟨ax, hax, haxv⟩ := rd32_at hI e "verdef/vd_aux"
        ((tq_vd_pos_incr pos (tq_vd_next (cv32 e) nx)).toNat + 12) (by rw [hpos']; omega)
      rw [hax]
      have hva : (vd_aux_off1 (cv32 e) ax).toNat =
          fieldAt e b.content ((tq_vd_pos_incr pos (tq_vd_next (cv32 e) nx)).toNat + 12) 4 := by
        simp only [vd_aux_off1, C14.cv32_off, haxv]
      simp only [hva]
      exact ih f (vd_i_incr i) _ (by rw [hpos']; omega) hi1 (by omega)

/-- the string table an accessor sees through `sections[sh_link]` (`none`: a null pointer — no string is found) -/
def tabOf (str : Option SecBuf) : Bytes :=
  match str with
  | none => []
  | some s => s.content

theorem strLookup_tabOf (str : Option SecBuf) (hS : ∀ s, str = some s → s.Inv) (idx : BitVec 32) :
    strLookup str idx = Spec.tabStrAt (tabOf str) idx.toNat := by
  cases str with
  | none => simp [strLookup, tabOf, Spec.tabStrAt]
  | some s => exact C14.strLookup_eq (hS s rfl) idx

/-- the reference view as the accessor's out-parameters -/
def needOut (v : Spec.NeedView) : Verneed.View :=
  { version := BitVec.ofNat 16 v.version, file := v.file, hash := BitVec.ofNat 32 v.hash,
    flags := BitVec.ofNat 16 v.flags, other := BitVec.ofNat 16 v.other, name := v.name }

def defOut (v : Spec.DefView) : Verdef.View :=
  { flags := BitVec.ofNat 16 v.flags, ndx := BitVec.ofNat 16 v.ndx, hash := BitVec.ofNat 32 v.hash, name := v.name }

/-- **the guarded `versym_r_section_accessor::get_entry`** on a section with C07's invariant, for an index below the
    cached count: the reference view when the chain is well-formed up to that entry, a refusal otherwise -/
theorem tq_needGet_core (e : Enc) (b : SecBuf) (str : Option SecBuf) (hI : b.Inv) (hS : ∀ s, str = some s → s.Inv)
    (num no : BitVec 32) (hno : no.toNat < num.toNat) :
    TQ.needGet e b str num no =
      .ok (if needChainWf e b.content (tabOf str) no.toNat = true
           then (Spec.needView e b.content (tabOf str) no.toNat).map needOut else none) := by
  have hl := C07.content_length hI
  have hsl := b.size.isLt
  simp only [Nat.reducePow] at hsl
  unfold TQ.needGet
  have hg : vr_guard true no num = false := by
    simp only [vr_guard, Bool.not_true, Bool.false_or, BitVec.ule, decide_eq_false_iff_not]; omega
  rw [hg]
  simp only [Bool.false_eq_true, if_false]
  have hsd : secData b = b.getData.data := rfl
  rw [hsd]
  rcases Nat.lt_or_ge b.content.length 16 with h16 | h16
  · have hb : tq_vr_hdr_bad b.getData.data.isNone b.size = true := by
      simp only [tq_vr_hdr_bad, Bool.or_eq_true, BitVec.ult, decide_eq_true_eq, BitVec.toNat_ofNat,
        show sizeof_Elfxx_Verneed = 16 from rfl, Nat.reducePow, Nat.reduceMod]
      right; omega
    have hw : needChainWf e b.content (tabOf str) no.toNat = false := by
      have : ¬ 16 ≤ b.content.length := by omega
      simp [needChainWf, this]
    rw [if_pos hb, hw]; rfl
  have hb : tq_vr_hdr_bad b.getData.data.isNone b.size = false := by
    obtain ⟨_, ⟨h1, h2⟩ | ⟨a, hd, _, _⟩⟩ := C14.getData_content hI
    · rw [h2] at h16; simp at h16
    · simp only [tq_vr_hdr_bad, hd, Option.isNone_some, Bool.false_or, BitVec.ult, decide_eq_false_iff_not,
        BitVec.toNat_ofNat, show sizeof_Elfxx_Verneed = 16 from rfl, Nat.reducePow, Nat.reduceMod]
      omega
  rw [hb]
  simp only [Bool.false_eq_true, if_false]
  obtain ⟨ax0, hax0, hax0v⟩ := rd32_at hI e "verneed/vn_aux" 8 (by omega)
  have hloop := needLoop_spec hI e no no.toNat (no.toNat + 1) 0 0 (by simp; omega) (by simp) (by omega)
  have h0 : (0 : BitVec 64).toNat = 0 := rfl
  have hva0 : (vr_aux_off0 (cv32 e) ax0).toNat = fieldAt e b.content 8 4 := by
    simp only [vr_aux_off0, C14.cv32_off, hax0v]
  simp only [h0, Nat.zero_add] at hloop
  simp only [show Elfxx_Verneed.vn_aux_off = 8 from rfl, show Elfxx_Verneed.vn_file_off = 4 from rfl,
    show Elfxx_Verneed.vn_version_off = 0 from rfl, show Elfxx_Vernaux.vna_name_off = 8 from rfl,
    show Elfxx_Vernaux.vna_hash_off = 0 from rfl, show Elfxx_Vernaux.vna_flags_off = 4 from rfl,
    show Elfxx_Vernaux.vna_other_off = 6 from rfl, hax0, TQTie.vr_i_init_eq, TQTie.vr_pos_init_eq, hva0, hloop]
  cases ho : chainOffG e b.content 16 12 no.toNat 0 with
  | none =>
    have hw : needChainWf e b.content (tabOf str) no.toNat = false := by simp [needChainWf, ho]
    rw [hw]; rfl
  | some off =>
    have hin := chainOffG_inside no.toNat 0 off (by omega) ho
    have hoff : (BitVec.ofNat 64 off).toNat = off := by
      simp only [BitVec.toNat_ofNat, Nat.reducePow]; omega
    obtain ⟨axr, haxr, haxrv⟩ := rd32_at hI e "verneed/vn_aux" (off + 8) (by omega)
    simp only [Option.map_some, haxr]
    have haux : (tq_vr_aux (cv32 e) axr).toNat = fieldAt e b.content (off + 8) 4 := by
      simp only [tq_vr_aux, C14.cv32_off, haxrv]
    have hx32 : fieldAt e b.content (off + 8) 4 < 4294967296 := by
      rw [← haxrv]; exact (cv32 e axr).isLt
    by_cases hab : tq_vr_aux_bad (tq_vr_aux (cv32 e) axr) b.size (BitVec.ofNat 64 off) = true
    · rw [if_pos hab]
      have hw : needChainWf e b.content (tabOf str) no.toNat = false := by
        have : ¬ (off + fieldAt e b.content (off + 8) 4 + 16 ≤ b.content.length) := by
          rw [← haux, hl]
          simp only [tq_vr_aux_bad, Bool.or_eq_true, BitVec.ult, decide_eq_true_eq, BitVec.toNat_sub,
            BitVec.toNat_ofNat, show sizeof_Elfxx_Vernaux = 16 from rfl, Nat.reducePow, Nat.reduceMod] at hab
          have hauxlt : (tq_vr_aux (cv32 e) axr).toNat < 4294967296 := by rw [haux]; exact hx32
          omega
        simp [needChainWf, ho, this]
      rw [hw]; rfl
    · rw [if_neg hab]
      have hauxin : off + fieldAt e b.content (off + 8) 4 + 16 ≤ b.content.length := by
        rw [← haux, hl]
        simp only [tq_vr_aux_bad, Bool.or_eq_true, BitVec.ult, decide_eq_true_eq, BitVec.toNat_sub,
          BitVec.toNat_ofNat, show sizeof_Elfxx_Vernaux = 16 from rfl, Nat.reducePow, Nat.reduceMod, not_or] at hab
        have hauxlt : (tq_vr_aux (cv32 e) axr).toNat < 4294967296 := by rw [haux]; exact hx32
        omega
      obtain ⟨fidx, hfidx, hfidxv⟩ := rd32_at hI e "verneed/vn_file" (off + 4) (by omega)
      obtain ⟨nidx, hnidx, hnidxv⟩ := rd32_at hI e "verneed/vna_name"
        (off + fieldAt e b.content (off + 8) 4 + 8) (by omega)
      simp only [hfidx, hnidx, strLookup_tabOf str hS, vr_file_idx, vr_name_idx, hfidxv, hnidxv]
      cases hfile : Spec.tabStrAt (tabOf str) (fieldAt e b.content (off + 4) 4) with
      | none =>
        have hw : needChainWf e b.content (tabOf str) no.toNat = false := by simp [needChainWf, ho, hfile]
        rw [hw]; rfl
      | some file =>
        cases hname : Spec.tabStrAt (tabOf str) (fieldAt e b.content (off + fieldAt e b.content (off + 8) 4 + 8) 4) with
        | none =>
          have hw : needChainWf e b.content (tabOf str) no.toNat = false := by simp [needChainWf, ho, hname]
          rw [hw]; rfl
        | some name =>
          have hw : needChainWf e b.content (tabOf str) no.toNat = true := by
            simp [needChainWf, ho, hfile, hname, h16, hauxin]
          obtain ⟨off', file', name', ho', _, _, hfile', hname', hview⟩ := needView_of_wf hw
          rw [ho] at ho'; cases ho'
          rw [hfile] at hfile'; cases hfile'
          rw [hname] at hname'; cases hname'
          obtain ⟨x1, hx1, hx1v⟩ := rd16_at hI e "verneed/vn_version" off (by omega)
          obtain ⟨x3, hx3, hx3v⟩ := rd32_at hI e "verneed/vna_hash" (off + fieldAt e b.content (off + 8) 4) (by omega)
          obtain ⟨x4, hx4, hx4v⟩ := rd16_at hI e "verneed/vna_flags" (off + fieldAt e b.content (off + 8) 4 + 4) (by omega)
          obtain ⟨x5, hx5, hx5v⟩ := rd16_at hI e "verneed/vna_other" (off + fieldAt e b.content (off + 8) 4 + 6) (by omega)
          simp only [tq_vr_names_bad, Option.isNone_some, Bool.or_self, Bool.false_eq_true, if_false, Nat.add_zero,
            hx1, hx3, hx4, hx5, hw, if_true, hview, Option.map_some, needOut, vr_version, vr_hash, vr_flags, vr_other,
            pure, Except.pure]
          rw [C14.eq_ofNat_of_toNat _ _ hx1v, C14.eq_ofNat_of_toNat _ _ hx3v, C14.eq_ofNat_of_toNat _ _ hx4v,
            C14.eq_ofNat_of_toNat _ _ hx5v]

/-- **the guarded `versym_d_section_accessor::get_entry`** : the same for version definitions -/
theorem tq_defGet_core (e : Enc) (b : SecBuf) (str : Option SecBuf) (hI : b.Inv) (hS : ∀ s, str = some s → s.Inv)
    (num no : BitVec 32) (hno : no.toNat < num.toNat) :
    TQ.defGet e b str num no =
      .ok (if defChainWf e b.content (tabOf str) no.toNat = true
           then (Spec.defView e b.content (tabOf str) no.toNat).map defOut else none) := by
  have hl := C07.content_length hI
  have hsl := b.size.isLt
  simp only [Nat.reducePow] at hsl
  unfold TQ.defGet
  have hg : vd_guard true no num = false := by
    simp only [vd_guard, Bool.not_true, Bool.false_or, BitVec.ule, decide_eq_false_iff_not]; omega
  rw [hg]
  simp only [Bool.false_eq_true, if_false]
  have hsd : secData b = b.getData.data := rfl
  rw [hsd]
  rcases Nat.lt_or_ge b.content.length 20 with h20 | h20
  · have hb : tq_vd_hdr_bad b.getData.data.isNone b.size = true := by
      simp only [tq_vd_hdr_bad, Bool.or_eq_true, BitVec.ult, decide_eq_true_eq, BitVec.toNat_ofNat,
        show sizeof_Elfxx_Verdef = 20 from rfl, Nat.reducePow, Nat.reduceMod]
      right; omega
    have hw : defChainWf e b.content (tabOf str) no.toNat = false := by
      have : ¬ 20 ≤ b.content.length := by omega
      simp [defChainWf, this]
    rw [if_pos hb, hw]; rfl
  have hb : tq_vd_hdr_bad b.getData.data.isNone b.size = false := by
    obtain ⟨_, ⟨h1, h2⟩ | ⟨a, hd, _, _⟩⟩ := C14.getData_content hI
    · rw [h2] at h20; simp at h20
    · simp only [tq_vd_hdr_bad, hd, Option.isNone_some, Bool.false_or, BitVec.ult, decide_eq_false_iff_not,
        BitVec.toNat_ofNat, show sizeof_Elfxx_Verdef = 20 from rfl, Nat.reducePow, Nat.reduceMod]
      omega
  rw [hb]
  simp only [Bool.false_eq_true, if_false]
  obtain ⟨ax0, hax0, hax0v⟩ := rd32_at hI e "verdef/vd_aux" 12 (by omega)
  have hloop := defLoop_spec hI e no no.toNat (no.toNat + 1) 0 0 (by simp; omega) (by simp) (by omega)
  have h0 : (0 : BitVec 64).toNat = 0 := rfl
  have hva0 : (vd_aux_off0 (cv32 e) ax0).toNat = fieldAt e b.content 12 4 := by
    simp only [vd_aux_off0, C14.cv32_off, hax0v]
  simp only [h0, Nat.zero_add] at hloop
  simp only [show Elfxx_Verdef.vd_aux_off = 12 from rfl, show Elfxx_Verdef.vd_flags_off = 2 from rfl,
    show Elfxx_Verdef.vd_ndx_off = 4 from rfl, show Elfxx_Verdef.vd_hash_off = 8 from rfl,
    show Elfxx_Verdaux.vda_name_off = 0 from rfl, hax0, TQTie.vd_i_init_eq, TQTie.vd_pos_init_eq, hva0, hloop]
  cases ho : chainOffG e b.content 20 16 no.toNat 0 with
  | none =>
    have hw : defChainWf e b.content (tabOf str) no.toNat = false := by simp [defChainWf, ho]
    rw [hw]; rfl
  | some off =>
    have hin := chainOffG_inside no.toNat 0 off (by omega) ho
    obtain ⟨axr, haxr, haxrv⟩ := rd32_at hI e "verdef/vd_aux" (off + 12) (by omega)
    simp only [Option.map_some, haxr]
    have haux : (tq_vd_aux (cv32 e) axr).toNat = fieldAt e b.content (off + 12) 4 := by
      simp only [tq_vd_aux, C14.cv32_off, haxrv]
    have hx32 : fieldAt e b.content (off + 12) 4 < 4294967296 := by
      rw [← haxrv]; exact (cv32 e axr).isLt
    have hauxlt : (tq_vd_aux (cv32 e) axr).toNat < 4294967296 := by rw [haux]; exact hx32
    by_cases hab : tq_vd_aux_bad (tq_vd_aux (cv32 e) axr) b.size (BitVec.ofNat 64 off) = true
    · rw [if_pos hab]
      have hw : defChainWf e b.content (tabOf str) no.toNat = false := by
        have : ¬ (off + fieldAt e b.content (off + 12) 4 + 8 ≤ b.content.length) := by
          rw [← haux, hl]
          simp only [tq_vd_aux_bad, Bool.or_eq_true, BitVec.ult, decide_eq_true_eq, BitVec.toNat_sub,
            BitVec.toNat_ofNat, show sizeof_Elfxx_Verdaux = 8 from rfl, Nat.reducePow, Nat.reduceMod] at hab
          omega
        simp [defChainWf, ho, this]
      rw [hw]; rfl
    · rw [if_neg hab]
      have hauxin : off + fieldAt e b.content (off + 12) 4 + 8 ≤ b.content.length := by
        rw [← haux, hl]
        simp only [tq_vd_aux_bad, Bool.or_eq_true, BitVec.ult, decide_eq_true_eq, BitVec.toNat_sub,
          BitVec.toNat_ofNat, show sizeof_Elfxx_Verdaux = 8 from rfl, Nat.reducePow, Nat.reduceMod, not_or] at hab
        omega
      obtain ⟨nidx, hnidx, hnidxv⟩ := rd32_at hI e "verdef/vda_name"
        (off + fieldAt e b.content (off + 12) 4) (by omega)
      simp only [Nat.add_zero, hnidx, strLookup_tabOf str hS, vd_name_idx, hnidxv]
      cases hname : Spec.tabStrAt (tabOf str) (fieldAt e b.content (off + fieldAt e b.content (off + 12) 4) 4) with
      | none =>
        have hw : defChainWf e b.content (tabOf str) no.toNat = false := by simp [defChainWf, ho, hname]
        rw [hw]; rfl
      | some name =>
        have hw : defChainWf e b.content (tabOf str) no.toNat = true := by
          simp [defChainWf, ho, hname, h20, hauxin]
        obtain ⟨off', name', ho', _, _, hname', hview⟩ := defView_of_wf hw
        rw [ho] at ho'; cases ho'
        rw [hname] at hname'; cases hname'
        obtain ⟨x1, hx1, hx1v⟩ := rd16_at hI e "verdef/vd_flags" (off + 2) (by omega)
        obtain ⟨x2, hx2, hx2v⟩ := rd16_at hI e "verdef/vd_ndx" (off + 4) (by omega)
        obtain ⟨x3, hx3, hx3v⟩ := rd32_at hI e "verdef/vd_hash" (off + 8) (by omega)
        simp only [tq_vd_names_bad, Option.isNone_some, Bool.false_eq_true, if_false,
          hx1, hx2, hx3, hw, if_true, hview, Option.map_some, defOut, vd_flags, vd_ndx, vd_hash,
          pure, Except.pure]
        rw [C14.eq_ofNat_of_toNat _ _ hx1v, C14.eq_ofNat_of_toNat _ _ hx2v, C14.eq_ofNat_of_toNat _ _ hx3v]

/-! ### the entry count of the version accessors: the constructors' scan of `.dynamic` -/

/-- what the constructor's loop finds in the dynamic entries `es` (string table `tbl`): the value, truncated to
    `Elf_Word`, of the first entry among the reported ones (`Spec.dynCount`) that `get_entry` delivers with tag `tag`
    — 0 (the member initialiser) without one; `fuel` = number of entries still to visit, `i` = next index -/
def specVerScan (es : List Spec.DynEntry) (tbl : Option Bytes) (tag : Nat) : Nat → Nat → BitVec 32
  | 0, _ => 0
  | fuel + 1, i =>
    if i < Spec.dynCount es then
      match Spec.dynGet es tbl i with
      | .ok t v _ => if t = tag then BitVec.ofNat 32 v else specVerScan es tbl tag fuel (i + 1)
      | _ => specVerScan es tbl tag fuel (i + 1)
    else 0

theorem verCountGo_spec (need : Bool) (c : Bytes) (tbl : Option Bytes) (n : BitVec 64) :
    ∀ (fuel : Nat) (a : DynAcc) (i : BitVec 64), C12.Good a c tbl →
      n.toNat = Spec.dynCount (Spec.entriesOf a.cfg c) → i.toNat + fuel ≤ n.toNat →
      (if need then TQ.verCountGo vr_ctor_loop vr_ctor_hit vr_ctor_i_incr vr_num_trunc n fuel a i
       else TQ.verCountGo vd_ctor_loop vd_ctor_hit vd_ctor_i_incr vd_num_trunc n fuel a i) =
        .ok (specVerScan (Spec.entriesOf a.cfg c) tbl (if need then DT_VERNEEDNUM else DT_VERDEFNUM) fuel i.toNat) := by
  intro fuel
  induction fuel with
  | zero => intro a i _ _ _; cases need <;> rfl
  | succ f ih =>
    intro a i hG hn hi
    have hnl := n.isLt
    simp only [Nat.reducePow] at hnl
    have hlt : i.toNat < n.toNat := by omega
    obtain ⟨a', r, hg, hG', hcfg', hout⟩ := C12.getEntry_ok a c tbl hG i
    have hi1 : (i + 1).toNat = i.toNat + 1 := by
      have h1' : (1 : BitVec 64).toNat = 1 := rfl
      simp only [BitVec.toNat_add, Nat.reducePow]
      rw [h1']; omega
    have ih' := ih a' (i + 1) hG' (by rw [hcfg']; exact hn) (by rw [hi1]; omega)
    rw [hcfg', hi1] at ih'
    have hlt' : i.toNat < Spec.dynCount (Spec.entriesOf a.cfg c) := by rw [← hn]; exact hlt
    cases need
    · simp only [Bool.false_eq_true, if_false] at ih' ⊢
      unfold TQ.verCountGo specVerScan
      have hc : vd_ctor_loop i n = true := by simp only [vd_ctor_loop, BitVec.ult, decide_eq_true_eq]; exact hlt
      simp only [hc, if_true, hg, hlt', ← hout, vd_ctor_i_incr]
      cases r with
      | invalid => simp only [C12.outOf, vd_ctor_hit, Bool.false_and, Bool.false_eq_true, if_false]; exact ih'
      | nostr t v => simp only [C12.outOf, vd_ctor_hit, Bool.false_and, Bool.false_eq_true, if_false]; exact ih'
      | ok t v s =>
        simp only [C12.outOf, vd_ctor_hit, Bool.true_and]
        by_cases ht : t = BitVec.setWidth 64 (BitVec.ofNat 32 DT_VERDEFNUM)
        · have : t.toNat = DT_VERDEFNUM := by rw [ht]; rfl
          simp only [ht, beq_self_eq_true, if_true, this, vd_num_trunc]
          first | rfl | (congr 1; apply BitVec.eq_of_toNat_eq; simp)
        · have : ¬ t.toNat = DT_VERDEFNUM := by
            intro h; apply ht; apply BitVec.eq_of_toNat_eq; rw [h]; rfl
          have hb : (t == BitVec.setWidth 64 (BitVec.ofNat 32 DT_VERDEFNUM)) = false := by simpa using ht
          simp only [hb, Bool.false_eq_true, if_false, this]; exact ih'
    · simp only [if_true] at ih' ⊢
      unfold TQ.verCountGo specVerScan
      have hc : vr_ctor_loop i n = true := by simp only [vr_ctor_loop, BitVec.ult, decide_eq_true_eq]; exact hlt
      simp only [hc, if_true, hg, hlt', ← hout, vr_ctor_i_incr]
      cases r with
      | invalid => simp only [C12.outOf, vr_ctor_hit, Bool.false_and, Bool.false_eq_true, if_false]; exact ih'
      | nostr t v => simp only [C12.outOf, vr_ctor_hit, Bool.false_and, Bool.false_eq_true, if_false]; exact ih'
      | ok t v s =>
        simp only [C12.outOf, vr_ctor_hit, Bool.true_and]
        by_cases ht : t = BitVec.setWidth 64 (BitVec.ofNat 32 DT_VERNEEDNUM)
        · have : t.toNat = DT_VERNEEDNUM := by rw [ht]; rfl
          simp only [ht, beq_self_eq_true, if_true, this, vr_num_trunc]
          first | rfl | (congr 1; apply BitVec.eq_of_toNat_eq; simp)
        · have : ¬ t.toNat = DT_VERNEEDNUM := by
            intro h; apply ht; apply BitVec.eq_of_toNat_eq; rw [h]; rfl
          have hb : (t == BitVec.setWidth 64 (BitVec.ofNat 32 DT_VERNEEDNUM)) = false := by simpa using ht
          simp only [hb, Bool.false_eq_true, if_false, this]; exact ih'

/-- the constructors' count on a consistent dynamic accessor (C12's `Good`, count not cached or cached) -/
theorem verCount_spec (need : Bool) (a : DynAcc) (c : Bytes) (tbl : Option Bytes) (hG : C12.Good a c tbl) :
    TQ.verCount need (some a) =
      .ok (specVerScan (Spec.entriesOf a.cfg c) tbl (if need then DT_VERNEEDNUM else DT_VERDEFNUM)
        (Spec.dynCount (Spec.entriesOf a.cfg c)) 0) := by
  obtain ⟨a1, n, hn, hG1, hcfg1, _, hnv⟩ := C12.entriesNum_ok a c tbl hG
  have h := verCountGo_spec need c tbl n n.toNat a1 0 hG1 (by rw [hcfg1]; exact hnv) (by simp)
  rw [hcfg1] at h
  have h0 : (0 : BitVec 64).toNat = 0 := rfl
  rw [h0] at h
  have e1 : vd_ctor_i_init = 0 := by decide
  have e2 : vr_ctor_i_init = 0 := by decide
  unfold TQ.verCount
  cases need
  · simp only [Bool.false_eq_true, if_false] at h ⊢
    simp only [vd_ctor_nodyn, Option.isNone_some, Bool.false_eq_true, if_false, hn, vd_ctor_count, e1]
    rw [← hnv]; exact h
  · simp only [if_true] at h ⊢
    simp only [vr_ctor_nodyn, Option.isNone_some, Bool.false_eq_true, if_false, hn, vr_ctor_count, e2]
    rw [← hnv]; exact h

end ElfioVerif.ComposeTables
