/-
Byte-level refinement for C10: the model of `arrange_local_symbols` on the section's bytes
(`Model/Arrange.lean`) computes the abstract two-cursor partition (`Lemmas/Arrange.lean`) on the
decoded table, never faults and never runs out of fuel.
-/
import ElfioVerif.Model.Arrange
import ElfioVerif.Lemmas.Arrange
import ElfioVerif.Lemmas.Bits
namespace ElfioVerif
open Gen

/-! ### byte strings -/

theorem slice_getElem? (b : Bytes) (off len i : Nat) :
    (slice b off len)[i]? = if i < len then b[off + i]? else none := by
  simp only [slice, List.getElem?_take, List.getElem?_drop]

theorem slice_wr_of_disjoint (b src : Bytes) (off p len : Nat) (h : off + src.length ≤ b.length)
    (hd : p + len ≤ off ∨ off + src.length ≤ p) : slice (wr b off src) p len = slice b p len := by
  apply List.ext_getElem?; intro i
  simp only [slice_getElem?]
  split
  · rw [wr_getElem? _ _ _ _ h]; ite_omega
  · rfl

theorem slice_wr_same_arr (b src : Bytes) (off : Nat) (h : off + src.length ≤ b.length) :
    slice (wr b off src) off src.length = src := by
  apply List.ext_getElem?; intro i
  simp only [slice_getElem?]
  split
  · rw [wr_getElem? _ _ _ _ h]
    rw [if_neg (by omega), if_pos (by omega)]
    congr 1; omega
  · rw [List.getElem?_eq_none (by omega)]

theorem mul_step {i j es : Nat} (h : i < j) : i * es + es ≤ j * es := by
  have := Nat.mul_le_mul_right es (Nat.succ_le_of_lt h)
  rw [Nat.succ_mul] at this; exact this

namespace Arrange

/-! ### the decoded table -/

/-- record `i` = the `S` bytes at `i * es` -/
def table (d : Bytes) (es S n : Nat) : List Bytes := (List.range n).map (fun i => slice d (i * es) S)

@[simp] theorem table_length (d : Bytes) (es S n : Nat) : (table d es S n).length = n := by
  simp [table]

theorem table_getElem? (d : Bytes) (es S n i : Nat) :
    (table d es S n)[i]? = if i < n then some (slice d (i * es) S) else none := by
  unfold table
  by_cases h : i < n
  · simp [h]
  · simp [h]

/-- ELF gABI: binding = `st_info >> 4`; local = STB_LOCAL = 0 -/
def isLocalRec (infoOff : Nat) (r : Bytes) : Bool := (r.getD infoOff 0).toNat / 16 == 0

/-- `std::swap` of two records in the buffer = exchanging the two table entries -/
theorem table_swap (d : Bytes) (es S n i j : Nat) (hS : S ≤ es) (hij : i < j) (hj : j < n)
    (hlen : n * es ≤ d.length) :
    table (wr (wr d (i * es) (slice d (j * es) S)) (j * es) (slice d (i * es) S)) es S n
      = Arr.swapAt (table d es S n) i j := by
  have hjes : j * es + es ≤ n * es := mul_step hj
  have hies : i * es + es ≤ j * es := mul_step hij
  have l1 : (slice d (j * es) S).length = S := by rw [slice_length]; omega
  have l2 : (slice d (i * es) S).length = S := by rw [slice_length]; omega
  have w1 : (wr d (i * es) (slice d (j * es) S)).length = d.length :=
    wr_length _ _ _ (by omega)
  apply List.ext_getElem?
  intro k
  rw [Arr.swapAt_getElem? _ (by simp; omega) (by simp; omega)]
  simp only [table_getElem?]
  by_cases hk : k < n
  · simp only [hk, if_true, show i < n by omega, hj]
    by_cases hkj : k = j
    · subst hkj
      simp only [if_true]
      congr 1
      have := slice_wr_same_arr (wr d (i * es) (slice d (k * es) S)) (slice d (i * es) S) (k * es)
        (by omega)
      rw [l2] at this; exact this
    · by_cases hki : k = i
      · subst hki
        simp only [hkj, if_false, if_true]
        congr 1
        rw [slice_wr_of_disjoint _ _ _ _ _ (by omega) (by omega)]
        have := slice_wr_same_arr d (slice d (j * es) S) (k * es) (by omega)
        rw [l1] at this; exact this
      · simp only [hkj, hki, if_false]
        congr 1
        have hk1 : k * es + es ≤ n * es := mul_step hk
        have d1 : k * es + S ≤ j * es ∨ j * es + S ≤ k * es := by
          rcases Nat.lt_or_gt_of_ne hkj with h | h
          · left; have := mul_step (es := es) h; omega
          · right; have := mul_step (es := es) h; omega
        have d2 : k * es + S ≤ i * es ∨ i * es + S ≤ k * es := by
          rcases Nat.lt_or_gt_of_ne hki with h | h
          · left; have := mul_step (es := es) h; omega
          · right; have := mul_step (es := es) h; omega
        rw [slice_wr_of_disjoint _ _ _ _ _ (by omega) (by omega),
          slice_wr_of_disjoint _ _ _ _ _ (by omega) (by omega)]
  · simp [hk, show ¬ (k = j) by omega, show ¬ (k = i) by omega]

/-! ### what the generated expressions mean -/

/-- the arithmetic content of the sites of one instantiation -/
structure SitesOK (k : SymSites) : Prop where
  symSize_pos : 0 < k.symSize
  infoOff_lt : k.infoOff < k.symSize
  minSize : k.minSize.toNat = k.symSize
  ptrOk : ∀ nul i n, k.ptrOk nul i n = (!nul && decide (i.toNat < n.toNat))
  ptrSmall : ∀ es, k.ptrSmall es = decide (es.toNat < k.symSize)
  ptrOff : ∀ i es, k.ptrOff i es = i * es
  fnlInit : k.fnlInit = 1#32
  p1Index : ∀ f, k.p1Index f = BitVec.setWidth 64 f
  p2Index : ∀ c, k.p2Index c = c
  scan1Cond : ∀ f n, k.scan1Cond f n = decide (f.toNat < n.toNat)
  scan1NonLocal : ∀ b, k.scan1NonLocal b = !(b.toNat / 16 == 0)
  curInit : ∀ f, k.curInit f = BitVec.setWidth 64 (f + 1#32)
  fnlIncr : ∀ f, k.fnlIncr f = f + 1#32
  curIncr : ∀ c, k.curIncr c = c + 1#64
  scan2Cond : ∀ c n, k.scan2Cond c n = decide (c.toNat < n.toNat)
  scan2Local : ∀ b, k.scan2Local b = (b.toNat / 16 == 0)
  both : ∀ f n c, k.both f n c = (decide (f.toNat < n.toNat) && decide (c.toNat < n.toNat))
  forever : k.forever = true
  hasCb : k.hasCb true = true
  cbFirst : ∀ f, k.cbFirst f = BitVec.setWidth 64 f
  cbSecond : ∀ c, k.cbSecond c = c
  setInfo : ∀ f, k.setInfo f = f
  ret : ∀ f, k.ret f = BitVec.setWidth 64 f

theorem shr4_eq_zero (b : BitVec 8) : (b >>> 4 == 0#8) = (b.toNat / 16 == 0) := by
  have : (b >>> 4).toNat = b.toNat / 16 := by
    rw [BitVec.toNat_ushiftRight, Nat.shiftRight_eq_div_pow]
  rw [Bool.eq_iff_iff]
  simp only [beq_iff_eq]
  constructor
  · intro h; rw [← this, h]; rfl
  · intro h; apply BitVec.eq_of_toNat_eq; rw [this, h]; rfl

theorem sites64_ok : SitesOK sites64 where
  symSize_pos := by decide
  infoOff_lt := by decide
  minSize := by decide
  ptrOk := by intro nul i n; simp [sites64, arr64_ptr_ok, BitVec.ult]
  ptrSmall := by
    intro es
    show arr64_ptr_small es = decide (es.toNat < 24)
    simp [arr64_ptr_small, BitVec.ult, sizeof_Elf64_Sym]
  ptrOff := by intro i es; rfl
  fnlInit := rfl
  p1Index := by intro f; rfl
  p2Index := by intro c; rfl
  scan1Cond := by
    intro f n
    have hf : f.toNat % 18446744073709551616 = f.toNat := Nat.mod_eq_of_lt (by have := f.isLt; omega)
    simp [sites64, arr64_scan1_cond, BitVec.ult, hf]
  scan1NonLocal := by
    intro b
    show arr64_scan1_nonlocal arr_conv8 b = _
    rw [arr_scan1_nonlocal_bits, ← shr4_eq_zero]; simp [bne]
  curInit := by intro f; rfl
  fnlIncr := by intro f; rfl
  curIncr := by intro c; rfl
  scan2Cond := by intro c n; simp [sites64, arr64_scan2_cond, BitVec.ult]
  scan2Local := by
    intro b
    show arr64_scan2_local arr_conv8 b = _
    rw [arr_scan2_local_bits, shr4_eq_zero]
  both := by
    intro f n c
    have hf : f.toNat % 18446744073709551616 = f.toNat := Nat.mod_eq_of_lt (by have := f.isLt; omega)
    simp [sites64, arr64_both, BitVec.ult, hf]
  forever := rfl
  hasCb := rfl
  cbFirst := by intro f; rfl
  cbSecond := by intro c; rfl
  setInfo := by intro f; rfl
  ret := by intro f; rfl

theorem sites32_ok : SitesOK sites32 where
  symSize_pos := by decide
  infoOff_lt := by decide
  minSize := by decide
  ptrOk := by intro nul i n; simp [sites32, arr32_ptr_ok, BitVec.ult]
  ptrSmall := by
    intro es
    show arr32_ptr_small es = decide (es.toNat < 16)
    simp [arr32_ptr_small, BitVec.ult, sizeof_Elf32_Sym]
  ptrOff := by intro i es; rfl
  fnlInit := rfl
  p1Index := by intro f; rfl
  p2Index := by intro c; rfl
  scan1Cond := by
    intro f n
    have hf : f.toNat % 18446744073709551616 = f.toNat := Nat.mod_eq_of_lt (by have := f.isLt; omega)
    simp [sites32, arr32_scan1_cond, BitVec.ult, hf]
  scan1NonLocal := by
    intro b
    show arr64_scan1_nonlocal arr_conv8 b = _
    rw [arr_scan1_nonlocal_bits, ← shr4_eq_zero]; simp [bne]
  curInit := by intro f; rfl
  fnlIncr := by intro f; rfl
  curIncr := by intro c; rfl
  scan2Cond := by intro c n; simp [sites32, arr32_scan2_cond, BitVec.ult]
  scan2Local := by
    intro b
    show arr64_scan2_local arr_conv8 b = _
    rw [arr_scan2_local_bits, shr4_eq_zero]
  both := by
    intro f n c
    have hf : f.toNat % 18446744073709551616 = f.toNat := Nat.mod_eq_of_lt (by have := f.isLt; omega)
    simp [sites32, arr32_both, BitVec.ult, hf]
  forever := rfl
  hasCb := rfl
  cbFirst := by intro f; rfl
  cbSecond := by intro c; rfl
  setInfo := by intro f; rfl
  ret := by intro f; rfl

theorem sitesOf_ok (c : Cls) : SitesOK (sitesOf c) := by
  cases c
  · have h : arr_is32 (clsByte .c32) = true := by decide
    simp only [sitesOf, h, if_true]; exact sites32_ok
  · have h : arr_is32 (clsByte .c64) = false := by decide
    simp only [sitesOf, h]; exact sites64_ok

/-! ### well-formed symbol sections -/

/-- A resident symbol section with `n` records of stride `entSize ≥ sizeof(T)`, fewer than
    2^32 - 1 of them (so the 32-bit `first_not_local` never wraps). -/
structure SymWF (k : SymSites) (s : SecBuf) (d : Bytes) (n : Nat) : Prop where
  hk : k = sitesOf s.cls
  data : s.data = some d
  stable : (!s.isLoaded && s.canLoad) = false
  es : k.symSize ≤ s.entSize.toNat
  fits : s.size.toNat ≤ d.length
  stream : s.size.toNat ≤ s.streamSize.toNat
  n_def : n = s.size.toNat / s.entSize.toNat
  small : n < 4294967295

theorem getData_stable {s : SecBuf} (h : (!s.isLoaded && s.canLoad) = false) : s.getData = s := by
  unfold SecBuf.getData; rw [h]; rfl

theorem SymWF.getData {k s d n} (h : SymWF k s d n) : s.getData = s := getData_stable h.stable

theorem SymWF.es_pos {k s d n} (hk : SitesOK k) (h : SymWF k s d n) : 0 < s.entSize.toNat := by
  have := hk.symSize_pos; have := h.es; omega

theorem SymWF.n_mul_le {k s d n} (h : SymWF k s d n) : n * s.entSize.toNat ≤ s.size.toNat := by
  rw [h.n_def]; exact Nat.div_mul_le_self _ _

theorem symbolsNum_min (c : Cls) : minSymSize c = (sitesOf c).minSize := by
  cases c
  · have h : arr_is32 (clsByte .c32) = true := by decide
    simp only [sitesOf, h, if_true]; rfl
  · have h : arr_is32 (clsByte .c64) = false := by decide
    simp only [sitesOf, h]; rfl

theorem symbolsNum_toNat {k s d n} (hk : SitesOK k) (h : SymWF k s d n) :
    (symbolsNum s).toNat = n := by
  unfold symbolsNum
  simp only [symbolsNum_min, ← h.hk]
  have h1 : arr_num_ok s.entSize k.minSize s.size s.streamSize = true := by
    simp only [arr_num_ok, BitVec.ule, Bool.and_eq_true, decide_eq_true_eq, hk.minSize]
    exact ⟨h.es, h.stream⟩
  rw [if_pos h1]
  simp only [arr_num_div, BitVec.toNat_udiv]
  exact h.n_def.symm

theorem symPtr_eq {k s d n} (hk : SitesOK k) (h : SymWF k s d n) (i : BitVec 64)
    (hi : i.toNat < n) : symPtr k s i = (s, some (i.toNat * s.entSize.toNat)) := by
  unfold symPtr
  simp only [h.getData, h.data, Option.isNone_some, hk.ptrOk, symbolsNum_toNat hk h, hi,
    Bool.not_false, Bool.true_and, decide_true, if_true, hk.ptrSmall, hk.ptrOff]
  have h1 : ¬ s.entSize.toNat < k.symSize := by have := h.es; omega
  simp only [h1, decide_false, Bool.false_eq_true, if_false]
  congr 2
  rw [BitVec.toNat_mul]
  have h2 := h.n_mul_le
  have h3 : i.toNat * s.entSize.toNat ≤ n * s.entSize.toNat :=
    Nat.mul_le_mul_right _ (Nat.le_of_lt hi)
  have h4 := s.size.isLt
  simp only [Nat.reducePow] at h4 ⊢
  exact Nat.mod_eq_of_lt (by omega)

/-- the st_info byte of record `i` -/
theorem readInfo_eq {k s d n} (hk : SitesOK k) (h : SymWF k s d n) (site : String) (i : Nat)
    (hi : i < n) :
    ∃ b : BitVec 8, readInfo site k s (some (i * s.entSize.toNat)) = .ok b ∧
      (b.toNat / 16 == 0) = isLocalRec k.infoOff (slice d (i * s.entSize.toNat) k.symSize) := by
  have h2 := h.n_mul_le
  have h3 : i * s.entSize.toNat + s.entSize.toNat ≤ n * s.entSize.toNat := mul_step hi
  have h4 := hk.infoOff_lt
  have h5 := h.es
  have h6 := h.fits
  unfold readInfo
  simp only [h.data]
  rw [rdRange_some_ok (by omega)]
  refine ⟨_, rfl, ?_⟩
  unfold isLocalRec
  have e1 : (slice d (i * s.entSize.toNat + k.infoOff) 1).headD 0
      = (d[i * s.entSize.toNat + k.infoOff]?).getD 0 := by
    rw [List.headD_eq_head?_getD, List.head?_eq_getElem?, slice_getElem?]; simp
  have e2 : (slice d (i * s.entSize.toNat) k.symSize).getD k.infoOff 0
      = (d[i * s.entSize.toNat + k.infoOff]?).getD 0 := by
    rw [List.getD_eq_getElem?_getD, slice_getElem?, if_pos h4]
  rw [e1, e2]
  rfl

/-! ### the two inner scans -/

theorem scan1_refines {k s d n} (hk : SitesOK k) (h : SymWF k s d n) :
    ∀ fuel (f : BitVec 32) (p1 : Option Nat), n < f.toNat + fuel → 0 < fuel →
      f.toNat < 4294967295 →
      ∃ f' p1', scan1 k fuel s (symbolsNum s) f p1 = .ok (s, f', p1') ∧
        f'.toNat = Arr.scan (fun r => !isLocalRec k.infoOff r)
          (table d s.entSize.toNat k.symSize n) fuel f.toNat ∧
        (f'.toNat < n → p1' = some (f'.toNat * s.entSize.toNat)) ∧ f'.toNat < 4294967295 := by
  intro fuel
  induction fuel with
  | zero => intro f p1 _ h0; omega
  | succ fuel ih =>
    intro f p1 hfuel _ hf
    simp only [scan1, Arr.scan, hk.scan1Cond, symbolsNum_toNat hk h, table_getElem?]
    by_cases hlt : f.toNat < n
    · have hidx : (k.p1Index f).toNat = f.toNat := by
        rw [hk.p1Index, BitVec.toNat_setWidth]
        exact Nat.mod_eq_of_lt (by have := f.isLt; omega)
      have hp := symPtr_eq hk h (k.p1Index f) (by rw [hidx]; exact hlt)
      rw [hidx] at hp
      obtain ⟨b, hb, hloc⟩ := readInfo_eq hk h "arrange_local_symbols/p1->st_info" f.toNat hlt
      simp only [hlt, decide_true, if_true, hp, hb, hk.scan1NonLocal, hloc, hk.fnlIncr]
      by_cases hl : isLocalRec k.infoOff (slice d (f.toNat * s.entSize.toNat) k.symSize) = true
      · simp only [hl, Bool.not_true, Bool.false_eq_true, if_false]
        have hf1 : (f + 1#32).toNat = f.toNat + 1 := by
          rw [BitVec.toNat_add]
          simp only [BitVec.toNat_ofNat, Nat.reducePow, Nat.reduceMod]
          omega
        obtain ⟨f', p1', e1, e2, e3, e4⟩ := ih (f + 1#32) (some (f.toNat * s.entSize.toNat))
          (by rw [hf1]; omega) (by omega) (by rw [hf1]; have := h.small; omega)
        rw [hf1] at e2
        exact ⟨f', p1', e1, e2, e3, e4⟩
      · have hl' : isLocalRec k.infoOff (slice d (f.toNat * s.entSize.toNat) k.symSize) = false := by
          simpa using hl
        simp only [hl', Bool.not_false, if_true]
        exact ⟨f, _, rfl, rfl, fun _ => rfl, hf⟩
    · simp only [hlt, decide_false, Bool.false_eq_true, if_false]
      exact ⟨f, p1, rfl, rfl, fun h' => absurd h' hlt, hf⟩

theorem scan2_refines {k s d n} (hk : SitesOK k) (h : SymWF k s d n) :
    ∀ fuel (c : BitVec 64) (p2 : Option Nat), n < c.toNat + fuel → 0 < fuel →
      c.toNat < 4294967296 →
      ∃ c' p2', scan2 k fuel s (symbolsNum s) c p2 = .ok (s, c', p2') ∧
        c'.toNat = Arr.scan (fun r => isLocalRec k.infoOff r)
          (table d s.entSize.toNat k.symSize n) fuel c.toNat ∧
        (c'.toNat < n → p2' = some (c'.toNat * s.entSize.toNat)) := by
  intro fuel
  induction fuel with
  | zero => intro c p2 _ h0; omega
  | succ fuel ih =>
    intro c p2 hfuel _ hc
    simp only [scan2, Arr.scan, hk.scan2Cond, symbolsNum_toNat hk h, table_getElem?]
    by_cases hlt : c.toNat < n
    · have hidx : (k.p2Index c).toNat = c.toNat := by rw [hk.p2Index]
      have hp := symPtr_eq hk h (k.p2Index c) (by rw [hidx]; exact hlt)
      rw [hidx] at hp
      obtain ⟨b, hb, hloc⟩ := readInfo_eq hk h "arrange_local_symbols/p2->st_info" c.toNat hlt
      simp only [hlt, decide_true, if_true, hp, hb, hk.scan2Local, hloc, hk.curIncr]
      by_cases hl : isLocalRec k.infoOff (slice d (c.toNat * s.entSize.toNat) k.symSize) = true
      · simp only [hl, if_true]
        exact ⟨c, _, rfl, rfl, fun _ => rfl⟩
      · have hl' : isLocalRec k.infoOff (slice d (c.toNat * s.entSize.toNat) k.symSize) = false := by
          simpa using hl
        simp only [hl', Bool.false_eq_true, if_false]
        have hc1 : (c + 1#64).toNat = c.toNat + 1 := by
          rw [BitVec.toNat_add]
          simp only [BitVec.toNat_ofNat, Nat.reducePow, Nat.reduceMod]
          have := h.small
          omega
        obtain ⟨c', p2', e1, e2, e3⟩ := ih (c + 1#64) (some (c.toNat * s.entSize.toNat))
          (by rw [hc1]; omega) (by omega) (by rw [hc1]; have := h.small; omega)
        rw [hc1] at e2
        exact ⟨c', p2', e1, e2, e3⟩
    · simp only [hlt, decide_false, Bool.false_eq_true, if_false]
      exact ⟨c, p2, rfl, rfl, fun h' => absurd h' hlt⟩

/-! ### `std::swap` -/

theorem swapRecs_refines {k s d n} (h : SymWF k s d n) (i j : Nat)
    (hij : i < j) (hj : j < n) :
    ∃ d', swapRecs k s (some (i * s.entSize.toNat)) (some (j * s.entSize.toNat))
        = .ok { s with data := some d' } ∧
      SymWF k { s with data := some d' } d' n ∧
      table d' s.entSize.toNat k.symSize n
        = Arr.swapAt (table d s.entSize.toNat k.symSize n) i j := by
  have h2 := h.n_mul_le
  have h3 : j * s.entSize.toNat + s.entSize.toNat ≤ n * s.entSize.toNat := mul_step hj
  have h4 : i * s.entSize.toNat + s.entSize.toNat ≤ j * s.entSize.toNat := mul_step hij
  have h5 := h.es
  have h6 := h.fits
  have l1 : (slice d (j * s.entSize.toNat) k.symSize).length = k.symSize := by
    rw [slice_length]; omega
  have l2 : (slice d (i * s.entSize.toNat) k.symSize).length = k.symSize := by
    rw [slice_length]; omega
  have w1 : (wr d (i * s.entSize.toNat) (slice d (j * s.entSize.toNat) k.symSize)).length
      = d.length := wr_length _ _ _ (by omega)
  refine ⟨wr (wr d (i * s.entSize.toNat) (slice d (j * s.entSize.toNat) k.symSize))
    (j * s.entSize.toNat) (slice d (i * s.entSize.toNat) k.symSize), ?_, ?_, ?_⟩
  · unfold swapRecs
    simp only [h.data]
    rw [rdRange_some_ok (by omega), rdRange_some_ok (by omega)]
    simp only
    rw [wrRange_some_ok (by omega)]
    simp only
    rw [wrRange_some_ok (by omega)]
  · exact { hk := h.hk, data := rfl, stable := h.stable, es := h.es,
            fits := by
              show s.size.toNat ≤ _
              rw [wr_length _ _ _ (by omega), w1]; exact h6
            stream := h.stream, n_def := h.n_def, small := h.small }
  · exact table_swap d s.entSize.toNat k.symSize n i j h5 hij hj (by omega)

/-! ### the outer loop -/

theorem SymWF.eta {k s d n} (h : SymWF k s d n) : { s with data := some d } = s := by
  have := h.data
  cases s
  simp_all

/-- **Refinement**: on a well-formed section the byte-level loop succeeds whenever the abstract
    loop does, and ends in exactly the abstract result: same table, same cursor, related callback
    state; only `data` and `info` of the section change. -/
theorem loop_refines {σb σa : Type} {k : SymSites} (hk : SitesOK k) (n : Nat)
    (cbB : σb → BitVec 64 → BitVec 64 → M σb) (cbA : σa → Nat → Nat → σa) (R : σb → σa → Prop)
    (hcb : ∀ stb sta (i j : BitVec 64), R stb sta → i.toNat < j.toNat → j.toNat < n →
      ∃ stb', cbB stb i j = .ok stb' ∧ R stb' (cbA sta i.toNat j.toNat)) :
    ∀ fuel (s : SecBuf) (d : Bytes) (stb : σb) (sta : σa) (f : BitVec 32),
      SymWF k s d n → R stb sta → f.toNat < 4294967295 →
      ∀ l' sta' r,
        Arr.absLoop (isLocalRec k.infoOff) cbA fuel (table d s.entSize.toNat k.symSize n) sta f.toNat
          = some (l', sta', r) →
        ∃ d' stb' f',
          loop k cbB fuel s stb (symbolsNum s) f
            = .ok ({ s with data := some d', info := k.setInfo f' }, stb', f') ∧
          f'.toNat = r ∧ table d' s.entSize.toNat k.symSize n = l' ∧ R stb' sta' ∧
          SymWF k { s with data := some d' } d' n := by
  intro fuel
  induction fuel with
  | zero => intro s d stb sta f _ _ _ l' sta' r h; simp [Arr.absLoop] at h
  | succ fuel ih =>
    intro s d stb sta f hwf hR hf l' sta' r habs
    simp only [Arr.absLoop, table_length] at habs
    simp only [loop, hk.forever, hk.hasCb, Bool.not_true, Bool.false_eq_true, if_false, if_true,
      symbolsNum_toNat hk hwf]
    obtain ⟨f1, p1, e1, e2, e3, e4⟩ := scan1_refines hk hwf (n + 1) f none (by omega) (by omega) hf
    rw [e1]
    simp only
    have hci : (k.curInit f1).toNat = f1.toNat + 1 := by
      rw [hk.curInit, BitVec.toNat_setWidth, BitVec.toNat_add]
      simp only [BitVec.toNat_ofNat, Nat.reducePow, Nat.reduceMod]
      omega
    obtain ⟨c2, p2, g1, g2, g3⟩ := scan2_refines hk hwf (n + 1) (k.curInit f1) none
      (by omega) (by omega) (by omega)
    rw [g1]
    simp only [hk.both, symbolsNum_toNat hk hwf]
    rw [hci] at g2
    rw [← e2, ← g2] at habs
    by_cases hboth : f1.toNat < n ∧ c2.toNat < n
    · obtain ⟨hb1, hb2⟩ := hboth
      rw [if_pos ⟨hb1, hb2⟩] at habs
      simp only [hb1, hb2, decide_true, Bool.and_self, if_true]
      have hfc : f1.toNat < c2.toNat := by
        have := (Arr.scan_spec (fun r => isLocalRec k.infoOff r)
          (table d s.entSize.toNat k.symSize n) (n + 1) (f1.toNat + 1) (by rw [table_length]; omega)).1
        omega
      have hcf : (k.cbFirst f1).toNat = f1.toNat := by
        rw [hk.cbFirst, BitVec.toNat_setWidth]
        exact Nat.mod_eq_of_lt (by omega)
      obtain ⟨stb1, hc1, hR1⟩ := hcb stb sta (k.cbFirst f1) (k.cbSecond c2) hR
        (by rw [hcf, hk.cbSecond]; exact hfc) (by rw [hk.cbSecond]; exact hb2)
      rw [hcf, hk.cbSecond] at hR1
      rw [hc1]
      simp only
      rw [e3 hb1, g3 hb2]
      obtain ⟨d1, hs1, hwf1, ht1⟩ := swapRecs_refines hwf f1.toNat c2.toNat hfc hb2
      rw [hs1]
      simp only
      rw [← ht1] at habs
      obtain ⟨d', stb', f', r1, r2, r3, r4, r5⟩ :=
        ih { s with data := some d1 } d1 stb1 _ f1 hwf1 hR1 e4 l' sta' r habs
      exact ⟨d', stb', f', r1, r2, r3, r4, r5⟩
    · have hb : (decide (f1.toNat < n) && decide (c2.toNat < n)) = false := by
        simpa using hboth
      rw [if_neg hboth] at habs
      simp only [Option.some.injEq, Prod.mk.injEq] at habs
      obtain ⟨rfl, rfl, rfl⟩ := habs
      simp only [hb, Bool.false_eq_true, if_false]
      refine ⟨d, stb, f1, ?_, rfl, rfl, hR, ?_⟩
      · simp only [hwf.data]
      · rw [hwf.eta]; exact hwf

end Arrange
end ElfioVerif
