/-
The monotone cursor argument for the three layout passes of `elfio::save`
(Model/Writer.lean: `layoutSegment`/`wsdLoop`, `layoutLoose`, the section table):
every placement happens at the current cursor, which is ≥ the end of every earlier range,
and sections that were already generated are never placed again.

No-wrap hypotheses are Bool-valued functions that follow the recursion of the pass they talk
about and demand that every 64-bit cursor update `p ↦ p + d` satisfies `p.toNat ≤ (p + d).toNat`
(for a single addition that is equivalent to `p.toNat + d.toNat < 2^64`, see `bv_add_toNat_of_le`)
and that every offset stored in an ELF32 header field fits 32 bits (`fitsB`).
-/
import ElfioVerif.Model.Writer
import ElfioVerif.Lemmas.WriterSites
import ElfioVerif.Lemmas.RelocSwap
namespace ElfioVerif
open Gen

/-! ### arithmetic -/

theorem bv_add_toNat_of_le (p d : BitVec 64) (h : p.toNat ≤ (p + d).toNat) :
    (p + d).toNat = p.toNat + d.toNat := by
  have h1 := p.isLt; have h2 := d.isLt
  simp only [BitVec.toNat_add, Nat.reducePow] at h ⊢
  omega

theorem bv_add_le_iff (p d : BitVec 64) :
    p.toNat ≤ (p + d).toNat ↔ p.toNat + d.toNat < 18446744073709551616 := by
  have h1 := p.isLt; have h2 := d.isLt
  simp only [BitVec.toNat_add, Nat.reducePow]
  omega

theorem align_up_mod (p a : Nat) (ha : 0 < a) : (p + (a - p % a)) % a = 0 := by
  have h := Nat.div_add_mod p a
  have hlt := Nat.mod_lt p ha
  have : p + (a - p % a) = a * (p / a + 1) := by rw [Nat.mul_add, Nat.mul_one]; omega
  rw [this]; exact Nat.mul_mod_right _ _

/-- the value fits the class's offset field -/
def fitsB (c : Cls) (v : BitVec 64) : Bool :=
  match c with | .c32 => decide (v.toNat < 4294967296) | .c64 => true

theorem truncA_of_fits (c : Cls) (v : BitVec 64) (h : fitsB c v = true) : truncA c v = v := by
  cases c with
  | c64 => rfl
  | c32 =>
    simp only [fitsB, decide_eq_true_eq] at h
    apply BitVec.eq_of_toNat_eq
    simp only [truncA, BitVec.toNat_setWidth, Nat.reducePow]
    have := v.isLt
    omega

/-! ### sections as file ranges -/

namespace SecBuf

/-- occupies file space and is not empty: `[offset, offset+size)` is written by `save` -/
def Occ (s : SecBuf) : Prop :=
  s.stype ≠ BitVec.ofNat 32 SHT_NOBITS ∧ s.stype ≠ BitVec.ofNat 32 SHT_NULL ∧ s.size ≠ 0

instance (s : SecBuf) : Decidable s.Occ := by unfold Occ; infer_instance

/-- end of the file range, as a natural number (no wrap-around) -/
def endN (s : SecBuf) : Nat := s.offset.toNat + s.size.toNat

/-- `s'` is `s` up to the three fields the layout passes assign -/
def Moved (s s' : SecBuf) : Prop :=
  s' = { s with addr := s'.addr, addrSet := s'.addrSet, offset := s'.offset }

theorem Moved.refl (s : SecBuf) : Moved s s := rfl
theorem Moved.trans {a b c : SecBuf} (h1 : Moved a b) (h2 : Moved b c) : Moved a c := by
  unfold Moved at *; rw [h2, h1]
theorem Moved.stype {a b : SecBuf} (h : Moved a b) : b.stype = a.stype := by rw [h]
theorem Moved.size {a b : SecBuf} (h : Moved a b) : b.size = a.size := by rw [h]
theorem Moved.index {a b : SecBuf} (h : Moved a b) : b.index = a.index := by rw [h]
theorem Moved.flags {a b : SecBuf} (h : Moved a b) : b.flags = a.flags := by rw [h]
theorem Moved.addrAlign {a b : SecBuf} (h : Moved a b) : b.addrAlign = a.addrAlign := by rw [h]
theorem Moved.occ {a b : SecBuf} (h : Moved a b) : b.Occ ↔ a.Occ := by
  unfold Occ; rw [h.stype, h.size]

end SecBuf

theorem setOffset_moved (c : Cls) (s : SecBuf) (v : BitVec 64) : SecBuf.Moved s (setOffset c s v) := by
  unfold setOffset SecBuf.Moved; split <;> rfl

theorem setOffset_offset (c : Cls) (s : SecBuf) (v : BitVec 64) (hi : s.index ≠ 0) (hf : fitsB c v = true) :
    (setOffset c s v).offset = v := by
  rw [setOffset_eq]
  have : (s.index != 0) = true := by simpa using hi
  simp only [this, if_true]
  exact truncA_of_fits c v hf

/-- `lsws_occupies` in terms of `Occ` -/
theorem lsws_occupies_of_occ {s : SecBuf} (h : s.Occ) : lsws_occupies s.stype = true := by
  obtain ⟨h1, h2, -⟩ := h
  simp only [lsws_occupies, Bool.and_eq_true, bne_iff_ne, ne_eq]
  exact ⟨fun e => h1 e.symm, fun e => h2 e.symm⟩

/-! ### pass 3: `layout_sections_without_segments` -/

/-- `layoutLoose` without the accumulator -/
def looseSpec (c : Cls) (segs : List Seg) : List SecBuf → Nat → BitVec 64 → List SecBuf × BitVec 64
  | [], _, pos => ([], pos)
  | s :: rest, i, pos =>
    if withoutSegment segs i then
      let pos1 := if lsws_need_align s.addrAlign pos then lsws_aligned pos s.addrAlign else pos
      let s' := setOffset c s pos1
      let pos2 := if lsws_occupies s'.stype then wsd_advance pos1 s'.size else pos1
      let r := looseSpec c segs rest (i + 1) pos2
      (s' :: r.1, r.2)
    else
      let r := looseSpec c segs rest (i + 1) pos
      (s :: r.1, r.2)

theorem layoutLoose_eq_spec (c : Cls) (segs : List Seg) (l : List SecBuf) (i : Nat) (pos : BitVec 64)
    (acc : List SecBuf) :
    layoutLoose c segs l i pos acc =
      (acc.reverse ++ (looseSpec c segs l i pos).1, (looseSpec c segs l i pos).2) := by
  induction l generalizing i pos acc with
  | nil => simp [layoutLoose, looseSpec]
  | cons s rest ih =>
    unfold layoutLoose looseSpec
    simp only [lsws_advance_eq, setOffsetLoose_eq]
    split
    · simp only [ih, List.reverse_cons, List.append_assoc, List.singleton_append] <;> rfl
    · simp only [ih, List.reverse_cons, List.append_assoc, List.singleton_append]

/-- no wrap-around (and ELF32 fit) along `layout_sections_without_segments` -/
def looseNW (c : Cls) (segs : List Seg) : List SecBuf → Nat → BitVec 64 → Bool
  | [], _, _ => true
  | s :: rest, i, pos =>
    if withoutSegment segs i then
      let pos1 := if lsws_need_align s.addrAlign pos then lsws_aligned pos s.addrAlign else pos
      let pos2 := if lsws_occupies s.stype then wsd_advance pos1 s.size else pos1
      decide (pos.toNat ≤ pos1.toNat) && decide (pos1.toNat ≤ pos2.toNat) && fitsB c pos1 &&
        looseNW c segs rest (i + 1) pos2
    else looseNW c segs rest (i + 1) pos

/-- the aligned cursor is a multiple of the alignment -/
theorem lsws_aligned_mod (pos al : BitVec 64)
    (hle : pos.toNat ≤ (if lsws_need_align al pos then lsws_aligned pos al else pos).toNat) :
    (if lsws_need_align al pos then lsws_aligned pos al else pos).toNat % (max al.toNat 1) = 0 := by
  have hp := pos.isLt; have ha := al.isLt
  have e0 : (BitVec.signExtend 64 0#32) = 0#64 := by decide
  have e1 : (BitVec.signExtend 64 1#32) = 1#64 := by decide
  by_cases hn : lsws_need_align al pos = true
  · simp only [hn, if_true] at hle ⊢
    simp only [lsws_need_align, e0, e1, Bool.and_eq_true, BitVec.ult, decide_eq_true_eq,
      bne_iff_ne, ne_eq, BitVec.toNat_ofNat, Nat.reducePow, Nat.reduceMod] at hn
    have hmod : (pos % al).toNat = pos.toNat % al.toNat := BitVec.toNat_umod
    have hlt : pos.toNat % al.toNat < al.toNat := Nat.mod_lt _ (by omega)
    have hsub : (al - pos % al).toNat = al.toNat - pos.toNat % al.toNat := by
      simp only [BitVec.toNat_sub, hmod, Nat.reducePow]; omega
    unfold lsws_aligned at hle ⊢
    rw [bv_add_toNat_of_le _ _ hle, hsub]
    rw [show max al.toNat 1 = al.toNat by omega]
    exact align_up_mod _ _ (by omega)
  · have hn' : lsws_need_align al pos = false := by simpa using hn
    simp only [hn', Bool.false_eq_true, if_false]
    simp only [lsws_need_align, e0, e1, Bool.and_eq_false_iff, BitVec.ult, decide_eq_false_iff_not,
      bne_eq_false_iff_eq, BitVec.toNat_ofNat, Nat.reducePow, Nat.reduceMod] at hn'
    rcases hn' with h | h
    · have : al.toNat = 0 ∨ al.toNat = 1 := by omega
      rcases this with h0 | h0 <;> simp [h0, Nat.mod_one]
    · have hmod : (pos % al).toNat = pos.toNat % al.toNat := BitVec.toNat_umod
      rw [h] at hmod
      simp only [BitVec.toNat_ofNat, Nat.reducePow, Nat.zero_mod] at hmod
      by_cases h1 : al.toNat = 0
      · simp [h1, Nat.mod_one]
      · rw [show max al.toNat 1 = al.toNat by omega]; exact hmod.symm

/-- Everything `layout_sections_without_segments` does, position by position.
    For the list `l` (whose first element is section number `i`), cursor `pos`:
    the output has the same length; a section inside a segment is untouched; a loose section
    is `Moved`, and if its index is not 0 it starts at or after the incoming cursor at a multiple
    of its alignment and ends (if it occupies file space) before the outgoing cursor; a loose
    section placed later starts after the end of one placed earlier. -/
theorem looseSpec_facts (c : Cls) (segs : List Seg) (l : List SecBuf) (i : Nat) (pos : BitVec 64)
    (hnw : looseNW c segs l i pos = true) :
    let r := looseSpec c segs l i pos
    r.1.length = l.length ∧ pos.toNat ≤ r.2.toNat ∧
    (∀ (k : Nat) (s : SecBuf), l[k]? = some s → withoutSegment segs (i + k) = false → r.1[k]? = some s) ∧
    (∀ (k : Nat) (s : SecBuf), l[k]? = some s → withoutSegment segs (i + k) = true →
      ∃ s', r.1[k]? = some s' ∧ SecBuf.Moved s s' ∧ s'.addr = s.addr ∧ s'.addrSet = s.addrSet ∧
        (s.index ≠ 0 →
          pos.toNat ≤ s'.offset.toNat ∧ s'.offset.toNat ≤ r.2.toNat ∧
          s'.offset.toNat % (max s.addrAlign.toNat 1) = 0 ∧
          (lsws_occupies s.stype = true → s'.endN ≤ r.2.toNat))) ∧
    (∀ (k1 k2 : Nat) (a b a' b' : SecBuf), k1 < k2 → l[k1]? = some a → l[k2]? = some b →
      withoutSegment segs (i + k1) = true → withoutSegment segs (i + k2) = true →
      r.1[k1]? = some a' → r.1[k2]? = some b' → a.index ≠ 0 → b.index ≠ 0 →
      a'.offset.toNat ≤ b'.offset.toNat ∧ (lsws_occupies a.stype = true → a'.endN ≤ b'.offset.toNat)) := by
  induction l generalizing i pos with
  | nil => simp [looseSpec]
  | cons s rest ih =>
    by_cases hw : withoutSegment segs i = true
    · -- placed
      unfold looseNW at hnw
      simp only [hw, if_true, Bool.and_eq_true, decide_eq_true_eq] at hnw
      obtain ⟨⟨⟨h01, h12⟩, hfit⟩, hrest⟩ := hnw
      have hst : (setOffset c s (if lsws_need_align s.addrAlign pos then lsws_aligned pos s.addrAlign else pos)).stype = s.stype :=
        (setOffset_moved c s _).stype
      have hsz : (setOffset c s (if lsws_need_align s.addrAlign pos then lsws_aligned pos s.addrAlign else pos)).size = s.size :=
        (setOffset_moved c s _).size
      unfold looseSpec
      simp only [hw, if_true, hst, hsz]
      generalize hp1 : (if lsws_need_align s.addrAlign pos then lsws_aligned pos s.addrAlign else pos) = pos1 at *
      generalize hp2 : (if lsws_occupies s.stype then wsd_advance pos1 s.size else pos1) = pos2 at *
      obtain ⟨ihlen, ihmono, ihun, ihpl, ihord⟩ := ih (i + 1) pos2 hrest
      have halign : pos1.toNat % (max s.addrAlign.toNat 1) = 0 := by
        rw [← hp1]; apply lsws_aligned_mod; rw [hp1]; exact h01
      have hend : lsws_occupies s.stype = true → pos1.toNat + s.size.toNat = pos2.toNat := by
        intro ho
        rw [← hp2]; simp only [ho, if_true, wsd_advance]
        have : pos1.toNat ≤ (pos1 + s.size).toNat := by
          have := h12; rw [← hp2] at this; simpa only [ho, if_true, wsd_advance] using this
        rw [bv_add_toNat_of_le _ _ this]
      refine ⟨by simp [ihlen], by omega, ?_, ?_, ?_⟩
      · intro k t hk hwk
        cases k with
        | zero => simp only [Nat.add_zero] at hwk; rw [hw] at hwk; exact Bool.noConfusion hwk
        | succ k =>
          simp only [List.getElem?_cons_succ] at hk ⊢
          exact ihun k t hk (by rw [show i + 1 + k = i + (k + 1) by omega]; exact hwk)
      · intro k t hk hwk
        cases k with
        | zero =>
          simp only [List.getElem?_cons_zero, Option.some.injEq] at hk
          subst hk
          refine ⟨setOffset c s pos1, by simp, setOffset_moved c s pos1, ?_, ?_, ?_⟩
          · unfold setOffset; split <;> rfl
          · unfold setOffset; split <;> rfl
          · intro hidx
            have ho : (setOffset c s pos1).offset = pos1 := setOffset_offset c s pos1 hidx hfit
            refine ⟨by rw [ho]; exact h01, by rw [ho]; omega, by rw [ho]; exact halign, ?_⟩
            intro hocc
            unfold SecBuf.endN; rw [ho, hsz, hend hocc]; exact ihmono
        | succ k =>
          simp only [List.getElem?_cons_succ] at hk ⊢
          obtain ⟨s', h1, h2, h3, h4, h5⟩ := ihpl k t hk (by rw [show i + 1 + k = i + (k + 1) by omega]; exact hwk)
          refine ⟨s', h1, h2, h3, h4, ?_⟩
          intro hidx
          obtain ⟨g1, g2, g3, g4⟩ := h5 hidx
          exact ⟨by omega, g2, g3, g4⟩
      · intro k1 k2 a b a' b' hlt hk1 hk2 hw1 hw2 ha' hb' hia hib
        obtain ⟨k2', rfl⟩ : ∃ k, k2 = k + 1 := ⟨k2 - 1, by omega⟩
        simp only [List.getElem?_cons_succ] at hk2 hb'
        have hw2' : withoutSegment segs (i + 1 + k2') = true := by
          rw [show i + 1 + k2' = i + (k2' + 1) by omega]; exact hw2
        cases k1 with
        | zero =>
          simp only [List.getElem?_cons_zero, Option.some.injEq] at hk1 ha'
          subst hk1; subst ha'
          obtain ⟨s', h1, h2, h3, h4, h5⟩ := ihpl k2' b hk2 hw2'
          rw [h1] at hb'; simp only [Option.some.injEq] at hb'; subst hb'
          obtain ⟨g1, g2, g3, g4⟩ := h5 hib
          have ho : (setOffset c s pos1).offset = pos1 := setOffset_offset c s pos1 hia hfit
          refine ⟨by rw [ho]; omega, ?_⟩
          intro hocc
          unfold SecBuf.endN; rw [ho, hsz, hend hocc]; exact g1
        | succ k1' =>
          simp only [List.getElem?_cons_succ] at hk1 ha'
          exact ihord k1' k2' a b a' b' (by omega) hk1 hk2
            (by rw [show i + 1 + k1' = i + (k1' + 1) by omega]; exact hw1) hw2' ha' hb' hia hib
    · -- inside a segment: skipped
      have hw' : withoutSegment segs i = false := by simpa using hw
      unfold looseNW at hnw
      simp only [hw', Bool.false_eq_true, if_false] at hnw
      unfold looseSpec
      simp only [hw', Bool.false_eq_true, if_false]
      obtain ⟨ihlen, ihmono, ihun, ihpl, ihord⟩ := ih (i + 1) pos hnw
      refine ⟨by simp [ihlen], ihmono, ?_, ?_, ?_⟩
      · intro k t hk hwk
        cases k with
        | zero => simpa using hk
        | succ k =>
          simp only [List.getElem?_cons_succ] at hk ⊢
          exact ihun k t hk (by rw [show i + 1 + k = i + (k + 1) by omega]; exact hwk)
      · intro k t hk hwk
        cases k with
        | zero => simp only [Nat.add_zero] at hwk; rw [hw'] at hwk; exact Bool.noConfusion hwk
        | succ k =>
          simp only [List.getElem?_cons_succ] at hk ⊢
          exact ihpl k t hk (by rw [show i + 1 + k = i + (k + 1) by omega]; exact hwk)
      · intro k1 k2 a b a' b' hlt hk1 hk2 hw1 hw2 ha' hb' hia hib
        obtain ⟨k2', rfl⟩ : ∃ k, k2 = k + 1 := ⟨k2 - 1, by omega⟩
        cases k1 with
        | zero => simp only [Nat.add_zero] at hw1; rw [hw'] at hw1; exact Bool.noConfusion hw1
        | succ k1' =>
          simp only [List.getElem?_cons_succ] at hk1 ha' hk2 hb'
          exact ihord k1' k2' a b a' b' (by omega) hk1 hk2
            (by rw [show i + 1 + k1' = i + (k1' + 1) by omega]; exact hw1)
            (by rw [show i + 1 + k2' = i + (k2' + 1) by omega]; exact hw2) ha' hb' hia hib

/-! ### pass 2: `write_segment_data` -/

/-- `section_align` of one member (`none`: the save is aborted) — the gap expression of `wsdStep` -/
def wsdGap (g : Seg) (segStart pos file : BitVec 64) (sec : SecBuf) (generated : Bool) : Option (BitVec 64) :=
  if wsd_addr_branch generated sec.addrSet sec.stype sec.size then
    let req := wsd_req_offset sec.addr g.vaddr
    let cur := wsd_cur_offset pos segStart
    if wsd_req_lt_cur req cur then none else some (wsd_gap_addr req cur)
  else if wsd_align_branch generated sec.addrSet then
    let al := if wsd_align_zero sec.addrAlign then 1 else sec.addrAlign
    some (wsd_gap_align al (wsd_error pos al))
  else if generated then some (wsd_gap_generated sec.offset segStart file)
  else some 0

/-- placing a not yet generated member after the gap: the new section and the new cursor -/
def wsdPlace (c : Cls) (g : Seg) (segStart pos gap : BitVec 64) (sec : SecBuf) : SecBuf × BitVec 64 :=
  let pos := wsd_cursor_gap pos gap
  let sec := if !sec.addrSet then
      { sec with addr := truncA c (wsd_new_addr g.vaddr pos segStart), addrSet := true } else sec
  let sec := setOffset c sec pos
  let pos := if wsd_counts_file sec.stype then wsd_advance pos sec.size else pos
  (sec, pos)

theorem wsdStep_eq (c : Cls) (g : Seg) (segStart : BitVec 64) (st : WsdSt) (idx : BitVec 16) :
    wsdStep c g segStart st idx =
    match st.lay.secs[idx.toNat]?, st.lay.gen[idx.toNat]? with
    | none, _ => throw (.nullDeref "write_segment_data/sections[index]")
    | _, none => throw (.vecOob "write_segment_data/section_generated[index]")
    | some sec, some generated =>
      if wsd_is_null sec.stype then
        pure (some { st with lay := { st.lay with gen := st.lay.gen.set idx.toNat true } })
      else
      match wsdGap g segStart st.lay.pos st.file sec generated with
      | none => pure none
      | some gap =>
        let mem := if wsd_counts_mem sec.flags g.stype sec.stype then wsd_mem_add st.mem sec.size gap else st.mem
        let file := if wsd_counts_file sec.stype then wsd_file_add st.file sec.size gap else st.file
        if generated then pure (some { st with mem := mem, file := file }) else
        let p := wsdPlace c g segStart st.lay.pos gap sec
        pure (some { lay := { secs := st.lay.secs.set idx.toNat p.1, pos := p.2,
                              gen := st.lay.gen.set idx.toNat true }, mem := mem, file := file }) := by
  unfold wsdStep wsdGap wsdPlace
  rfl

theorem wsdPlace_moved (c : Cls) (g : Seg) (segStart pos gap : BitVec 64) (sec : SecBuf) :
    SecBuf.Moved sec (wsdPlace c g segStart pos gap sec).1 := by
  unfold wsdPlace
  simp only
  refine SecBuf.Moved.trans ?_ (setOffset_moved c _ _)
  split
  · rfl
  · exact SecBuf.Moved.refl _

theorem wsdPlace_facts (c : Cls) (g : Seg) (segStart pos gap : BitVec 64) (sec : SecBuf)
    (hidx : sec.index ≠ 0)
    (h01 : pos.toNat ≤ (wsd_cursor_gap pos gap).toNat)
    (h12 : (wsd_cursor_gap pos gap).toNat ≤ (wsdPlace c g segStart pos gap sec).2.toNat)
    (hfit : fitsB c (wsd_cursor_gap pos gap) = true) :
    (wsdPlace c g segStart pos gap sec).1.offset = pos + gap ∧
    (pos + gap).toNat = pos.toNat + gap.toNat ∧
    (wsdPlace c g segStart pos gap sec).2.toNat =
      pos.toNat + gap.toNat + (if wsd_counts_file sec.stype then sec.size.toNat else 0) ∧
    (wsdPlace c g segStart pos gap sec).1.addr =
      (if sec.addrSet then sec.addr else truncA c (g.vaddr + (pos + gap) - segStart)) := by
  have key : ∀ sa : SecBuf, sa.index = sec.index → sa.stype = sec.stype → sa.size = sec.size →
      (pos + gap).toNat ≤ (if wsd_counts_file (setOffset c sa (pos + gap)).stype = true then
          wsd_advance (pos + gap) (setOffset c sa (pos + gap)).size else pos + gap).toNat →
      (setOffset c sa (pos + gap)).offset = pos + gap ∧
      (pos + gap).toNat = pos.toNat + gap.toNat ∧
      (if wsd_counts_file (setOffset c sa (pos + gap)).stype = true then
          wsd_advance (pos + gap) (setOffset c sa (pos + gap)).size else pos + gap).toNat =
        pos.toNat + gap.toNat + (if wsd_counts_file sec.stype then sec.size.toNat else 0) ∧
      (setOffset c sa (pos + gap)).addr = sa.addr := by
    intro sa hsai hsat hsas h12
    simp only [wsd_cursor_gap] at h01 hfit
    have hoff : (setOffset c sa (pos + gap)).offset = pos + gap :=
      setOffset_offset c sa _ (by rw [hsai]; exact hidx) hfit
    have hst2 : (setOffset c sa (pos + gap)).stype = sec.stype := by rw [(setOffset_moved c sa _).stype, hsat]
    have hsz2 : (setOffset c sa (pos + gap)).size = sec.size := by rw [(setOffset_moved c sa _).size, hsas]
    have hadd : (setOffset c sa (pos + gap)).addr = sa.addr := by unfold setOffset; split <;> rfl
    rw [hst2, hsz2] at h12 ⊢
    have hpg := bv_add_toNat_of_le _ _ h01
    refine ⟨hoff, hpg, ?_, hadd⟩
    by_cases hcf : wsd_counts_file sec.stype = true
    · simp only [hcf, if_true, wsd_advance] at h12 ⊢
      rw [bv_add_toNat_of_le _ _ h12, hpg]
    · have hcf' : wsd_counts_file sec.stype = false := by simpa using hcf
      simp only [hcf', Bool.false_eq_true, if_false, Nat.add_zero]; exact hpg
  unfold wsdPlace at h12 ⊢
  simp only [wsd_cursor_gap] at h12 ⊢
  cases has : sec.addrSet with
  | true =>
    simp only [has, Bool.not_true, Bool.false_eq_true, ↓reduceIte] at h12 ⊢
    exact key sec rfl rfl rfl h12
  | false =>
    simp only [has, Bool.not_false, Bool.false_eq_true, ↓reduceIte] at h12 ⊢
    have := key { sec with addr := truncA c (wsd_new_addr g.vaddr (pos + gap) segStart), addrSet := true } rfl rfl rfl h12
    simpa [wsd_new_addr] using this

/-- no wrap-around (and ELF32 fit of the offset) in one step of `write_segment_data` -/
def wsdStepNW (c : Cls) (g : Seg) (segStart : BitVec 64) (st : WsdSt) (idx : BitVec 16) : Bool :=
  match st.lay.secs[idx.toNat]?, st.lay.gen[idx.toNat]? with
  | some sec, some false =>
    if wsd_is_null sec.stype then true else
    match wsdGap g segStart st.lay.pos st.file sec false with
    | none => true
    | some gap =>
      let p1 := wsd_cursor_gap st.lay.pos gap
      let p2 := (wsdPlace c g segStart st.lay.pos gap sec).2
      decide (st.lay.pos.toNat ≤ p1.toNat) && decide (p1.toNat ≤ p2.toNat) && fitsB c p1
  | _, _ => true

def wsdLoopNW (c : Cls) (g : Seg) (segStart : BitVec 64) : List (BitVec 16) → WsdSt → Bool
  | [], _ => true
  | idx :: rest, st =>
    wsdStepNW c g segStart st idx &&
      match wsdStep c g segStart st idx with
      | .ok (some st') => wsdLoopNW c g segStart rest st'
      | _ => true

/-- The sections placed so far (`P`) that occupy file space lie in `[lo, hi)` and are pairwise
    disjoint; a section that occupies file space does not have index 0 (so that `set_offset` is
    really performed for it). -/
structure Packed (lo hi : Nat) (secs : List SecBuf) (P : Nat → Prop) : Prop where
  le : lo ≤ hi
  nz : ∀ (i : Nat) (s : SecBuf), secs[i]? = some s → s.Occ → s.index ≠ 0
  inR : ∀ (i : Nat) (s : SecBuf), secs[i]? = some s → P i → s.Occ → lo ≤ s.offset.toNat ∧ s.endN ≤ hi
  disj : ∀ (i j : Nat) (a b : SecBuf), i ≠ j → secs[i]? = some a → secs[j]? = some b → P i → P j →
    a.Occ → b.Occ → a.endN ≤ b.offset.toNat ∨ b.endN ≤ a.offset.toNat

theorem Packed.mono {lo hi hi' : Nat} {secs : List SecBuf} {P : Nat → Prop}
    (h : Packed lo hi secs P) (hle : hi ≤ hi') : Packed lo hi' secs P :=
  ⟨by have := h.le; omega, h.nz, fun i s hs hp ho => by have := h.inR i s hs hp ho; omega, h.disj⟩

/-- placing section `i` (again or for the first time) at or after the old bound -/
theorem Packed.place {lo hi hi' : Nat} {secs : List SecBuf} {P : Nat → Prop}
    (h : Packed lo hi secs P) (i : Nat) (s s' : SecBuf) (hs : secs[i]? = some s)
    (hm : SecBuf.Moved s s') (hle : hi ≤ hi')
    (hr : s'.Occ → hi ≤ s'.offset.toNat ∧ s'.endN ≤ hi') :
    Packed lo hi' (secs.set i s') (fun k => P k ∨ k = i) := by
  have hlo := h.le
  have hget : ∀ (k : Nat) (t : SecBuf), (secs.set i s')[k]? = some t →
      (k = i ∧ t = s') ∨ (k ≠ i ∧ secs[k]? = some t) := by
    intro k t hk
    rw [List.getElem?_set] at hk
    split at hk
    · rename_i hik
      split at hk
      · left; exact ⟨hik.symm, by simpa using hk.symm⟩
      · exact nomatch hk
    · rename_i hik; right; exact ⟨fun e => hik e.symm, hk⟩
  refine ⟨by omega, ?_, ?_, ?_⟩
  · intro k t hk ho
    rcases hget k t hk with ⟨-, rfl⟩ | ⟨-, hk'⟩
    · rw [hm.index]; exact h.nz i s hs ((hm.occ).1 ho)
    · exact h.nz k t hk' ho
  · intro k t hk hp ho
    rcases hget k t hk with ⟨-, rfl⟩ | ⟨hne, hk'⟩
    · have := hr ho; omega
    · have hp' : P k := by rcases hp with hp | hp; exact hp; exact absurd hp hne
      have := h.inR k t hk' hp' ho; omega
  · intro k1 k2 a b hne hk1 hk2 hp1 hp2 ha hb
    rcases hget k1 a hk1 with ⟨e1, rfl⟩ | ⟨hne1, hk1'⟩ <;> rcases hget k2 b hk2 with ⟨e2, rfl⟩ | ⟨hne2, hk2'⟩
    · omega
    · have hp' : P k2 := by rcases hp2 with hp | hp; exact hp; exact absurd hp hne2
      have := h.inR k2 b hk2' hp' hb; have := hr ha; right; omega
    · have hp' : P k1 := by rcases hp1 with hp | hp; exact hp; exact absurd hp hne1
      have := h.inR k1 a hk1' hp' ha; have := hr hb; left; omega
    · have hp1' : P k1 := by rcases hp1 with hp | hp; exact hp; exact absurd hp hne1
      have hp2' : P k2 := by rcases hp2 with hp | hp; exact hp; exact absurd hp hne2
      exact h.disj k1 k2 a b hne hk1' hk2' hp1' hp2' ha hb

/-- only the placed-set grows (no section is touched) -/
theorem Packed.mark {lo hi : Nat} {secs : List SecBuf} {P Q : Nat → Prop}
    (h : Packed lo hi secs P) (hq : ∀ k, Q k → P k ∨ ∀ s, secs[k]? = some s → ¬ s.Occ) :
    Packed lo hi secs Q := by
  refine ⟨h.le, h.nz, ?_, ?_⟩
  · intro k t hk hp ho
    rcases hq k hp with hp' | hn
    · exact h.inR k t hk hp' ho
    · exact absurd ho (hn t hk)
  · intro k1 k2 a b hne hk1 hk2 hp1 hp2 ha hb
    rcases hq k1 hp1 with hp1' | hn
    · rcases hq k2 hp2 with hp2' | hn
      · exact h.disj k1 k2 a b hne hk1 hk2 hp1' hp2' ha hb
      · exact absurd hb (hn b hk2)
    · exact absurd ha (hn a hk1)

theorem wsd_gap_align_mod (pos al0 : BitVec 64)
    (hle : pos.toNat ≤ (pos + wsd_gap_align (if wsd_align_zero al0 then 1 else al0)
        (wsd_error pos (if wsd_align_zero al0 then 1 else al0))).toNat) :
    (pos + wsd_gap_align (if wsd_align_zero al0 then 1 else al0)
        (wsd_error pos (if wsd_align_zero al0 then 1 else al0))).toNat % (max al0.toNat 1) = 0 := by
  have e0 : (BitVec.signExtend 64 0#32) = 0#64 := by decide
  have hA : (if wsd_align_zero al0 then (1 : BitVec 64) else al0).toNat = max al0.toNat 1 := by
    unfold wsd_align_zero; rw [e0]
    by_cases h : al0 = 0#64
    · simp [h]
    · have : al0.toNat ≠ 0 := fun e => h (BitVec.eq_of_toNat_eq (by simpa using e))
      simp only [beq_iff_eq, h, if_false]; omega
  generalize (if wsd_align_zero al0 then (1 : BitVec 64) else al0) = A at *
  rw [bv_add_toNat_of_le _ _ hle]
  have hp := pos.isLt; have ha := A.isLt
  have hapos : 0 < A.toNat := by omega
  have hc := Nat.mod_lt pos.toNat hapos
  rw [← hA]
  simp only [wsd_gap_align, wsd_error, BitVec.toNat_umod, BitVec.toNat_sub, Nat.reducePow]
  have e : (18446744073709551616 - pos.toNat % A.toNat + A.toNat) % 18446744073709551616 = A.toNat - pos.toNat % A.toNat := by omega
  rw [e]
  by_cases hz : pos.toNat % A.toNat = 0
  · rw [hz, Nat.sub_zero, Nat.mod_self, Nat.add_zero]; exact hz
  · rw [Nat.mod_eq_of_lt (show A.toNat - pos.toNat % A.toNat < A.toNat by omega)]
    exact align_up_mod _ _ hapos

/-- `section_generated[k]` -/
def Layout.Gen (lay : Layout) (k : Nat) : Prop := lay.gen[k]? = some true

/-- the invariant of pass 2 -/
structure LayInv (lo : Nat) (lay : Layout) : Prop where
  len : lay.gen.length = lay.secs.length
  packed : Packed lo lay.pos.toNat lay.secs lay.Gen

/-- what one call of `wsdStep` / `wsdLoop` / `layoutSegment` may do to the layout state -/
structure LayStep (lay lay' : Layout) : Prop where
  mono : lay.pos.toNat ≤ lay'.pos.toNat
  len : lay'.secs.length = lay.secs.length
  genMono : ∀ k, lay.Gen k → lay'.Gen k
  /-- already generated members are not re-placed -/
  frame : ∀ (k : Nat) (s : SecBuf), lay.Gen k → lay.secs[k]? = some s → lay'.secs[k]? = some s
  moved : ∀ (k : Nat) (s : SecBuf), lay.secs[k]? = some s → ∃ s', lay'.secs[k]? = some s' ∧ SecBuf.Moved s s'
  /-- a member generated in this call that occupies file space is placed at the then-current
      cursor: its range lies between the cursor before and the cursor after -/
  fresh : ∀ (k : Nat) (s' : SecBuf), ¬ lay.Gen k → lay'.Gen k → lay'.secs[k]? = some s' → s'.Occ →
    lay.pos.toNat ≤ s'.offset.toNat ∧ s'.endN ≤ lay'.pos.toNat
  /-- members that are not generated yet are not touched -/
  untouched : ∀ (k : Nat) (s : SecBuf), ¬ lay'.Gen k → lay.secs[k]? = some s → lay'.secs[k]? = some s
  /-- a member without an explicit address is placed at a multiple of its alignment -/
  aligned : ∀ (k : Nat) (s s' : SecBuf), ¬ lay.Gen k → lay'.Gen k → lay.secs[k]? = some s →
    lay'.secs[k]? = some s' → s.addrSet = false → s.stype ≠ BitVec.ofNat 32 SHT_NULL → s.index ≠ 0 →
    s'.offset.toNat % (max s.addrAlign.toNat 1) = 0

theorem LayStep.refl (lay : Layout) : LayStep lay lay :=
  ⟨Nat.le_refl _, rfl, fun _ h => h, fun _ _ _ h => h, fun _ s h => ⟨s, h, SecBuf.Moved.refl s⟩,
   fun _ _ h1 h2 => absurd h2 h1, fun _ _ _ h => h, fun _ _ _ h1 h2 => absurd h2 h1⟩

theorem LayStep.trans {a b c : Layout} (h1 : LayStep a b) (h2 : LayStep b c) : LayStep a c := by
  refine ⟨Nat.le_trans h1.mono h2.mono, by rw [h2.len, h1.len], fun k h => h2.genMono k (h1.genMono k h),
    fun k s hg hs => h2.frame k s (h1.genMono k hg) (h1.frame k s hg hs), ?_, ?_, ?_, ?_⟩
  · intro k s hs
    obtain ⟨s1, hs1, hm1⟩ := h1.moved k s hs
    obtain ⟨s2, hs2, hm2⟩ := h2.moved k s1 hs1
    exact ⟨s2, hs2, hm1.trans hm2⟩
  · intro k s' hng hg hs' ho
    by_cases hgb : b.Gen k
    · -- generated in the first part, framed by the second
      obtain ⟨s0, hs0⟩ : ∃ s0, a.secs[k]? = some s0 := by
        have : k < c.secs.length := by
          rcases Nat.lt_or_ge k c.secs.length with h | h
          · exact h
          · rw [List.getElem?_eq_none h] at hs'; exact nomatch hs'
        rw [h2.len, h1.len] at this
        exact ⟨a.secs[k], List.getElem?_eq_getElem this⟩
      obtain ⟨s1, hs1, -⟩ := h1.moved k s0 hs0
      have := h2.frame k s1 hgb hs1
      rw [hs'] at this; simp only [Option.some.injEq] at this; subst this
      have := h1.fresh k s' hng hgb hs1 ho
      have := h2.mono
      omega
    · have := h2.fresh k s' hgb hg hs' ho
      have := h1.mono
      omega
  · intro k s hng hs
    exact h2.untouched k s hng (h1.untouched k s (fun hb => hng (h2.genMono k hb)) hs)
  · intro k s s' hng hg hs hs' ha hnn hi
    by_cases hgb : b.Gen k
    · obtain ⟨s1, hs1, -⟩ := h1.moved k s hs
      have := h2.frame k s1 hgb hs1
      rw [hs'] at this; simp only [Option.some.injEq] at this; subst this
      exact h1.aligned k s s' hng hgb hs hs1 ha hnn hi
    · exact h2.aligned k s s' hgb hg (h1.untouched k s hgb hs) hs' ha hnn hi

theorem getElem?_set_true_iff (l : List Bool) (i k : Nat) (hi : i < l.length) :
    (l.set i true)[k]? = some true ↔ (l[k]? = some true ∨ k = i) := by
  rw [List.getElem?_set]
  by_cases h : i = k
  · subst h; simp [hi]
  · simp only [h, if_false]
    constructor
    · intro h'; exact Or.inl h'
    · rintro (h' | h'); exact h'; exact absurd h'.symm h

/-- one member: the invariant is kept and the step is a `LayStep` -/
theorem wsdStep_inv (c : Cls) (g : Seg) (segStart : BitVec 64) (st st' : WsdSt) (idx : BitVec 16) (lo : Nat)
    (hinv : LayInv lo st.lay) (hnw : wsdStepNW c g segStart st idx = true)
    (h : wsdStep c g segStart st idx = .ok (some st')) :
    LayInv lo st'.lay ∧ LayStep st.lay st'.lay := by
  rw [wsdStep_eq] at h
  unfold wsdStepNW at hnw
  cases hsec : st.lay.secs[idx.toNat]? with
  | none => rw [hsec] at h; simp [throw, throwThe, MonadExceptOf.throw] at h
  | some sec =>
  cases hgen : st.lay.gen[idx.toNat]? with
  | none => rw [hsec, hgen] at h; simp [throw, throwThe, MonadExceptOf.throw] at h
  | some generated =>
  rw [hsec, hgen] at h
  simp only at h
  have hilen : idx.toNat < st.lay.gen.length := by
    rcases Nat.lt_or_ge idx.toNat st.lay.gen.length with h' | h'
    · exact h'
    · rw [List.getElem?_eq_none h'] at hgen; exact nomatch hgen
  by_cases hnull : wsd_is_null sec.stype = true
  · -- SHT_NULL member: only marked as generated
    simp only [hnull, if_true, pure, Except.pure, Except.ok.injEq, Option.some.injEq] at h
    subst h
    have hnocc : ¬ sec.Occ := by
      intro ho
      simp only [wsd_is_null, beq_iff_eq] at hnull
      exact ho.2.1 hnull.symm
    have hG : ∀ k, ({ st.lay with gen := st.lay.gen.set idx.toNat true } : Layout).Gen k ↔
        (st.lay.Gen k ∨ k = idx.toNat) := fun k => getElem?_set_true_iff _ _ _ hilen
    constructor
    · refine ⟨by simp [hinv.len], ?_⟩
      apply hinv.packed.mark
      intro k hk
      rcases (hG k).1 hk with h' | h'
      · exact Or.inl h'
      · right; intro s hs; subst h'; rw [hsec] at hs; simp only [Option.some.injEq] at hs; subst hs; exact hnocc
    · refine ⟨Nat.le_refl _, rfl, fun k hk => (hG k).2 (Or.inl hk), fun _ _ _ hs => hs,
        fun _ s hs => ⟨s, hs, SecBuf.Moved.refl s⟩, ?_, fun _ _ _ hs => hs, ?_⟩
      · intro k s' hng hg hs' ho
        rcases (hG k).1 hg with h' | h'
        · exact absurd h' hng
        · subst h'; simp only at hs'; rw [hsec] at hs'; simp only [Option.some.injEq] at hs'; subst hs'
          exact absurd ho hnocc
      · intro k s s' hng hg hs hs' _ hnn _
        rcases (hG k).1 hg with h' | h'
        · exact absurd h' hng
        · subst h'; rw [hsec] at hs; simp only [Option.some.injEq] at hs; subst hs
          simp only [wsd_is_null, beq_iff_eq] at hnull
          exact absurd hnull.symm hnn
  · have hnull' : wsd_is_null sec.stype = false := by simpa using hnull
    simp only [hnull', Bool.false_eq_true, if_false] at h
    cases hgap : wsdGap g segStart st.lay.pos st.file sec generated with
    | none => rw [hgap] at h; simp [pure, Except.pure] at h
    | some gap =>
    rw [hgap] at h
    simp only at h
    cases generated with
    | true =>
      -- already generated: nothing but the two counters changes
      simp only [if_true, pure, Except.pure, Except.ok.injEq, Option.some.injEq] at h
      subst h
      exact ⟨hinv, LayStep.refl _⟩
    | false =>
      simp only [Bool.false_eq_true, if_false, pure, Except.pure, Except.ok.injEq, Option.some.injEq] at h
      subst h
      rw [hsec, hgen] at hnw
      simp only [hnull', Bool.false_eq_true, if_false, hgap, Bool.and_eq_true, decide_eq_true_eq] at hnw
      obtain ⟨⟨h01, h12⟩, hfit⟩ := hnw
      have hmoved := wsdPlace_moved c g segStart st.lay.pos gap sec
      -- the placed section's offset and end
      have hrange : (wsdPlace c g segStart st.lay.pos gap sec).1.Occ →
          st.lay.pos.toNat ≤ (wsdPlace c g segStart st.lay.pos gap sec).1.offset.toNat ∧
          (wsdPlace c g segStart st.lay.pos gap sec).1.endN ≤ (wsdPlace c g segStart st.lay.pos gap sec).2.toNat := by
        intro ho
        have hosec : sec.Occ := (hmoved.occ).1 ho
        have hidx : sec.index ≠ 0 := hinv.packed.nz _ _ hsec hosec
        have hcf : wsd_counts_file sec.stype = true := by
          simp only [wsd_counts_file, bne_iff_ne, ne_eq]; exact fun e => hosec.1 e.symm
        unfold wsdPlace at h12 ⊢
        simp only at h12 ⊢
        generalize hp1 : wsd_cursor_gap st.lay.pos gap = p1 at *
        generalize hsa : (if (!sec.addrSet) = true then
            { sec with addr := truncA c (wsd_new_addr g.vaddr p1 segStart), addrSet := true } else sec) = sa at *
        have hsai : sa.index = sec.index := by rw [← hsa]; split <;> rfl
        have hsat : sa.stype = sec.stype := by rw [← hsa]; split <;> rfl
        have hsas : sa.size = sec.size := by rw [← hsa]; split <;> rfl
        have hoff : (setOffset c sa p1).offset = p1 := setOffset_offset c sa p1 (by rw [hsai]; exact hidx) hfit
        have hst2 : (setOffset c sa p1).stype = sec.stype := by rw [(setOffset_moved c sa p1).stype, hsat]
        have hsz2 : (setOffset c sa p1).size = sec.size := by rw [(setOffset_moved c sa p1).size, hsas]
        rw [hst2, hsz2] at h12 ⊢
        simp only [hcf, if_true, wsd_advance] at h12 ⊢
        unfold SecBuf.endN
        rw [hoff, hsz2, bv_add_toNat_of_le _ _ h12]
        exact ⟨h01, Nat.le_refl _⟩
      have hmono : st.lay.pos.toNat ≤ (wsdPlace c g segStart st.lay.pos gap sec).2.toNat := by
        have : (wsd_cursor_gap st.lay.pos gap).toNat ≤ (wsdPlace c g segStart st.lay.pos gap sec).2.toNat := h12
        omega
      have hG : ∀ k, (st.lay.gen.set idx.toNat true)[k]? = some true ↔
          (st.lay.Gen k ∨ k = idx.toNat) := fun k => getElem?_set_true_iff _ _ _ hilen
      constructor
      · refine ⟨by simp [hinv.len], ?_⟩
        have := hinv.packed.place idx.toNat sec _ hsec hmoved hmono hrange
        refine ⟨this.le, this.nz, ?_, ?_⟩
        · intro k t hk hp ho; exact this.inR k t hk ((hG k).1 hp) ho
        · intro k1 k2 a b hne hk1 hk2 hp1 hp2 ha hb
          exact this.disj k1 k2 a b hne hk1 hk2 ((hG k1).1 hp1) ((hG k2).1 hp2) ha hb
      · refine ⟨hmono, by simp, fun k hk => (hG k).2 (Or.inl hk), ?_, ?_, ?_, ?_, ?_⟩
        · intro k s hg hs
          have hne : idx.toNat ≠ k := by
            intro e; subst e
            unfold Layout.Gen at hg; rw [hgen] at hg; simp at hg
          simp only [List.getElem?_set, hne, if_false]; exact hs
        · intro k s hs
          by_cases hk : idx.toNat = k
          · subst hk
            rw [hsec] at hs; simp only [Option.some.injEq] at hs; subst hs
            refine ⟨_, ?_, hmoved⟩
            simp only [List.getElem?_set, if_true]
            have : idx.toNat < st.lay.secs.length := by rw [← hinv.len]; exact hilen
            simp [this]
          · exact ⟨s, by simp only [List.getElem?_set, hk, if_false]; exact hs, SecBuf.Moved.refl s⟩
        · intro k s' hng hg hs' ho
          rcases (hG k).1 hg with h' | h'
          · exact absurd h' hng
          · subst h'
            have hl : idx.toNat < st.lay.secs.length := by rw [← hinv.len]; exact hilen
            simp only [List.getElem?_set, if_true, hl, Option.some.injEq] at hs'
            subst hs'
            exact hrange ho
        · intro k s hng hs
          have hne : idx.toNat ≠ k := by
            intro e; subst e
            exact hng ((hG _).2 (Or.inr rfl))
          simp only [List.getElem?_set, hne, if_false]; exact hs
        · intro k s s' hng hg hs hs' ha hnn hi
          rcases (hG k).1 hg with h' | h'
          · exact absurd h' hng
          · subst h'
            rw [hsec] at hs; simp only [Option.some.injEq] at hs; subst hs
            have hl : idx.toNat < st.lay.secs.length := by rw [← hinv.len]; exact hilen
            simp only [List.getElem?_set, if_true, hl, Option.some.injEq] at hs'
            subst hs'
            obtain ⟨foff, -, -, -⟩ := wsdPlace_facts c g segStart st.lay.pos gap sec hi h01 h12 hfit
            rw [foff]
            unfold wsdGap at hgap
            have hb1 : wsd_addr_branch false sec.addrSet sec.stype sec.size = false := by
              rw [ha]; simp [wsd_addr_branch]
            have hb2 : wsd_align_branch false sec.addrSet = true := by rw [ha]; rfl
            rw [hb1, hb2] at hgap
            simp only [Bool.false_eq_true, if_false, if_true, Option.some.injEq] at hgap
            subst hgap
            apply wsd_gap_align_mod
            simpa only [wsd_cursor_gap] using h01

/-- `write_segment_data` as a whole: the invariant is kept; the cursor never decreases, generated
    members are not re-placed, `gen` only gains `true`s, members generated in this call lie between
    the cursor before and the cursor after (`LayStep`). -/
theorem wsdLoop_inv (c : Cls) (g : Seg) (segStart : BitVec 64) (l : List (BitVec 16)) (st st' : WsdSt) (lo : Nat)
    (hinv : LayInv lo st.lay) (hnw : wsdLoopNW c g segStart l st = true)
    (h : wsdLoop c g segStart l st = .ok (some st')) :
    LayInv lo st'.lay ∧ LayStep st.lay st'.lay := by
  induction l generalizing st with
  | nil =>
    simp only [wsdLoop, pure, Except.pure, Except.ok.injEq, Option.some.injEq] at h
    subst h; exact ⟨hinv, LayStep.refl _⟩
  | cons idx rest ih =>
    unfold wsdLoop at h
    unfold wsdLoopNW at hnw
    cases hs : wsdStep c g segStart st idx with
    | error e => rw [hs] at h; simp [bind, Except.bind] at h
    | ok r =>
      rw [hs] at h hnw
      cases r with
      | none => simp [bind, Except.bind, pure, Except.pure] at h
      | some st1 =>
        simp only [bind, Except.bind, Bool.and_eq_true] at h hnw
        obtain ⟨i1, s1⟩ := wsdStep_inv c g segStart st st1 idx lo hinv hnw.1 hs
        obtain ⟨i2, s2⟩ := ih st1 i1 hnw.2 h
        exact ⟨i2, s1.trans s2⟩

/-! ### pass 2: one segment -/

def segFirstGen (lay : Layout) (g : Seg) : M Bool :=
  match g.secs.head? with
  | none => pure false
  | some f => match lay.gen[f.toNat]? with
    | some b => pure b
    | none => throw (.vecOob "layout_segments/section_generated[first]")

/-- where a segment starts: the (possibly advanced) cursor state, `seg_start_pos`, and the initial
    `segment_memory`, `segment_filesize` -/
def segInit (c : Cls) (hdrPhoff : BitVec 64) (phentsize phnum : BitVec 16) (lay : Layout) (g : Seg)
    (firstGen : Bool) : M (Layout × BitVec 64 × BitVec 64 × BitVec 64) :=
  let nsec : BitVec 16 := BitVec.ofNat 16 g.secs.length
  let first : Option (BitVec 16) := g.secs.head?
  if lseg_is_phdr g.stype nsec then
    let sz := lseg_phdr_size phentsize phnum
    pure (lay, hdrPhoff, sz, sz)
  else if lseg_offset0 g.offsetSet g.offset then
    pure (lay, (0 : BitVec 64), (if g.secs.length > 0 then lay.pos else 0), (if g.secs.length > 0 then lay.pos else 0))
  else if g.secs.length > 0 && !firstGen then
    let al := lseg_align g.align
    let adj := lseg_adjustment (lseg_req_page g.vaddr al) (lseg_cur_page lay.pos al)
    let pos := lseg_advance lay.pos g.align adj al
    pure ({ lay with pos := pos }, pos, (0 : BitVec 64), (0 : BitVec 64))
  else if g.secs.length > 0 then
    match first with
    | some f => match lay.secs[f.toNat]? with
      | some s => pure (lay, s.offset, (0 : BitVec 64), (0 : BitVec 64))
      | none => throw (.nullDeref "layout_segments/sections[first]")
    | none => pure (lay, lay.pos, (0 : BitVec 64), (0 : BitVec 64))
  else pure (lay, lay.pos, (0 : BitVec 64), (0 : BitVec 64))

/-- the segment's header fields after `write_segment_data` -/
def segFinish (c : Cls) (g : Seg) (segStart : BitVec 64) (st : WsdSt) : Seg :=
  let g := { g with filesz := truncA c st.file }
  let g := if lseg_memsz_lt g.memsz st.mem then { g with memsz := truncA c st.mem } else g
  { g with offset := truncA c segStart, offsetSet := true }

theorem layoutSegment_eq (c : Cls) (hdrPhoff : BitVec 64) (phentsize phnum : BitVec 16) (lay : Layout) (g : Seg) :
    layoutSegment c hdrPhoff phentsize phnum lay g = (do
      let fg ← segFirstGen lay g
      let r ← segInit c hdrPhoff phentsize phnum lay g fg
      match ← wsdLoop c g r.2.1 g.secs { lay := r.1, mem := r.2.2.1, file := r.2.2.2 } with
      | none => pure none
      | some st => pure (some (st.lay, segFinish c g r.2.1 st))) := by
  unfold layoutSegment segFirstGen segInit segFinish
  simp only [lseg_has_members0_count, lseg_has_members_count, lseg_fresh_count, decide_eq_true_eq]
  cases g.secs.head? with
  | none =>
    simp only [pure, Except.pure, bind, Except.bind]
    by_cases h1 : lseg_is_phdr g.stype (BitVec.ofNat 16 g.secs.length) = true
    · simp only [h1, ↓reduceIte] <;> rfl
    · by_cases h2 : lseg_offset0 g.offsetSet g.offset = true
      · simp only [h1, h2, ↓reduceIte] <;> rfl
      · by_cases h3 : (decide (g.secs.length > 0) && !false) = true
        · simp only [h1, h2, h3, ↓reduceIte] <;> rfl
        · by_cases h4 : g.secs.length > 0
          · simp only [h1, h2, h3, h4, ↓reduceIte] <;> rfl
          · simp only [h1, h2, h3, h4, ↓reduceIte] <;> rfl
  | some f =>
    simp only
    cases lay.gen[f.toNat]? with
    | none => rfl
    | some b =>
      simp only [pure, Except.pure, bind, Except.bind]
      by_cases h1 : lseg_is_phdr g.stype (BitVec.ofNat 16 g.secs.length) = true
      · simp only [h1, ↓reduceIte] <;> rfl
      · by_cases h2 : lseg_offset0 g.offsetSet g.offset = true
        · simp only [h1, h2, ↓reduceIte] <;> rfl
        · by_cases h3 : (decide (g.secs.length > 0) && !b) = true
          · simp only [h1, h2, h3, ↓reduceIte] <;> rfl
          · by_cases h4 : g.secs.length > 0
            · have hb : b = true := by simpa [h4] using h3
              subst hb
              simp only [h1, h2, h4, ↓reduceIte, Bool.false_eq_true, decide_true, Bool.not_true, Bool.and_false]
              cases lay.secs[f.toNat]? <;> rfl
            · simp only [h1, h2, h3, h4, ↓reduceIte] <;> rfl

theorem segInit_lay (c : Cls) (hdrPhoff : BitVec 64) (phentsize phnum : BitVec 16) (lay : Layout) (g : Seg)
    (fg : Bool) (r : Layout × BitVec 64 × BitVec 64 × BitVec 64)
    (h : segInit c hdrPhoff phentsize phnum lay g fg = .ok r) :
    r.1 = { lay with pos := r.1.pos } := by
  unfold segInit at h
  simp only at h
  repeat' split at h
  all_goals first
    | (simp only [pure, Except.pure, Except.ok.injEq] at h; subst h; rfl)
    | (simp [throw, throwThe, MonadExceptOf.throw] at h)

/-- no wrap-around while laying out one segment (and the segment's offset fits the class's field) -/
def segNW (c : Cls) (hdrPhoff : BitVec 64) (phentsize phnum : BitVec 16) (lay : Layout) (g : Seg) : Bool :=
  match segFirstGen lay g with
  | .ok fg =>
    match segInit c hdrPhoff phentsize phnum lay g fg with
    | .ok r =>
      decide (lay.pos.toNat ≤ r.1.pos.toNat) && fitsB c r.2.1 &&
        wsdLoopNW c g r.2.1 g.secs { lay := r.1, mem := r.2.2.1, file := r.2.2.2 }
    | _ => true
  | _ => true

theorem layoutSegment_inv (c : Cls) (hdrPhoff : BitVec 64) (phentsize phnum : BitVec 16) (lay lay' : Layout)
    (g g' : Seg) (lo : Nat) (hinv : LayInv lo lay) (hnw : segNW c hdrPhoff phentsize phnum lay g = true)
    (h : layoutSegment c hdrPhoff phentsize phnum lay g = .ok (some (lay', g'))) :
    LayInv lo lay' ∧ LayStep lay lay' := by
  rw [layoutSegment_eq] at h
  unfold segNW at hnw
  cases hfg : segFirstGen lay g with
  | error e => rw [hfg] at h; simp [bind, Except.bind] at h
  | ok fg =>
    rw [hfg] at h hnw
    simp only [bind, Except.bind] at h hnw
    cases hin : segInit c hdrPhoff phentsize phnum lay g fg with
    | error e => rw [hin] at h; simp at h
    | ok r =>
      rw [hin] at h hnw
      simp only [Bool.and_eq_true, decide_eq_true_eq] at h hnw
      have hl := segInit_lay c hdrPhoff phentsize phnum lay g fg r hin
      have hinv1 : LayInv lo r.1 := by
        rw [hl]; exact ⟨hinv.len, hinv.packed.mono hnw.1.1⟩
      have hstep1 : LayStep lay r.1 := by
        rw [hl]
        exact ⟨hnw.1.1, rfl, fun _ h => h, fun _ _ _ h => h, fun _ s h => ⟨s, h, SecBuf.Moved.refl s⟩,
          fun _ _ h1 h2 => absurd h2 h1, fun _ _ _ h => h, fun _ _ _ h1 h2 => absurd h2 h1⟩
      cases hw : wsdLoop c g r.2.1 g.secs { lay := r.1, mem := r.2.2.1, file := r.2.2.2 } with
      | error e => rw [hw] at h; simp at h
      | ok w =>
        rw [hw] at h
        cases w with
        | none => simp [pure, Except.pure] at h
        | some st =>
          simp only [pure, Except.pure, Except.ok.injEq, Option.some.injEq, Prod.mk.injEq] at h
          obtain ⟨rfl, -⟩ := h
          obtain ⟨i2, s2⟩ := wsdLoop_inv c g r.2.1 g.secs _ st lo hinv1 hnw.2 hw
          exact ⟨i2, hstep1.trans s2⟩

/-! ### pass 2: all segments -/

/-- the body of the `for ( auto* seg : worklist )` loop in `layout_segments_and_their_sections`
    as `save` folds it -/
def segsStep (c : Cls) (hdrPhoff : BitVec 64) (phentsize phnum : BitVec 16)
    (acc : Option (Layout × List Seg)) (g : Seg) : M (Option (Layout × List Seg)) :=
  match acc with
  | none => pure none
  | some (lay, done) => do
    match ← layoutSegment c hdrPhoff phentsize phnum lay g with
    | none => pure none
    | some (lay, g) => pure (some (lay, done ++ [g]))

def segsNW (c : Cls) (hdrPhoff : BitVec 64) (phentsize phnum : BitVec 16) : List Seg → Layout → Bool
  | [], _ => true
  | g :: rest, lay =>
    segNW c hdrPhoff phentsize phnum lay g &&
      match layoutSegment c hdrPhoff phentsize phnum lay g with
      | .ok (some (lay', _)) => segsNW c hdrPhoff phentsize phnum rest lay'
      | _ => true

theorem segsFold_none (c : Cls) (hdrPhoff : BitVec 64) (phentsize phnum : BitVec 16) (l : List Seg) :
    l.foldlM (segsStep c hdrPhoff phentsize phnum) none = .ok none := by
  induction l with
  | nil => rfl
  | cons g rest ih => simp only [List.foldlM, segsStep, pure, Except.pure, bind, Except.bind]; exact ih

theorem segsFold_inv (c : Cls) (hdrPhoff : BitVec 64) (phentsize phnum : BitVec 16) (l : List Seg)
    (lay lay' : Layout) (done done' : List Seg) (lo : Nat)
    (hinv : LayInv lo lay) (hnw : segsNW c hdrPhoff phentsize phnum l lay = true)
    (h : l.foldlM (segsStep c hdrPhoff phentsize phnum) (some (lay, done)) = .ok (some (lay', done'))) :
    LayInv lo lay' ∧ LayStep lay lay' := by
  induction l generalizing lay done with
  | nil =>
    simp only [List.foldlM, pure, Except.pure, Except.ok.injEq, Option.some.injEq, Prod.mk.injEq] at h
    obtain ⟨rfl, -⟩ := h
    exact ⟨hinv, LayStep.refl _⟩
  | cons g rest ih =>
    unfold segsNW at hnw
    simp only [List.foldlM, segsStep, bind, Except.bind] at h
    cases hs : layoutSegment c hdrPhoff phentsize phnum lay g with
    | error e => rw [hs] at h; simp at h
    | ok r =>
      rw [hs] at h hnw
      cases r with
      | none =>
        simp only [pure, Except.pure] at h
        rw [segsFold_none] at h; simp at h
      | some r =>
        obtain ⟨lay1, g1⟩ := r
        simp only [pure, Except.pure, Bool.and_eq_true] at h hnw
        obtain ⟨i1, s1⟩ := layoutSegment_inv c hdrPhoff phentsize phnum lay lay1 g g1 lo hinv hnw.1 hs
        obtain ⟨i2, s2⟩ := ih lay1 (done ++ [g1]) i1 hnw.2 h
        exact ⟨i2, s1.trans s2⟩

/-! ### the three passes together -/

/-- the header as `save` rewrites it before the layout (`e_phnum`, `e_phoff`, `e_shnum`, `e_shoff := 0`) -/
def saveHdr0 (o : Obj) (h : Bytes) : Bytes :=
  let c := o.cls; let e := o.enc
  let nseg := o.segs.length % 65536
  let nsec := o.secs.length % 65536
  let h := Hdr.set_phnum c e h nseg
  let h := Hdr.set_phoff c e h (if nseg > 0 then (Hdr.e_ehsize c e h).toNat else 0)
  let h := Hdr.set_shnum c e h nsec
  Hdr.set_shoff c e h 0

/-- everything the layout part of a successful `save` computes -/
structure LayoutRes where
  hdr0 : Bytes            -- header the cursor is started from
  pos0 : BitVec 64        -- `current_file_pos` after the two header tables
  segs0 : List Seg        -- after `calc_segment_alignment`
  ordered : List Seg      -- `get_ordered_segments`
  lay2 : Layout           -- after `layout_segments_and_their_sections`
  done : List Seg
  segs : List Seg         -- the segments as they are saved
  secs : List SecBuf      -- after `layout_sections_without_segments`
  pos3 : BitVec 64
  shoff : BitVec 64       -- after `layout_section_table`

/-- the layout part of `save` (everything before `save_header`); `none` = layout aborted -/
def layoutOf (o : Obj) (h : Bytes) : M (Option LayoutRes) := do
  let c := o.cls; let e := o.enc
  let h := saveHdr0 o h
  let pos0 := save_cursor0 (Hdr.e_ehsize c e h) (Hdr.e_phentsize c e h) (Hdr.e_phnum c e h)
  let segs ← o.segs.mapM (calcSegAlign o.secs)
  let ordered ← orderedSegments segs
  let lay0 : Layout := { secs := o.secs, pos := pos0, gen := List.replicate (o.secs.length % 65536) false }
  match ← ordered.foldlM (segsStep c (Hdr.e_phoff c e h) (Hdr.e_phentsize c e h) (Hdr.e_phnum c e h)) (some (lay0, [])) with
  | none => pure none
  | some (lay, done) =>
    let segs' := segs.map fun g => (done.find? (fun d => d.index == g.index)).getD g
    let r := layoutLoose c segs' lay.secs 0 lay.pos []
    pure (some { hdr0 := h, pos0 := pos0, segs0 := segs, ordered := ordered, lay2 := lay, done := done,
                 segs := segs', secs := r.1, pos3 := r.2, shoff := lst_cursor r.2 (lst_error r.2) })

/-- the object after the `get_data()` calls at the start of `save` (lazily loaded data becomes
    resident; no header field changes, `allResident_hdr`) — the object the layout runs on -/
def preSave (o : Obj) : Obj :=
  { o with secs := (allResident o.cls o.trans o.secs { st := o.stream } []).1,
           stream := (allResident o.cls o.trans o.secs { st := o.stream } []).2.st }

theorem ite_pure_eq {α : Type} (c : Prop) [Decidable c] (a b r : α)
    (h : (if c then (pure a : M α) else pure b) = .ok r) : r = a ∨ r = b := by
  split at h <;> simp only [pure, Except.pure, Except.ok.injEq] at h
  · exact Or.inl h.symm
  · exact Or.inr h.symm

/-- the write phase of `save` (`saveWrite`, restructured by the C16 family) when it reports success:
    the header write did not fail, the object carries the layout, the stream is the fold of the section and
    segment writes and has not failed -/
theorem saveWrite_ok (o : Obj) (h : Bytes) (secs : List SecBuf) (segs : List Seg) (pos : BitVec 64) (os : OStream)
    (hok : (saveWrite o h secs segs pos os).ok = true) :
    ((os.seekp (trApply o.trans 0)).write h).fail = false ∧
    (saveWrite o h secs segs pos os).obj =
      { o with hdr := some h, secs := (residentForSave o.cls o.trans secs { st := o.stream } []).1,
               segs := segs, curPos := pos,
               stream := (residentForSave o.cls o.trans secs { st := o.stream } []).2.st } ∧
    (saveWrite o h secs segs pos os).os =
      segs.foldl (saveSegment o.cls o.enc (Hdr.e_phoff o.cls o.enc h) (Hdr.e_phentsize o.cls o.enc h))
        ((residentForSave o.cls o.trans secs { st := o.stream } []).1.foldl
          (saveSection o.cls o.enc (Hdr.e_shoff o.cls o.enc h) (Hdr.e_shentsize o.cls o.enc h))
          ((os.seekp (trApply o.trans 0)).write h)) ∧
    (saveWrite o h secs segs pos os).os.fail = false := by
  unfold saveWrite at hok ⊢
  cases hf : ((os.seekp (trApply o.trans 0)).write h).fail <;> cases hc : o.cls <;>
    simp only [hf, hc, Bool.not_false, Bool.not_true, save_header_result32, save_header_result,
      Bool.false_eq_true, if_false, if_true, save_sections_result, save_segments_result, save_result,
      Bool.true_and, Bool.false_and] at hok ⊢
  all_goals first
    | (refine ⟨?_, ?_, ?_, ?_⟩ <;> first | trivial | rfl | simpa using hok)
    | exact absurd hok (by decide)
    | (simp at hok)

/-- `save` succeeded ⇒ its layout is `layoutOf`, and the object it leaves carries that layout.
    (The only lemma here that looks at the part of `save` after the layout.) -/
theorem save_layout (o : Obj) (os : OStream) (r : SaveRes) (h : save o os = .ok r) (hok : r.ok = true) :
    ∃ hdr res, o.hdr = some hdr ∧ layoutOf (preSave o) hdr = .ok (some res) ∧
      r.obj.segs = res.segs ∧ r.obj.curPos = res.shoff ∧
      r.obj.secs = (residentForSave o.cls o.trans res.secs { st := (preSave o).stream } []).1 := by
  unfold save at h
  simp only [save_phoff_toNat, save_shoff0_toNat] at h
  cases hh : o.hdr with
  | none =>
    rw [hh] at h
    simp only [save_entry_refused_none, if_true, pure, Except.pure, Except.ok.injEq] at h
    subst h; exact absurd hok (by simp)
  | some hdr =>
    rw [hh] at h
    simp only [save_entry_refused_some] at h
    by_cases hf : os.fail = true
    · simp only [hf, if_true, pure, Except.pure, Except.ok.injEq] at h
      subst h; exact absurd hok (by simp)
    · simp only [hf, Bool.false_eq_true, if_false] at h
      refine ⟨hdr, ?_⟩
      unfold preSave
      generalize allResident o.cls o.trans o.secs { st := o.stream } [] = ar at h ⊢
      cases hm : o.segs.mapM (calcSegAlign ar.1) with
      | error e => rw [hm] at h; simp [bind, Except.bind] at h
      | ok segs =>
        rw [hm] at h
        simp only [bind, Except.bind] at h
        cases ho : orderedSegments segs with
        | error e => rw [ho] at h; simp at h
        | ok ordered =>
          rw [ho] at h
          simp only at h
          split at h
          · simp at h
          · rename_i v hfold
            have hfold' : ordered.foldlM (segsStep o.cls
                (Hdr.e_phoff o.cls o.enc (saveHdr0 { o with secs := ar.1, stream := ar.2.st } hdr))
                (Hdr.e_phentsize o.cls o.enc (saveHdr0 { o with secs := ar.1, stream := ar.2.st } hdr))
                (Hdr.e_phnum o.cls o.enc (saveHdr0 { o with secs := ar.1, stream := ar.2.st } hdr)))
                (some (({ secs := ar.1,
                          pos := save_cursor0 (Hdr.e_ehsize o.cls o.enc (saveHdr0 { o with secs := ar.1, stream := ar.2.st } hdr))
                            (Hdr.e_phentsize o.cls o.enc (saveHdr0 { o with secs := ar.1, stream := ar.2.st } hdr))
                            (Hdr.e_phnum o.cls o.enc (saveHdr0 { o with secs := ar.1, stream := ar.2.st } hdr)),
                          gen := List.replicate (ar.1.length % 65536) false } : Layout), [])) = .ok v := hfold
            unfold layoutOf
            simp only [hm, ho, hfold', bind, Except.bind]
            cases v with
            | none =>
              simp only [pure, Except.pure, Except.ok.injEq] at h
              subst h; exact absurd hok (by simp)
            | some ld =>
              obtain ⟨lay, done⟩ := ld
              simp only [pure, Except.pure, Except.ok.injEq] at h ⊢
              subst h
              obtain ⟨-, ho', -, -⟩ := saveWrite_ok _ _ _ _ _ _ hok
              rw [ho']
              exact ⟨_, trivial, rfl, rfl, rfl, rfl⟩

/-! ### the header fields of a section that the layout is about, and `residentForSave` -/

/-- the fields of a section the layout theorems talk about -/
def hdrOf (s : SecBuf) : BitVec 64 × BitVec 64 × BitVec 32 × Nat × BitVec 64 × BitVec 64 × BitVec 64 × Bool :=
  (s.offset, s.size, s.stype, s.index, s.addr, s.flags, s.addrAlign, s.addrSet)

theorem secLoadData_hdr (c : Cls) (tr : List Trans) (ls : LoadSt) (b : SecBuf) :
    hdrOf (secLoadData c tr ls b).2.1 = hdrOf b := by
  unfold secLoadData
  simp only
  repeat' split
  all_goals rfl

theorem secGetData_hdr (c : Cls) (tr : List Trans) (ls : LoadSt) (b : SecBuf) :
    hdrOf (secGetData c tr ls b).2 = hdrOf b := by
  unfold secGetData
  split
  · simp only
    split
    · exact secLoadData_hdr c tr ls b
    · have := secLoadData_hdr c tr ls b
      unfold hdrOf at this ⊢
      exact this
  · rfl

theorem residentForSave_hdr (c : Cls) (tr : List Trans) (l : List SecBuf) (ls : LoadSt) (acc : List SecBuf) :
    (residentForSave c tr l ls acc).1.map hdrOf = (acc.reverse ++ l).map hdrOf := by
  induction l generalizing ls acc with
  | nil => simp [residentForSave]
  | cons b rest ih =>
    unfold residentForSave
    split
    · simp only
      rw [ih]
      simp only [List.reverse_cons, List.append_assoc, List.singleton_append, List.map_append,
        List.map_cons, secGetData_hdr]
    · rw [ih]
      simp only [List.reverse_cons, List.append_assoc, List.singleton_append]

theorem allResident_hdr (c : Cls) (tr : List Trans) (l : List SecBuf) (ls : LoadSt) (acc : List SecBuf) :
    (allResident c tr l ls acc).1.map hdrOf = (acc.reverse ++ l).map hdrOf := by
  induction l generalizing ls acc with
  | nil => simp [allResident]
  | cons b rest ih =>
    unfold allResident
    simp only
    rw [ih]
    simp only [List.reverse_cons, List.append_assoc, List.singleton_append, List.map_append,
      List.map_cons, secGetData_hdr]

theorem preSave_hdr (o : Obj) : (preSave o).secs.map hdrOf = o.secs.map hdrOf := by
  unfold preSave; simp only; rw [allResident_hdr]; simp

theorem hdrOf_getElem? {l l' : List SecBuf} (h : l'.map hdrOf = l.map hdrOf) (k : Nat) (s' : SecBuf)
    (hs : l'[k]? = some s') : ∃ s, l[k]? = some s ∧ hdrOf s = hdrOf s' := by
  have h1 : (l'.map hdrOf)[k]? = some (hdrOf s') := by rw [List.getElem?_map, hs]; rfl
  rw [h, List.getElem?_map] at h1
  cases hl : l[k]? with
  | none => rw [hl] at h1; exact nomatch h1
  | some s => rw [hl] at h1; exact ⟨s, rfl, by simpa using h1⟩

theorem occ_of_hdrOf {s s' : SecBuf} (h : hdrOf s = hdrOf s') : s'.Occ ↔ s.Occ := by
  simp only [hdrOf, Prod.mk.injEq] at h
  unfold SecBuf.Occ; rw [h.2.2.1, h.2.1]

theorem Packed.of_hdrOf {lo hi : Nat} {l l' : List SecBuf} {P : Nat → Prop}
    (h : Packed lo hi l P) (he : l'.map hdrOf = l.map hdrOf) : Packed lo hi l' P := by
  refine ⟨h.le, ?_, ?_, ?_⟩
  · intro k s' hs ho
    obtain ⟨s, hs0, hh⟩ := hdrOf_getElem? he k s' hs
    have := h.nz k s hs0 ((occ_of_hdrOf hh).1 ho)
    simp only [hdrOf, Prod.mk.injEq] at hh
    rw [← hh.2.2.2.1]; exact this
  · intro k s' hs hp ho
    obtain ⟨s, hs0, hh⟩ := hdrOf_getElem? he k s' hs
    have := h.inR k s hs0 hp ((occ_of_hdrOf hh).1 ho)
    simp only [hdrOf, Prod.mk.injEq] at hh
    unfold SecBuf.endN at *
    rw [← hh.1, ← hh.2.1]; exact this
  · intro k1 k2 a' b' hne h1 h2 hp1 hp2 ha hb
    obtain ⟨a, ha0, hha⟩ := hdrOf_getElem? he k1 a' h1
    obtain ⟨b, hb0, hhb⟩ := hdrOf_getElem? he k2 b' h2
    have := h.disj k1 k2 a b hne ha0 hb0 hp1 hp2 ((occ_of_hdrOf hha).1 ha) ((occ_of_hdrOf hhb).1 hb)
    simp only [hdrOf, Prod.mk.injEq] at hha hhb
    unfold SecBuf.endN at *
    rw [← hha.1, ← hha.2.1, ← hhb.1, ← hhb.2.1]; exact this

/-! ### the composition -/

/-- the layout state `layout_segments_and_their_sections` starts from -/
def lay0Of (o : Obj) (pos0 : BitVec 64) : Layout :=
  { secs := o.secs, pos := pos0, gen := List.replicate (o.secs.length % 65536) false }

/-- No 64-bit wrap-around of the file cursor anywhere in the layout part of `save` (every cursor
    update `p ↦ p'` has `p.toNat ≤ p'.toNat`), and every section offset fits the class's field. -/
def layoutNW (o : Obj) (h : Bytes) : Bool :=
  match layoutOf o h with
  | .ok (some res) =>
    segsNW o.cls (Hdr.e_phoff o.cls o.enc res.hdr0) (Hdr.e_phentsize o.cls o.enc res.hdr0)
        (Hdr.e_phnum o.cls o.enc res.hdr0) res.ordered (lay0Of o res.pos0) &&
      looseNW o.cls res.segs res.lay2.secs 0 res.lay2.pos &&
      decide (res.pos3.toNat ≤ res.shoff.toNat)
  | _ => true

/-- the pieces of a `layoutOf` result -/
theorem layoutOf_parts (o : Obj) (h : Bytes) (res : LayoutRes) (hl : layoutOf o h = .ok (some res)) :
    res.hdr0 = saveHdr0 o h ∧
    res.pos0 = save_cursor0 (Hdr.e_ehsize o.cls o.enc res.hdr0) (Hdr.e_phentsize o.cls o.enc res.hdr0)
      (Hdr.e_phnum o.cls o.enc res.hdr0) ∧
    o.segs.mapM (calcSegAlign o.secs) = .ok res.segs0 ∧
    orderedSegments res.segs0 = .ok res.ordered ∧
    res.ordered.foldlM (segsStep o.cls (Hdr.e_phoff o.cls o.enc res.hdr0) (Hdr.e_phentsize o.cls o.enc res.hdr0)
      (Hdr.e_phnum o.cls o.enc res.hdr0)) (some (lay0Of o res.pos0, [])) = .ok (some (res.lay2, res.done)) ∧
    res.segs = res.segs0.map (fun g => (res.done.find? (fun d => d.index == g.index)).getD g) ∧
    (res.secs, res.pos3) = layoutLoose o.cls res.segs res.lay2.secs 0 res.lay2.pos [] ∧
    res.shoff = lst_cursor res.pos3 (lst_error res.pos3) := by
  unfold layoutOf at hl
  simp only [bind, Except.bind] at hl
  cases hm : o.segs.mapM (calcSegAlign o.secs) with
  | error e => rw [hm] at hl; simp at hl
  | ok segs =>
    rw [hm] at hl
    simp only at hl
    cases ho : orderedSegments segs with
    | error e => rw [ho] at hl; simp at hl
    | ok ordered =>
      rw [ho] at hl
      simp only at hl
      split at hl
      · simp at hl
      · rename_i v hfold
        cases v with
        | none => simp [pure, Except.pure] at hl
        | some ld =>
          obtain ⟨lay, done⟩ := ld
          simp only [pure, Except.pure, Except.ok.injEq, Option.some.injEq] at hl
          subst hl
          exact ⟨rfl, rfl, rfl, ho, hfold, rfl, rfl, rfl⟩

theorem lst_cursor_facts (pos : BitVec 64) (h : pos.toNat ≤ (lst_cursor pos (lst_error pos)).toNat) :
    (lst_cursor pos (lst_error pos)).toNat % 16 = 0 ∧ pos.toNat < (lst_cursor pos (lst_error pos)).toNat := by
  have e16 : (BitVec.signExtend 64 16#32) = 16#64 := by decide
  unfold lst_cursor lst_error at h ⊢
  rw [e16] at h ⊢
  have hm : (pos % 16#64).toNat = pos.toNat % 16 := by simp [BitVec.toNat_umod]
  have hs : (16#64 - pos % 16#64).toNat = 16 - pos.toNat % 16 := by
    simp only [BitVec.toNat_sub, hm, BitVec.toNat_ofNat, Nat.reducePow, Nat.reduceMod]; omega
  rw [bv_add_toNat_of_le _ _ h, hs]
  omega

/-- **The monotone cursor argument, composed**: after the three passes every section that was
    placed (generated by a segment, or without a segment) and occupies file space lies between the
    end of the program header table and the section header table, and any two of them are disjoint. -/
theorem layout_packed (o : Obj) (h : Bytes) (res : LayoutRes) (hl : layoutOf o h = .ok (some res))
    (hnw : layoutNW o h = true) (hn : o.secs.length < 65536)
    (h0 : ∀ (i : Nat) (s : SecBuf), o.secs[i]? = some s → s.Occ → s.index ≠ 0) :
    Packed res.pos0.toNat res.pos3.toNat res.secs
      (fun k => res.lay2.Gen k ∨ withoutSegment res.segs k = true) ∧
    LayStep (lay0Of o res.pos0) res.lay2 ∧
    res.pos3.toNat < res.shoff.toNat ∧ res.shoff.toNat % 16 = 0 := by
  unfold layoutNW at hnw
  rw [hl] at hnw
  simp only [Bool.and_eq_true, decide_eq_true_eq] at hnw
  obtain ⟨⟨hnw2, hnw3⟩, hnw4⟩ := hnw
  obtain ⟨-, -, -, -, hfold, -, hloose, hsh⟩ := layoutOf_parts o h res hl
  -- pass 2
  have hinv0 : LayInv res.pos0.toNat (lay0Of o res.pos0) := by
    refine ⟨by simp [lay0Of, Nat.mod_eq_of_lt hn], Nat.le_refl _, h0, ?_, ?_⟩
    · intro i s _ hg; exfalso
      simp only [Layout.Gen, lay0Of, List.getElem?_replicate] at hg
      split at hg <;> simp at hg
    · intro i j a b _ _ _ hg; exfalso
      simp only [Layout.Gen, lay0Of, List.getElem?_replicate] at hg
      split at hg <;> simp at hg
  obtain ⟨hinv2, hstep2⟩ := segsFold_inv _ _ _ _ _ _ _ _ _ _ hinv0 hnw2 hfold
  -- pass 3
  rw [layoutLoose_eq_spec] at hloose
  simp only [List.reverse_nil, List.nil_append, Prod.mk.injEq] at hloose
  obtain ⟨hsecs, hpos3⟩ := hloose
  obtain ⟨flen, fmono, fun_, fpl, ford⟩ := looseSpec_facts o.cls res.segs res.lay2.secs 0 res.lay2.pos hnw3
  simp only [Nat.zero_add] at fun_ fpl ford
  simp only [← hsecs, ← hpos3] at flen fmono fun_ fpl ford
  have hP2 := hinv2.packed
  -- every final section comes from a section of pass 2 at the same position
  have hsrc : ∀ (k : Nat) (s' : SecBuf), res.secs[k]? = some s' → ∃ s, res.lay2.secs[k]? = some s := by
    intro k s' hs'
    have : k < res.lay2.secs.length := by
      rw [← flen]
      rcases Nat.lt_or_ge k res.secs.length with h' | h'
      · exact h'
      · rw [List.getElem?_eq_none h'] at hs'; exact nomatch hs'
    exact ⟨_, List.getElem?_eq_getElem this⟩
  -- description of a final section
  have hdesc : ∀ (k : Nat) (s' : SecBuf), res.secs[k]? = some s' →
      ∃ s, res.lay2.secs[k]? = some s ∧ SecBuf.Moved s s' ∧
        (withoutSegment res.segs k = false → s' = s) ∧
        (withoutSegment res.segs k = true → s.index ≠ 0 →
          res.lay2.pos.toNat ≤ s'.offset.toNat ∧ (lsws_occupies s.stype = true → s'.endN ≤ res.pos3.toNat)) := by
    intro k s' hs'
    obtain ⟨s, hs⟩ := hsrc k s' hs'
    cases hw : withoutSegment res.segs k with
    | false =>
      have := fun_ k s hs hw
      rw [hs'] at this; simp only [Option.some.injEq] at this
      exact ⟨s, hs, by rw [this]; exact SecBuf.Moved.refl s, fun _ => this, fun h => Bool.noConfusion h⟩
    | true =>
      obtain ⟨t, ht, hm, -, -, hr⟩ := fpl k s hs hw
      rw [hs'] at ht; simp only [Option.some.injEq] at ht; subst ht
      exact ⟨s, hs, hm, fun h => Bool.noConfusion h, fun _ hi => ⟨(hr hi).1, (hr hi).2.2.2⟩⟩
  refine ⟨⟨by have := hP2.le; omega, ?_, ?_, ?_⟩, hstep2, ?_, ?_⟩
  · intro k s' hs' ho
    obtain ⟨s, hs, hm, -, -⟩ := hdesc k s' hs'
    rw [hm.index]; exact hP2.nz k s hs ((hm.occ).1 ho)
  · intro k s' hs' hp ho
    obtain ⟨s, hs, hm, hsame, hpl⟩ := hdesc k s' hs'
    have hos : s.Occ := (hm.occ).1 ho
    cases hw : withoutSegment res.segs k with
    | true =>
      have := hpl hw (hP2.nz k s hs hos)
      have h2 := this.2 (lsws_occupies_of_occ hos)
      have := hP2.le
      omega
    | false =>
      have hg : res.lay2.Gen k := by
        rcases hp with hp | hp
        · exact hp
        · rw [hw] at hp; exact nomatch hp
      have := hsame hw; subst this
      have := hP2.inR k s' hs hg ho
      omega
  · intro k1 k2 a' b' hne h1 h2 hp1 hp2 ha hb
    obtain ⟨a, has, hma, hsa, hpa⟩ := hdesc k1 a' h1
    obtain ⟨b, hbs, hmb, hsb, hpb⟩ := hdesc k2 b' h2
    have hoa : a.Occ := (hma.occ).1 ha
    have hob : b.Occ := (hmb.occ).1 hb
    have hia := hP2.nz k1 a has hoa
    have hib := hP2.nz k2 b hbs hob
    cases hw1 : withoutSegment res.segs k1 with
    | true =>
      cases hw2 : withoutSegment res.segs k2 with
      | true =>
        rcases Nat.lt_or_gt_of_ne hne with hlt | hlt
        · left; exact (ford k1 k2 a b a' b' hlt has hbs hw1 hw2 h1 h2 hia hib).2 (lsws_occupies_of_occ hoa)
        · right; exact (ford k2 k1 b a b' a' hlt hbs has hw2 hw1 h2 h1 hib hia).2 (lsws_occupies_of_occ hob)
      | false =>
        have hg : res.lay2.Gen k2 := by
          rcases hp2 with hp | hp
          · exact hp
          · rw [hw2] at hp; exact nomatch hp
        have := hsb hw2; subst this
        have := hP2.inR k2 b' hbs hg hb
        have := (hpa hw1 hia).1
        right; omega
    | false =>
      have hg1 : res.lay2.Gen k1 := by
        rcases hp1 with hp | hp
        · exact hp
        · rw [hw1] at hp; exact nomatch hp
      have := hsa hw1; subst this
      cases hw2 : withoutSegment res.segs k2 with
      | true =>
        have := hP2.inR k1 a' has hg1 ha
        have := (hpb hw2 hib).1
        left; omega
      | false =>
        have hg2 : res.lay2.Gen k2 := by
          rcases hp2 with hp | hp
          · exact hp
          · rw [hw2] at hp; exact nomatch hp
        have := hsb hw2; subst this
        exact hP2.disj k1 k2 a' b' hne has hbs hg1 hg2 ha hb
  · rw [hsh]; exact (lst_cursor_facts res.pos3 (by rw [← hsh]; exact hnw4)).2
  · rw [hsh]; exact (lst_cursor_facts res.pos3 (by rw [← hsh]; exact hnw4)).1

/-! ### writer domain: what one placement does, exactly -/

/-- a generic "every step satisfies `P`" predicate along `wsdLoop` -/
def wsdLoopAll (P : WsdSt → BitVec 16 → Bool) (c : Cls) (g : Seg) (segStart : BitVec 64) :
    List (BitVec 16) → WsdSt → Bool
  | [], _ => true
  | idx :: rest, st =>
    P st idx &&
      match wsdStep c g segStart st idx with
      | .ok (some st') => wsdLoopAll P c g segStart rest st'
      | _ => true

/-- Writer-domain side conditions of one step (for a non-NULL member): the member counts towards the
    memory size (it is SHF_ALLOC and not a TLS NOBITS section outside a PT_TLS segment), the memory
    size does not wrap, and an address assigned by the writer fits the class's address field. -/
def wsdStepDom (c : Cls) (g : Seg) (segStart : BitVec 64) (st : WsdSt) (idx : BitVec 16) : Bool :=
  match st.lay.secs[idx.toNat]?, st.lay.gen[idx.toNat]? with
  | some sec, some generated =>
    if wsd_is_null sec.stype then true else
    match wsdGap g segStart st.lay.pos st.file sec generated with
    | none => true
    | some gap =>
      wsd_counts_mem sec.flags g.stype sec.stype &&
      decide (st.mem.toNat + sec.size.toNat + gap.toNat < 18446744073709551616) &&
      (generated || sec.addrSet || fitsB c (g.vaddr + (st.lay.pos + gap) - segStart))
  | _, _ => true

/-- F14 side condition of one step: a not yet generated member with an explicit address is a
    non-empty section that occupies file space (so that its address determines the gap) -/
def wsdStepAtCursor (st : WsdSt) (idx : BitVec 16) : Bool :=
  match st.lay.secs[idx.toNat]?, st.lay.gen[idx.toNat]? with
  | some sec, some false =>
    wsd_is_null sec.stype || !sec.addrSet || wsd_addr_branch false true sec.stype sec.size
  | _, _ => true

/-- the running sizes of `write_segment_data` are consistent with the cursor -/
structure WsdInv (cov ins : Bool) (segStart : BitVec 64) (st : WsdSt) : Prop where
  fileLe : st.file.toNat ≤ st.mem.toNat
  /-- (tracked for `memsz_covers`) the memory size is at least the distance walked in the file -/
  cur : cov = true → segStart.toNat ≤ st.lay.pos.toNat ∧ st.lay.pos.toNat - segStart.toNat ≤ st.mem.toNat
  /-- (tracked for `member_inside`) so is the file size -/
  fil : ins = true → segStart.toNat ≤ st.lay.pos.toNat ∧ st.lay.pos.toNat - segStart.toNat ≤ st.file.toNat

/-- side condition for `member_inside`: a not yet generated member that does not occupy file space
    (SHT_NOBITS) needs no alignment gap (otherwise the cursor runs ahead of the file size, cf. F13) -/
def wsdStepNoNobitsGap (g : Seg) (segStart : BitVec 64) (st : WsdSt) (idx : BitVec 16) : Bool :=
  match st.lay.secs[idx.toNat]?, st.lay.gen[idx.toNat]? with
  | some sec, some false =>
    wsd_is_null sec.stype || wsd_counts_file sec.stype ||
      (wsdGap g segStart st.lay.pos st.file sec false == some 0)
  | _, _ => true

/-- what a call of `wsdStep`/`wsdLoop` guarantees for the members it generates, on the writer domain -/
structure DomStep (cov ins : Bool) (g : Seg) (segStart : BitVec 64) (st st' : WsdSt) : Prop where
  memMono : st.mem.toNat ≤ st'.mem.toNat
  fileMono : st.file.toNat ≤ st'.file.toNat
  /-- file-occupying members: same distance from the segment start in file and memory -/
  equi : ∀ (k : Nat) (s' : SecBuf), ¬ st.lay.Gen k → st'.lay.Gen k → st'.lay.secs[k]? = some s' → s'.Occ →
    s'.offset - segStart = s'.addr - g.vaddr
  /-- members (other than SHT_NULL ones) are covered by the running memory size -/
  covers : cov = true → ∀ (k : Nat) (s' : SecBuf), ¬ st.lay.Gen k → st'.lay.Gen k → st'.lay.secs[k]? = some s' →
    s'.stype ≠ BitVec.ofNat 32 SHT_NULL → (s'.addr - g.vaddr).toNat + s'.size.toNat ≤ st'.mem.toNat
  /-- file-occupying members lie inside `[segStart, segStart + file size)` -/
  inside : ins = true → ∀ (k : Nat) (s' : SecBuf), ¬ st.lay.Gen k → st'.lay.Gen k → st'.lay.secs[k]? = some s' →
    s'.Occ → segStart.toNat ≤ s'.offset.toNat ∧ s'.endN ≤ segStart.toNat + st'.file.toNat

theorem DomStep.refl (cov ins : Bool) (g : Seg) (segStart : BitVec 64) (st : WsdSt) : DomStep cov ins g segStart st st :=
  ⟨Nat.le_refl _, Nat.le_refl _, fun _ _ h1 h2 => absurd h2 h1, fun _ _ _ h1 h2 => absurd h2 h1,
   fun _ _ _ h1 h2 => absurd h2 h1⟩

theorem DomStep.trans {cov ins : Bool} {g : Seg} {segStart : BitVec 64} {a b c : WsdSt}
    (l1 : LayStep a.lay b.lay) (d1 : DomStep cov ins g segStart a b)
    (l2 : LayStep b.lay c.lay) (d2 : DomStep cov ins g segStart b c) : DomStep cov ins g segStart a c := by
  have hsrc : ∀ (k : Nat) (s' : SecBuf), c.lay.secs[k]? = some s' → b.lay.Gen k → b.lay.secs[k]? = some s' := by
    intro k s' hs' hgb
    have hk : k < b.lay.secs.length := by
      rw [← l2.len]
      rcases Nat.lt_or_ge k c.lay.secs.length with h | h
      · exact h
      · rw [List.getElem?_eq_none h] at hs'; exact nomatch hs'
    have hb : b.lay.secs[k]? = some b.lay.secs[k] := List.getElem?_eq_getElem hk
    have := l2.frame k _ hgb hb
    rw [hs'] at this; rw [hb, this]
  refine ⟨Nat.le_trans d1.memMono d2.memMono, Nat.le_trans d1.fileMono d2.fileMono, ?_, ?_, ?_⟩
  · intro k s' hng hg hs' ho
    by_cases hgb : b.lay.Gen k
    · exact d1.equi k s' hng hgb (hsrc k s' hs' hgb) ho
    · exact d2.equi k s' hgb hg hs' ho
  · intro hc k s' hng hg hs' hnn
    by_cases hgb : b.lay.Gen k
    · have := d1.covers hc k s' hng hgb (hsrc k s' hs' hgb) hnn
      have := d2.memMono
      omega
    · exact d2.covers hc k s' hgb hg hs' hnn
  · intro hc k s' hng hg hs' ho
    by_cases hgb : b.lay.Gen k
    · have := d1.inside hc k s' hng hgb (hsrc k s' hs' hgb) ho
      have := d2.fileMono
      omega
    · exact d2.inside hc k s' hgb hg hs' ho

/-- the three things `wsdStep` can do when it does not abort -/
theorem wsdStep_cases (c : Cls) (g : Seg) (segStart : BitVec 64) (st st' : WsdSt) (idx : BitVec 16)
    (h : wsdStep c g segStart st idx = .ok (some st')) :
    ∃ sec generated, st.lay.secs[idx.toNat]? = some sec ∧ st.lay.gen[idx.toNat]? = some generated ∧
      ((wsd_is_null sec.stype = true ∧
          st' = { st with lay := { st.lay with gen := st.lay.gen.set idx.toNat true } }) ∨
       (wsd_is_null sec.stype = false ∧ ∃ gap, wsdGap g segStart st.lay.pos st.file sec generated = some gap ∧
          ((generated = true ∧ st' = { st with
              mem := if wsd_counts_mem sec.flags g.stype sec.stype then wsd_mem_add st.mem sec.size gap else st.mem,
              file := if wsd_counts_file sec.stype then wsd_file_add st.file sec.size gap else st.file }) ∨
           (generated = false ∧ st' =
            { lay := { secs := st.lay.secs.set idx.toNat (wsdPlace c g segStart st.lay.pos gap sec).1,
                       pos := (wsdPlace c g segStart st.lay.pos gap sec).2,
                       gen := st.lay.gen.set idx.toNat true },
              mem := if wsd_counts_mem sec.flags g.stype sec.stype then wsd_mem_add st.mem sec.size gap else st.mem,
              file := if wsd_counts_file sec.stype then wsd_file_add st.file sec.size gap else st.file })))) := by
  rw [wsdStep_eq] at h
  cases hsec : st.lay.secs[idx.toNat]? with
  | none => rw [hsec] at h; simp [throw, throwThe, MonadExceptOf.throw] at h
  | some sec =>
  cases hgen : st.lay.gen[idx.toNat]? with
  | none => rw [hsec, hgen] at h; simp [throw, throwThe, MonadExceptOf.throw] at h
  | some generated =>
  rw [hsec, hgen] at h
  simp only at h
  refine ⟨sec, generated, rfl, rfl, ?_⟩
  by_cases hnull : wsd_is_null sec.stype = true
  · simp only [hnull, if_true, pure, Except.pure, Except.ok.injEq, Option.some.injEq] at h
    exact Or.inl ⟨hnull, h.symm⟩
  · have hnull' : wsd_is_null sec.stype = false := by simpa using hnull
    simp only [hnull', Bool.false_eq_true, if_false] at h
    right
    refine ⟨hnull', ?_⟩
    cases hgap : wsdGap g segStart st.lay.pos st.file sec generated with
    | none => rw [hgap] at h; simp [pure, Except.pure] at h
    | some gap =>
      rw [hgap] at h
      simp only at h
      refine ⟨gap, rfl, ?_⟩
      cases generated with
      | true =>
        simp only [if_true, pure, Except.pure, Except.ok.injEq, Option.some.injEq] at h
        exact Or.inl ⟨rfl, h.symm⟩
      | false =>
        simp only [Bool.false_eq_true, if_false, pure, Except.pure, Except.ok.injEq, Option.some.injEq] at h
        exact Or.inr ⟨rfl, h.symm⟩

theorem wsd_mem_add_toNat (m sz gap : BitVec 64)
    (h : m.toNat + sz.toNat + gap.toNat < 18446744073709551616) :
    (wsd_mem_add m sz gap).toNat = m.toNat + sz.toNat + gap.toNat := by
  unfold wsd_mem_add; bv_omega

theorem wsd_file_add_toNat (f m sz gap : BitVec 64) (hfm : f.toNat ≤ m.toNat)
    (h : m.toNat + sz.toNat + gap.toNat < 18446744073709551616) :
    (wsd_file_add f sz gap).toNat = f.toNat + sz.toNat + gap.toNat := by
  unfold wsd_file_add; bv_omega

theorem wsd_file_add_le (f m sz gap : BitVec 64) (hfm : f.toNat ≤ m.toNat)
    (h : m.toNat + sz.toNat + gap.toNat < 18446744073709551616) :
    (wsd_file_add f sz gap).toNat ≤ m.toNat + sz.toNat + gap.toNat := by
  unfold wsd_file_add; bv_omega

/-- one member on the writer domain -/
theorem wsdStep_dom (cov ins : Bool) (c : Cls) (g : Seg) (segStart : BitVec 64) (st st' : WsdSt) (idx : BitVec 16)
    (lo : Nat) (hinv : LayInv lo st.lay) (hw : WsdInv cov ins segStart st)
    (hnw : wsdStepNW c g segStart st idx = true) (hdom : wsdStepDom c g segStart st idx = true)
    (hcur : cov = true → wsdStepAtCursor st idx = true)
    (hins : ins = true → wsdStepNoNobitsGap g segStart st idx = true)
    (h : wsdStep c g segStart st idx = .ok (some st')) :
    WsdInv cov ins segStart st' ∧ DomStep cov ins g segStart st st' := by
  obtain ⟨sec, generated, hsec, hgen, hcases⟩ := wsdStep_cases c g segStart st st' idx h
  have hilen : idx.toNat < st.lay.gen.length := by
    rcases Nat.lt_or_ge idx.toNat st.lay.gen.length with h' | h'
    · exact h'
    · rw [List.getElem?_eq_none h'] at hgen; exact nomatch hgen
  have hslen : idx.toNat < st.lay.secs.length := by rw [← hinv.len]; exact hilen
  have hG : ∀ k, (st.lay.gen.set idx.toNat true)[k]? = some true ↔
      (st.lay.Gen k ∨ k = idx.toNat) := fun k => getElem?_set_true_iff _ _ _ hilen
  unfold wsdStepDom at hdom
  rw [hsec, hgen] at hdom
  simp only at hdom
  rcases hcases with ⟨hnull, rfl⟩ | ⟨hnull, gap, hgap, hrest⟩
  · -- SHT_NULL member
    refine ⟨⟨hw.fileLe, hw.cur, hw.fil⟩, Nat.le_refl _, Nat.le_refl _, ?_, ?_, ?_⟩
    · intro k s' hng hg hs' ho
      rcases (hG k).1 hg with h' | h'
      · exact absurd h' hng
      · subst h'; simp only at hs'; rw [hsec] at hs'; simp only [Option.some.injEq] at hs'; subst hs'
        simp only [wsd_is_null, beq_iff_eq] at hnull
        exact absurd hnull.symm ho.2.1
    rotate_left
    · intro _ k s' hng hg hs' ho
      rcases (hG k).1 hg with h' | h'
      · exact absurd h' hng
      · subst h'; simp only at hs'; rw [hsec] at hs'; simp only [Option.some.injEq] at hs'; subst hs'
        simp only [wsd_is_null, beq_iff_eq] at hnull
        exact absurd hnull.symm ho.2.1
    · intro _ k s' hng hg hs' hnn
      rcases (hG k).1 hg with h' | h'
      · exact absurd h' hng
      · subst h'; simp only at hs'; rw [hsec] at hs'; simp only [Option.some.injEq] at hs'; subst hs'
        simp only [wsd_is_null, beq_iff_eq] at hnull
        exact absurd hnull.symm hnn
  · simp only [hnull, Bool.false_eq_true, if_false, hgap, Bool.and_eq_true, decide_eq_true_eq,
      Bool.or_eq_true] at hdom
    obtain ⟨⟨hcm, hmnw⟩, hafit⟩ := hdom
    have hmem : (wsd_mem_add st.mem sec.size gap).toNat = st.mem.toNat + sec.size.toNat + gap.toNat :=
      wsd_mem_add_toNat _ _ _ hmnw
    have hfile : (if wsd_counts_file sec.stype = true then wsd_file_add st.file sec.size gap else st.file).toNat ≤
        st.mem.toNat + sec.size.toNat + gap.toNat := by
      split
      · exact wsd_file_add_le _ _ _ _ hw.fileLe hmnw
      · have := hw.fileLe; omega
    have hfmono : st.file.toNat ≤
        (if wsd_counts_file sec.stype = true then wsd_file_add st.file sec.size gap else st.file).toNat := by
      split
      · rw [wsd_file_add_toNat _ _ _ _ hw.fileLe hmnw]; omega
      · exact Nat.le_refl _
    rcases hrest with ⟨hgen', rfl⟩ | ⟨hgen', rfl⟩
    · -- already generated: only the counters move
      simp only [hcm, if_true]
      refine ⟨⟨by simp only; rw [hmem]; exact hfile,
          fun hc => ⟨(hw.cur hc).1, by simp only; rw [hmem]; have := (hw.cur hc).2; omega⟩,
          fun hc => ⟨(hw.fil hc).1, by simp only; have := (hw.fil hc).2; omega⟩⟩,
        by simp only; rw [hmem]; omega, hfmono, fun _ _ h1 h2 => absurd h2 h1, fun _ _ _ h1 h2 => absurd h2 h1,
        fun _ _ _ h1 h2 => absurd h2 h1⟩
    · -- placed now
      subst hgen'
      simp only [hcm, if_true]
      unfold wsdStepNW at hnw
      rw [hsec, hgen] at hnw
      simp only [hnull, Bool.false_eq_true, if_false, hgap, Bool.and_eq_true, decide_eq_true_eq] at hnw
      obtain ⟨⟨h01, h12⟩, hfit⟩ := hnw
      have hmoved := wsdPlace_moved c g segStart st.lay.pos gap sec
      have hnn : sec.stype ≠ BitVec.ofNat 32 SHT_NULL := by
        intro e; simp [wsd_is_null, e] at hnull
      -- facts that need index ≠ 0 are only used for sections that occupy file space
      have hpos' : st.lay.pos.toNat ≤ (wsdPlace c g segStart st.lay.pos gap sec).2.toNat := by
        have : (wsd_cursor_gap st.lay.pos gap).toNat ≤ (wsdPlace c g segStart st.lay.pos gap sec).2.toNat := h12
        omega
      -- cursor arithmetic that does not need the offset to be stored
      have hp1 : (st.lay.pos + gap).toNat = st.lay.pos.toNat + gap.toNat := by
        simp only [wsd_cursor_gap] at h01; exact bv_add_toNat_of_le _ _ h01
      have hp2 : (wsdPlace c g segStart st.lay.pos gap sec).2.toNat =
          st.lay.pos.toNat + gap.toNat + (if wsd_counts_file sec.stype then sec.size.toNat else 0) := by
        have h12' := h12
        unfold wsdPlace at h12' ⊢
        simp only [wsd_cursor_gap] at h12' ⊢
        have e1 : ∀ sa : SecBuf, sa.stype = sec.stype → sa.size = sec.size →
            (st.lay.pos + gap).toNat ≤ (if wsd_counts_file (setOffset c sa (st.lay.pos + gap)).stype = true then
              wsd_advance (st.lay.pos + gap) (setOffset c sa (st.lay.pos + gap)).size else st.lay.pos + gap).toNat →
            (if wsd_counts_file (setOffset c sa (st.lay.pos + gap)).stype = true then
              wsd_advance (st.lay.pos + gap) (setOffset c sa (st.lay.pos + gap)).size else st.lay.pos + gap).toNat =
            st.lay.pos.toNat + gap.toNat + (if wsd_counts_file sec.stype then sec.size.toNat else 0) := by
          intro sa h1 h2 hle
          rw [(setOffset_moved c sa _).stype, (setOffset_moved c sa _).size, h1, h2] at hle ⊢
          by_cases hcf : wsd_counts_file sec.stype = true
          · simp only [hcf, if_true, wsd_advance] at hle ⊢
            rw [bv_add_toNat_of_le _ _ hle, hp1]
          · have hcf' : wsd_counts_file sec.stype = false := by simpa using hcf
            simp only [hcf', Bool.false_eq_true, if_false, Nat.add_zero]; exact hp1
        cases has : sec.addrSet with
        | true =>
          simp only [has, Bool.not_true, Bool.false_eq_true, ↓reduceIte] at h12' ⊢
          exact e1 sec rfl rfl h12'
        | false =>
          simp only [has, Bool.not_false, Bool.false_eq_true, ↓reduceIte] at h12' ⊢
          exact e1 { sec with addr := truncA c (wsd_new_addr g.vaddr (st.lay.pos + gap) segStart), addrSet := true } rfl rfl h12'
      -- the file size side condition
      have hfil' : ins = true → segStart.toNat ≤ (wsdPlace c g segStart st.lay.pos gap sec).2.toNat ∧
          (wsdPlace c g segStart st.lay.pos gap sec).2.toNat - segStart.toNat ≤
            (if wsd_counts_file sec.stype = true then wsd_file_add st.file sec.size gap else st.file).toNat := by
        intro hc
        obtain ⟨f1, f2⟩ := hw.fil hc
        refine ⟨by omega, ?_⟩
        rw [hp2]
        by_cases hcf : wsd_counts_file sec.stype = true
        · simp only [hcf, if_true]
          rw [wsd_file_add_toNat _ _ _ _ hw.fileLe hmnw]; omega
        · have hcf' : wsd_counts_file sec.stype = false := by simpa using hcf
          simp only [hcf', Bool.false_eq_true, if_false, Nat.add_zero]
          have hz := hins hc
          unfold wsdStepNoNobitsGap at hz
          rw [hsec, hgen] at hz
          simp only [hnull, hcf', Bool.false_or, beq_iff_eq] at hz
          rw [hgap] at hz
          simp only [Option.some.injEq] at hz
          have hz0 : gap.toNat = 0 := by rw [hz]; rfl
          omega
      refine ⟨⟨by simp only; rw [hmem]; exact hfile, ?_, hfil'⟩, by simp only; rw [hmem]; omega, hfmono, ?_, ?_, ?_⟩
      · intro hc
        obtain ⟨hstart, hmg⟩ := hw.cur hc
        refine ⟨by simp only; omega, ?_⟩
        simp only; rw [hmem, hp2]; split <;> omega
      · -- equidistance
        intro k s' hng hg hs' ho
        rcases (hG k).1 hg with h' | h'
        · exact absurd h' hng
        · subst h'
          simp only [List.getElem?_set, if_true, hslen, Option.some.injEq] at hs'
          subst hs'
          have hosec : sec.Occ := (hmoved.occ).1 ho
          have hidx : sec.index ≠ 0 := hinv.packed.nz _ _ hsec hosec
          obtain ⟨foff, -, -, faddr⟩ := wsdPlace_facts c g segStart st.lay.pos gap sec hidx h01 h12 hfit
          rw [foff, faddr]
          cases has : sec.addrSet with
          | true =>
            simp only [if_true]
            have hb : wsd_addr_branch false true sec.stype sec.size = true := by
              simp only [wsd_addr_branch, Bool.not_false, Bool.true_and, Bool.and_eq_true, bne_iff_ne, ne_eq]
              exact ⟨⟨fun e => hosec.1 e.symm, fun e => hosec.2.1 e.symm⟩, fun e => hosec.2.2 (by
                have : (BitVec.signExtend 64 0#32) = 0#64 := by decide
                rw [this] at e; exact e.symm)⟩
            unfold wsdGap at hgap
            rw [has, hb] at hgap
            simp only [if_true] at hgap
            split at hgap
            · exact nomatch hgap
            · simp only [Option.some.injEq] at hgap
              subst hgap
              simp only [wsd_gap_addr, wsd_req_offset, wsd_cur_offset]
              bv_omega
          | false =>
            simp only [Bool.false_eq_true, if_false]
            have hf : fitsB c (g.vaddr + (st.lay.pos + gap) - segStart) = true := by
              rcases hafit with h' | h'
              · rcases h' with h' | h'
                · exact nomatch h'
                · rw [has] at h'; exact nomatch h'
              · exact h'
            rw [truncA_of_fits c _ hf]
            bv_omega
      · -- coverage
        intro hc k s' hng hg hs' hnn'
        obtain ⟨hstart, hmg⟩ := hw.cur hc
        rcases (hG k).1 hg with h' | h'
        · exact absurd h' hng
        · subst h'
          simp only [List.getElem?_set, if_true, hslen, Option.some.injEq] at hs'
          subst hs'
          have hcur' := hcur hc
          unfold wsdStepAtCursor at hcur'
          rw [hsec, hgen] at hcur'
          simp only [hnull, Bool.false_or, Bool.or_eq_true, Bool.not_eq_true'] at hcur'
          simp only
          rw [hmem, hmoved.size]
          -- the address of the placed section
          have haddr : (wsdPlace c g segStart st.lay.pos gap sec).1.addr =
              (if sec.addrSet then sec.addr else truncA c (g.vaddr + (st.lay.pos + gap) - segStart)) := by
            unfold wsdPlace
            simp only [wsd_cursor_gap, wsd_new_addr]
            have : ∀ sa : SecBuf, (setOffset c sa (st.lay.pos + gap)).addr = sa.addr := by
              intro sa; unfold setOffset; split <;> rfl
            rw [this]
            cases sec.addrSet <;> simp
          rw [haddr]
          cases has : sec.addrSet with
          | true =>
            simp only [if_true]
            rcases hcur' with h' | hb
            · rw [has] at h'; exact nomatch h'
            · unfold wsdGap at hgap
              rw [has, hb] at hgap
              simp only [if_true] at hgap
              split at hgap
              · exact nomatch hgap
              · rename_i hlt
                simp only [Option.some.injEq] at hgap
                subst hgap
                simp only [wsd_gap_addr, wsd_req_offset, wsd_cur_offset, wsd_req_lt_cur, BitVec.ult,
                  decide_eq_true_eq] at hlt ⊢
                bv_omega
          | false =>
            simp only [Bool.false_eq_true, if_false]
            have hf : fitsB c (g.vaddr + (st.lay.pos + gap) - segStart) = true := by
              rcases hafit with h' | h'
              · rcases h' with h' | h'
                · exact nomatch h'
                · rw [has] at h'; exact nomatch h'
              · exact h'
            rw [truncA_of_fits c _ hf]
            bv_omega
      · -- inside the file range
        intro hc k s' hng hg hs' ho
        obtain ⟨f1, f2⟩ := hw.fil hc
        obtain ⟨g1, g2⟩ := hfil' hc
        rcases (hG k).1 hg with h' | h'
        · exact absurd h' hng
        · subst h'
          simp only [List.getElem?_set, if_true, hslen, Option.some.injEq] at hs'
          subst hs'
          have hosec : sec.Occ := (hmoved.occ).1 ho
          have hidx : sec.index ≠ 0 := hinv.packed.nz _ _ hsec hosec
          obtain ⟨foff, fp1, fp2, -⟩ := wsdPlace_facts c g segStart st.lay.pos gap sec hidx h01 h12 hfit
          have hcf : wsd_counts_file sec.stype = true := by
            simp only [wsd_counts_file, bne_iff_ne, ne_eq]; exact fun e => hosec.1 e.symm
          simp only [hcf, if_true] at fp2 g2 ⊢
          unfold SecBuf.endN
          rw [foff, hmoved.size, fp1]
          omega

/-! ### writer domain: the segment start is congruent to the virtual address -/

theorem lseg_align_toNat (align : BitVec 64) : (lseg_align align).toNat = max align.toNat 1 := by
  have e0 : (BitVec.signExtend 64 0#32) = 0#64 := by decide
  have e1 : (BitVec.signExtend 64 1#32) = 1#64 := by decide
  unfold lseg_align
  rw [e0, e1]
  by_cases h : BitVec.ult 0#64 align = true
  · simp only [h, if_true]
    simp only [BitVec.ult, BitVec.toNat_ofNat, Nat.reducePow, Nat.zero_mod, decide_eq_true_eq] at h
    omega
  · simp only [h, Bool.false_eq_true, if_false]
    simp only [BitVec.ult, BitVec.toNat_ofNat, Nat.reducePow, Nat.zero_mod, decide_eq_true_eq] at h
    simp only [BitVec.toNat_ofNat, Nat.reducePow, Nat.reduceMod]
    omega

private theorem nat_congr_step (p a r : Nat) (x : Nat) (ha : 0 < a) (hr : r < a)
    (hx : x = (if p % a ≤ r then r - p % a else a + r - p % a)) : (p + x) % a = r := by
  have hd := Nat.div_add_mod p a
  have hc := Nat.mod_lt p ha
  by_cases h : p % a ≤ r
  · simp only [h, if_true] at hx
    have : p + x = r + a * (p / a) := by omega
    rw [this, Nat.add_mul_mod_self_left, Nat.mod_eq_of_lt hr]
  · simp only [h, if_false] at hx
    have : p + x = r + a * (p / a + 1) := by rw [Nat.mul_add, Nat.mul_one]; omega
    rw [this, Nat.add_mul_mod_self_left, Nat.mod_eq_of_lt hr]

theorem lseg_advance_congr (pos vaddr align : BitVec 64)
    (hal : align.toNat ≤ 9223372036854775808)
    (hle : pos.toNat ≤ (lseg_advance pos align (lseg_adjustment (lseg_req_page vaddr (lseg_align align))
      (lseg_cur_page pos (lseg_align align))) (lseg_align align)).toNat) :
    (lseg_advance pos align (lseg_adjustment (lseg_req_page vaddr (lseg_align align))
      (lseg_cur_page pos (lseg_align align))) (lseg_align align)).toNat % (max align.toNat 1) =
    vaddr.toNat % (max align.toNat 1) := by
  have hA := lseg_align_toNat align
  generalize lseg_align align = A at *
  unfold lseg_advance at hle ⊢
  rw [bv_add_toNat_of_le _ _ hle]
  have hp := pos.isLt; have hv := vaddr.isLt; have ha := align.isLt
  have hapos : 0 < A.toNat := by omega
  have hr := Nat.mod_lt vaddr.toNat hapos
  have hc := Nat.mod_lt pos.toNat hapos
  rw [← hA]
  apply nat_congr_step _ _ _ _ hapos hr
  simp only [lseg_adjustment, lseg_req_page, lseg_cur_page, BitVec.toNat_umod, BitVec.toNat_add,
    BitVec.toNat_sub, Nat.reducePow]
  by_cases hz : align.toNat = 0
  · have : A.toNat = 1 := by omega
    simp only [this, Nat.mod_one]; simp
  · have hAa : A.toNat = align.toNat := by omega
    rw [hAa] at hr hc ⊢
    by_cases h : pos.toNat % align.toNat ≤ vaddr.toNat % align.toNat
    · simp only [h, if_true]
      have e : (align.toNat + (18446744073709551616 - pos.toNat % align.toNat + vaddr.toNat % align.toNat) % 18446744073709551616) % 18446744073709551616
          = align.toNat + (vaddr.toNat % align.toNat - pos.toNat % align.toNat) := by omega
      rw [e, Nat.add_mod_left, Nat.mod_eq_of_lt (by omega)]
    · simp only [h, if_false]
      have e : (align.toNat + (18446744073709551616 - pos.toNat % align.toNat + vaddr.toNat % align.toNat) % 18446744073709551616) % 18446744073709551616
          = align.toNat + vaddr.toNat % align.toNat - pos.toNat % align.toNat := by omega
      rw [e, Nat.mod_eq_of_lt (by omega)]

/-! ### writer domain: `write_segment_data` as a whole, one segment -/

theorem wsdLoop_dom (cov ins : Bool) (c : Cls) (g : Seg) (segStart : BitVec 64) (l : List (BitVec 16))
    (st st' : WsdSt) (lo : Nat) (hinv : LayInv lo st.lay) (hw : WsdInv cov ins segStart st)
    (hnw : wsdLoopNW c g segStart l st = true)
    (hdom : wsdLoopAll (wsdStepDom c g segStart) c g segStart l st = true)
    (hcur : cov = true → wsdLoopAll (fun st idx => wsdStepAtCursor st idx) c g segStart l st = true)
    (hins : ins = true → wsdLoopAll (wsdStepNoNobitsGap g segStart) c g segStart l st = true)
    (h : wsdLoop c g segStart l st = .ok (some st')) :
    WsdInv cov ins segStart st' ∧ DomStep cov ins g segStart st st' := by
  induction l generalizing st with
  | nil =>
    simp only [wsdLoop, pure, Except.pure, Except.ok.injEq, Option.some.injEq] at h
    subst h; exact ⟨hw, DomStep.refl _ _ _ _ _⟩
  | cons idx rest ih =>
    unfold wsdLoop at h
    unfold wsdLoopNW at hnw
    unfold wsdLoopAll at hdom hcur hins
    cases hs : wsdStep c g segStart st idx with
    | error e => rw [hs] at h; simp [bind, Except.bind] at h
    | ok r =>
      rw [hs] at h hnw hdom hcur hins
      cases r with
      | none => simp [bind, Except.bind, pure, Except.pure] at h
      | some st1 =>
        simp only [bind, Except.bind, Bool.and_eq_true] at h hnw hdom hcur hins
        obtain ⟨i1, s1⟩ := wsdStep_inv c g segStart st st1 idx lo hinv hnw.1 hs
        obtain ⟨w1, d1⟩ := wsdStep_dom cov ins c g segStart st st1 idx lo hinv hw hnw.1 hdom.1
          (fun hc => (hcur hc).1) (fun hc => (hins hc).1) hs
        obtain ⟨w2, d2⟩ := ih st1 i1 w1 hnw.2 hdom.2 (fun hc => (hcur hc).2) (fun hc => (hins hc).2) h
        obtain ⟨-, s2⟩ := wsdLoop_inv c g segStart rest st1 st' lo i1 hnw.2 h
        exact ⟨w2, DomStep.trans s1 d1 s2 d2⟩

/-- the pieces of a successful `layoutSegment` -/
theorem layoutSegment_parts (c : Cls) (hdrPhoff : BitVec 64) (phentsize phnum : BitVec 16) (lay lay' : Layout)
    (g g' : Seg) (h : layoutSegment c hdrPhoff phentsize phnum lay g = .ok (some (lay', g'))) :
    ∃ fg r st, segFirstGen lay g = .ok fg ∧ segInit c hdrPhoff phentsize phnum lay g fg = .ok r ∧
      wsdLoop c g r.2.1 g.secs { lay := r.1, mem := r.2.2.1, file := r.2.2.2 } = .ok (some st) ∧
      lay' = st.lay ∧ g' = segFinish c g r.2.1 st := by
  rw [layoutSegment_eq] at h
  cases hfg : segFirstGen lay g with
  | error e => rw [hfg] at h; simp [bind, Except.bind] at h
  | ok fg =>
    rw [hfg] at h
    simp only [bind, Except.bind] at h
    cases hin : segInit c hdrPhoff phentsize phnum lay g fg with
    | error e => rw [hin] at h; simp at h
    | ok r =>
      rw [hin] at h
      simp only at h
      cases hw : wsdLoop c g r.2.1 g.secs { lay := r.1, mem := r.2.2.1, file := r.2.2.2 } with
      | error e => rw [hw] at h; simp at h
      | ok w =>
        rw [hw] at h
        cases w with
        | none => simp [pure, Except.pure] at h
        | some st =>
          simp only [pure, Except.pure, Except.ok.injEq, Option.some.injEq, Prod.mk.injEq] at h
          exact ⟨fg, r, st, rfl, hin, hw, h.1.symm, h.2.symm⟩

theorem segInit_sizes (c : Cls) (hdrPhoff : BitVec 64) (phentsize phnum : BitVec 16) (lay : Layout) (g : Seg)
    (fg : Bool) (r : Layout × BitVec 64 × BitVec 64 × BitVec 64)
    (h : segInit c hdrPhoff phentsize phnum lay g fg = .ok r) : r.2.2.1 = r.2.2.2 := by
  unfold segInit at h
  simp only at h
  repeat' split at h
  all_goals first
    | (simp only [pure, Except.pure, Except.ok.injEq] at h; subst h; rfl)
    | (simp [throw, throwThe, MonadExceptOf.throw] at h)

/-- a segment that starts a fresh run: not the PHDR / offset-0 special cases, and its first member
    has not been generated yet — the cursor is advanced to `offset ≡ vaddr (mod align)` -/
def segFresh (lay : Layout) (g : Seg) : Prop :=
  lseg_is_phdr g.stype (BitVec.ofNat 16 g.secs.length) = false ∧ lseg_offset0 g.offsetSet g.offset = false ∧
  ∃ f, g.secs.head? = some f ∧ lay.gen[f.toNat]? = some false

theorem segInit_fresh (c : Cls) (hdrPhoff : BitVec 64) (phentsize phnum : BitVec 16) (lay : Layout) (g : Seg)
    (hf : segFresh lay g) :
    segFirstGen lay g = .ok false ∧
    segInit c hdrPhoff phentsize phnum lay g false =
      .ok ({ lay with pos := lseg_advance lay.pos g.align (lseg_adjustment (lseg_req_page g.vaddr (lseg_align g.align))
              (lseg_cur_page lay.pos (lseg_align g.align))) (lseg_align g.align) },
           lseg_advance lay.pos g.align (lseg_adjustment (lseg_req_page g.vaddr (lseg_align g.align))
              (lseg_cur_page lay.pos (lseg_align g.align))) (lseg_align g.align), 0, 0) := by
  obtain ⟨h1, h2, f, hh, hg⟩ := hf
  have hlen : g.secs.length > 0 := by
    cases hs : g.secs with
    | nil => rw [hs] at hh; exact nomatch hh
    | cons a b => simp
  constructor
  · unfold segFirstGen; rw [hh]; simp only; rw [hg]; rfl
  · unfold segInit
    simp only [h1, h2, Bool.false_eq_true, if_false, hlen, decide_true, Bool.not_false, Bool.and_self, if_true]
    rfl

/-- writer-domain side conditions while laying out one segment (`wsdStepDom` for every member, and —
    if requested — `wsdStepAtCursor` (F14) / `wsdStepNoNobitsGap`; the final memory size fits the
    class's field) -/
def segDom (cov ins : Bool) (c : Cls) (hdrPhoff : BitVec 64) (phentsize phnum : BitVec 16) (lay : Layout) (g : Seg) : Bool :=
  match segFirstGen lay g with
  | .ok fg =>
    match segInit c hdrPhoff phentsize phnum lay g fg with
    | .ok r =>
      wsdLoopAll (wsdStepDom c g r.2.1) c g r.2.1 g.secs { lay := r.1, mem := r.2.2.1, file := r.2.2.2 } &&
      (!cov || wsdLoopAll (fun st idx => wsdStepAtCursor st idx) c g r.2.1 g.secs { lay := r.1, mem := r.2.2.1, file := r.2.2.2 }) &&
      (!ins || wsdLoopAll (wsdStepNoNobitsGap g r.2.1) c g r.2.1 g.secs { lay := r.1, mem := r.2.2.1, file := r.2.2.2 }) &&
      (match wsdLoop c g r.2.1 g.secs { lay := r.1, mem := r.2.2.1, file := r.2.2.2 } with
       | .ok (some st) => fitsB c st.mem
       | _ => true)
    | _ => true
  | _ => true

theorem fitsB_mono (c : Cls) (a b : BitVec 64) (h : a.toNat ≤ b.toNat) (hb : fitsB c b = true) : fitsB c a = true := by
  cases c with
  | c64 => rfl
  | c32 => simp only [fitsB, decide_eq_true_eq] at hb ⊢; omega

theorem segFinish_fields (c : Cls) (g : Seg) (segStart : BitVec 64) (st : WsdSt) :
    (segFinish c g segStart st).offset = truncA c segStart ∧
    (segFinish c g segStart st).filesz = truncA c st.file ∧
    (segFinish c g segStart st).memsz = (if lseg_memsz_lt g.memsz st.mem then truncA c st.mem else g.memsz) ∧
    (segFinish c g segStart st).vaddr = g.vaddr ∧ (segFinish c g segStart st).align = g.align ∧
    (segFinish c g segStart st).secs = g.secs ∧ (segFinish c g segStart st).stype = g.stype ∧
    (segFinish c g segStart st).index = g.index := by
  unfold segFinish
  simp only
  split <;> simp

/-- One segment on the writer domain.  `lay`/`g`: state and segment before, `lay'`/`g'`: after.
    Members "generated by this segment" are those with `¬ lay.Gen k` and `lay'.Gen k`. -/
theorem layoutSegment_dom (cov ins : Bool) (c : Cls) (hdrPhoff : BitVec 64) (phentsize phnum : BitVec 16)
    (lay lay' : Layout) (g g' : Seg) (lo : Nat) (hinv : LayInv lo lay)
    (hnw : segNW c hdrPhoff phentsize phnum lay g = true)
    (hdom : segDom cov ins c hdrPhoff phentsize phnum lay g = true)
    (h : layoutSegment c hdrPhoff phentsize phnum lay g = .ok (some (lay', g'))) :
    -- memsz ≥ filesz
    g'.filesz.toNat ≤ g'.memsz.toNat ∧
    -- file-occupying members generated here are equidistant
    (∀ (k : Nat) (s' : SecBuf), ¬ lay.Gen k → lay'.Gen k → lay'.secs[k]? = some s' → s'.Occ →
      s'.offset - g'.offset = s'.addr - g'.vaddr) ∧
    -- for a segment that starts a fresh run:
    (segFresh lay g →
      (g.align.toNat ≤ 9223372036854775808 →
        g'.offset.toNat % (max g'.align.toNat 1) = g'.vaddr.toNat % (max g'.align.toNat 1)) ∧
      (cov = true → ∀ (k : Nat) (s' : SecBuf), ¬ lay.Gen k → lay'.Gen k → lay'.secs[k]? = some s' →
        s'.stype ≠ BitVec.ofNat 32 SHT_NULL → (s'.addr - g'.vaddr).toNat + s'.size.toNat ≤ g'.memsz.toNat) ∧
      (ins = true → ∀ (k : Nat) (s' : SecBuf), ¬ lay.Gen k → lay'.Gen k → lay'.secs[k]? = some s' → s'.Occ →
        g'.offset.toNat ≤ s'.offset.toNat ∧ s'.endN ≤ g'.offset.toNat + g'.filesz.toNat)) := by
  obtain ⟨fg, r, st, hfg, hin, hloop, rfl, rfl⟩ := layoutSegment_parts c hdrPhoff phentsize phnum lay lay' g g' h
  unfold segNW at hnw
  unfold segDom at hdom
  rw [hfg] at hnw hdom
  simp only at hnw hdom
  rw [hin] at hnw hdom
  simp only [hloop, Bool.and_eq_true, decide_eq_true_eq, Bool.or_eq_true, Bool.not_eq_true'] at hnw hdom
  obtain ⟨⟨hpos, hsfit⟩, hlnw⟩ := hnw
  obtain ⟨⟨⟨hd1, hd2⟩, hd3⟩, hmfit⟩ := hdom
  have hl := segInit_lay c hdrPhoff phentsize phnum lay g fg r hin
  have hinv1 : LayInv lo r.1 := by rw [hl]; exact ⟨hinv.len, hinv.packed.mono hpos⟩
  have hsz := segInit_sizes c hdrPhoff phentsize phnum lay g fg r hin
  obtain ⟨hoff, hfs, hms, hva, hal, -, -, -⟩ := segFinish_fields c g r.2.1 st
  have hG1 : ∀ k, (r.1).Gen k ↔ lay.Gen k := by intro k; rw [hl]; exact Iff.rfl
  rw [hoff, hfs, hms, hva, hal, truncA_of_fits c _ hsfit]
  -- the unconditional part: run the loop with both flags off
  have hw0 : WsdInv false false r.2.1 { lay := r.1, mem := r.2.2.1, file := r.2.2.2 } :=
    ⟨by simp only; rw [hsz]; exact Nat.le_refl _, (fun h => nomatch h), (fun h => nomatch h)⟩
  obtain ⟨w0, d0⟩ := wsdLoop_dom false false c g r.2.1 g.secs _ st lo hinv1 hw0 hlnw hd1
    ((fun h => nomatch h)) ((fun h => nomatch h)) hloop
  have hffit : fitsB c st.file = true := fitsB_mono c _ _ w0.fileLe hmfit
  have hmem : st.mem.toNat ≤ (if lseg_memsz_lt g.memsz st.mem then truncA c st.mem else g.memsz).toNat := by
    split
    · rw [truncA_of_fits c _ hmfit]; exact Nat.le_refl _
    · rename_i hlt
      simp only [lseg_memsz_lt, BitVec.ult, decide_eq_true_eq] at hlt
      omega
  rw [truncA_of_fits c _ hffit]
  refine ⟨by have := w0.fileLe; omega, ?_, ?_⟩
  · intro k s' hng hg hs' ho
    exact d0.equi k s' (fun hh => hng ((hG1 k).1 hh)) hg hs' ho
  · intro hfresh
    obtain ⟨hfg', hin'⟩ := segInit_fresh c hdrPhoff phentsize phnum lay g hfresh
    rw [hfg] at hfg'; simp only [Except.ok.injEq] at hfg'; subst hfg'
    rw [hin] at hin'; simp only [Except.ok.injEq] at hin'
    have e1 : r.2.1 = r.1.pos := by rw [hin']
    have e3 : r.2.2.1 = 0 := by rw [hin']
    have e4 : r.2.2.2 = 0 := by rw [hin']
    have e5 : r.1.pos = lseg_advance lay.pos g.align (lseg_adjustment (lseg_req_page g.vaddr (lseg_align g.align))
        (lseg_cur_page lay.pos (lseg_align g.align))) (lseg_align g.align) := by rw [hin']
    have hstart : ∀ cv is : Bool, WsdInv cv is r.2.1 { lay := r.1, mem := r.2.2.1, file := r.2.2.2 } := by
      intro cv is
      refine ⟨by simp only; rw [hsz]; exact Nat.le_refl _, fun _ => ⟨by rw [e1]; exact Nat.le_refl _, ?_⟩,
        fun _ => ⟨by rw [e1]; exact Nat.le_refl _, ?_⟩⟩
      · simp only; rw [e1]; omega
      · simp only; rw [e1]; omega
    refine ⟨fun ha => ?_, ?_, ?_⟩
    · rw [e1, e5]; rw [e5] at hpos
      exact lseg_advance_congr lay.pos g.vaddr g.align ha hpos
    · intro hc k s' hng hg hs' hnn
      have hd2' := hd2.resolve_left (by rw [hc]; exact (fun h => nomatch h))
      obtain ⟨-, d1⟩ := wsdLoop_dom true false c g _ g.secs _ st lo hinv1 (hstart true false) hlnw hd1
        (fun _ => hd2') (fun h => nomatch h) hloop
      have := d1.covers rfl k s' (fun hh => hng ((hG1 k).1 hh)) hg hs' hnn
      omega
    · intro hc k s' hng hg hs' ho
      have hd3' := hd3.resolve_left (by rw [hc]; exact (fun h => nomatch h))
      obtain ⟨-, d1⟩ := wsdLoop_dom false true c g _ g.secs _ st lo hinv1 (hstart false true) hlnw hd1
        (fun h => nomatch h) (fun _ => hd3') hloop
      exact d1.inside rfl k s' (fun hh => hng ((hG1 k).1 hh)) hg hs' ho

/-! ### `get_ordered_segments` returns a permutation -/

private theorem set_set_perm (a : Array Seg) (i j : Nat) (x y : Seg) (hi : a[i]? = some x) (hj : a[j]? = some y) :
    ((a.set! i y).set! j x).Perm a := by
  obtain ⟨hi', rfl⟩ := Array.getElem?_eq_some_iff.1 hi
  obtain ⟨hj', rfl⟩ := Array.getElem?_eq_some_iff.1 hj
  have : (a.set! i a[j]).set! j a[i] = a.swap i j hi' hj' := by
    simp [Array.set!_eq_setIfInBounds, Array.setIfInBounds_def, hi', hj', Array.swap]
  rw [this]; exact Array.swap_perm hi' hj'

theorem orderFront_go_perm (n i ns : Nat) (wl out : Array Seg) (fuel : Nat)
    (h : orderFront.go n i ns wl fuel = .ok out) : out.Perm wl := by
  induction fuel generalizing i ns wl with
  | zero =>
    unfold orderFront.go at h
    simp only [pure, Except.pure, Except.ok.injEq] at h
    subst h; exact Array.Perm.refl _
  | succ f ih =>
    unfold orderFront.go at h
    by_cases hge : i ≥ n
    · simp only [hge, if_true, pure, Except.pure, Except.ok.injEq] at h
      subst h; exact Array.Perm.refl _
    · simp only [hge, if_false] at h
      cases hi : wl[i]? with
      | none => rw [hi] at h; simp [throw, throwThe, MonadExceptOf.throw] at h
      | some si =>
        rw [hi] at h
        simp only at h
        split at h
        · cases hn : wl[ns]? with
          | none => rw [hn] at h; simp [throw, throwThe, MonadExceptOf.throw] at h
          | some sn =>
            rw [hn] at h
            simp only at h
            cases hn2 : wl[if save_gos_slot_zero sn.offset = true then ns + 1 else ns]? with
            | none => rw [hn2] at h; simp [throw, throwThe, MonadExceptOf.throw] at h
            | some sn2 =>
              rw [hn2] at h
              simp only at h
              exact (ih _ _ _ h).trans (set_set_perm wl i _ si sn2 hi hn2)
        · exact ih _ _ _ h

theorem orderTopo_perm (wl res out : List Seg) (fuel : Nat) (h : orderTopo wl res fuel = .ok out) :
    out.Perm (res.reverse ++ wl) := by
  induction fuel generalizing wl res with
  | zero =>
    cases wl with
    | nil => simp only [orderTopo, pure, Except.pure, Except.ok.injEq] at h; subst h; simp
    | cons a b => simp [orderTopo, throw, throwThe, MonadExceptOf.throw] at h
  | succ f ih =>
    cases wl with
    | nil => simp only [orderTopo, pure, Except.pure, Except.ok.injEq] at h; subst h; simp
    | cons seg wl =>
      unfold orderTopo at h
      split at h
      · refine (ih _ _ h).trans ?_
        apply List.Perm.append_left
        exact List.perm_append_comm
      · refine (ih _ _ h).trans ?_
        simp only [List.reverse_cons, List.append_assoc, List.singleton_append]
        exact List.Perm.refl _

theorem orderedSegments_perm (segs ordered : List Seg) (h : orderedSegments segs = .ok ordered) :
    ordered.Perm segs := by
  unfold orderedSegments at h
  simp only [bind, Except.bind] at h
  cases hf : orderFront segs.toArray with
  | error e => rw [hf] at h; simp at h
  | ok wl =>
    rw [hf] at h
    simp only at h
    have h1 := orderTopo_perm _ _ _ _ h
    simp only [List.reverse_nil, List.nil_append] at h1
    unfold orderFront at hf
    have h2 := orderFront_go_perm _ _ _ _ _ _ hf
    have h3 := Array.perm_iff_toList_perm.1 h2
    exact h1.trans h3

/-! ### every member of every segment gets generated; the trace of pass 2 -/

theorem wsdStep_marks (c : Cls) (g : Seg) (segStart : BitVec 64) (st st' : WsdSt) (idx : BitVec 16)
    (hlen : st.lay.gen.length = st.lay.secs.length)
    (h : wsdStep c g segStart st idx = .ok (some st')) : st'.lay.Gen idx.toNat := by
  obtain ⟨sec, generated, hsec, hgen, hcases⟩ := wsdStep_cases c g segStart st st' idx h
  have hilen : idx.toNat < st.lay.gen.length := by
    rcases Nat.lt_or_ge idx.toNat st.lay.gen.length with h' | h'
    · exact h'
    · rw [List.getElem?_eq_none h'] at hgen; exact nomatch hgen
  have hset : (st.lay.gen.set idx.toNat true)[idx.toNat]? = some true :=
    (getElem?_set_true_iff _ _ _ hilen).2 (Or.inr rfl)
  rcases hcases with ⟨-, rfl⟩ | ⟨-, gap, -, hrest⟩
  · exact hset
  · rcases hrest with ⟨hg, rfl⟩ | ⟨-, rfl⟩
    · subst hg; exact hgen
    · exact hset

theorem wsdLoop_marks (c : Cls) (g : Seg) (segStart : BitVec 64) (l : List (BitVec 16)) (st st' : WsdSt) (lo : Nat)
    (hinv : LayInv lo st.lay) (hnw : wsdLoopNW c g segStart l st = true)
    (h : wsdLoop c g segStart l st = .ok (some st')) : ∀ idx ∈ l, st'.lay.Gen idx.toNat := by
  induction l generalizing st with
  | nil => intro idx hm; exact nomatch hm
  | cons i rest ih =>
    unfold wsdLoop at h
    unfold wsdLoopNW at hnw
    cases hs : wsdStep c g segStart st i with
    | error e => rw [hs] at h; simp [bind, Except.bind] at h
    | ok r =>
      rw [hs] at h hnw
      cases r with
      | none => simp [bind, Except.bind, pure, Except.pure] at h
      | some st1 =>
        simp only [bind, Except.bind, Bool.and_eq_true] at h hnw
        obtain ⟨i1, -⟩ := wsdStep_inv c g segStart st st1 i lo hinv hnw.1 hs
        obtain ⟨-, s2⟩ := wsdLoop_inv c g segStart rest st1 st' lo i1 hnw.2 h
        intro idx hm
        rcases List.mem_cons.1 hm with rfl | hm
        · exact s2.genMono _ (wsdStep_marks c g segStart st st1 idx hinv.len hs)
        · exact ih st1 i1 hnw.2 h idx hm

/-- one turn of the loop over the ordered segments -/
structure SegTurn where
  lay : Layout
  g : Seg
  lay' : Layout
  g' : Seg

/-- the turns of `layout_segments_and_their_sections` -/
def segsTrace (c : Cls) (hdrPhoff : BitVec 64) (phentsize phnum : BitVec 16) : List Seg → Layout → List SegTurn
  | [], _ => []
  | g :: rest, lay =>
    match layoutSegment c hdrPhoff phentsize phnum lay g with
    | .ok (some (lay', g')) => ⟨lay, g, lay', g'⟩ :: segsTrace c hdrPhoff phentsize phnum rest lay'
    | _ => []

/-- "`P` holds at every turn" (a Bool-valued condition on the state and segment before the turn) -/
def segsAllB (P : Layout → Seg → Bool) (c : Cls) (hdrPhoff : BitVec 64) (phentsize phnum : BitVec 16) :
    List Seg → Layout → Bool
  | [], _ => true
  | g :: rest, lay =>
    P lay g &&
      match layoutSegment c hdrPhoff phentsize phnum lay g with
      | .ok (some (lay', _)) => segsAllB P c hdrPhoff phentsize phnum rest lay'
      | _ => true

theorem segsAllB_trace (P : Layout → Seg → Bool) (c : Cls) (hdrPhoff : BitVec 64) (phentsize phnum : BitVec 16)
    (l : List Seg) (lay : Layout) (h : segsAllB P c hdrPhoff phentsize phnum l lay = true) :
    ∀ t ∈ segsTrace c hdrPhoff phentsize phnum l lay, P t.lay t.g = true := by
  induction l generalizing lay with
  | nil => intro t ht; exact nomatch ht
  | cons g rest ih =>
    unfold segsAllB at h
    unfold segsTrace
    cases hs : layoutSegment c hdrPhoff phentsize phnum lay g with
    | error e => intro t ht; exact nomatch ht
    | ok r =>
      cases r with
      | none => intro t ht; exact nomatch ht
      | some r =>
        obtain ⟨lay1, g1⟩ := r
        rw [hs] at h
        simp only [Bool.and_eq_true] at h
        intro t ht
        rcases List.mem_cons.1 ht with rfl | ht
        · exact h.1
        · exact ih lay1 h.2 t ht

theorem segsNW_eq_allB (c : Cls) (hdrPhoff : BitVec 64) (phentsize phnum : BitVec 16) (l : List Seg) (lay : Layout) :
    segsNW c hdrPhoff phentsize phnum l lay =
      segsAllB (segNW c hdrPhoff phentsize phnum) c hdrPhoff phentsize phnum l lay := by
  induction l generalizing lay with
  | nil => rfl
  | cons g rest ih =>
    unfold segsNW segsAllB
    cases hs : layoutSegment c hdrPhoff phentsize phnum lay g with
    | error e => rfl
    | ok r =>
      cases r with
      | none => rfl
      | some r => obtain ⟨lay1, g1⟩ := r; simp only [ih]

/-- Everything about the turns of pass 2 that the theorems on the final object need. -/
theorem segsFold_trace (c : Cls) (hdrPhoff : BitVec 64) (phentsize phnum : BitVec 16) (l : List Seg)
    (lay lay' : Layout) (done done' : List Seg) (lo : Nat)
    (hinv : LayInv lo lay) (hnw : segsNW c hdrPhoff phentsize phnum l lay = true)
    (h : l.foldlM (segsStep c hdrPhoff phentsize phnum) (some (lay, done)) = .ok (some (lay', done'))) :
    (segsTrace c hdrPhoff phentsize phnum l lay).map (·.g) = l ∧
    done' = done ++ (segsTrace c hdrPhoff phentsize phnum l lay).map (·.g') ∧
    ∀ t ∈ segsTrace c hdrPhoff phentsize phnum l lay,
      layoutSegment c hdrPhoff phentsize phnum t.lay t.g = .ok (some (t.lay', t.g')) ∧
      LayInv lo t.lay ∧ LayStep lay t.lay ∧ LayStep t.lay' lay' ∧ LayInv lo t.lay' := by
  induction l generalizing lay done with
  | nil =>
    simp only [List.foldlM, pure, Except.pure, Except.ok.injEq, Option.some.injEq, Prod.mk.injEq] at h
    obtain ⟨rfl, rfl⟩ := h
    exact ⟨rfl, by simp [segsTrace], fun t ht => nomatch ht⟩
  | cons g rest ih =>
    unfold segsNW at hnw
    simp only [List.foldlM, segsStep, bind, Except.bind] at h
    unfold segsTrace
    cases hs : layoutSegment c hdrPhoff phentsize phnum lay g with
    | error e => rw [hs] at h; simp at h
    | ok r =>
      rw [hs] at h hnw
      cases r with
      | none =>
        simp only [pure, Except.pure] at h
        rw [segsFold_none] at h; simp at h
      | some r =>
        obtain ⟨lay1, g1⟩ := r
        simp only [pure, Except.pure, Bool.and_eq_true] at h hnw
        obtain ⟨i1, s1⟩ := layoutSegment_inv c hdrPhoff phentsize phnum lay lay1 g g1 lo hinv hnw.1 hs
        obtain ⟨i2, s2⟩ := segsFold_inv c hdrPhoff phentsize phnum rest lay1 lay' _ done' lo i1 hnw.2 h
        obtain ⟨e1, e2, e3⟩ := ih lay1 (done ++ [g1]) i1 hnw.2 h
        refine ⟨by simp only [List.map_cons, e1], by simp only [List.map_cons, e2, List.append_assoc, List.singleton_append], ?_⟩
        intro t ht
        rcases List.mem_cons.1 ht with rfl | ht
        · exact ⟨hs, hinv, LayStep.refl _, s2, i1⟩
        · obtain ⟨f1, f2, f3, f4, f5⟩ := e3 t ht
          exact ⟨f1, f2, s1.trans f3, f4, f5⟩

theorem layoutSegment_marks (c : Cls) (hdrPhoff : BitVec 64) (phentsize phnum : BitVec 16) (lay lay' : Layout)
    (g g' : Seg) (lo : Nat) (hinv : LayInv lo lay) (hnw : segNW c hdrPhoff phentsize phnum lay g = true)
    (h : layoutSegment c hdrPhoff phentsize phnum lay g = .ok (some (lay', g'))) :
    (∀ idx ∈ g.secs, lay'.Gen idx.toNat) ∧ g'.secs = g.secs ∧ g'.index = g.index ∧ g'.vaddr = g.vaddr ∧
      g'.stype = g.stype ∧ g'.align = g.align := by
  obtain ⟨fg, r, st, hfg, hin, hloop, rfl, rfl⟩ := layoutSegment_parts c hdrPhoff phentsize phnum lay lay' g g' h
  unfold segNW at hnw
  rw [hfg] at hnw
  simp only at hnw
  rw [hin] at hnw
  simp only [Bool.and_eq_true, decide_eq_true_eq] at hnw
  have hl := segInit_lay c hdrPhoff phentsize phnum lay g fg r hin
  have hinv1 : LayInv lo r.1 := by rw [hl]; exact ⟨hinv.len, hinv.packed.mono hnw.1.1⟩
  obtain ⟨-, -, -, hva, hal, hse, hty, hix⟩ := segFinish_fields c g r.2.1 st
  exact ⟨wsdLoop_marks c g r.2.1 g.secs _ st lo hinv1 hnw.2 hloop, hse, hix, hva, hty, hal⟩

/-- the turns of pass 2 of a `layoutOf` result -/
def LayoutRes.trace (o : Obj) (res : LayoutRes) : List SegTurn :=
  segsTrace o.cls (Hdr.e_phoff o.cls o.enc res.hdr0) (Hdr.e_phentsize o.cls o.enc res.hdr0)
    (Hdr.e_phnum o.cls o.enc res.hdr0) res.ordered (lay0Of o res.pos0)

theorem lay0_inv (o : Obj) (pos0 : BitVec 64) (hn : o.secs.length < 65536)
    (h0 : ∀ (i : Nat) (s : SecBuf), o.secs[i]? = some s → s.Occ → s.index ≠ 0) :
    LayInv pos0.toNat (lay0Of o pos0) := by
  refine ⟨by simp [lay0Of, Nat.mod_eq_of_lt hn], Nat.le_refl _, h0, ?_, ?_⟩
  · intro i s _ hg; exfalso
    simp only [Layout.Gen, lay0Of, List.getElem?_replicate] at hg
    split at hg <;> simp at hg
  · intro i j a b _ _ _ hg; exfalso
    simp only [Layout.Gen, lay0Of, List.getElem?_replicate] at hg
    split at hg <;> simp at hg

/-- the facts about the turns of a successful layout -/
theorem layoutOf_trace (o : Obj) (h : Bytes) (res : LayoutRes) (hl : layoutOf o h = .ok (some res))
    (hnw : layoutNW o h = true) (hn : o.secs.length < 65536)
    (h0 : ∀ (i : Nat) (s : SecBuf), o.secs[i]? = some s → s.Occ → s.index ≠ 0) :
    (res.trace o).map (·.g) = res.ordered ∧ res.done = (res.trace o).map (·.g') ∧
    ∀ t ∈ res.trace o,
      layoutSegment o.cls (Hdr.e_phoff o.cls o.enc res.hdr0) (Hdr.e_phentsize o.cls o.enc res.hdr0)
        (Hdr.e_phnum o.cls o.enc res.hdr0) t.lay t.g = .ok (some (t.lay', t.g')) ∧
      segNW o.cls (Hdr.e_phoff o.cls o.enc res.hdr0) (Hdr.e_phentsize o.cls o.enc res.hdr0)
        (Hdr.e_phnum o.cls o.enc res.hdr0) t.lay t.g = true ∧
      LayInv res.pos0.toNat t.lay ∧ LayStep (lay0Of o res.pos0) t.lay ∧ LayStep t.lay' res.lay2 ∧
      LayInv res.pos0.toNat t.lay' := by
  unfold layoutNW at hnw
  rw [hl] at hnw
  simp only [Bool.and_eq_true, decide_eq_true_eq] at hnw
  obtain ⟨⟨hnw2, -⟩, -⟩ := hnw
  obtain ⟨-, -, -, -, hfold, -, -, -⟩ := layoutOf_parts o h res hl
  obtain ⟨e1, e2, e3⟩ := segsFold_trace _ _ _ _ _ _ _ _ _ _ (lay0_inv o res.pos0 hn h0) hnw2 hfold
  refine ⟨e1, by simpa [LayoutRes.trace] using e2, ?_⟩
  intro t ht
  obtain ⟨f1, f2, f3, f4, f5⟩ := e3 t ht
  rw [segsNW_eq_allB] at hnw2
  exact ⟨f1, segsAllB_trace _ _ _ _ _ _ _ hnw2 t ht, f2, f3, f4, f5⟩

/-- every final segment has the member list of one of the turns -/
theorem final_seg_turn (o : Obj) (h : Bytes) (res : LayoutRes) (hl : layoutOf o h = .ok (some res))
    (hnw : layoutNW o h = true) (hn : o.secs.length < 65536)
    (h0 : ∀ (i : Nat) (s : SecBuf), o.secs[i]? = some s → s.Occ → s.index ≠ 0)
    (g' : Seg) (hg : g' ∈ res.segs) : ∃ t ∈ res.trace o, g'.secs = t.g.secs := by
  obtain ⟨e1, e2, e3⟩ := layoutOf_trace o h res hl hnw hn h0
  obtain ⟨-, -, -, hord, -, hsegs, -, -⟩ := layoutOf_parts o h res hl
  rw [hsegs, List.mem_map] at hg
  obtain ⟨g0, hg0, rfl⟩ := hg
  cases hf : res.done.find? (fun d => d.index == g0.index) with
  | some d =>
    simp only [Option.getD_some]
    have hd : d ∈ res.done := List.mem_of_find?_eq_some hf
    rw [e2, List.mem_map] at hd
    obtain ⟨t, ht, rfl⟩ := hd
    obtain ⟨f1, f2, f3, -, -, -⟩ := e3 t ht
    exact ⟨t, ht, (layoutSegment_marks _ _ _ _ _ _ _ _ _ f3 f2 f1).2.1⟩
  | none =>
    simp only [Option.getD_none]
    have hp := orderedSegments_perm _ _ hord
    have : g0 ∈ res.ordered := (hp.mem_iff).2 hg0
    rw [← e1, List.mem_map] at this
    obtain ⟨t, ht, rfl⟩ := this
    exact ⟨t, ht, rfl⟩

/-- **every section is placed**: it is outside all segments (pass 3) or was generated in pass 2 -/
theorem placed_all (o : Obj) (h : Bytes) (res : LayoutRes) (hl : layoutOf o h = .ok (some res))
    (hnw : layoutNW o h = true) (hn : o.secs.length < 65536)
    (h0 : ∀ (i : Nat) (s : SecBuf), o.secs[i]? = some s → s.Occ → s.index ≠ 0) (k : Nat) :
    res.lay2.Gen k ∨ withoutSegment res.segs k = true := by
  cases hw : withoutSegment res.segs k with
  | true => exact Or.inr rfl
  | false =>
    left
    simp only [withoutSegment_eq, Bool.not_eq_false', List.any_eq_true, beq_iff_eq] at hw
    obtain ⟨g', hg', idx, hidx, rfl⟩ := hw
    obtain ⟨t, ht, hsecs⟩ := final_seg_turn o h res hl hnw hn h0 g' hg'
    obtain ⟨-, -, e3⟩ := layoutOf_trace o h res hl hnw hn h0
    obtain ⟨f1, f2, f3, -, f5, -⟩ := e3 t ht
    rw [hsecs] at hidx
    exact f5.genMono _ ((layoutSegment_marks _ _ _ _ _ _ _ _ _ f3 f2 f1).1 idx hidx)

/-- every section without an explicit address (index ≠ 0, not SHT_NULL-typed when inside a segment)
    ends up at a multiple of its alignment -/
theorem layout_aligned_res (o : Obj) (h : Bytes) (res : LayoutRes) (hl : layoutOf o h = .ok (some res))
    (hnw : layoutNW o h = true) (hn : o.secs.length < 65536)
    (h0 : ∀ (i : Nat) (s : SecBuf), o.secs[i]? = some s → s.Occ → s.index ≠ 0)
    (k : Nat) (s0 s' : SecBuf) (h0k : o.secs[k]? = some s0) (hk : res.secs[k]? = some s')
    (ha : s0.addrSet = false) (hnn : s0.stype ≠ BitVec.ofNat 32 SHT_NULL) (hi : s0.index ≠ 0) :
    s'.offset.toNat % (max s0.addrAlign.toNat 1) = 0 := by
  obtain ⟨-, hstep2, -, -⟩ := layout_packed o h res hl hnw hn h0
  have hall := placed_all o h res hl hnw hn h0 k
  have hnw' := hnw
  unfold layoutNW at hnw'
  rw [hl] at hnw'
  simp only [Bool.and_eq_true, decide_eq_true_eq] at hnw'
  obtain ⟨⟨-, hnw3⟩, -⟩ := hnw'
  obtain ⟨-, -, -, -, -, -, hloose, -⟩ := layoutOf_parts o h res hl
  rw [layoutLoose_eq_spec] at hloose
  simp only [List.reverse_nil, List.nil_append, Prod.mk.injEq] at hloose
  obtain ⟨hsecs, -⟩ := hloose
  obtain ⟨-, -, fun_, fpl, -⟩ := looseSpec_facts o.cls res.segs res.lay2.secs 0 res.lay2.pos hnw3
  simp only [Nat.zero_add] at fun_ fpl
  simp only [← hsecs] at fun_ fpl
  have h0k' : (lay0Of o res.pos0).secs[k]? = some s0 := h0k
  obtain ⟨s2, hs2, hm2⟩ := hstep2.moved k s0 h0k'
  cases hw : withoutSegment res.segs k with
  | true =>
    obtain ⟨t, ht, -, -, -, hr⟩ := fpl k s2 hs2 hw
    rw [hk] at ht; simp only [Option.some.injEq] at ht; subst ht
    have := (hr (by rw [hm2.index]; exact hi)).2.2.1
    rw [hm2.addrAlign] at this; exact this
  | false =>
    have hg : res.lay2.Gen k := by
      rcases hall with hg | hg
      · exact hg
      · rw [hw] at hg; exact nomatch hg
    have hng : ¬ (lay0Of o res.pos0).Gen k := by
      intro hg0
      simp only [Layout.Gen, lay0Of, List.getElem?_replicate] at hg0
      split at hg0 <;> simp at hg0
    have := fun_ k s2 hs2 hw
    rw [hk] at this; simp only [Option.some.injEq] at this; subst this
    exact hstep2.aligned k s0 s' hng hg h0k' hs2 ha hnn hi

/-! ### only members get generated; flat segments: the file size follows the cursor -/

theorem wsdStep_gen_only (c : Cls) (g : Seg) (segStart : BitVec 64) (st st' : WsdSt) (idx : BitVec 16)
    (h : wsdStep c g segStart st idx = .ok (some st')) (k : Nat) (hk : st'.lay.Gen k) :
    st.lay.Gen k ∨ k = idx.toNat := by
  obtain ⟨sec, generated, hsec, hgen, hcases⟩ := wsdStep_cases c g segStart st st' idx h
  have hilen : idx.toNat < st.lay.gen.length := by
    rcases Nat.lt_or_ge idx.toNat st.lay.gen.length with h' | h'
    · exact h'
    · rw [List.getElem?_eq_none h'] at hgen; exact nomatch hgen
  rcases hcases with ⟨-, rfl⟩ | ⟨-, gap, -, hrest⟩
  · exact (getElem?_set_true_iff _ _ _ hilen).1 hk
  · rcases hrest with ⟨-, rfl⟩ | ⟨-, rfl⟩
    · exact Or.inl hk
    · exact (getElem?_set_true_iff _ _ _ hilen).1 hk

theorem wsdLoop_gen_only (c : Cls) (g : Seg) (segStart : BitVec 64) (l : List (BitVec 16)) (st st' : WsdSt)
    (h : wsdLoop c g segStart l st = .ok (some st')) (k : Nat) (hk : st'.lay.Gen k) :
    st.lay.Gen k ∨ ∃ idx ∈ l, idx.toNat = k := by
  induction l generalizing st with
  | nil =>
    simp only [wsdLoop, pure, Except.pure, Except.ok.injEq, Option.some.injEq] at h
    subst h; exact Or.inl hk
  | cons i rest ih =>
    unfold wsdLoop at h
    cases hs : wsdStep c g segStart st i with
    | error e => rw [hs] at h; simp [bind, Except.bind] at h
    | ok r =>
      rw [hs] at h
      cases r with
      | none => simp [bind, Except.bind, pure, Except.pure] at h
      | some st1 =>
        simp only [bind, Except.bind] at h
        rcases ih st1 h with h1 | ⟨idx, hm, rfl⟩
        · rcases wsdStep_gen_only c g segStart st st1 i hs k h1 with h2 | h2
          · exact Or.inl h2
          · exact Or.inr ⟨i, List.mem_cons_self, h2.symm⟩
        · exact Or.inr ⟨idx, List.mem_cons_of_mem _ hm, rfl⟩

theorem layoutSegment_gen_only (c : Cls) (hdrPhoff : BitVec 64) (phentsize phnum : BitVec 16) (lay lay' : Layout)
    (g g' : Seg) (h : layoutSegment c hdrPhoff phentsize phnum lay g = .ok (some (lay', g')))
    (k : Nat) (hk : lay'.Gen k) : lay.Gen k ∨ ∃ idx ∈ g.secs, idx.toNat = k := by
  obtain ⟨fg, r, st, hfg, hin, hloop, rfl, rfl⟩ := layoutSegment_parts c hdrPhoff phentsize phnum lay lay' g g' h
  have hl := segInit_lay c hdrPhoff phentsize phnum lay g fg r hin
  rcases wsdLoop_gen_only c g r.2.1 g.secs _ st hloop k hk with h1 | h1
  · left; simp only at h1; rw [hl] at h1; exact h1
  · exact Or.inr h1

/-- the member is not generated yet when its step comes -/
def wsdStepFresh (st : WsdSt) (idx : BitVec 16) : Bool := st.lay.gen[idx.toNat]? == some false

/-- when every member is fresh at its step, the file size never runs ahead of the cursor -/
theorem wsdLoop_file_le (c : Cls) (g : Seg) (segStart : BitVec 64) (l : List (BitVec 16)) (st st' : WsdSt)
    (lo : Nat) (hinv : LayInv lo st.lay)
    (hnw : wsdLoopNW c g segStart l st = true)
    (hdom : wsdLoopAll (wsdStepDom c g segStart) c g segStart l st = true)
    (hfr : wsdLoopAll (fun st idx => wsdStepFresh st idx) c g segStart l st = true)
    (hfm : st.file.toNat ≤ st.mem.toNat)
    (h0 : segStart.toNat ≤ st.lay.pos.toNat ∧ st.file.toNat ≤ st.lay.pos.toNat - segStart.toNat)
    (h : wsdLoop c g segStart l st = .ok (some st')) :
    segStart.toNat ≤ st'.lay.pos.toNat ∧ st'.file.toNat ≤ st'.lay.pos.toNat - segStart.toNat := by
  induction l generalizing st with
  | nil =>
    simp only [wsdLoop, pure, Except.pure, Except.ok.injEq, Option.some.injEq] at h
    subst h; exact h0
  | cons idx rest ih =>
    unfold wsdLoop at h
    unfold wsdLoopNW at hnw
    unfold wsdLoopAll at hdom hfr
    cases hs : wsdStep c g segStart st idx with
    | error e => rw [hs] at h; simp [bind, Except.bind] at h
    | ok r =>
      rw [hs] at h hnw hdom hfr
      cases r with
      | none => simp [bind, Except.bind, pure, Except.pure] at h
      | some st1 =>
        simp only [bind, Except.bind, Bool.and_eq_true] at h hnw hdom hfr
        obtain ⟨i1, -⟩ := wsdStep_inv c g segStart st st1 idx lo hinv hnw.1 hs
        have hw : WsdInv false false segStart st := ⟨hfm, (fun h => nomatch h), (fun h => nomatch h)⟩
        obtain ⟨w1, -⟩ := wsdStep_dom false false c g segStart st st1 idx lo hinv hw hnw.1 hdom.1
          (fun h => nomatch h) (fun h => nomatch h) hs
        refine ih st1 i1 hnw.2 hdom.2 hfr.2 w1.fileLe ?_ h
        -- one step
        obtain ⟨sec, generated, hsec, hgen, hcases⟩ := wsdStep_cases c g segStart st st1 idx hs
        have hfresh : generated = false := by
          have := hfr.1
          simp only [wsdStepFresh, hgen, beq_iff_eq, Option.some.injEq] at this
          exact this
        subst hfresh
        rcases hcases with ⟨-, rfl⟩ | ⟨hnull, gap, hgap, hrest⟩
        · exact h0
        · rcases hrest with ⟨hg, -⟩ | ⟨-, rfl⟩
          · exact nomatch hg
          · have hd := hdom.1
            unfold wsdStepDom at hd
            rw [hsec, hgen] at hd
            simp only [hnull, Bool.false_eq_true, if_false, hgap, Bool.and_eq_true, decide_eq_true_eq] at hd
            obtain ⟨⟨-, hmnw⟩, -⟩ := hd
            have hn := hnw.1
            unfold wsdStepNW at hn
            rw [hsec, hgen] at hn
            simp only [hnull, Bool.false_eq_true, if_false, hgap, Bool.and_eq_true, decide_eq_true_eq] at hn
            obtain ⟨⟨h01, h12⟩, -⟩ := hn
            simp only [wsd_cursor_gap] at h01 h12
            have hp1 := bv_add_toNat_of_le _ _ h01
            simp only
            by_cases hcf : wsd_counts_file sec.stype = true
            · simp only [hcf, if_true]
              rw [wsd_file_add_toNat _ _ _ _ hfm hmnw]
              -- the cursor advanced by gap + size
              have hp2 : (wsdPlace c g segStart st.lay.pos gap sec).2.toNat =
                  st.lay.pos.toNat + gap.toNat + sec.size.toNat := by
                have hmv := wsdPlace_moved c g segStart st.lay.pos gap sec
                have : (wsdPlace c g segStart st.lay.pos gap sec).2 =
                    (if wsd_counts_file (wsdPlace c g segStart st.lay.pos gap sec).1.stype then
                      wsd_advance (wsd_cursor_gap st.lay.pos gap) (wsdPlace c g segStart st.lay.pos gap sec).1.size
                     else wsd_cursor_gap st.lay.pos gap) := rfl
                rw [this, hmv.stype, hmv.size] at h12 ⊢
                simp only [hcf, if_true, wsd_advance, wsd_cursor_gap] at h12 ⊢
                rw [bv_add_toNat_of_le _ _ h12, hp1]
              rw [hp2]; omega
            · have hcf' : wsd_counts_file sec.stype = false := by simpa using hcf
              simp only [hcf', Bool.false_eq_true, if_false]
              have : st.lay.pos.toNat ≤ (wsdPlace c g segStart st.lay.pos gap sec).2.toNat := by omega
              omega

/-! ### which turn a final segment comes from -/

private theorem nodup_map_inj {α β : Type} (f : α → β) (l : List α) (h : (l.map f).Nodup) (a b : α)
    (ha : a ∈ l) (hb : b ∈ l) (he : f a = f b) : a = b := by
  induction l with
  | nil => exact nomatch ha
  | cons x xs ih =>
    simp only [List.map_cons, List.nodup_cons, List.mem_map, not_exists, not_and] at h
    rcases List.mem_cons.1 ha with rfl | ha' <;> rcases List.mem_cons.1 hb with rfl | hb'
    · rfl
    · exact absurd he.symm (h.1 b hb')
    · exact absurd he (h.1 a ha')
    · exact ih h.2 ha' hb'

private theorem find?_unique {α : Type} (p : α → Bool) (l : List α) (a : α) (ha : a ∈ l) (hp : p a = true)
    (hu : ∀ x ∈ l, p x = true → x = a) : l.find? p = some a := by
  induction l with
  | nil => exact nomatch ha
  | cons x xs ih =>
    by_cases hx : p x = true
    · have := hu x List.mem_cons_self hx
      subst this; simp [List.find?, hx]
    · have hx' : p x = false := by simpa using hx
      simp only [List.find?, hx']
      rcases List.mem_cons.1 ha with rfl | ha'
      · rw [hp] at hx'; exact nomatch hx'
      · exact ih ha' (fun y hy => hu y (List.mem_cons_of_mem _ hy))

theorem calcSegAlign_aux (secs : List SecBuf) (l : List (BitVec 16)) (g g' : Seg)
    (h : l.foldlM (fun g idx =>
      match secs[idx.toNat]? with
      | none => (throw (Fault.vecOob "calc_segment_alignment/sections_[index]") : M Seg)
      | some s => pure (if BitVec.ult g.align s.addrAlign then { g with align := s.addrAlign } else g)) g = .ok g') :
    g' = { g with align := g'.align } := by
  induction l generalizing g with
  | nil => simp only [List.foldlM, pure, Except.pure, Except.ok.injEq] at h; subst h; rfl
  | cons idx rest ih =>
    simp only [List.foldlM, bind, Except.bind] at h
    cases hs : secs[idx.toNat]? with
    | none => rw [hs] at h; simp [throw, throwThe, MonadExceptOf.throw] at h
    | some s =>
      rw [hs] at h
      simp only [pure, Except.pure] at h
      have := ih _ h
      rw [this]
      split <;> rfl

theorem calcSegAlign_fields (secs : List SecBuf) (g g' : Seg) (h : calcSegAlign secs g = .ok g') :
    g' = { g with align := g'.align } := calcSegAlign_aux secs g.secs g g' h

theorem mapM_calcSegAlign (secs : List SecBuf) (l l' : List Seg) (h : l.mapM (calcSegAlign secs) = .ok l') :
    l'.map (·.index) = l.map (·.index) ∧ l'.map (·.secs) = l.map (·.secs) := by
  induction l generalizing l' with
  | nil => simp only [List.mapM_nil, pure, Except.pure, Except.ok.injEq] at h; subst h; exact ⟨rfl, rfl⟩
  | cons g rest ih =>
    rw [List.mapM_cons] at h
    simp only [bind, Except.bind] at h
    cases hg : calcSegAlign secs g with
    | error e => rw [hg] at h; simp at h
    | ok g' =>
      rw [hg] at h
      simp only at h
      cases hr : rest.mapM (calcSegAlign secs) with
      | error e => rw [hr] at h; simp at h
      | ok r' =>
        rw [hr] at h
        simp only [pure, Except.pure, Except.ok.injEq] at h
        subst h
        obtain ⟨i1, i2⟩ := ih r' hr
        have := calcSegAlign_fields secs g g' hg
        simp only [List.map_cons, i1, i2]
        rw [this]
        exact ⟨rfl, rfl⟩

theorem final_segs_turn (o : Obj) (h : Bytes) (res : LayoutRes) (hl : layoutOf o h = .ok (some res))
    (hnw : layoutNW o h = true) (hn : o.secs.length < 65536)
    (h0 : ∀ (i : Nat) (s : SecBuf), o.secs[i]? = some s → s.Occ → s.index ≠ 0)
    (hnd : (o.segs.map (·.index)).Nodup) (g' : Seg) (hg : g' ∈ res.segs) :
    ∃ t ∈ res.trace o, g' = t.g' := by
  obtain ⟨e1, e2, e3⟩ := layoutOf_trace o h res hl hnw hn h0
  obtain ⟨-, -, hmap, hord, -, hsegs, -, -⟩ := layoutOf_parts o h res hl
  have hp := orderedSegments_perm _ _ hord
  have hnd0 : (res.segs0.map (·.index)).Nodup := by rw [(mapM_calcSegAlign _ _ _ hmap).1]; exact hnd
  have hndo : (res.ordered.map (·.index)).Nodup := ((hp.map (·.index)).nodup_iff).2 hnd0
  have hndt : ((res.trace o).map (fun t => t.g.index)).Nodup := by
    have : (res.trace o).map (fun t => t.g.index) = ((res.trace o).map (·.g)).map (·.index) := by
      rw [List.map_map]; rfl
    rw [this, e1]; exact hndo
  rw [hsegs, List.mem_map] at hg
  obtain ⟨g0, hg0, rfl⟩ := hg
  have : g0 ∈ res.ordered := (hp.mem_iff).2 hg0
  rw [← e1, List.mem_map] at this
  obtain ⟨t, ht, rfl⟩ := this
  refine ⟨t, ht, ?_⟩
  have hidx : ∀ t' ∈ res.trace o, t'.g'.index = t'.g.index := by
    intro t' ht'
    obtain ⟨f1, f2, f3, -, -, -⟩ := e3 t' ht'
    exact (layoutSegment_marks _ _ _ _ _ _ _ _ _ f3 f2 f1).2.2.1
  have hfind : res.done.find? (fun d => d.index == t.g.index) = some t.g' := by
    apply find?_unique
    · rw [e2]; exact List.mem_map_of_mem ht
    · simp only [beq_iff_eq]; exact hidx t ht
    · intro x hx hpx
      rw [e2, List.mem_map] at hx
      obtain ⟨t', ht', rfl⟩ := hx
      simp only [beq_iff_eq] at hpx
      rw [hidx t' ht'] at hpx
      have := nodup_map_inj (fun t => t.g.index) _ hndt t' t ht' ht hpx
      rw [this]
  rw [hfind]; rfl

/-! ### description of the final sections -/

theorem layout_final_desc (o : Obj) (h : Bytes) (res : LayoutRes) (hl : layoutOf o h = .ok (some res))
    (hnw : layoutNW o h = true) (k : Nat) (s' : SecBuf) (hk : res.secs[k]? = some s') :
    ∃ s, res.lay2.secs[k]? = some s ∧ SecBuf.Moved s s' ∧
      (withoutSegment res.segs k = false → s' = s) ∧
      (withoutSegment res.segs k = true → s.index ≠ 0 → res.lay2.pos.toNat ≤ s'.offset.toNat) := by
  unfold layoutNW at hnw
  rw [hl] at hnw
  simp only [Bool.and_eq_true, decide_eq_true_eq] at hnw
  obtain ⟨⟨-, hnw3⟩, -⟩ := hnw
  obtain ⟨-, -, -, -, -, -, hloose, -⟩ := layoutOf_parts o h res hl
  rw [layoutLoose_eq_spec] at hloose
  simp only [List.reverse_nil, List.nil_append, Prod.mk.injEq] at hloose
  obtain ⟨hsecs, -⟩ := hloose
  obtain ⟨flen, -, fun_, fpl, -⟩ := looseSpec_facts o.cls res.segs res.lay2.secs 0 res.lay2.pos hnw3
  simp only [Nat.zero_add] at fun_ fpl
  simp only [← hsecs] at flen fun_ fpl
  have hlt : k < res.lay2.secs.length := by
    rw [← flen]
    rcases Nat.lt_or_ge k res.secs.length with h' | h'
    · exact h'
    · rw [List.getElem?_eq_none h'] at hk; exact nomatch hk
  have hs : res.lay2.secs[k]? = some res.lay2.secs[k] := List.getElem?_eq_getElem hlt
  cases hw : withoutSegment res.segs k with
  | false =>
    have := fun_ k _ hs hw
    rw [hk] at this; simp only [Option.some.injEq] at this
    exact ⟨_, hs, by rw [this]; exact SecBuf.Moved.refl _, fun _ => this, fun h => Bool.noConfusion h⟩
  | true =>
    obtain ⟨t, ht, hm, -, -, hr⟩ := fpl k _ hs hw
    rw [hk] at ht; simp only [Option.some.injEq] at ht; subst ht
    exact ⟨_, hs, hm, fun h => Bool.noConfusion h, fun _ hi => (hr hi).1⟩

/-! ### flat segments (no member generated before the segment's turn) -/

def segFreshB (lay : Layout) (g : Seg) : Bool :=
  !lseg_is_phdr g.stype (BitVec.ofNat 16 g.secs.length) && !lseg_offset0 g.offsetSet g.offset &&
    match g.secs.head? with
    | some f => lay.gen[f.toNat]? == some false
    | none => false

theorem segFresh_of_B (lay : Layout) (g : Seg) (h : segFreshB lay g = true) : segFresh lay g := by
  unfold segFreshB at h
  simp only [Bool.and_eq_true, Bool.not_eq_true'] at h
  obtain ⟨⟨h1, h2⟩, h3⟩ := h
  refine ⟨h1, h2, ?_⟩
  cases hh : g.secs.head? with
  | none => rw [hh] at h3; exact nomatch h3
  | some f => rw [hh] at h3; exact ⟨f, rfl, by simpa using h3⟩

/-- every member is not yet generated when its step comes (flat object: the member lists of the
    segments are disjoint and duplicate-free) -/
def segFlat (c : Cls) (hdrPhoff : BitVec 64) (phentsize phnum : BitVec 16) (lay : Layout) (g : Seg) : Bool :=
  match segFirstGen lay g with
  | .ok fg =>
    match segInit c hdrPhoff phentsize phnum lay g fg with
    | .ok r => wsdLoopAll (fun st idx => wsdStepFresh st idx) c g r.2.1 g.secs { lay := r.1, mem := r.2.2.1, file := r.2.2.2 }
    | _ => true
  | _ => true

theorem wsdLoop_fresh_members (c : Cls) (g : Seg) (segStart : BitVec 64) (l : List (BitVec 16)) (st : WsdSt)
    (lo : Nat) (hinv : LayInv lo st.lay) (hnw : wsdLoopNW c g segStart l st = true)
    (hfr : wsdLoopAll (fun st idx => wsdStepFresh st idx) c g segStart l st = true)
    (st' : WsdSt) (h : wsdLoop c g segStart l st = .ok (some st')) :
    ∀ idx ∈ l, ¬ st.lay.Gen idx.toNat := by
  induction l generalizing st with
  | nil => intro idx hm; exact nomatch hm
  | cons i rest ih =>
    unfold wsdLoop at h
    unfold wsdLoopNW at hnw
    unfold wsdLoopAll at hfr
    cases hs : wsdStep c g segStart st i with
    | error e => rw [hs] at h; simp [bind, Except.bind] at h
    | ok r =>
      rw [hs] at h hnw hfr
      cases r with
      | none => simp [bind, Except.bind, pure, Except.pure] at h
      | some st1 =>
        simp only [bind, Except.bind, Bool.and_eq_true] at h hnw hfr
        obtain ⟨i1, s1⟩ := wsdStep_inv c g segStart st st1 i lo hinv hnw.1 hs
        intro idx hm
        rcases List.mem_cons.1 hm with rfl | hm
        · intro hg
          have := hfr.1
          simp only [wsdStepFresh, beq_iff_eq] at this
          unfold Layout.Gen at hg; rw [hg] at this; exact nomatch this
        · intro hg
          exact ih st1 i1 hnw.2 hfr.2 h idx hm (s1.genMono _ hg)

theorem layoutSegment_flat (c : Cls) (hdrPhoff : BitVec 64) (phentsize phnum : BitVec 16)
    (lay lay' : Layout) (g g' : Seg) (lo : Nat) (hinv : LayInv lo lay)
    (hnw : segNW c hdrPhoff phentsize phnum lay g = true)
    (hdom : segDom false false c hdrPhoff phentsize phnum lay g = true)
    (hflat : segFlat c hdrPhoff phentsize phnum lay g = true)
    (hfresh : segFresh lay g)
    (h : layoutSegment c hdrPhoff phentsize phnum lay g = .ok (some (lay', g'))) :
    lay.pos.toNat ≤ g'.offset.toNat ∧ g'.offset.toNat + g'.filesz.toNat ≤ lay'.pos.toNat ∧
    (∀ idx ∈ g.secs, ¬ lay.Gen idx.toNat) := by
  obtain ⟨fg, r, st, hfg, hin, hloop, rfl, rfl⟩ := layoutSegment_parts c hdrPhoff phentsize phnum lay lay' g g' h
  unfold segNW at hnw
  unfold segDom at hdom
  unfold segFlat at hflat
  rw [hfg] at hnw hdom hflat
  simp only at hnw hdom hflat
  rw [hin] at hnw hdom hflat
  simp only [hloop, Bool.and_eq_true, decide_eq_true_eq, Bool.or_eq_true, Bool.not_eq_true'] at hnw hdom hflat
  obtain ⟨⟨hpos, hsfit⟩, hlnw⟩ := hnw
  obtain ⟨⟨⟨hd1, -⟩, -⟩, hmfit⟩ := hdom
  have hl := segInit_lay c hdrPhoff phentsize phnum lay g fg r hin
  have hinv1 : LayInv lo r.1 := by rw [hl]; exact ⟨hinv.len, hinv.packed.mono hpos⟩
  have hsz := segInit_sizes c hdrPhoff phentsize phnum lay g fg r hin
  obtain ⟨hoff, hfs, -, -, -, -, -, -⟩ := segFinish_fields c g r.2.1 st
  obtain ⟨hfg', hin'⟩ := segInit_fresh c hdrPhoff phentsize phnum lay g hfresh
  rw [hfg] at hfg'; simp only [Except.ok.injEq] at hfg'; subst hfg'
  rw [hin] at hin'; simp only [Except.ok.injEq] at hin'
  have e1 : r.2.1 = r.1.pos := by rw [hin']
  have e4 : r.2.2.2 = 0 := by rw [hin']
  have hw0 : WsdInv false false r.2.1 { lay := r.1, mem := r.2.2.1, file := r.2.2.2 } :=
    ⟨by simp only; rw [hsz]; exact Nat.le_refl _, (fun h => nomatch h), (fun h => nomatch h)⟩
  obtain ⟨w0, -⟩ := wsdLoop_dom false false c g r.2.1 g.secs _ st lo hinv1 hw0 hlnw hd1
    (fun h => nomatch h) (fun h => nomatch h) hloop
  have hffit : fitsB c st.file = true := fitsB_mono c _ _ w0.fileLe hmfit
  have hfl := wsdLoop_file_le c g r.2.1 g.secs _ st lo hinv1 hlnw hd1 hflat
    (by simp only; rw [hsz]; exact Nat.le_refl _)
    ⟨by simp only; rw [e1]; exact Nat.le_refl _, by simp only; rw [e4]; simp⟩ hloop
  have hmem := wsdLoop_fresh_members c g r.2.1 g.secs _ lo hinv1 hlnw hflat st hloop
  rw [hoff, hfs, truncA_of_fits c _ hsfit, truncA_of_fits c _ hffit]
  refine ⟨by rw [e1]; exact hpos, by omega, ?_⟩
  intro idx hm hg
  exact hmem idx hm (by simp only; rw [hl]; exact hg)

theorem layoutSegment_empty (c : Cls) (hdrPhoff : BitVec 64) (phentsize phnum : BitVec 16)
    (lay lay' : Layout) (g g' : Seg) (he : g.secs = [])
    (hph : lseg_is_phdr g.stype (BitVec.ofNat 16 g.secs.length) = false)
    (h : layoutSegment c hdrPhoff phentsize phnum lay g = .ok (some (lay', g'))) : g'.filesz = 0 := by
  obtain ⟨fg, r, st, hfg, hin, hloop, rfl, rfl⟩ := layoutSegment_parts c hdrPhoff phentsize phnum lay lay' g g' h
  rw [he] at hloop
  simp only [wsdLoop, pure, Except.pure, Except.ok.injEq, Option.some.injEq] at hloop
  subst hloop
  rw [(segFinish_fields c g r.2.1 _).2.1]
  simp only
  have : r.2.2.2 = 0 := by
    have hph' : lseg_is_phdr g.stype 0#16 = false := by
      rw [he] at hph; simpa using hph
    unfold segInit at hin
    simp only [he, List.length_nil, BitVec.ofNat_eq_ofNat, hph', Bool.false_eq_true, if_false, Nat.lt_irrefl,
      gt_iff_lt, decide_false, Bool.false_and] at hin
    repeat' split at hin
    all_goals (simp only [pure, Except.pure, Except.ok.injEq] at hin; subst hin; rfl)
  rw [this]
  cases c <;> rfl

/-! ### the saved segments of a flat object on the writer domain -/

theorem segDom_weaken (cov ins : Bool) (c : Cls) (hdrPhoff : BitVec 64) (phentsize phnum : BitVec 16)
    (lay : Layout) (g : Seg) (h : segDom cov ins c hdrPhoff phentsize phnum lay g = true) :
    segDom false false c hdrPhoff phentsize phnum lay g = true := by
  unfold segDom at h ⊢
  cases hfg : segFirstGen lay g with
  | error e => rfl
  | ok fg =>
    rw [hfg] at h
    simp only at h ⊢
    cases hin : segInit c hdrPhoff phentsize phnum lay g fg with
    | error e => rfl
    | ok r =>
      rw [hin] at h
      simp only [Bool.and_eq_true] at h ⊢
      exact ⟨⟨⟨h.1.1.1, rfl⟩, rfl⟩, h.2⟩

/-- Writer-domain conditions at every turn of pass 2, for *flat* objects: `segDom cov ins`, no
    member is generated before its step (`segFlat`), and a segment with members starts a fresh run
    (`segFreshB`: neither the PHDR nor the offset-0 special case). -/
def layoutDomB (cov ins : Bool) (sel : Nat → Bool) (o : Obj) (h : Bytes) : Bool :=
  match layoutOf o h with
  | .ok (some res) =>
    segsAllB (fun lay g => !sel g.index ||
        segDom cov ins o.cls (Hdr.e_phoff o.cls o.enc res.hdr0) (Hdr.e_phentsize o.cls o.enc res.hdr0)
          (Hdr.e_phnum o.cls o.enc res.hdr0) lay g &&
        segFlat o.cls (Hdr.e_phoff o.cls o.enc res.hdr0) (Hdr.e_phentsize o.cls o.enc res.hdr0)
          (Hdr.e_phnum o.cls o.enc res.hdr0) lay g &&
        (g.secs.isEmpty || segFreshB lay g))
      o.cls (Hdr.e_phoff o.cls o.enc res.hdr0) (Hdr.e_phentsize o.cls o.enc res.hdr0)
      (Hdr.e_phnum o.cls o.enc res.hdr0) res.ordered (lay0Of o res.pos0)
  | _ => true

theorem withoutSegment_false_of_mem (segs : List Seg) (g : Seg) (hg : g ∈ segs) (idx : BitVec 16)
    (hi : idx ∈ g.secs) : withoutSegment segs idx.toNat = false := by
  simp only [withoutSegment_eq, Bool.not_eq_false', List.any_eq_true, beq_iff_eq]
  exact ⟨g, hg, idx, hi, rfl⟩

/-- the section a turn left at position `k` is the final one, if `k` was generated by then and is a
    member of some final segment (or simply: not re-placed by pass 3) -/
theorem final_of_turn (o : Obj) (h : Bytes) (res : LayoutRes) (hl : layoutOf o h = .ok (some res))
    (hnw : layoutNW o h = true) (t : SegTurn) (hstep : LayStep t.lay' res.lay2)
    (k : Nat) (s : SecBuf) (hk : res.secs[k]? = some s) (hw : withoutSegment res.segs k = false)
    (hg : t.lay'.Gen k) : t.lay'.secs[k]? = some s := by
  obtain ⟨s2, hs2, -, hsame, -⟩ := layout_final_desc o h res hl hnw k s hk
  have := hsame hw; subst this
  have hlt : k < t.lay'.secs.length := by
    rw [← hstep.len]
    rcases Nat.lt_or_ge k res.lay2.secs.length with h' | h'
    · exact h'
    · rw [List.getElem?_eq_none h'] at hs2; exact nomatch hs2
  have h1 : t.lay'.secs[k]? = some t.lay'.secs[k] := List.getElem?_eq_getElem hlt
  have := hstep.frame k _ hg h1
  rw [hs2] at this; rw [h1, this]

theorem final_segments (cov ins : Bool) (o : Obj) (h : Bytes) (res : LayoutRes)
    (hl : layoutOf o h = .ok (some res)) (hnw : layoutNW o h = true) (hn : o.secs.length < 65536)
    (h0 : ∀ (i : Nat) (s : SecBuf), o.secs[i]? = some s → s.Occ → s.index ≠ 0)
    (hnd : (o.segs.map (·.index)).Nodup) (sel : Nat → Bool) (hdom : layoutDomB cov ins sel o h = true)
    (g' : Seg) (hg : g' ∈ res.segs) (hsel : sel g'.index = true) :
    g'.filesz.toNat ≤ g'.memsz.toNat ∧
    (g'.secs ≠ [] → g'.align.toNat ≤ 9223372036854775808 →
      g'.offset.toNat % (max g'.align.toNat 1) = g'.vaddr.toNat % (max g'.align.toNat 1)) ∧
    (∀ idx ∈ g'.secs, ∀ (s : SecBuf), res.secs[idx.toNat]? = some s →
      (s.Occ → s.offset - g'.offset = s.addr - g'.vaddr) ∧
      (ins = true → s.Occ → g'.offset.toNat ≤ s.offset.toNat ∧ s.endN ≤ g'.offset.toNat + g'.filesz.toNat) ∧
      (cov = true → s.stype ≠ BitVec.ofNat 32 SHT_NULL →
        (s.addr - g'.vaddr).toNat + s.size.toNat ≤ g'.memsz.toNat)) ∧
    -- the section that contains the first file byte of the segment is one of its equidistant members
    (0 < g'.filesz.toNat → lseg_is_phdr g'.stype (BitVec.ofNat 16 g'.secs.length) = false →
      ∀ (k : Nat) (s : SecBuf), res.secs[k]? = some s → s.Occ →
        s.offset.toNat ≤ g'.offset.toNat → g'.offset.toNat < s.endN →
        s.offset - g'.offset = s.addr - g'.vaddr) := by
  obtain ⟨t, ht, rfl⟩ := final_segs_turn o h res hl hnw hn h0 hnd g' hg
  obtain ⟨-, -, e3⟩ := layoutOf_trace o h res hl hnw hn h0
  obtain ⟨f1, f2, f3, f4, f5, f6⟩ := e3 t ht
  unfold layoutDomB at hdom
  rw [hl] at hdom
  simp only at hdom
  obtain ⟨hmarks, hsecs, hidx, -, hty, hal⟩ := layoutSegment_marks _ _ _ _ _ _ _ _ _ f3 f2 f1
  have hturn := segsAllB_trace _ _ _ _ _ _ _ hdom t ht
  rw [hidx] at hsel
  simp only [hsel, Bool.not_true, Bool.false_or, Bool.and_eq_true, Bool.or_eq_true] at hturn
  obtain ⟨⟨hsd, hfl⟩, hfe⟩ := hturn
  have dom := layoutSegment_dom cov ins _ _ _ _ t.lay t.lay' t.g t.g' _ f3 f2 hsd f1
  obtain ⟨-, hstepT⟩ := layoutSegment_inv _ _ _ _ t.lay t.lay' t.g t.g' _ f3 f2 f1
  have hfresh : t.g.secs ≠ [] → segFresh t.lay t.g := by
    intro hne
    rcases hfe with he | hf
    · simp only [List.isEmpty_iff] at he; exact absurd he hne
    · exact segFresh_of_B _ _ hf
  have hflat := fun hne => layoutSegment_flat _ _ _ _ t.lay t.lay' t.g t.g' _ f3 f2
    (segDom_weaken _ _ _ _ _ _ _ _ hsd) hfl (hfresh hne) f1
  refine ⟨dom.1, ?_, ?_, ?_⟩
  · intro hne hal'
    rw [hsecs] at hne; rw [hal] at hal'
    exact (dom.2.2 (hfresh hne)).1 hal'
  · intro idx hidx s hs
    rw [hsecs] at hidx
    have hne : t.g.secs ≠ [] := fun e => by rw [e] at hidx; exact nomatch hidx
    have hng : ¬ t.lay.Gen idx.toNat := (hflat hne).2.2 idx hidx
    have hgen : t.lay'.Gen idx.toNat := hmarks idx hidx
    have hw := withoutSegment_false_of_mem res.segs t.g' hg idx (by rw [hsecs]; exact hidx)
    have hs' := final_of_turn o h res hl hnw t f5 idx.toNat s hs hw hgen
    refine ⟨fun ho => dom.2.1 _ s hng hgen hs' ho, ?_, ?_⟩
    · intro hi ho; exact (dom.2.2 (hfresh hne)).2.2 hi _ s hng hgen hs' ho
    · intro hc hnn; exact (dom.2.2 (hfresh hne)).2.1 hc _ s hng hgen hs' hnn
  · intro hfs hph k s hk ho h1 h2
    have hne : t.g.secs ≠ [] := by
      intro e
      have := layoutSegment_empty _ _ _ _ t.lay t.lay' t.g t.g' e (by rw [← hsecs, ← hty]; exact hph) f1
      rw [this] at hfs; exact absurd hfs (by decide)
    obtain ⟨hA, hB, -⟩ := hflat hne
    obtain ⟨hP, -, -, -⟩ := layout_packed o h res hl hnw hn h0
    obtain ⟨s2, hs2, hm2, hsame, hloose⟩ := layout_final_desc o h res hl hnw k s hk
    cases hw : withoutSegment res.segs k with
    | true =>
      have hi : s2.index ≠ 0 := by rw [← hm2.index]; exact hP.nz k s hk ho
      have := hloose hw hi
      have := f5.mono
      omega
    | false =>
      have := hsame hw; subst this
      by_cases hgA : t.lay.Gen k
      · -- generated before the turn: ends before the segment starts
        have hlt : k < t.lay.secs.length := by
          rw [← hstepT.len, ← f5.len]
          rcases Nat.lt_or_ge k res.lay2.secs.length with h' | h'
          · exact h'
          · rw [List.getElem?_eq_none h'] at hs2; exact nomatch hs2
        have hsa : t.lay.secs[k]? = some t.lay.secs[k] := List.getElem?_eq_getElem hlt
        have h3 := f5.frame k _ (hstepT.genMono k hgA) (hstepT.frame k _ hgA hsa)
        rw [hs2] at h3; simp only [Option.some.injEq] at h3
        have := f3.packed.inR k _ hsa hgA (by rw [← h3]; exact ho)
        rw [← h3] at this
        omega
      · by_cases hgB : t.lay'.Gen k
        · exact dom.2.1 k s hgA hgB (final_of_turn o h res hl hnw t f5 k s hk hw hgB) ho
        · have hg2 : res.lay2.Gen k := by
            rcases placed_all o h res hl hnw hn h0 k with hg2 | hg2
            · exact hg2
            · rw [hw] at hg2; exact nomatch hg2
          have := f5.fresh k s hgB hg2 hs2 ho
          omega

/-- every final section is the original section at the same position, up to `addr`/`offset` -/
theorem final_orig (o : Obj) (h : Bytes) (res : LayoutRes) (hl : layoutOf o h = .ok (some res))
    (hnw : layoutNW o h = true) (hn : o.secs.length < 65536)
    (h0 : ∀ (i : Nat) (s : SecBuf), o.secs[i]? = some s → s.Occ → s.index ≠ 0)
    (k : Nat) (s' : SecBuf) (hk : res.secs[k]? = some s') :
    ∃ s0, o.secs[k]? = some s0 ∧ SecBuf.Moved s0 s' := by
  obtain ⟨-, hstep2, -, -⟩ := layout_packed o h res hl hnw hn h0
  obtain ⟨s2, hs2, hm2, -, -⟩ := layout_final_desc o h res hl hnw k s' hk
  have hlt : k < o.secs.length := by
    have hlen : res.lay2.secs.length = o.secs.length := hstep2.len
    rw [← hlen]
    rcases Nat.lt_or_ge k res.lay2.secs.length with h' | h'
    · exact h'
    · rw [List.getElem?_eq_none h'] at hs2; exact nomatch hs2
  have hs0 : (lay0Of o res.pos0).secs[k]? = some o.secs[k] := List.getElem?_eq_getElem hlt
  obtain ⟨s2', hs2', hm⟩ := hstep2.moved k _ hs0
  rw [hs2] at hs2'; simp only [Option.some.injEq] at hs2'; subst hs2'
  exact ⟨o.secs[k], List.getElem?_eq_getElem hlt, hm.trans hm2⟩

/-! ### the stream: what `save` writes reaches every range it laid out -/

namespace OStream

/-- the put position is inside the content -/
def LayWF (s : OStream) : Prop := s.pos ≤ s.content.length

theorem lay_write_fail (s : OStream) (bs : Bytes) (h : (s.write bs).fail = false) : s.fail = false := by
  unfold write at h
  cases hf : s.fail with
  | false => rfl
  | true => rw [hf] at h; simp [hf] at h

theorem lay_write_facts (s : OStream) (bs : Bytes) (hw : s.LayWF) (h : (s.write bs).fail = false) :
    (s.write bs).LayWF ∧ s.content.length ≤ (s.write bs).content.length ∧
    s.pos + bs.length ≤ (s.write bs).content.length := by
  have hf := lay_write_fail s bs h
  have key : ∀ room : Nat, room = bs.length →
      let acc := bs.take room
      let c := if s.pos + acc.length ≤ s.content.length then wr s.content s.pos acc
               else s.content.take s.pos ++ acc
      s.pos + acc.length ≤ c.length ∧ s.content.length ≤ c.length ∧ s.pos + bs.length ≤ c.length := by
    intro room hre
    unfold LayWF at hw
    have hacc : (bs.take room).length = bs.length := by rw [hre]; simp
    simp only
    by_cases hc : s.pos + (bs.take room).length ≤ s.content.length
    · rw [if_pos hc, wr_length _ _ _ hc]
      omega
    · rw [if_neg hc]
      simp only [List.length_append, List.length_take] at hacc hc ⊢
      omega
  unfold write at h ⊢
  unfold LayWF
  simp only [hf, Bool.false_eq_true, if_false, decide_eq_false_iff_not, Nat.not_lt] at h ⊢
  cases hb : s.budget with
  | none => exact key _ rfl
  | some k =>
    rw [hb] at h
    simp only at h ⊢
    exact key _ (by omega)

theorem lay_seekp_facts (s : OStream) (p : Int) (h : (s.seekp p).fail = false) :
    s.fail = false ∧ (s.seekp p).LayWF ∧ (s.seekp p).content = s.content ∧ 0 ≤ p ∧ (s.seekp p).pos = p.toNat := by
  unfold seekp at h ⊢
  unfold LayWF
  cases hf : s.fail with
  | true => rw [hf] at h; simp [hf] at h
  | false =>
    rw [hf] at h
    by_cases hc : p < 0 ∨ p.toNat > s.content.length
    · rw [if_neg (by simp), if_pos hc] at h; exact nomatch h
    · rw [if_neg (by simp), if_neg hc]
      exact ⟨rfl, by simp only; omega, rfl, by omega, rfl⟩

theorem lay_adjust_facts (s : OStream) (off : Int) (h : (s.adjust off).fail = false) :
    s.fail = false ∧ (s.adjust off).LayWF ∧ s.content.length ≤ (s.adjust off).content.length ∧
    0 ≤ off ∧ (s.adjust off).pos = off.toNat := by
  unfold adjust at h ⊢
  simp only at h ⊢
  obtain ⟨h1, h2, h3, h4, h5⟩ := lay_seekp_facts _ off h
  have hf : s.fail = false := by
    split at h1
    · have := lay_write_fail _ _ h1
      unfold seekEnd at this; split at this <;> simp_all
    · unfold seekEnd at h1; split at h1 <;> simp_all
  refine ⟨hf, h2, ?_, h4, h5⟩
  rw [h3]
  have hse : s.seekEnd.LayWF := by unfold seekEnd LayWF; simp [hf]
  have hsl : s.seekEnd.content = s.content := by unfold seekEnd; simp [hf]
  split
  · rename_i hlt
    have := (lay_write_facts s.seekEnd _ hse (by split at h1; exact h1; exact absurd hlt ‹_›)).2.1
    rw [hsl] at this; exact this
  · rw [hsl]; exact Nat.le_refl _

end OStream

theorem ite_pure_eq' {α : Type} (c : Prop) [Decidable c] (a b r : α)
    (h : (if c then (pure a : M α) else pure b) = .ok r) : (c ∧ r = a) ∨ (¬ c ∧ r = b) := by
  split at h <;> simp only [pure, Except.pure, Except.ok.injEq] at h
  · exact Or.inl ⟨‹_›, h.symm⟩
  · exact Or.inr ⟨‹_›, h.symm⟩

/-- the stream operations of a successful `save`: header at the start, then every section
    (header record, then data), then every program header -/
theorem save_stream (o : Obj) (os : OStream) (r : SaveRes) (h : save o os = .ok r) (hok : r.ok = true) :
    ∃ hdr hdrF, o.hdr = some hdr ∧ r.obj.hdr = some hdrF ∧
      hdrF = Hdr.set_shoff o.cls o.enc (saveHdr0 (preSave o) hdr) r.obj.curPos.toNat ∧
      ((os.seekp (trApply o.trans 0)).write hdrF).fail = false ∧
      r.os = r.obj.segs.foldl (saveSegment o.cls o.enc (Hdr.e_phoff o.cls o.enc hdrF) (Hdr.e_phentsize o.cls o.enc hdrF))
        (r.obj.secs.foldl (saveSection o.cls o.enc (Hdr.e_shoff o.cls o.enc hdrF) (Hdr.e_shentsize o.cls o.enc hdrF))
          ((os.seekp (trApply o.trans 0)).write hdrF)) ∧
      r.os.fail = false := by
  unfold save at h
  simp only [save_phoff_toNat, save_shoff0_toNat] at h
  cases hh : o.hdr with
  | none =>
    rw [hh] at h
    simp only [save_entry_refused_none, if_true, pure, Except.pure, Except.ok.injEq] at h
    subst h; exact absurd hok (by simp)
  | some hdr =>
    rw [hh] at h
    simp only [save_entry_refused_some] at h
    by_cases hf : os.fail = true
    · simp only [hf, if_true, pure, Except.pure, Except.ok.injEq] at h
      subst h; exact absurd hok (by simp)
    · simp only [hf, Bool.false_eq_true, if_false] at h
      refine ⟨hdr, ?_⟩
      unfold preSave
      generalize allResident o.cls o.trans o.secs { st := o.stream } [] = ar at h ⊢
      cases hm : o.segs.mapM (calcSegAlign ar.1) with
      | error e => rw [hm] at h; simp [bind, Except.bind] at h
      | ok segs =>
        rw [hm] at h
        simp only [bind, Except.bind] at h
        cases ho : orderedSegments segs with
        | error e => rw [ho] at h; simp at h
        | ok ordered =>
          rw [ho] at h
          simp only at h
          split at h
          · simp at h
          · rename_i v hfold
            cases v with
            | none =>
              simp only [pure, Except.pure, Except.ok.injEq] at h
              subst h; exact absurd hok (by simp)
            | some ld =>
              obtain ⟨lay, done⟩ := ld
              simp only [pure, Except.pure, Except.ok.injEq] at h
              subst h
              obtain ⟨hnf, ho', hos, hff⟩ := saveWrite_ok _ _ _ _ _ _ hok
              rw [ho', hos]
              exact ⟨_, rfl, rfl, rfl, hnf, rfl, by rw [← hos]; exact hff⟩

/-- one `section_impl::save`: nothing before fails, the stream only grows, the section header
    record — and the data, if written — end inside the stream -/
theorem saveSection_facts (c : Cls) (enc : Enc) (shoff : BitVec 64) (shentsize : BitVec 16) (os : OStream)
    (b : SecBuf) (hw : os.LayWF) (h : (saveSection c enc shoff shentsize os b).fail = false) :
    os.fail = false ∧ (saveSection c enc shoff shentsize os b).LayWF ∧
    os.content.length ≤ (saveSection c enc shoff shentsize os b).content.length ∧
    0 ≤ shoff.toInt + (Int.ofNat shentsize.toNat) * (Int.ofNat b.index) ∧
    (shoff.toInt + (Int.ofNat shentsize.toNat) * (Int.ofNat b.index)).toNat + (encodeShdr c enc b).length ≤
      (saveSection c enc shoff shentsize os b).content.length ∧
    (b.Occ → b.data.isSome = true →
      b.offset.toInt.toNat + ((b.data.getD []).take b.size.toNat).length ≤
        (saveSection c enc shoff shentsize os b).content.length) := by
  unfold saveSection at h ⊢
  simp only [secWritesData_eq] at h ⊢
  generalize hhp : shoff.toInt + (Int.ofNat shentsize.toNat) * (Int.ofNat b.index) = hp at *
  by_cases hc : (b.stype != BitVec.ofNat 32 SHT_NOBITS && b.stype != BitVec.ofNat 32 SHT_NULL && b.size != 0 && b.data.isSome) = true
  · simp only [hc, if_true] at h ⊢
    have h4 := OStream.lay_write_fail _ _ h
    obtain ⟨h3, w3, l3, p3, q3⟩ := OStream.lay_adjust_facts _ _ h4
    have h2 := OStream.lay_write_fail _ _ h3
    obtain ⟨h1, w1, l1, p1, q1⟩ := OStream.lay_adjust_facts _ _ h2
    obtain ⟨w2, l2, e2⟩ := OStream.lay_write_facts _ _ w1 h3
    obtain ⟨w4, l4, e4⟩ := OStream.lay_write_facts _ _ w3 h
    rw [q1] at e2; rw [q3] at e4
    exact ⟨h1, w4, by omega, p1, by omega, fun _ _ => e4⟩
  · have hc' : (b.stype != BitVec.ofNat 32 SHT_NOBITS && b.stype != BitVec.ofNat 32 SHT_NULL && b.size != 0 && b.data.isSome) = false := by
      simpa using hc
    simp only [hc', Bool.false_eq_true, if_false] at h ⊢
    have h2 := OStream.lay_write_fail _ _ h
    obtain ⟨h1, w1, l1, p1, q1⟩ := OStream.lay_adjust_facts _ _ h2
    obtain ⟨w2, l2, e2⟩ := OStream.lay_write_facts _ _ w1 h
    rw [q1] at e2
    refine ⟨h1, w2, by omega, p1, e2, ?_⟩
    intro ho hd
    exfalso
    simp only [Bool.and_eq_false_iff, bne_eq_false_iff_eq, Bool.not_eq_true] at hc'
    rcases hc' with ((h' | h') | h') | h'
    · exact ho.1 h'
    · exact ho.2.1 h'
    · exact ho.2.2 h'
    · rw [hd] at h'; exact nomatch h'

theorem saveSections_facts (c : Cls) (enc : Enc) (shoff : BitVec 64) (shentsize : BitVec 16) (l : List SecBuf)
    (os : OStream) (hw : os.LayWF) (h : (l.foldl (saveSection c enc shoff shentsize) os).fail = false) :
    os.fail = false ∧ (l.foldl (saveSection c enc shoff shentsize) os).LayWF ∧
    os.content.length ≤ (l.foldl (saveSection c enc shoff shentsize) os).content.length ∧
    ∀ b ∈ l,
      0 ≤ shoff.toInt + (Int.ofNat shentsize.toNat) * (Int.ofNat b.index) ∧
      (shoff.toInt + (Int.ofNat shentsize.toNat) * (Int.ofNat b.index)).toNat + (encodeShdr c enc b).length ≤
        (l.foldl (saveSection c enc shoff shentsize) os).content.length ∧
      (b.Occ → b.data.isSome = true →
        b.offset.toInt.toNat + ((b.data.getD []).take b.size.toNat).length ≤
          (l.foldl (saveSection c enc shoff shentsize) os).content.length) := by
  induction l generalizing os with
  | nil => exact ⟨h, hw, Nat.le_refl _, fun b hb => nomatch hb⟩
  | cons a rest ih =>
    simp only [List.foldl_cons] at h ⊢
    have hih := ih (saveSection c enc shoff shentsize os a)
    by_cases hfa : (saveSection c enc shoff shentsize os a).fail = false
    · obtain ⟨f1, f2, f3, f4, f5, f6⟩ := saveSection_facts c enc shoff shentsize os a hw hfa
      obtain ⟨g1, g2, g3, g4⟩ := hih f2 h
      refine ⟨f1, g2, by omega, ?_⟩
      intro b hb
      rcases List.mem_cons.1 hb with rfl | hb
      · exact ⟨f4, by omega, fun ho hd => by have := f6 ho hd; omega⟩
      · exact g4 b hb
    · -- a failed stream stays failed
      exfalso
      have hfa' : (saveSection c enc shoff shentsize os a).fail = true := by simpa using hfa
      have : ∀ (l : List SecBuf) (s : OStream), s.fail = true →
          (l.foldl (saveSection c enc shoff shentsize) s).fail = true := by
        intro l
        induction l with
        | nil => intro s hs; exact hs
        | cons x xs ihx =>
          intro s hs
          simp only [List.foldl_cons]
          apply ihx
          have : saveSection c enc shoff shentsize s x = s := by
            unfold saveSection OStream.adjust OStream.seekEnd OStream.write OStream.seekp OStream.tellp
            simp [hs]
          rw [this]; exact hs
      rw [this rest _ hfa'] at h; exact nomatch h

theorem saveSegment_facts (c : Cls) (enc : Enc) (phoff : BitVec 64) (phentsize : BitVec 16) (os : OStream)
    (g : Seg) (_hw : os.LayWF) (h : (saveSegment c enc phoff phentsize os g).fail = false) :
    os.fail = false ∧ (saveSegment c enc phoff phentsize os g).LayWF ∧
    os.content.length ≤ (saveSegment c enc phoff phentsize os g).content.length := by
  unfold saveSegment at h ⊢
  simp only at h ⊢
  have h2 := OStream.lay_write_fail _ _ h
  obtain ⟨h1, w1, l1, -, -⟩ := OStream.lay_adjust_facts _ _ h2
  obtain ⟨w2, l2, -⟩ := OStream.lay_write_facts _ _ w1 h
  exact ⟨h1, w2, by omega⟩

theorem saveSegments_facts (c : Cls) (enc : Enc) (phoff : BitVec 64) (phentsize : BitVec 16) (l : List Seg)
    (os : OStream) (hw : os.LayWF) (h : (l.foldl (saveSegment c enc phoff phentsize) os).fail = false) :
    os.fail = false ∧ os.content.length ≤ (l.foldl (saveSegment c enc phoff phentsize) os).content.length := by
  induction l generalizing os with
  | nil => exact ⟨h, Nat.le_refl _⟩
  | cons a rest ih =>
    simp only [List.foldl_cons] at h ⊢
    by_cases hfa : (saveSegment c enc phoff phentsize os a).fail = false
    · obtain ⟨h1, w2, l2⟩ := saveSegment_facts c enc phoff phentsize os a hw hfa
      have := ih (saveSegment c enc phoff phentsize os a) w2 h
      exact ⟨h1, by omega⟩
    · exfalso
      have hfa' : (saveSegment c enc phoff phentsize os a).fail = true := by simpa using hfa
      have : ∀ (l : List Seg) (s : OStream), s.fail = true →
          (l.foldl (saveSegment c enc phoff phentsize) s).fail = true := by
        intro l
        induction l with
        | nil => intro s hs; exact hs
        | cons x xs ihx =>
          intro s hs
          simp only [List.foldl_cons]
          apply ihx
          have : saveSegment c enc phoff phentsize s x = s := by
            unfold saveSegment OStream.adjust OStream.seekEnd OStream.write OStream.seekp OStream.tellp
            simp [hs]
          rw [this]; exact hs
      rw [this rest _ hfa'] at h; exact nomatch h

/-! ### transfer of the structural hypotheses to the object the layout runs on -/

theorem preSave_length (o : Obj) : (preSave o).secs.length = o.secs.length := by
  have := congrArg List.length (preSave_hdr o)
  simpa using this

theorem preSave_h0 (o : Obj)
    (h0 : ∀ (i : Nat) (s : SecBuf), o.secs[i]? = some s → s.Occ → s.index ≠ 0) :
    ∀ (i : Nat) (s : SecBuf), (preSave o).secs[i]? = some s → s.Occ → s.index ≠ 0 := by
  intro i s hs ho
  obtain ⟨s0, hs0, hh⟩ := hdrOf_getElem? (preSave_hdr o) i s hs
  have := h0 i s0 hs0 ((occ_of_hdrOf hh).1 ho)
  simp only [hdrOf, Prod.mk.injEq] at hh
  rw [← hh.2.2.2.1]; exact this

theorem saveHdr0_preSave (o : Obj) (h : Bytes) : saveHdr0 (preSave o) h = saveHdr0 o h := by
  unfold saveHdr0
  rw [preSave_length]
  rfl

/-! ### the section header table offset read back from the saved header -/

theorem setF_length (c : Cls) (enc : Enc) (h : Bytes) (o32 w32 o64 w64 v : Nat)
    (hb : match c with | .c32 => o32 + w32 ≤ h.length | .c64 => o64 + w64 ≤ h.length) :
    (Hdr.setF c enc h o32 w32 o64 w64 v).length = h.length := by
  unfold Hdr.setF
  cases c
  · simp only at hb ⊢; rw [wr_length _ _ _ (by rw [wrField_length_arr]; exact hb)]
  · simp only at hb ⊢; rw [wr_length _ _ _ (by rw [wrField_length_arr]; exact hb)]

theorem saveHdr0_length (o : Obj) (h : Bytes) (hl : ehdrSize o.cls ≤ h.length) : (saveHdr0 o h).length = h.length := by
  unfold saveHdr0
  simp only
  have hb : ∀ (x : Bytes), x.length = h.length → ∀ o32 w32 o64 w64, o32 + w32 ≤ 52 → o64 + w64 ≤ 64 →
      (match o.cls with | .c32 => o32 + w32 ≤ x.length | .c64 => o64 + w64 ≤ x.length) := by
    intro x hx o32 w32 o64 w64 h1 h2
    rw [hx]
    cases hc : o.cls <;> (rw [hc] at hl; simp only [ehdrSize, sizeof_Elf32_Ehdr, sizeof_Elf64_Ehdr] at hl ⊢; omega)
  have l1 : ∀ v, (Hdr.set_phnum o.cls o.enc h v).length = h.length := by
    intro v; unfold Hdr.set_phnum
    exact setF_length _ _ _ _ _ _ _ _ (hb h rfl _ _ _ _ (by decide) (by decide))
  have l2 : ∀ (x : Bytes) v, x.length = h.length → (Hdr.set_phoff o.cls o.enc x v).length = h.length := by
    intro x v hx; unfold Hdr.set_phoff
    rw [setF_length _ _ _ _ _ _ _ _ (hb x hx _ _ _ _ (by decide) (by decide))]; exact hx
  have l3 : ∀ (x : Bytes) v, x.length = h.length → (Hdr.set_shnum o.cls o.enc x v).length = h.length := by
    intro x v hx; unfold Hdr.set_shnum
    rw [setF_length _ _ _ _ _ _ _ _ (hb x hx _ _ _ _ (by decide) (by decide))]; exact hx
  have l4 : ∀ (x : Bytes) v, x.length = h.length → (Hdr.set_shoff o.cls o.enc x v).length = h.length := by
    intro x v hx; unfold Hdr.set_shoff
    rw [setF_length _ _ _ _ _ _ _ _ (hb x hx _ _ _ _ (by decide) (by decide))]; exact hx
  exact l4 _ _ (l3 _ _ (l2 _ _ (l1 _)))

theorem e_shoff_set_shoff (c : Cls) (enc : Enc) (h : Bytes) (v : BitVec 64) (hl : ehdrSize c ≤ h.length)
    (hf : fitsB c v = true) : Hdr.e_shoff c enc (Hdr.set_shoff c enc h v.toNat) = v := by
  unfold Hdr.e_shoff Hdr.set_shoff Hdr.setF fld
  cases c with
  | c32 =>
    simp only [ehdrSize, sizeof_Elf32_Ehdr] at hl
    simp only [Elf32_Ehdr.e_shoff_off, Elf32_Ehdr.e_shoff_w]
    have := slice_wr_same_arr h (wrField enc 4 v.toNat) 32 (by rw [wrField_length_arr]; omega)
    rw [wrField_length_arr] at this
    rw [this, rdField_wrField enc 4 _ (Or.inr (Or.inr (Or.inl rfl)))]
    simp only [fitsB, decide_eq_true_eq] at hf
    apply BitVec.eq_of_toNat_eq
    simp only [BitVec.toNat_ofNat, Nat.reducePow, Nat.reduceMul]
    omega
  | c64 =>
    simp only [ehdrSize, sizeof_Elf64_Ehdr] at hl
    simp only [Elf64_Ehdr.e_shoff_off, Elf64_Ehdr.e_shoff_w]
    have := slice_wr_same_arr h (wrField enc 8 v.toNat) 40 (by rw [wrField_length_arr]; omega)
    rw [wrField_length_arr] at this
    rw [this, rdField_wrField enc 8 _ (Or.inr (Or.inr (Or.inr rfl)))]
    apply BitVec.eq_of_toNat_eq
    have := v.isLt
    simp only [BitVec.toNat_ofNat, Nat.reducePow, Nat.reduceMul]
    omega

theorem saveSegments_sticky (c : Cls) (enc : Enc) (phoff : BitVec 64) (phentsize : BitVec 16) (l : List Seg)
    (os : OStream) (h : (l.foldl (saveSegment c enc phoff phentsize) os).fail = false) : os.fail = false := by
  cases hf : os.fail with
  | false => rfl
  | true =>
    exfalso
    have : ∀ (l : List Seg) (s : OStream), s.fail = true →
        (l.foldl (saveSegment c enc phoff phentsize) s).fail = true := by
      intro l
      induction l with
      | nil => intro s hs; exact hs
      | cons x xs ihx =>
        intro s hs
        simp only [List.foldl_cons]
        apply ihx
        have : saveSegment c enc phoff phentsize s x = s := by
          unfold saveSegment OStream.adjust OStream.seekEnd OStream.write OStream.seekp OStream.tellp
          simp [hs]
        rw [this]; exact hs
    rw [this l os hf] at h; exact nomatch h

/-- the number of sections does not change -/
theorem layout_length (o : Obj) (h : Bytes) (res : LayoutRes) (hl : layoutOf o h = .ok (some res))
    (hnw : layoutNW o h = true) (hn : o.secs.length < 65536)
    (h0 : ∀ (i : Nat) (s : SecBuf), o.secs[i]? = some s → s.Occ → s.index ≠ 0) :
    res.secs.length = o.secs.length := by
  obtain ⟨-, hstep2, -, -⟩ := layout_packed o h res hl hnw hn h0
  have hlen : res.lay2.secs.length = o.secs.length := hstep2.len
  unfold layoutNW at hnw
  rw [hl] at hnw
  simp only [Bool.and_eq_true, decide_eq_true_eq] at hnw
  obtain ⟨⟨-, hnw3⟩, -⟩ := hnw
  obtain ⟨-, -, -, -, -, -, hloose, -⟩ := layoutOf_parts o h res hl
  rw [layoutLoose_eq_spec] at hloose
  simp only [List.reverse_nil, List.nil_append, Prod.mk.injEq] at hloose
  obtain ⟨flen, -⟩ := looseSpec_facts o.cls res.segs res.lay2.secs 0 res.lay2.pos hnw3
  rw [hloose.1, flen, hlen]

/-! ### nested segments: they start at their first member's offset -/

/-- the segment's first member has already been generated (by an enclosing segment) and the segment
    is neither the PHDR nor the offset-0 special case: it starts at that member's offset -/
def segNestedStartB (lay : Layout) (g : Seg) : Bool :=
  !lseg_is_phdr g.stype (BitVec.ofNat 16 g.secs.length) && !lseg_offset0 g.offsetSet g.offset &&
    match g.secs.head? with
    | some f => lay.gen[f.toNat]? == some true
    | none => false

theorem layoutSegment_nested_start (c : Cls) (hdrPhoff : BitVec 64) (phentsize phnum : BitVec 16)
    (lay lay' : Layout) (g g' : Seg) (hnw : segNW c hdrPhoff phentsize phnum lay g = true)
    (hns : segNestedStartB lay g = true)
    (h : layoutSegment c hdrPhoff phentsize phnum lay g = .ok (some (lay', g'))) :
    ∃ f s, g.secs.head? = some f ∧ lay.Gen f.toNat ∧ lay.secs[f.toNat]? = some s ∧ g'.offset = s.offset := by
  obtain ⟨fg, r, st, hfg, hin, hloop, rfl, rfl⟩ := layoutSegment_parts c hdrPhoff phentsize phnum lay lay' g g' h
  unfold segNestedStartB at hns
  simp only [Bool.and_eq_true, Bool.not_eq_true'] at hns
  obtain ⟨⟨h1, h2⟩, h3⟩ := hns
  cases hh : g.secs.head? with
  | none => rw [hh] at h3; exact nomatch h3
  | some f =>
    rw [hh] at h3
    have hgen : lay.gen[f.toNat]? = some true := by simpa using h3
    have hlen : g.secs.length > 0 := by
      cases hs : g.secs with
      | nil => rw [hs] at hh; exact nomatch hh
      | cons a b => simp
    have hfg' : fg = true := by
      unfold segFirstGen at hfg
      rw [hh] at hfg; simp only at hfg; rw [hgen] at hfg
      simp only [pure, Except.pure, Except.ok.injEq] at hfg
      exact hfg.symm
    subst hfg'
    unfold segNW at hnw
    rw [hfg] at hnw
    simp only at hnw
    rw [hin] at hnw
    simp only [Bool.and_eq_true, decide_eq_true_eq] at hnw
    obtain ⟨⟨-, hsfit⟩, -⟩ := hnw
    unfold segInit at hin
    simp only [h1, h2, Bool.false_eq_true, if_false, hlen, decide_true, Bool.not_true, Bool.and_false,
      if_true, hh] at hin
    cases hs : lay.secs[f.toNat]? with
    | none => rw [hs] at hin; simp [throw, throwThe, MonadExceptOf.throw] at hin
    | some s =>
      rw [hs] at hin
      simp only [pure, Except.pure, Except.ok.injEq] at hin
      subst hin
      refine ⟨f, s, rfl, hgen, hs, ?_⟩
      rw [(segFinish_fields c g _ st).1]
      exact truncA_of_fits c _ hsfit

/-- "`P` holds at the turn of every selected segment" for a successful layout -/
def layoutSelB (P : Layout → Seg → Bool) (sel : Nat → Bool) (o : Obj) (h : Bytes) : Bool :=
  match layoutOf o h with
  | .ok (some res) =>
    segsAllB (fun lay g => !sel g.index || P lay g)
      o.cls (Hdr.e_phoff o.cls o.enc res.hdr0) (Hdr.e_phentsize o.cls o.enc res.hdr0)
      (Hdr.e_phnum o.cls o.enc res.hdr0) res.ordered (lay0Of o res.pos0)
  | _ => true

/-- a nested segment of the final object starts at the final offset of its first member -/
theorem final_nested_start (o : Obj) (h : Bytes) (res : LayoutRes) (hl : layoutOf o h = .ok (some res))
    (hnw : layoutNW o h = true) (hn : o.secs.length < 65536)
    (h0 : ∀ (i : Nat) (s : SecBuf), o.secs[i]? = some s → s.Occ → s.index ≠ 0)
    (hnd : (o.segs.map (·.index)).Nodup) (sel : Nat → Bool)
    (hnest : layoutSelB segNestedStartB sel o h = true)
    (g' : Seg) (hg : g' ∈ res.segs) (hsel : sel g'.index = true) :
    ∃ f s, g'.secs.head? = some f ∧ res.secs[f.toNat]? = some s ∧ g'.offset = s.offset := by
  obtain ⟨t, ht, rfl⟩ := final_segs_turn o h res hl hnw hn h0 hnd g' hg
  obtain ⟨-, -, e3⟩ := layoutOf_trace o h res hl hnw hn h0
  obtain ⟨f1, f2, f3, f4, f5, f6⟩ := e3 t ht
  obtain ⟨hmarks, hsecs, hidx, -, -, -⟩ := layoutSegment_marks _ _ _ _ _ _ _ _ _ f3 f2 f1
  unfold layoutSelB at hnest
  rw [hl] at hnest
  have hturn := segsAllB_trace _ _ _ _ _ _ _ hnest t ht
  rw [hidx] at hsel
  simp only [hsel, Bool.not_true, Bool.false_or] at hturn
  obtain ⟨f, s, hh, hgen, hs, hoff⟩ := layoutSegment_nested_start _ _ _ _ t.lay t.lay' t.g t.g' f2 hturn f1
  obtain ⟨-, hstepT⟩ := layoutSegment_inv _ _ _ _ t.lay t.lay' t.g t.g' _ f3 f2 f1
  have hfm : f ∈ t.g'.secs := by
    rw [hsecs]
    cases hq : t.g.secs with
    | nil => rw [hq] at hh; exact nomatch hh
    | cons a b => rw [hq] at hh; simp only [List.head?_cons, Option.some.injEq] at hh; subst hh; exact List.mem_cons_self
  have hw := withoutSegment_false_of_mem res.segs t.g' hg f hfm
  -- the section is framed from the turn to the end of pass 2 and not touched by pass 3
  have h2 : res.lay2.secs[f.toNat]? = some s := f5.frame _ _ (hstepT.genMono _ hgen) (hstepT.frame _ _ hgen hs)
  have hlt : f.toNat < res.secs.length := by
    have := layout_length o h res hl hnw hn h0
    rw [this]
    have hl2 : res.lay2.secs.length = o.secs.length := by
      have := (f4.trans (hstepT.trans f5)).len; exact this
    rw [← hl2]
    rcases Nat.lt_or_ge f.toNat res.lay2.secs.length with h' | h'
    · exact h'
    · rw [List.getElem?_eq_none h'] at h2; exact nomatch h2
  have hk : res.secs[f.toNat]? = some res.secs[f.toNat] := List.getElem?_eq_getElem hlt
  obtain ⟨s2, hs2, -, hsame, -⟩ := layout_final_desc o h res hl hnw f.toNat _ hk
  rw [h2] at hs2; simp only [Option.some.injEq] at hs2; subst hs2
  refine ⟨f, s, by rw [hsecs]; exact hh, ?_, hoff⟩
  rw [hk, hsame hw]

end ElfioVerif
