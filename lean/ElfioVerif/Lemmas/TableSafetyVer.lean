/-
C18 helper lemmas, part 3: symbol lookup by name, array / versym entries, version requirement /
definition chains are total on `Sec` sections with arbitrary contents.
-/
import ElfioVerif.Lemmas.TableSafetyGnu
namespace ElfioVerif
open Gen

namespace C18

/-! ### lookup by name -/

theorem hashPhase_total (t : SymTab) (ht : TabOk t) (hsmall : ∀ h, t.hash = some h → Small h)
    (name : Bytes) (a : Attrs) : ∃ r, TQ.hashPhase t name a = .ok r := by
  unfold TQ.hashPhase
  cases hh : t.hash with
  | none => exact ⟨_, rfl⟩
  | some h =>
    have hs := ht.hash h hh
    dsimp only
    have h1 : ∃ r, (if tq_sym_hash_is_sysv h.stype = true then TQ.hashLookup t h name a
        else pure (false, a)) = .ok r := by
      by_cases hc : tq_sym_hash_is_sysv h.stype = true
      · rw [if_pos hc]; exact hashLookup_total t ht h hs name a
      · rw [if_neg hc]; exact ⟨_, rfl⟩
    obtain ⟨r1, hr1⟩ := h1
    rw [hr1]
    dsimp only
    by_cases hc : tq_sym_hash_is_gnu h.stype = true
    · rw [if_pos hc, TQTie.gnuLookupT_dispatch]; exact gnuLookup_total t ht h hs (hsmall h hh) name r1.2
    · rw [if_neg hc]; exact ⟨_, rfl⟩

/-- `get_symbol(name, …)` : hash phase, then the linear fallback over `get_symbols_num()` entries -/
theorem getByName_total (t : SymTab) (ht : TabOk t) (hsmall : ∀ h, t.hash = some h → Small h)
    (name : Bytes) (a : Attrs) : ∃ r, TQ.getByName t name a = .ok r := by
  unfold TQ.getByName
  obtain ⟨r, hr⟩ := hashPhase_total t ht hsmall name a
  rw [hr]
  dsimp only
  by_cases h1 : tq_sym_linear_needed r.1 = true
  · rw [if_pos h1]
    obtain ⟨n, hn, -, -⟩ := symbolsNum_spec t
    rw [hn]
    exact linearGo_total t ht name _ _ _
  · rw [if_neg h1]; exact ⟨_, rfl⟩

/-! ### arrays and symbol-version indices -/

theorem arrGet_total (w : Arr.W) (e : Enc) (b : SecBuf) (hs : Sec b) (idx : BitVec 64) :
    ∃ r, TQ.arrGet w e b idx = .ok r := by
  have hsl := b.size.isLt
  simp only [Nat.reducePow] at hsl
  cases w with
  | w4 =>
    simp only [TQ.arrGet]
    by_cases hg : arr32_get_guard idx (Arr.entriesNum .w4 b) = true
    · rw [if_pos hg]; exact ⟨_, rfl⟩
    rw [if_neg hg, hs.secData]
    cases hd : b.data with
    | none => exact ⟨_, rfl⟩
    | some d =>
      simp only [tq_arr32_nodata, Option.isNone_some, Bool.false_eq_true, if_false]
      unfold Arr.getEntry
      simp only [hg, Bool.false_eq_true, if_false, hs.getData, hd]
      have hi : idx.toNat < b.size.toNat / 4 := by
        simp only [arr32_get_guard, Arr.entriesNum, arr32_entries_num, BitVec.ule, BitVec.toNat_udiv,
          BitVec.toNat_ofNat, decide_eq_true_eq, Nat.not_le, Nat.reducePow, Nat.reduceMod] at hg
        exact hg
      have hoff : (arr32_get_off idx).toNat = idx.toNat * 4 := by
        simp only [arr32_get_off, BitVec.toNat_mul, BitVec.toNat_ofNat, Nat.reducePow, Nat.reduceMod]; omega
      rw [hs.rd hd _ _ _ (by rw [hoff]; omega)]
      exact ⟨_, rfl⟩
  | w8 =>
    simp only [TQ.arrGet]
    by_cases hg : arr64_get_guard idx (Arr.entriesNum .w8 b) = true
    · rw [if_pos hg]; exact ⟨_, rfl⟩
    rw [if_neg hg, hs.secData]
    cases hd : b.data with
    | none => exact ⟨_, rfl⟩
    | some d =>
      simp only [tq_arr64_nodata, Option.isNone_some, Bool.false_eq_true, if_false]
      unfold Arr.getEntry
      simp only [hg, Bool.false_eq_true, if_false, hs.getData, hd]
      have hi : idx.toNat < b.size.toNat / 8 := by
        simp only [arr64_get_guard, Arr.entriesNum, arr64_entries_num, BitVec.ule, BitVec.toNat_udiv,
          BitVec.toNat_ofNat, decide_eq_true_eq, Nat.not_le, Nat.reducePow, Nat.reduceMod] at hg
        exact hg
      have hoff : (arr64_get_off idx).toNat = idx.toNat * 8 := by
        simp only [arr64_get_off, BitVec.toNat_mul, BitVec.toNat_ofNat, Nat.reducePow, Nat.reduceMod]; omega
      rw [hs.rd hd _ _ _ (by rw [hoff]; omega)]
      exact ⟨_, rfl⟩

/-- the count the versym accessor's constructor caches never exceeds `size / 2` -/
theorem versym_mk_le (b : SecBuf) : (Versym.mk b).toNat * 2 ≤ b.size.toNat := by
  simp only [Versym.mk, vs_ctor_guard, if_true, vs_count, BitVec.toNat_setWidth, BitVec.toNat_udiv,
    BitVec.toNat_ofNat, Nat.reducePow, Nat.reduceMod]
  have : b.size.toNat / 2 % 4294967296 ≤ b.size.toNat / 2 := Nat.mod_le _ _
  omega

/-- versym `get_entry(no, value)` for the cached count of a (new) accessor, or any smaller one -/
theorem versymGet_total (b : SecBuf) (hs : Sec b) (num no : BitVec 32) (hnum : num.toNat * 2 ≤ b.size.toNat) :
    ∃ r, TQ.versymGet b num no = .ok r := by
  unfold TQ.versymGet
  by_cases hg : vs_get_guard true no (Versym.entriesNum num) = true
  · rw [if_pos hg, hs.secData]
    cases hd : b.data with
    | none => exact ⟨_, rfl⟩
    | some d =>
      simp only [tq_vs_nodata, Option.isNone_some, Bool.false_eq_true, if_false]
      unfold Versym.getEntry
      simp only [hg, if_true, hs.getData, hd]
      have hi : no.toNat < num.toNat := by
        simp only [vs_get_guard, Versym.entriesNum, vs_num_guard, if_true, Bool.true_and, BitVec.ult,
          decide_eq_true_eq] at hg
        exact hg
      have hoff : (vs_get_off no).toNat = no.toNat * 2 := by
        have := no.isLt
        simp only [vs_get_off, BitVec.toNat_mul, BitVec.toNat_setWidth, BitVec.toNat_ofNat, Nat.reducePow,
          Nat.reduceMod] at *
        omega
      rw [hs.rd hd _ _ _ (by rw [hoff]; omega)]
      exact ⟨_, rfl⟩
  · rw [if_neg hg]; exact ⟨_, rfl⟩

/-! ### version requirement / definition chains (after fixes/19) -/

theorem vrd32_ok {b : SecBuf} (hs : Sec b) {d : Bytes} (hd : b.data = some d) (site : String) (off : Nat)
    (hr : off + 4 ≤ b.size.toNat) :
    ElfioVerif.rd32 site (some d) off = .ok (BitVec.ofNat 32 (hostDecode (slice d off 4))) := by
  unfold ElfioVerif.rd32
  simp only [hs.rd hd site off 4 (by omega), bind, Except.bind, pure, Except.pure]

theorem vrd16_ok {b : SecBuf} (hs : Sec b) {d : Bytes} (hd : b.data = some d) (site : String) (off : Nat)
    (hr : off + 2 ≤ b.size.toNat) :
    ElfioVerif.rd16 site (some d) off = .ok (BitVec.ofNat 16 (hostDecode (slice d off 2))) := by
  unfold ElfioVerif.rd16
  simp only [hs.rd hd site off 2 (by omega), bind, Except.bind, pure, Except.pure]

/-- the `vn_aux` word of the record at byte offset `v` -/
def auxAt (d : Bytes) (v : Nat) (fo : Nat) : BitVec 32 := BitVec.ofNat 32 (hostDecode (slice d (v + fo) 4))

/-- the chain walk of `versym_r_section_accessor::get_entry`: every record it visits lies inside the
    section (`pos + sizeof(Verneed) ≤ size`), the pointer and the offset counter agree, and the loop
    ends after `no` steps -/
theorem needLoop_total (e : Enc) {b : SecBuf} (hs : Sec b) {d : Bytes} (hd : b.data = some d) (no : BitVec 32) :
    ∀ (fuel : Nat) (i : BitVec 32) (pos : BitVec 64) (va : Nat), pos.toNat + 16 ≤ b.size.toNat →
      no.toNat + 1 ≤ fuel + i.toNat → i.toNat ≤ no.toNat →
      va = pos.toNat + (tq_vr_aux (cv32 e) (auxAt d pos.toNat 8)).toNat →
      ∃ r, TQ.needLoop e (some d) b.size no fuel i (pos, pos.toNat, va) = .ok r ∧
        ∀ p v a', r = some (p, v, a') → v = p.toNat ∧ p.toNat + 16 ≤ b.size.toNat ∧
          a' = v + (tq_vr_aux (cv32 e) (auxAt d v 8)).toNat := by
  intro fuel
  induction fuel with
  | zero => intro i pos va _ h2 h3 _; omega
  | succ k ih =>
    intro i pos va hp hf hi hva
    unfold TQ.needLoop
    rw [TQTie.vr_i_incr_eq]
    by_cases hc : vr_loop_cond i no = true
    · rw [if_pos hc]
      have hlt : i.toNat < no.toNat := by simpa [vr_loop_cond, BitVec.ult] using hc
      simp only [show Elfxx_Verneed.vn_next_off = 12 from rfl, show Elfxx_Verneed.vn_aux_off = 8 from rfl]
      rw [vrd32_ok hs hd _ _ (by omega)]
      dsimp only
      generalize hnx : BitVec.ofNat 32 (hostDecode (slice d (pos.toNat + 12) 4)) = nx
      by_cases hb : tq_vr_next_bad (tq_vr_next (cv32 e) nx) b.size pos = true
      · rw [if_pos hb]; exact ⟨_, rfl, fun p v a' h => by cases h⟩
      rw [if_neg hb]
      have hsl := b.size.isLt; have hpl := pos.isLt
      simp only [Nat.reducePow] at hsl hpl
      have hnext : (tq_vr_next (cv32 e) nx).toNat ≤ b.size.toNat - pos.toNat - 16 := by
        simp only [tq_vr_next_bad, Bool.or_eq_true, not_or, BitVec.ult, decide_eq_true_eq, BitVec.toNat_sub,
          BitVec.toNat_ofNat, show sizeof_Elfxx_Verneed = 16 from rfl, Nat.reducePow, Nat.reduceMod] at hb
        omega
      have hpos' : (tq_vr_pos_incr pos (tq_vr_next (cv32 e) nx)).toNat = pos.toNat + (tq_vr_next (cv32 e) nx).toNat := by
        simp only [tq_vr_pos_incr, BitVec.toNat_add, Nat.reducePow]; omega
      have hvn : pos.toNat + (vr_next_off (cv32 e) nx).toNat = (tq_vr_pos_incr pos (tq_vr_next (cv32 e) nx)).toNat := by
        rw [hpos']; rfl
      rw [hvn, vrd32_ok hs hd _ _ (by rw [hpos']; omega)]
      dsimp only
      have hi1 : (i + 1).toNat = i.toNat + 1 := by
        have h1' : (1 : BitVec 32).toNat = 1 := rfl
        have := no.isLt
        simp only [BitVec.toNat_add, h1', Nat.reducePow] at *
        omega
      exact ih (i + 1) _ _ (by rw [hpos']; omega) (by rw [hi1]; omega) (by rw [hi1]; omega) rfl
    · rw [if_neg hc]
      exact ⟨_, rfl, fun p v a' h => by
        simp only [Option.some.injEq, Prod.mk.injEq] at h
        obtain ⟨rfl, rfl, rfl⟩ := h
        exact ⟨rfl, hp, hva⟩⟩

/-- **version requirement `get_entry`** is total for ANY entry count, index and contents -/
theorem needGet_total (e : Enc) (b : SecBuf) (hs : Sec b) (str : Option SecBuf) (num no : BitVec 32) :
    ∃ r, TQ.needGet e b str num no = .ok r := by
  unfold TQ.needGet
  by_cases hg : vr_guard true no num = true
  · rw [if_pos hg]; exact ⟨_, rfl⟩
  rw [if_neg hg]
  simp only [hs.secData]
  by_cases hb : tq_vr_hdr_bad b.data.isNone b.size = true
  · rw [if_pos hb]; exact ⟨_, rfl⟩
  rw [if_neg hb]
  cases hd : b.data with
  | none => simp [tq_vr_hdr_bad, hd] at hb
  | some d =>
    have hsz : 16 ≤ b.size.toNat := by
      simp only [tq_vr_hdr_bad, hd, Option.isNone_some, Bool.false_or, BitVec.ult, decide_eq_true_eq,
        BitVec.toNat_ofNat, show sizeof_Elfxx_Verneed = 16 from rfl, Nat.reducePow, Nat.reduceMod] at hb
      omega
    simp only [show Elfxx_Verneed.vn_aux_off = 8 from rfl, show Elfxx_Verneed.vn_file_off = 4 from rfl,
      show Elfxx_Verneed.vn_version_off = 0 from rfl, show Elfxx_Vernaux.vna_name_off = 8 from rfl,
      show Elfxx_Vernaux.vna_hash_off = 0 from rfl, show Elfxx_Vernaux.vna_flags_off = 4 from rfl,
      show Elfxx_Vernaux.vna_other_off = 6 from rfl]
    rw [vrd32_ok hs hd _ 8 (by omega), TQTie.vr_i_init_eq, TQTie.vr_pos_init_eq]
    dsimp only
    obtain ⟨r, hr, hpost⟩ := needLoop_total e hs hd no (no.toNat + 1) 0 0
      ((vr_aux_off0 (cv32 e) (BitVec.ofNat 32 (hostDecode (slice d 8 4)))).toNat)
      (by simpa using hsz) (by simp) (by simp) (by simp [auxAt]; rfl)
    have h0 : (0 : BitVec 64).toNat = 0 := rfl
    rw [h0] at hr
    rw [hr]
    cases r with
    | none => exact ⟨_, rfl⟩
    | some pva =>
      obtain ⟨pos, vn, va⟩ := pva
      obtain ⟨hv, hp, hva⟩ := hpost pos vn va rfl
      subst hv
      dsimp only
      rw [vrd32_ok hs hd _ _ (by omega)]
      dsimp only
      by_cases hab : tq_vr_aux_bad (tq_vr_aux (cv32 e) (BitVec.ofNat 32 (hostDecode (slice d (pos.toNat + 8) 4))))
          b.size pos = true
      · rw [if_pos hab]; exact ⟨_, rfl⟩
      rw [if_neg hab]
      have hsl := b.size.isLt; have hpl := pos.isLt
      simp only [Nat.reducePow] at hsl hpl
      have haux : va + 16 ≤ b.size.toNat := by
        simp only [tq_vr_aux_bad, Bool.or_eq_true, not_or, BitVec.ult, decide_eq_true_eq, BitVec.toNat_sub,
          BitVec.toNat_ofNat, show sizeof_Elfxx_Vernaux = 16 from rfl, Nat.reducePow, Nat.reduceMod] at hab
        rw [hva]; simp only [auxAt]; omega
      rw [vrd32_ok hs hd _ _ (by omega), vrd32_ok hs hd _ _ (by omega)]
      dsimp only
      split
      · exact ⟨_, rfl⟩
      · rename_i hnb
        -- past the (generated) null test both names are there: the assignments cannot fault
        split
        · rw [vrd16_ok hs hd _ _ (by omega), vrd32_ok hs hd _ _ (by omega), vrd16_ok hs hd _ _ (by omega),
            vrd16_ok hs hd _ _ (by omega)]
          exact ⟨_, rfl⟩
        · rename_i hno
          exfalso
          simp only [tq_vr_names_bad, Bool.or_eq_true, not_or, Option.isNone_iff_eq_none] at hnb
          obtain ⟨h1, h2⟩ := hnb
          obtain ⟨f, hf⟩ := Option.ne_none_iff_exists'.mp h1
          obtain ⟨n, hn⟩ := Option.ne_none_iff_exists'.mp h2
          exact hno f n hf hn

theorem defLoop_total (e : Enc) {b : SecBuf} (hs : Sec b) {d : Bytes} (hd : b.data = some d) (no : BitVec 32) :
    ∀ (fuel : Nat) (i : BitVec 32) (pos : BitVec 64) (va : Nat), pos.toNat + 20 ≤ b.size.toNat →
      no.toNat + 1 ≤ fuel + i.toNat → i.toNat ≤ no.toNat →
      va = pos.toNat + (tq_vd_aux (cv32 e) (auxAt d pos.toNat 12)).toNat →
      ∃ r, TQ.defLoop e (some d) b.size no fuel i (pos, pos.toNat, va) = .ok r ∧
        ∀ p v a', r = some (p, v, a') → v = p.toNat ∧ p.toNat + 20 ≤ b.size.toNat ∧
          a' = v + (tq_vd_aux (cv32 e) (auxAt d v 12)).toNat := by
  intro fuel
  induction fuel with
  | zero => intro i pos va _ h2 h3 _; omega
  | succ k ih =>
    intro i pos va hp hf hi hva
    unfold TQ.defLoop
    rw [TQTie.vd_i_incr_eq]
    by_cases hc : vd_loop_cond i no = true
    · rw [if_pos hc]
      have hlt : i.toNat < no.toNat := by simpa [vd_loop_cond, BitVec.ult] using hc
      simp only [show Elfxx_Verdef.vd_next_off = 16 from rfl, show Elfxx_Verdef.vd_aux_off = 12 from rfl]
      rw [vrd32_ok hs hd _ _ (by omega)]
      dsimp only
      generalize hnx : BitVec.ofNat 32 (hostDecode (slice d (pos.toNat + 16) 4)) = nx
      by_cases hb : tq_vd_next_bad (tq_vd_next (cv32 e) nx) b.size pos = true
      · rw [if_pos hb]; exact ⟨_, rfl, fun p v a' h => by cases h⟩
      rw [if_neg hb]
      have hsl := b.size.isLt; have hpl := pos.isLt
      simp only [Nat.reducePow] at hsl hpl
      have hnext : (tq_vd_next (cv32 e) nx).toNat ≤ b.size.toNat - pos.toNat - 20 := by
        simp only [tq_vd_next_bad, Bool.or_eq_true, not_or, BitVec.ult, decide_eq_true_eq, BitVec.toNat_sub,
          BitVec.toNat_ofNat, show sizeof_Elfxx_Verdef = 20 from rfl, Nat.reducePow, Nat.reduceMod] at hb
        omega
      have hpos' : (tq_vd_pos_incr pos (tq_vd_next (cv32 e) nx)).toNat = pos.toNat + (tq_vd_next (cv32 e) nx).toNat := by
        simp only [tq_vd_pos_incr, BitVec.toNat_add, Nat.reducePow]; omega
      have hvn : pos.toNat + (vd_next_off (cv32 e) nx).toNat = (tq_vd_pos_incr pos (tq_vd_next (cv32 e) nx)).toNat := by
        rw [hpos']; rfl
      rw [hvn, vrd32_ok hs hd _ _ (by rw [hpos']; omega)]
      dsimp only
      have hi1 : (i + 1).toNat = i.toNat + 1 := by
        have h1' : (1 : BitVec 32).toNat = 1 := rfl
        have := no.isLt
        simp only [BitVec.toNat_add, h1', Nat.reducePow] at *
        omega
      exact ih (i + 1) _ _ (by rw [hpos']; omega) (by rw [hi1]; omega) (by rw [hi1]; omega) rfl
    · rw [if_neg hc]
      exact ⟨_, rfl, fun p v a' h => by
        simp only [Option.some.injEq, Prod.mk.injEq] at h
        obtain ⟨rfl, rfl, rfl⟩ := h
        exact ⟨rfl, hp, hva⟩⟩

/-- **version definition `get_entry`** is total for ANY entry count, index and contents -/
theorem defGet_total (e : Enc) (b : SecBuf) (hs : Sec b) (str : Option SecBuf) (num no : BitVec 32) :
    ∃ r, TQ.defGet e b str num no = .ok r := by
  unfold TQ.defGet
  by_cases hg : vd_guard true no num = true
  · rw [if_pos hg]; exact ⟨_, rfl⟩
  rw [if_neg hg]
  simp only [hs.secData]
  by_cases hb : tq_vd_hdr_bad b.data.isNone b.size = true
  · rw [if_pos hb]; exact ⟨_, rfl⟩
  rw [if_neg hb]
  cases hd : b.data with
  | none => simp [tq_vd_hdr_bad, hd] at hb
  | some d =>
    have hsz : 20 ≤ b.size.toNat := by
      simp only [tq_vd_hdr_bad, hd, Option.isNone_some, Bool.false_or, BitVec.ult, decide_eq_true_eq,
        BitVec.toNat_ofNat, show sizeof_Elfxx_Verdef = 20 from rfl, Nat.reducePow, Nat.reduceMod] at hb
      omega
    simp only [show Elfxx_Verdef.vd_aux_off = 12 from rfl, show Elfxx_Verdef.vd_flags_off = 2 from rfl,
      show Elfxx_Verdef.vd_ndx_off = 4 from rfl, show Elfxx_Verdef.vd_hash_off = 8 from rfl,
      show Elfxx_Verdaux.vda_name_off = 0 from rfl]
    rw [vrd32_ok hs hd _ 12 (by omega), TQTie.vd_i_init_eq, TQTie.vd_pos_init_eq]
    dsimp only
    obtain ⟨r, hr, hpost⟩ := defLoop_total e hs hd no (no.toNat + 1) 0 0
      ((vd_aux_off0 (cv32 e) (BitVec.ofNat 32 (hostDecode (slice d 12 4)))).toNat)
      (by simpa using hsz) (by simp) (by simp) (by simp [auxAt]; rfl)
    have h0 : (0 : BitVec 64).toNat = 0 := rfl
    rw [h0] at hr
    rw [hr]
    cases r with
    | none => exact ⟨_, rfl⟩
    | some pva =>
      obtain ⟨pos, vn, va⟩ := pva
      obtain ⟨hv, hp, hva⟩ := hpost pos vn va rfl
      subst hv
      dsimp only
      rw [vrd32_ok hs hd _ _ (by omega)]
      dsimp only
      by_cases hab : tq_vd_aux_bad (tq_vd_aux (cv32 e) (BitVec.ofNat 32 (hostDecode (slice d (pos.toNat + 12) 4))))
          b.size pos = true
      · rw [if_pos hab]; exact ⟨_, rfl⟩
      rw [if_neg hab]
      have hsl := b.size.isLt; have hpl := pos.isLt
      simp only [Nat.reducePow] at hsl hpl
      have haux : va + 8 ≤ b.size.toNat := by
        simp only [tq_vd_aux_bad, Bool.or_eq_true, not_or, BitVec.ult, decide_eq_true_eq, BitVec.toNat_sub,
          BitVec.toNat_ofNat, show sizeof_Elfxx_Verdaux = 8 from rfl, Nat.reducePow, Nat.reduceMod] at hab
        rw [hva]; simp only [auxAt]; omega
      rw [vrd32_ok hs hd _ _ (by omega)]
      dsimp only
      split
      · exact ⟨_, rfl⟩
      · rename_i hnb
        -- past the (generated) null test the name is there: the assignment cannot fault
        split
        · rename_i hno
          exfalso
          simp only [tq_vd_names_bad, Option.isNone_iff_eq_none] at hnb
          exact hnb hno
        · rw [vrd16_ok hs hd _ _ (by omega), vrd16_ok hs hd _ _ (by omega), vrd32_ok hs hd _ _ (by omega)]
          exact ⟨_, rfl⟩

end C18
end ElfioVerif
