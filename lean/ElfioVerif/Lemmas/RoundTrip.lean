/-
save ∘ load : helper lemmas for composing the writer theorems (C03/C04) with the loader theorems
(C02).  Three layers:

 1. `Holds` — what `C03.save_decodes` says of the saved bytes (header at 0, every section record at
    `e_shoff + e_shentsize·index`, data of written sections at their offsets, every segment record at
    `e_phoff + e_phentsize·index`) — and its translation into the *specification's* vocabulary of
    `Props/C02.lean` (`eh`, `sh`, `ph`, `secFileBytes`) : `holds_eh`, `holds_sh`, `holds_ph`,
    `holds_secFileBytes`.
 2. `ImageOk` — the numeric facts `C02.WellFormedImage` asks of an image, stated on the saved object
    (tables and ranges inside the file, entry sizes, no wrap-around, name table terminated), and
    `wellFormed_of_holds : Holds → ImageOk → WellFormedImage img`.
 2b. `load_state` (what `C02.load_eq_spec` does not say about the loader's state: addresses count as
    set, resident data = file range ++ NUL), `reload_of_holds` (`Holds` + `ImageOk` ⇒ `load` succeeds and
    the result is `Reloaded`), `loaded_of_wellFormed` (C05's `Loaded` for every well-formed image).
 3. writer side — `saved_header`, `saved_fieldsFit`, `saved_indices`, `saved_loose_offset`,
    `applyWrites_length_le`, `imageOk_of_save` : `ImageOk` for the object left by a successful `save`,
    from `C04.file_covers`, `C04.layout_disjoint`, the loose-section pass; `segInside_flat`,
    `savedSane_noseg`, `savedSane_flat` (`layoutSegment_flat`).
 4. save ∘ load ∘ save without segments — `OutRel`, `looseSpec_congr`, `saveTail_os_congr`,
    `preRes_outRel`.
-/
import ElfioVerif.Props.C03
import ElfioVerif.Props.C04
import ElfioVerif.Props.C05
namespace ElfioVerif.RoundTrip
open ElfioVerif Gen Sv

/-! ### 1. what the saved bytes hold -/

/-- the positioned writes of a saved object are found in `img` (= the conclusion of
    `C03.save_decodes`, record by record) -/
structure Holds (c : Cls) (enc : Enc) (h : Bytes) (secs : List SecBuf) (segs : List Seg) (img : Bytes) : Prop where
  hdr : slice img 0 h.length = h
  sec : ∀ b ∈ secs, slice img ((Hdr.e_shoff c enc h).toNat + (Hdr.e_shentsize c enc h).toNat * b.index)
      (shdrSize c) = encodeShdr c enc b
  dat : ∀ b ∈ secs, b.stype ≠ BitVec.ofNat 32 SHT_NOBITS → b.stype ≠ BitVec.ofNat 32 SHT_NULL → b.size ≠ 0 →
      ∀ d, b.data = some d → slice img b.offset.toNat (d.take b.size.toNat).length = d.take b.size.toNat
  seg : ∀ g ∈ segs, slice img ((Hdr.e_phoff c enc h).toNat + (Hdr.e_phentsize c enc h).toNat * g.index)
      (phdrSize c) = encodePhdr c enc g

/-- `save` establishes `Holds` (C03.save_decodes_header/_section/_segment) -/
theorem holds_of_save {o : Obj} {os : OStream} {r : SaveRes} (hs : save o os = .ok r) (hok : r.ok = true)
    (hg : os.Good) (htr : o.trans = []) {h : Bytes} (hh : r.obj.hdr = some h)
    (hl : C03.LayoutOk r.obj.cls r.obj.enc h r.obj.secs r.obj.segs) :
    Holds r.obj.cls r.obj.enc h r.obj.secs r.obj.segs r.os.content :=
  ⟨C03.save_decodes_header hs hok hg htr hh hl,
   fun _ hb => (C03.save_decodes_section hs hok hg htr hh hl hb).1,
   fun _ hb h1 h2 h3 d hd => (C03.save_decodes_section hs hok hg htr hh hl hb).2 h1 h2 h3 d hd,
   fun _ hg' => C03.save_decodes_segment hs hok hg htr hh hl hg'⟩

def clsByteOf (c : Cls) : Nat := match c with | .c32 => Spec.ELFCLASS32 | .c64 => Spec.ELFCLASS64
def encByteOf (e : Enc) : Nat := match e with | .lsb => Spec.ELFDATA2LSB | .msb => Spec.ELFDATA2MSB

/-- the identification bytes of the header name class `c` and byte order `enc` -/
structure IdentOk (c : Cls) (enc : Enc) (h : Bytes) : Prop where
  len : h.length = ehdrSize c
  magic : h.take 4 = Spec.ELFMAG
  cls : C02.identByte h Spec.EI_CLASS = clsByteOf c
  dat : C02.identByte h Spec.EI_DATA = encByteOf enc

instance (c : Cls) (enc : Enc) (h : Bytes) : Decidable (IdentOk c enc h) :=
  decidable_of_iff (h.length = ehdrSize c ∧ h.take 4 = Spec.ELFMAG ∧
    C02.identByte h Spec.EI_CLASS = clsByteOf c ∧
    C02.identByte h Spec.EI_DATA = encByteOf enc)
    ⟨fun ⟨a, b, c, d⟩ => ⟨a, b, c, d⟩, fun ⟨a, b, c, d⟩ => ⟨a, b, c, d⟩⟩

theorem ehdrSize_ge (c : Cls) : 16 ≤ ehdrSize c := by cases c <;> decide

theorem identByte_of_hdr {img h : Bytes} (hs : slice img 0 h.length = h) (i : Nat) (hi : i < h.length) :
    C02.identByte img i = C02.identByte h i := by
  unfold C02.identByte
  rw [← getD_slice0 img h.length i hi, hs]

section
variable {c : Cls} {enc : Enc} {h : Bytes} {secs : List SecBuf} {segs : List Seg} {img : Bytes}

theorem Holds.len_le (H : Holds c enc h secs segs img) : h.length ≤ img.length := by
  have := congrArg List.length H.hdr
  simp only [slice_length] at this
  omega

theorem Holds.clsOf (H : Holds c enc h secs segs img) (hi : IdentOk c enc h) : C02.clsOf img = c := by
  have h16 := ehdrSize_ge c
  unfold C02.clsOf
  rw [identByte_of_hdr H.hdr _ (by rw [hi.len]; exact Nat.lt_of_lt_of_le (by decide) h16), hi.cls]
  cases c <;> decide

theorem Holds.encOf (H : Holds c enc h secs segs img) (hi : IdentOk c enc h) : C02.encOf img = enc := by
  have h16 := ehdrSize_ge c
  unfold C02.encOf
  rw [identByte_of_hdr H.hdr _ (by rw [hi.len]; exact Nat.lt_of_lt_of_le (by decide) h16), hi.dat]
  cases enc <;> decide

theorem Holds.magic (H : Holds c enc h secs segs img) (hi : IdentOk c enc h) : img.take 4 = Spec.ELFMAG := by
  have h16 := ehdrSize_ge c
  rw [← hi.magic, ← H.hdr]
  unfold slice
  rw [List.drop_zero, List.take_take, Nat.min_eq_left (by rw [hi.len]; omega)]

/-- every ELF-header field of the image, per the specification, is the saved header's getter -/
theorem Holds.eh (H : Holds c enc h secs segs img) (hi : IdentOk c enc h) :
    C02.eh img "e_type" = (Hdr.e_type c enc h).toNat ∧
    C02.eh img "e_machine" = (Hdr.e_machine c enc h).toNat ∧
    C02.eh img "e_version" = (Hdr.e_version c enc h).toNat ∧
    C02.eh img "e_entry" = (Hdr.e_entry c enc h).toNat ∧
    C02.eh img "e_phoff" = (Hdr.e_phoff c enc h).toNat ∧
    C02.eh img "e_shoff" = (Hdr.e_shoff c enc h).toNat ∧
    C02.eh img "e_flags" = (Hdr.e_flags c enc h).toNat ∧
    C02.eh img "e_ehsize" = (Hdr.e_ehsize c enc h).toNat ∧
    C02.eh img "e_phentsize" = (Hdr.e_phentsize c enc h).toNat ∧
    C02.eh img "e_phnum" = (Hdr.e_phnum c enc h).toNat ∧
    C02.eh img "e_shentsize" = (Hdr.e_shentsize c enc h).toNat ∧
    C02.eh img "e_shnum" = (Hdr.e_shnum c enc h).toNat ∧
    C02.eh img "e_shstrndx" = (Hdr.e_shstrndx c enc h).toNat := by
  have hl : ehdrSize c ≤ h.length := by rw [hi.len]; exact Nat.le_refl _
  obtain ⟨a0, a1, a2, a3, a4, a5, a6, a7, a8, a9, a10, a11, a12⟩ := C02.ehdr_fields_eq_spec c enc h hl
  have at0 : ∀ name ∈ ["e_type", "e_machine", "e_version", "e_entry", "e_phoff", "e_shoff", "e_flags", "e_ehsize",
      "e_phentsize", "e_phnum", "e_shentsize", "e_shnum", "e_shstrndx"],
      C02.eh img name = Spec.get (Spec.ehdrL c) enc h 0 name := by
    intro name hn
    unfold C02.eh
    rw [H.clsOf hi, H.encOf hi]
    apply C03.get_at_base H.hdr
    rw [hi.len]
    revert name
    cases c <;> decide
  exact ⟨(at0 _ (by decide)).trans a0.symm, (at0 _ (by decide)).trans a1.symm, (at0 _ (by decide)).trans a2.symm,
    (at0 _ (by decide)).trans a3.symm, (at0 _ (by decide)).trans a4.symm, (at0 _ (by decide)).trans a5.symm,
    (at0 _ (by decide)).trans a6.symm, (at0 _ (by decide)).trans a7.symm, (at0 _ (by decide)).trans a8.symm,
    (at0 _ (by decide)).trans a9.symm, (at0 _ (by decide)).trans a10.symm, (at0 _ (by decide)).trans a11.symm,
    (at0 _ (by decide)).trans a12.symm⟩

theorem Holds.shBase (H : Holds c enc h secs segs img) (hi : IdentOk c enc h) (i : Nat) :
    C02.shBase img i = (Hdr.e_shoff c enc h).toNat + (Hdr.e_shentsize c enc h).toNat * i := by
  obtain ⟨_, _, _, _, _, e5, _, _, _, _, e10, _, _⟩ := H.eh hi
  unfold C02.shBase
  rw [e5, e10, Nat.mul_comm]

theorem Holds.phBase (H : Holds c enc h secs segs img) (hi : IdentOk c enc h) (j : Nat) :
    C02.phBase img j = (Hdr.e_phoff c enc h).toNat + (Hdr.e_phentsize c enc h).toNat * j := by
  obtain ⟨_, _, _, _, e4, _, _, _, e8, _, _, _, _⟩ := H.eh hi
  unfold C02.phBase
  rw [e4, e8, Nat.mul_comm]

/-- every field of section header `b.index` of the image, per the specification, is `b`'s -/
theorem Holds.sh (H : Holds c enc h secs segs img) (hi : IdentOk c enc h) {b : SecBuf} (hb : b ∈ secs)
    (hf : C03.FieldsFit c b) :
    C02.sh img b.index "sh_name" = b.nameOff.toNat ∧ C02.sh img b.index "sh_type" = b.stype.toNat ∧
    C02.sh img b.index "sh_flags" = b.flags.toNat ∧ C02.sh img b.index "sh_addr" = b.addr.toNat ∧
    C02.sh img b.index "sh_offset" = b.offset.toNat ∧ C02.sh img b.index "sh_size" = b.size.toNat ∧
    C02.sh img b.index "sh_link" = b.link.toNat ∧ C02.sh img b.index "sh_info" = b.info.toNat ∧
    C02.sh img b.index "sh_addralign" = b.addrAlign.toNat ∧ C02.sh img b.index "sh_entsize" = b.entSize.toNat := by
  unfold C02.sh
  rw [H.shBase hi, H.clsOf hi, H.encOf hi]
  exact C03.shdr_get_at (H.sec b hb) hf

theorem Holds.ph (H : Holds c enc h secs segs img) (hi : IdentOk c enc h) {g : Seg} (hg : g ∈ segs)
    (hf : C03.SegFit c g) :
    C02.ph img g.index "p_type" = g.stype.toNat ∧ C02.ph img g.index "p_flags" = g.flags.toNat ∧
    C02.ph img g.index "p_offset" = g.offset.toNat ∧ C02.ph img g.index "p_vaddr" = g.vaddr.toNat ∧
    C02.ph img g.index "p_paddr" = g.paddr.toNat ∧ C02.ph img g.index "p_filesz" = g.filesz.toNat ∧
    C02.ph img g.index "p_memsz" = g.memsz.toNat ∧ C02.ph img g.index "p_align" = g.align.toNat := by
  unfold C02.ph
  rw [H.phBase hi, H.clsOf hi, H.encOf hi]
  exact C03.phdr_get_at (H.seg g hg) hf

/-- the bytes of a section as a file holds them (nothing for SHT_NULL / SHT_NOBITS) -/
def fileBytesOf (b : SecBuf) : Bytes := if C02.occupiesFile b.stype.toNat then b.view else []

/-- the data of a file-occupying non-empty section are in memory, in a buffer of at least `size` bytes
    (so that `save` writes exactly `size` bytes) -/
def ResidentFull (b : SecBuf) : Prop :=
  C02.occupiesFile b.stype.toNat = true → b.size ≠ 0 →
    b.data.isSome = true ∧ b.size.toNat ≤ (b.data.getD []).length

instance (b : SecBuf) : Decidable (ResidentFull b) := by unfold ResidentFull; infer_instance

theorem occupies_ne {t : BitVec 32} (h : C02.occupiesFile t.toNat = true) :
    t ≠ BitVec.ofNat 32 SHT_NOBITS ∧ t ≠ BitVec.ofNat 32 SHT_NULL := by
  unfold C02.occupiesFile at h
  simp only [Bool.and_eq_true, bne_iff_ne, ne_eq] at h
  constructor
  · intro e; rw [e] at h; exact h.2 (by decide)
  · intro e; rw [e] at h; exact h.1 (by decide)

/-- the file range of section `b.index` of the image holds `b`'s data -/
theorem Holds.secFileBytes (H : Holds c enc h secs segs img) (hi : IdentOk c enc h) {b : SecBuf} (hb : b ∈ secs)
    (hf : C03.FieldsFit c b) (hr : ResidentFull b) : C02.secFileBytes img b.index = fileBytesOf b := by
  obtain ⟨_, e1, _, _, e4, e5, _⟩ := H.sh hi hb hf
  unfold C02.secFileBytes fileBytesOf
  rw [e1, e4, e5]
  cases ho : C02.occupiesFile b.stype.toNat with
  | false => rfl
  | true =>
    simp only [if_true]
    by_cases hz : b.size = 0
    · simp [hz, slice, SecBuf.view]
    · obtain ⟨hd, hl⟩ := hr ho hz
      obtain ⟨n1, n2⟩ := occupies_ne ho
      cases hdd : b.data with
      | none => rw [hdd] at hd; cases hd
      | some d =>
        rw [hdd] at hl
        simp only [Option.getD_some] at hl
        have := H.dat b hb n1 n2 hz d hdd
        have hlen : (d.take b.size.toNat).length = b.size.toNat := by simp; omega
        rw [hlen] at this
        simp only [SecBuf.view, hdd, Option.getD_some]
        exact this

end

/-! ### 2. `WellFormedImage` of the saved bytes -/

/-- What `C02.WellFormedImage` asks of an image, stated on the saved object (`h`, `secs`, `segs`: header,
    sections, segments as saved; `len`: length of the file). -/
structure ImageOk (c : Cls) (enc : Enc) (h : Bytes) (secs : List SecBuf) (segs : List Seg) (len : Nat) : Prop where
  len63 : len < 9223372036854775808
  shent : secs ≠ [] → shdrSize c ≤ (Hdr.e_shentsize c enc h).toNat
  phent : segs ≠ [] → phdrSize c ≤ (Hdr.e_phentsize c enc h).toNat
  shnum : (Hdr.e_shnum c enc h).toNat = secs.length
  phnum : (Hdr.e_phnum c enc h).toNat = segs.length
  secIdx : ∀ (k : Nat) b, secs[k]? = some b → b.index = k
  segIdx : ∀ (k : Nat) g, segs[k]? = some g → g.index = k
  sec : ∀ b ∈ secs, C03.FieldsFit c b ∧
    (Hdr.e_shoff c enc h).toNat + (Hdr.e_shentsize c enc h).toNat * b.index + shdrSize c ≤ len ∧
    (C02.occupiesFile b.stype.toNat = true → b.offset.toNat + b.size.toNat ≤ len) ∧
    b.addr.toNat + b.size.toNat < 18446744073709551616 ∧
    b.offset.toNat + b.size.toNat < 18446744073709551616
  seg : ∀ g ∈ segs, C03.SegFit c g ∧
    (Hdr.e_phoff c enc h).toNat + (Hdr.e_phentsize c enc h).toNat * g.index + phdrSize c ≤ len ∧
    (g.stype.toNat ≠ Spec.PT_NULL → g.filesz.toNat ≠ 0 → g.offset.toNat + g.filesz.toNat ≤ len) ∧
    g.vaddr.toNat + g.memsz.toNat < 18446744073709551616 ∧
    g.offset.toNat + g.filesz.toNat < 18446744073709551616
  strndx : (Hdr.e_shstrndx c enc h).toNat = 0 ∨ (Hdr.e_shstrndx c enc h).toNat < secs.length
  /-- the name table is resident and every name offset points at a terminated string in it -/
  names : (Hdr.e_shstrndx c enc h).toNat ≠ 0 → ∀ T, secs[(Hdr.e_shstrndx c enc h).toNat]? = some T →
    ResidentFull T ∧ ∀ b ∈ secs, (Spec.cstrAt (fileBytesOf T) b.nameOff.toNat).isSome = true

theorem getElem?_lt {α} {l : List α} {k : Nat} {a : α} (h : l[k]? = some a) : k < l.length := by
  rcases Nat.lt_or_ge k l.length with h' | h'
  · exact h'
  · rw [List.getElem?_eq_none h'] at h; cases h

/-- **the saved bytes are a well-formed ELF image** (C02's decidable predicate), given that they hold
    the object's records (`Holds`) and the numeric facts `ImageOk` -/
theorem wellFormed_of_holds {c : Cls} {enc : Enc} {h : Bytes} {secs : List SecBuf} {segs : List Seg} {img : Bytes}
    (H : Holds c enc h secs segs img) (hi : IdentOk c enc h) (ok : ImageOk c enc h secs segs img.length) :
    C02.WellFormedImage img := by
  obtain ⟨_, _, _, _, _, _, _, _, e8, e9, e10, e11, e12⟩ := H.eh hi
  have hsz := sizes_eq c
  have hshnum : C02.eh img "e_shnum" = secs.length := e11.trans ok.shnum
  have hphnum : C02.eh img "e_phnum" = segs.length := e9.trans ok.phnum
  have hcls := H.clsOf hi
  have secAt : ∀ i, i < secs.length → ∃ b, b ∈ secs ∧ b.index = i := fun i hlt =>
    ⟨secs[i], List.getElem_mem hlt, ok.secIdx i _ (List.getElem?_eq_getElem hlt)⟩
  have segAt : ∀ j, j < segs.length → ∃ g, g ∈ segs ∧ g.index = j := fun j hlt =>
    ⟨segs[j], List.getElem_mem hlt, ok.segIdx j _ (List.getElem?_eq_getElem hlt)⟩
  refine ⟨H.magic hi, ?_, ?_, ?_, ok.len63, ?_, ?_, ?_, ?_, ?_, ?_⟩
  · rw [identByte_of_hdr H.hdr _ (by rw [hi.len]; exact Nat.lt_of_lt_of_le (by decide) (ehdrSize_ge c)), hi.cls]
    cases c
    · exact Or.inl rfl
    · exact Or.inr rfl
  · rw [identByte_of_hdr H.hdr _ (by rw [hi.len]; exact Nat.lt_of_lt_of_le (by decide) (ehdrSize_ge c)), hi.dat]
    cases enc
    · exact Or.inl rfl
    · exact Or.inr rfl
  · rw [hcls, ← hsz.1, ← hi.len]; exact H.len_le
  · intro hn
    rw [hcls, ← hsz.2.1, e10]
    apply ok.shent
    intro e; rw [hshnum, e] at hn; exact hn rfl
  · intro hn
    rw [hcls, ← hsz.2.2, e8]
    apply ok.phent
    intro e; rw [hphnum, e] at hn; exact hn rfl
  · intro i hi'
    rw [hshnum] at hi'
    obtain ⟨b, hb, rfl⟩ := secAt i hi'
    obtain ⟨hf, h1, h2, h3, h4⟩ := ok.sec b hb
    obtain ⟨_, s1, _, s3, s4, s5, _⟩ := H.sh hi hb hf
    rw [H.shBase hi, hcls, ← hsz.2.1, s1, s3, s4, s5]
    exact ⟨h1, h2, h3, h4⟩
  · intro j hj
    rw [hphnum] at hj
    obtain ⟨g, hg, rfl⟩ := segAt j hj
    obtain ⟨hf, h1, h2, h3, h4⟩ := ok.seg g hg
    obtain ⟨p0, _, p2, p3, _, p5, p6, _⟩ := H.ph hi hg hf
    rw [H.phBase hi, hcls, ← hsz.2.2, p2, p3, p5, p6]
    refine ⟨h1, ?_, h3, h4⟩
    intro hd
    unfold C02.segHasData at hd
    rw [p0, p5] at hd
    simp only [Bool.and_eq_true, bne_iff_ne, ne_eq] at hd
    exact h2 hd.1 hd.2
  · rw [e12, hshnum]; exact ok.strndx
  · intro hne i hi'
    rw [hshnum] at hi'
    rw [e12] at hne ⊢
    have hlt : (Hdr.e_shstrndx c enc h).toNat < secs.length := by
      rcases ok.strndx with h0 | h0
      · exact absurd h0 hne
      · exact h0
    obtain ⟨T, hT, eT⟩ := secAt _ hlt
    have hTk : secs[(Hdr.e_shstrndx c enc h).toNat]? = some T := by
      obtain ⟨k, hk⟩ := List.getElem?_of_mem hT
      have := ok.secIdx k T hk
      rw [← eT, this]; exact hk
    obtain ⟨hres, hnames⟩ := ok.names hne T hTk
    obtain ⟨b, hb, rfl⟩ := secAt i hi'
    have hfT := (ok.sec T hT).1
    have := H.secFileBytes hi hT hfT hres
    rw [eT] at this
    rw [this, (H.sh hi hb (ok.sec b hb).1).1]
    exact hnames b hb

/-! ### the loader's state on a well-formed image (beyond `C02.LoadSpec`)

`C02.load_eq_spec` states what the loaded object *shows*.  Two facts about its state are needed in
addition (C05's `Loaded`): every section counts as having its address set
(`set_address(get_address())` at the end of `section::load`), and after an eager load the data are
resident.  Both are part of `SecSt` (Lemmas/LoadSpec.lean); the proof replays the first half of
`load_eq_spec` (`load_gate`, `loadBody_inside`) and identifies the result with `load_eq_spec`'s. -/

open C02 in
theorem load_state (img : Bytes) (o : Obj) (k : StreamKind) (isLazy : Bool) (htr : o.trans = [])
    (hwf : WellFormedImage img) :
    ∃ r : LoadRes, load o { data := img, kind := k } isLazy = .ok r ∧ LoadSpec img r ∧ r.obj.trans = [] ∧
      ∀ i (hi : i < r.obj.secs.length), r.obj.secs[i].addrSet = true ∧
        (isLazy = false ∨ r.obj.secs[i].data.isSome = true → r.obj.secs[i].view = secFileBytes img i) ∧
        (∀ d, r.obj.secs[i].data = some d → d = r.obj.secs[i].view ++ [0]) := by
  obtain ⟨r0, hr0, hspec⟩ := load_eq_spec img o k isLazy htr hwf
  obtain ⟨hmag, hcls, hdat, hehs, h63, hshent, hphent, hS, hP, hndx, hnames⟩ := hwf
  have hsz := sizes_eq (clsOf img)
  rw [← hsz.1] at hehs
  rw [← hsz.2.1] at hshent hS
  rw [← hsz.2.2] at hphent hP
  obtain ⟨m0, m1, m2, m3⟩ := magic_gate img hmag
  have hgate := load_gate o { data := img, kind := k } isLazy (clsOf img) (encOf img) htr rfl rfl m0 m1 m2 m3
    (cls_gate img hcls) (enc_gate img hdat) hehs
  simp only [] at hgate
  obtain ⟨e1, e2, e3, e4, e5, e6, e7, e8, e9, e10, e11, e12, e13⟩ := ehdr_bridge img (clsOf img) (encOf img) hehs
  have E : ∀ f, Spec.get (Spec.ehdrL (clsOf img)) (encOf img) img 0 f = eh img f := fun _ => rfl
  rw [E] at e1 e2 e3 e4 e5 e6 e7 e8 e9 e10 e11 e12 e13
  have hshnum : (Hdr.e_shnum (clsOf img) (encOf img) (slice img 0 (ehdrSize (clsOf img)))).toNat = eh img "e_shnum" := e12
  have hphnum : (Hdr.e_phnum (clsOf img) (encOf img) (slice img 0 (ehdrSize (clsOf img)))).toNat = eh img "e_phnum" := e10
  have hshb : ∀ j, (Hdr.e_shoff (clsOf img) (encOf img) (slice img 0 (ehdrSize (clsOf img)))).toNat +
      j * (Hdr.e_shentsize (clsOf img) (encOf img) (slice img 0 (ehdrSize (clsOf img)))).toNat = shBase img j := by
    intro j; rw [e6, e11]; rfl
  have hphb : ∀ j, (Hdr.e_phoff (clsOf img) (encOf img) (slice img 0 (ehdrSize (clsOf img)))).toNat +
      j * (Hdr.e_phentsize (clsOf img) (encOf img) (slice img 0 (ehdrSize (clsOf img)))).toNat = phBase img j := by
    intro j; rw [e5, e9]; rfl
  have hcb := identB img (clsOf img) hehs
  have hc1 : BitVec.ofNat 8 (identByte img Spec.EI_CLASS) = 1#8 → clsOf img = .c32 := by
    intro h
    rcases hcls with h' | h'
    · simp [clsOf, h']; decide
    · rw [h'] at h; exact absurd h (by decide)
  have hc2 : BitVec.ofNat 8 (identByte img Spec.EI_CLASS) = 2#8 → clsOf img = .c64 := by
    intro h
    rcases hcls with h' | h'
    · rw [h'] at h; exact absurd h (by decide)
    · simp [clsOf, h']
  have hbadS : load_sections_entsize_bad (Hdr.e_shnum (clsOf img) (encOf img) (slice img 0 (ehdrSize (clsOf img))))
      (Hdr.ident (slice img 0 (ehdrSize (clsOf img))) Gen.EI_CLASS)
      (Hdr.e_shentsize (clsOf img) (encOf img) (slice img 0 (ehdrSize (clsOf img)))) = false := by
    unfold load_sections_entsize_bad
    apply entsize_ok _ _ _ sizeof_Elf32_Shdr sizeof_Elf64_Shdr (by decide) (by decide)
    intro hn
    rw [hshnum] at hn
    have := hshent hn
    rw [← e11] at this
    rw [hcb]
    constructor
    · intro h; have hcl := hc1 h; rw [hcl] at this ⊢; exact this
    · intro h; have hcl := hc2 h; rw [hcl] at this ⊢; exact this
  have hbadP : load_segments_entsize_bad (Hdr.e_phnum (clsOf img) (encOf img) (slice img 0 (ehdrSize (clsOf img))))
      (Hdr.ident (slice img 0 (ehdrSize (clsOf img))) Gen.EI_CLASS)
      (Hdr.e_phentsize (clsOf img) (encOf img) (slice img 0 (ehdrSize (clsOf img)))) = false := by
    unfold load_segments_entsize_bad
    apply entsize_ok _ _ _ sizeof_Elf32_Phdr sizeof_Elf64_Phdr (by decide) (by decide)
    intro hn
    rw [hphnum] at hn
    have := hphent hn
    rw [← e9] at this
    rw [hcb]
    constructor
    · intro h; have hcl := hc1 h; rw [hcl] at this ⊢; exact this
    · intro h; have hcl := hc2 h; rw [hcl] at this ⊢; exact this
  have hinS : ∀ j, j < eh img "e_shnum" →
      SecInside img.length (secHdr (clsOf img) (encOf img) img (shBase img j) isLazy j) := by
    intro j hj hty
    obtain ⟨hk, hocc, _, _⟩ := hS j hj
    obtain ⟨_, b2, _, _, b5, b6, _⟩ := secHdr_bridge img (clsOf img) (encOf img) (shBase img j) isLazy j hk
    rw [isNullOrNobits_eq, b2] at hty
    rw [b5, b6]
    have : occupiesFile (sh img j "sh_type") = true := by unfold sh; simpa using hty
    exact hocc this
  have hinP : ∀ j, j < eh img "e_phnum" →
      SegInside img.length (segHdr_ls (clsOf img) (encOf img) img (phBase img j) isLazy) := by
    intro j hj hsk
    obtain ⟨hk, hhas, _, _⟩ := hP j hj
    obtain ⟨b1, _, b3, _, _, b6, _, _⟩ := segHdr_bridge img (clsOf img) (encOf img) (phBase img j) isLazy hk
    rw [segSkip_eq, b1, b6] at hsk
    rw [b3, b6]
    apply hhas
    unfold segHasData ph
    simp only [bne, ← Bool.not_or, hsk, Bool.not_false]
  have hbody := loadBody_inside
    { o with secs := [], segs := [], cls := clsOf img, enc := encOf img,
             hdr := some (slice img 0 (ehdrSize (clsOf img))) }
    (clsOf img) (encOf img) isLazy (slice img 0 (ehdrSize (clsOf img))) img
    { data := img, pos := ehdrSize (clsOf img), gcount := ehdrSize (clsOf img), kind := k }
    htr rfl rfl rfl h63 hbadS hbadP
    (fun j hj => by rw [hshnum] at hj; rw [hshb]; exact ⟨(hS j hj).1, hinS j hj⟩)
    (fun j hj => by rw [hphnum] at hj; rw [hphb]; exact ⟨(hP j hj).1, hinP j hj⟩)
    (by rw [e13, hshnum]; exact hndx)
  obtain ⟨r, hr, r1, r2, r3, r4, r5, r6, r7, r8, r9, r10, r11, r12, r13⟩ := hbody
  have hload : load o { data := img, kind := k } isLazy = .ok r := by rw [hgate]; exact hr
  have : r0 = r := by rw [hr0] at hload; cases hload; rfl
  subst this
  refine ⟨r0, hr0, hspec, by rw [r5]; exact htr, ?_⟩
  intro i hi
  have hi' : i < eh img "e_shnum" := by rw [r10, hshnum] at hi; exact hi
  obtain ⟨res, ⟨fd, L, hst, _⟩, hres⟩ := r11 i hi
  rw [hshb] at hst
  refine ⟨by rw [hst], ?_, ?_⟩
  rotate_left
  · intro d hd
    cases res with
    | false => rw [hst] at hd; simp at hd
    | true =>
      have hin := hinS i hi'
      rw [hst] at hd ⊢
      simp only [SecBuf.view, if_true] at hd ⊢
      unfold secData_ls at hd ⊢
      by_cases hty : isNullOrNobitsTy (secHdr (clsOf img) (encOf img) img (shBase img i) isLazy i).stype = true
      · rw [if_pos hty] at hd; cases hd
      · have hty' : isNullOrNobitsTy (secHdr (clsOf img) (encOf img) img (shBase img i) isLazy i).stype = false := by
          simpa using hty
        rw [if_neg hty] at hd ⊢
        by_cases hz : (secHdr (clsOf img) (encOf img) img (shBase img i) isLazy i).size = 0
        · rw [if_pos hz] at hd ⊢
          simp only [Option.some.injEq] at hd
          subst hd
          simp [hz, alloc]
        · rw [if_neg hz] at hd ⊢
          simp only [Option.some.injEq] at hd
          subst hd
          have hl : (slice img (secHdr (clsOf img) (encOf img) img (shBase img i) isLazy i).offset.toNat
              (secHdr (clsOf img) (encOf img) img (shBase img i) isLazy i).size.toNat).length =
              (secHdr (clsOf img) (encOf img) img (shBase img i) isLazy i).size.toNat :=
            slice_length_of_le (hin hty')
          simp only [Option.getD_some]
          rw [List.take_append_of_le_length (by omega), List.take_of_length_le (by omega)]
  · intro hl
    have hr' : res = true := by
      rcases hl with hl | hl
      · exact hres hl
      · cases res with
        | true => rfl
        | false => rw [hst] at hl; simp at hl
    subst hr'
    have hk := (hS i hi').1
    have := secData_take img (secHdr (clsOf img) (encOf img) img (shBase img i) isLazy i) (hinS i hi')
    rw [secBytes_bridge img isLazy i hk] at this
    rw [← this, hst]
    simp [SecBuf.view]

/-! ### 2b. loading an image that holds a saved object -/

/-- reloaded section `b2` reports the header fields of saved section `b` -/
structure SecAs (b b2 : SecBuf) : Prop where
  index : b2.index = b.index
  nameOff : b2.nameOff = b.nameOff
  stype : b2.stype = b.stype
  flags : b2.flags = b.flags
  addr : b2.addr = b.addr
  offset : b2.offset = b.offset
  size : b2.size = b.size
  link : b2.link = b.link
  info : b2.info = b.info
  addrAlign : b2.addrAlign = b.addrAlign
  entSize : b2.entSize = b.entSize
  addrSet : b2.addrSet = true

/-- reloaded segment `g2` reports the header fields of saved segment `g` -/
structure SegAs (g g2 : Seg) : Prop where
  index : g2.index = g.index
  stype : g2.stype = g.stype
  flags : g2.flags = g.flags
  offset : g2.offset = g.offset
  vaddr : g2.vaddr = g.vaddr
  paddr : g2.paddr = g.paddr
  filesz : g2.filesz = g.filesz
  memsz : g2.memsz = g.memsz
  align : g2.align = g.align

/-- the name of `b` as the section-name table of the saved object spells it -/
def nameIn (c : Cls) (enc : Enc) (h : Bytes) (secs : List SecBuf) (b : SecBuf) : Bytes :=
  if (Hdr.e_shstrndx c enc h).toNat = 0 then [] else
  match secs[(Hdr.e_shstrndx c enc h).toNat]? with
  | some T => (Spec.cstrAt (fileBytesOf T) b.nameOff.toNat).getD []
  | none => []

/-- the specification's members of segment `g` among `secs` (address rule for SHF_ALLOC sections,
    offset rule otherwise, TLS exclusion, empty-at-end exclusion: `Spec.inSegment`) -/
def specMembers (secs : List SecBuf) (g : Seg) : List Nat :=
  (List.range secs.length).filter fun i =>
    match secs[i]? with
    | some b => Spec.inSegment b.flags.toNat b.addr.toNat b.offset.toNat b.size.toNat
        g.stype.toNat g.offset.toNat g.vaddr.toNat g.filesz.toNat g.memsz.toNat
    | none => false

/-- what a reloaded object `o2` shows of a saved object (`c enc h secs segs`) whose image is `img` -/
structure Reloaded (c : Cls) (enc : Enc) (h : Bytes) (secs : List SecBuf) (segs : List Seg) (img : Bytes)
    (isLazy : Bool) (o2 : Obj) : Prop where
  clsEq : o2.cls = c
  encEq : o2.enc = enc
  hdr : o2.hdr = some h
  trans : o2.trans = []
  stream : o2.stream.data = img ∧ o2.stream.eof = false ∧ o2.stream.fail = false
  nsec : o2.secs.length = secs.length
  nseg : o2.segs.length = segs.length
  sec : ∀ (i : Nat) b b2, secs[i]? = some b → o2.secs[i]? = some b2 →
    SecAs b b2 ∧ b2.name = nameIn c enc h secs b ∧
    (ResidentFull b →
      (isLazy = false → b2.view = fileBytesOf b) ∧
      ∀ ls : LoadSt, ls.st.data = img → (secGetData c [] ls b2).2.view = fileBytesOf b)
  seg : ∀ (j : Nat) g g2, segs[j]? = some g → o2.segs[j]? = some g2 →
    SegAs g g2 ∧ g2.secs.map (·.toNat) = specMembers secs g ∧
    ∀ ls : LoadSt, ls.st.data = img →
      ((segGetData c [] ls g2).2.data.getD []).take g.filesz.toNat =
        if g.stype.toNat ≠ Spec.PT_NULL ∧ g.filesz.toNat ≠ 0 then slice img g.offset.toNat g.filesz.toNat else []

theorem bv_eq {n} {x y : BitVec n} {a : Nat} (hx : x.toNat = a) (hy : a = y.toNat) : x = y :=
  BitVec.eq_of_toNat_eq (hx.trans hy)

/-- **load of an image that holds a saved object** : with `Holds` and `ImageOk` (hence
    `WellFormedImage`, hence `C02.load_eq_spec`), `load` — eager or lazy, from a string- or file-backed
    stream, into any object without address translation — succeeds and the result is `Reloaded`. -/
theorem reload_of_holds {c : Cls} {enc : Enc} {h : Bytes} {secs : List SecBuf} {segs : List Seg} {img : Bytes}
    (H : Holds c enc h secs segs img) (hi : IdentOk c enc h) (ok : ImageOk c enc h secs segs img.length)
    (o2 : Obj) (k : StreamKind) (isLazy : Bool) (htr : o2.trans = []) :
    ∃ r2 : LoadRes, load o2 { data := img, kind := k } isLazy = .ok r2 ∧ r2.ok = true ∧
      Reloaded c enc h secs segs img isLazy r2.obj := by
  have hwf := wellFormed_of_holds H hi ok
  obtain ⟨r2, hload, ⟨hok, lc, le, ⟨h', hh', hhs⟩, ld, leof, lfail, lns, lsec, lng, lseg⟩, ltr, lst⟩ :=
    load_state img o2 k isLazy htr hwf
  obtain ⟨_, _, _, _, _, _, _, _, _, e9, _, e11, e12⟩ := H.eh hi
  have hcls := H.clsOf hi
  have henc := H.encOf hi
  have hshnum : C02.eh img "e_shnum" = secs.length := e11.trans ok.shnum
  have hphnum : C02.eh img "e_phnum" = segs.length := e9.trans ok.phnum
  refine ⟨r2, hload, hok, lc.trans hcls, le.trans henc, ?_, ltr, ⟨ld, leof, lfail⟩, lns.trans hshnum,
    lng.trans hphnum, ?_, ?_⟩
  · rw [hh', hhs.1, hcls, ← (sizes_eq c).1, ← hi.len, H.hdr]
  · intro i b b2 hb hb2
    have hi2 := getElem?_lt hb2
    have hbm : b ∈ secs := List.mem_of_getElem? hb
    have hidx : b.index = i := ok.secIdx i b hb
    have hf := (ok.sec b hbm).1
    obtain ⟨s0, s1, s2, s3, s4, s5, s6, s7, s8, s9⟩ := H.sh hi hbm hf
    rw [hidx] at s0 s1 s2 s3 s4 s5 s6 s7 s8 s9
    have e2 : r2.obj.secs[i] = b2 := by
      have := List.getElem?_eq_getElem hi2
      rw [hb2] at this; exact (Option.some.inj this).symm
    obtain ⟨q0, q1, q2, q3, q4, q5, q6, q7, q8, q9, q10, q11, q12⟩ := lsec i hi2
    obtain ⟨a1, a2, -⟩ := lst i hi2
    rw [e2] at q0 q1 q2 q3 q4 q5 q6 q7 q8 q9 q10 q11 q12 a1 a2
    refine ⟨⟨q0.trans hidx.symm, bv_eq q1 s0, bv_eq q2 s1, bv_eq q3 s2, bv_eq q4 s3,
      bv_eq q5 s4, bv_eq q6 s5, bv_eq q7 s6, bv_eq q8 s7, bv_eq q9 s8,
      bv_eq q10 s9, a1⟩, ?_, ?_⟩
    · -- the name
      rw [q11]
      unfold C02.secName C02.shstrtab nameIn
      rw [e12]
      by_cases hz : (Hdr.e_shstrndx c enc h).toNat = 0
      · rw [if_pos hz, if_pos (by rw [hz]; rfl)]
      · have hz' : ¬ (Hdr.e_shstrndx c enc h).toNat = Spec.SHN_UNDEF := hz
        rw [if_neg hz, if_neg hz']
        have hlt : (Hdr.e_shstrndx c enc h).toNat < secs.length := by
          rcases ok.strndx with h0 | h0
          · exact absurd h0 hz
          · exact h0
        have hT := List.getElem?_eq_getElem hlt
        rw [hT]
        simp only
        have hTm : secs[(Hdr.e_shstrndx c enc h).toNat] ∈ secs := List.getElem_mem hlt
        have hTi := ok.secIdx _ _ hT
        have := H.secFileBytes hi hTm (ok.sec _ hTm).1 (ok.names hz _ hT).1
        rw [hTi] at this
        rw [this, s0]
    · intro hres
      have hfb := H.secFileBytes hi hbm hf hres
      rw [hidx] at hfb
      constructor
      · intro hl; rw [a2 (Or.inl hl), hfb]
      · intro ls hls
        have := q12 ls hls
        rw [hcls] at this
        rw [← hfb, ← this]; rfl
  · intro j g g2 hg hg2
    have hj2 := getElem?_lt hg2
    have hgm : g ∈ segs := List.mem_of_getElem? hg
    have hidx : g.index = j := ok.segIdx j g hg
    have hf := (ok.seg g hgm).1
    obtain ⟨p0, p1, p2, p3, p4, p5, p6, p7⟩ := H.ph hi hgm hf
    rw [hidx] at p0 p1 p2 p3 p4 p5 p6 p7
    have e2 : r2.obj.segs[j] = g2 := by
      have := List.getElem?_eq_getElem hj2
      rw [hg2] at this; exact (Option.some.inj this).symm
    obtain ⟨q0, q1, q2, q3, q4, q5, q6, q7, q8, q9, q10⟩ := lseg j hj2
    rw [e2] at q0 q1 q2 q3 q4 q5 q6 q7 q8 q9 q10
    have efs : g2.filesz = g.filesz := bv_eq q6 p5
    refine ⟨⟨q0.trans hidx.symm, bv_eq q1 p0, bv_eq q2 p1, bv_eq q3 p2, bv_eq q4 p3,
      bv_eq q5 p4, efs, bv_eq q7 p6, bv_eq q8 p7⟩, ?_, ?_⟩
    · rw [q9]
      unfold C02.members specMembers
      rw [hshnum, p0, p2, p3, p5, p6]
      apply List.filter_congr
      intro i him
      have hil : i < secs.length := List.mem_range.1 him
      have hb := List.getElem?_eq_getElem hil
      have hbm : secs[i] ∈ secs := List.getElem_mem hil
      obtain ⟨_, _, s2, s3, s4, s5, _⟩ := H.sh hi hbm (ok.sec _ hbm).1
      rw [ok.secIdx i _ hb] at s2 s3 s4 s5
      rw [hb, s2, s3, s4, s5]
    · intro ls hls
      have := q10 ls hls
      rw [hcls, efs] at this
      rw [this]
      unfold C02.segFileBytes C02.segHasData
      rw [p0, p2, p5]
      by_cases h1 : g.stype.toNat ≠ Spec.PT_NULL ∧ g.filesz.toNat ≠ 0
      · rw [if_pos h1, if_pos (by simp [h1.1, h1.2])]
      · rw [if_neg h1, if_neg]
        intro hc
        simp only [Bool.and_eq_true, bne_iff_ne, ne_eq] at hc
        exact h1 hc

/-! ### 3. the writer side : what a successful `save` leaves -/

/-- every header setter writes at or behind byte 16: the identification bytes stay -/
theorem set_take16 (f : C03.HField) (c : Cls) (enc : Enc) (h : Bytes) (v : Nat) (hl : ehdrSize c ≤ h.length) :
    (f.set c enc h v).take 16 = h.take 16 := by
  rw [C03.hdr_set_eq_wr]
  obtain ⟨e, he, _, hf⟩ := C03.field_of_valid (C03.hfield_valid f c)
  have hin := (C03.ehdr_table_ok c).2 e he
  rw [(sizes_eq c).1] at hl
  have h16 : 16 ≤ (Spec.field (Spec.ehdrL c) f.name).1 := by cases f <;> cases c <;> decide
  have hb : (Spec.field (Spec.ehdrL c) f.name).1 +
      (encodeInt enc (Spec.field (Spec.ehdrL c) f.name).2 v).length ≤ h.length := by
    rw [encodeInt_length, hf]; omega
  apply List.ext_getElem?
  intro i
  simp only [List.getElem?_take]
  split
  · rw [wr_getElem? _ _ _ _ hb, if_pos (by omega)]
  · rfl

theorem identOk_of_take16 {c : Cls} {enc : Enc} {h h' : Bytes} (hi : IdentOk c enc h)
    (hlen : h'.length = h.length) (ht : h'.take 16 = h.take 16) : IdentOk c enc h' := by
  have g : ∀ i, i < 16 → h'.getD i 0 = h.getD i 0 := by
    intro i hi'
    have e1 : h'.getD i 0 = (h'.take 16).getD i 0 := by
      simp [List.getD_eq_getElem?_getD, hi']
    have e2 : h.getD i 0 = (h.take 16).getD i 0 := by
      simp [List.getD_eq_getElem?_getD, hi']
    rw [e1, e2, ht]
  refine ⟨hlen.trans hi.len, ?_, ?_, ?_⟩
  · have : h'.take 4 = (h'.take 16).take 4 := by rw [List.take_take]; rfl
    rw [this, ht, List.take_take]; exact hi.magic
  · unfold C02.identByte; rw [g _ (by decide)]; exact hi.cls
  · unfold C02.identByte; rw [g _ (by decide)]; exact hi.dat

theorem saveHdr0_take16 (o : Obj) (hd : Bytes) (hl : ehdrSize o.cls ≤ hd.length) :
    (ElfioVerif.saveHdr0 o hd).take 16 = hd.take 16 ∧ (ElfioVerif.saveHdr0 o hd).length = hd.length := by
  unfold ElfioVerif.saveHdr0
  simp only
  generalize (if o.segs.length % 65536 > 0 then
    (Hdr.e_ehsize o.cls o.enc (Hdr.set_phnum o.cls o.enc hd (o.segs.length % 65536))).toNat else 0) = v
  have len : ∀ (f : C03.HField) h' v', ehdrSize o.cls ≤ h'.length → (f.set o.cls o.enc h' v').length = h'.length :=
    fun f h' v' hl' => C03.hdr_set_length f o.cls o.enc h' v' hl'
  have l1 := len .phnum hd (o.segs.length % 65536) hl
  have l2 := len .phoff _ v (by rw [l1]; exact hl)
  have l3 := len .shnum _ (o.secs.length % 65536) (by rw [l2, l1]; exact hl)
  have l4 := len .shoff _ 0 (by rw [l3, l2, l1]; exact hl)
  have t1 := set_take16 .phnum o.cls o.enc hd (o.segs.length % 65536) hl
  have t2 := set_take16 .phoff o.cls o.enc _ v (by rw [l1]; exact hl)
  have t3 := set_take16 .shnum o.cls o.enc _ (o.secs.length % 65536) (by rw [l2, l1]; exact hl)
  have t4 := set_take16 .shoff o.cls o.enc _ 0 (by rw [l3, l2, l1]; exact hl)
  exact ⟨t4.trans (t3.trans (t2.trans t1)), l4.trans (l3.trans (l2.trans l1))⟩

/-- `e_phoff` after the preliminary setters of `save` -/
theorem saveHdr0_phoff (o : Obj) (hd : Bytes) (hl : ehdrSize o.cls ≤ hd.length) :
    (Hdr.e_phoff o.cls o.enc (ElfioVerif.saveHdr0 o hd)).toNat =
      (if o.segs.length % 65536 > 0 then (Hdr.e_ehsize o.cls o.enc hd).toNat else 0) := by
  unfold ElfioVerif.saveHdr0
  simp only
  have len : ∀ (f : C03.HField) h' v', ehdrSize o.cls ≤ h'.length → ehdrSize o.cls ≤ (f.set o.cls o.enc h' v').length :=
    fun f h' v' hl' => by rw [C03.hdr_set_length f o.cls o.enc h' v' hl']; exact hl'
  have l1 := len .phnum hd (o.segs.length % 65536) hl
  have f1 := C03.hdr_set_frame .phnum o.cls o.enc hd (o.segs.length % 65536) hl
  have eeh : Hdr.e_ehsize o.cls o.enc (Hdr.set_phnum o.cls o.enc hd (o.segs.length % 65536)) =
      Hdr.e_ehsize o.cls o.enc hd := f1.2.2.2.2.2.2.2.1 (by decide)
  rw [eeh]
  generalize hv : (if o.segs.length % 65536 > 0 then (Hdr.e_ehsize o.cls o.enc hd).toNat else 0) = v
  have l2 := len .phoff _ v l1
  have l3 := len .shnum _ (o.secs.length % 65536) l2
  have f3 := C03.hdr_set_frame .shnum o.cls o.enc _ (o.secs.length % 65536) l2
  have f4 := C03.hdr_set_frame .shoff o.cls o.enc _ 0 l3
  have g := (C03.hdr_set_get o.cls o.enc (Hdr.set_phnum o.cls o.enc hd (o.segs.length % 65536)) v l1).2.2.2.2.1
  have e := (f4.2.2.2.2.1 (by decide)).trans (f3.2.2.2.2.1 (by decide))
  have hvlt : v < 65536 := by
    rw [← hv]; have := (Hdr.e_ehsize o.cls o.enc hd).isLt
    split <;> omega
  refine ((congrArg BitVec.toNat e).trans g).trans ?_
  split <;> omega

/-- **the header of the saved object** : identification bytes and user fields of the old header, the
    counts, the table offsets -/
theorem saved_header {o : Obj} {os : OStream} {r : SaveRes} {hd : Bytes} (hs : save o os = .ok r) (hok : r.ok = true)
    (hh : o.hdr = some hd) (hi : IdentOk o.cls o.enc hd) (hfit : fitsB o.cls r.obj.curPos = true) :
    ∃ hF, r.obj.hdr = some hF ∧ IdentOk o.cls o.enc hF ∧
      Hdr.e_ehsize o.cls o.enc hF = Hdr.e_ehsize o.cls o.enc hd ∧
      Hdr.e_phentsize o.cls o.enc hF = Hdr.e_phentsize o.cls o.enc hd ∧
      Hdr.e_shentsize o.cls o.enc hF = Hdr.e_shentsize o.cls o.enc hd ∧
      Hdr.e_shstrndx o.cls o.enc hF = Hdr.e_shstrndx o.cls o.enc hd ∧
      (Hdr.e_shnum o.cls o.enc hF).toNat = o.secs.length % 65536 ∧
      (Hdr.e_phnum o.cls o.enc hF).toNat = o.segs.length % 65536 ∧
      (Hdr.e_phoff o.cls o.enc hF).toNat =
        (if o.segs.length % 65536 > 0 then (Hdr.e_ehsize o.cls o.enc hd).toNat else 0) ∧
      Hdr.e_shoff o.cls o.enc hF = r.obj.curPos ∧
      Hdr.e_ehsize o.cls o.enc (ElfioVerif.saveHdr0 o hd) = Hdr.e_ehsize o.cls o.enc hd ∧
      Hdr.e_phentsize o.cls o.enc (ElfioVerif.saveHdr0 o hd) = Hdr.e_phentsize o.cls o.enc hd ∧
      (Hdr.e_phnum o.cls o.enc (ElfioVerif.saveHdr0 o hd)).toNat = o.segs.length % 65536 := by
  have hl : ehdrSize o.cls ≤ hd.length := by rw [hi.len]; exact Nat.le_refl _
  obtain ⟨hdr', hdrF, hh', hF, hFeq, -, -, -⟩ := save_stream o os r hs hok
  rw [hh] at hh'; simp only [Option.some.injEq] at hh'; subst hh'
  rw [saveHdr0_preSave] at hFeq
  obtain ⟨t0, l0⟩ := saveHdr0_take16 o hd hl
  have hl0 : ehdrSize o.cls ≤ (ElfioVerif.saveHdr0 o hd).length := by rw [l0]; exact hl
  have tF := set_take16 .shoff o.cls o.enc (ElfioVerif.saveHdr0 o hd) r.obj.curPos.toNat hl0
  have lF := C03.hdr_set_length .shoff o.cls o.enc (ElfioVerif.saveHdr0 o hd) r.obj.curPos.toNat hl0
  have fF := C03.hdr_set_frame .shoff o.cls o.enc (ElfioVerif.saveHdr0 o hd) r.obj.curPos.toNat hl0
  change (Hdr.set_shoff o.cls o.enc (ElfioVerif.saveHdr0 o hd) r.obj.curPos.toNat).take 16 = _ at tF
  change (Hdr.set_shoff o.cls o.enc (ElfioVerif.saveHdr0 o hd) r.obj.curPos.toNat).length = _ at lF
  rw [← hFeq] at tF lF
  obtain ⟨hd', h', e1, e2, key⟩ := C03.save_header_fields hs hok
  rw [hh] at e1; cases e1
  rw [hF] at e2; cases e2
  obtain ⟨_, eu, esn, epn⟩ := key hl
  unfold C03.userHdr at eu
  simp only [Prod.mk.injEq] at eu
  obtain ⟨_, _, _, _, _, u5, u6, u7, u8, _⟩ := eu
  have hsho : Hdr.e_shoff o.cls o.enc hdrF = r.obj.curPos := by
    rw [hFeq]; exact e_shoff_set_shoff _ _ _ _ hl0 hfit
  have ephoff : Hdr.e_phoff o.cls o.enc hdrF = Hdr.e_phoff o.cls o.enc (ElfioVerif.saveHdr0 o hd) := by
    rw [hFeq]; exact fF.2.2.2.2.1 (by decide)
  -- the getters of the intermediate header
  have eh0 : Hdr.e_ehsize o.cls o.enc hdrF = Hdr.e_ehsize o.cls o.enc (ElfioVerif.saveHdr0 o hd) := by
    rw [hFeq]; exact fF.2.2.2.2.2.2.2.1 (by decide)
  have pe0 : Hdr.e_phentsize o.cls o.enc hdrF = Hdr.e_phentsize o.cls o.enc (ElfioVerif.saveHdr0 o hd) := by
    rw [hFeq]; exact fF.2.2.2.2.2.2.2.2.1 (by decide)
  have pn0 : Hdr.e_phnum o.cls o.enc hdrF = Hdr.e_phnum o.cls o.enc (ElfioVerif.saveHdr0 o hd) := by
    rw [hFeq]; exact fF.2.2.2.2.2.2.2.2.2.1 (by decide)
  refine ⟨hdrF, hF, identOk_of_take16 hi (lF.trans l0) (tF.trans t0), u5, u6, u7, u8, esn, epn, ?_, hsho,
    eh0.symm.trans u5, pe0.symm.trans u6, by rw [← pn0]; exact epn⟩
  rw [ephoff]; exact saveHdr0_phoff o hd hl

/-- the saved sections fit the class's field widths if the object's did (the layout truncates what
    it assigns) -/
theorem saved_fieldsFit {o : Obj} {os : OStream} {r : SaveRes} (hs : save o os = .ok r) (hok : r.ok = true)
    (hidx : SegIdxOk o.segs) (hfit : ∀ a ∈ o.secs, C03.FieldsFit o.cls a) :
    ∀ b ∈ r.obj.secs, C03.FieldsFit o.cls b := by
  obtain ⟨⟨l0, l1, f0, f1, f2⟩, -, -, -, -⟩ := save_frames hs hok hidx
  intro b hb
  obtain ⟨i, hib⟩ := List.getElem?_of_mem hb
  have hi2 := getElem?_lt hib
  have hi1 : i < l1.length := by rw [← f2.1]; exact hi2
  have hi0 : i < l0.length := by rw [← f1.1]; exact hi1
  have hio : i < o.secs.length := by rw [← f0.1]; exact hi0
  have ra := f0.2 i _ _ (List.getElem?_eq_getElem hio) (List.getElem?_eq_getElem hi0)
  have pm := f1.2 i _ _ (List.getElem?_eq_getElem hi0) (List.getElem?_eq_getElem hi1)
  have rb := f2.2 i _ _ (List.getElem?_eq_getElem hi1) hib
  exact C03.resFrame_fit rb (C03.placed_fit pm (C03.resFrame_fit ra (hfit _ (List.getElem_mem hio))))

/-- sections and segments of the saved object carry their position as index; class and byte order
    are the object's -/
theorem saved_indices {o : Obj} {os : OStream} {r : SaveRes} (hs : save o os = .ok r) (hok : r.ok = true)
    (hidx : SegIdxOk o.segs) (hsidx : C05.SecIdxOk o.secs) :
    r.obj.secs.length = o.secs.length ∧ r.obj.segs.length = o.segs.length ∧
    (∀ (k : Nat) b, r.obj.secs[k]? = some b → b.index = k) ∧
    (∀ (k : Nat) g, r.obj.segs[k]? = some g → g.index = k) ∧
    r.obj.cls = o.cls ∧ r.obj.enc = o.enc := by
  obtain ⟨fsec, fseg, ec, ee, _⟩ := C05.save_writes_fields hs hok hidx
  refine ⟨fsec.1, fseg.1, ?_, ?_, ec, ee⟩
  · intro k b hb
    have hk : k < o.secs.length := by rw [← fsec.1]; exact getElem?_lt hb
    have ha := List.getElem?_eq_getElem hk
    rw [(fsec.2 k _ b ha hb).fields.2.2.2.2.2.2.2.2.2.1]
    exact hsidx k _ ha
  · intro k g hg
    have hk : k < o.segs.length := by rw [← fseg.1]; exact getElem?_lt hg
    have ha := List.getElem?_eq_getElem hk
    rw [(fseg.2 k _ g ha hg).frame.index]
    exact hidx k _ ha

/-! #### sections outside all segments are placed below the section header table (empty ones too) -/

theorem loose_offset_le (o : Obj) (h : Bytes) (res : LayoutRes) (hl : layoutOf o h = .ok (some res))
    (hnw : layoutNW o h = true) (k : Nat) (s' : SecBuf) (hk : res.secs[k]? = some s')
    (hw : withoutSegment res.segs k = true) (hi : s'.index ≠ 0) :
    s'.offset.toNat ≤ res.pos3.toNat ∧ res.pos3.toNat ≤ res.shoff.toNat := by
  unfold layoutNW at hnw
  rw [hl] at hnw
  simp only [Bool.and_eq_true, decide_eq_true_eq] at hnw
  obtain ⟨⟨-, hnw3⟩, hnw4⟩ := hnw
  obtain ⟨-, -, -, -, -, -, hloose, -⟩ := layoutOf_parts o h res hl
  rw [layoutLoose_eq_spec] at hloose
  simp only [List.reverse_nil, List.nil_append, Prod.mk.injEq] at hloose
  obtain ⟨hsecs, hpos⟩ := hloose
  obtain ⟨flen, -, -, fpl, -⟩ := looseSpec_facts o.cls res.segs res.lay2.secs 0 res.lay2.pos hnw3
  simp only [Nat.zero_add] at fpl
  simp only [← hsecs, ← hpos] at flen fpl
  have hlt : k < res.lay2.secs.length := by rw [← flen]; exact getElem?_lt hk
  obtain ⟨t, ht, hm, -, -, hr⟩ := fpl k _ (List.getElem?_eq_getElem hlt) hw
  rw [hk] at ht; simp only [Option.some.injEq] at ht; subst ht
  exact ⟨(hr (by rw [← hm.index]; exact hi)).2.1, hnw4⟩

/-- a section of the saved object that lies outside all segments starts at or below the section header
    table offset — whether or not it is empty -/
theorem saved_loose_offset {o : Obj} {os : OStream} {r : SaveRes} {hdr : Bytes}
    (hs : save o os = .ok r) (hok : r.ok = true) (hh : o.hdr = some hdr)
    (hnw : layoutNW (preSave o) hdr = true)
    (k : Nat) (b : SecBuf) (hk : r.obj.secs[k]? = some b) (hw : withoutSegment r.obj.segs k = true)
    (hi : b.index ≠ 0) : b.offset.toNat ≤ r.obj.curPos.toNat := by
  obtain ⟨res, hl, hsegs, hcur, he⟩ := C04.save_secs_hdr o os r hdr hs hok hh
  obtain ⟨s', hs', hhs⟩ := hdrOf_getElem? he k b hk
  simp only [hdrOf, Prod.mk.injEq] at hhs
  obtain ⟨e1, -, -, e4, -⟩ := hhs
  rw [hsegs] at hw
  have := loose_offset_le (preSave o) hdr res hl hnw k s' hs' hw (by rw [e4]; exact hi)
  rw [hcur, ← e1]
  omega

/-! #### the length of the saved stream -/

theorem applyWrites_length_le (ws : List (Nat × Bytes)) (s : OStream) (hg : s.Good) (B : Nat)
    (hs : s.content.length ≤ B) (hw : ∀ w ∈ ws, w.1 + w.2.length ≤ B) :
    (applyWrites s ws).content.length ≤ B := by
  induction ws generalizing s with
  | nil => exact hs
  | cons w rest ih =>
    obtain ⟨g1, -, l1, -, -⟩ := C03.saveSection_writes s hg w.1 w.2
    have hw0 := hw w List.mem_cons_self
    exact ih _ g1 (by rw [l1]; omega) (fun w' hw' => hw w' (List.mem_cons_of_mem _ hw'))

/-- the stream after a successful `save` is the stream before plus the positioned writes of the saved
    object (restatement of the first step of `C03.save_decodes`) -/
theorem saved_os_eq {o : Obj} {os : OStream} {r : SaveRes} (hs : save o os = .ok r) (hok : r.ok = true)
    (hg : os.Good) (htr : o.trans = []) {h : Bytes} (hh : r.obj.hdr = some h)
    (hl : C03.LayoutOk r.obj.cls r.obj.enc h r.obj.secs r.obj.segs) :
    r.os = applyWrites os (objWrites r.obj.cls r.obj.enc h r.obj.secs r.obj.segs) := by
  obtain ⟨hd, segs1, ordered, lay, done, _, _, _, _, _, rfl⟩ := save_ok_unfold hs hok
  obtain ⟨_, eobj, eos, _⟩ := saveTail_ok hok
  rw [eobj] at hh hl
  simp only [Option.some.injEq] at hh
  subst hh
  rw [eobj, eos]
  simp only at hl ⊢
  rw [tailOs_eq (preRes o) os _ segs1 lay done hg htr hl.shoffLt hl.phoffLt hl.offLt]

/-! #### hypotheses on the object to be saved, and on the saved object -/

instance (c : Cls) (b : SecBuf) : Decidable (C03.FieldsFit c b) :=
  decidable_of_iff ((c = .c32 → b.flags.toNat < 4294967296) ∧ (c = .c32 → b.addr.toNat < 4294967296) ∧
    (c = .c32 → b.offset.toNat < 4294967296) ∧ (c = .c32 → b.size.toNat < 4294967296) ∧
    (c = .c32 → b.addrAlign.toNat < 4294967296) ∧ (c = .c32 → b.entSize.toNat < 4294967296))
    ⟨fun ⟨a, b, c, d, e, f⟩ => ⟨a, b, c, d, e, f⟩, fun ⟨a, b, c, d, e, f⟩ => ⟨a, b, c, d, e, f⟩⟩

instance (c : Cls) (g : Seg) : Decidable (C03.SegFit c g) :=
  decidable_of_iff ((c = .c32 → g.offset.toNat < 4294967296) ∧ (c = .c32 → g.vaddr.toNat < 4294967296) ∧
    (c = .c32 → g.paddr.toNat < 4294967296) ∧ (c = .c32 → g.filesz.toNat < 4294967296) ∧
    (c = .c32 → g.memsz.toNat < 4294967296) ∧ (c = .c32 → g.align.toNat < 4294967296))
    ⟨fun ⟨a, b, c, d, e, f⟩ => ⟨a, b, c, d, e, f⟩, fun ⟨a, b, c, d, e, f⟩ => ⟨a, b, c, d, e, f⟩⟩

/-- "element `k` carries index `k`", as a Bool -/
def idxOkB {α} (f : α → Nat) (l : List α) : Bool := l.zipIdx.all fun p => f p.1 == p.2

theorem idx_of_B {α} (f : α → Nat) (l : List α) (h : idxOkB f l = true) :
    ∀ (k : Nat) a, l[k]? = some a → f a = k := by
  intro k a hk
  unfold idxOkB at h
  rw [List.all_eq_true] at h
  have hm : (a, k) ∈ l.zipIdx := by
    rw [List.mem_zipIdx_iff_getElem?]; simpa using hk
  simpa using h (a, k) hm

/-- **Bookkeeping of the object to be saved** — every clause decidable; all are true of an object built
    by `create` / `sections.add` / `segments.add` with non-empty segment members, and of a loaded one. -/
structure SaveInput (o : Obj) (hd : Bytes) : Prop where
  /-- header buffer of the class's size, magic, class and byte-order bytes as the object's convertor -/
  ident : IdentOk o.cls o.enc hd
  ehsize : (Hdr.e_ehsize o.cls o.enc hd).toNat = ehdrSize o.cls
  shentsize : shdrSize o.cls ≤ (Hdr.e_shentsize o.cls o.enc hd).toNat
  phentsize : phdrSize o.cls ≤ (Hdr.e_phentsize o.cls o.enc hd).toNat
  nsecs : o.secs.length < 65536
  nsegs : o.segs.length < 65536
  nonempty : o.secs ≠ []
  secIdx : idxOkB SecBuf.index o.secs = true
  segIdx : idxOkB Seg.index o.segs = true
  /-- section 0 (the one `set_offset` spares) is not of a file-occupying type -/
  sec0 : ∀ s ∈ o.secs, C02.occupiesFile s.stype.toNat = true → s.index ≠ 0
  /-- writer domain: segment members are non-empty (an empty section of file-occupying type lies
      outside all segments) -/
  emptyLoose : ∀ s ∈ o.secs, C02.occupiesFile s.stype.toNat = true → s.size = 0 →
    withoutSegment o.segs s.index = true
  /-- the section fields fit the class (the setters truncate) -/
  fit : ∀ a ∈ o.secs, C03.FieldsFit o.cls a
  strndx : (Hdr.e_shstrndx o.cls o.enc hd).toNat = 0 ∨ (Hdr.e_shstrndx o.cls o.enc hd).toNat < o.secs.length
  /-- the section-name table is resident and every name offset points at a terminated string -/
  names : (Hdr.e_shstrndx o.cls o.enc hd).toNat ≠ 0 →
    ∀ T ∈ o.secs[(Hdr.e_shstrndx o.cls o.enc hd).toNat]?,
      ResidentFull T ∧ ∀ a ∈ o.secs, (Spec.cstrAt (fileBytesOf T) a.nameOff.toNat).isSome = true

/-- **No address / offset range of the saved object reaches 2^64, segment fields fit the class, and
    the file range of every segment ends at or before the section header table** (decidable; on the
    object `save` leaves). `segInside` is proved below for objects without segments
    (`savedSane_noseg`) and for flat segments (`segInside_flat`). -/
structure SavedSane (c : Cls) (secs : List SecBuf) (segs : List Seg) (shoff : Nat) : Prop where
  secNoWrap : ∀ b ∈ secs, b.addr.toNat + b.size.toNat < 18446744073709551616 ∧
    b.offset.toNat + b.size.toNat < 18446744073709551616
  segFit : ∀ g ∈ segs, C03.SegFit c g
  segNoWrap : ∀ g ∈ segs, g.vaddr.toNat + g.memsz.toNat < 18446744073709551616 ∧
    g.offset.toNat + g.filesz.toNat < 18446744073709551616
  segInside : ∀ g ∈ segs, g.stype.toNat ≠ Spec.PT_NULL → g.filesz.toNat ≠ 0 →
    g.offset.toNat + g.filesz.toNat ≤ shoff

theorem occ_occupies {s : SecBuf} (h : s.Occ) : C02.occupiesFile s.stype.toNat = true := by
  obtain ⟨h1, h2, _⟩ := h
  unfold C02.occupiesFile
  simp only [Bool.and_eq_true, bne_iff_ne, ne_eq]
  constructor
  · intro e; apply h2; apply BitVec.eq_of_toNat_eq; rw [e]; rfl
  · intro e; apply h1; apply BitVec.eq_of_toNat_eq; rw [e]; rfl

theorem SaveInput.h0 {o : Obj} {hd : Bytes} (hin : SaveInput o hd) :
    ∀ (i : Nat) (s : SecBuf), o.secs[i]? = some s → s.Occ → s.index ≠ 0 :=
  fun _ s hs ho => hin.sec0 s (List.mem_of_getElem? hs) (occ_occupies ho)

theorem withoutSegment_congr {segs segs' : List Seg} (h : segs'.map (·.secs) = segs.map (·.secs)) (i : Nat) :
    withoutSegment segs' i = withoutSegment segs i := by
  have : ∀ l : List Seg, (l.any fun g => g.secs.any fun k => k.toNat == i) =
      ((l.map (·.secs)).any fun ks => ks.any fun k => k.toNat == i) := by
    intro l; rw [List.any_map]; rfl
  rw [withoutSegment_eq, withoutSegment_eq, this segs', this segs, h]

theorem fileBytesOf_saved {a b : SecBuf} (h : C05.SecSaved a b) (hr : ResidentFull a) :
    ResidentFull b ∧ fileBytesOf b = fileBytesOf a := by
  obtain ⟨_, _, est, _, esz, _⟩ := h.fields
  unfold ResidentFull fileBytesOf at *
  rw [est, esz]
  constructor
  · intro ho hz
    obtain ⟨hd, hl⟩ := hr ho hz
    rw [(h.dataSome hd).1]; exact ⟨hd, hl⟩
  · cases ho : C02.occupiesFile a.stype.toNat with
    | false => rfl
    | true =>
      simp only [if_true]
      by_cases hz : a.size = 0
      · simp [SecBuf.view, esz, hz]
      · obtain ⟨hd, _⟩ := hr ho hz
        simp only [SecBuf.view, esz, (h.dataSome hd).1]

/-- the size assumption: the section header table ends below 2^63 (`std::streamoff` is signed), its
    offset fits the class's `e_shoff`, and the stream written to was shorter than 2^63 -/
structure FileSmall (o : Obj) (hd : Bytes) (os : OStream) (shoff : BitVec 64) : Prop where
  fits : fitsB o.cls shoff = true
  small : shoff.toNat + (Hdr.e_shentsize o.cls o.enc hd).toNat * o.secs.length < 9223372036854775808
  stream : os.content.length < 9223372036854775808

/-- **the object left by a successful `save`, its header and the length of the saved stream satisfy
    `ImageOk`** (everything `C02.WellFormedImage` asks, on the writer's side).  From: C04's
    `file_covers` (section header table, file-occupying non-empty sections, records inside the file),
    `layout_disjoint` (program header table below the section header table), the loose-section pass
    (empty sections), the positioned-writes form of the stream (length), the frame theorems of C05
    (indices, names, field widths). -/
theorem imageOk_of_save {o : Obj} {os : OStream} {r : SaveRes} {hd : Bytes}
    (hs : save o os = .ok r) (hok : r.ok = true) (hg : os.Good) (htr : o.trans = [])
    (hh : o.hdr = some hd) (hin : SaveInput o hd) (hnw : layoutNW (preSave o) hd = true)
    (hsm : FileSmall o hd os r.obj.curPos)
    {hF : Bytes} (hhF : r.obj.hdr = some hF)
    (hl : C03.LayoutOk r.obj.cls r.obj.enc hF r.obj.secs r.obj.segs)
    (hsane : SavedSane o.cls r.obj.secs r.obj.segs r.obj.curPos.toNat) :
    IdentOk o.cls o.enc hF ∧ ImageOk o.cls o.enc hF r.obj.secs r.obj.segs r.os.content.length := by
  have hsegIdx := idx_of_B Seg.index o.segs hin.segIdx
  have hsecIdx := idx_of_B SecBuf.index o.secs hin.secIdx
  obtain ⟨hF', hhF', hiF, eeh, epe, ese, esx, esn, epn, epo, eso, eeh0, epe0, epn0⟩ :=
    saved_header hs hok hh hin.ident hsm.fits
  rw [hhF] at hhF'; cases hhF'
  obtain ⟨nsec, nseg, isec, iseg, ec, ee⟩ := saved_indices hs hok hsegIdx hsecIdx
  obtain ⟨fsec, fseg, _, _, _⟩ := C05.save_writes_fields hs hok hsegIdx
  have hlen : ehdrSize o.cls ≤ hd.length := by rw [hin.ident.len]; exact Nat.le_refl _
  have h0 := hin.h0
  have hsh63 : r.obj.curPos.toNat < 9223372036854775808 := by have := hsm.small; omega
  obtain ⟨hcur, hocc, hdrF, hhdrF, -, hrec⟩ :=
    C04.file_covers o os r hd hs hok hh hin.nsecs hin.nonempty h0 hnw hlen hsm.fits hsh63
  rw [hhF] at hhdrF; cases hhdrF
  obtain ⟨hinr, -, hlt, -⟩ := C04.layout_disjoint o os r hd hs hok hh hin.nsecs h0 hnw
  simp only [eeh0, epe0, epn0] at hinr hlt
  rw [Nat.mod_eq_of_lt hin.nsegs] at epn hlt epo
  rw [Nat.mod_eq_of_lt hin.nsecs] at esn
  -- the section header table's entry size
  have hse : shdrSize o.cls ≤ (Hdr.e_shentsize o.cls o.enc hF).toNat := by rw [ese]; exact hin.shentsize
  have hpe : phdrSize o.cls ≤ (Hdr.e_phentsize o.cls o.enc hF).toNat := by rw [epe]; exact hin.phentsize
  refine ⟨hiF, ?_, fun _ => hse, fun _ => hpe, by rw [esn, nsec], by rw [epn, nseg], isec, iseg, ?_, ?_, ?_, ?_⟩
  · -- length of the stream
    rw [saved_os_eq hs hok hg htr hhF hl, ec, ee]
    have hB := hsm.small
    have hst := hsm.stream
    apply Nat.lt_of_le_of_lt (applyWrites_length_le _ os hg
      (max os.content.length (r.obj.curPos.toNat + (Hdr.e_shentsize o.cls o.enc hd).toNat * o.secs.length))
      (Nat.le_max_left _ _) ?_) (by omega)
    intro w hw
    apply Nat.le_trans _ (Nat.le_max_right _ _)
    unfold objWrites at hw
    rcases List.mem_cons.1 hw with rfl | hw
    · simp only [Nat.zero_add]
      rw [hiF.len, ← hin.ehsize]; omega
    rcases List.mem_append.1 hw with hw | hw
    · obtain ⟨b, hb, hwb⟩ := List.mem_flatMap.1 hw
      obtain ⟨k, hk⟩ := List.getElem?_of_mem hb
      have hbi := isec k b hk
      have hklt : k < o.secs.length := by rw [← nsec]; exact getElem?_lt hk
      unfold secWrites at hwb
      rcases List.mem_cons.1 hwb with rfl | hwb
      · simp only [C03.encodeShdr_length]
        rw [eso, ese, hbi]
        have hm : (Hdr.e_shentsize o.cls o.enc hd).toNat * k + (Hdr.e_shentsize o.cls o.enc hd).toNat ≤
            (Hdr.e_shentsize o.cls o.enc hd).toNat * o.secs.length := by
          rw [← Nat.mul_succ]; exact Nat.mul_le_mul_left _ hklt
        have := hin.shentsize
        omega
      · split at hwb
        · rename_i hc
          simp only [List.mem_singleton] at hwb
          subst hwb
          simp only [Bool.and_eq_true, bne_iff_ne, ne_eq] at hc
          have ho : b.Occ := ⟨hc.1.1.1, hc.1.1.2, hc.1.2⟩
          have := (hinr k b hk ho).2
          unfold SecBuf.endN at this
          simp only [List.length_take]
          omega
        · cases hwb
    · obtain ⟨g, hgm, rfl⟩ := List.mem_map.1 hw
      obtain ⟨k, hk⟩ := List.getElem?_of_mem hgm
      have hgi := iseg k g hk
      have hklt : k < o.segs.length := by rw [← nseg]; exact getElem?_lt hk
      unfold segWrite
      simp only [C03.encodePhdr_length]
      rw [epo, if_pos (by omega), epe, hgi]
      have hm : (Hdr.e_phentsize o.cls o.enc hd).toNat * k + (Hdr.e_phentsize o.cls o.enc hd).toNat ≤
          (Hdr.e_phentsize o.cls o.enc hd).toNat * o.segs.length := by
        rw [← Nat.mul_succ]; exact Nat.mul_le_mul_left _ hklt
      have := hin.phentsize
      omega
  · -- sections
    intro b hb
    obtain ⟨k, hk⟩ := List.getElem?_of_mem hb
    have hklt : k < o.secs.length := by rw [← nsec]; exact getElem?_lt hk
    have ha := List.getElem?_eq_getElem hklt
    have sv := fsec.2 k _ b ha hk
    obtain ⟨_, _, est, _, esz, _, _, _, _, eidx, _⟩ := sv.fields
    have hrec' := hrec b hb
    rw [C03.encodeShdr_length] at hrec'
    refine ⟨saved_fieldsFit hs hok hsegIdx hin.fit b hb, by rw [eso]; exact hrec', ?_, hsane.secNoWrap b hb⟩
    intro hoc
    by_cases hz : b.size = 0
    · have hw : withoutSegment r.obj.segs k = true := by
        have hmap : r.obj.segs.map (·.secs) = o.segs.map (·.secs) := by
          apply List.ext_getElem?
          intro j
          simp only [List.getElem?_map]
          cases hj : r.obj.segs[j]? with
          | none =>
            have : o.segs.length ≤ j := by
              rw [← nseg]
              rcases Nat.lt_or_ge j r.obj.segs.length with h' | h'
              · rw [List.getElem?_eq_getElem h'] at hj; cases hj
              · exact h'
            rw [List.getElem?_eq_none this]
          | some g' =>
            have hjlt : j < o.segs.length := by rw [← nseg]; exact getElem?_lt hj
            have hg0 := List.getElem?_eq_getElem hjlt
            rw [hg0]
            simp only [Option.map_some]
            rw [(fseg.2 j _ g' hg0 hj).frame.secs]
        rw [withoutSegment_congr hmap]
        have := hin.emptyLoose _ (List.getElem_mem hklt) (by rw [← est]; exact hoc) (by rw [← esz]; exact hz)
        rw [hsecIdx k _ ha] at this
        exact this
      have hi0 : b.index ≠ 0 := by
        rw [eidx]; exact hin.sec0 _ (List.getElem_mem hklt) (by rw [← est]; exact hoc)
      have := saved_loose_offset hs hok hh hnw k b hk hw hi0
      have hz' : b.size.toNat = 0 := by rw [hz]; rfl
      omega
    · obtain ⟨n1, n2⟩ := occupies_ne hoc
      have := hocc k b hk ⟨n1, n2, hz⟩
      unfold SecBuf.endN at this
      exact this
  · -- segments
    intro g hgm
    obtain ⟨k, hk⟩ := List.getElem?_of_mem hgm
    have hgi := iseg k g hk
    have hklt : k < o.segs.length := by rw [← nseg]; exact getElem?_lt hk
    refine ⟨hsane.segFit g hgm, ?_, ?_, hsane.segNoWrap g hgm⟩
    · rw [epo, if_pos (by omega), epe, hgi]
      have hm : (Hdr.e_phentsize o.cls o.enc hd).toNat * k + (Hdr.e_phentsize o.cls o.enc hd).toNat ≤
          (Hdr.e_phentsize o.cls o.enc hd).toNat * o.segs.length := by
        rw [← Nat.mul_succ]; exact Nat.mul_le_mul_left _ hklt
      have := hin.phentsize
      omega
    · intro h1 h2
      have := hsane.segInside g hgm h1 h2
      omega
  · rw [esx, nsec]; exact hin.strndx
  · rw [esx]
    intro hne T hT
    have hlt : (Hdr.e_shstrndx o.cls o.enc hd).toNat < o.secs.length := by rw [← nsec]; exact getElem?_lt hT
    have hT0 := List.getElem?_eq_getElem hlt
    obtain ⟨hres, hnames⟩ := hin.names hne _ hT0
    obtain ⟨hres', efb⟩ := fileBytesOf_saved (fsec.2 _ _ T hT0 hT) hres
    refine ⟨hres', ?_⟩
    intro b hb
    obtain ⟨k, hk⟩ := List.getElem?_of_mem hb
    have hklt : k < o.secs.length := by rw [← nsec]; exact getElem?_lt hk
    have ha := List.getElem?_eq_getElem hklt
    rw [efb, (fsec.2 k _ b ha hk).fields.2.1]
    exact hnames _ (List.getElem_mem hklt)

/-! #### `SavedSane.segInside` : the file range of a segment ends below the section header table -/

theorem lay2_le_shoff (o : Obj) (h : Bytes) (res : LayoutRes) (hl : layoutOf o h = .ok (some res))
    (hnw : layoutNW o h = true) : res.lay2.pos.toNat ≤ res.shoff.toNat := by
  unfold layoutNW at hnw
  rw [hl] at hnw
  simp only [Bool.and_eq_true, decide_eq_true_eq] at hnw
  obtain ⟨⟨-, hnw3⟩, hnw4⟩ := hnw
  obtain ⟨-, -, -, -, -, -, hloose, -⟩ := layoutOf_parts o h res hl
  rw [layoutLoose_eq_spec] at hloose
  simp only [List.reverse_nil, List.nil_append, Prod.mk.injEq] at hloose
  obtain ⟨-, hpos⟩ := hloose
  obtain ⟨-, fle, -, -, -⟩ := looseSpec_facts o.cls res.segs res.lay2.secs 0 res.lay2.pos hnw3
  simp only [← hpos] at fle
  omega

/-- **flat segments** : a selected segment of the saved object that is laid out as a fresh run of
    members (`layoutDomB`: writer-domain side conditions, no member generated before its turn, not the
    PHDR / offset-0 special case) has its file range `[p_offset, p_offset + p_filesz)` below the section
    header table (`layoutSegment_flat` + monotone cursor); a segment without members that is not the
    PT_PHDR case has file size 0. -/
theorem segInside_flat {o : Obj} {os : OStream} {r : SaveRes} {hdr : Bytes}
    (hs : save o os = .ok r) (hok : r.ok = true) (hh : o.hdr = some hdr)
    (hn : o.secs.length < 65536)
    (h0 : ∀ (i : Nat) (s : SecBuf), o.secs[i]? = some s → s.Occ → s.index ≠ 0)
    (hnw : layoutNW (preSave o) hdr = true) (hnd : (o.segs.map (·.index)).Nodup)
    (sel : Nat → Bool) (hdom : layoutDomB false false sel (preSave o) hdr = true)
    (g : Seg) (hg : g ∈ r.obj.segs) (hsel : sel g.index = true)
    (hph : lseg_is_phdr g.stype (BitVec.ofNat 16 g.secs.length) = false)
    (hfs : g.filesz.toNat ≠ 0) : g.offset.toNat + g.filesz.toNat ≤ r.obj.curPos.toNat := by
  obtain ⟨res, hl, hsegs, hcur, -⟩ := C04.save_secs_hdr o os r hdr hs hok hh
  rw [hsegs] at hg
  have hn' : (preSave o).secs.length < 65536 := by rw [preSave_length]; exact hn
  have h0' := preSave_h0 o h0
  obtain ⟨t, ht, rfl⟩ := final_segs_turn (preSave o) hdr res hl hnw hn' h0' hnd g hg
  obtain ⟨-, -, e3⟩ := layoutOf_trace (preSave o) hdr res hl hnw hn' h0'
  obtain ⟨f1, f2, f3, -, f5, -⟩ := e3 t ht
  unfold layoutDomB at hdom
  rw [hl] at hdom
  simp only at hdom
  obtain ⟨-, hsecs, hidx, -, hty, -⟩ := layoutSegment_marks _ _ _ _ _ _ _ _ _ f3 f2 f1
  have hturn := segsAllB_trace _ _ _ _ _ _ _ hdom t ht
  rw [hidx] at hsel
  simp only [hsel, Bool.not_true, Bool.false_or, Bool.and_eq_true, Bool.or_eq_true] at hturn
  obtain ⟨⟨hsd, hfl⟩, hfe⟩ := hturn
  have hne : t.g.secs ≠ [] := by
    intro e
    have := layoutSegment_empty _ _ _ _ t.lay t.lay' t.g t.g' e (by rw [← hsecs, ← hty]; exact hph) f1
    rw [this] at hfs; exact hfs rfl
  have hfresh : segFresh t.lay t.g := by
    rcases hfe with he | hf
    · simp only [List.isEmpty_iff] at he; exact absurd he hne
    · exact segFresh_of_B _ _ hf
  obtain ⟨-, hB, -⟩ := layoutSegment_flat _ _ _ _ t.lay t.lay' t.g t.g' _ f3 f2
    (segDom_weaken _ _ _ _ _ _ _ _ hsd) hfl hfresh f1
  have h1 := f5.mono
  have h2 := lay2_le_shoff (preSave o) hdr res hl hnw
  rw [hcur]
  omega

/-- the part of `SavedSane` that stays a hypothesis: no address / offset range of the saved object
    reaches 2^64 and the segment fields fit the class (trivial in ELF64) -/
structure SavedNoWrap (c : Cls) (secs : List SecBuf) (segs : List Seg) : Prop where
  secNoWrap : ∀ b ∈ secs, b.addr.toNat + b.size.toNat < 18446744073709551616 ∧
    b.offset.toNat + b.size.toNat < 18446744073709551616
  segFit : ∀ g ∈ segs, C03.SegFit c g
  segNoWrap : ∀ g ∈ segs, g.vaddr.toNat + g.memsz.toNat < 18446744073709551616 ∧
    g.offset.toNat + g.filesz.toNat < 18446744073709551616

/-- objects without segments -/
theorem savedSane_noseg {o : Obj} {os : OStream} {r : SaveRes} (hs : save o os = .ok r) (hok : r.ok = true)
    (hseg : o.segs = []) (hnw : SavedNoWrap o.cls r.obj.secs r.obj.segs) :
    SavedSane o.cls r.obj.secs r.obj.segs r.obj.curPos.toNat := by
  have hidx : SegIdxOk o.segs := by rw [hseg]; intro k g hk; cases hk
  obtain ⟨_, fseg, _⟩ := C05.save_writes_fields hs hok hidx
  have : r.obj.segs = [] := by
    have := fseg.1; rw [hseg] at this; exact List.eq_nil_of_length_eq_zero this
  refine ⟨hnw.secNoWrap, hnw.segFit, hnw.segNoWrap, ?_⟩
  rw [this]; intro g hg; cases hg

/-- flat segments: every segment is laid out as a fresh run (`layoutDomB … (fun _ => true)`), none is
    the member-less PT_PHDR special case -/
theorem savedSane_flat {o : Obj} {os : OStream} {r : SaveRes} {hd : Bytes}
    (hs : save o os = .ok r) (hok : r.ok = true) (hh : o.hdr = some hd) (hin : SaveInput o hd)
    (hnw : layoutNW (preSave o) hd = true)
    (hdom : layoutDomB false false (fun _ => true) (preSave o) hd = true)
    (hph : ∀ g ∈ o.segs, lseg_is_phdr g.stype (BitVec.ofNat 16 g.secs.length) = false)
    (hnwrap : SavedNoWrap o.cls r.obj.secs r.obj.segs) :
    SavedSane o.cls r.obj.secs r.obj.segs r.obj.curPos.toNat := by
  have hsegIdx := idx_of_B Seg.index o.segs hin.segIdx
  obtain ⟨_, fseg, _⟩ := C05.save_writes_fields hs hok hsegIdx
  have hnd : (o.segs.map (·.index)).Nodup := by
    rw [List.nodup_iff_pairwise_ne, List.pairwise_map, List.pairwise_iff_getElem]
    intro i j hi hj hij
    rw [hsegIdx i _ (List.getElem?_eq_getElem hi), hsegIdx j _ (List.getElem?_eq_getElem hj)]
    omega
  refine ⟨hnwrap.secNoWrap, hnwrap.segFit, hnwrap.segNoWrap, ?_⟩
  intro g hg _ hfs
  obtain ⟨k, hk⟩ := List.getElem?_of_mem hg
  have hklt : k < o.segs.length := by rw [← fseg.1]; exact getElem?_lt hk
  have sg := fseg.2 k _ g (List.getElem?_eq_getElem hklt) hk
  have hph' : lseg_is_phdr g.stype (BitVec.ofNat 16 g.secs.length) = false := by
    have := hph _ (List.getElem_mem hklt)
    rw [sg.frame.secs]
    have est : g.stype = (o.segs[k]).stype := by rw [sg.frame.rest]
    rw [est]; exact this
  exact segInside_flat hs hok hh hin.nsecs hin.h0 hnw hnd (fun _ => true) hdom g hg rfl hph' hfs

/-! ### C05's abstract `Loaded` holds of the model's eager `load` on every well-formed image -/

open C02 in
theorem loaded_of_wellFormed (img : Bytes) (o2 : Obj) (k : StreamKind) (htr : o2.trans = [])
    (hwf : WellFormedImage img) :
    ∃ r2 : LoadRes, load o2 { data := img, kind := k } false = .ok r2 ∧ r2.ok = true ∧
      r2.obj.cls = clsOf img ∧ r2.obj.enc = encOf img ∧ r2.obj.trans = [] ∧
      r2.obj.hdr = some (slice img 0 (Spec.ehdrSize (clsOf img))) ∧
      C05.Loaded (clsOf img) (encOf img) r2.obj.secs r2.obj.segs img := by
  obtain ⟨r2, hload, ⟨hok, lc, le, ⟨h', hh', hhs⟩, _, _, _, lns, lsec, lng, lseg⟩, ltr, lst⟩ :=
    load_state img o2 k false htr hwf
  refine ⟨r2, hload, hok, lc, le, ltr, by rw [hh', hhs.1], ⟨lns, lng, ?_, ?_⟩⟩
  · intro i b hb
    have hi := getElem?_lt hb
    have e2 : r2.obj.secs[i] = b := by
      have := List.getElem?_eq_getElem hi
      rw [hb] at this; exact (Option.some.inj this).symm
    obtain ⟨_, q1, q2, q3, q4, q5, q6, q7, q8, q9, q10, _, _⟩ := lsec i hi
    obtain ⟨a1, a2, -⟩ := lst i hi
    rw [e2] at q1 q2 q3 q4 q5 q6 q7 q8 q9 q10 a1 a2
    have hbase : Spec.get (Spec.ehdrL (clsOf img)) (encOf img) img 0 "e_shoff" +
        Spec.get (Spec.ehdrL (clsOf img)) (encOf img) img 0 "e_shentsize" * i = shBase img i := by
      unfold shBase eh; rw [Nat.mul_comm]
    simp only [hbase]
    refine ⟨q1, q2, q3, q4, q5, q6, q7, q8, q9, q10, a1, ?_⟩
    intro n1 n2 n3
    rw [a2 (Or.inl rfl)]
    unfold secFileBytes
    rw [← q2, ← q5, ← q6, if_pos (occ_occupies ⟨n1, n2, n3⟩)]
  · intro j g hg
    have hj := getElem?_lt hg
    have e2 : r2.obj.segs[j] = g := by
      have := List.getElem?_eq_getElem hj
      rw [hg] at this; exact (Option.some.inj this).symm
    obtain ⟨_, q1, q2, _, q4, q5, _, q7, q8, _, _⟩ := lseg j hj
    rw [e2] at q1 q2 q4 q5 q7 q8
    have hbase : Spec.get (Spec.ehdrL (clsOf img)) (encOf img) img 0 "e_phoff" +
        Spec.get (Spec.ehdrL (clsOf img)) (encOf img) img 0 "e_phentsize" * j = phBase img j := by
      unfold phBase eh; rw [Nat.mul_comm]
    simp only [hbase]
    exact ⟨q1, q2, q4, q5, q7, q8⟩

/-! ### 4. save ∘ load ∘ save without segments : the write phase reads a section only through its
header fields, its `written` condition and the bytes it writes -/

/-- `x` and `y` are written alike by `save_sections` -/
structure OutRel (x y : SecBuf) : Prop where
  settledX : x.Settled
  settledY : y.Settled
  index : x.index = y.index
  nameOff : x.nameOff = y.nameOff
  stype : x.stype = y.stype
  flags : x.flags = y.flags
  addr : x.addr = y.addr
  offset : x.offset = y.offset
  size : x.size = y.size
  link : x.link = y.link
  info : x.info = y.info
  addrAlign : x.addrAlign = y.addrAlign
  entSize : x.entSize = y.entSize
  written : secWritten x = secWritten y
  data : secWritten y = true → (x.data.getD []).take x.size.toNat = (y.data.getD []).take y.size.toNat

theorem OutRel.setOffset {x y : SecBuf} (h : OutRel x y) (c : Cls) (p : BitVec 64) :
    OutRel (setOffset c x p) (setOffset c y p) := by
  have hi : (x.index != 0) = (y.index != 0) := by rw [h.index]
  rw [setOffset_eq, setOffset_eq, hi]
  split
  · exact ⟨h.settledX, h.settledY, h.index, h.nameOff, h.stype, h.flags, h.addr, rfl, h.size, h.link, h.info,
      h.addrAlign, h.entSize, h.written, h.data⟩
  · exact h

theorem looseSpec_congr (c : Cls) (segs : List Seg) {lx ly : List SecBuf} (h : All2 OutRel lx ly) (i : Nat)
    (pos : BitVec 64) :
    All2 OutRel (Sv.looseSpec c segs lx i pos).1 (Sv.looseSpec c segs ly i pos).1 ∧
    (Sv.looseSpec c segs lx i pos).2 = (Sv.looseSpec c segs ly i pos).2 := by
  induction h generalizing i pos with
  | nil => exact ⟨.nil, rfl⟩
  | @cons x y lx ly hxy _ ih =>
    by_cases hw : withoutSegment segs i = true
    · rw [Sv.looseSpec_cons_true c segs x lx i pos hw, Sv.looseSpec_cons_true c segs y ly i pos hw]
      simp only
      rw [hxy.addrAlign, hxy.stype, hxy.size]
      obtain ⟨i1, i2⟩ := ih (i + 1) (if lsws_occupies y.stype then
        wsd_advance (if lsws_need_align y.addrAlign pos then lsws_aligned pos y.addrAlign else pos) y.size
        else (if lsws_need_align y.addrAlign pos then lsws_aligned pos y.addrAlign else pos))
      exact ⟨.cons (hxy.setOffset c _) i1, i2⟩
    · rw [Sv.looseSpec_cons_false c segs x lx i pos hw, Sv.looseSpec_cons_false c segs y ly i pos hw]
      obtain ⟨i1, i2⟩ := ih (i + 1) pos
      exact ⟨.cons hxy i1, i2⟩

theorem saveSection_congr (c : Cls) (enc : Enc) (shoff : BitVec 64) (se : BitVec 16) (os : OStream) {x y : SecBuf}
    (h : OutRel x y) : saveSection c enc shoff se os x = saveSection c enc shoff se os y := by
  have henc : encodeShdr c enc x = encodeShdr c enc y := by
    unfold encodeShdr
    rw [h.nameOff, h.stype, h.flags, h.addr, h.offset, h.size, h.link, h.info, h.addrAlign, h.entSize]
  have hw : (x.stype != BitVec.ofNat 32 SHT_NOBITS && x.stype != BitVec.ofNat 32 SHT_NULL && x.size != 0 &&
      x.data.isSome) = (y.stype != BitVec.ofNat 32 SHT_NOBITS && y.stype != BitVec.ofNat 32 SHT_NULL && y.size != 0 &&
      y.data.isSome) := h.written
  unfold saveSection
  simp only [henc, h.index, secWritesData_eq, hw]
  split
  · rename_i hc
    have := h.data hc
    rw [h.offset, this]
  · rfl

theorem foldl_saveSection_congr (c : Cls) (enc : Enc) (shoff : BitVec 64) (se : BitVec 16) {lx ly : List SecBuf}
    (h : All2 OutRel lx ly) (os : OStream) :
    lx.foldl (saveSection c enc shoff se) os = ly.foldl (saveSection c enc shoff se) os := by
  induction h generalizing os with
  | nil => rfl
  | cons hxy _ ih => simp only [List.foldl_cons]; rw [saveSection_congr c enc shoff se os hxy]; exact ih _

theorem All2.settled {lx ly : List SecBuf} (h : All2 OutRel lx ly) :
    (∀ b ∈ lx, b.Settled) ∧ (∀ b ∈ ly, b.Settled) := by
  induction h with
  | nil => exact ⟨fun _ hb => (nomatch hb), fun _ hb => (nomatch hb)⟩
  | cons hxy _ ih =>
    constructor
    · intro b hb
      rcases List.mem_cons.1 hb with rfl | hb
      · exact hxy.settledX
      · exact ih.1 b hb
    · intro b hb
      rcases List.mem_cons.1 hb with rfl | hb
      · exact hxy.settledY
      · exact ih.2 b hb

theorem all2_of_getElem? {α β} {R : α → β → Prop} (lx : List α) (ly : List β) (hlen : lx.length = ly.length)
    (h : ∀ (i : Nat) x y, lx[i]? = some x → ly[i]? = some y → R x y) : All2 R lx ly := by
  induction lx generalizing ly with
  | nil =>
    cases ly with
    | nil => exact .nil
    | cons _ _ => cases hlen
  | cons x lx ih =>
    cases ly with
    | nil => cases hlen
    | cons y ly =>
      refine .cons (h 0 x y rfl rfl) (ih ly (by simpa using hlen) ?_)
      intro i a b ha hb
      exact h (i + 1) a b (by simpa using ha) (by simpa using hb)

/-- the stream and the result flag of the tail of `save` (no segments) depend on the sections only
    through `OutRel` -/
theorem saveTail_os_congr {X Y : Obj} (hc : X.cls = Y.cls) (he : X.enc = Y.enc) (ht : X.trans = Y.trans)
    (os : OStream) (h0 : Bytes) {layX layY : Layout} (hrel : All2 OutRel layX.secs layY.secs)
    (hpos : layX.pos = layY.pos) :
    (saveTail X os h0 [] layX []).os = (saveTail Y os h0 [] layY []).os ∧
    (saveTail X os h0 [] layX []).ok = (saveTail Y os h0 [] layY []).ok := by
  unfold saveTail
  simp only
  rw [Sv.layoutLoose_eq, Sv.layoutLoose_eq, hc, he, hpos]
  obtain ⟨l1, l2⟩ := looseSpec_congr Y.cls (putBack [] []) hrel 0 layY.pos
  simp only [List.reverse_nil, List.nil_append]
  rw [l2]
  obtain ⟨sx, sy⟩ := All2.settled l1
  unfold saveWrite
  simp only [hc, he, ht]
  rw [residentForSave_id _ _ _ _ _ sx, residentForSave_id _ _ _ _ _ sy]
  simp only [List.reverse_nil, List.nil_append]
  rw [foldl_saveSection_congr _ _ _ _ l1]
  constructor
  · simp only [apply_ite SaveRes.os]
  · simp only [apply_ite SaveRes.ok]

theorem allResident_elem (c : Cls) (tr : List Trans) (l : List SecBuf) (ls : LoadSt) (acc : List SecBuf)
    (i : Nat) (a : SecBuf) (ha : l[i]? = some a) :
    ∃ ls', ls'.st.data = ls.st.data ∧
      (allResident c tr l ls acc).1[acc.length + i]? = some (secGetData c tr ls' a).2 := by
  induction l generalizing ls acc i with
  | nil => cases ha
  | cons b rest ih =>
    unfold allResident
    cases i with
    | zero =>
      simp only [List.getElem?_cons_zero, Option.some.injEq] at ha
      subst ha
      refine ⟨ls, rfl, ?_⟩
      simp only
      obtain ⟨l', e, _⟩ := allResident_frame c tr rest (secGetData c tr ls b).1 ((secGetData c tr ls b).2 :: acc)
      rw [e]; simp
    | succ j =>
      simp only [List.getElem?_cons_succ] at ha
      obtain ⟨ls', hd, hget⟩ := ih (secGetData c tr ls b).1 ((secGetData c tr ls b).2 :: acc) j ha
      refine ⟨ls', by rw [hd]; exact secGetData_data c tr ls b, ?_⟩
      simp only [List.length_cons] at hget
      rw [← hget]; congr 1; omega

theorem written_of_occ {b : SecBuf} (ho : C02.occupiesFile b.stype.toNat = true) (hz : b.size ≠ 0)
    (hd : b.data.isSome = true) : secWritten b = true := by
  obtain ⟨n1, n2⟩ := occupies_ne ho
  unfold secWritten
  simp only [Bool.and_eq_true, bne_iff_ne, ne_eq]
  exact ⟨⟨⟨n1, n2⟩, hz⟩, hd⟩

theorem not_written_of {b : SecBuf} (h : ¬ (C02.occupiesFile b.stype.toNat = true ∧ b.size ≠ 0)) :
    secWritten b = false := by
  cases hw : secWritten b with
  | false => rfl
  | true =>
    exfalso; apply h
    unfold secWritten at hw
    simp only [Bool.and_eq_true, bne_iff_ne, ne_eq] at hw
    exact ⟨occ_occupies ⟨hw.1.1.1, hw.1.1.2, hw.1.2⟩, hw.1.2⟩

/-- the sections of a reloaded object, made resident, are written like the saved object's -/
theorem preRes_outRel {c : Cls} {enc : Enc} {h : Bytes} {img : Bytes} {isLazy : Bool} {X Y : Obj}
    (R : Reloaded c enc h Y.secs Y.segs img isLazy X) (hres : ∀ b ∈ Y.secs, ResidentFull b) :
    All2 OutRel (preRes X).secs (preRes Y).secs := by
  have fX := preRes_frame X
  have fY := preRes_frame Y
  apply all2_of_getElem? _ _ (by rw [fX.1, fY.1]; exact R.nsec)
  intro i x' y' hx' hy'
  have hiX : i < X.secs.length := by rw [← fX.1]; exact getElem?_lt hx'
  have hiY : i < Y.secs.length := by rw [← fY.1]; exact getElem?_lt hy'
  have hb2 := List.getElem?_eq_getElem hiX
  have hb := List.getElem?_eq_getElem hiY
  obtain ⟨sa, -, hdat⟩ := R.sec i _ _ hb hb2
  obtain ⟨-, hreq⟩ := hdat (hres _ (List.getElem_mem hiY))
  -- x' is `get_data()` of the reloaded section on a stream over the image
  obtain ⟨ls', hls, hget⟩ := allResident_elem X.cls X.trans X.secs { st := X.stream } [] i _ hb2
  simp only [List.length_nil, Nat.zero_add] at hget
  have ex : x' = (secGetData X.cls X.trans ls' X.secs[i]).2 := by
    have : (preRes X).secs[i]? = some (secGetData X.cls X.trans ls' X.secs[i]).2 := hget
    rw [hx'] at this; exact Option.some.inj this
  rw [R.clsEq, R.trans] at ex
  have hview := hreq ls' (by rw [hls]; exact R.stream.1)
  rw [← ex] at hview
  have rx : ResFrame X.secs[i] x' := by rw [ex]; exact (secGetData_frame c [] ls' _).1
  have ry : ResFrame Y.secs[i] y' := fY.2 i _ _ hb hy'
  have ex' := rx.rest
  have ey' := ry.rest
  have sX : x'.Settled := by rw [ex]; exact secGetData_settled c [] ls' _
  have sY : y'.Settled := by
    have := allResident_settled Y.cls Y.trans Y.secs { st := Y.stream } [] (fun b hb => nomatch hb)
    exact this y' (List.mem_of_getElem? hy')
  -- header fields
  have f1 : x'.index = y'.index := by rw [ex', ey']; exact sa.index
  have f2 : x'.nameOff = y'.nameOff := by rw [ex', ey']; exact sa.nameOff
  have f3 : x'.stype = y'.stype := by rw [ex', ey']; exact sa.stype
  have f4 : x'.flags = y'.flags := by rw [ex', ey']; exact sa.flags
  have f5 : x'.addr = y'.addr := by rw [ex', ey']; exact sa.addr
  have f6 : x'.offset = y'.offset := by rw [ex', ey']; exact sa.offset
  have f7 : x'.size = y'.size := by rw [ex', ey']; exact sa.size
  have f8 : x'.link = y'.link := by rw [ex', ey']; exact sa.link
  have f9 : x'.info = y'.info := by rw [ex', ey']; exact sa.info
  have f10 : x'.addrAlign = y'.addrAlign := by rw [ex', ey']; exact sa.addrAlign
  have f11 : x'.entSize = y'.entSize := by rw [ex', ey']; exact sa.entSize
  have eyt : y'.stype = (Y.secs[i]).stype := by rw [ey']
  have eys : y'.size = (Y.secs[i]).size := by rw [ey']
  by_cases hocc : C02.occupiesFile (Y.secs[i]).stype.toNat = true ∧ (Y.secs[i]).size ≠ 0
  · obtain ⟨ho, hz⟩ := hocc
    obtain ⟨hdsome, hdl⟩ := hres _ (List.getElem_mem hiY) ho hz
    have ydat : y'.data = (Y.secs[i]).data := (ry.dataSome hdsome).1
    have hfb : fileBytesOf Y.secs[i] = (Y.secs[i]).view := by unfold fileBytesOf; rw [if_pos ho]
    have hvy : y'.view = (Y.secs[i]).view := by simp only [SecBuf.view, ydat, eys]
    have hvlen : (Y.secs[i]).view.length = (Y.secs[i]).size.toNat := by
      simp only [SecBuf.view, List.length_take]; omega
    have hxsome : x'.data.isSome = true := by
      cases hxd : x'.data with
      | some d => rfl
      | none =>
        exfalso
        rw [hfb] at hview
        have := congrArg List.length hview
        simp only [SecBuf.view, hxd, Option.getD_none, List.take_nil, List.length_nil] at this
        have hz' : (Y.secs[i]).size.toNat ≠ 0 := by
          intro e; apply hz; exact BitVec.eq_of_toNat_eq (by rw [e]; rfl)
        simp only [SecBuf.view] at hvlen
        omega
    have wy : secWritten y' = true := written_of_occ (by rw [eyt]; exact ho) (by rw [eys]; exact hz)
      (by rw [ydat]; exact hdsome)
    have wx : secWritten x' = true := written_of_occ (by rw [f3, eyt]; exact ho) (by rw [f7, eys]; exact hz) hxsome
    refine ⟨sX, sY, f1, f2, f3, f4, f5, f6, f7, f8, f9, f10, f11, by rw [wx, wy], fun _ => ?_⟩
    have : x'.view = y'.view := by rw [hview, hfb, hvy]
    exact this
  · have wy : secWritten y' = false := not_written_of (by rw [eyt, eys]; exact hocc)
    have wx : secWritten x' = false := not_written_of (by rw [f3, f7, eyt, eys]; exact hocc)
    refine ⟨sX, sY, f1, f2, f3, f4, f5, f6, f7, f8, f9, f10, f11, by rw [wx, wy], fun hw => ?_⟩
    rw [wy] at hw; cases hw

end ElfioVerif.RoundTrip
