/-
Closed-form bounds, part 2: offsets and addresses of the sections during pass 2 of `save`
(towards `Compose.noWrap64InB` from plain bounds).  ELF64 only, on top of `Small.SmallInv`.

`SecInv`: every section has `offset ≤ 2^62` and `addr < 2^63`; every section that is generated, or has
index 0, or is SHT_NULL, has `offset ≤ cursor` (so that `seg_start_pos` of a segment whose first member
is already generated is not beyond the cursor, and the address `vaddr + cursor − seg_start_pos` the
writer assigns does not wrap).
-/
import ElfioVerif.Lemmas.LayoutSmall
namespace ElfioVerif
open Gen
namespace Small

structure SecInv (lay : Layout) : Prop where
  off : ∀ (k : Nat) (s : SecBuf), lay.secs[k]? = some s → s.offset.toNat ≤ 4611686018427387904
  adr : ∀ (k : Nat) (s : SecBuf), lay.secs[k]? = some s → s.addr.toNat < 9223372036854775808
  genLe : ∀ (k : Nat) (s : SecBuf), lay.secs[k]? = some s →
    (lay.gen[k]? = some true ∨ s.index = 0 ∨ wsd_is_null s.stype = true) →
    s.offset.toNat ≤ lay.pos.toNat

theorem SecInv.advance {lay : Layout} (h : SecInv lay) (p : BitVec 64) (hp : lay.pos.toNat ≤ p.toNat) :
    SecInv { lay with pos := p } :=
  ⟨h.off, h.adr, fun k s hs hg => Nat.le_trans (h.genLe k s hs hg) hp⟩

theorem setOffset_c64 (s : SecBuf) (v : BitVec 64) :
    (setOffset .c64 s v).addr = s.addr ∧ (setOffset .c64 s v).index = s.index ∧
    (setOffset .c64 s v).stype = s.stype ∧
    ((s.index = 0 ∧ (setOffset .c64 s v).offset = s.offset) ∨
     (s.index ≠ 0 ∧ (setOffset .c64 s v).offset = v)) := by
  rw [setOffset_eq]
  by_cases h : s.index = 0
  · simp [h]
  · simp [h, truncA]

/-- the section `wsdPlace` produces (ELF64): index and type kept; address kept or the writer's;
    offset kept (index 0) or the cursor after the gap -/
theorem wsdPlace_fst_c64 (g : Seg) (segStart pos gap : BitVec 64) (sec : SecBuf) :
    (wsdPlace .c64 g segStart pos gap sec).1.index = sec.index ∧
    (wsdPlace .c64 g segStart pos gap sec).1.stype = sec.stype ∧
    ((wsdPlace .c64 g segStart pos gap sec).1.addr = sec.addr ∨
     (wsdPlace .c64 g segStart pos gap sec).1.addr = wsd_new_addr g.vaddr (wsd_cursor_gap pos gap) segStart) ∧
    ((sec.index = 0 ∧ (wsdPlace .c64 g segStart pos gap sec).1.offset = sec.offset) ∨
     (sec.index ≠ 0 ∧ (wsdPlace .c64 g segStart pos gap sec).1.offset = wsd_cursor_gap pos gap)) := by
  have key : ∀ sa : SecBuf, sa.index = sec.index → sa.stype = sec.stype → sa.offset = sec.offset →
      (sa.addr = sec.addr ∨ sa.addr = wsd_new_addr g.vaddr (wsd_cursor_gap pos gap) segStart) →
      (setOffset .c64 sa (wsd_cursor_gap pos gap)).index = sec.index ∧
      (setOffset .c64 sa (wsd_cursor_gap pos gap)).stype = sec.stype ∧
      ((setOffset .c64 sa (wsd_cursor_gap pos gap)).addr = sec.addr ∨
       (setOffset .c64 sa (wsd_cursor_gap pos gap)).addr = wsd_new_addr g.vaddr (wsd_cursor_gap pos gap) segStart) ∧
      ((sec.index = 0 ∧ (setOffset .c64 sa (wsd_cursor_gap pos gap)).offset = sec.offset) ∨
       (sec.index ≠ 0 ∧ (setOffset .c64 sa (wsd_cursor_gap pos gap)).offset = wsd_cursor_gap pos gap)) := by
    intro sa h1 h2 h3 h4
    obtain ⟨a1, a2, a3, a4⟩ := setOffset_c64 sa (wsd_cursor_gap pos gap)
    rw [a1, a2, a3, h1, h2]
    refine ⟨rfl, rfl, h4, ?_⟩
    rw [h1, h3] at a4
    exact a4
  unfold wsdPlace
  simp only
  cases has : sec.addrSet with
  | true =>
    simp only [Bool.not_true, Bool.false_eq_true, ↓reduceIte]
    exact key sec rfl rfl rfl (Or.inl rfl)
  | false =>
    simp only [Bool.not_false, ↓reduceIte]
    exact key _ rfl rfl rfl (Or.inr (by simp [truncA]))

/-- one member of `write_segment_data` keeps `SecInv`, and the cursor does not go back -/
theorem wsdStep_secInv (g : Seg) (segStart : BitVec 64) (st : WsdSt) (idx : BitVec 16)
    (B : Nat) (G : List Seg) (hg : g ∈ G) (hidx : idx ∈ g.secs)
    (hB : B ≤ 4611686018427387904) (hinv : SmallInv B G st.lay)
    (hv : g.vaddr.toNat < 4611686018427387904)
    (hss : segStart.toNat ≤ st.lay.pos.toNat) (hsi : SecInv st.lay) :
    ∀ st', wsdStep .c64 g segStart st idx = .ok (some st') →
      SecInv st'.lay ∧ st.lay.pos.toNat ≤ st'.lay.pos.toNat := by
  obtain ⟨hnw, hkeep⟩ := wsdStepNW_of_bound .c64 g segStart st idx B G rfl hg hidx hB hinv
  intro st' h
  have hinv' := hkeep st' h
  rw [wsdStep_eq] at h
  unfold wsdStepNW at hnw
  cases hsec : st.lay.secs[idx.toNat]? with
  | none => rw [hsec] at h; simp [throw, throwThe, MonadExceptOf.throw] at h
  | some sec =>
  cases hgen : st.lay.gen[idx.toNat]? with
  | none => rw [hsec, hgen] at h; simp [throw, throwThe, MonadExceptOf.throw] at h
  | some generated =>
  rw [hsec, hgen] at h hnw
  simp only at h hnw
  have hilen : idx.toNat < st.lay.gen.length := by
    rcases Nat.lt_or_ge idx.toNat st.lay.gen.length with h' | h'
    · exact h'
    · rw [List.getElem?_eq_none h'] at hgen; exact nomatch hgen
  have hl : idx.toNat < st.lay.secs.length := by
    rcases Nat.lt_or_ge idx.toNat st.lay.secs.length with h' | h'
    · exact h'
    · rw [List.getElem?_eq_none h'] at hsec; exact nomatch hsec
  have hmark : wsd_is_null sec.stype = true →
      SecInv { st.lay with gen := st.lay.gen.set idx.toNat true } := by
    intro hnull
    refine ⟨hsi.off, hsi.adr, ?_⟩
    intro k s hs hgk
    simp only at hs hgk
    rcases hgk with hgk | hgk
    · rcases (getElem?_set_true_iff _ _ _ hilen).1 hgk with h' | h'
      · exact hsi.genLe k s hs (Or.inl h')
      · subst h'; rw [hsec] at hs; simp only [Option.some.injEq] at hs; subst hs
        exact hsi.genLe _ _ hsec (Or.inr (Or.inr hnull))
    · exact hsi.genLe k s hs (Or.inr hgk)
  cases generated with
  | true =>
    by_cases hnull : wsd_is_null sec.stype = true
    · simp only [hnull, if_true, pure, Except.pure, Except.ok.injEq, Option.some.injEq] at h
      subst h
      exact ⟨hmark hnull, Nat.le_refl _⟩
    · have hnull' : wsd_is_null sec.stype = false := by simpa using hnull
      simp only [hnull', Bool.false_eq_true, if_false] at h
      cases hgap : wsdGap g segStart st.lay.pos st.file sec true with
      | none => rw [hgap] at h; simp [pure, Except.pure] at h
      | some gap =>
        rw [hgap] at h
        simp only [if_true, pure, Except.pure, Except.ok.injEq, Option.some.injEq] at h
        subst h
        exact ⟨hsi, Nat.le_refl _⟩
  | false =>
    simp only at hnw
    by_cases hnull : wsd_is_null sec.stype = true
    · simp only [hnull, if_true, pure, Except.pure, Except.ok.injEq, Option.some.injEq] at h
      subst h
      exact ⟨hmark hnull, Nat.le_refl _⟩
    · have hnull' : wsd_is_null sec.stype = false := by simpa using hnull
      simp only [hnull', Bool.false_eq_true, if_false] at h hnw
      cases hgap : wsdGap g segStart st.lay.pos st.file sec false with
      | none => rw [hgap] at h; simp [pure, Except.pure] at h
      | some gap =>
      rw [hgap] at h
      simp only [Bool.false_eq_true, if_false, pure, Except.pure, Except.ok.injEq, Option.some.injEq] at h
      subst h
      simp only [hgap, Bool.and_eq_true, decide_eq_true_eq] at hnw
      obtain ⟨⟨h01, h12⟩, -⟩ := hnw
      have hpot := hinv'.pot
      simp only at hpot
      obtain ⟨pi, pt, pa, po⟩ := wsdPlace_fst_c64 g segStart st.lay.pos gap sec
      generalize hp1 : wsd_cursor_gap st.lay.pos gap = p1 at *
      generalize hpp : wsdPlace .c64 g segStart st.lay.pos gap sec = p at *
      have hp2B : p.2.toNat ≤ 4611686018427387904 := by omega
      have hoff : p.1.offset.toNat ≤ p.2.toNat := by
        rcases po with ⟨hi0, ho⟩ | ⟨-, ho⟩
        · rw [ho]
          have := hsi.genLe _ _ hsec (Or.inr (Or.inl hi0))
          omega
        · rw [ho]; exact h12
      have hadr : p.1.addr.toNat < 9223372036854775808 := by
        rcases pa with ha | ha
        · rw [ha]; exact hsi.adr _ _ hsec
        · rw [ha]
          have := segStart.isLt
          simp only [wsd_new_addr, BitVec.toNat_sub, BitVec.toNat_add, Nat.reducePow]
          omega
      refine ⟨⟨?_, ?_, ?_⟩, by simp only; omega⟩
      · intro k s hs
        simp only at hs
        by_cases hk : idx.toNat = k
        · subst hk
          rw [List.getElem?_set] at hs
          simp only [if_true, hl, Option.some.injEq] at hs
          subst hs; omega
        · rw [List.getElem?_set] at hs
          simp only [hk, if_false] at hs
          exact hsi.off k s hs
      · intro k s hs
        simp only at hs
        by_cases hk : idx.toNat = k
        · subst hk
          rw [List.getElem?_set] at hs
          simp only [if_true, hl, Option.some.injEq] at hs
          subst hs; exact hadr
        · rw [List.getElem?_set] at hs
          simp only [hk, if_false] at hs
          exact hsi.adr k s hs
      · intro k s hs hgk
        simp only at hs hgk ⊢
        by_cases hk : idx.toNat = k
        · subst hk
          rw [List.getElem?_set] at hs
          simp only [if_true, hl, Option.some.injEq] at hs
          subst hs; exact hoff
        · rw [List.getElem?_set] at hs
          simp only [hk, if_false] at hs
          have : s.offset.toNat ≤ st.lay.pos.toNat := by
            apply hsi.genLe k s hs
            rcases hgk with hgk | hgk
            · rcases (getElem?_set_true_iff _ _ _ hilen).1 hgk with h' | h'
              · exact Or.inl h'
              · exact absurd h'.symm hk
            · exact Or.inr hgk
          omega

/-- the member loop keeps `SecInv` -/
theorem wsdLoop_secInv (g : Seg) (segStart : BitVec 64) (l : List (BitVec 16)) (st : WsdSt)
    (B : Nat) (G : List Seg) (hg : g ∈ G) (hl : ∀ idx ∈ l, idx ∈ g.secs)
    (hB : B ≤ 4611686018427387904) (hinv : SmallInv B G st.lay)
    (hv : g.vaddr.toNat < 4611686018427387904)
    (hss : segStart.toNat ≤ st.lay.pos.toNat) (hsi : SecInv st.lay) :
    ∀ st', wsdLoop .c64 g segStart l st = .ok (some st') →
      SecInv st'.lay ∧ st.lay.pos.toNat ≤ st'.lay.pos.toNat := by
  induction l generalizing st with
  | nil =>
    intro st' h
    simp only [wsdLoop, pure, Except.pure, Except.ok.injEq, Option.some.injEq] at h
    subst h; exact ⟨hsi, Nat.le_refl _⟩
  | cons idx rest ih =>
    intro st' h
    have hi := hl idx (List.mem_cons_self ..)
    have hrest : ∀ j ∈ rest, j ∈ g.secs := fun j hj => hl j (List.mem_cons_of_mem _ hj)
    unfold wsdLoop at h
    cases hs : wsdStep .c64 g segStart st idx with
    | error e => rw [hs] at h; simp [bind, Except.bind] at h
    | ok r =>
      rw [hs] at h
      cases r with
      | none => simp [bind, Except.bind, pure, Except.pure] at h
      | some st1 =>
        simp only [bind, Except.bind] at h
        obtain ⟨s1, m1⟩ := wsdStep_secInv g segStart st idx B G hg hi hB hinv hv hss hsi st1 hs
        have hinv1 := (wsdStepNW_of_bound .c64 g segStart st idx B G rfl hg hi hB hinv).2 st1 hs
        obtain ⟨s2, m2⟩ := ih st1 hrest hinv1 (by omega) s1 st' h
        exact ⟨s2, by omega⟩

theorem wsdLoop_secInv' (g : Seg) (segStart : BitVec 64) (l : List (BitVec 16)) (st : WsdSt)
    (B : Nat) (G : List Seg) (hg : g ∈ G) (hl : ∀ idx ∈ l, idx ∈ g.secs)
    (hB : B ≤ 4611686018427387904) (hinv : SmallInv B G st.lay)
    (hv : g.vaddr.toNat < 4611686018427387904)
    (hss : l ≠ [] → segStart.toNat ≤ st.lay.pos.toNat) (hsi : SecInv st.lay) :
    ∀ st', wsdLoop .c64 g segStart l st = .ok (some st') →
      SecInv st'.lay ∧ st.lay.pos.toNat ≤ st'.lay.pos.toNat := by
  cases l with
  | nil =>
    intro st' h
    simp only [wsdLoop, pure, Except.pure, Except.ok.injEq, Option.some.injEq] at h
    subst h; exact ⟨hsi, Nat.le_refl _⟩
  | cons idx rest =>
    exact wsdLoop_secInv g segStart (idx :: rest) st B G hg hl hB hinv hv (hss (List.cons_ne_nil _ _)) hsi

/-- `seg_start_pos` of a segment with members is not beyond the cursor the member loop starts from -/
theorem segInit_start (c : Cls) (hdrPhoff : BitVec 64) (phentsize phnum : BitVec 16) (lay : Layout) (g : Seg)
    (fg : Bool) (r : Layout × BitVec 64 × BitVec 64 × BitVec 64)
    (h : segInit c hdrPhoff phentsize phnum lay g fg = .ok r)
    (hfg : segFirstGen lay g = .ok fg) (hne : g.secs ≠ []) (hlen : g.secs.length < 65536)
    (hsi : SecInv lay) (hmono : lay.pos.toNat ≤ r.1.pos.toNat) :
    r.2.1.toNat ≤ r.1.pos.toNat := by
  have hpos : 0 < g.secs.length := by
    cases hs : g.secs with
    | nil => exact absurd hs hne
    | cons a t => simp
  unfold segInit at h
  simp only at h
  split at h
  · rename_i hp
    exfalso
    simp only [lseg_is_phdr, Bool.and_eq_true, beq_iff_eq] at hp
    have := congrArg BitVec.toNat hp.2
    simp only [BitVec.toNat_setWidth, BitVec.toNat_ofNat, Nat.reducePow] at this
    omega
  · split at h
    · simp only [pure, Except.pure, Except.ok.injEq] at h; subst h; simp
    · split at h
      · simp only [pure, Except.pure, Except.ok.injEq] at h; subst h; exact Nat.le_refl _
      · rename_i hfresh
        have hfgt : fg = true := by
          cases fg with
          | true => rfl
          | false => simp [hpos] at hfresh
        subst hfgt
        split at h
        · split at h
          · rename_i _ f hf _ s hs
            simp only [pure, Except.pure, Except.ok.injEq] at h; subst h
            simp only
            apply hsi.genLe f.toNat s hs
            left
            unfold segFirstGen at hfg
            rw [hf] at hfg
            simp only at hfg
            cases hgf : lay.gen[f.toNat]? with
            | none => rw [hgf] at hfg; simp [throw, throwThe, MonadExceptOf.throw] at hfg
            | some b =>
              rw [hgf] at hfg
              simp only [pure, Except.pure, Except.ok.injEq] at hfg
              rw [hfg]
          · simp [throw, throwThe, MonadExceptOf.throw] at h
        · simp only [pure, Except.pure, Except.ok.injEq] at h; subst h; exact Nat.le_refl _

/-- one segment keeps `SecInv` -/
theorem layoutSegment_secInv (hdrPhoff : BitVec 64) (phentsize phnum : BitVec 16) (lay : Layout) (g : Seg)
    (B : Nat) (G : List Seg) (hg : g ∈ G) (hal : g.align.toNat < 1099511627776)
    (hB : B + 1099511627776 ≤ 4611686018427387904) (hinv : SmallInv B G lay)
    (hv : g.vaddr.toNat < 4611686018427387904) (hlen : g.secs.length < 65536) (hsi : SecInv lay) :
    ∀ lay' g', layoutSegment .c64 hdrPhoff phentsize phnum lay g = .ok (some (lay', g')) → SecInv lay' := by
  intro lay' g' h
  rw [layoutSegment_eq] at h
  cases hfg : segFirstGen lay g with
  | error e => rw [hfg] at h; simp [bind, Except.bind] at h
  | ok fg =>
    rw [hfg] at h
    simp only [bind, Except.bind] at h
    cases hin : segInit .c64 hdrPhoff phentsize phnum lay g fg with
    | error e => rw [hin] at h; simp at h
    | ok r =>
      rw [hin] at h
      simp only at h
      have hpot := hinv.pot
      obtain ⟨hp1, hp2⟩ := segInit_pos .c64 hdrPhoff phentsize phnum lay g fg r hin hal (by omega)
      have hl := segInit_lay .c64 hdrPhoff phentsize phnum lay g fg r hin
      have hinv1 : SmallInv (B + 1099511627776) G r.1 := by
        rw [hl]
        exact ⟨by simp only; omega, hinv.len, hinv.sz, hinv.addr⟩
      have hsi1 : SecInv r.1 := by rw [hl]; exact hsi.advance _ hp1
      cases hw : wsdLoop .c64 g r.2.1 g.secs { lay := r.1, mem := r.2.2.1, file := r.2.2.2 } with
      | error e => rw [hw] at h; simp at h
      | ok w =>
        rw [hw] at h
        cases w with
        | none => simp [pure, Except.pure] at h
        | some st =>
          simp only [pure, Except.pure, Except.ok.injEq, Option.some.injEq, Prod.mk.injEq] at h
          obtain ⟨rfl, -⟩ := h
          exact (wsdLoop_secInv' g r.2.1 g.secs { lay := r.1, mem := r.2.2.1, file := r.2.2.2 }
            (B + 1099511627776) G hg (fun _ h => h) hB hinv1 hv
            (fun hne => segInit_start .c64 hdrPhoff phentsize phnum lay g fg r hin hfg hne hlen hsi hp1)
            hsi1 st hw).1

/-- all segments keep `SecInv` -/
theorem segsFold_secInv (hdrPhoff : BitVec 64) (phentsize phnum : BitVec 16) (l : List Seg)
    (lay : Layout) (B : Nat) (G : List Seg)
    (hl : ∀ g ∈ l, g ∈ G ∧ g.align.toNat < 1099511627776 ∧ g.vaddr.toNat < 4611686018427387904 ∧
      g.secs.length < 65536)
    (hB : B + 1099511627776 * l.length ≤ 4611686018427387904) (hinv : SmallInv B G lay) (hsi : SecInv lay) :
    ∀ done lay' done', l.foldlM (segsStep .c64 hdrPhoff phentsize phnum) (some (lay, done)) = .ok (some (lay', done')) →
      SecInv lay' := by
  induction l generalizing lay B with
  | nil =>
    intro done lay' done' h
    simp only [List.foldlM, pure, Except.pure, Except.ok.injEq, Option.some.injEq, Prod.mk.injEq] at h
    obtain ⟨rfl, -⟩ := h
    exact hsi
  | cons g rest ih =>
    simp only [List.length_cons, Nat.mul_add_one, ← Nat.add_assoc] at hB
    obtain ⟨hgG, hga, hgv, hgl⟩ := hl g (List.mem_cons_self ..)
    have hrest : ∀ g' ∈ rest, g' ∈ G ∧ g'.align.toNat < 1099511627776 ∧
        g'.vaddr.toNat < 4611686018427387904 ∧ g'.secs.length < 65536 :=
      fun g' h' => hl g' (List.mem_cons_of_mem _ h')
    intro done lay' done' h
    simp only [List.foldlM, segsStep, bind, Except.bind] at h
    cases hs : layoutSegment .c64 hdrPhoff phentsize phnum lay g with
    | error e => rw [hs] at h; simp at h
    | ok r =>
      rw [hs] at h
      cases r with
      | none =>
        simp only [pure, Except.pure] at h
        rw [segsFold_none] at h; simp at h
      | some r =>
        obtain ⟨lay1, g1⟩ := r
        simp only [pure, Except.pure] at h
        have hinv1 := (segNW_of_bound .c64 hdrPhoff phentsize phnum lay g B G rfl hgG hga (by omega) hinv).2 lay1 g1 hs
        have hsi1 := layoutSegment_secInv hdrPhoff phentsize phnum lay g B G hgG hga (by omega) hinv hgv hgl hsi lay1 g1 hs
        exact ih lay1 (B + 1099511627776) hrest (by omega) hinv1 hsi1 _ lay' done' h

/-- every section pass 3 returns is an input section, or an input section with `set_offset` applied
    at a cursor value not beyond the final cursor -/
theorem looseSpec_mem (c : Cls) (segs : List Seg) (l : List SecBuf) (i : Nat) (pos : BitVec 64)
    (hnw : looseNW c segs l i pos = true) :
    ∀ s' ∈ (looseSpec c segs l i pos).1, ∃ s ∈ l, s' = s ∨
      ∃ p : BitVec 64, s' = setOffset c s p ∧ p.toNat ≤ (looseSpec c segs l i pos).2.toNat := by
  induction l generalizing i pos with
  | nil => intro s' hs'; simp [looseSpec] at hs'
  | cons s rest ih =>
    by_cases hw : withoutSegment segs i = true
    · unfold looseNW at hnw
      simp only [hw, if_true, Bool.and_eq_true, decide_eq_true_eq] at hnw
      obtain ⟨⟨⟨h01, h12⟩, -⟩, hrest⟩ := hnw
      unfold looseSpec
      simp only [hw, if_true, (setOffset_moved c s _).stype, (setOffset_moved c s _).size]
      generalize (if lsws_need_align s.addrAlign pos then lsws_aligned pos s.addrAlign else pos) = pos1 at *
      generalize (if lsws_occupies s.stype then wsd_advance pos1 s.size else pos1) = pos2 at *
      have hm := (looseSpec_facts c segs rest (i + 1) pos2 hrest).2.1
      intro s' hs'
      rcases List.mem_cons.1 hs' with rfl | hs'
      · exact ⟨s, List.mem_cons_self .., Or.inr ⟨pos1, rfl, by omega⟩⟩
      · obtain ⟨t, ht, h⟩ := ih (i + 1) pos2 hrest s' hs'
        exact ⟨t, List.mem_cons_of_mem _ ht, h⟩
    · have hw' : withoutSegment segs i = false := by simpa using hw
      unfold looseNW at hnw
      simp only [hw', Bool.false_eq_true, if_false] at hnw
      unfold looseSpec
      simp only [hw', Bool.false_eq_true, if_false]
      intro s' hs'
      rcases List.mem_cons.1 hs' with rfl | hs'
      · exact ⟨s', List.mem_cons_self .., Or.inl rfl⟩
      · obtain ⟨t, ht, h⟩ := ih (i + 1) pos hnw s' hs'
        exact ⟨t, List.mem_cons_of_mem _ ht, h⟩

end Small

namespace Small

/-! ### the memory-size counter when every member is fresh at its step -/

theorem wsdStep_mem_small (g : Seg) (segStart : BitVec 64) (st : WsdSt) (idx : BitVec 16)
    (B : Nat) (G : List Seg) (hg : g ∈ G) (hidx : idx ∈ g.secs)
    (hinv : SmallInv B G st.lay) (hfr : wsdStepFresh st idx = true)
    (M : Nat) (hm : st.mem.toNat ≤ M) (hM : M + 2199023255552 < 18446744073709551616) :
    ∀ st', wsdStep .c64 g segStart st idx = .ok (some st') → st'.mem.toNat ≤ M + 2199023255552 := by
  intro st' h
  rw [wsdStep_eq] at h
  unfold wsdStepFresh at hfr
  cases hsec : st.lay.secs[idx.toNat]? with
  | none => rw [hsec] at h; simp [throw, throwThe, MonadExceptOf.throw] at h
  | some sec =>
  cases hgen : st.lay.gen[idx.toNat]? with
  | none => rw [hgen] at hfr; simp at hfr
  | some generated =>
  rw [hgen] at hfr
  have hgf : generated = false := by simpa using hfr
  subst hgf
  rw [hsec, hgen] at h
  simp only at h
  by_cases hnull : wsd_is_null sec.stype = true
  · simp only [hnull, if_true, pure, Except.pure, Except.ok.injEq, Option.some.injEq] at h
    subst h; simp only; omega
  · have hnull' : wsd_is_null sec.stype = false := by simpa using hnull
    simp only [hnull', Bool.false_eq_true, if_false] at h
    cases hgap : wsdGap g segStart st.lay.pos st.file sec false with
    | none => rw [hgap] at h; simp [pure, Except.pure] at h
    | some gap =>
      rw [hgap] at h
      simp only [Bool.false_eq_true, if_false, pure, Except.pure, Except.ok.injEq, Option.some.injEq] at h
      subst h
      simp only
      obtain ⟨hsz, hal⟩ := hinv.sz _ sec hsec
      have hgs := wsdGap_small g segStart st.lay.pos st.file sec gap hgap hal
        (hinv.addr g hg idx hidx sec hsec hgen)
      split
      · rw [wsd_mem_add_toNat _ _ _ (by omega)]; omega
      · omega

theorem wsdLoop_mem_small (g : Seg) (segStart : BitVec 64) (l : List (BitVec 16)) (st : WsdSt)
    (B : Nat) (G : List Seg) (hg : g ∈ G) (hl : ∀ idx ∈ l, idx ∈ g.secs)
    (hB : B ≤ 4611686018427387904) (hinv : SmallInv B G st.lay)
    (hfr : wsdLoopAll (fun st idx => wsdStepFresh st idx) .c64 g segStart l st = true)
    (M : Nat) (hm : st.mem.toNat ≤ M) (hM : M + 2199023255552 * l.length < 18446744073709551616) :
    ∀ st', wsdLoop .c64 g segStart l st = .ok (some st') → st'.mem.toNat ≤ M + 2199023255552 * l.length := by
  induction l generalizing st M with
  | nil =>
    intro st' h
    simp only [wsdLoop, pure, Except.pure, Except.ok.injEq, Option.some.injEq] at h
    subst h; omega
  | cons idx rest ih =>
    intro st' h
    simp only [List.length_cons, Nat.mul_add_one, ← Nat.add_assoc] at hM ⊢
    have hi := hl idx (List.mem_cons_self ..)
    have hrest : ∀ j ∈ rest, j ∈ g.secs := fun j hj => hl j (List.mem_cons_of_mem _ hj)
    unfold wsdLoop at h
    unfold wsdLoopAll at hfr
    cases hs : wsdStep .c64 g segStart st idx with
    | error e => rw [hs] at h; simp [bind, Except.bind] at h
    | ok r =>
      rw [hs] at h hfr
      cases r with
      | none => simp [bind, Except.bind, pure, Except.pure] at h
      | some st1 =>
        simp only [bind, Except.bind, Bool.and_eq_true] at h hfr
        have hm1 := wsdStep_mem_small g segStart st idx B G hg hi hinv hfr.1 M hm (by omega) st1 hs
        have hinv1 := (wsdStepNW_of_bound .c64 g segStart st idx B G rfl hg hi hB hinv).2 st1 hs
        have := ih st1 hrest hinv1 hfr.2 (M + 2199023255552) hm1 (by omega) st' h
        omega

/-- the initial `segment_memory` is the PHDR table size, the cursor, or 0 -/
theorem segInit_mem (c : Cls) (hdrPhoff : BitVec 64) (phentsize phnum : BitVec 16) (lay : Layout) (g : Seg)
    (fg : Bool) (r : Layout × BitVec 64 × BitVec 64 × BitVec 64)
    (h : segInit c hdrPhoff phentsize phnum lay g fg = .ok r) :
    r.2.2.1.toNat ≤ lay.pos.toNat + 4294967296 := by
  have hph : (lseg_phdr_size phentsize phnum).toNat ≤ lay.pos.toNat + 4294967296 := by
    have hb := phentsize.isLt; have hc := phnum.isLt
    have hm : phentsize.toNat * phnum.toNat < 65536 * 65536 := Nat.mul_lt_mul'' hb hc
    simp only [Nat.reduceMul] at hm
    simp only [lseg_phdr_size, BitVec.toNat_mul, BitVec.toNat_setWidth, Nat.reducePow]
    rw [Nat.mod_eq_of_lt (show phentsize.toNat < 18446744073709551616 by omega),
        Nat.mod_eq_of_lt (show phnum.toNat < 18446744073709551616 by omega),
        Nat.mod_eq_of_lt (show phentsize.toNat * phnum.toNat < 18446744073709551616 by omega)]
    omega
  unfold segInit at h
  simp only at h
  repeat' split at h
  all_goals first
    | (simp only [pure, Except.pure, Except.ok.injEq] at h; subst h
       first
         | exact hph
         | (simp only; split <;> simp)
         | simp)
    | (simp [throw, throwThe, MonadExceptOf.throw] at h)

/-- one flat segment: the final `p_memsz` stays below `2^63` -/
theorem layoutSegment_mem_small (hdrPhoff : BitVec 64) (phentsize phnum : BitVec 16) (lay : Layout) (g : Seg)
    (B : Nat) (G : List Seg) (hg : g ∈ G) (hal : g.align.toNat < 1099511627776)
    (hB : B + 1099511627776 ≤ 4611686018427387904) (hinv : SmallInv B G lay)
    (hlen : g.secs.length < 65536)
    (hfl : segFlat .c64 hdrPhoff phentsize phnum lay g = true)
    (hms : g.memsz.toNat < 4611686018427387904) :
    ∀ lay' g', layoutSegment .c64 hdrPhoff phentsize phnum lay g = .ok (some (lay', g')) →
      g'.vaddr = g.vaddr ∧ g'.memsz.toNat < 9223372036854775808 := by
  intro lay' g' h
  obtain ⟨fg, r, st, hfg, hin, hloop, -, rfl⟩ := layoutSegment_parts .c64 hdrPhoff phentsize phnum lay lay' g g' h
  unfold segFlat at hfl
  rw [hfg] at hfl
  simp only at hfl
  rw [hin] at hfl
  simp only at hfl
  have hpot := hinv.pot
  obtain ⟨hp1, hp2⟩ := segInit_pos .c64 hdrPhoff phentsize phnum lay g fg r hin hal (by omega)
  have hl := segInit_lay .c64 hdrPhoff phentsize phnum lay g fg r hin
  have hinv1 : SmallInv (B + 1099511627776) G r.1 := by
    rw [hl]
    exact ⟨by simp only; omega, hinv.len, hinv.sz, hinv.addr⟩
  have hm0 := segInit_mem .c64 hdrPhoff phentsize phnum lay g fg r hin
  have hmem := wsdLoop_mem_small g r.2.1 g.secs { lay := r.1, mem := r.2.2.1, file := r.2.2.2 }
    (B + 1099511627776) G hg (fun _ h => h) hB hinv1 hfl 4611686022722355200 (by simp only; omega)
    (by omega) st hloop
  obtain ⟨-, -, f3, f4, -⟩ := segFinish_fields .c64 g r.2.1 st
  refine ⟨f4, ?_⟩
  rw [f3]
  split
  · simp only [truncA]; omega
  · omega

/-- `SmallInv` at every turn of pass 2 -/
theorem segsTrace_small (c : Cls) (hdrPhoff : BitVec 64) (phentsize phnum : BitVec 16) (l : List Seg)
    (lay : Layout) (B : Nat) (G : List Seg) (hc : c = .c64)
    (hl : ∀ g ∈ l, g ∈ G ∧ g.align.toNat < 1099511627776)
    (hB : B + 1099511627776 * l.length ≤ 4611686018427387904) (hinv : SmallInv B G lay) :
    ∀ t ∈ segsTrace c hdrPhoff phentsize phnum l lay, SmallInv (B + 1099511627776 * l.length) G t.lay := by
  induction l generalizing lay B with
  | nil => intro t ht; simp [segsTrace] at ht
  | cons g rest ih =>
    simp only [List.length_cons, Nat.mul_add_one, ← Nat.add_assoc] at hB ⊢
    obtain ⟨hgG, hga⟩ := hl g (List.mem_cons_self ..)
    have hrest : ∀ g' ∈ rest, g' ∈ G ∧ g'.align.toNat < 1099511627776 :=
      fun g' h' => hl g' (List.mem_cons_of_mem _ h')
    intro t ht
    unfold segsTrace at ht
    cases hs : layoutSegment c hdrPhoff phentsize phnum lay g with
    | error e => rw [hs] at ht; simp at ht
    | ok r =>
      rw [hs] at ht
      cases r with
      | none => simp at ht
      | some r =>
        obtain ⟨lay1, g1⟩ := r
        simp only [List.mem_cons] at ht
        rcases ht with rfl | ht
        · exact hinv.mono (by omega)
        · have hinv1 := (segNW_of_bound c hdrPhoff phentsize phnum lay g B G hc hgG hga (by omega) hinv).2 lay1 g1 hs
          exact (ih lay1 (B + 1099511627776) hrest (by omega) hinv1 t ht).mono (by omega)

end Small

/-- input bounds on addresses and offsets (beyond `SmallObject`): addresses and offsets below `2^62`;
    a section with index 0 or of type SHT_NULL (never given an offset by the writer) has offset 0;
    segment `vaddr` below `2^62`, fewer than `2^16` members -/
def SmallAddrs2 (o : Obj) : Prop :=
  (∀ s ∈ o.secs, s.addr.toNat < 4611686018427387904 ∧ s.offset.toNat < 4611686018427387904 ∧
    ((s.index = 0 ∨ wsd_is_null s.stype = true) → s.offset = 0)) ∧
  (∀ g ∈ o.segs, g.vaddr.toNat < 4611686018427387904 ∧ g.secs.length < 65536)

/-- **Section half of `noWrap64InB` from closed-form bounds**: in the result of the layout of a small
    object with small addresses, `addr + size` and `offset + size` of every section stay below `2^64`
    (indeed `addr < 2^63`, `offset ≤ 2^62`, `size < 2^40`). -/
theorem smallObject_sections_noWrap (o : Obj) (h : Bytes) (res : LayoutRes)
    (hl : layoutOf o h = .ok (some res)) (hs : SmallObject o) (ha : SmallAddrs2 o) :
    ∀ b ∈ res.secs, b.addr.toNat + b.size.toNat < 18446744073709551616 ∧
      b.offset.toNat + b.size.toNat < 18446744073709551616 := by
  have hnwAll := smallObject_layoutNW o h hs
  obtain ⟨hc, hnsec, hnseg, hsz, hseg⟩ := hs
  obtain ⟨hsa, hga⟩ := ha
  obtain ⟨-, hpos0, hm, ho, hfold, -, hloose, -⟩ := layoutOf_parts o h res hl
  have hp0 : res.pos0.toNat < 8589934592 := by rw [hpos0]; exact Small.save_cursor0_lt _ _ _
  have hsegs0 := Small.mapM_calcSegAlign_small o.secs (fun s hs => (hsz s hs).2) o.segs res.segs0 hm
    (fun g hg => (hseg g hg).1)
  have hperm := orderedSegments_perm _ _ ho
  have hlen0 : res.segs0.length = o.segs.length := by
    have := congrArg List.length (mapM_calcSegAlign o.secs o.segs res.segs0 hm).1
    simpa using this
  have hlen : res.ordered.length < 65536 := by rw [hperm.length_eq, hlen0]; exact hnseg
  have hinv0 : Small.SmallInv 144115196665790464 res.ordered (lay0Of o res.pos0) := by
    refine ⟨?_, hnsec, ?_, ?_⟩
    · simp only [lay0Of, List.count_replicate_self]
      have := Nat.mod_lt o.secs.length (show 0 < 65536 by decide)
      omega
    · intro k s hk; exact hsz s (List.mem_of_getElem? hk)
    · intro g hg idx hidx s hsx _ has
      obtain ⟨⟨g0, hg0, he⟩, -⟩ := hsegs0 g (hperm.mem_iff.1 hg)
      have hsecs : g.secs = g0.secs := by rw [he]
      have hv : g.vaddr = g0.vaddr := by rw [he]
      rw [hv]
      exact (hseg g0 hg0).2 idx (hsecs ▸ hidx) s hsx has
  have hsi0 : Small.SecInv (lay0Of o res.pos0) := by
    refine ⟨?_, ?_, ?_⟩
    · intro k s hk; have := (hsa s (List.mem_of_getElem? hk)).2.1; omega
    · intro k s hk; have := (hsa s (List.mem_of_getElem? hk)).1; omega
    · intro k s hk hg
      simp only [lay0Of] at hk hg ⊢
      rcases hg with hg | hg
      · exfalso
        rw [List.getElem?_replicate] at hg
        split at hg <;> simp at hg
      · rw [(hsa s (List.mem_of_getElem? hk)).2.2 hg]; simp
  have hlo : ∀ g ∈ res.ordered, g ∈ res.ordered ∧ g.align.toNat < 1099511627776 ∧
      g.vaddr.toNat < 4611686018427387904 ∧ g.secs.length < 65536 := by
    intro g hg
    obtain ⟨⟨g0, hg0, he⟩, hal⟩ := hsegs0 g (hperm.mem_iff.1 hg)
    have hsecs : g.secs = g0.secs := by rw [he]
    have hv : g.vaddr = g0.vaddr := by rw [he]
    rw [hsecs, hv]
    exact ⟨hg, hal, (hga g0 hg0).1, (hga g0 hg0).2⟩
  have hinv2' := (Small.segsNW_of_bound o.cls (Hdr.e_phoff o.cls o.enc res.hdr0)
    (Hdr.e_phentsize o.cls o.enc res.hdr0) (Hdr.e_phnum o.cls o.enc res.hdr0) res.ordered
    (lay0Of o res.pos0) 144115196665790464 res.ordered hc (fun g hg => ⟨(hlo g hg).1, (hlo g hg).2.1⟩)
    (by omega) hinv0).2 [] res.lay2 res.done hfold
  rw [hc] at hfold
  have hsi2 := Small.segsFold_secInv _ _ _ res.ordered (lay0Of o res.pos0) 144115196665790464 res.ordered
    hlo (by omega) hinv0 hsi0 [] res.lay2 res.done hfold
  have hpot2 := hinv2'.pot
  have hlen2 := hinv2'.len
  obtain ⟨hnw3, hpos3⟩ := Small.looseNW_of_bound o.cls res.segs res.lay2.secs 0 res.lay2.pos
    360287978779574272 hc
    (fun s hs => by
      obtain ⟨k, hk⟩ := List.getElem?_of_mem hs
      exact hinv2'.sz k s hk)
    (by omega) (by omega)
  rw [layoutLoose_eq_spec] at hloose
  have hsecs : res.secs = (looseSpec o.cls res.segs res.lay2.secs 0 res.lay2.pos).1 := by
    have := (Prod.mk.inj hloose).1
    simpa using this
  intro b hb
  rw [hsecs] at hb
  obtain ⟨s, hsl, hcase⟩ := Small.looseSpec_mem o.cls res.segs res.lay2.secs 0 res.lay2.pos hnw3 b hb
  obtain ⟨k, hk⟩ := List.getElem?_of_mem hsl
  have h1 := hsi2.off k s hk
  have h2 := hsi2.adr k s hk
  have h3 := (hinv2'.sz k s hk).1
  rcases hcase with rfl | ⟨p, rfl, hp⟩
  · omega
  · rw [hc] at hp hpos3 ⊢
    obtain ⟨a1, -, -, a4⟩ := Small.setOffset_c64 s p
    rw [a1, (setOffset_moved .c64 s p).size]
    rcases a4 with ⟨-, e⟩ | ⟨-, e⟩
    · rw [e]; omega
    · rw [e]; omega

end ElfioVerif
