/-
Bridging lemmas between the regenerated writer sites (Gen/SitesWriter.lean, Gen/SitesC16.lean) that
the model (Model/Writer.lean) calls and the plain expressions the layout / save lemmas reason about.

Every lemma here is `generated site applied to its arguments = the expression the proofs were written
against`; it is proved from the *regenerated* definition (`rfl` / `decide` / BitVec reasoning), so a
change of the C++ condition or computation makes the lemma — and every proof that rewrites with it —
fail to check.  Nothing here is used by the model or the driver.
-/
import ElfioVerif.Model.Writer
namespace ElfioVerif
open Gen

/-! ### `write_segment_data` -/

/-- `else if ( section_generated[index] )` -/
@[simp] theorem wsd_generated_branch_eq (b : Bool) : wsd_generated_branch b = b := rfl
/-- `if ( section_generated[index] ) continue;` -/
@[simp] theorem wsd_generated_skip_eq (b : Bool) : wsd_generated_skip b = b := rfl
/-- `if ( !sec->is_address_initialized() )` -/
@[simp] theorem wsd_addr_missing_eq (b : Bool) : wsd_addr_missing b = !b := rfl
/-- the second `SHT_NOBITS != sec->get_type()` (cursor advance) is the first one (file size) -/
@[simp] theorem wsd_occupies_eq (t : BitVec 32) : wsd_occupies t = wsd_counts_file t := rfl
/-- `Elf_Xword section_align = 0;` -/
@[simp] theorem wsd_gap_default_eq : wsd_gap_default = 0 := by decide
/-- `align = 1;` -/
@[simp] theorem wsd_align_one_eq : wsd_align_one = 1 := by decide

/-! ### `layout_segments_and_their_sections` -/

theorem segMemberCount_pos (n : Nat) :
    BitVec.slt 0#32 (BitVec.setWidth 32 (BitVec.ofNat 16 (min n 65535))) = decide (n > 0) := by
  have h : (BitVec.setWidth 32 (BitVec.ofNat 16 (min n 65535))).toNat = min n 65535 := by
    simp only [BitVec.toNat_setWidth, BitVec.toNat_ofNat, Nat.reducePow]; omega
  have hi : (BitVec.setWidth 32 (BitVec.ofNat 16 (min n 65535))).toInt = ((min n 65535 : Nat) : Int) := by
    rw [BitVec.toInt_eq_toNat_cond, h]; simp only [Nat.reducePow]; split <;> omega
  have h0 : (0#32).toInt = 0 := by decide
  simp only [BitVec.slt, hi, h0]
  by_cases hn : n > 0
  · simp only [hn, decide_true, decide_eq_true_eq]; omega
  · have : n = 0 := by omega
    subst this; decide

/-- `seg->get_sections_num() > 0` (offset-0 special case): the member list is not empty -/
theorem lseg_has_members0_count (g : Seg) :
    lseg_has_members0 (segMemberCount g) = decide (g.secs.length > 0) := segMemberCount_pos _
/-- `else if ( seg->get_sections_num() > 0 )` (nested segment) -/
theorem lseg_has_members_count (g : Seg) :
    lseg_has_members (segMemberCount g) = decide (g.secs.length > 0) := segMemberCount_pos _
/-- `seg->get_sections_num() > 0 && !section_generated[seg->get_section_index_at( 0 )]` -/
theorem lseg_fresh_count (g : Seg) (firstGen : Bool) :
    lseg_fresh (segMemberCount g) firstGen = (decide (g.secs.length > 0) && !firstGen) := by
  unfold lseg_fresh segMemberCount; rw [segMemberCount_pos]

/-! ### `layout_sections_without_segments`, `is_section_without_segment` -/

/-- `current_file_pos += sec->get_size()` is the same computation as in `write_segment_data` -/
@[simp] theorem lsws_advance_eq (p s : BitVec 64) : lsws_advance p s = wsd_advance p s := rfl

/-- `get_section_index_at( k ) == section_index` on the position as the model passes it -/
theorem lsws_found_eq (k : BitVec 16) (i : Nat) :
    lsws_found k (BitVec.ofNat 32 (min i 4294967295)) = (k.toNat == i) := by
  have hk := k.isLt
  have e : (BitVec.setWidth 32 k == BitVec.ofNat 32 (min i 4294967295)) = (k.toNat == i) := by
    rw [Bool.eq_iff_iff, beq_iff_eq, beq_iff_eq, ← BitVec.toNat_inj]
    simp only [BitVec.toNat_setWidth, BitVec.toNat_ofNat, Nat.reducePow]
    omega
  exact e

/-- `is_section_without_segment(i)` in the form the lemmas were written against -/
theorem withoutSegment_eq (segs : List Seg) (i : Nat) :
    withoutSegment segs i = !(segs.any fun g => g.secs.any fun k => k.toNat == i) := by
  unfold withoutSegment lsws_not_found
  simp only [lsws_found_eq]

end ElfioVerif
