/-
Bridging lemmas between the regenerated writer sites (Gen/SitesWriter.lean, Gen/SitesC16.lean) that
the model (Model/Writer.lean) calls and the plain expressions the layout / save lemmas reason about.

Every lemma here is `generated site applied to its arguments = the expression the proofs were written
against`; it is proved from the *regenerated* definition (`rfl` / `decide` / BitVec reasoning), so a
change of the C++ condition or computation makes the lemma — and every proof that rewrites with it —
fail to check.  Nothing here is used by the model or the driver.
-/
import ElfioVerif.Model.Writer
namespace ElfioVerif
open Gen

/-! ### `write_segment_data` -/

/-- `else if ( section_generated[index] )` -/
@[simp] theorem wsd_generated_branch_eq (b : Bool) : wsd_generated_branch b = b := rfl
/-- `if ( section_generated[index] ) continue;` -/
@[simp] theorem wsd_generated_skip_eq (b : Bool) : wsd_generated_skip b = b := rfl
/-- `if ( !sec->is_address_initialized() )` -/
@[simp] theorem wsd_addr_missing_eq (b : Bool) : wsd_addr_missing b = !b := rfl
/-- the second `SHT_NOBITS != sec->get_type()` (cursor advance) is the first one (file size) -/
@[simp] theorem wsd_occupies_eq (t : BitVec 32) : wsd_occupies t = wsd_counts_file t := rfl
/-- `Elf_Xword section_align = 0;` -/
@[simp] theorem wsd_gap_default_eq : wsd_gap_default = 0 := by decide
/-- `align = 1;` -/
@[simp] theorem wsd_align_one_eq : wsd_align_one = 1 := by decide

/-! ### `layout_segments_and_their_sections` -/

theorem segMemberCount_pos (n : Nat) :
    BitVec.slt 0#32 (BitVec.setWidth 32 (BitVec.ofNat 16 (min n 65535))) = decide (n > 0) := by
  have h : (BitVec.setWidth 32 (BitVec.ofNat 16 (min n 65535))).toNat = min n 65535 := by
    simp only [BitVec.toNat_setWidth, BitVec.toNat_ofNat, Nat.reducePow]; omega
  have hi : (BitVec.setWidth 32 (BitVec.ofNat 16 (min n 65535))).toInt = ((min n 65535 : Nat) : Int) := by
    rw [BitVec.toInt_eq_toNat_cond, h]; simp only [Nat.reducePow]; split <;> omega
  have h0 : (0#32).toInt = 0 := by decide
  simp only [BitVec.slt, hi, h0]
  by_cases hn : n > 0
  · simp only [hn, decide_true, decide_eq_true_eq]; omega
  · have : n = 0 := by omega
    subst this; decide

/-- `seg->get_sections_num() > 0` (offset-0 special case): the member list is not empty -/
theorem lseg_has_members0_count (g : Seg) :
    lseg_has_members0 (segMemberCount g) = decide (g.secs.length > 0) := segMemberCount_pos _
/-- `else if ( seg->get_sections_num() > 0 )` (nested segment) -/
theorem lseg_has_members_count (g : Seg) :
    lseg_has_members (segMemberCount g) = decide (g.secs.length > 0) := segMemberCount_pos _
/-- `seg->get_sections_num() > 0 && !section_generated[seg->get_section_index_at( 0 )]` -/
theorem lseg_fresh_count (g : Seg) (firstGen : Bool) :
    lseg_fresh (segMemberCount g) firstGen = (decide (g.secs.length > 0) && !firstGen) := by
  unfold lseg_fresh segMemberCount; rw [segMemberCount_pos]

/-! ### `layout_sections_without_segments`, `is_section_without_segment` -/

/-- `current_file_pos += sec->get_size()` is the same computation as in `write_segment_data` -/
@[simp] theorem lsws_advance_eq (p s : BitVec 64) : lsws_advance p s = wsd_advance p s := rfl

/-- `get_section_index_at( k ) == section_index` on the position as the model passes it -/
theorem lsws_found_eq (k : BitVec 16) (i : Nat) :
    lsws_found k (BitVec.ofNat 32 (min i 4294967295)) = (k.toNat == i) := by
  have hk := k.isLt
  have e : (BitVec.setWidth 32 k == BitVec.ofNat 32 (min i 4294967295)) = (k.toNat == i) := by
    rw [Bool.eq_iff_iff, beq_iff_eq, beq_iff_eq, ← BitVec.toNat_inj]
    simp only [BitVec.toNat_setWidth, BitVec.toNat_ofNat, Nat.reducePow]
    omega
  exact e

/-- `is_section_without_segment(i)` in the form the lemmas were written against -/
theorem withoutSegment_eq (segs : List Seg) (i : Nat) :
    withoutSegment segs i = !(segs.any fun g => g.secs.any fun k => k.toNat == i) := by
  unfold withoutSegment lsws_not_found
  simp only [lsws_found_eq]

/-! ### `calc_segment_alignment`, `get_ordered_segments`, `is_subsequence_of` -/

/-- `sect->get_addr_align() > seg->get_align()` -/
@[simp] theorem save_csa_raise_eq (a g : BitVec 64) : save_csa_raise a g = BitVec.ult g a := rfl
/-- `worklist[nextSlot]->get_offset() == 0` -/
@[simp] theorem save_gos_slot_zero_eq (off : BitVec 64) : save_gos_slot_zero off = (off == 0) := rfl
/-- `i != nextSlot && worklist[i]->is_offset_initialized() && worklist[i]->get_offset() == 0` -/
theorem save_gos_front_eq (i ns : BitVec 64) (s : Bool) (off : BitVec 64) :
    save_gos_front i ns s off = (i != ns && s && off == 0) := rfl
/-- a segment that is not at file offset 0 is never moved to the front -/
theorem save_gos_front_false (i ns : BitVec 64) (s : Bool) (off : BitVec 64) (h : (s && off == 0) = false) :
    save_gos_front i ns s off = false := by
  rw [save_gos_front_eq, Bool.and_assoc, h, Bool.and_false]
/-- `sections1.size() < sections2.size()` -/
@[simp] theorem save_subseq_shorter_eq (a b : BitVec 64) : save_subseq_shorter a b = BitVec.ult a b := rfl

/-! ### `elfio::save` -/

/-- `segments.size() > 0 ? header->get_header_size() : 0` (argument of `set_segments_offset`) on the
    segment count as the model passes it -/
theorem save_phoff_toNat (n : Nat) (eh : BitVec 16) :
    (save_phoff (BitVec.ofNat 16 (n % 65536)) eh).toNat = if n % 65536 > 0 then eh.toNat else 0 := by
  have hlt : n % 65536 < 65536 := Nat.mod_lt _ (by decide)
  have h : (BitVec.setWidth 32 (BitVec.ofNat 16 (n % 65536))).toNat = n % 65536 := by
    simp only [BitVec.toNat_setWidth, BitVec.toNat_ofNat, Nat.reducePow]; omega
  have hi : (BitVec.setWidth 32 (BitVec.ofNat 16 (n % 65536))).toInt = ((n % 65536 : Nat) : Int) := by
    rw [BitVec.toInt_eq_toNat_cond, h]; simp only [Nat.reducePow]; split <;> omega
  have h0 : (0#32).toInt = 0 := by decide
  have he := eh.isLt
  unfold save_phoff
  simp only [BitVec.slt, hi, h0]
  by_cases hn : n % 65536 > 0
  · have : decide ((0 : Int) < ((n % 65536 : Nat) : Int)) = true := by simp only [decide_eq_true_eq]; omega
    simp only [this, if_true, hn]
    have hm : (BitVec.setWidth 32 eh).msb = false := by
      rw [BitVec.msb_eq_decide]
      simp only [BitVec.toNat_setWidth, Nat.reducePow, Nat.reduceSub, decide_eq_false_iff_not]; omega
    rw [BitVec.signExtend_eq_setWidth_of_msb_false hm]
    simp only [BitVec.toNat_setWidth, Nat.reducePow]; omega
  · have : decide ((0 : Int) < ((n % 65536 : Nat) : Int)) = false := by simp only [decide_eq_false_iff_not]; omega
    simp only [this, Bool.false_eq_true, if_false, hn]
    decide

/-- `header->set_sections_offset( 0 )` -/
@[simp] theorem save_shoff0_toNat : save_shoff0.toNat = 0 := by decide

/-- `!stream || header == nullptr` with a header present: the stream's fail state decides -/
theorem save_entry_refused_some {α : Type} (f : Bool) (h : α) : save_entry_refused f (some h).isSome = f := by
  cases f <;> rfl
/-- `!stream || header == nullptr` without a header: refused -/
theorem save_entry_refused_none {α : Type} (f : Bool) : save_entry_refused f (none : Option α).isSome = true := by
  cases f <;> rfl

/-- the three `is_still_good = is_still_good && …` of the write phase -/
@[simp] theorem save_good3_eq (a b : Bool) : save_good3 a b = (a && b) := rfl
@[simp] theorem save_good4_eq (a b : Bool) : save_good4 a b = (a && b) := rfl
@[simp] theorem save_good5_eq (a b : Bool) : save_good5 a b = (a && b) := rfl
/-- the layout passes succeeded: `is_still_good` is true when the header is written -/
@[simp] theorem saveGoodAfterLayout_true : saveGoodAfterLayout true = true := by decide
/-- `layout_segments_and_their_sections` failed: `is_still_good` stays false -/
@[simp] theorem saveGoodAfterLayout_false : saveGoodAfterLayout false = false := by decide
/-- `return is_still_good && !stream.fail()` with `is_still_good = false` -/
@[simp] theorem save_result_false (f : Bool) : save_result false f = false := rfl

/-! ### `section_impl<T>::save` -/

/-- the data of a section are written: both instantiations, in the form the lemmas use -/
theorem secWritesData_eq (c : Cls) (b : SecBuf) :
    secWritesData c b =
      (b.stype != BitVec.ofNat 32 SHT_NOBITS && b.stype != BitVec.ofNat 32 SHT_NULL && b.size != 0 && b.data.isSome) := by
  have hn : (!b.data.isNone) = b.data.isSome := by cases b.data <;> rfl
  have h0 : (BitVec.signExtend 64 0#32 : BitVec 64) = 0 := by decide
  cases c <;> simp only [secWritesData, save_sec_writes_data, save_sec_writes_data32, hn, h0]

/-- `get_data()` is requested -/
theorem secWantsData_eq (c : Cls) (b : SecBuf) :
    secWantsData c b =
      (b.stype != BitVec.ofNat 32 SHT_NOBITS && b.stype != BitVec.ofNat 32 SHT_NULL && b.size != 0) := by
  have h0 : (BitVec.signExtend 64 0#32 : BitVec 64) = 0 := by decide
  cases c <;> simp only [secWantsData, save_sec_wants_data, save_sec_wants_data32, h0]

/-! ### `segment_impl<T>::add_section_index` -/

/-- `addr_align > get_align()` -/
@[simp] theorem save_segadd_raise_eq (a g : BitVec 64) : save_segadd_raise a g = BitVec.ult g a := rfl
/-- both instantiations of `segment_impl` test the same condition (the model calls the ELF64 one) -/
theorem save_segadd_raise32_eq (a g : BitVec 64) : save_segadd_raise32 a g = save_segadd_raise a g := rfl

/-! ### `if ( 0 != sec->get_index() ) sec->set_offset( … )` -/

theorem wsd_index_nonzero_half (b : SecBuf) : wsd_index_nonzero (secIndexHalf b) = (b.index != 0) := by
  have h : (BitVec.setWidth 32 (BitVec.ofNat 16 (min b.index 65535))).toNat = min b.index 65535 := by
    simp only [BitVec.toNat_setWidth, BitVec.toNat_ofNat, Nat.reducePow]; omega
  unfold wsd_index_nonzero secIndexHalf
  rw [Bool.eq_iff_iff, bne_iff_ne, bne_iff_ne, ne_eq, ne_eq, ← BitVec.toNat_inj, h]
  simp only [BitVec.toNat_ofNat, Nat.reducePow, Nat.zero_mod]
  omega

/-- `set_offset` guarded by the section index, in the form the lemmas were written against -/
theorem setOffset_eq (c : Cls) (b : SecBuf) (v : BitVec 64) :
    setOffset c b v = if b.index != 0 then { b with offset := truncA c v } else b := by
  unfold setOffset; rw [wsd_index_nonzero_half]

/-- `layout_sections_without_segments` guards `set_offset` with the same test as `write_segment_data` -/
@[simp] theorem setOffsetLoose_eq (c : Cls) (b : SecBuf) (v : BitVec 64) : setOffsetLoose c b v = setOffset c b v := rfl

end ElfioVerif
