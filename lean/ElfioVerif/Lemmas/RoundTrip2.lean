/-
save ∘ load ∘ save with segments : a congruence of `save` under the loader's re-representation.

The object `load` yields from the bytes of a successful `save` differs from the saved object in three
ways that `save` cannot observe:
 * A. segments carry other *auxiliary* fields (`data`, `isLazy`, `isLoaded`, `streamSize`) — `save`
   never reads them (`reAux`: re-labelling of those fields by segment index; every pass commutes with
   it: `calcSegAlign_reAux`, `layoutSegment_reAux`, `saveFold_reAux`, `putBack_reAux`, …);
 * B. sections carry other data-side fields (resident copy of the file bytes, name, stream
   bookkeeping) and every address counts as set — the layout passes read a section only through its
   header fields and `addrSet`, and `addrSet` only of *members of segments* (`LRel S`: `OutRel` of
   Lemmas/RoundTrip.lean pointwise, plus equal `addrSet` on the index set `S`); lock-step ladder
   `stepCore_rel` → `wsdStep_rel` → `wsdLoop_rel` → `segStartOf_rel` → `layoutSegment_rel` →
   `saveFold_rel`, then `saveTail_rel` for the loose-section pass and the write phase;
 * the loader marks every segment offset as initialised (`load_segs_offsetSet`).
`save_congr` puts A and B together: if `save Y os` succeeds, `save X os` succeeds with the same stream.
-/
import ElfioVerif.Lemmas.RoundTrip
import ElfioVerif.Lemmas.LayoutNested2
import ElfioVerif.Props.C06Runs
set_option linter.unusedSimpArgs false
namespace ElfioVerif.RoundTrip
open ElfioVerif Gen Sv

/-! ### A. the auxiliary fields of a segment -/

/-- the fields of a segment that `save` never reads -/
structure SegAux where
  data : Option Bytes := none
  isLazy : Bool := false
  isLoaded : Bool := false
  streamSize : BitVec 64 := 0

/-- give every segment the auxiliary fields `aux` lists for its index -/
def reAux (aux : Nat → SegAux) (g : Seg) : Seg :=
  { g with data := (aux g.index).data, isLazy := (aux g.index).isLazy, isLoaded := (aux g.index).isLoaded,
           streamSize := (aux g.index).streamSize }

theorem calcSegAlign_fold_reAux (aux : Nat → SegAux) (secs : List SecBuf) (l : List (BitVec 16)) (g g' : Seg)
    (h : l.foldlM (fun g idx =>
      match secs[idx.toNat]? with
      | none => (throw (Fault.vecOob "calc_segment_alignment/sections_[index]") : M Seg)
      | some s => pure (if save_csa_raise s.addrAlign g.align then { g with align := s.addrAlign } else g)) g = .ok g') :
    l.foldlM (fun g idx =>
      match secs[idx.toNat]? with
      | none => (throw (Fault.vecOob "calc_segment_alignment/sections_[index]") : M Seg)
      | some s => pure (if save_csa_raise s.addrAlign g.align then { g with align := s.addrAlign } else g))
      (reAux aux g) = .ok (reAux aux g') := by
  induction l generalizing g with
  | nil => simp only [List.foldlM_nil, pure, Except.pure, Except.ok.injEq] at h ⊢; rw [h]
  | cons idx rest ih =>
    simp only [List.foldlM_cons, bind, Except.bind] at h ⊢
    cases hs : secs[idx.toNat]? with
    | none => rw [hs] at h; cases h
    | some s =>
      rw [hs] at h
      simp only [pure, Except.pure] at h ⊢
      have := ih _ h
      by_cases hc : save_csa_raise s.addrAlign g.align = true
      · rw [if_pos hc] at this
        rw [if_pos (show save_csa_raise s.addrAlign (reAux aux g).align = true from hc)]
        exact this
      · rw [if_neg hc] at this
        rw [if_neg (show ¬ save_csa_raise s.addrAlign (reAux aux g).align = true from hc)]
        exact this

theorem calcSegAlign_reAux (aux : Nat → SegAux) {secs : List SecBuf} {g g' : Seg}
    (h : calcSegAlign secs g = .ok g') : calcSegAlign secs (reAux aux g) = .ok (reAux aux g') :=
  calcSegAlign_fold_reAux aux secs g.secs g g' h

theorem mapM_calcSegAlign_reAux (aux : Nat → SegAux) {secs : List SecBuf} {segs segs1 : List Seg}
    (h : segs.mapM (calcSegAlign secs) = .ok segs1) :
    (segs.map (reAux aux)).mapM (calcSegAlign secs) = .ok (segs1.map (reAux aux)) := by
  induction segs generalizing segs1 with
  | nil => simp only [List.mapM_nil, pure, Except.pure, Except.ok.injEq] at h; subst h; rfl
  | cons g rest ih =>
    simp only [List.mapM_cons, bind, Except.bind, List.map_cons] at h ⊢
    cases hg : calcSegAlign secs g with
    | error e => rw [hg] at h; cases h
    | ok g' =>
      rw [hg] at h
      cases hr : rest.mapM (calcSegAlign secs) with
      | error e => rw [hr] at h; cases h
      | ok r' =>
        rw [hr] at h
        simp only [pure, Except.pure, Except.ok.injEq] at h
        subst h
        rw [calcSegAlign_reAux aux hg, ih hr]
        rfl

theorem wsdStep_congr_seg {c : Cls} {g g' : Seg} (hv : g'.vaddr = g.vaddr) (ht : g'.stype = g.stype)
    (ss : BitVec 64) (st : WsdSt) (idx : BitVec 16) : wsdStep c g' ss st idx = wsdStep c g ss st idx := by
  rw [Sv.wsdStep_eq, Sv.wsdStep_eq]
  cases st.lay.secs[idx.toNat]? with
  | none => rfl
  | some sec =>
    cases st.lay.gen[idx.toNat]? with
    | none => rfl
    | some gen => simp only [C06.stepCore_congr_seg hv ht]

theorem wsdLoop_congr_seg {c : Cls} {g g' : Seg} (hv : g'.vaddr = g.vaddr) (ht : g'.stype = g.stype)
    (ss : BitVec 64) (l : List (BitVec 16)) (st : WsdSt) : wsdLoop c g' ss l st = wsdLoop c g ss l st := by
  induction l generalizing st with
  | nil => rfl
  | cons idx rest ih =>
    simp only [wsdLoop, wsdStep_congr_seg hv ht]
    apply bind_congr
    intro r
    cases r with
    | none => rfl
    | some st' => exact ih st'

theorem segFinish_reAux (aux : Nat → SegAux) (c : Cls) (g : Seg) (ss : BitVec 64) (st : WsdSt) :
    Sv.segFinish c (reAux aux g) ss st = reAux aux (Sv.segFinish c g ss st) := by
  unfold Sv.segFinish
  simp only
  by_cases h : lseg_memsz_lt g.memsz st.mem = true
  · rw [if_pos h, if_pos (show lseg_memsz_lt (reAux aux g).memsz st.mem = true from h)]; rfl
  · rw [if_neg h, if_neg (show ¬ lseg_memsz_lt (reAux aux g).memsz st.mem = true from h)]; rfl

theorem segStartOf_reAux (aux : Nat → SegAux) (phoff : BitVec 64) (pe pn : BitVec 16) (lay : Layout) (g : Seg) :
    segStartOf phoff pe pn lay (reAux aux g) = segStartOf phoff pe pn lay g := rfl

theorem layoutSegment_reAux (aux : Nat → SegAux) {c : Cls} {phoff : BitVec 64} {pe pn : BitVec 16}
    {lay lay' : Layout} {g d : Seg} (h : layoutSegment c phoff pe pn lay g = .ok (some (lay', d))) :
    layoutSegment c phoff pe pn lay (reAux aux g) = .ok (some (lay', reAux aux d)) := by
  obtain ⟨p, st, s1, w1, rfl, rfl⟩ := layoutSegment_ok h
  rw [Sv.layoutSegment_eq, segStartOf_reAux, s1]
  simp only [bind, Except.bind]
  rw [show (reAux aux g).secs = g.secs from rfl, wsdLoop_congr_seg (g' := reAux aux g) (g := g) rfl rfl, w1]
  simp only [pure, Except.pure]
  rw [segFinish_reAux]

theorem saveFold_reAux (aux : Nat → SegAux) {c : Cls} {e : Enc} {h0 : Bytes} (ordered : List Seg)
    {lay0 lay : Layout} {done0 done : List Seg}
    (h : ordered.foldlM (saveStep c e h0) (some (lay0, done0)) = .ok (some (lay, done))) :
    (ordered.map (reAux aux)).foldlM (saveStep c e h0) (some (lay0, done0.map (reAux aux))) =
      .ok (some (lay, done.map (reAux aux))) := by
  induction ordered generalizing lay0 done0 with
  | nil =>
    simp only [List.foldlM_nil, pure, Except.pure, Except.ok.injEq, Option.some.injEq, Prod.mk.injEq] at h
    obtain ⟨rfl, rfl⟩ := h
    rfl
  | cons g rest ih =>
    simp only [List.map_cons, List.foldlM_cons, saveStep, bind, Except.bind] at h ⊢
    cases h1 : layoutSegment c (Hdr.e_phoff c e h0) (Hdr.e_phentsize c e h0) (Hdr.e_phnum c e h0) lay0 g with
    | error err => rw [h1] at h; cases h
    | ok r =>
      rw [h1] at h
      cases r with
      | none =>
        simp only [pure, Except.pure] at h
        rw [saveFold_none] at h; cases h
      | some p =>
        obtain ⟨lay1, d⟩ := p
        simp only [pure, Except.pure] at h
        rw [layoutSegment_reAux aux h1]
        simp only [pure, Except.pure]
        have := ih h
        simp only [List.map_append, List.map_cons, List.map_nil] at this
        exact this

theorem backFn_reAux (aux : Nat → SegAux) (done : List Seg) (g : Seg) :
    backFn (done.map (reAux aux)) (reAux aux g) = reAux aux (backFn done g) := by
  unfold backFn
  rw [List.find?_map]
  have : ((fun d : Seg => d.index == (reAux aux g).index) ∘ reAux aux) = fun d => d.index == g.index := by
    funext d; rfl
  rw [this]
  cases done.find? (fun d => d.index == g.index) <;> rfl

theorem putBack_reAux (aux : Nat → SegAux) (segs done : List Seg) :
    putBack (segs.map (reAux aux)) (done.map (reAux aux)) = (putBack segs done).map (reAux aux) := by
  rw [putBack_eq_map, putBack_eq_map, List.map_map, List.map_map]
  apply List.map_congr_left
  intro g _
  exact backFn_reAux aux done g

theorem withoutSegment_reAux (aux : Nat → SegAux) (segs : List Seg) (i : Nat) :
    withoutSegment (segs.map (reAux aux)) i = withoutSegment segs i := by
  apply withoutSegment_congr
  rw [List.map_map]
  rfl

theorem looseSpec_congr_segs (c : Cls) {segs segs' : List Seg}
    (h : ∀ i, withoutSegment segs' i = withoutSegment segs i) (l : List SecBuf) (i : Nat) (pos : BitVec 64) :
    Sv.looseSpec c segs' l i pos = Sv.looseSpec c segs l i pos := by
  induction l generalizing i pos with
  | nil => rfl
  | cons s rest ih =>
    by_cases hw : withoutSegment segs i = true
    · rw [Sv.looseSpec_cons_true c segs s rest i pos hw, Sv.looseSpec_cons_true c segs' s rest i pos (by rw [h i]; exact hw)]
      simp only [ih]
    · rw [Sv.looseSpec_cons_false c segs s rest i pos hw, Sv.looseSpec_cons_false c segs' s rest i pos (by rw [h i]; exact hw)]
      simp only [ih]

theorem saveSegment_reAux (aux : Nat → SegAux) (c : Cls) (enc : Enc) (phoff : BitVec 64) (pe : BitVec 16)
    (os : OStream) (g : Seg) : saveSegment c enc phoff pe os (reAux aux g) = saveSegment c enc phoff pe os g := by
  unfold saveSegment encodePhdr
  cases c <;> rfl

theorem foldl_saveSegment_reAux (aux : Nat → SegAux) (c : Cls) (enc : Enc) (phoff : BitVec 64) (pe : BitVec 16)
    (segs : List Seg) (os : OStream) :
    (segs.map (reAux aux)).foldl (saveSegment c enc phoff pe) os = segs.foldl (saveSegment c enc phoff pe) os := by
  rw [List.foldl_map]
  congr 1

/-! ### B. sections : what the layout passes read -/

/-- `lx` and `ly` are laid out and written alike: pointwise `OutRel`, and equal `addrSet` on the
    index set `S` (the members of segments) -/
def LRel (S : Nat → Prop) (lx ly : List SecBuf) : Prop :=
  lx.length = ly.length ∧
  ∀ (i : Nat) x y, lx[i]? = some x → ly[i]? = some y →
    OutRel x y ∧ (S i → wsd_is_null y.stype = false → x.addrSet = y.addrSet)

theorem LRel.all2 {S : Nat → Prop} {lx ly : List SecBuf} (h : LRel S lx ly) : All2 OutRel lx ly :=
  all2_of_getElem? lx ly h.1 (fun i x y hx hy => (h.2 i x y hx hy).1)

theorem LRel.set {S : Nat → Prop} {lx ly : List SecBuf} (h : LRel S lx ly) (i : Nat) {s s' : SecBuf}
    (hs : OutRel s s') (ha : s.addrSet = s'.addrSet) : LRel S (lx.set i s) (ly.set i s') := by
  refine ⟨by simp [h.1], fun j x y hx hy => ?_⟩
  rw [List.getElem?_set] at hx hy
  by_cases e : i = j
  · rw [if_pos e] at hx hy
    by_cases h1 : i < lx.length
    · rw [if_pos h1] at hx
      rw [if_pos (by rw [← h.1]; exact h1)] at hy
      cases hx; cases hy
      exact ⟨hs, fun _ _ => ha⟩
    · rw [if_neg h1] at hx; cases hx
  · rw [if_neg e] at hx hy
    exact h.2 j x y hx hy

theorem LRel.none {S : Nat → Prop} {lx ly : List SecBuf} (h : LRel S lx ly) {i : Nat} (hx : lx[i]? = none) :
    ly[i]? = none := by
  rw [List.getElem?_eq_none_iff] at hx ⊢
  rw [← h.1]; exact hx

theorem LRel.some {S : Nat → Prop} {lx ly : List SecBuf} (h : LRel S lx ly) {i : Nat} {x : SecBuf}
    (hx : lx[i]? = some x) :
    ∃ y, ly[i]? = some y ∧ OutRel x y ∧ (S i → wsd_is_null y.stype = false → x.addrSet = y.addrSet) := by
  have hi : i < ly.length := by rw [← h.1]; exact getElem?_lt hx
  exact ⟨ly[i], List.getElem?_eq_getElem hi, h.2 i x _ hx (List.getElem?_eq_getElem hi)⟩

theorem stepGap_rel {x y : SecBuf} (h : OutRel x y) (gen : Bool) (ha : gen = false → x.addrSet = y.addrSet)
    (g : Seg) (ss pos file : BitVec 64) : stepGap g ss x gen pos file = stepGap g ss y gen pos file := by
  unfold stepGap
  cases gen with
  | true =>
    simp only [wsd_addr_branch, wsd_align_branch, Bool.not_true, Bool.false_and, Bool.false_eq_true, if_false,
      if_true, h.offset]
  | false => simp only [ha rfl, h.stype, h.size, h.addr, h.addrAlign, h.offset]

theorem OutRel.place {x y : SecBuf} (h : OutRel x y) (ha : x.addrSet = y.addrSet) (c : Cls) (g : Seg)
    (ss p : BitVec 64) : OutRel (stepPlace c g ss x p) (stepPlace c g ss y p) ∧
      (stepPlace c g ss x p).addrSet = (stepPlace c g ss y p).addrSet := by
  rw [stepPlace_eq, stepPlace_eq]
  refine ⟨⟨h.settledX, h.settledY, h.index, h.nameOff, h.stype, h.flags, ?_, ?_, h.size, h.link, h.info,
    h.addrAlign, h.entSize, h.written, h.data⟩, rfl⟩
  · show (if x.addrSet = true then x.addr else _) = (if y.addrSet = true then y.addr else _)
    rw [ha, h.addr]
  · show (if (x.index != 0) = true then _ else x.offset) = (if (y.index != 0) = true then _ else y.offset)
    rw [h.index, h.offset]

/-- the outcomes of one step on two related sections -/
inductive StepRel : StepOut → StepOut → Prop
  | abort : StepRel .abort .abort
  | null : StepRel .null .null
  | counted (m f : BitVec 64) : StepRel (.counted m f) (.counted m f)
  | placed {s s' : SecBuf} (p m f : BitVec 64) : OutRel s s' → s.addrSet = s'.addrSet →
      StepRel (.placed s p m f) (.placed s' p m f)

theorem stepCore_rel {x y : SecBuf} (h : OutRel x y) (gen : Bool)
    (ha : gen = false → wsd_is_null y.stype = false → x.addrSet = y.addrSet)
    (c : Cls) (g : Seg) (ss pos mem file : BitVec 64) :
    StepRel (stepCore c g ss x gen pos mem file) (stepCore c g ss y gen pos mem file) := by
  unfold stepCore
  rw [h.stype, h.flags, h.size]
  by_cases hn : wsd_is_null y.stype = true
  · rw [if_pos hn, if_pos hn]; exact .null
  · rw [if_neg hn, if_neg hn]
    have hn' : wsd_is_null y.stype = false := by simpa using hn
    have ha : gen = false → x.addrSet = y.addrSet := fun e => ha e hn'
    rw [stepGap_rel h gen ha]
    cases stepGap g ss y gen pos file with
    | none => exact .abort
    | some gap =>
      simp only
      cases gen with
      | true => simp only [if_true]; exact .counted _ _
      | false =>
        simp only [Bool.false_eq_true, if_false]
        obtain ⟨r1, r2⟩ := h.place (ha rfl) c g ss (wsd_cursor_gap pos gap)
        exact .placed _ _ _ r1 r2

structure LayRel (S : Nat → Prop) (l1 l2 : Layout) : Prop where
  secs : LRel S l1.secs l2.secs
  pos : l1.pos = l2.pos
  gen : l1.gen = l2.gen

def StRel (S : Nat → Prop) (s1 s2 : WsdSt) : Prop :=
  LayRel S s1.lay s2.lay ∧ s1.mem = s2.mem ∧ s1.file = s2.file

theorem wsdStep_rel {S : Nat → Prop} {c : Cls} {g : Seg} {ss : BitVec 64} {st1 st2 : WsdSt} {idx : BitVec 16}
    (hS : S idx.toNat) (ha : StRel S st1 st2) :
    RelM (StRel S) (wsdStep c g ss st1 idx) (wsdStep c g ss st2 idx) := by
  obtain ⟨⟨hsec, hp, hgen⟩, hm, hf⟩ := ha
  rw [Sv.wsdStep_eq, Sv.wsdStep_eq, ← hgen, ← hp, ← hm, ← hf]
  cases hs1 : st1.lay.secs[idx.toNat]? with
  | none => rw [hsec.none hs1]; exact rfl
  | some x =>
    obtain ⟨y, hs2, hxy, hset⟩ := hsec.some hs1
    rw [hs2]
    cases hg : st1.lay.gen[idx.toNat]? with
    | none => exact rfl
    | some gen =>
      simp only [pure, Except.pure]
      have hr := stepCore_rel hxy gen (fun _ hn => hset hS hn) c g ss st1.lay.pos st1.mem st1.file
      generalize stepCore c g ss x gen st1.lay.pos st1.mem st1.file = o1 at hr
      generalize stepCore c g ss y gen st1.lay.pos st1.mem st1.file = o2 at hr
      cases hr with
      | abort => exact trivial
      | null => exact ⟨⟨hsec, hp, by simp only; rw [hgen]⟩, hm, hf⟩
      | counted m f => exact ⟨⟨hsec, hp, hgen⟩, rfl, rfl⟩
      | placed p m f r1 r2 => exact ⟨⟨hsec.set _ r1 r2, rfl, by simp only; rw [hgen]⟩, rfl, rfl⟩

theorem wsdLoop_rel {S : Nat → Prop} {c : Cls} {g : Seg} {ss : BitVec 64} (l : List (BitVec 16))
    (hl : ∀ idx ∈ l, S idx.toNat) {st1 st2 : WsdSt} (ha : StRel S st1 st2) :
    RelM (StRel S) (wsdLoop c g ss l st1) (wsdLoop c g ss l st2) := by
  induction l generalizing st1 st2 with
  | nil => exact ha
  | cons idx rest ih =>
    have hstep := wsdStep_rel (c := c) (g := g) (ss := ss) (hl idx List.mem_cons_self) ha
    simp only [wsdLoop, bind, Except.bind]
    cases h1 : wsdStep c g ss st1 idx with
    | error e1 =>
      cases h2 : wsdStep c g ss st2 idx with
      | error e2 => rw [h1, h2] at hstep; exact hstep
      | ok r2 => rw [h1, h2] at hstep; cases r2 <;> exact hstep.elim
    | ok r1 =>
      cases h2 : wsdStep c g ss st2 idx with
      | error e2 => rw [h1, h2] at hstep; cases r1 <;> exact hstep.elim
      | ok r2 =>
        rw [h1, h2] at hstep
        cases r1 with
        | none => cases r2 with
          | none => exact trivial
          | some b => exact hstep.elim
        | some a => cases r2 with
          | none => exact hstep.elim
          | some b => exact ih (fun i hi => hl i (List.mem_cons_of_mem _ hi)) hstep

theorem segStartOf_rel {S : Nat → Prop} {phoff : BitVec 64} {pe pn : BitVec 16} {l1 l2 : Layout} {g : Seg}
    (ha : LayRel S l1 l2) :
    RelM1 (fun p1 p2 => LayRel S p1.1 p2.1 ∧ p1.2 = p2.2)
      (segStartOf phoff pe pn l1 g) (segStartOf phoff pe pn l2 g) := by
  unfold segStartOf
  rw [← ha.gen, ← ha.pos]
  cases hh : g.secs.head? with
  | none =>
    simp only [pure_bind]
    by_cases h1 : lseg_is_phdr g.stype (BitVec.ofNat 16 g.secs.length) = true
    · simp only [h1, if_true]; exact ⟨ha, rfl⟩
    · simp only [h1, if_false]
      by_cases h2 : lseg_offset0 g.offsetSet g.offset = true
      · simp only [h2, if_true]; exact ⟨ha, rfl⟩
      · simp only [h2, if_false]
        by_cases h3 : (decide (g.secs.length > 0) && !false) = true
        · simp only [h3, if_true]
          exact ⟨⟨ha.secs, rfl, rfl⟩, rfl⟩
        · simp only [h3, if_false]
          by_cases h4 : g.secs.length > 0
          · simp only [h4, if_true]; exact ⟨ha, rfl⟩
          · simp only [h4, if_false]; exact ⟨ha, rfl⟩
  | some f =>
    simp only
    cases hg : l1.gen[f.toNat]? with
    | none => exact rfl
    | some b =>
      simp only [pure_bind]
      by_cases h1 : lseg_is_phdr g.stype (BitVec.ofNat 16 g.secs.length) = true
      · simp only [h1, if_true]; exact ⟨ha, rfl⟩
      · simp only [h1, if_false]
        by_cases h2 : lseg_offset0 g.offsetSet g.offset = true
        · simp only [h2, if_true]; exact ⟨ha, rfl⟩
        · simp only [h2, if_false]
          by_cases h3 : (decide (g.secs.length > 0) && !b) = true
          · simp only [h3, if_true]
            exact ⟨⟨ha.secs, rfl, rfl⟩, rfl⟩
          · simp only [h3, if_false]
            by_cases h4 : g.secs.length > 0
            · simp only [h4, if_true]
              cases hs : l1.secs[f.toNat]? with
              | none => rw [ha.secs.none hs]; exact rfl
              | some s =>
                obtain ⟨s', hs', hr, -⟩ := ha.secs.some hs
                rw [hs']
                exact ⟨ha, by rw [hr.offset]⟩
            · simp only [h4, if_false]; exact ⟨ha, rfl⟩

theorem layoutSegment_rel {S : Nat → Prop} {c : Cls} {phoff : BitVec 64} {pe pn : BitVec 16} {l1 l2 : Layout}
    {g : Seg} (hS : ∀ idx ∈ g.secs, S idx.toNat) (ha : LayRel S l1 l2) :
    RelM (fun p1 p2 => LayRel S p1.1 p2.1 ∧ p1.2 = p2.2)
      (layoutSegment c phoff pe pn l1 g) (layoutSegment c phoff pe pn l2 g) := by
  rw [Sv.layoutSegment_eq, Sv.layoutSegment_eq]
  have h0 := segStartOf_rel (phoff := phoff) (pe := pe) (pn := pn) (g := g) ha
  simp only [bind, Except.bind]
  cases e1 : segStartOf phoff pe pn l1 g with
  | error x1 =>
    cases e2 : segStartOf phoff pe pn l2 g with
    | error x2 => rw [e1, e2] at h0; exact h0
    | ok p2 => rw [e1, e2] at h0; exact h0.elim
  | ok p1 =>
    cases e2 : segStartOf phoff pe pn l2 g with
    | error x2 => rw [e1, e2] at h0; exact h0.elim
    | ok p2 =>
      rw [e1, e2] at h0
      obtain ⟨a1, a2⟩ := h0
      simp only
      have hss : p1.2.1 = p2.2.1 := by rw [a2]
      have hm : p1.2.2.1 = p2.2.2.1 := by rw [a2]
      have hf : p1.2.2.2 = p2.2.2.2 := by rw [a2]
      have hl := wsdLoop_rel (c := c) (g := g) (ss := p1.2.1) g.secs hS
        (st1 := { lay := p1.1, mem := p1.2.2.1, file := p1.2.2.2 })
        (st2 := { lay := p2.1, mem := p2.2.2.1, file := p2.2.2.2 }) ⟨a1, hm, hf⟩
      rw [← hss]
      cases w1 : wsdLoop c g p1.2.1 g.secs { lay := p1.1, mem := p1.2.2.1, file := p1.2.2.2 } with
      | error x1 =>
        cases w2 : wsdLoop c g p1.2.1 g.secs { lay := p2.1, mem := p2.2.2.1, file := p2.2.2.2 } with
        | error x2 => rw [w1, w2] at hl; exact hl
        | ok r2 => rw [w1, w2] at hl; cases r2 <;> exact hl.elim
      | ok r1 =>
        cases w2 : wsdLoop c g p1.2.1 g.secs { lay := p2.1, mem := p2.2.2.1, file := p2.2.2.2 } with
        | error x2 => rw [w1, w2] at hl; cases r1 <;> exact hl.elim
        | ok r2 =>
          rw [w1, w2] at hl
          cases r1 with
          | none => cases r2 with
            | none => exact trivial
            | some b => exact hl.elim
          | some a => cases r2 with
            | none => exact hl.elim
            | some b =>
              obtain ⟨b1, b2, b3⟩ := hl
              refine ⟨b1, ?_⟩
              show Sv.segFinish c g p1.2.1 a = Sv.segFinish c g p1.2.1 b
              unfold Sv.segFinish
              rw [b2, b3]

theorem saveFold_rel {S : Nat → Prop} {c : Cls} {e : Enc} {h0 : Bytes} (ordered : List Seg)
    (hS : ∀ g ∈ ordered, ∀ idx ∈ g.secs, S idx.toNat) {l1 l2 : Layout} (ha : LayRel S l1 l2) (done : List Seg) :
    RelM (fun p1 p2 => LayRel S p1.1 p2.1 ∧ p1.2 = p2.2)
      (ordered.foldlM (saveStep c e h0) (some (l1, done))) (ordered.foldlM (saveStep c e h0) (some (l2, done))) := by
  induction ordered generalizing l1 l2 done with
  | nil => exact ⟨ha, rfl⟩
  | cons g rest ih =>
    have hl := layoutSegment_rel (c := c) (phoff := Hdr.e_phoff c e h0) (pe := Hdr.e_phentsize c e h0)
      (pn := Hdr.e_phnum c e h0) (hS g List.mem_cons_self) ha
    simp only [List.foldlM_cons, saveStep, bind, Except.bind]
    cases w1 : layoutSegment c (Hdr.e_phoff c e h0) (Hdr.e_phentsize c e h0) (Hdr.e_phnum c e h0) l1 g with
    | error x1 =>
      cases w2 : layoutSegment c (Hdr.e_phoff c e h0) (Hdr.e_phentsize c e h0) (Hdr.e_phnum c e h0) l2 g with
      | error x2 => rw [w1, w2] at hl; exact hl
      | ok r2 => rw [w1, w2] at hl; cases r2 <;> exact hl.elim
    | ok r1 =>
      cases w2 : layoutSegment c (Hdr.e_phoff c e h0) (Hdr.e_phentsize c e h0) (Hdr.e_phnum c e h0) l2 g with
      | error x2 => rw [w1, w2] at hl; cases r1 <;> exact hl.elim
      | ok r2 =>
        rw [w1, w2] at hl
        cases r1 with
        | none => cases r2 with
          | none =>
            simp only [pure, Except.pure]
            rw [saveFold_none]; exact trivial
          | some b => exact hl.elim
        | some a => cases r2 with
          | none => exact hl.elim
          | some b =>
            obtain ⟨b1, b2⟩ := hl
            simp only [pure, Except.pure]
            rw [b2]
            exact ih (fun g' hg' => hS g' (List.mem_cons_of_mem _ hg')) b1 _

/-- the alignment pass reads a section only through its alignment -/
theorem calcSegAlign_rel {secs secs' : List SecBuf} {g : Seg}
    (h : ∀ idx ∈ g.secs, (secs'[idx.toNat]?).map (·.addrAlign) = (secs[idx.toNat]?).map (·.addrAlign)) :
    calcSegAlign secs' g = calcSegAlign secs g := by
  unfold calcSegAlign
  generalize g.secs = l at h
  induction l generalizing g with
  | nil => rfl
  | cons idx rest ih =>
    simp only [List.foldlM_cons]
    have hi := h idx List.mem_cons_self
    cases h1 : secs'[idx.toNat]? with
    | none =>
      cases h2 : secs[idx.toNat]? with
      | none => rfl
      | some s => rw [h1, h2] at hi; cases hi
    | some s' =>
      cases h2 : secs[idx.toNat]? with
      | none => rw [h1, h2] at hi; cases hi
      | some s =>
        rw [h1, h2] at hi
        simp only [Option.map_some, Option.some.injEq] at hi
        simp only [hi]
        apply bind_congr
        intro g'
        exact ih (fun i hi' => h i (List.mem_cons_of_mem _ hi'))

/-- the stream and the result flag of the tail of `save` depend on the sections only through `OutRel`,
    and not on the auxiliary fields of the segments -/
theorem saveTail_rel {X Y : Obj} (hc : X.cls = Y.cls) (he : X.enc = Y.enc) (ht : X.trans = Y.trans)
    (os : OStream) (h0 : Bytes) (aux : Nat → SegAux) (segs1 done : List Seg) {layX layY : Layout}
    (hrel : All2 OutRel layX.secs layY.secs) (hpos : layX.pos = layY.pos) :
    (saveTail X os h0 (segs1.map (reAux aux)) layX (done.map (reAux aux))).os = (saveTail Y os h0 segs1 layY done).os ∧
    (saveTail X os h0 (segs1.map (reAux aux)) layX (done.map (reAux aux))).ok = (saveTail Y os h0 segs1 layY done).ok := by
  unfold saveTail
  simp only
  rw [Sv.layoutLoose_eq, Sv.layoutLoose_eq, hc, he, hpos, putBack_reAux,
    looseSpec_congr_segs Y.cls (withoutSegment_reAux aux (putBack segs1 done))]
  obtain ⟨l1, l2⟩ := looseSpec_congr Y.cls (putBack segs1 done) hrel 0 layY.pos
  simp only [List.reverse_nil, List.nil_append]
  rw [l2]
  obtain ⟨sx, sy⟩ := All2.settled l1
  unfold saveWrite
  simp only [hc, he, ht]
  rw [residentForSave_id _ _ _ _ _ sx, residentForSave_id _ _ _ _ _ sy]
  simp only [List.reverse_nil, List.nil_append]
  rw [foldl_saveSection_congr _ _ _ _ l1, foldl_saveSegment_reAux]
  constructor
  · simp only [apply_ite SaveRes.os]
  · simp only [apply_ite SaveRes.ok]

/-- **congruence of `save`** : `X` and `Y` agree on class, byte order, translation and header; the
    segments of `X` are those of `Y` up to auxiliary fields; their sections (after the initial
    `get_data()` pass) are written alike and agree on `addrSet` wherever a segment refers to them.
    Then a successful `save Y` means a successful `save X` with the same stream. -/
theorem save_congr {X Y : Obj} {os : OStream} {rY : SaveRes} {h : Bytes} (S : Nat → Prop) (aux : Nat → SegAux)
    (hc : X.cls = Y.cls) (he : X.enc = Y.enc) (ht : X.trans = Y.trans)
    (hhX : X.hdr = some h) (hhY : Y.hdr = some h)
    (hsegs : X.segs = Y.segs.map (reAux aux))
    (hrel : LRel S (preRes X).secs (preRes Y).secs)
    (hS : ∀ g ∈ Y.segs, ∀ idx ∈ g.secs, S idx.toNat)
    (hs : save Y os = .ok rY) (hok : rY.ok = true) :
    ∃ rX, save X os = .ok rX ∧ rX.ok = true ∧ rX.os = rY.os := by
  obtain ⟨hd, segs1, ordered, lay, done, e1, hf, h1, h2, h3, rfl⟩ := save_ok_unfold hs hok
  rw [hhY] at e1
  obtain rfl : h = hd := Option.some.inj e1
  have hcX : (preRes X).cls = (preRes Y).cls := hc
  have heX : (preRes X).enc = (preRes Y).enc := he
  have htX : (preRes X).trans = (preRes Y).trans := ht
  have hsegsX : (preRes X).segs = (preRes Y).segs.map (reAux aux) := hsegs
  have fX := preRes_frame X
  have fY := preRes_frame Y
  have hh0 : Sv.saveHdr0 (preRes X) h = Sv.saveHdr0 (preRes Y) h :=
    C06.saveHdr0_congr hcX heX (by rw [hsegsX, List.length_map]) hrel.1 h
  -- the alignment pass
  have fa := mapM_ok_frame h1
  have k1 : (preRes X).segs.mapM (calcSegAlign (preRes X).secs) = .ok (segs1.map (reAux aux)) := by
    rw [hsegsX]
    apply mapM_calcSegAlign_reAux
    rw [← h1]
    apply mapM_congr'
    intro g hg
    apply calcSegAlign_rel
    intro idx hi
    cases hx : (preRes X).secs[idx.toNat]? with
    | none => rw [hrel.none hx]
    | some x =>
      obtain ⟨y, hy, hxy, -⟩ := hrel.some hx
      rw [hy]
      simp only [Option.map_some, hxy.addrAlign]
  -- the order
  have k2 : orderedSegments (segs1.map (reAux aux)) = .ok (ordered.map (reAux aux)) :=
    C06.orderedSegments_map_front (reAux aux) (fun _ _ => rfl) (fun _ _ => ⟨rfl, rfl⟩) h2
  -- the segment loop
  have hsub : ∀ g ∈ ordered, ∀ idx ∈ g.secs, S idx.toNat := by
    intro g hg idx hi
    have hg1 : g ∈ segs1 := orderedSegments_sub h2 g hg
    obtain ⟨k, hk⟩ := List.getElem?_of_mem hg1
    have hk' : k < (preRes Y).segs.length := by rw [← fa.1]; exact getElem?_lt hk
    have hca := fa.2 k _ g (List.getElem?_eq_getElem hk') hk
    have hsecs := (calcSegAlign_frame (c := Y.cls) hca).1.secs
    rw [hsecs] at hi
    exact hS _ (List.getElem_mem hk') idx hi
  have hlay0 : LayRel S (saveLay0 (preRes X) (Sv.saveHdr0 (preRes Y) h)) (saveLay0 (preRes Y) (Sv.saveHdr0 (preRes Y) h)) := by
    refine ⟨hrel, ?_, ?_⟩
    · show savePos0 (preRes X) _ = savePos0 (preRes Y) _
      unfold savePos0; rw [hcX, heX]
    · show List.replicate ((preRes X).secs.length % 65536) false = List.replicate ((preRes Y).secs.length % 65536) false
      rw [hrel.1]
  have hfold := saveFold_rel (c := Y.cls) (e := Y.enc) (h0 := Sv.saveHdr0 (preRes Y) h) ordered hsub hlay0 []
  rw [h3] at hfold
  cases hX : ordered.foldlM (saveStep Y.cls Y.enc (Sv.saveHdr0 (preRes Y) h))
      (some (saveLay0 (preRes X) (Sv.saveHdr0 (preRes Y) h), [])) with
  | error e => rw [hX] at hfold; exact hfold.elim
  | ok rX =>
    rw [hX] at hfold
    cases rX with
    | none => exact hfold.elim
    | some pX =>
      obtain ⟨layX, doneX⟩ := pX
      obtain ⟨lr, ed⟩ := hfold
      simp only at lr ed
      subst ed
      have k3 := saveFold_reAux aux ordered hX
      simp only [List.map_nil] at k3
      have hsave := C06.save_of_parts (o := X) (os := os) (segs1 := segs1.map (reAux aux))
        (ordered := ordered.map (reAux aux)) (lay := layX) (done := doneX.map (reAux aux)) hhX hf k1 k2
        (by rw [hh0, hcX, heX]; exact k3)
      obtain ⟨t1, t2⟩ := saveTail_rel hcX heX htX os (Sv.saveHdr0 (preRes Y) h) aux segs1 doneX lr.secs.all2 lr.pos
      refine ⟨_, hsave, ?_, ?_⟩
      · rw [hh0, t2]; exact hok
      · rw [hh0, t1]

/-! ### the loader marks every segment offset as initialised -/

theorem segLoadData_offsetSet (c : Cls) (tr : List Trans) (ls : LoadSt) (g : Seg) :
    (segLoadData c tr ls g).2.1.offsetSet = g.offsetSet := by
  unfold segLoadData
  simp only
  repeat' split
  all_goals rfl

theorem segLoad_offsetSet (c : Cls) (enc : Enc) (tr : List Trans) (ls : LoadSt) (hdrOff : Int) (isLazy : Bool) :
    (segLoad c enc tr ls hdrOff isLazy).2.1.offsetSet = true := by
  unfold segLoad
  simp only
  split
  · rw [segLoadData_offsetSet]
    cases c <;> rfl
  · cases c <;> rfl

theorem loadSegmentsLoopG_offsetSet (enc : Enc) (tr : List Trans) (isLazy : Bool) (phoff : Int) (entsize : Nat)
    (secs : List SecBuf) (fileClass : BitVec 8) (num : BitVec 16) (fuel : Nat) (i : BitVec 16) (ls : LoadSt)
    (acc : List Seg) (hacc : ∀ g ∈ acc, g.offsetSet = true) :
    ∀ g ∈ (loadSegmentsLoopG enc tr isLazy phoff entsize secs fileClass num fuel i ls acc).2.1, g.offsetSet = true := by
  induction fuel generalizing i ls acc with
  | zero =>
    unfold loadSegmentsLoopG
    intro g hg
    exact hacc g (by simpa using hg)
  | succ fuel ih =>
    unfold loadSegmentsLoopG
    split
    · split
      · intro g hg
        simp only [List.mem_reverse] at hg
        exact hacc g (List.mem_of_mem_drop hg)
      · rename_i c hc
        simp only
        split
        · intro g hg
          exact hacc g (by simpa using hg)
        · apply ih
          intro g hg
          rcases List.mem_cons.1 hg with rfl | hg
          · exact segLoad_offsetSet c enc tr ls _ isLazy
          · exact hacc g hg
    · intro g hg
      exact hacc g (by simpa using hg)

theorem loadTables_offsetSet {o : Obj} {c : Cls} {enc : Enc} {hdr : Bytes} {st : IStream} {isLazy : Bool} {r : LoadRes}
    (ho : o.segs = []) (h : loadTables o c enc hdr st isLazy = .ok r) : ∀ g ∈ r.obj.segs, g.offsetSet = true := by
  unfold loadTables at h
  cases hp : loadSectionsM c enc o.trans isLazy hdr st with
  | error e => rw [hp] at h; cases h
  | ok p =>
    rw [hp] at h
    simp only [bind, Except.bind] at h
    cases hm : loadSegmentsM c enc o.trans isLazy hdr p.1 p.2 with
    | none =>
      rw [hm] at h
      simp only [pure, Except.pure, Except.ok.injEq] at h
      subst h
      intro g hg
      rw [show ({ o with secs := p.2, stream := p.1.st } : Obj).segs = o.segs from rfl, ho] at hg
      exact (List.not_mem_nil hg).elim
    | some r' =>
      rw [hm] at h
      simp only [pure, Except.pure, Except.ok.injEq] at h
      subst h
      show ∀ g ∈ r'.2.1, g.offsetSet = true
      unfold loadSegmentsM at hm
      simp only at hm
      split at hm
      · cases hm
      · injection hm with hm
        rw [← hm]
        exact loadSegmentsLoopG_offsetSet _ _ _ _ _ _ _ _ _ _ _ _ (fun g hg => (List.not_mem_nil hg).elim)

/-- every segment of a loaded object has its offset marked as initialised -/
theorem load_segs_offsetSet {o : Obj} {st : IStream} {isLazy : Bool} {r : LoadRes}
    (h : load o st isLazy = .ok r) : ∀ g ∈ r.obj.segs, g.offsetSet = true := by
  unfold load at h
  simp only [bind, Except.bind, pure, Except.pure] at h
  repeat' split at h
  all_goals first
    | (cases h; intro g hg; exact (List.not_mem_nil hg).elim)
    | exact loadTables_offsetSet rfl h

/-! ### where `save` puts the loose sections and the flat segments (for `members_recomputed`) -/

/-- a flat segment with file size > 0 starts at or behind the initial cursor and ends at or before the
    cursor the segment pass leaves (`layoutSegment_flat` + monotone cursor) -/
theorem flat_seg_bounds {o : Obj} {os : OStream} {r : SaveRes} {hdr : Bytes}
    (hs : save o os = .ok r) (hok : r.ok = true) (hh : o.hdr = some hdr)
    (hn : o.secs.length < 65536)
    (h0 : ∀ (i : Nat) (s : SecBuf), o.secs[i]? = some s → s.Occ → s.index ≠ 0)
    (hnw : layoutNW (preSave o) hdr = true) (hnd : (o.segs.map (·.index)).Nodup)
    (sel : Nat → Bool) (hdom : layoutDomB false false sel (preSave o) hdr = true)
    (g : Seg) (hg : g ∈ r.obj.segs) (hsel : sel g.index = true)
    (hph : lseg_is_phdr g.stype (BitVec.ofNat 16 g.secs.length) = false)
    (hfs : g.filesz.toNat ≠ 0) (res : LayoutRes) (hl : layoutOf (preSave o) hdr = .ok (some res)) :
    res.pos0.toNat ≤ g.offset.toNat ∧ g.offset.toNat + g.filesz.toNat ≤ res.lay2.pos.toNat := by
  obtain ⟨res', hl', hsegs, -, -⟩ := C04.save_secs_hdr o os r hdr hs hok hh
  rw [hl] at hl'
  obtain rfl : res = res' := by injection hl' with e; injection e
  rw [hsegs] at hg
  have hn' : (preSave o).secs.length < 65536 := by rw [preSave_length]; exact hn
  have h0' := preSave_h0 o h0
  obtain ⟨t, ht, rfl⟩ := final_segs_turn (preSave o) hdr res hl hnw hn' h0' hnd g hg
  obtain ⟨-, -, e3⟩ := layoutOf_trace (preSave o) hdr res hl hnw hn' h0'
  obtain ⟨f1, f2, f3, f4, f5, -⟩ := e3 t ht
  unfold layoutDomB at hdom
  rw [hl] at hdom
  simp only at hdom
  obtain ⟨-, hsecs, hidx, -, hty, -⟩ := layoutSegment_marks _ _ _ _ _ _ _ _ _ f3 f2 f1
  have hturn := segsAllB_trace _ _ _ _ _ _ _ hdom t ht
  rw [hidx] at hsel
  simp only [hsel, Bool.not_true, Bool.false_or, Bool.and_eq_true, Bool.or_eq_true] at hturn
  obtain ⟨⟨hsd, hfl⟩, hfe⟩ := hturn
  have hne : t.g.secs ≠ [] := by
    intro e
    have := layoutSegment_empty _ _ _ _ t.lay t.lay' t.g t.g' e (by rw [← hsecs, ← hty]; exact hph) f1
    rw [this] at hfs; exact hfs rfl
  have hfresh : segFresh t.lay t.g := by
    rcases hfe with he | hf
    · simp only [List.isEmpty_iff] at he; exact absurd he hne
    · exact segFresh_of_B _ _ hf
  obtain ⟨hA, hB, -⟩ := layoutSegment_flat _ _ _ _ t.lay t.lay' t.g t.g' _ f3 f2
    (segDom_weaken _ _ _ _ _ _ _ _ hsd) hfl hfresh f1
  have h1 := f5.mono
  have h4 : res.pos0.toNat ≤ t.lay.pos.toNat := f4.mono
  exact ⟨by omega, by omega⟩

/-- a section of the saved object that lies outside all segments (and is not section 0) starts at or
    behind the cursor the segment pass leaves -/
theorem saved_loose_offset_ge {o : Obj} {os : OStream} {r : SaveRes} {hdr : Bytes}
    (hs : save o os = .ok r) (hok : r.ok = true) (hh : o.hdr = some hdr)
    (hnw : layoutNW (preSave o) hdr = true)
    (k : Nat) (b : SecBuf) (hk : r.obj.secs[k]? = some b) (hw : withoutSegment r.obj.segs k = true)
    (hi : b.index ≠ 0) (res : LayoutRes) (hl : layoutOf (preSave o) hdr = .ok (some res)) :
    res.lay2.pos.toNat ≤ b.offset.toNat := by
  obtain ⟨res', hl', hsegs, -, he⟩ := C04.save_secs_hdr o os r hdr hs hok hh
  rw [hl] at hl'
  obtain rfl : res = res' := by injection hl' with e; injection e
  obtain ⟨s', hs', hhs⟩ := hdrOf_getElem? he k b hk
  simp only [hdrOf, Prod.mk.injEq] at hhs
  obtain ⟨e1, -, -, e4, -⟩ := hhs
  rw [hsegs] at hw
  unfold layoutNW at hnw
  rw [hl] at hnw
  simp only [Bool.and_eq_true, decide_eq_true_eq] at hnw
  obtain ⟨⟨-, hnw3⟩, -⟩ := hnw
  obtain ⟨-, -, -, -, -, -, hloose, -⟩ := layoutOf_parts (preSave o) hdr res hl
  rw [layoutLoose_eq_spec] at hloose
  simp only [List.reverse_nil, List.nil_append, Prod.mk.injEq] at hloose
  obtain ⟨hsecs, -⟩ := hloose
  obtain ⟨flen, -, -, fpl, -⟩ := looseSpec_facts (preSave o).cls res.segs res.lay2.secs 0 res.lay2.pos hnw3
  simp only [Nat.zero_add] at fpl
  simp only [← hsecs] at flen fpl
  have hlt : k < res.lay2.secs.length := by rw [← flen]; exact getElem?_lt hs'
  obtain ⟨t, ht, hm, -, -, hr⟩ := fpl k _ (List.getElem?_eq_getElem hlt) hw
  rw [hs'] at ht; simp only [Option.some.injEq] at ht; subst ht
  have := (hr (by rw [← hm.index, e4]; exact hi)).1
  rw [← e1]
  exact this

/-- the initial cursor lies behind the ELF header -/
theorem pos0_pos {o : Obj} {hd : Bytes} {res : LayoutRes} (hl : layoutOf (preSave o) hd = .ok (some res))
    (heh0 : Hdr.e_ehsize o.cls o.enc (ElfioVerif.saveHdr0 o hd) = Hdr.e_ehsize o.cls o.enc hd)
    (heh : (Hdr.e_ehsize o.cls o.enc hd).toNat = ehdrSize o.cls) : 0 < res.pos0.toNat := by
  obtain ⟨e1, e2, -⟩ := layoutOf_parts (preSave o) hd res hl
  rw [saveHdr0_preSave] at e1
  rw [e2, C04.save_cursor0_toNat, e1]
  have : (Hdr.e_ehsize (preSave o).cls (preSave o).enc (ElfioVerif.saveHdr0 o hd)).toNat = ehdrSize o.cls := by
    show (Hdr.e_ehsize o.cls o.enc (ElfioVerif.saveHdr0 o hd)).toNat = _
    rw [heh0, heh]
  rw [this]
  have := ehdrSize_ge o.cls
  omega

theorem placed_offset0 {c : Cls} {a b : SecBuf} (h : Placed c a b) (hi : a.index = 0) :
    b.offset = a.offset ∧ b.index = 0 := by
  induction h with
  | refl => exact ⟨rfl, hi⟩
  | @off m v _ ih =>
    rw [setOffset_eq]
    have : (m.index != 0) = false := by rw [ih.2]; rfl
    rw [this]
    exact ih
  | addr x _ _ ih => exact ih

/-- the section with index 0 keeps its file offset -/
theorem saved_sec0_offset {o : Obj} {os : OStream} {r : SaveRes} (hs : save o os = .ok r) (hok : r.ok = true)
    (hidx : SegIdxOk o.segs) (k : Nat) (a b : SecBuf) (ha : o.secs[k]? = some a) (hb : r.obj.secs[k]? = some b)
    (hi : a.index = 0) : b.offset = a.offset := by
  obtain ⟨⟨l0, l1, f0, f1, f2⟩, -, -, -, -⟩ := save_frames hs hok hidx
  have hk2 := getElem?_lt hb
  have hk1 : k < l1.length := by rw [← f2.1]; exact hk2
  have hk0 : k < l0.length := by rw [← f1.1]; exact hk1
  have ra := f0.2 k _ _ ha (List.getElem?_eq_getElem hk0)
  have pm := f1.2 k _ _ (List.getElem?_eq_getElem hk0) (List.getElem?_eq_getElem hk1)
  have rb := f2.2 k _ _ (List.getElem?_eq_getElem hk1) hb
  have e0 : (l0[k]).index = 0 := by rw [ra.rest]; exact hi
  have e0' : (l0[k]).offset = a.offset := by rw [ra.rest]
  obtain ⟨e1, -⟩ := placed_offset0 pm e0
  have e2 : b.offset = (l1[k]).offset := by rw [rb.rest]
  rw [e2, e1, e0']

/-- two strictly ascending lists of naturals with the same members are equal -/
theorem sorted_ext (l1 l2 : List Nat) (h1 : l1.Pairwise (· < ·)) (h2 : l2.Pairwise (· < ·))
    (h : ∀ x, x ∈ l1 ↔ x ∈ l2) : l1 = l2 := by
  induction l1 generalizing l2 with
  | nil =>
    cases l2 with
    | nil => rfl
    | cons b t => exact absurd ((h b).2 List.mem_cons_self) (by simp)
  | cons a t1 ih =>
    cases l2 with
    | nil => exact absurd ((h a).1 List.mem_cons_self) (by simp)
    | cons b t2 =>
      rw [List.pairwise_cons] at h1 h2
      have hab : a = b := by
        rcases List.mem_cons.1 ((h a).1 List.mem_cons_self) with e | e
        · exact e
        · rcases List.mem_cons.1 ((h b).2 List.mem_cons_self) with e' | e'
          · exact e'.symm
          · have := h2.1 a e; have := h1.1 b e'; omega
      subst hab
      congr 1
      apply ih t2 h1.2 h2.2
      intro x
      constructor
      · intro hx
        rcases List.mem_cons.1 ((h x).1 (List.mem_cons_of_mem _ hx)) with e | e
        · have := h1.1 x hx; omega
        · exact e
      · intro hx
        rcases List.mem_cons.1 ((h x).2 (List.mem_cons_of_mem _ hx)) with e | e
        · have := h2.1 x hx; omega
        · exact e

/-! ### `SavedSane.segInside` for nested segments -/

theorem nodup_idx {segs : List Seg} (h : SegIdxOk segs) : (segs.map (·.index)).Nodup := by
  rw [List.nodup_iff_pairwise_ne, List.pairwise_map, List.pairwise_iff_getElem]
  intro i j hi hj hij
  rw [h i _ (List.getElem?_eq_getElem hi), h j _ (List.getElem?_eq_getElem hj)]
  omega

/-- **nested segments** : a selected nested segment of the saved object (`layoutNestedB`: it starts at
    its already generated first member, all members generated, listed in file order; writer-domain side
    conditions) has its file range `[p_offset, p_offset + p_filesz)` below the section header table: the
    range ends exactly at the end of one of its file-occupying members (`final_nested_file`), and every
    non-empty file-occupying section ends below the table (`C04.layout_disjoint`); an empty one cannot be
    a member (`SaveInput.emptyLoose`). -/
theorem segInside_nested {o : Obj} {os : OStream} {r : SaveRes} {hdr : Bytes}
    (hs : save o os = .ok r) (hok : r.ok = true) (hh : o.hdr = some hdr) (hin : SaveInput o hdr)
    (hnw : layoutNW (preSave o) hdr = true)
    (selN : Nat → Bool) (hnest : layoutNestedB selN (preSave o) hdr = true)
    (g : Seg) (hg : g ∈ r.obj.segs) (hsel : selN g.index = true)
    (hfs : g.filesz.toNat ≠ 0) : g.offset.toNat + g.filesz.toNat ≤ r.obj.curPos.toNat := by
  have hsegIdx := idx_of_B Seg.index o.segs hin.segIdx
  have hsecIdx := idx_of_B SecBuf.index o.secs hin.secIdx
  have hnd := nodup_idx hsegIdx
  obtain ⟨fsec, fseg, -, -, -⟩ := C05.save_writes_fields hs hok hsegIdx
  obtain ⟨res, hl, hsegs, -, he⟩ := C04.save_secs_hdr o os r hdr hs hok hh
  have hg' := hg
  rw [hsegs] at hg'
  have hn' : (preSave o).secs.length < 65536 := by rw [preSave_length]; exact hin.nsecs
  have h0' := preSave_h0 o hin.h0
  rcases final_nested_file (preSave o) hdr res hl hnw hn' h0' hnd selN hnest g hg' hsel with
    k | ⟨idx, hidx, s', hs', n1, n2, e⟩
  · exact absurd k hfs
  · -- the same position in the saved object
    obtain ⟨s, hs1, hhs⟩ : ∃ s, r.obj.secs[idx.toNat]? = some s ∧ hdrOf s = hdrOf s' := by
      have h1 : (r.obj.secs.map hdrOf)[idx.toNat]? = some (hdrOf s') := by
        rw [he, List.getElem?_map, hs']; rfl
      rw [List.getElem?_map] at h1
      cases hq : r.obj.secs[idx.toNat]? with
      | none => rw [hq] at h1; exact nomatch h1
      | some t0 => rw [hq] at h1; exact ⟨t0, rfl, by simpa using h1⟩
    simp only [hdrOf, Prod.mk.injEq] at hhs
    obtain ⟨e1, e2, e3, -⟩ := hhs
    have hend : s.endN = s'.endN := by unfold SecBuf.endN; rw [e1, e2]
    by_cases hz : s.size = 0
    · -- an empty section of file-occupying type lies outside all segments
      exfalso
      have hio : idx.toNat < o.secs.length := by rw [← fsec.1]; exact getElem?_lt hs1
      have ha := List.getElem?_eq_getElem hio
      obtain ⟨-, -, est, -, esz, -⟩ := (fsec.2 _ _ _ ha hs1).fields
      have hocc : C02.occupiesFile (o.secs[idx.toNat]).stype.toNat = true := by
        rw [← est, e3]
        unfold C02.occupiesFile
        simp only [Bool.and_eq_true, bne_iff_ne, ne_eq]
        constructor
        · intro e'; apply n1; apply BitVec.eq_of_toNat_eq; rw [e']; rfl
        · intro e'; apply n2; apply BitVec.eq_of_toNat_eq; rw [e']; rfl
      have hloose := hin.emptyLoose _ (List.getElem_mem hio) hocc (by rw [← esz]; exact hz)
      rw [hsecIdx _ _ ha] at hloose
      -- but it is a member of a segment of the input
      obtain ⟨j, hj⟩ := List.getElem?_of_mem hg
      have hjlt : j < o.segs.length := by rw [← fseg.1]; exact getElem?_lt hj
      have sg := C05.SegSaved.fields (fseg.2 j _ g (List.getElem?_eq_getElem hjlt) hj)
      have := withoutSegment_false_of_mem o.segs o.segs[j] (List.getElem_mem hjlt) idx (by rw [← sg.2.2.2.2.1]; exact hidx)
      rw [this] at hloose; cases hloose
    · have ho : s.Occ := ⟨by rw [e3]; exact n2, by rw [e3]; exact n1, hz⟩
      obtain ⟨hinr, -, -, -⟩ := C04.layout_disjoint o os r hdr hs hok hh hin.nsecs hin.h0 hnw
      have := (hinr idx.toNat s hs1 ho).2
      rw [e, ← hend]
      exact this

/-- flat and nested segments: every segment is selected as flat (`selE`, not the member-less PT_PHDR
    case) or as nested (`selN`) -/
theorem savedSane_mixed {o : Obj} {os : OStream} {r : SaveRes} {hd : Bytes}
    (hs : save o os = .ok r) (hok : r.ok = true) (hh : o.hdr = some hd) (hin : SaveInput o hd)
    (hnw : layoutNW (preSave o) hd = true) (selE selN : Nat → Bool)
    (hdom : layoutDomB false false selE (preSave o) hd = true)
    (hnest : layoutNestedB selN (preSave o) hd = true)
    (hcover : ∀ g ∈ o.segs, (selE g.index = true ∧ lseg_is_phdr g.stype (BitVec.ofNat 16 g.secs.length) = false) ∨
      selN g.index = true)
    (hnwrap : SavedNoWrap o.cls r.obj.secs r.obj.segs) :
    SavedSane o.cls r.obj.secs r.obj.segs r.obj.curPos.toNat := by
  have hsegIdx := idx_of_B Seg.index o.segs hin.segIdx
  obtain ⟨_, fseg, _⟩ := C05.save_writes_fields hs hok hsegIdx
  have hnd := nodup_idx hsegIdx
  refine ⟨hnwrap.secNoWrap, hnwrap.segFit, hnwrap.segNoWrap, ?_⟩
  intro g hg _ hfs
  obtain ⟨k, hk⟩ := List.getElem?_of_mem hg
  have hklt : k < o.segs.length := by rw [← fseg.1]; exact getElem?_lt hk
  have sg := C05.SegSaved.fields (fseg.2 k _ g (List.getElem?_eq_getElem hklt) hk)
  rcases hcover _ (List.getElem_mem hklt) with ⟨h1, h2⟩ | h1
  · exact segInside_flat hs hok hh hin.nsecs hin.h0 hnw hnd selE hdom g hg (by rw [sg.2.2.2.2.2.1]; exact h1)
      (by rw [sg.1, sg.2.2.2.2.1]; exact h2) hfs
  · exact segInside_nested hs hok hh hin hnw selN hnest g hg (by rw [sg.2.2.2.2.2.1]; exact h1) hfs

end ElfioVerif.RoundTrip
