/-
Facts about the reference semantics of string tables (Spec/StrTab.lean): lookups are
characterised by "the table continues at `i` with `s`, a NUL, and something"; additions only
append, so lookups that succeed keep their answer.
-/
import ElfioVerif.Spec.StrTab
namespace ElfioVerif.Spec

theorem cstr_nil : cstr [] = [] := rfl

theorem cstr_cons (x : UInt8) (xs : Bytes) :
    cstr (x :: xs) = if x = 0 then [] else x :: cstr xs := by
  unfold cstr
  by_cases h : x = 0
  · simp [List.takeWhile, h]
  · have hb : (x != 0) = true := by simpa using h
    simp [List.takeWhile, hb, h]

/-- a C string contains no NUL -/
theorem cstr_no_nul (s : Bytes) : (0 : UInt8) ∉ cstr s := by
  induction s with
  | nil => simp [cstr_nil]
  | cons x xs ih =>
    rw [cstr_cons]
    by_cases h : x = 0
    · simp [h]
    · simp only [h, if_false, List.mem_cons, not_or]
      exact ⟨fun e => h e.symm, ih⟩

theorem cstr_length_le (s : Bytes) : (cstr s).length ≤ s.length := by
  induction s with
  | nil => simp [cstr_nil]
  | cons x xs ih => rw [cstr_cons]; by_cases h : x = 0 <;> simp [h]; omega

/-- the C string is a prefix -/
theorem cstr_eq_take (s : Bytes) : cstr s = s.take (cstr s).length := by
  induction s with
  | nil => simp [cstr_nil]
  | cons x xs ih =>
    rw [cstr_cons]
    by_cases h : x = 0
    · simp [h]
    · simp only [h, if_false, List.length_cons, List.take_succ_cons]; rw [← ih]

/-- a string without NUL followed by a NUL is read back exactly -/
theorem cstr_append_nul (l r : Bytes) (h : (0 : UInt8) ∉ l) : cstr (l ++ 0 :: r) = l := by
  induction l with
  | nil => simp [cstr_cons]
  | cons x xs ih =>
    simp only [List.mem_cons, not_or] at h
    have hx : ¬ x = 0 := fun e => h.1 e.symm
    rw [List.cons_append, cstr_cons, if_neg hx, ih h.2]

/-- if the scan stops before the end it stopped at a NUL -/
theorem cstr_stops (r : Bytes) (h : (cstr r).length < r.length) : ∃ tl, r = cstr r ++ 0 :: tl := by
  induction r with
  | nil => simp [cstr_nil] at h
  | cons x xs ih =>
    rw [cstr_cons] at h ⊢
    by_cases hx : x = 0
    · exact ⟨xs, by simp [hx]⟩
    · simp only [hx, if_false, List.length_cons] at h ⊢
      obtain ⟨tl, e⟩ := ih (by omega)
      exact ⟨tl, by rw [List.cons_append, ← e]⟩

/-- **characterisation of a lookup** -/
theorem strAt_iff (t : Bytes) (i : Nat) (s : Bytes) :
    strAt t i = some s ↔ ∃ tl, t.drop i = s ++ 0 :: tl ∧ (0 : UInt8) ∉ s := by
  unfold strAt
  constructor
  · intro h
    split at h
    · rename_i hl
      cases h
      obtain ⟨tl, e⟩ := cstr_stops _ hl
      exact ⟨tl, e, cstr_no_nul _⟩
    · cases h
  · rintro ⟨tl, e, hs⟩
    have hc : cstr (t.drop i) = s := by rw [e]; exact cstr_append_nul s tl hs
    rw [hc, if_pos (by rw [e]; simp)]

theorem strAt_none_iff (t : Bytes) (i : Nat) :
    strAt t i = none ↔ (cstr (t.drop i)).length = (t.drop i).length := by
  unfold strAt
  have := cstr_length_le (t.drop i)
  generalize (cstr (t.drop i)).length = a at *
  generalize (t.drop i).length = b at *
  split <;> simp <;> omega

/-- an index at or beyond the end has no string -/
theorem strAt_beyond (t : Bytes) (i : Nat) (h : t.length ≤ i) : strAt t i = none := by
  rw [strAt_none_iff, List.drop_eq_nil_of_le h]; rfl

/-- a tail without NUL (unterminated last string) has no string -/
theorem strAt_unterminated (t : Bytes) (i : Nat) (h : (0 : UInt8) ∉ t.drop i) : strAt t i = none := by
  cases hs : strAt t i with
  | none => rfl
  | some s =>
    obtain ⟨tl, e, _⟩ := (strAt_iff t i s).1 hs
    rw [e] at h; simp at h

/-- **soundness of a lookup** : the string and its terminator lie inside the table, the bytes
    are the table's, and the string contains no NUL -/
theorem strAt_sound (t : Bytes) (i : Nat) (s : Bytes) (h : strAt t i = some s) :
    i + s.length + 1 ≤ t.length ∧ slice t i s.length = s ∧ t[i + s.length]? = some 0 ∧
      (0 : UInt8) ∉ s := by
  obtain ⟨tl, e, hs⟩ := (strAt_iff t i s).1 h
  have hl : (t.drop i).length = s.length + 1 + tl.length := by rw [e]; simp; omega
  rw [List.length_drop] at hl
  refine ⟨by omega, ?_, ?_, hs⟩
  · unfold slice; rw [e]; simp
  · rw [← List.getElem?_drop, e]; simp

/-- appending to a table does not change a lookup that succeeded -/
theorem strAt_append_stable (t u : Bytes) (i : Nat) (s : Bytes) (h : strAt t i = some s) :
    strAt (t ++ u) i = some s := by
  obtain ⟨tl, e, hs⟩ := (strAt_iff t i s).1 h
  have hi : i ≤ t.length := by have := (strAt_sound t i s h).1; omega
  rw [strAt_iff]
  exact ⟨tl ++ u, by rw [List.drop_append_of_le_length hi, e]; simp, hs⟩

/-- the string written at the end is found at the old length -/
theorem strAt_at_end (t s : Bytes) : strAt (t ++ cstr s ++ [0]) t.length = some (cstr s) := by
  rw [strAt_iff]
  exact ⟨[], by rw [List.append_assoc, List.drop_left], cstr_no_nul s⟩

/-- a table starting with NUL has the empty string at index 0 -/
theorem strAt_zero_of_head (tl : Bytes) : strAt (0 :: tl) 0 = some [] := by
  rw [strAt_iff]; exact ⟨tl, by simp, by simp⟩

/-! ### additions -/

theorem addStr_fst (t s : Bytes) :
    (addStr t s).1 = (if t.length = 0 then [0] else t) ++ cstr s ++ [0] := rfl
theorem addStr_snd (t s : Bytes) : (addStr t s).2 = (if t.length = 0 then [0] else t).length := rfl

theorem addStr_length (t s : Bytes) :
    (addStr t s).1.length = (if t.length = 0 then 1 else t.length) + (cstr s).length + 1 := by
  rw [addStr_fst]; split <;> simp <;> omega

theorem addStr_ne_nil (t s : Bytes) : (addStr t s).1.length ≠ 0 := by rw [addStr_length]; omega

/-- **add then get** -/
theorem addStr_get (t s : Bytes) : strAt (addStr t s).1 (addStr t s).2 = some (cstr s) := by
  rw [addStr_fst, addStr_snd]; exact strAt_at_end _ s

/-- **stability** : a lookup that succeeded gives the same string after an addition -/
theorem addStr_stable (t s : Bytes) (i : Nat) (x : Bytes) (h : strAt t i = some x) :
    strAt (addStr t s).1 i = some x := by
  have hne : t.length ≠ 0 := by have := (strAt_sound t i x h).1; omega
  rw [addStr_fst, if_neg hne, List.append_assoc]
  exact strAt_append_stable t _ i x h

/-- after an addition the table starts with NUL if it was empty or started with NUL before -/
theorem addStr_head (t s : Bytes) (h : t = [] ∨ ∃ tl, t = 0 :: tl) : ∃ tl, (addStr t s).1 = 0 :: tl := by
  rw [addStr_fst]
  rcases h with rfl | ⟨tl, rfl⟩
  · exact ⟨cstr s ++ [0], by simp⟩
  · exact ⟨tl ++ cstr s ++ [0], by simp⟩

theorem addAll_nil (t : Bytes) : addAll t [] = (t, []) := rfl
theorem addAll_cons (t s : Bytes) (ss : List Bytes) :
    addAll t (s :: ss) = ((addAll (addStr t s).1 ss).1, (addStr t s).2 :: (addAll (addStr t s).1 ss).2) := rfl

theorem addAll_length_snd (t : Bytes) (ss : List Bytes) : (addAll t ss).2.length = ss.length := by
  induction ss generalizing t with
  | nil => rfl
  | cons s ss ih => rw [addAll_cons]; simp [ih]

/-- tables only grow -/
theorem addAll_length_ge (t : Bytes) (ss : List Bytes) : t.length ≤ (addAll t ss).1.length := by
  induction ss generalizing t with
  | nil => simp [addAll_nil]
  | cons s ss ih =>
    rw [addAll_cons]
    have := ih (addStr t s).1
    have h2 := addStr_length t s
    simp only at this ⊢
    split at h2 <;> omega

theorem addAll_stable (t : Bytes) (ss : List Bytes) (i : Nat) (x : Bytes) (h : strAt t i = some x) :
    strAt (addAll t ss).1 i = some x := by
  induction ss generalizing t with
  | nil => exact h
  | cons s ss ih => rw [addAll_cons]; exact ih _ (addStr_stable t s i x h)

/-- **every returned index retrieves its string after all the additions** -/
theorem addAll_get (t : Bytes) (ss : List Bytes) (k : Nat) (hk : k < ss.length) :
    ∃ i, (addAll t ss).2[k]? = some i ∧ strAt (addAll t ss).1 i = some (cstr ss[k]) := by
  induction ss generalizing t k with
  | nil => simp at hk
  | cons s ss ih =>
    rw [addAll_cons]
    cases k with
    | zero => exact ⟨(addStr t s).2, by simp, addAll_stable _ ss _ _ (addStr_get t s)⟩
    | succ k =>
      obtain ⟨i, e, g⟩ := ih (addStr t s).1 k (by simpa using hk)
      exact ⟨i, by simpa using e, by simpa using g⟩

/-- index 0 of a table built from nothing (or from a table starting with NUL) by at least one
    addition is the empty string -/
theorem addAll_index0 (t : Bytes) (ss : List Bytes) (h : t = [] ∨ ∃ tl, t = 0 :: tl)
    (hne : ss ≠ [] ∨ t ≠ []) : strAt (addAll t ss).1 0 = some [] := by
  induction ss generalizing t with
  | nil =>
    rcases h with rfl | ⟨tl, rfl⟩
    · simp at hne
    · exact strAt_zero_of_head tl
  | cons s ss ih =>
    rw [addAll_cons]
    obtain ⟨tl, e⟩ := addStr_head t s h
    exact ih _ (Or.inr ⟨tl, e⟩) (Or.inr (by rw [e]; simp))

end ElfioVerif.Spec
