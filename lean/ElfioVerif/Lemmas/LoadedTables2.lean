/-
Helper lemmas for Props/ComposeTables2.lean (continuation of Lemmas/LoadedTables.lean / Props/ComposeTables.lean).

  `SecReady.sec / .small`    a section `secResident` hands out lies in C18's domain (`Sec`, and `Small` for images
                             shorter than 4 GiB)
  `hashIdx`, `findHash_eq`   `find_hash_section()` on a loaded object = the first section header of the image whose
                             `sh_link` names the symbol section and whose type is a hash type (0: none)
  `symTabFor_wf`             `symbol_section_accessor( elf, sections[i] )` as C18's query model builds it
                             (`TQ.symTabFor`: symbol, linked string and hash section made resident): a table the C09
                             readers can read (`SymTab.Wf`) standing for the image's bytes; the hash section is the
                             ready section `hashIdx img i`
  `load_secs_cls`            every section of the object `load` leaves carries the object's class (any input)
  `DynPrefix.*`              the dynamic accessor on a section WITHOUT data (`getEntry_nodata`: one fabricated DT_NULL
                             entry or none) and with a data-less linked string section (`getEntry_str`: answers like
                             an accessor without string section)
  `TQSound.*`                soundness of the FIXED hash walks of Model/TableQuery.lean (`TQ.hashLookup`,
                             `TQ.gnuLookupT`, `TQ.hashPhase`) and the linear-scan characterisation of `TQ.getByName`
                             (the counterpart of `C09.lookup_name` for the code as it is after fixes/11..13)
-/
import ElfioVerif.Props.ComposeTables
import ElfioVerif.Props.C18
set_option linter.unusedSimpArgs false
set_option linter.unusedVariables false
namespace ElfioVerif.LoadedTables
open Gen C02 Inspect ComposeTables

/-! ### a ready section lies in C18's domain -/

theorem SecReady.sec {img i b} (h : SecReady img i b) : C18.Sec b :=
  ⟨h.settled, fun d hd => by have := h.alloc d hd; omega⟩

theorem SecReady.small {img i b} (h : SecReady img i b) (hwf : WellFormedImage img) (hi : i < eh img "e_shnum")
    (hlen : img.length < 4294967296) : C18.Small b := by
  intro d hd
  cases hocc : occupiesFile (sh img i "sh_type")
  · rw [h.nodata hocc] at hd; cases hd
  · have := (wf_sec img hwf i hi false).2.2.2 hocc
    rw [h.size]; omega

theorem SecReady.secData {img i b} (h : SecReady img i b) : secData b = b.data := h.sec.secData

/-! ### `e_shnum` is a half-word -/

theorem eh_shnum_lt (img : Bytes) : eh img "e_shnum" < 65536 := by
  unfold eh Spec.get
  generalize clsOf img = c
  cases c
  · have : Spec.field (Spec.ehdrL .c32) "e_shnum" = (48, 2) := by decide
    rw [this]; exact SymTab.decodeInt_slice_lt _ _ _ _
  · have : Spec.field (Spec.ehdrL .c64) "e_shnum" = (60, 2) := by decide
    rw [this]; exact SymTab.decodeInt_slice_lt _ _ _ _

/-! ### `find_hash_section()` -/

/-- gABI / GNU hash section types: SHT_HASH = 5, SHT_GNU_HASH = 0x6ffffff6 (and the DT_GNU_HASH value
    0x6ffffef5 the code also accepts) -/
def isHashType (ty : Nat) : Bool := ty == 5 || ty == 0x6ffffff6 || ty == 0x6ffffef5

/-- section `j` is a hash section for the symbol section `i` -/
def hashMatch (img : Bytes) (i j : Nat) : Bool := sh img j "sh_link" == i && isHashType (sh img j "sh_type")

/-- the hash section `symbol_section_accessor` finds for the symbol section `i`: the first section header
    of the file whose `sh_link` is `i` and whose type is a hash type; 0 = none (section 0 is never used) -/
def hashIdx (img : Bytes) (i : Nat) : Nat :=
  ((List.range (eh img "e_shnum")).find? (hashMatch img i)).getD 0

theorem bv32_beq_ofNat (x : BitVec 32) (n : Nat) (hn : n < 4294967296) : (x == BitVec.ofNat 32 n) = (x.toNat == n) := by
  have := x.isLt
  rw [Bool.eq_iff_iff]; simp only [beq_iff_eq]
  constructor
  · intro e; rw [e]; simp only [BitVec.toNat_ofNat, Nat.reducePow]; omega
  · intro e; apply BitVec.eq_of_toNat_eq; simp only [BitVec.toNat_ofNat, Nat.reducePow]; omega

theorem findHashGo_eq (img : Bytes) (i n : Nat) (hn : n < 65536) (hi : i < 65536) :
    ∀ (l : List SecBuf) (j : Nat), j + l.length = n →
      (∀ k (hk : k < l.length), l[k].link.toNat = sh img (j + k) "sh_link" ∧
        l[k].stype.toNat = sh img (j + k) "sh_type") →
      TQ.findHashGo (BitVec.ofNat 16 i) (BitVec.ofNat 16 n) l j =
        ((List.range' j l.length).find? (hashMatch img i)).getD 0 := by
  intro l
  induction l with
  | nil => intro j _ _; rfl
  | cons s rest ih =>
    intro j hj hf
    simp only [List.length_cons] at hj
    have hloop : tq_findhash_loop (BitVec.ofNat 16 j) (BitVec.ofNat 16 n) = true := by
      simp only [tq_findhash_loop, BitVec.slt, BitVec.toInt_setWidth, BitVec.toNat_ofNat, Nat.reducePow,
        decide_eq_true_eq]
      have h1 : j % 65536 = j := Nat.mod_eq_of_lt (by omega)
      have h2 : n % 65536 = n := Nat.mod_eq_of_lt hn
      rw [h1, h2]
      have h3 : (j : Int).bmod 4294967296 = j := by
        apply Int.bmod_eq_of_le <;> omega
      have h4 : (n : Int).bmod 4294967296 = n := by
        apply Int.bmod_eq_of_le <;> omega
      omega
    obtain ⟨f1, f2⟩ := hf 0 (by simp)
    simp only [List.getElem_cons_zero, Nat.add_zero] at f1 f2
    have hm : tq_findhash_match s.link (BitVec.ofNat 16 i) s.stype = hashMatch img i j := by
      have e1 : BitVec.setWidth 32 (BitVec.ofNat 16 i) = BitVec.ofNat 32 i := by
        apply BitVec.eq_of_toNat_eq
        simp only [BitVec.toNat_setWidth, BitVec.toNat_ofNat, Nat.reducePow]; omega
      simp only [tq_findhash_match, hashMatch, isHashType, e1, SHT_HASH, SHT_GNU_HASH, DT_GNU_HASH]
      rw [bv32_beq_ofNat _ _ (by omega), bv32_beq_ofNat _ _ (by omega), bv32_beq_ofNat _ _ (by omega),
        bv32_beq_ofNat _ _ (by omega), f1, f2]
    rw [TQ.findHashGo, hloop, hm, List.length_cons, List.range'_succ, List.find?_cons]
    simp only [Bool.not_true, Bool.false_eq_true, if_false]
    cases hmj : hashMatch img i j
    · simp only [Bool.false_eq_true, if_false]
      apply ih (j + 1) (by omega)
      intro k hk
      have := hf (k + 1) (by simp; omega)
      simp only [List.getElem_cons_succ] at this
      rw [show j + 1 + k = j + (k + 1) by omega]
      exact this
    · simp only [if_true, Option.getD_some, tq_findhash_index, BitVec.toNat_ofNat, Nat.reducePow]
      omega

theorem fields_of_loaded (img : Bytes) (hwf : WellFormedImage img) (o : Obj) (hL : LoadedFrom img o) (j : Nat)
    (hj : j < o.secs.length) : Fields img j o.secs[j] := by
  obtain ⟨lz, res, hst⟩ := hL.secs j hj
  exact (fields_of_SecSt img hwf j (by rw [← hL.nsecs]; exact hj) lz res _ _ hst).1

/-- **`find_hash_section()`** on a loaded object is the specification-level search over the image's section
    headers -/
theorem findHash_eq (img : Bytes) (hwf : WellFormedImage img) (o : Obj) (hL : LoadedFrom img o) (i : Nat)
    (hi : i < eh img "e_shnum") : TQ.findHash o i = hashIdx img i := by
  have hn := eh_shnum_lt img
  unfold TQ.findHash hashIdx tq_findhash_nsec
  rw [hL.nsecs, findHashGo_eq img i (eh img "e_shnum") hn (by omega) o.secs 0 (by rw [hL.nsecs]; omega), hL.nsecs,
    List.range_eq_range']
  intro k hk
  have := fields_of_loaded img hwf o hL k hk
  rw [Nat.zero_add]
  exact ⟨this.link, this.stype⟩

theorem hashIdx_spec (img : Bytes) (i : Nat) (h : hashIdx img i ≠ 0) :
    hashIdx img i < eh img "e_shnum" ∧ hashMatch img i (hashIdx img i) = true := by
  unfold hashIdx at h ⊢
  cases hf : (List.range (eh img "e_shnum")).find? (hashMatch img i) with
  | none => rw [hf] at h; exact absurd rfl h
  | some j =>
    simp only [Option.getD_some]
    have h1 := List.find?_some hf
    have h2 := List.mem_of_find?_eq_some hf
    exact ⟨by simpa using h2, h1⟩

/-! ### `symbol_section_accessor( elf, sections[i] )` as `TQ.runQuery` builds it -/

theorem settleOpt_ready (img : Bytes) (hwf : WellFormedImage img) (o : Obj) (hL : LoadedFrom img o) (j : Nat) :
    LoadedFrom img (TQ.settleOpt o j).1 ∧ (TQ.settleOpt o j).1.segs = o.segs ∧
    (j < eh img "e_shnum" → ∃ s, (TQ.settleOpt o j).2 = some s ∧ SecReady img j s) ∧
    (eh img "e_shnum" ≤ j → (TQ.settleOpt o j).2 = none) := by
  unfold TQ.settleOpt
  by_cases hj : j < eh img "e_shnum"
  · obtain ⟨o1, s, h1, hL1, hR1, _, _, hseg, _⟩ := secResident_ready img hwf o hL j hj
    have : TQ.settle o j = some (o1, s) := h1
    simp only [this]
    exact ⟨hL1, hseg, fun _ => ⟨s, rfl, hR1⟩, fun h => by omega⟩
  · have : TQ.settle o j = none := secResident_none img o hL j (by omega)
    rw [this]
    exact ⟨hL, rfl, fun h => absurd h hj, fun _ => rfl⟩

/-- the symbol table accessor of C18's query model on a loaded object -/
theorem symTabFor_wf (img : Bytes) (hwf : WellFormedImage img) (o : Obj) (hL : LoadedFrom img o) (i : Nat)
    (hi : i < eh img "e_shnum") (hocc : occupiesFile (sh img i "sh_type") = true)
    (hent : sh img i "sh_entsize" = Spec.symSize (clsOf img)) (hlink : LinkOk img i) :
    ∃ o2 t, TQ.symTabFor o i = some (o2, t) ∧ LoadedFrom img o2 ∧ o2.segs = o.segs ∧
      t.cfg = ⟨clsOf img, encOf img⟩ ∧ SymTab.Wf t (secFileBytes img i) (linkedBytes img i) ∧
      SecReady img i t.sym ∧
      (∀ s, t.str = some s → linkIdx img i < eh img "e_shnum" ∧ SecReady img (linkIdx img i) s) ∧
      (hashIdx img i = 0 → t.hash = none) ∧
      (hashIdx img i ≠ 0 → ∃ h, t.hash = some h ∧ SecReady img (hashIdx img i) h) := by
  obtain ⟨o1, b1, h1, hL1, hR1, hc1, he1, hs1, _⟩ := secResident_ready img hwf o hL i hi
  have h1' : TQ.settle o i = some (o1, b1) := h1
  obtain ⟨_, _, _, hin⟩ := wf_sec img hwf i hi false
  have hidx : (tq_sym_strtab_index b1.link).toNat = linkIdx img i := by
    unfold tq_sym_strtab_index linkIdx
    rw [← hR1.link]
    simp only [BitVec.toNat_setWidth, Nat.reducePow]
  have hent' : b1.entSize = BitVec.ofNat 64 (SymTab.symSizeOf (clsOf img)) :=
    ofNat_toNat64 _ _ (by rw [hR1.entSize, hent, SymTab.symSizeOf_eq])
  have hstream : b1.size.toNat ≤ b1.streamSize.toNat := by
    rw [hR1.streamSize, hR1.size]
    have := hin hocc
    have h63 := (wf_sec img hwf i hi false).1
    simp only [BitVec.toNat_ofNat, Nat.reducePow]
    omega
  obtain ⟨hL2, hs2, r2a, r2b⟩ := settleOpt_ready img hwf o1 hL1 (linkIdx img i)
  have hfh : TQ.findHash (TQ.settleOpt o1 (linkIdx img i)).1 b1.index = hashIdx img i := by
    rw [hR1.index]; exact findHash_eq img hwf _ hL2 i hi
  have hhas : tq_sym_has_hash (BitVec.ofNat 16 (hashIdx img i)) = !(hashIdx img i == 0) := by
    have hn := eh_shnum_lt img
    by_cases hz : hashIdx img i = 0
    · rw [hz]; rfl
    · have := (hashIdx_spec img i hz).1
      have e : (BitVec.setWidth 32 (BitVec.ofNat 16 (hashIdx img i))).toNat = hashIdx img i := by
        simp only [BitVec.toNat_setWidth, BitVec.toNat_ofNat, Nat.reducePow]; omega
      have : (0#32 != BitVec.setWidth 32 (BitVec.ofNat 16 (hashIdx img i))) = true := by
        rw [bne_iff_ne]
        intro e0
        rw [← e0] at e
        exact hz e.symm
      simp only [tq_sym_has_hash, this]
      simp [hz]
  have hstr : SymTab.Wf
      { cfg := ⟨o.cls, o.enc⟩, sym := b1, str := (TQ.settleOpt o1 (linkIdx img i)).2, hash := none }
      (secFileBytes img i) (linkedBytes img i) := by
    refine ⟨by simp only [hL.cls]; exact hent', hstream, readsAs_ready hR1 hocc, ?_⟩
    by_cases hl : linkIdx img i < eh img "e_shnum"
    · obtain ⟨s, e, hR⟩ := r2a hl
      simp only [e, linkedBytes, hl, if_true]
      exact readsAs_ready hR (hlink hl)
    · simp only [r2b (Nat.le_of_not_lt hl), linkedBytes, hl, if_false]
  have hstrR : ∀ s, (TQ.settleOpt o1 (linkIdx img i)).2 = some s →
      linkIdx img i < eh img "e_shnum" ∧ SecReady img (linkIdx img i) s := by
    intro s hs
    by_cases hl : linkIdx img i < eh img "e_shnum"
    · obtain ⟨s', e, hR⟩ := r2a hl
      rw [e] at hs; cases hs; exact ⟨hl, hR⟩
    · rw [r2b (Nat.le_of_not_lt hl)] at hs; cases hs
  unfold TQ.symTabFor
  simp only [h1', hidx, hfh, hhas]
  by_cases hz : hashIdx img i = 0
  · simp only [hz, beq_self_eq_true, Bool.not_true, Bool.false_eq_true, if_false]
    refine ⟨_, _, rfl, hL2, hs2.trans hs1, by simp only [hL.cls, hL.enc], ?_, hR1, hstrR, fun _ => rfl,
      fun h => absurd rfl h⟩
    exact ⟨hstr.ent, hstr.stream, hstr.sym, hstr.str⟩
  · have hne : (hashIdx img i == 0) = false := by simpa using hz
    simp only [hne, Bool.not_false, if_true]
    obtain ⟨hlt, _⟩ := hashIdx_spec img i hz
    obtain ⟨hL3, hs3, r3a, _⟩ := settleOpt_ready img hwf _ hL2 (hashIdx img i)
    obtain ⟨h, eh', hRh⟩ := r3a hlt
    refine ⟨_, _, rfl, hL3, hs3.trans (hs2.trans hs1), by simp only [hL.cls, hL.enc], ?_, hR1, hstrR,
      fun h0 => absurd h0 hz, fun _ => ⟨h, eh', hRh⟩⟩
    exact ⟨hstr.ent, hstr.stream, hstr.sym, hstr.str⟩

/-! ### soundness of the fixed hash walks (Model/TableQuery.lean) -/

namespace TQSound
open SymTab

/-- the SysV chain walk (with the step bound of fixes/12) only ever holds the name and attributes of an entry -/
theorem sysvLoop_symAt {t : SymTab} {symB strB : Bytes} (h : Wf t symB strB) (hv : ValidNames t.cfg symB strB)
    (data : Option Bytes) (name : Bytes) (nbucket nchain : BitVec 32) :
    ∀ (fuel : Nat) (y steps : BitVec 32) (str : Bytes) (a : Attrs) (st : Bytes × Attrs),
      SymAt t.cfg symB strB str a → TQ.sysvLoop t data name nbucket nchain fuel y steps str a = .ok st →
      SymAt t.cfg symB strB st.1 st.2 := by
  intro fuel
  induction fuel with
  | zero =>
    intro y steps str a st hs e
    rw [TQ.sysvLoop] at e
    split at e
    · cases e
    · cases e; exact hs
  | succ k ih =>
    intro y steps str a st hs e
    rw [TQ.sysvLoop] at e
    split at e
    · split at e
      · cases e
      · rename_i y' _
        split at e
        · cases e
        · rename_i r er
          obtain ⟨p1, p2⟩ := getSymbol_symAt h hv _ _ _ r er
          cases hr : r.1 with
          | true => exact ih _ _ _ _ _ (p1 hr) e
          | false =>
            obtain ⟨q1, q2⟩ := p2 hr
            rw [q1, q2] at e
            exact ih _ _ _ _ _ hs e
    · cases e; exact hs

/-- **soundness of the fixed SysV walk** -/
theorem hashLookup_sound {t : SymTab} {symB strB : Bytes} (h : Wf t symB strB) (hv : ValidNames t.cfg symB strB)
    (hs : SecBuf) (name : Bytes) (a a' : Attrs) (e : TQ.hashLookup t hs name a = .ok (true, a')) :
    SymAt t.cfg symB strB name a' := by
  unfold TQ.hashLookup at e
  simp only [] at e
  split at e
  · cases e
  split at e
  · cases e
  split at e
  · cases e
  split at e
  · cases e
  split at e
  · cases e
  split at e
  · cases e
  rename_i r er
  obtain ⟨p1, _⟩ := getSymbol_symAt h hv _ _ _ r er
  split at e
  · cases e
  · rename_i hr
    have hr' : r.1 = true := by simpa [SymTie.sysv_head_missing_eq] using hr
    split at e
    · cases e
    · rename_i st es
      have := sysvLoop_symAt h hv _ _ _ _ _ _ _ _ _ st (p1 hr') es
      simp only [pure, Except.pure, Except.ok.injEq, Prod.mk.injEq, beq_iff_eq] at e
      rw [← e.1, ← e.2]; exact this

/-- the fixed GNU chain walk reports success only right after a successful read of a matching entry -/
theorem gnuLoop_sound {t : SymTab} {symB strB : Bytes} (h : Wf t symB strB) (hv : ValidNames t.cfg symB strB)
    (is32 : Bool) (data : Option Bytes) (name : Bytes) (hash symoffset : BitVec 32) (chainsBase : Nat)
    (nchains : BitVec 64) :
    ∀ (fuel : Nat) (ci ch : BitVec 32) (sn : Bytes) (a a' : Attrs),
      TQ.gnuLoopT is32 t data name hash symoffset chainsBase nchains fuel ci ch sn a = .ok (true, a') →
      SymAt t.cfg symB strB name a' := by
  cases is32 <;>
  ( intro fuel
    induction fuel with
    | zero => intro ci ch sn a a' e; rw [TQ.gnuLoopT] at e; cases e
    | succ k ih =>
      intro ci ch sn a a' e
      rw [TQ.gnuLoopT] at e
      simp only [Bool.false_eq_true, if_false, if_true] at e
      split at e
      · simp [pure, Except.pure] at e
      split at e
      · cases e
      rename_i r er
      split at e
      · rename_i hgate
        simp only [pure, Except.pure, Except.ok.injEq, Prod.mk.injEq, true_and] at e
        simp only [gnu32_name_match_gate, gnu64_name_match_gate, Bool.and_eq_true, beq_iff_eq] at hgate
        obtain ⟨⟨hm, hr⟩, hn⟩ := hgate
        have hm' : gnu32_hash_match ch hash = true ∧ gnu64_hash_match ch hash = true := by
          simp only [gnu32_hash_match, gnu64_hash_match, beq_iff_eq]; exact ⟨hm, hm⟩
        simp only [hm'.1, hm'.2, if_true] at er
        obtain ⟨p1, _⟩ := getSymbol_symAt h hv _ _ _ r er
        rw [← e, hn]; exact p1 hr
      · split at e
        · simp [pure, Except.pure] at e
        split at e
        · simp [pure, Except.pure] at e
        split at e
        · cases e
        · exact ih _ _ _ _ _ e )

/-- **soundness of the fixed GNU walk** -/
theorem gnuLookup_sound {t : SymTab} {symB strB : Bytes} (h : Wf t symB strB) (hv : ValidNames t.cfg symB strB)
    (is32 : Bool) (hs : SecBuf) (name : Bytes) (a a' : Attrs) (e : TQ.gnuLookupT is32 t hs name a = .ok (true, a')) :
    SymAt t.cfg symB strB name a' := by
  unfold TQ.gnuLookupT at e
  cases is32 <;>
  ( simp only [Bool.false_eq_true, if_false, if_true] at e
    split at e
    · simp [pure, Except.pure] at e
    split at e
    · cases e
    split at e
    · cases e
    split at e
    · cases e
    split at e
    · cases e
    split at e
    · simp [pure, Except.pure] at e
    split at e
    · cases e
    split at e
    · simp [pure, Except.pure] at e
    split at e
    · cases e
    split at e
    · split at e
      · simp [pure, Except.pure] at e
      split at e
      · cases e
      · exact gnuLoop_sound h hv _ _ _ _ _ _ _ _ _ _ _ _ _ e
    · simp [pure, Except.pure] at e )

/-- soundness of the hash phase of the fixed `get_symbol(name, …)` -/
theorem hashPhase_sound {t : SymTab} {symB strB : Bytes} (h : Wf t symB strB) (hv : ValidNames t.cfg symB strB)
    (name : Bytes) (a a' : Attrs) (e : TQ.hashPhase t name a = .ok (true, a')) :
    SymAt t.cfg symB strB name a' := by
  unfold TQ.hashPhase at e
  split at e
  · simp [pure, Except.pure] at e
  · rename_i hs _
    split at e
    · cases e
    · rename_i r1 e1
      split at e
      · exact gnuLookup_sound h hv _ _ _ _ _ e
      · simp only [pure, Except.pure, Except.ok.injEq] at e
        subst e
        split at e1
        · exact hashLookup_sound h hv _ _ _ _ e1
        · simp [pure, Except.pure] at e1

/-- **`TQ.getByName` = linear scan** : on any well-formed table with valid name offsets, accompanied by ANY hash
    section (or none), a result of the fixed `get_symbol(name, …)` says "found" exactly when some entry carries the
    name, with the attributes of an entry of that name - the first one's when the name is unique
    (`C09.lookup_name` for the code after fixes/11 - 13) -/
theorem lookup_name {t : SymTab} {symB strB : Bytes} (h : Wf t symB strB) (hv : ValidNames t.cfg symB strB)
    (name : Bytes) (a : Attrs) (r : Bool) (a' : Attrs) (e : TQ.getByName t name a = .ok (r, a')) :
    (r = true ↔ (Spec.lookupName (namesOfTable t.cfg symB strB) name).isSome = true) ∧
    (r = true → SymAt t.cfg symB strB name a') ∧
    ((∀ j j', j < countOf t.cfg.cls symB → j' < countOf t.cfg.cls symB →
        nameAt t.cfg symB strB j = some name → nameAt t.cfg symB strB j' = some name → j = j') →
      r = true → ∃ j0, Spec.lookupName (namesOfTable t.cfg symB strB) name = some j0 ∧
        a' = attrsOfRec (recAt t.cfg symB j0)) := by
  have hcnt : countOf t.cfg.cls symB ≤ symB.length := Nat.div_le_self _ _
  have hlt := t.sym.size.isLt
  have hsz := h.sym.size
  have hpresent : ∀ j, j < countOf t.cfg.cls symB → nameAt t.cfg symB strB j = some name →
      ∃ j0, Spec.lookupName (namesOfTable t.cfg symB strB) name = some j0 ∧ j0 < countOf t.cfg.cls symB ∧
        nameAt t.cfg symB strB j0 = some name := by
    intro j hj hn
    cases hl : Spec.lookupName (namesOfTable t.cfg symB strB) name with
    | none =>
      have := Spec.firstIdx_none hl name (by
        rw [List.mem_iff_getElem?]; exact ⟨j, by rw [namesOfTable_get]; simp [hj, hn]⟩)
      simp at this
    | some j0 =>
      obtain ⟨x, hx, hp, _⟩ := Spec.firstIdx_some hl
      rw [namesOfTable_get] at hx
      split at hx
      · rename_i hj0
        obtain ⟨n, hn0⟩ := Option.isSome_iff_exists.mp (hv _ hj0)
        simp only [hn0, Option.getD_some, Option.some.injEq] at hx
        subst hx
        exact ⟨j0, rfl, hj0, by rw [hn0]; simpa using hp⟩
      · cases hx
  unfold TQ.getByName at e
  split at e
  · cases e
  rename_i r1 e1
  simp only [TQTie.linear_needed, SymTie.byname_i_init] at e
  by_cases hr1 : r1.1 = true
  · -- found by a hash walk
    simp only [hr1, Bool.not_true, Bool.false_eq_true, if_false, pure, Except.pure, Except.ok.injEq] at e
    have e1' : TQ.hashPhase t name a = .ok (true, a') := by rw [e1, e]; rw [e] at hr1; simp at hr1; rw [hr1]
    have hr : r = true := by rw [e] at hr1; exact hr1
    obtain ⟨j, hj, hn, ha⟩ := hashPhase_sound h hv name a a' e1'
    obtain ⟨j0, hl, hj0, hn0⟩ := hpresent j hj hn
    refine ⟨⟨fun _ => by rw [hl]; rfl, fun _ => hr⟩, fun _ => ⟨j, hj, hn, ha⟩, fun hu _ => ⟨j0, hl, ?_⟩⟩
    rw [hu j0 j hj0 hj hn0 hn]; exact ha
  · -- fallback
    have hr1' : r1.1 = false := by cases hx : r1.1 <;> simp_all
    simp only [hr1', Bool.not_false, if_true] at e
    rw [symbolsNum_eq h] at e
    simp only [] at e
    have hcN : (BitVec.ofNat 64 (countOf t.cfg.cls symB)).toNat = countOf t.cfg.cls symB := by
      simp only [BitVec.toNat_ofNat, Nat.reducePow] at *; omega
    rw [hcN] at e
    obtain ⟨r', a'', e', p1, p2⟩ := linearGo_spec h hv name (countOf t.cfg.cls symB) 0 r1.2 (by omega)
    have e'' : t.linearGo name (countOf t.cfg.cls symB) 0 r1.2 = .ok (r', a'') := e'
    rw [e''] at e
    simp only [Except.ok.injEq, Prod.mk.injEq] at e
    obtain ⟨rfl, rfl⟩ := e
    cases hr : r' with
    | false =>
      have hnone : Spec.lookupName (namesOfTable t.cfg symB strB) name = none := by
        apply Spec.firstIdx_eq_none
        intro j b hb
        rw [namesOfTable_get] at hb
        split at hb
        · rename_i hj
          obtain ⟨n, hn0⟩ := Option.isSome_iff_exists.mp (hv _ hj)
          simp only [hn0, Option.getD_some, Option.some.injEq] at hb
          subst hb
          have := p1 hr j (Nat.zero_le _) hj
          rw [hn0] at this
          simpa using this
        · cases hb
      refine ⟨⟨fun c => (by cases c), fun c => (by rw [hnone] at c; simp at c)⟩, fun c => (by cases c), fun _ c => by cases c⟩
    | true =>
      obtain ⟨j, _, hj, hn, ha, hmin⟩ := p2 hr
      have hl : Spec.lookupName (namesOfTable t.cfg symB strB) name = some j := by
        apply Spec.firstIdx_eq_some (a := name)
        · rw [namesOfTable_get]; simp [hj, hn]
        · simp
        · intro j' h1 b hb
          rw [namesOfTable_get] at hb
          have hj' : j' < countOf t.cfg.cls symB := by omega
          obtain ⟨n, hn0⟩ := Option.isSome_iff_exists.mp (hv _ hj')
          simp only [hj', if_true, hn0, Option.getD_some, Option.some.injEq] at hb
          subst hb
          have := hmin j' (Nat.zero_le _) h1
          rw [hn0] at this
          simpa using this
      exact ⟨⟨fun _ => by rw [hl]; rfl, fun _ => rfl⟩, fun _ => ⟨j, hj, hn, ha⟩, fun _ _ => ⟨j, hl, ha⟩⟩

end TQSound

/-! ### every section of a loaded object carries the object's class

(`section_impl<T>` is instantiated for the file class; in the models `SecBuf.cls` stands for `T` and for the
`elf_file.get_class()` tests of the accessors.)  Needed for truncated files, where `LoadedFrom` is not available. -/

theorem decodeShdr_cls (c : Cls) (enc : Enc) (r : Bytes) (b : SecBuf) : (decodeShdr c enc r b).cls = b.cls := by
  cases c <;> rfl

theorem secLoad_cls (c : Cls) (enc : Enc) (tr : List Trans) (ls : LoadSt) (hdrOff : Int) (isLazy : Bool) (idx : Nat) :
    (secLoad c enc tr ls hdrOff isLazy idx).2.cls = c := by
  rw [secLoad_eq]
  split
  · rfl
  · split
    · show (secGetData c tr _ _).2.cls = c
      rw [(secGetData_sameHdr c tr _ _).cls]
      show (decodeShdr c enc _ _).cls = c
      rw [decodeShdr_cls]; rfl
    · show (decodeShdr c enc _ _).cls = c
      rw [decodeShdr_cls]; rfl

theorem loadSectionsLoop_cls (c : Cls) (enc : Enc) (tr : List Trans) (isLazy : Bool) (shoff : Int) (entsize : Nat) :
    ∀ (n i : Nat) (ls : LoadSt) (acc : List SecBuf), (∀ b ∈ acc, b.cls = c) →
      ∀ b ∈ (loadSectionsLoop c enc tr isLazy shoff entsize n i ls acc).2, b.cls = c := by
  intro n
  induction n with
  | zero => intro i ls acc hacc b hb; exact hacc b (by simpa [loadSectionsLoop] using hb)
  | succ n ih =>
    intro i ls acc hacc
    rw [loadSectionsLoop_succ]
    apply ih
    intro b hb
    rcases List.mem_cons.mp hb with rfl | hb
    · exact secLoad_cls c enc tr ls _ isLazy i
    · exact hacc b hb

theorem loadSecs0_cls (c : Cls) (enc : Enc) (tr : List Trans) (hdr : Bytes) (isLazy : Bool) (st : IStream) :
    ∀ b ∈ (loadSecs0 c enc tr hdr isLazy st).2, b.cls = c := by
  unfold loadSecs0
  split
  · intro b hb; cases hb
  · exact loadSectionsLoop_cls c enc tr isLazy _ _ _ 0 _ [] (fun b hb => by cases hb)

theorem loadSegsPhase_cls (o : Obj) (c : Cls) (enc : Enc) (hdr : Bytes) (isLazy : Bool) (ls : LoadSt)
    (secs : List SecBuf) (hc : o.cls = c) (hsecs : ∀ b ∈ secs, b.cls = c) (r : LoadRes)
    (h : loadSegsPhase o c enc hdr isLazy ls secs = .ok r) : ∀ b ∈ r.obj.secs, b.cls = r.obj.cls := by
  unfold loadSegsPhase at h
  split at h
  · cases h; intro b hb; rw [hc]; exact hsecs b hb
  · cases h; intro b hb; rw [hc]; exact hsecs b hb

theorem loadNamesK_cls (c : Cls) (enc : Enc) (tr : List Trans) (hdr : Bytes) (ls : LoadSt)
    (secs : List SecBuf) (k : LoadSt × List SecBuf → M LoadRes) (P : LoadRes → Prop)
    (hk : ∀ ls secs, (∀ b ∈ secs, b.cls = c) → ∀ r, k (ls, secs) = .ok r → P r)
    (hsecs : ∀ b ∈ secs, b.cls = c) (r : LoadRes) (h : loadNamesK c enc tr hdr ls secs k = .ok r) : P r := by
  unfold loadNamesK at h
  split at h
  · exact hk ls secs hsecs r h
  · split at h
    · exact hk ls secs hsecs r h
    · rename_i strtab hget
      have hmem : strtab ∈ secs := List.mem_of_getElem? hget
      cases hres : resolveNames (secGetData c tr ls strtab).2
          (secs.set (Hdr.e_shstrndx c enc hdr).toNat (secGetData c tr ls strtab).2) with
      | error e => rw [hres] at h; cases h
      | ok secs' =>
        rw [hres] at h
        refine hk _ secs' ?_ r h
        -- `resolveNames` only sets names
        have hgen : ∀ (l l' : List SecBuf), resolveNames (secGetData c tr ls strtab).2 l = .ok l' →
            (∀ b ∈ l, b.cls = c) → ∀ b ∈ l', b.cls = c := by
          intro l
          induction l with
          | nil => intro l' e _ b hb; simp [resolveNames, pure, Except.pure] at e; subst e; cases hb
          | cons x rest ih =>
            intro l' e hl b hb
            unfold resolveNames at e
            cases hg : getString (secGetData c tr ls strtab).2 x.nameOff with
            | error er => rw [hg] at e; cases e
            | ok nm =>
              rw [hg] at e
              cases hr : resolveNames (secGetData c tr ls strtab).2 rest with
              | error er => rw [hr] at e; cases nm <;> cases e
              | ok rest' =>
                rw [hr] at e
                have hrest := ih rest' hr (fun b hb => hl b (List.mem_cons_of_mem _ hb))
                cases nm with
                | none =>
                  simp only [bind, Except.bind, pure, Except.pure, Except.ok.injEq] at e
                  subst e
                  rcases List.mem_cons.mp hb with rfl | hb
                  · exact hl _ (List.mem_cons_self)
                  · exact hrest b hb
                | some nmv =>
                  simp only [bind, Except.bind, pure, Except.pure, Except.ok.injEq] at e
                  subst e
                  rcases List.mem_cons.mp hb with rfl | hb
                  · exact hl x (List.mem_cons_self)
                  · exact hrest b hb
        apply hgen _ _ hres
        intro b hb
        rcases List.mem_or_eq_of_mem_set hb with h' | h'
        · exact hsecs _ h'
        · rw [h', (secGetData_sameHdr c tr ls strtab).cls]; exact hsecs _ hmem

theorem loadAfterHdr_cls (o : Obj) (c : Cls) (enc : Enc) (hdr : Bytes) (isLazy : Bool) (st : IStream)
    (hc : o.cls = c) (r : LoadRes) (h : loadAfterHdr o c enc hdr isLazy st = .ok r) :
    ∀ b ∈ r.obj.secs, b.cls = r.obj.cls := by
  unfold loadAfterHdr at h
  have h2 := loadSecs0_cls c enc o.trans hdr isLazy st
  split at h
  · exact loadSegsPhase_cls o c enc hdr isLazy _ _ hc h2 r h
  · exact loadNamesK_cls c enc o.trans hdr _ _ _ (fun r => ∀ b ∈ r.obj.secs, b.cls = r.obj.cls)
      (fun ls secs hs r hr => loadSegsPhase_cls o c enc hdr isLazy ls secs hc hs r hr) h2 r h

/-- **every section of the object `load` leaves carries the object's class** (any input, any outcome) -/
theorem load_secs_cls (o : Obj) (st : IStream) (isLazy : Bool) (r : LoadRes) (h : load o st isLazy = .ok r) :
    ∀ b ∈ r.obj.secs, b.cls = r.obj.cls := by
  rw [load_eq] at h
  dsimp only at h
  have hfail : ∀ (o' : Obj) (st' : IStream), o'.secs = [] → (Except.ok (failRes o' st') : M LoadRes) = .ok r →
      ∀ b ∈ r.obj.secs, b.cls = r.obj.cls := by
    intro o' st' h1 e b hb
    cases e
    simp only [failRes, h1] at hb
    cases hb
  split at h
  · exact hfail _ _ rfl h
  split at h
  · exact hfail _ _ rfl h
  split at h
  · exact hfail _ _ rfl h
  · exact hfail _ _ rfl h
  · split at h
    · exact hfail _ _ rfl h
    · exact loadAfterHdr_cls _ _ _ _ _ _ rfl r h

/-! ### the dynamic accessor on sections of a truncated file -/
namespace DynPrefix
open DynAcc

theorem acc_eta (a : DynAcc) : ({ a with sec := a.sec } : DynAcc) = a := by cases a; rfl

/-- `get_entry` behind its index test on a dynamic section WITHOUT data: the record fabricated by the first guard of
    `generic_get_entry_dyn` (`tag = DT_NULL; value = 0`), whatever the index; the accessor is not changed -/
theorem getEntryCore_nodata (a : DynAcc) (hs : Settled a.sec) (hd : a.sec.data = none) (count idx : BitVec 64) :
    getEntryCore a count idx = .ok (a, if count.toNat ≤ idx.toNat then .invalid else .ok 0 0 []) := by
  unfold getEntryCore
  have hg : a.sec.getData = a.sec := getData_of_settled hs
  by_cases hv : count.toNat ≤ idx.toNat
  · have g0 : dyn_get_index_invalid idx count = true := by
      simp only [dyn_get_index_invalid, BitVec.ule, decide_eq_true_eq]; exact hv
    simp only [g0, if_true, hv]; rfl
  · have g0 : dyn_get_index_invalid idx count = false := by
      simp only [dyn_get_index_invalid, BitVec.ule, decide_eq_false_iff_not]; exact hv
    have hraw : rawEntryOn (dyn_get_is32 (classByte a.cfg.cls)) a.cfg.enc a.sec idx = .ok (0, 0) := by
      unfold rawEntryOn
      rw [hd]
      cases dyn_get_is32 (classByte a.cfg.cls) <;>
        simp only [dyn32_get_nodata, dyn64_get_nodata, Option.isNone_none, Bool.true_or, if_true,
          Bool.false_eq_true, if_false, DynTie.fabAt_eq] <;> rfl
    have hst : dyn_get_is_string_tag 0 = false := by decide
    simp only [g0, Bool.false_eq_true, if_false, hg, hraw, bind, Except.bind, hst, hv]
    rfl

/-- the counting loop on a section without data stops at once: the first fabricated entry is DT_NULL -/
theorem numLoop_nodata (a : DynAcc) (hs : Settled a.sec) (hd : a.sec.data = none) (fuel : Nat) (prev : BitVec 64) :
    numLoop fuel a 0 prev = .ok (a, 0) := by
  cases fuel with
  | zero => rfl
  | succ n =>
    unfold numLoop
    by_cases hl : dyn_num_loop 0 a.cache = true
    · have hc : ¬ a.cache.toNat ≤ (0 : BitVec 64).toNat := by
        simp only [dyn_num_loop, BitVec.ult, decide_eq_true_eq] at hl
        omega
      simp only [hl, if_true, getEntryCore_nodata a hs hd, hc, if_false, bind, Except.bind, GetRes.tagOr]
      have : dyn_num_tag_is_null 0 = true := by decide
      simp only [this, if_true]; rfl
    · simp only [hl, Bool.false_eq_true, if_false]; rfl

/-- what the dynamic accessor reports on a section without data: one entry if the header promises at least one
    record of the class's size, none otherwise -/
def fabCount (a : DynAcc) : BitVec 64 :=
  if dyn_num_recompute 0 a.sec.entSize a.needed then
    dyn_num_clamp (dyn_num_total a.sec.size a.sec.entSize) 0
  else 0

theorem entriesNum_nodata (a : DynAcc) (hs : Settled a.sec) (hd : a.sec.data = none) (hc : a.cache = 0) :
    a.entriesNum = .ok ({ a with cache := fabCount a }, fabCount a) := by
  obtain ⟨cfg, sec, str, cache⟩ := a
  simp only at hc hs hd
  subst hc
  unfold entriesNum fabCount
  by_cases hr : dyn_num_recompute 0 sec.entSize (DynAcc.needed ⟨cfg, sec, str, 0⟩) = true
  · have hne : sec.entSize ≠ 0 := by
      intro e
      rw [e] at hr
      revert hr; simp [dyn_num_recompute]
    simp only [hr, if_true, hne, if_false, DynTie.i_init]
    have := numLoop_nodata ⟨cfg, sec, str, dyn_num_total sec.size sec.entSize⟩ hs hd
      (dyn_num_total sec.size sec.entSize).toNat dyn_num_tag_init
    simp only [this, bind, Except.bind]
    rfl
  · simp only [hr, Bool.false_eq_true, if_false]
    rfl

theorem fabCount_le (a : DynAcc) : (fabCount a).toNat ≤ 1 := by
  unfold fabCount
  split
  · simp only [dyn_num_clamp]
    split
    · decide
    · rename_i h
      simp only [BitVec.ult, decide_eq_true_eq, Decidable.not_not] at h
      have : ((0 : BitVec 64) + BitVec.signExtend 64 1#32).toNat = 1 := by decide
      omega
  · decide

/-- **`get_entry(index, …)` of a new accessor on a dynamic section WITHOUT data**: the count is `fabCount a` (0 or 1),
    index 0 below it is the fabricated record `tag = DT_NULL, value = 0, str = ""`, every other index is refused -/
theorem getEntry_nodata (a : DynAcc) (hs : Settled a.sec) (hd : a.sec.data = none) (hc : a.cache = 0) (idx : BitVec 64) :
    a.getEntry idx = .ok ({ a with cache := fabCount a },
      if (fabCount a).toNat ≤ idx.toNat then .invalid else .ok 0 0 []) := by
  unfold getEntry
  simp only [entriesNum_nodata a hs hd hc, bind, Except.bind]
  exact getEntryCore_nodata { a with cache := fabCount a } hs hd _ _

/-! #### a linked string section without data answers like no string section -/

/-- replace the string section of the accessor a computation returns -/
def putStr {α : Type} (s : Option SecBuf) (x : M (DynAcc × α)) : M (DynAcc × α) :=
  match x with
  | .ok (a, r) => .ok ({ a with str := s }, r)
  | .error e => .error e

theorem getString_nodata (s0 : SecBuf) (hs : Settled s0) (hd : s0.data = none) (idx : BitVec 32) :
    DynAcc.getString (some s0) idx = .ok (some s0, none) := by
  unfold DynAcc.getString
  simp only [getData_of_settled hs, hd, dynstr_get_oob, Option.isNone_none, Bool.or_true, if_true]
  rfl

theorem getEntryCore_str (a : DynAcc) (s0 : SecBuf) (hs : Settled s0) (hd : s0.data = none) (h : a.str = some s0)
    (count idx : BitVec 64) :
    getEntryCore a count idx = putStr (some s0) (getEntryCore { a with str := none } count idx) := by
  obtain ⟨cfg, sec, str, cache⟩ := a
  simp only at h
  subst h
  unfold getEntryCore
  by_cases g0 : dyn_get_index_invalid idx count = true
  · simp only [g0, if_true]; rfl
  · simp only [g0, Bool.false_eq_true, if_false]
    cases hraw : rawEntryOn (dyn_get_is32 (classByte cfg.cls)) cfg.enc sec.getData idx with
    | error e => simp only [bind, Except.bind, putStr]
    | ok tv =>
      obtain ⟨tag, value⟩ := tv
      simp only [bind, Except.bind]
      by_cases hst : dyn_get_is_string_tag tag = true
      · simp only [hst, if_true]
        rw [getString_nodata s0 hs hd]
        simp only [DynAcc.getString, pure, Except.pure, bind, Except.bind,
          Option.isNone_none, dyn_get_string_null, putStr, if_true]
      · simp only [hst, Bool.false_eq_true, if_false, pure, Except.pure, putStr]

theorem getEntryCore_keeps_none (a : DynAcc) (h : a.str = none) (count idx : BitVec 64) (a' : DynAcc) (r : GetRes)
    (e : getEntryCore a count idx = .ok (a', r)) : a'.str = none := by
  obtain ⟨cfg, sec, str, cache⟩ := a
  simp only at h
  subst h
  unfold getEntryCore at e
  by_cases g0 : dyn_get_index_invalid idx count = true
  · simp only [g0, if_true, pure, Except.pure, Except.ok.injEq, Prod.mk.injEq] at e
    rw [← e.1]
  · simp only [g0, Bool.false_eq_true, if_false] at e
    cases hraw : rawEntryOn (dyn_get_is32 (classByte cfg.cls)) cfg.enc sec.getData idx with
    | error er => rw [hraw] at e; cases e
    | ok tv =>
      obtain ⟨tag, value⟩ := tv
      rw [hraw] at e
      simp only [bind, Except.bind] at e
      by_cases hst : dyn_get_is_string_tag tag = true
      · simp only [hst, if_true, DynAcc.getString, pure, Except.pure, bind, Except.bind, Option.isNone_none,
          dyn_get_string_null, Except.ok.injEq, Prod.mk.injEq] at e
        rw [← e.1]
      · simp only [hst, Bool.false_eq_true, if_false, pure, Except.pure, Except.ok.injEq, Prod.mk.injEq] at e
        rw [← e.1]

theorem str_none_eta (a : DynAcc) (h : a.str = none) : ({ a with str := none } : DynAcc) = a := by
  cases a; simp only at h; subst h; rfl

theorem numLoop_str (s0 : SecBuf) (hs : Settled s0) (hd : s0.data = none) :
    ∀ (fuel : Nat) (a : DynAcc) (i prev : BitVec 64), a.str = some s0 →
      numLoop fuel a i prev = putStr (some s0) (numLoop fuel { a with str := none } i prev) ∧
      ∀ a' j, numLoop fuel { a with str := none } i prev = .ok (a', j) → a'.str = none := by
  intro fuel
  induction fuel with
  | zero =>
    intro a i prev h
    refine ⟨?_, ?_⟩
    · cases a; simp only at h; subst h; rfl
    · intro a' j e
      simp only [numLoop, pure, Except.pure, Except.ok.injEq, Prod.mk.injEq] at e
      rw [← e.1]
  | succ n ih =>
    intro a i prev h
    unfold numLoop
    by_cases hl : dyn_num_loop i a.cache = true
    · simp only [hl, if_true]
      rw [getEntryCore_str a s0 hs hd h]
      cases hg : getEntryCore { a with str := none } a.cache i with
      | error e => exact ⟨by simp only [putStr, bind, Except.bind], fun a' j e' => by simp [bind, Except.bind] at e'⟩
      | ok ar =>
        obtain ⟨a1, r⟩ := ar
        have h1 : a1.str = none := getEntryCore_keeps_none _ rfl _ _ _ _ hg
        simp only [putStr, bind, Except.bind]
        by_cases hz : dyn_num_tag_is_null (r.tagOr prev) = true
        · simp only [hz, if_true, pure, Except.pure, putStr]
          refine ⟨trivial, ?_⟩
          intro a' j e
          simp only [Except.ok.injEq, Prod.mk.injEq] at e
          rw [← e.1]; exact h1
        · simp only [hz, Bool.false_eq_true, if_false]
          obtain ⟨ih1, ih2⟩ := ih { a1 with str := some s0 } (dyn_num_i_incr i) (r.tagOr prev) rfl
          have he : ({ ({ a1 with str := some s0 } : DynAcc) with str := none } : DynAcc) = a1 := by
            cases a1; simp only at h1; subst h1; rfl
          rw [he] at ih1 ih2
          exact ⟨ih1, ih2⟩
    · simp only [hl, Bool.false_eq_true, if_false, pure, Except.pure, putStr]
      refine ⟨?_, ?_⟩
      · cases a; simp only at h; subst h; rfl
      · intro a' j e
        simp only [Except.ok.injEq, Prod.mk.injEq] at e
        rw [← e.1]

theorem entriesNum_str (a : DynAcc) (s0 : SecBuf) (hs : Settled s0) (hd : s0.data = none) (h : a.str = some s0) :
    a.entriesNum = putStr (some s0) (DynAcc.entriesNum { a with str := none }) ∧
    ∀ a' n, DynAcc.entriesNum { a with str := none } = .ok (a', n) → a'.str = none := by
  obtain ⟨cfg, sec, str, cache⟩ := a
  simp only at h
  subst h
  unfold entriesNum
  have hn : DynAcc.needed ⟨cfg, sec, some s0, cache⟩ = DynAcc.needed ⟨cfg, sec, none, cache⟩ := rfl
  by_cases hr : dyn_num_recompute cache sec.entSize (DynAcc.needed ⟨cfg, sec, none, cache⟩) = true
  · simp only [hn, hr, if_true]
    by_cases hz : sec.entSize = 0
    · simp only [hz, if_true]
      exact ⟨rfl, fun a' n e => by cases e⟩
    · simp only [hz, if_false]
      obtain ⟨l1, l2⟩ := numLoop_str s0 hs hd (dyn_num_total sec.size sec.entSize).toNat
        ⟨cfg, sec, some s0, dyn_num_total sec.size sec.entSize⟩ dyn_num_i_init dyn_num_tag_init rfl
      rw [l1]
      cases hl : numLoop (dyn_num_total sec.size sec.entSize).toNat
          ⟨cfg, sec, none, dyn_num_total sec.size sec.entSize⟩ dyn_num_i_init dyn_num_tag_init with
      | error e =>
        have hl' : numLoop (dyn_num_total sec.size sec.entSize).toNat
            { (⟨cfg, sec, some s0, dyn_num_total sec.size sec.entSize⟩ : DynAcc) with str := none }
            dyn_num_i_init dyn_num_tag_init = .error e := hl
        simp only [hl', putStr, bind, Except.bind]
        exact ⟨trivial, fun a' n e' => by cases e'⟩
      | ok aj =>
        obtain ⟨a2, j⟩ := aj
        have hl' : numLoop (dyn_num_total sec.size sec.entSize).toNat
            { (⟨cfg, sec, some s0, dyn_num_total sec.size sec.entSize⟩ : DynAcc) with str := none }
            dyn_num_i_init dyn_num_tag_init = .ok (a2, j) := hl
        have h2 := l2 a2 j hl'
        simp only [hl', putStr, bind, Except.bind, pure, Except.pure]
        refine ⟨trivial, ?_⟩
        intro a' n e
        simp only [Except.ok.injEq, Prod.mk.injEq] at e
        rw [← e.1]; exact h2
  · simp only [hn, hr, Bool.false_eq_true, if_false, pure, Except.pure, putStr]
    refine ⟨trivial, ?_⟩
    intro a' n e
    simp only [Except.ok.injEq, Prod.mk.injEq] at e
    rw [← e.1]

/-- **a linked string section without data answers like no string section**: `get_entry` of an accessor whose
    `sections[sh_link]` is settled and data-less returns what the accessor without string section returns (and keeps
    its string section) -/
theorem getEntry_str (a : DynAcc) (s0 : SecBuf) (hs : Settled s0) (hd : s0.data = none) (h : a.str = some s0)
    (idx : BitVec 64) :
    a.getEntry idx = putStr (some s0) (DynAcc.getEntry { a with str := none } idx) := by
  obtain ⟨e1, e2⟩ := entriesNum_str a s0 hs hd h
  unfold getEntry
  rw [e1]
  cases hn : DynAcc.entriesNum { a with str := none } with
  | error e => simp only [putStr, bind, Except.bind]
  | ok an =>
    obtain ⟨a1, n⟩ := an
    have h1 := e2 a1 n hn
    simp only [putStr, bind, Except.bind]
    rw [getEntryCore_str { a1 with str := some s0 } s0 hs hd rfl]
    have he : ({ ({ a1 with str := some s0 } : DynAcc) with str := none } : DynAcc) = a1 := by
      cases a1; simp only at h1; subst h1; rfl
    rw [he]
    rfl

end DynPrefix

end ElfioVerif.LoadedTables
