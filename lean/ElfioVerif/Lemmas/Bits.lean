/-
Bit-level facts about the *generated* byte-swap functions (Gen/Funcs.lean):
the C++ `endianness_convertor` applied to a host (little-endian) read of a field
yields the big-endian value of the same bytes, and it is an involution.
This is the only file where `bv_decide` is allowed (see DESIGN.md §7); every use adds
an `…_native.bv_decide.ax_*` axiom which the audit lists by name.
-/
import ElfioVerif.Basic
import ElfioVerif.Gen.Funcs
import ElfioVerif.Gen.SitesC10
import Std.Tactic.BVDecide

namespace ElfioVerif
open Gen

theorem toNat_append8 {n : Nat} (x : BitVec n) (y : BitVec 8) :
    (x ++ y).toNat = x.toNat * 256 + y.toNat := by
  rw [BitVec.toNat_append, Nat.shiftLeft_eq]
  have hy : y.toNat < 2 ^ 8 := y.isLt
  rw [show x.toNat * 2 ^ 8 = x.toNat <<< 8 from (Nat.shiftLeft_eq _ _).symm,
      ← Nat.shiftLeft_add_eq_or_of_lt hy, Nat.shiftLeft_eq]

/-- involutions -/
theorem conv16_invol (x : BitVec 16) (b : Bool) : conv16 (conv16 x b) b = x := by
  cases b <;> simp only [conv16] <;> (try rfl) <;> bv_decide
theorem conv32_invol (x : BitVec 32) (b : Bool) : conv32 (conv32 x b) b = x := by
  cases b <;> simp only [conv32] <;> (try rfl) <;> bv_decide
theorem conv64_invol (x : BitVec 64) (b : Bool) : conv64 (conv64 x b) b = x := by
  cases b <;> simp only [conv64] <;> (try rfl) <;> bv_decide

@[simp] theorem conv16_false (x : BitVec 16) : conv16 x false = x := by simp [conv16]
@[simp] theorem conv32_false (x : BitVec 32) : conv32 x false = x := by simp [conv32]
@[simp] theorem conv64_false (x : BitVec 64) : conv64 x false = x := by simp [conv64]

/-- byte reversal, stated on concatenations of bytes -/
theorem conv16_bytes (a b : BitVec 8) : conv16 (b ++ a) true = a ++ b := by
  simp only [conv16]; bv_decide
theorem conv32_bytes (a b c d : BitVec 8) :
    conv32 (d ++ c ++ b ++ a) true = a ++ b ++ c ++ d := by
  simp only [conv32]; bv_decide
theorem conv64_bytes (a b c d e f g h : BitVec 8) :
    conv64 (h ++ g ++ f ++ e ++ d ++ c ++ b ++ a) true = a ++ b ++ c ++ d ++ e ++ f ++ g ++ h := by
  simp only [conv64]; bv_decide

/-! ### C10 — the ELF_ST_BIND tests of `generic_arrange_local_symbols` and the r_info packing of
`generic_set_entry_rel/rela` against the `get_r_sym` / `get_r_type` extractors -/

theorem arr_scan1_nonlocal_bits (b : BitVec 8) : arr64_scan1_nonlocal b = (b >>> 4 != 0#8) := by
  simp only [arr64_scan1_nonlocal, arr_conv8, STB_LOCAL]; bv_decide
theorem arr_scan2_local_bits (b : BitVec 8) : arr64_scan2_local b = (b >>> 4 == 0#8) := by
  simp only [arr64_scan2_local, arr_conv8, STB_LOCAL]; bv_decide

theorem rel64_sym_info (s t : BitVec 32) :
    rel64_r_sym (rsw_rel64_info s t) = s := by
  simp only [rel64_r_sym, rsw_rel64_info]; bv_decide
theorem rel64_type_info (s t : BitVec 32) :
    rel64_r_type (rsw_rel64_info s t) = t := by
  simp only [rel64_r_type, rsw_rel64_info]; bv_decide
theorem rel32_sym_info (s t : BitVec 32) (h : BitVec.ult s 16777216#32 = true) :
    rel32_r_sym (BitVec.setWidth 64 (rsw_rel32_info s t)) = s := by
  simp only [rel32_r_sym, rsw_rel32_info]; bv_decide
theorem rel32_type_info (s : BitVec 32) (t' : BitVec 64) :
    rel32_r_type (BitVec.setWidth 64 (rsw_rel32_info s (rel32_r_type t'))) = rel32_r_type t' := by
  simp only [rel32_r_type, rsw_rel32_info]; bv_decide
theorem setWidth_signExtend_32 (v : BitVec 32) : BitVec.setWidth 32 (BitVec.signExtend 64 v) = v := by
  bv_decide

end ElfioVerif
