/-
Bit-level facts about the *generated* byte-swap functions (Gen/Funcs.lean):
the C++ `endianness_convertor` applied to a host (little-endian) read of a field
yields the big-endian value of the same bytes, and it is an involution.
This is the only file where `bv_decide` is allowed (see DESIGN.md §7); every use adds
an `…_native.bv_decide.ax_*` axiom which the audit lists by name.
-/
import ElfioVerif.Basic
import ElfioVerif.Gen.Funcs
import ElfioVerif.Spec.Symbols
import Std.Tactic.BVDecide

namespace ElfioVerif
open Gen

theorem toNat_append8 {n : Nat} (x : BitVec n) (y : BitVec 8) :
    (x ++ y).toNat = x.toNat * 256 + y.toNat := by
  rw [BitVec.toNat_append, Nat.shiftLeft_eq]
  have hy : y.toNat < 2 ^ 8 := y.isLt
  rw [show x.toNat * 2 ^ 8 = x.toNat <<< 8 from (Nat.shiftLeft_eq _ _).symm,
      ← Nat.shiftLeft_add_eq_or_of_lt hy, Nat.shiftLeft_eq]

/-- involutions -/
theorem conv16_invol (x : BitVec 16) (b : Bool) : conv16 (conv16 x b) b = x := by
  cases b <;> simp only [conv16] <;> (try rfl) <;> bv_decide
theorem conv32_invol (x : BitVec 32) (b : Bool) : conv32 (conv32 x b) b = x := by
  cases b <;> simp only [conv32] <;> (try rfl) <;> bv_decide
theorem conv64_invol (x : BitVec 64) (b : Bool) : conv64 (conv64 x b) b = x := by
  cases b <;> simp only [conv64] <;> (try rfl) <;> bv_decide

@[simp] theorem conv16_false (x : BitVec 16) : conv16 x false = x := by simp [conv16]
@[simp] theorem conv32_false (x : BitVec 32) : conv32 x false = x := by simp [conv32]
@[simp] theorem conv64_false (x : BitVec 64) : conv64 x false = x := by simp [conv64]

/-- byte reversal, stated on concatenations of bytes -/
theorem conv16_bytes (a b : BitVec 8) : conv16 (b ++ a) true = a ++ b := by
  simp only [conv16]; bv_decide
theorem conv32_bytes (a b c d : BitVec 8) :
    conv32 (d ++ c ++ b ++ a) true = a ++ b ++ c ++ d := by
  simp only [conv32]; bv_decide
theorem conv64_bytes (a b c d e f g h : BitVec 8) :
    conv64 (h ++ g ++ f ++ e ++ d ++ c ++ b ++ a) true = a ++ b ++ c ++ d ++ e ++ f ++ g ++ h := by
  simp only [conv64]; bv_decide

/-! ### C09: hash-function steps and the `ELF_ST_*` macro uses -/

/-- one round of the generated `elf_hash` loop body is the gABI round -/
theorem elf_hash_step (h : BitVec 32) (c : BitVec 8) :
    (let h1 : BitVec 32 := (h <<< 4) + BitVec.setWidth 32 c
     let g : BitVec 32 := h1 &&& 4026531840#32
     let h2 := if (g != 0#32) = true then h1 ^^^ (g >>> 24) else h1
     h2 &&& ~~~g) = Spec.sysvStep h c := by
  simp only [Spec.sysvStep]
  by_cases hg : ((h <<< 4) + BitVec.setWidth 32 c) &&& 4026531840#32 = 0#32
  · simp [hg]
  · simp [hg]

/-- the gABI round in shift-free form (used for the arithmetic reading `sysvStepNat`) -/
theorem sysvStep_arith (h : BitVec 32) (c : BitVec 8) :
    Spec.sysvStep h c =
      (((h * 16#32 + BitVec.setWidth 32 c) ^^^ ((((h * 16#32 + BitVec.setWidth 32 c) >>> 28)) * 16#32)) &&& 268435455#32) := by
  simp only [Spec.sysvStep]
  bv_decide

theorem gnu_hash_step (h : BitVec 32) (c : BitVec 8) :
    ((h <<< 5) + h) + BitVec.setWidth 32 c = Spec.gnuStep h c := by
  simp only [Spec.gnuStep]
  bv_decide

/-- the shapes clang gives the `ELF_ST_INFO` / `ELF_ST_BIND` / `ELF_ST_TYPE` uses (operands promoted to
    `int`, result converted back to `unsigned char`) are the gABI macros on `unsigned char`.  Stated
    on explicit terms so that a change of the generated sites breaks Lemmas/Symbols.lean, not this
    file (which the driver imports). -/
theorem bits_st_info (b t : BitVec 8) :
    BitVec.setWidth 8 (((BitVec.setWidth 32 b) <<< 4) + ((BitVec.setWidth 32 t) &&& 15#32)) = Spec.stInfo b t := by
  simp only [Spec.stInfo]; bv_decide
theorem bits_st_bind (i : BitVec 8) :
    BitVec.setWidth 8 (BitVec.sshiftRight (BitVec.setWidth 32 i) 4) = Spec.stBind i := by
  simp only [Spec.stBind]; bv_decide
theorem bits_st_type (i : BitVec 8) :
    BitVec.setWidth 8 ((BitVec.setWidth 32 i) &&& 15#32) = Spec.stType i := by
  simp only [Spec.stType]; bv_decide
/-- packing then unpacking keeps the low four bits of binding and type -/
theorem st_bind_info (b t : BitVec 8) : Spec.stBind (Spec.stInfo b t) = b &&& 0xf := by
  simp only [Spec.stBind, Spec.stInfo]; bv_decide
theorem st_type_info (b t : BitVec 8) : Spec.stType (Spec.stInfo b t) = t &&& 0xf := by
  simp only [Spec.stType, Spec.stInfo]; bv_decide

end ElfioVerif
