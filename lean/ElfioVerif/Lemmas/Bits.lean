/-
Bit-level facts about the *generated* byte-swap functions (Gen/Funcs.lean):
the C++ `endianness_convertor` applied to a host (little-endian) read of a field
yields the big-endian value of the same bytes, and it is an involution.
This is the only file where `bv_decide` is allowed (see DESIGN.md §7); every use adds
an `…_native.bv_decide.ax_*` axiom which the audit lists by name.
-/
import ElfioVerif.Basic
import ElfioVerif.Gen.Funcs
import ElfioVerif.Gen.SitesC11
import ElfioVerif.Gen.SitesC10
import ElfioVerif.Spec.Symbols
import Std.Tactic.BVDecide

namespace ElfioVerif
open Gen

theorem toNat_append8 {n : Nat} (x : BitVec n) (y : BitVec 8) :
    (x ++ y).toNat = x.toNat * 256 + y.toNat := by
  rw [BitVec.toNat_append, Nat.shiftLeft_eq]
  have hy : y.toNat < 2 ^ 8 := y.isLt
  rw [show x.toNat * 2 ^ 8 = x.toNat <<< 8 from (Nat.shiftLeft_eq _ _).symm,
      ← Nat.shiftLeft_add_eq_or_of_lt hy, Nat.shiftLeft_eq]

/-- involutions -/
theorem conv16_invol (x : BitVec 16) (b : Bool) : conv16 (conv16 x b) b = x := by
  cases b <;> simp only [conv16] <;> (try rfl) <;> bv_decide
theorem conv32_invol (x : BitVec 32) (b : Bool) : conv32 (conv32 x b) b = x := by
  cases b <;> simp only [conv32] <;> (try rfl) <;> bv_decide
theorem conv64_invol (x : BitVec 64) (b : Bool) : conv64 (conv64 x b) b = x := by
  cases b <;> simp only [conv64] <;> (try rfl) <;> bv_decide

@[simp] theorem conv16_false (x : BitVec 16) : conv16 x false = x := by simp [conv16]
@[simp] theorem conv32_false (x : BitVec 32) : conv32 x false = x := by simp [conv32]
@[simp] theorem conv64_false (x : BitVec 64) : conv64 x false = x := by simp [conv64]

/-- byte reversal, stated on concatenations of bytes -/
theorem conv16_bytes (a b : BitVec 8) : conv16 (b ++ a) true = a ++ b := by
  simp only [conv16]; bv_decide
theorem conv32_bytes (a b c d : BitVec 8) :
    conv32 (d ++ c ++ b ++ a) true = a ++ b ++ c ++ d := by
  simp only [conv32]; bv_decide
theorem conv64_bytes (a b c d e f g h : BitVec 8) :
    conv64 (h ++ g ++ f ++ e ++ d ++ c ++ b ++ a) true = a ++ b ++ c ++ d ++ e ++ f ++ g ++ h := by
  simp only [conv64]; bv_decide

/-! ### C11: the relocation info macros (ELF32_R_SYM/TYPE/INFO, ELF64_R_SYM/TYPE/INFO)
as they occur in `get_sym_and_type<T>` and at the packing sites of `add_entry` / `generic_set_entry_*`.
ELF32 packs 24+8 bits, ELF64 packs 32+32 bits. -/

/-- ELF32: the symbol survives packing iff it fits 24 bits (the info word is 32 bits in the file) -/
theorem rel32_sym_pack (s t : BitVec 32) (hs : s < 16777216#32) :
    rel32_r_sym (BitVec.setWidth 64 (BitVec.setWidth 32 (reloc_addrel_pack32 s t))) = s := by
  simp only [rel32_r_sym, reloc_addrel_pack32]; bv_decide
/-- ELF32: the type survives packing iff it fits 8 bits -/
theorem rel32_type_pack (s t : BitVec 32) (ht : t < 256#32) :
    rel32_r_type (BitVec.setWidth 64 (BitVec.setWidth 32 (reloc_addrel_pack32 s t))) = t := by
  simp only [rel32_r_type, reloc_addrel_pack32]; bv_decide
/-- ELF32 in general: `(unsigned char)(t)` keeps the low 8 bits of the type, whatever the symbol -/
theorem rel32_type_pack_any (s t : BitVec 32) :
    rel32_r_type (BitVec.setWidth 64 (BitVec.setWidth 32 (reloc_addrel_pack32 s t))) = t &&& 255#32 := by
  simp only [rel32_r_type, reloc_addrel_pack32]; bv_decide
/-- ELF32 in general: the symbol comes back reduced to 24 bits -/
theorem rel32_sym_pack_any (s t : BitVec 32) :
    rel32_r_sym (BitVec.setWidth 64 (BitVec.setWidth 32 (reloc_addrel_pack32 s t))) = s &&& 16777215#32 := by
  simp only [rel32_r_sym, reloc_addrel_pack32]; bv_decide
/-- ELF64: every 32-bit symbol and every 32-bit type survive packing (also types ≥ 2^31, which
    pass through the `int` return type of the extractor) -/
theorem rel64_sym_pack (s t : BitVec 32) : rel64_r_sym (reloc_addrel_pack64 s t) = s := by
  simp only [rel64_r_sym, reloc_addrel_pack64]; bv_decide
theorem rel64_type_pack (s t : BitVec 32) : rel64_r_type (reloc_addrel_pack64 s t) = t := by
  simp only [rel64_r_type, reloc_addrel_pack64]; bv_decide
/-- re-packing what was unpacked gives the info word back (`set_entry` with the values of `get_entry`) -/
theorem rel32_pack_unpack (i : BitVec 64) :
    BitVec.setWidth 32 (reloc_addrel_pack32 (rel32_r_sym i) (rel32_r_type i)) = BitVec.setWidth 32 i := by
  simp only [rel32_r_sym, rel32_r_type, reloc_addrel_pack32]; bv_decide
theorem rel64_pack_unpack (i : BitVec 64) :
    reloc_addrel_pack64 (rel64_r_sym i) (rel64_r_type i) = i := by
  simp only [rel64_r_sym, rel64_r_type, reloc_addrel_pack64]; bv_decide
/-- the mask in `ELF64_R_TYPE` / `ELF64_R_INFO` is reduction to 32 bits -/
theorem and_mask32 (x : BitVec 64) : x &&& 4294967295#64 = BitVec.setWidth 64 (BitVec.setWidth 32 x) := by
  bv_decide
/-- an addend that fits 32 bits signed survives the ELF32 narrowing and sign extension -/
theorem sext32_trunc_of_fits (a : BitVec 64) (h1 : BitVec.sle (-2147483648#64) a = true)
    (h2 : BitVec.sle a 2147483647#64 = true) :
    BitVec.signExtend 64 (BitVec.setWidth 32 a) = a := by
  bv_decide

end ElfioVerif

namespace ElfioVerif
open Gen
/-- flag tests of the membership rule: `(flags & F) == F` for a single-bit `F` is a bit test -/
theorem and_eq_bit1 (x : BitVec 64) : ((x &&& 2#64) == 2#64) = x.getLsbD 1 := by
  bv_decide
theorem and_eq_bit10 (x : BitVec 64) : ((x &&& 1024#64) == 1024#64) = x.getLsbD 10 := by
  bv_decide
theorem and_ne_bit10 (x : BitVec 64) : ((x &&& 1024#64) != 1024#64) = !x.getLsbD 10 := by
  bv_decide
/-! ### C10 — the ELF_ST_BIND tests of `generic_arrange_local_symbols` and the r_info packing of
`generic_set_entry_rel/rela` against the `get_r_sym` / `get_r_type` extractors -/

theorem arr_scan1_nonlocal_bits (b : BitVec 8) :
    arr64_scan1_nonlocal arr_conv8 b = (b >>> 4 != 0#8) := by
  simp only [arr64_scan1_nonlocal, arr_conv8, STB_LOCAL]; bv_decide
theorem arr_scan2_local_bits (b : BitVec 8) :
    arr64_scan2_local arr_conv8 b = (b >>> 4 == 0#8) := by
  simp only [arr64_scan2_local, arr_conv8, STB_LOCAL]; bv_decide

theorem rel64_sym_info (s t : BitVec 32) :
    rel64_r_sym (rsw_rel64_info s t) = s := by
  simp only [rel64_r_sym, rsw_rel64_info]; bv_decide
theorem rel64_type_info (s t : BitVec 32) :
    rel64_r_type (rsw_rel64_info s t) = t := by
  simp only [rel64_r_type, rsw_rel64_info]; bv_decide
theorem rel32_sym_info (s t : BitVec 32) (h : BitVec.ult s 16777216#32 = true) :
    rel32_r_sym (BitVec.setWidth 64 (rsw_rel32_info s t)) = s := by
  simp only [rel32_r_sym, rsw_rel32_info]; bv_decide
theorem rel32_type_info (s : BitVec 32) (t' : BitVec 64) :
    rel32_r_type (BitVec.setWidth 64 (rsw_rel32_info s (rel32_r_type t'))) = rel32_r_type t' := by
  simp only [rel32_r_type, rsw_rel32_info]; bv_decide
theorem setWidth_signExtend_32 (v : BitVec 32) : BitVec.setWidth 32 (BitVec.signExtend 64 v) = v := by
  bv_decide

/-! ### C09: hash-function steps and the `ELF_ST_*` macro uses -/

/-- one round of the generated `elf_hash` loop body is the gABI round -/
theorem elf_hash_step (h : BitVec 32) (c : BitVec 8) :
    (let h1 : BitVec 32 := (h <<< 4) + BitVec.setWidth 32 c
     let g : BitVec 32 := h1 &&& 4026531840#32
     let h2 := if (g != 0#32) = true then h1 ^^^ (g >>> 24) else h1
     h2 &&& ~~~g) = Spec.sysvStep h c := by
  simp only [Spec.sysvStep]
  by_cases hg : ((h <<< 4) + BitVec.setWidth 32 c) &&& 4026531840#32 = 0#32
  · simp [hg]
  · simp [hg]

/-- the gABI round in shift-free form (used for the arithmetic reading `sysvStepNat`) -/
theorem sysvStep_arith (h : BitVec 32) (c : BitVec 8) :
    Spec.sysvStep h c =
      (((h * 16#32 + BitVec.setWidth 32 c) ^^^ ((((h * 16#32 + BitVec.setWidth 32 c) >>> 28)) * 16#32)) &&& 268435455#32) := by
  simp only [Spec.sysvStep]
  bv_decide

theorem gnu_hash_step (h : BitVec 32) (c : BitVec 8) :
    ((h <<< 5) + h) + BitVec.setWidth 32 c = Spec.gnuStep h c := by
  simp only [Spec.gnuStep]
  bv_decide

/-- the shapes clang gives the `ELF_ST_INFO` / `ELF_ST_BIND` / `ELF_ST_TYPE` uses (operands promoted to
    `int`, result converted back to `unsigned char`) are the gABI macros on `unsigned char`.  Stated
    on explicit terms so that a change of the generated sites breaks Lemmas/Symbols.lean, not this
    file (which the driver imports). -/
theorem bits_st_info (b t : BitVec 8) :
    BitVec.setWidth 8 (((BitVec.setWidth 32 b) <<< 4) + ((BitVec.setWidth 32 t) &&& 15#32)) = Spec.stInfo b t := by
  simp only [Spec.stInfo]; bv_decide
theorem bits_st_bind (i : BitVec 8) :
    BitVec.setWidth 8 (BitVec.sshiftRight (BitVec.setWidth 32 i) 4) = Spec.stBind i := by
  simp only [Spec.stBind]; bv_decide
theorem bits_st_type (i : BitVec 8) :
    BitVec.setWidth 8 ((BitVec.setWidth 32 i) &&& 15#32) = Spec.stType i := by
  simp only [Spec.stType]; bv_decide
/-- packing then unpacking keeps the low four bits of binding and type -/
theorem st_bind_info (b t : BitVec 8) : Spec.stBind (Spec.stInfo b t) = b &&& 0xf := by
  simp only [Spec.stBind, Spec.stInfo]; bv_decide
theorem st_type_info (b t : BitVec 8) : Spec.stType (Spec.stInfo b t) = t &&& 0xf := by
  simp only [Spec.stType, Spec.stInfo]; bv_decide

end ElfioVerif
