/-
Helper lemmas for C14: what `get_data()` exposes on a reachable section, checked reads inside
the section, slices of fixed-width tables, and the generated array / versym sites as arithmetic.
-/
import ElfioVerif.Props.C07
import ElfioVerif.Model.Array
import ElfioVerif.Model.Modinfo
import ElfioVerif.Model.Versym
import ElfioVerif.Lemmas.TablesTie
import ElfioVerif.Spec.Tables
namespace ElfioVerif
open Gen

namespace C14
open SecBuf C07

/-! ### `get_data()` on a reachable section -/

theorem getData_none_size0 {b : SecBuf} (hd : b.data = none) (hs : b.size = 0) :
    (b.getData.data = none ∨ b.getData.data = some (alloc 1)) ∧ b.getData.size = b.size := by
  unfold SecBuf.getData SecBuf.loadData
  split
  · cases hf : b.fileData with
    | none => simp [hd]
    | some d =>
      by_cases hn : b.isNullOrNobits = true
      · simp [hd, hn]
      · simp [hd, hn, hs]
  · simp [hd]

/-- what `get_data()` points at: nothing (then the section stands for the empty string) or an
    allocation whose first `size` bytes are the section's content -/
theorem getData_content {b : SecBuf} (hI : b.Inv) :
    b.getData.size = b.size ∧
    ((b.getData.data = none ∧ b.content = []) ∨
     (∃ a, b.getData.data = some a ∧ b.size.toNat ≤ a.length ∧ a.take b.size.toNat = b.content)) := by
  rcases hI with h | ⟨d, h⟩
  · rw [content_resident h]
    rcases h.buf with ⟨hd, hs, _⟩ | ⟨a, hd, h1, h2⟩
    · have hv : b.view = [] := by simp [SecBuf.view, hd]
      obtain ⟨h3, h4⟩ := getData_none_size0 hd hs
      refine ⟨h4, ?_⟩
      rcases h3 with h3 | h3
      · exact Or.inl ⟨h3, hv⟩
      · exact Or.inr ⟨alloc 1, h3, by rw [hs]; simp, by rw [hv, hs]; simp⟩
    · obtain ⟨g1, g2, _⟩ := getData_some hd
      exact ⟨g2, Or.inr ⟨a, g1, by omega, by simp [SecBuf.view, hd]⟩⟩
  · obtain ⟨r, v, _, c2, c3⟩ := getData_pending h
    rw [content_pending h]
    refine ⟨c2, Or.inr ?_⟩
    rcases r.buf with ⟨hd, _, _⟩ | ⟨a, hd, h1, h2⟩
    · rw [hd] at c3; simp at c3
    · refine ⟨a, hd, by rw [← c2]; omega, ?_⟩
      rw [← v, ← c2]; simp [SecBuf.view, hd]

/-- a checked read of a non-empty range inside the section succeeds and yields the content -/
theorem getData_read {b : SecBuf} (hI : b.Inv) (site : String) (off len : Nat)
    (h : off + len ≤ b.content.length) (hpos : 0 < len) :
    rdRange site b.getData.data off len = .ok (slice b.content off len) := by
  have hl := content_length hI
  obtain ⟨_, h1 | ⟨a, hd, h2, h3⟩⟩ := getData_content hI
  · rw [h1.2] at h; simp at h; omega
  · rw [hd, rdRange_some_ok (by omega), ← h3, slice_take (by omega)]

/-! ### fixed-width tables -/

theorem slice_append_right {x rest : Bytes} {w off len : Nat} (hx : x.length = w) :
    slice (x ++ rest) (w + off) len = slice rest off len := by
  unfold slice
  rw [List.drop_append, List.drop_eq_nil_of_le (by omega)]
  simp [hx]

theorem slice_append_left {x rest : Bytes} {len : Nat} (hx : x.length = len) :
    slice (x ++ rest) 0 len = x := by
  unfold slice
  simp [List.take_left' hx]

/-- the `k`-th `w`-byte slice of an encoded table is the encoding of its `k`-th entry -/
theorem slice_encodeTable (e : Enc) (w : Nat) (vs : List Nat) (k : Nat) (hk : k < vs.length) :
    slice (Spec.encodeArrTable e w vs) (k * w) w = encodeInt e w vs[k] := by
  induction vs generalizing k with
  | nil => simp at hk
  | cons v vs ih =>
    cases k with
    | zero => simp only [Spec.encodeArrTable, Nat.zero_mul, List.getElem_cons_zero]
              exact slice_append_left (by simp)
    | succ k =>
      simp only [Spec.encodeArrTable, List.getElem_cons_succ]
      rw [show (k + 1) * w = w + k * w by rw [Nat.add_mul]; omega]
      rw [slice_append_right (by simp)]
      exact ih k (by simpa using hk)

theorem encodeTable_append (e : Enc) (w : Nat) (xs ys : List Nat) :
    Spec.encodeArrTable e w (xs ++ ys) = Spec.encodeArrTable e w xs ++ Spec.encodeArrTable e w ys := by
  induction xs with
  | nil => simp [Spec.encodeArrTable]
  | cons x xs ih => simp [Spec.encodeArrTable, ih]

/-- the spec-level reader agrees: entry `k` of an encoded table is `vs[k]` truncated -/
theorem tableEntry_encodeTable (e : Enc) (w : Nat) (vs : List Nat) (k : Nat) (hk : k < vs.length) :
    Spec.tableEntry e w (Spec.encodeArrTable e w vs) k = some (vs[k] % 2 ^ (8 * w)) := by
  unfold Spec.tableEntry
  rw [if_pos, slice_encodeTable e w vs k hk, decode_encodeInt]
  rw [Spec.encodeTable_length, Nat.mul_comm]
  exact Nat.mul_le_mul_left w hk

/-! ### host order -/

/-- the byte order of the machine the library runs on (regenerated from the layout probe) -/
def hostEnc : Enc := if hostIsLittle then .lsb else .msb

theorem hostEncode_eq (n x : Nat) : hostEncode n x = encodeInt hostEnc n x := rfl
theorem hostDecode_eq (bs : Bytes) : hostDecode bs = decodeInt hostEnc bs := rfl
theorem needConv_hostEnc : needConv hostEnc = false := rfl
theorem needConv_false_iff (e : Enc) : needConv e = false ↔ e = hostEnc := by
  cases e <;> decide

/-! ### conversions at the widths of the generated convertor -/

theorem cv16_toNat (e : Enc) (bs : Bytes) (h : bs.length = 2) :
    (cv16 e (BitVec.ofNat 16 (hostDecode bs))).toNat = decodeInt e bs := by
  rw [← rdField_eq e bs (by omega)]
  simp [rdField, conv, h, cv16]

theorem cv32_toNat (e : Enc) (bs : Bytes) (h : bs.length = 4) :
    (cv32 e (BitVec.ofNat 32 (hostDecode bs))).toNat = decodeInt e bs := by
  rw [← rdField_eq e bs (by omega)]
  simp [rdField, conv, h, cv32]

theorem cv64_toNat (e : Enc) (bs : Bytes) (h : bs.length = 8) :
    (cv64 e (BitVec.ofNat 64 (hostDecode bs))).toNat = decodeInt e bs := by
  rw [← rdField_eq e bs (by omega)]
  simp [rdField, conv, h, cv64]

/-! ### the modinfo parser -/

theorem takeWhile_stop (s : UInt8) (x r : Bytes) (hx : ∀ c ∈ x, c ≠ s) :
    (x ++ s :: r).takeWhile (· ≠ s) = x := by
  induction x with
  | nil => simp
  | cons c x ih =>
    have hc : c ≠ s := hx c (by simp)
    simp only [List.cons_append, List.takeWhile_cons, hc, ne_eq, not_false_eq_true, decide_true, if_true]
    rw [ih (fun d hd => hx d (by simp [hd]))]

theorem slice_at (pre : Bytes) (c : UInt8) (r : Bytes) : slice (pre ++ c :: r) pre.length 1 = [c] := by
  simp [slice]

theorem cstr_spec (site : String) (pre x r : Bytes) (hx : ∀ c ∈ x, c ≠ 0) :
    Modinfo.cstr site (some (pre ++ (x ++ 0 :: r))) pre.length = .ok x := by
  simp only [Modinfo.cstr, List.drop_left' rfl]
  rw [takeWhile_stop 0 x r hx]
  simp [pure, Except.pure]

theorem splitRecord_spec (f v : Bytes) (hf : ∀ c ∈ f, c ≠ 61) (hl : f.length + 1 < 18446744073709551616) :
    Modinfo.splitRecord (f ++ 61 :: v) = (f, v) := by
  have h1 : (f ++ 61 :: v).takeWhile (· ≠ 61) = f := takeWhile_stop 61 f v hf
  have hloc : Modinfo.findEq (f ++ 61 :: v) = BitVec.ofNat 64 f.length := by
    simp only [Modinfo.findEq]; rw [h1]; simp
  have ht : (BitVec.ofNat 64 f.length).toNat = f.length := by
    simp only [BitVec.toNat_ofNat, Nat.reducePow]; omega
  have hs : (mod_value_start (BitVec.ofNat 64 f.length)).toNat = f.length + 1 := by
    simp only [mod_value_start, BitVec.toNat_add, ht]
    simp
    omega
  simp only [ModTie.splitRecord_eq, hloc, ht, hs]
  simp

theorem ofNat_toNat64 (i : BitVec 64) : BitVec.ofNat 64 i.toNat = i := by simp

/-- `skipNul` runs over a run of `z` NUL bytes and stops at the end of the section or at the first
    non-NUL byte -/
theorem skipNul_spec (z : Nat) : ∀ (pre tl ext : Bytes) (size i : BitVec 64) (fuel : Nat),
    size.toNat = pre.length + z + tl.length → i.toNat = pre.length →
    (tl = [] ∨ ∃ c tl', tl = c :: tl' ∧ c ≠ 0) → z < fuel →
    Modinfo.skipNul (some (pre ++ (List.replicate z 0 ++ (tl ++ ext)))) size fuel i
      = .ok (BitVec.ofNat 64 (pre.length + z)) := by
  induction z with
  | zero =>
    intro pre tl ext size i fuel hs hi htl hf
    obtain ⟨f, rfl⟩ : ∃ f, fuel = f + 1 := ⟨fuel - 1, by omega⟩
    have hsz := size.isLt
    simp only [Nat.reducePow] at hsz
    rcases htl with rfl | ⟨c, tl', rfl, hc⟩
    · have hcond : mod_loop_cond i size = false := by
        simp only [mod_loop_cond, BitVec.ult, decide_eq_false_iff_not]; simp at hs; omega
      simp only [Modinfo.skipNul, ModTie.skip_cond_eq, ModTie.skipByteIsNul_eq, ModTie.skip_incr, decide_eq_true_eq, hcond, Bool.false_eq_true, if_false, pure, Except.pure, Nat.add_zero]
      rw [← hi, ofNat_toNat64]
    · have hcond : mod_loop_cond i size = true := by
        simp only [mod_loop_cond, BitVec.ult, decide_eq_true_eq]; simp at hs; omega
      have hr : rdRange "modinfo/skip" (some (pre ++ (List.replicate 0 0 ++ (c :: tl' ++ ext)))) i.toNat 1
          = .ok [c] := by
        rw [rdRange_some_ok (by simp; omega), hi]
        simpa using slice_at pre c (tl' ++ ext)
      simp only [Modinfo.skipNul, ModTie.skip_cond_eq, ModTie.skipByteIsNul_eq, ModTie.skip_incr, decide_eq_true_eq, hcond, if_true, hr, bind, Except.bind, pure, Except.pure, Nat.add_zero]
      have : ([c] = [(0 : UInt8)]) = False := by simp [hc]
      simp only [this, if_false]
      rw [← hi, ofNat_toNat64]
  | succ z ih =>
    intro pre tl ext size i fuel hs hi htl hf
    obtain ⟨f, rfl⟩ : ∃ f, fuel = f + 1 := ⟨fuel - 1, by omega⟩
    have hsz := size.isLt
    simp only [Nat.reducePow] at hsz
    have hcond : mod_loop_cond i size = true := by
      simp only [mod_loop_cond, BitVec.ult, decide_eq_true_eq]; omega
    have hr : rdRange "modinfo/skip" (some (pre ++ (List.replicate (z + 1) 0 ++ (tl ++ ext)))) i.toNat 1
        = .ok [0] := by
      rw [rdRange_some_ok (by simp; omega), hi]
      simpa [List.replicate_succ] using slice_at pre 0 (List.replicate z 0 ++ (tl ++ ext))
    simp only [Modinfo.skipNul, ModTie.skip_cond_eq, ModTie.skipByteIsNul_eq, ModTie.skip_incr, decide_eq_true_eq, hcond, if_true, hr, bind, Except.bind, pure, Except.pure]
    have hi1 : (i + 1).toNat = (pre ++ [0]).length := by
      have h1 : (1 : BitVec 64).toNat = 1 := rfl
      simp only [BitVec.toNat_add, h1, List.length_append, List.length_cons, List.length_nil, Nat.reducePow]
      omega
    have := ih (pre ++ [0]) tl ext size (i + 1) f (by simp; omega) hi1 htl (by omega)
    simp only [List.replicate_succ, List.append_assoc, List.cons_append, List.nil_append,
      List.length_append, List.length_cons, List.length_nil] at this ⊢
    rw [this]
    congr 2; omega

theorem encodeModinfo_length_ge (as : List Modinfo.Attr) : as.length ≤ (Spec.encodeModinfo as).length := by
  induction as with
  | nil => simp [Spec.encodeModinfo]
  | cons a as ih => simp [Spec.encodeModinfo, Spec.encodeAttr]; omega

/-- the outer loop on a buffer `pre ++ zeros ++ records ++ ext` (section = everything but `ext`)
    appends exactly the records -/
theorem parseLoop_spec (rest : List Modinfo.Attr) : ∀ (pre ext : Bytes) (z : Nat) (size i : BitVec 64)
    (acc : List Modinfo.Attr) (fuel : Nat),
    size.toNat = pre.length + z + (Spec.encodeModinfo rest).length → i.toNat = pre.length →
    (∀ a ∈ rest, Spec.AttrOk a) → rest.length + 2 ≤ fuel →
    Modinfo.parseLoop (some (pre ++ (List.replicate z 0 ++ (Spec.encodeModinfo rest ++ ext)))) size fuel i acc
      = .ok (acc ++ rest) := by
  induction rest with
  | nil =>
    intro pre ext z size i acc fuel hs hi _ hf
    obtain ⟨f, rfl⟩ : ∃ f, fuel = f + 2 := ⟨fuel - 2, by omega⟩
    have hsz := size.isLt
    simp only [Nat.reducePow, Spec.encodeModinfo, List.length_nil, Nat.add_zero] at hsz hs
    by_cases hz : z = 0
    · have hcond : mod_loop_cond i size = false := by
        simp only [mod_loop_cond, BitVec.ult, decide_eq_false_iff_not]; omega
      simp [Modinfo.parseLoop, hcond, pure, Except.pure]
    · have hcond : mod_loop_cond i size = true := by
        simp only [mod_loop_cond, BitVec.ult, decide_eq_true_eq]; omega
      have hsk := skipNul_spec z pre [] ext size i (size.toNat + 1) (by simpa using hs) hi (Or.inl rfl) (by omega)
      have hend : (BitVec.ofNat 64 (pre.length + z)).toNat = size.toNat := by
        simp only [BitVec.toNat_ofNat, Nat.reducePow]; omega
      have hrec : mod_rec_cond (BitVec.ofNat 64 (pre.length + z)) size = false := by
        simp only [mod_rec_cond, BitVec.ult, decide_eq_false_iff_not]; omega
      have hcond2 : mod_loop_cond (BitVec.ofNat 64 (pre.length + z)) size = false := by
        simp only [mod_loop_cond, BitVec.ult, decide_eq_false_iff_not]; omega
      simp only [Spec.encodeModinfo] at hsk ⊢
      simp only [Modinfo.parseLoop, hcond, if_true, hsk, bind, Except.bind, hrec, Bool.false_eq_true, if_false,
        hcond2, pure, Except.pure, List.append_nil]
  | cons a rest ih =>
    intro pre ext z size i acc fuel hs hi hok hf
    obtain ⟨f, rfl⟩ : ∃ f, fuel = f + 1 := ⟨fuel - 1, by omega⟩
    obtain ⟨fld, val⟩ := a
    have hsz := size.isLt
    have hokA : Spec.AttrOk (fld, val) := hok _ (by simp)
    obtain ⟨hfld, hval⟩ := hokA
    simp only [Nat.reducePow] at hsz
    have hrecl : (Spec.encodeModinfo ((fld, val) :: rest)).length
        = fld.length + 1 + val.length + 1 + (Spec.encodeModinfo rest).length := by
      simp [Spec.encodeModinfo, Spec.encodeAttr]; omega
    rw [hrecl] at hs
    have hcond : mod_loop_cond i size = true := by
      simp only [mod_loop_cond, BitVec.ult, decide_eq_true_eq]; omega
    -- the record starts with a non-NUL byte
    have hhead : ∃ c tl', Spec.encodeModinfo ((fld, val) :: rest) = c :: tl' ∧ c ≠ 0 := by
      cases fld with
      | nil => exact ⟨61, val ++ 0 :: Spec.encodeModinfo rest,
                      by simp [Spec.encodeModinfo, Spec.encodeAttr, Spec.eqSign], by decide⟩
      | cons c fl => exact ⟨c, fl ++ 61 :: (val ++ 0 :: Spec.encodeModinfo rest),
                      by simp [Spec.encodeModinfo, Spec.encodeAttr, Spec.eqSign], (hfld c (by simp)).2⟩
    have hsk := skipNul_spec z pre (Spec.encodeModinfo ((fld, val) :: rest)) ext size i (size.toNat + 1)
      (by rw [hrecl]; omega) hi (Or.inr hhead) (by omega)
    have hi' : (BitVec.ofNat 64 (pre.length + z)).toNat = pre.length + z := by
      simp only [BitVec.toNat_ofNat, Nat.reducePow]; omega
    have hrec : mod_rec_cond (BitVec.ofNat 64 (pre.length + z)) size = true := by
      simp only [mod_rec_cond, BitVec.ult, decide_eq_true_eq]; omega
    -- the C string at the record start is `field=value`
    have hbuf : pre ++ (List.replicate z 0 ++ (Spec.encodeModinfo ((fld, val) :: rest) ++ ext))
        = (pre ++ List.replicate z 0) ++ ((fld ++ 61 :: val) ++ 0 :: (Spec.encodeModinfo rest ++ ext)) := by
      simp [Spec.encodeModinfo, Spec.encodeAttr, Spec.eqSign]
    have hinfo0 : ∀ c ∈ fld ++ 61 :: val, c ≠ 0 := by
      intro c hc
      simp only [List.mem_append, List.mem_cons] at hc
      rcases hc with h | rfl | h
      · exact (hfld c h).2
      · decide
      · exact hval c h
    have hcs := cstr_spec "modinfo/record" (pre ++ List.replicate z 0) (fld ++ 61 :: val)
      (Spec.encodeModinfo rest ++ ext) hinfo0
    simp only [List.length_append, List.length_replicate] at hcs
    have hsplit := splitRecord_spec fld val (fun c hc => (hfld c hc).1) (by omega)
    -- after the record, `i` points at its terminator: one NUL to skip, then the remaining records
    have hbuf2 : pre ++ (List.replicate z 0 ++ (Spec.encodeModinfo ((fld, val) :: rest) ++ ext))
        = (pre ++ List.replicate z 0 ++ (fld ++ 61 :: val)) ++
          (List.replicate 1 0 ++ (Spec.encodeModinfo rest ++ ext)) := by
      simp [Spec.encodeModinfo, Spec.encodeAttr, Spec.eqSign]
    have hadv : (mod_advance (BitVec.ofNat 64 (pre.length + z))
        (BitVec.ofNat 64 (fld ++ 61 :: val).length)).toNat
        = (pre ++ List.replicate z 0 ++ (fld ++ 61 :: val)).length := by
      simp only [mod_advance, BitVec.toNat_add, BitVec.toNat_ofNat, List.length_append, List.length_cons,
        List.length_replicate, Nat.reducePow]
      omega
    have := ih (pre ++ List.replicate z 0 ++ (fld ++ 61 :: val)) ext 1 size _ (acc ++ [(fld, val)]) f
      (by simp only [List.length_append, List.length_cons, List.length_replicate]; omega) hadv
      (fun a ha => hok a (by simp [ha])) (by simp at hf; omega)
    rw [← hbuf2] at this
    simp only [Modinfo.parseLoop, hcond, if_true, hsk, bind, Except.bind, hrec, hi']
    rw [hbuf, hcs]
    simp only [hsplit]
    rw [← hbuf, this]
    simp

theorem dropWhile_stop (s : UInt8) (x r : Bytes) (hx : ∀ c ∈ x, c ≠ s) :
    (x ++ s :: r).dropWhile (· ≠ s) = s :: r := by
  induction x with
  | nil => simp
  | cons c x ih =>
    have hc : c ≠ s := hx c (by simp)
    simp only [List.cons_append, List.dropWhile_cons, hc, ne_eq, not_false_eq_true, decide_true, if_true]
    exact ih (fun d hd => hx d (by simp [hd]))

theorem splitNulAux_record (x rest cur : Bytes) (hx : ∀ c ∈ x, c ≠ 0) (hne : cur ≠ [] ∨ x ≠ []) :
    Spec.splitNulAux (x ++ 0 :: rest) cur = (cur.reverse ++ x) :: Spec.splitNulAux rest [] := by
  induction x generalizing cur with
  | nil =>
    have : cur ≠ [] := by rcases hne with h | h; exact h; exact absurd rfl h
    have hc : cur.isEmpty = false := by cases cur <;> simp_all
    simp [Spec.splitNulAux, hc]
  | cons c x ih =>
    have hc : c ≠ 0 := hx c (by simp)
    simp only [List.cons_append, Spec.splitNulAux, hc, if_false]
    rw [ih (c :: cur) (fun d hd => hx d (by simp [hd])) (Or.inl (by simp))]
    simp

/-! ### version chains: checked reads against the reference decoder -/

theorem eq_ofNat_of_toNat {n : Nat} (x : BitVec n) (v : Nat) (h : x.toNat = v) : x = BitVec.ofNat n v := by
  subst h; simp

theorem field_some {e : Enc} {bs : Bytes} {off w v : Nat} (h : Spec.tabField e bs off w = some v) :
    off + w ≤ bs.length ∧ v = decodeInt e (slice bs off w) := by
  unfold Spec.tabField at h
  split at h
  · exact ⟨by assumption, by injection h with h; exact h.symm⟩
  · cases h

theorem rd16_spec {b : SecBuf} (hI : b.Inv) (e : Enc) (site : String) (off v : Nat)
    (h : Spec.tabField e b.content off 2 = some v) :
    ∃ x, rd16 site b.getData.data off = .ok x ∧ (cv16 e x).toNat = v := by
  obtain ⟨h1, h2⟩ := field_some h
  refine ⟨BitVec.ofNat 16 (hostDecode (slice b.content off 2)), ?_, ?_⟩
  · simp only [rd16, getData_read hI site off 2 h1 (by omega), bind, Except.bind, pure, Except.pure]
  · rw [h2]; exact cv16_toNat e _ (slice_length_of_le h1)

theorem rd32_spec {b : SecBuf} (hI : b.Inv) (e : Enc) (site : String) (off v : Nat)
    (h : Spec.tabField e b.content off 4 = some v) :
    ∃ x, rd32 site b.getData.data off = .ok x ∧ (cv32 e x).toNat = v := by
  obtain ⟨h1, h2⟩ := field_some h
  refine ⟨BitVec.ofNat 32 (hostDecode (slice b.content off 4)), ?_, ?_⟩
  · simp only [rd32, getData_read hI site off 4 h1 (by omega), bind, Except.bind, pure, Except.pure]
  · rw [h2]; exact cv32_toNat e _ (slice_length_of_le h1)

theorem strLookup_eq {s : SecBuf} (hS : s.Inv) (idx : BitVec 32) :
    strLookup (some s) idx = Spec.tabStrAt s.content idx.toNat := by
  have hl := content_length hS
  obtain ⟨_, ⟨h1, h2⟩ | ⟨a, hd, h2, h3⟩⟩ := getData_content hS
  · simp [strLookup, h1, h2, Spec.tabStrAt]
  · simp only [strLookup, hd, h3, Spec.tabStrAt]
    by_cases hi : s.size.toNat ≤ idx.toNat
    · simp only [hi, if_true]
      rw [List.drop_eq_nil_of_le (by omega)]
      simp
    · simp only [hi, if_false]

theorem decodeVerneed_fields {e : Enc} {bs : Bytes} {off : Nat} {r : Spec.Verneed}
    (h : Spec.decodeVerneed e bs off = some r) :
    Spec.tabField e bs off 2 = some r.version ∧ Spec.tabField e bs (off + 4) 4 = some r.file ∧
    Spec.tabField e bs (off + 8) 4 = some r.aux ∧ Spec.tabField e bs (off + 12) 4 = some r.next := by
  simp only [Spec.decodeVerneed, bind, Option.bind_eq_some_iff, pure, Option.some.injEq] at h
  obtain ⟨a1, h1, a2, h2, a3, h3, a4, h4, a5, h5, rfl⟩ := h
  exact ⟨h1, h3, h4, h5⟩


theorem decodeVernaux_fields {e : Enc} {bs : Bytes} {off : Nat} {r : Spec.Vernaux}
    (h : Spec.decodeVernaux e bs off = some r) :
    Spec.tabField e bs off 4 = some r.hash ∧ Spec.tabField e bs (off + 4) 2 = some r.flags ∧
    Spec.tabField e bs (off + 6) 2 = some r.other ∧ Spec.tabField e bs (off + 8) 4 = some r.name := by
  simp only [Spec.decodeVernaux, bind, Option.bind_eq_some_iff, pure, Option.some.injEq] at h
  obtain ⟨a1, h1, a2, h2, a3, h3, a4, h4, a5, h5, rfl⟩ := h
  exact ⟨h1, h2, h3, h4⟩

/-- the start of a chain that reaches a decodable record is itself decodable -/
theorem verneedOff_start {e : Enc} {bs : Bytes} {j vn off : Nat} {r' : Spec.Verneed}
    (h1 : Spec.verneedOff e bs j vn = some off) (h2 : Spec.decodeVerneed e bs off = some r') :
    ∃ r, Spec.decodeVerneed e bs vn = some r := by
  cases j with
  | zero => simp only [Spec.verneedOff, Option.some.injEq] at h1; subst h1; exact ⟨r', h2⟩
  | succ j =>
    simp only [Spec.verneedOff, bind, Option.bind_eq_some_iff] at h1
    obtain ⟨r, hr, _⟩ := h1
    exact ⟨r, hr⟩

theorem cv32_off (e : Enc) (x : BitVec 32) : (BitVec.setWidth 64 (cv32 e x)).toNat = (cv32 e x).toNat := by
  have := (cv32 e x).isLt
  simp only [BitVec.toNat_setWidth, Nat.reducePow] at *
  omega

theorem verneed_loop_spec {b : SecBuf} (hI : b.Inv) (e : Enc) (no : BitVec 32) (off : Nat)
    (r' : Spec.Verneed) (hr' : Spec.decodeVerneed e b.content off = some r') :
    ∀ (j : Nat) (i : BitVec 32) (vn : Nat) (r : Spec.Verneed) (fuel : Nat),
      Spec.decodeVerneed e b.content vn = some r →
      Spec.verneedOff e b.content j vn = some off →
      i.toNat + j = no.toNat → j < fuel →
      Verneed.loop e b.getData.data no fuel i (vn, vn + r.aux) = .ok (off, off + r'.aux) := by
  intro j
  induction j with
  | zero =>
    intro i vn r fuel hr ho hi hf
    obtain ⟨f, rfl⟩ : ∃ f, fuel = f + 1 := ⟨fuel - 1, by omega⟩
    simp only [Spec.verneedOff, Option.some.injEq] at ho
    subst ho
    rw [hr] at hr'; cases hr'
    have hc : vr_loop_cond i no = false := by
      simp only [vr_loop_cond, BitVec.ult, decide_eq_false_iff_not]; omega
    simp [Verneed.loop, VerTie.vr_i_incr_eq, hc, pure, Except.pure]
  | succ j ih =>
    intro i vn r fuel hr ho hi hf
    obtain ⟨f, rfl⟩ : ∃ f, fuel = f + 1 := ⟨fuel - 1, by omega⟩
    simp only [Spec.verneedOff, bind, Option.bind_eq_some_iff] at ho
    obtain ⟨r0, hr0, ho⟩ := ho
    rw [hr] at hr0; cases hr0
    obtain ⟨r1, hr1⟩ := verneedOff_start ho hr'
    have hc : vr_loop_cond i no = true := by
      simp only [vr_loop_cond, BitVec.ult, decide_eq_true_eq]; omega
    obtain ⟨_, _, _, hnext⟩ := decodeVerneed_fields hr
    obtain ⟨_, _, haux1, _⟩ := decodeVerneed_fields hr1
    obtain ⟨nx, hnx, hnxv⟩ := rd32_spec hI e "verneed/vn_next" (vn + 12) r.next hnext
    have hvn' : vn + (vr_next_off (cv32 e) nx).toNat = vn + r.next := by
      simp only [vr_next_off, cv32_off, hnxv]
    obtain ⟨ax, hax, haxv⟩ := rd32_spec hI e "verneed/vn_aux" (vn + r.next + 8) r1.aux haux1
    have hstep : Verneed.step e b.getData.data vn = .ok (vn + r.next, vn + r.next + r1.aux) := by
      have o1 : Elfxx_Verneed.vn_next_off = 12 := rfl
      have o2 : Elfxx_Verneed.vn_aux_off = 8 := rfl
      simp only [Verneed.step, o1, o2, hnx, hvn', hax, bind, Except.bind, pure, Except.pure, vr_aux_off1,
        cv32_off, haxv]
    have hi1 : (i + 1).toNat + j = no.toNat := by
      have h1 : (1 : BitVec 32).toNat = 1 := rfl
      have := no.isLt
      simp only [BitVec.toNat_add, h1, Nat.reducePow] at *
      omega
    have := ih (i + 1) (vn + r.next) r1 f hr1 ho hi1 (by omega)
    simp only [Verneed.loop, VerTie.vr_i_incr_eq, hc, if_true, hstep, bind, Except.bind, this]

theorem decodeVerdef_fields {e : Enc} {bs : Bytes} {off : Nat} {r : Spec.Verdef}
    (h : Spec.decodeVerdef e bs off = some r) :
    Spec.tabField e bs (off + 2) 2 = some r.flags ∧ Spec.tabField e bs (off + 4) 2 = some r.ndx ∧
    Spec.tabField e bs (off + 8) 4 = some r.hash ∧ Spec.tabField e bs (off + 12) 4 = some r.aux ∧
    Spec.tabField e bs (off + 16) 4 = some r.next := by
  simp only [Spec.decodeVerdef, bind, Option.bind_eq_some_iff, pure, Option.some.injEq] at h
  obtain ⟨a1, h1, a2, h2, a3, h3, a4, h4, a5, h5, a6, h6, a7, h7, rfl⟩ := h
  exact ⟨h2, h3, h5, h6, h7⟩

theorem decodeVerdaux_fields {e : Enc} {bs : Bytes} {off : Nat} {r : Spec.Verdaux}
    (h : Spec.decodeVerdaux e bs off = some r) : Spec.tabField e bs off 4 = some r.name := by
  simp only [Spec.decodeVerdaux, bind, Option.bind_eq_some_iff, pure, Option.some.injEq] at h
  obtain ⟨a1, h1, a2, h2, rfl⟩ := h
  exact h1

theorem verdefOff_start {e : Enc} {bs : Bytes} {j vd off : Nat} {r' : Spec.Verdef}
    (h1 : Spec.verdefOff e bs j vd = some off) (h2 : Spec.decodeVerdef e bs off = some r') :
    ∃ r, Spec.decodeVerdef e bs vd = some r := by
  cases j with
  | zero => simp only [Spec.verdefOff, Option.some.injEq] at h1; subst h1; exact ⟨r', h2⟩
  | succ j =>
    simp only [Spec.verdefOff, bind, Option.bind_eq_some_iff] at h1
    obtain ⟨r, hr, _⟩ := h1
    exact ⟨r, hr⟩

theorem verdef_loop_spec {b : SecBuf} (hI : b.Inv) (e : Enc) (no : BitVec 32) (off : Nat)
    (r' : Spec.Verdef) (hr' : Spec.decodeVerdef e b.content off = some r') :
    ∀ (j : Nat) (i : BitVec 32) (vd : Nat) (r : Spec.Verdef) (fuel : Nat),
      Spec.decodeVerdef e b.content vd = some r →
      Spec.verdefOff e b.content j vd = some off →
      i.toNat + j = no.toNat → j < fuel →
      Verdef.loop e b.getData.data no fuel i (vd, vd + r.aux) = .ok (off, off + r'.aux) := by
  intro j
  induction j with
  | zero =>
    intro i vd r fuel hr ho hi hf
    obtain ⟨f, rfl⟩ : ∃ f, fuel = f + 1 := ⟨fuel - 1, by omega⟩
    simp only [Spec.verdefOff, Option.some.injEq] at ho
    subst ho
    rw [hr] at hr'; cases hr'
    have hc : vd_loop_cond i no = false := by
      simp only [vd_loop_cond, BitVec.ult, decide_eq_false_iff_not]; omega
    simp [Verdef.loop, VerTie.vd_i_incr_eq, hc, pure, Except.pure]
  | succ j ih =>
    intro i vd r fuel hr ho hi hf
    obtain ⟨f, rfl⟩ : ∃ f, fuel = f + 1 := ⟨fuel - 1, by omega⟩
    simp only [Spec.verdefOff, bind, Option.bind_eq_some_iff] at ho
    obtain ⟨r0, hr0, ho⟩ := ho
    rw [hr] at hr0; cases hr0
    obtain ⟨r1, hr1⟩ := verdefOff_start ho hr'
    have hc : vd_loop_cond i no = true := by
      simp only [vd_loop_cond, BitVec.ult, decide_eq_true_eq]; omega
    obtain ⟨_, _, _, _, hnext⟩ := decodeVerdef_fields hr
    obtain ⟨_, _, _, haux1, _⟩ := decodeVerdef_fields hr1
    obtain ⟨nx, hnx, hnxv⟩ := rd32_spec hI e "verdef/vd_next" (vd + 16) r.next hnext
    have hvd' : vd + (vd_next_off (cv32 e) nx).toNat = vd + r.next := by
      simp only [vd_next_off, cv32_off, hnxv]
    obtain ⟨ax, hax, haxv⟩ := rd32_spec hI e "verdef/vd_aux" (vd + r.next + 12) r1.aux haux1
    have hstep : Verdef.step e b.getData.data vd = .ok (vd + r.next, vd + r.next + r1.aux) := by
      have o1 : Elfxx_Verdef.vd_next_off = 16 := rfl
      have o2 : Elfxx_Verdef.vd_aux_off = 12 := rfl
      simp only [Verdef.step, o1, o2, hnx, hvd', hax, bind, Except.bind, pure, Except.pure, vd_aux_off1,
        cv32_off, haxv]
    have hi1 : (i + 1).toNat + j = no.toNat := by
      have h1 : (1 : BitVec 32).toNat = 1 := rfl
      have := no.isLt
      simp only [BitVec.toNat_add, h1, Nat.reducePow] at *
      omega
    have := ih (i + 1) (vd + r.next) r1 f hr1 ho hi1 (by omega)
    simp only [Verdef.loop, VerTie.vd_i_incr_eq, hc, if_true, hstep, bind, Except.bind, this]

end C14
end ElfioVerif
