/-
Helper lemmas for C14: what `get_data()` exposes on a reachable section, checked reads inside
the section, slices of fixed-width tables, and the generated array / versym sites as arithmetic.
-/
import ElfioVerif.Props.C07
import ElfioVerif.Model.Array
import ElfioVerif.Model.Modinfo
import ElfioVerif.Model.Versym
import ElfioVerif.Spec.Tables
namespace ElfioVerif
open Gen

namespace C14
open SecBuf C07

/-! ### `get_data()` on a reachable section -/

theorem getData_none_size0 {b : SecBuf} (hd : b.data = none) (hs : b.size = 0) :
    (b.getData.data = none ∨ b.getData.data = some (alloc 1)) ∧ b.getData.size = b.size := by
  unfold SecBuf.getData SecBuf.loadData
  split
  · cases hf : b.fileData with
    | none => simp [hd]
    | some d =>
      by_cases hn : b.isNullOrNobits = true
      · simp [hd, hn]
      · simp [hd, hn, hs]
  · simp [hd]

/-- what `get_data()` points at: nothing (then the section stands for the empty string) or an
    allocation whose first `size` bytes are the section's content -/
theorem getData_content {b : SecBuf} (hI : b.Inv) :
    b.getData.size = b.size ∧
    ((b.getData.data = none ∧ b.content = []) ∨
     (∃ a, b.getData.data = some a ∧ b.size.toNat ≤ a.length ∧ a.take b.size.toNat = b.content)) := by
  rcases hI with h | ⟨d, h⟩
  · rw [content_resident h]
    rcases h.buf with ⟨hd, hs, _⟩ | ⟨a, hd, h1, h2⟩
    · have hv : b.view = [] := by simp [SecBuf.view, hd]
      obtain ⟨h3, h4⟩ := getData_none_size0 hd hs
      refine ⟨h4, ?_⟩
      rcases h3 with h3 | h3
      · exact Or.inl ⟨h3, hv⟩
      · exact Or.inr ⟨alloc 1, h3, by rw [hs]; simp, by rw [hv, hs]; simp⟩
    · obtain ⟨g1, g2, _⟩ := getData_some hd
      exact ⟨g2, Or.inr ⟨a, g1, by omega, by simp [SecBuf.view, hd]⟩⟩
  · obtain ⟨r, v, _, c2, c3⟩ := getData_pending h
    rw [content_pending h]
    refine ⟨c2, Or.inr ?_⟩
    rcases r.buf with ⟨hd, _, _⟩ | ⟨a, hd, h1, h2⟩
    · rw [hd] at c3; simp at c3
    · refine ⟨a, hd, by rw [← c2]; omega, ?_⟩
      rw [← v, ← c2]; simp [SecBuf.view, hd]

/-- a checked read of a non-empty range inside the section succeeds and yields the content -/
theorem getData_read {b : SecBuf} (hI : b.Inv) (site : String) (off len : Nat)
    (h : off + len ≤ b.content.length) (hpos : 0 < len) :
    rdRange site b.getData.data off len = .ok (slice b.content off len) := by
  have hl := content_length hI
  obtain ⟨_, h1 | ⟨a, hd, h2, h3⟩⟩ := getData_content hI
  · rw [h1.2] at h; simp at h; omega
  · rw [hd, rdRange_some_ok (by omega), ← h3, slice_take (by omega)]

/-! ### fixed-width tables -/

theorem slice_append_right {x rest : Bytes} {w off len : Nat} (hx : x.length = w) :
    slice (x ++ rest) (w + off) len = slice rest off len := by
  unfold slice
  rw [List.drop_append, List.drop_eq_nil_of_le (by omega)]
  simp [hx]

theorem slice_append_left {x rest : Bytes} {len : Nat} (hx : x.length = len) :
    slice (x ++ rest) 0 len = x := by
  unfold slice
  simp [List.take_left' hx]

/-- the `k`-th `w`-byte slice of an encoded table is the encoding of its `k`-th entry -/
theorem slice_encodeTable (e : Enc) (w : Nat) (vs : List Nat) (k : Nat) (hk : k < vs.length) :
    slice (Spec.encodeTable e w vs) (k * w) w = encodeInt e w vs[k] := by
  induction vs generalizing k with
  | nil => simp at hk
  | cons v vs ih =>
    cases k with
    | zero => simp only [Spec.encodeTable, Nat.zero_mul, List.getElem_cons_zero]
              exact slice_append_left (by simp)
    | succ k =>
      simp only [Spec.encodeTable, List.getElem_cons_succ]
      rw [show (k + 1) * w = w + k * w by rw [Nat.add_mul]; omega]
      rw [slice_append_right (by simp)]
      exact ih k (by simpa using hk)

theorem encodeTable_append (e : Enc) (w : Nat) (xs ys : List Nat) :
    Spec.encodeTable e w (xs ++ ys) = Spec.encodeTable e w xs ++ Spec.encodeTable e w ys := by
  induction xs with
  | nil => simp [Spec.encodeTable]
  | cons x xs ih => simp [Spec.encodeTable, ih]

/-- the spec-level reader agrees: entry `k` of an encoded table is `vs[k]` truncated -/
theorem tableEntry_encodeTable (e : Enc) (w : Nat) (vs : List Nat) (k : Nat) (hk : k < vs.length) :
    Spec.tableEntry e w (Spec.encodeTable e w vs) k = some (vs[k] % 2 ^ (8 * w)) := by
  unfold Spec.tableEntry
  rw [if_pos, slice_encodeTable e w vs k hk, decode_encodeInt]
  rw [Spec.encodeTable_length, Nat.mul_comm]
  exact Nat.mul_le_mul_left w hk

/-! ### host order -/

/-- the byte order of the machine the library runs on (regenerated from the layout probe) -/
def hostEnc : Enc := if hostIsLittle then .lsb else .msb

theorem hostEncode_eq (n x : Nat) : hostEncode n x = encodeInt hostEnc n x := rfl
theorem hostDecode_eq (bs : Bytes) : hostDecode bs = decodeInt hostEnc bs := rfl
theorem needConv_hostEnc : needConv hostEnc = false := rfl
theorem needConv_false_iff (e : Enc) : needConv e = false ↔ e = hostEnc := by
  cases e <;> decide

/-! ### conversions at the widths of the generated convertor -/

theorem cv16_toNat (e : Enc) (bs : Bytes) (h : bs.length = 2) :
    (cv16 e (BitVec.ofNat 16 (hostDecode bs))).toNat = decodeInt e bs := by
  rw [← rdField_eq e bs (by omega)]
  simp [rdField, conv, h, cv16]

theorem cv32_toNat (e : Enc) (bs : Bytes) (h : bs.length = 4) :
    (cv32 e (BitVec.ofNat 32 (hostDecode bs))).toNat = decodeInt e bs := by
  rw [← rdField_eq e bs (by omega)]
  simp [rdField, conv, h, cv32]

theorem cv64_toNat (e : Enc) (bs : Bytes) (h : bs.length = 8) :
    (cv64 e (BitVec.ofNat 64 (hostDecode bs))).toNat = decodeInt e bs := by
  rw [← rdField_eq e bs (by omega)]
  simp [rdField, conv, h, cv64]

end C14
end ElfioVerif
