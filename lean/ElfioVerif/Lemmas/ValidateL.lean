/-
Helper lemmas about `validate` (Model/Validate.lean): the interval lemma behind the overlap
condition, and the index bookkeeping of the nested loops (`overlapComplaints`, `zipIdx`).
-/
import ElfioVerif.Model.Validate
namespace ElfioVerif
open Gen

theorem bv_add_sub_assoc {n : Nat} (a b c : BitVec n) : a + b - c = a + (b - c) := by
  rw [BitVec.sub_eq_add_neg, BitVec.sub_eq_add_neg, BitVec.add_assoc]

/-! ### bridging: the segment check in the form the lemmas were written against -/

/-- `seg->get_type() == PT_LOAD && seg->get_file_size() > 0 && sec != nullptr` -/
theorem validate_seg_gate_eq (t : BitVec 32) (fs : BitVec 64) (nn : Bool) :
    validate_seg_gate t fs nn = (t == BitVec.ofNat 32 PT_LOAD && decide (0 < fs.toNat) && nn) := by
  have : BitVec.ult (BitVec.signExtend 64 0#32) fs = decide (0 < fs.toNat) := by
    have h0 : (BitVec.signExtend 64 0#32 : BitVec 64) = 0#64 := by decide
    rw [h0]; simp only [BitVec.ult, BitVec.toNat_ofNat, Nat.zero_mod]
  unfold validate_seg_gate; rw [this]

/-- `Elf64_Addr sec_addr = get_virtual_addr( seg->get_offset(), sec )` -/
@[simp] theorem validate_sec_addr_eq (o a so : BitVec 64) : validate_sec_addr o a so = get_virtual_addr o a so := rfl

/-- one iteration of `validate`'s segment loop, by cases on the section found -/
theorem segConflict_eq (secs : List SecBuf) (g : Seg) :
    segConflict secs g =
      match findProgSection secs g.offset with
      | none => false
      | some s =>
        g.stype == BitVec.ofNat 32 PT_LOAD && decide (0 < g.filesz.toNat) &&
          validate_addr_ne (get_virtual_addr g.offset s.addr s.offset) g.vaddr := by
  unfold segConflict
  simp only [validate_seg_gate_eq, validate_sec_addr_eq]
  cases findProgSection secs g.offset with
  | none => simp
  | some s =>
    simp only [Option.isSome_some, Bool.and_true]
    split
    · rename_i h; rw [h, Bool.true_and]
    · rename_i h
      have : (g.stype == BitVec.ofNat 32 PT_LOAD && decide (0 < g.filesz.toNat)) = false := by simpa using h
      rw [this, Bool.false_and]

/-! ### intervals -/

/-- the file range `[offset, offset+size)` of two sections intersect (as naturals) -/
def RangesIntersect (a b : SecBuf) : Prop :=
  a.offset.toNat < b.offset.toNat + b.size.toNat ∧ b.offset.toNat < a.offset.toNat + a.size.toNat

instance (a b : SecBuf) : Decidable (RangesIntersect a b) := by unfold RangesIntersect; infer_instance

theorem is_offset_in_section_iff (off so sz : BitVec 64) (hnw : so.toNat + sz.toNat < 18446744073709551616) :
    is_offset_in_section off so sz = true ↔ so.toNat ≤ off.toNat ∧ off.toNat < so.toNat + sz.toNat := by
  have h1 := off.isLt; have h2 := so.isLt; have h3 := sz.isLt
  simp only [is_offset_in_section, Bool.and_eq_true, BitVec.ule, BitVec.ult, decide_eq_true_eq,
    BitVec.toNat_add, Nat.reducePow]
  rw [Nat.mod_eq_of_lt hnw]

/-- what the overlap condition of `validate` says, without wrap-around -/
theorem overlapPair_iff (a b : SecBuf)
    (hwa : a.offset.toNat + a.size.toNat < 18446744073709551616)
    (hwb : b.offset.toNat + b.size.toNat < 18446744073709551616) :
    overlapPair a b = true ↔
      (a.stype ≠ BitVec.ofNat 32 SHT_NOBITS ∧ b.stype ≠ BitVec.ofNat 32 SHT_NOBITS ∧
       0 < a.size.toNat ∧ 0 < b.size.toNat ∧ 0 < a.offset.toNat ∧ 0 < b.offset.toNat ∧
       RangesIntersect a b) := by
  have h1 := a.offset.isLt; have h2 := a.size.isLt; have h3 := b.offset.isLt; have h4 := b.size.isLt
  unfold overlapPair validate_overlap RangesIntersect
  simp only [Bool.and_eq_true, Bool.or_eq_true, bne_iff_ne, ne_eq]
  have e0 : (BitVec.signExtend 64 0#32) = 0#64 := by decide
  have e1 : (BitVec.signExtend 64 1#32) = 1#64 := by decide
  rw [e0, e1]
  have pos : ∀ x : BitVec 64, BitVec.ult 0#64 x = true ↔ 0 < x.toNat := by
    intro x; simp [BitVec.ult]
  simp only [pos]
  constructor
  · rintro ⟨⟨⟨⟨⟨⟨ha, hb⟩, hsa⟩, hsb⟩, hoa⟩, hob⟩, hd⟩
    refine ⟨ha, hb, hsa, hsb, hoa, hob, ?_⟩
    have ea : ((a.offset + a.size) - 1#64).toNat = a.offset.toNat + a.size.toNat - 1 := by
      simp only [BitVec.toNat_sub, BitVec.toNat_add, BitVec.toNat_ofNat, Nat.reducePow, Nat.reduceMod]
      omega
    have eb : ((b.offset + b.size) - 1#64).toNat = b.offset.toNat + b.size.toNat - 1 := by
      simp only [BitVec.toNat_sub, BitVec.toNat_add, BitVec.toNat_ofNat, Nat.reducePow, Nat.reduceMod]
      omega
    rcases hd with ((hd | hd) | hd) | hd
    · rw [is_offset_in_section_iff _ _ _ hwb] at hd; omega
    · rw [is_offset_in_section_iff _ _ _ hwb, ea] at hd; omega
    · rw [is_offset_in_section_iff _ _ _ hwa] at hd; omega
    · rw [is_offset_in_section_iff _ _ _ hwa, eb] at hd; omega
  · rintro ⟨ha, hb, hsa, hsb, hoa, hob, hi1, hi2⟩
    refine ⟨⟨⟨⟨⟨⟨ha, hb⟩, hsa⟩, hsb⟩, hoa⟩, hob⟩, ?_⟩
    by_cases hle : b.offset.toNat ≤ a.offset.toNat
    · left; left; left
      rw [is_offset_in_section_iff _ _ _ hwb]; omega
    · left; right
      rw [is_offset_in_section_iff _ _ _ hwa]; omega

/-! ### the nested loops -/

theorem mem_overlapComplaints (secs : List SecBuf) (base i j : Nat) (a b : SecBuf)
    (hij : i < j) (hi : secs[i]? = some a) (hj : secs[j]? = some b) (hp : overlapPair a b = true) :
    Complaint.overlap (base + i) (base + j) ∈ overlapComplaints secs base := by
  induction secs generalizing base i j with
  | nil => simp at hi
  | cons x rest ih =>
    unfold overlapComplaints
    rw [List.mem_append]
    cases i with
    | zero =>
      left
      simp only [List.getElem?_cons_zero, Option.some.injEq] at hi
      subst hi
      obtain ⟨j', rfl⟩ : ∃ j', j = j' + 1 := ⟨j - 1, by omega⟩
      simp only [List.getElem?_cons_succ] at hj
      rw [List.mem_filterMap]
      refine ⟨(b, base + 1 + j'), ?_, ?_⟩
      · rw [List.mem_zipIdx_iff_le_and_getElem?_sub]
        refine ⟨Nat.le_add_right _ _, ?_⟩
        show rest[base + 1 + j' - (base + 1)]? = some b
        rw [show base + 1 + j' - (base + 1) = j' by omega]; exact hj
      · simp only [hp, if_true, Nat.add_zero]
        rw [show base + 1 + j' = base + (j' + 1) by omega]
    | succ i' =>
      right
      obtain ⟨j', rfl⟩ : ∃ j', j = j' + 1 := ⟨j - 1, by omega⟩
      simp only [List.getElem?_cons_succ] at hi hj
      have := ih (base + 1) i' j' (by omega) hi hj
      rw [show base + 1 + i' = base + (i' + 1) by omega, show base + 1 + j' = base + (j' + 1) by omega] at this
      exact this

/-- converse: every overlap complaint comes from a pair `i < j` satisfying the condition -/
theorem of_mem_overlapComplaints (secs : List SecBuf) (base : Nat) (p q : Nat)
    (h : Complaint.overlap p q ∈ overlapComplaints secs base) :
    ∃ i j a b, p = base + i ∧ q = base + j ∧ i < j ∧ secs[i]? = some a ∧ secs[j]? = some b ∧
      overlapPair a b = true := by
  induction secs generalizing base with
  | nil => simp [overlapComplaints] at h
  | cons x rest ih =>
    unfold overlapComplaints at h
    rw [List.mem_append] at h
    rcases h with h | h
    · rw [List.mem_filterMap] at h
      obtain ⟨⟨b, j⟩, hm, he⟩ := h
      rw [List.mem_zipIdx_iff_le_and_getElem?_sub] at hm
      by_cases hp : overlapPair x b = true
      · simp only [hp, if_true, Option.some.injEq, Complaint.overlap.injEq] at he
        refine ⟨0, j - base, x, b, by omega, by omega, by omega, rfl, ?_, hp⟩
        obtain ⟨hle, hg⟩ := hm
        rw [show j - base = (j - (base + 1)) + 1 by omega, List.getElem?_cons_succ]; exact hg
      · simp [hp] at he
    · obtain ⟨i, j, a, b, hp, hq, hij, hi, hj, ho⟩ := ih (base + 1) h
      exact ⟨i + 1, j + 1, a, b, by omega, by omega, by omega, by simpa using hi, by simpa using hj, ho⟩

theorem conflict_not_mem_overlapComplaints (secs : List SecBuf) (base s : Nat) :
    Complaint.conflict s ∉ overlapComplaints secs base := by
  induction secs generalizing base with
  | nil => simp [overlapComplaints]
  | cons x rest ih =>
    unfold overlapComplaints
    rw [List.mem_append]
    rintro (hc | hc)
    · rw [List.mem_filterMap] at hc
      obtain ⟨⟨b, j⟩, -, he⟩ := hc
      split at he <;> simp at he
    · exact ih _ hc

theorem overlapComplaints_eq_nil (secs : List SecBuf) (base : Nat)
    (h : ∀ (i j : Nat) (a b : SecBuf), i < j → secs[i]? = some a → secs[j]? = some b → overlapPair a b = false) :
    overlapComplaints secs base = [] := by
  rw [List.eq_nil_iff_forall_not_mem]
  intro c hc
  cases c with
  | overlap p q =>
    obtain ⟨i, j, a, b, -, -, hij, hi, hj, ho⟩ := of_mem_overlapComplaints secs base p q hc
    rw [h i j a b hij hi hj] at ho; exact Bool.noConfusion ho
  | conflict s => exact absurd hc (conflict_not_mem_overlapComplaints secs base s)

/-! ### the layout predicate `validate` is silent on -/

/-- What the layout passes of a successful `save` establish (C04: `layout_disjoint`,
    `member_equidistant`), in the form `validate` consumes it.  `validate` looks at *every* section
    whose type is not SHT_NOBITS — including SHT_NULL-typed ones — with size > 0 and offset > 0. -/
structure LayoutOk (o : Obj) : Prop where
  /-- no 64-bit wrap-around in the file range of a section validate looks at -/
  nowrap : ∀ s ∈ o.secs, s.stype ≠ BitVec.ofNat 32 SHT_NOBITS → 0 < s.size.toNat →
    s.offset.toNat + s.size.toNat < 18446744073709551616
  /-- file ranges of non-empty non-NOBITS sections with an offset are pairwise disjoint -/
  disjoint : ∀ (i j : Nat) (a b : SecBuf), i < j → o.secs[i]? = some a → o.secs[j]? = some b →
    a.stype ≠ BitVec.ofNat 32 SHT_NOBITS → b.stype ≠ BitVec.ofNat 32 SHT_NOBITS →
    0 < a.size.toNat → 0 < b.size.toNat → 0 < a.offset.toNat → 0 < b.offset.toNat →
    ¬ RangesIntersect a b
  /-- a PROGBITS section containing the first file byte of a loadable segment is at the same
      distance from the segment start in file and memory -/
  equidistant : ∀ g ∈ o.segs, g.stype = BitVec.ofNat 32 PT_LOAD → 0 < g.filesz.toNat →
    ∀ s ∈ o.secs, s.stype = BitVec.ofNat 32 SHT_PROGBITS →
      s.offset.toNat ≤ g.offset.toNat → g.offset.toNat < s.offset.toNat + s.size.toNat →
      s.addr + (g.offset - s.offset) = g.vaddr

/-! ### `validate` only reads a few header fields -/

/-- the section header fields `validate` reads -/
def vkey (s : SecBuf) : BitVec 32 × BitVec 64 × BitVec 64 × BitVec 64 := (s.stype, s.size, s.offset, s.addr)
/-- the program header fields `validate` reads -/
def vgkey (g : Seg) : BitVec 32 × BitVec 64 × BitVec 64 × BitVec 64 := (g.stype, g.filesz, g.offset, g.vaddr)

theorem overlapPair_vkey {a a' b b' : SecBuf} (ha : vkey a' = vkey a) (hb : vkey b' = vkey b) :
    overlapPair a' b' = overlapPair a b := by
  simp only [vkey, Prod.mk.injEq] at ha hb
  unfold overlapPair
  rw [ha.1, ha.2.1, ha.2.2.1, hb.1, hb.2.1, hb.2.2.1]

theorem overlapRow_vkey (a a' : SecBuf) (ha : vkey a' = vkey a) (l l' : List SecBuf)
    (h : l'.map vkey = l.map vkey) (i n : Nat) :
    ((l'.zipIdx n).filterMap fun (b, j) => if overlapPair a' b then some (Complaint.overlap i j) else none) =
    ((l.zipIdx n).filterMap fun (b, j) => if overlapPair a b then some (Complaint.overlap i j) else none) := by
  induction l generalizing l' n with
  | nil =>
    cases l' with
    | nil => rfl
    | cons x xs => simp at h
  | cons b rest ih =>
    cases l' with
    | nil => simp at h
    | cons b' rest' =>
      simp only [List.map_cons, List.cons.injEq] at h
      simp only [List.zipIdx_cons, List.filterMap_cons, overlapPair_vkey ha h.1, ih rest' h.2]

theorem overlapComplaints_vkey (l l' : List SecBuf) (h : l'.map vkey = l.map vkey) (i : Nat) :
    overlapComplaints l' i = overlapComplaints l i := by
  induction l generalizing l' i with
  | nil =>
    cases l' with
    | nil => rfl
    | cons x xs => simp at h
  | cons a rest ih =>
    cases l' with
    | nil => simp at h
    | cons a' rest' =>
      simp only [List.map_cons, List.cons.injEq] at h
      unfold overlapComplaints
      rw [overlapRow_vkey a a' h.1 rest rest' h.2, ih rest' h.2]

theorem find?_vkey (p : SecBuf → Bool) (hp : ∀ a b, vkey a = vkey b → p a = p b) (l l' : List SecBuf)
    (h : l'.map vkey = l.map vkey) : (l'.find? p).map vkey = (l.find? p).map vkey := by
  induction l generalizing l' with
  | nil =>
    cases l' with
    | nil => rfl
    | cons x xs => simp at h
  | cons a rest ih =>
    cases l' with
    | nil => simp at h
    | cons a' rest' =>
      simp only [List.map_cons, List.cons.injEq] at h
      simp only [List.find?_cons, hp a' a h.1]
      cases p a with
      | true => simp [h.1]
      | false => exact ih rest' h.2

theorem segConflict_vkey (l l' : List SecBuf) (h : l'.map vkey = l.map vkey) (g g' : Seg) (hg : vgkey g' = vgkey g) :
    segConflict l' g' = segConflict l g := by
  simp only [vgkey, Prod.mk.injEq] at hg
  rw [segConflict_eq, segConflict_eq]
  unfold findProgSection
  rw [hg.1, hg.2.1, hg.2.2.1, hg.2.2.2]
  have hf := find?_vkey (fun s => find_prog_section_match s.stype g.offset s.offset s.size)
    (by intro a b hab; simp only [vkey, Prod.mk.injEq] at hab; simp only [hab.1, hab.2.1, hab.2.2.1]) l l' h
  cases h1 : l.find? (fun s => find_prog_section_match s.stype g.offset s.offset s.size) with
  | none =>
    rw [h1] at hf
    cases h2 : l'.find? (fun s => find_prog_section_match s.stype g.offset s.offset s.size) with
    | none => rfl
    | some s' => rw [h2] at hf; simp at hf
  | some s =>
    rw [h1] at hf
    cases h2 : l'.find? (fun s => find_prog_section_match s.stype g.offset s.offset s.size) with
    | none => rw [h2] at hf; simp at hf
    | some s' =>
      rw [h2] at hf
      simp only [Option.map_some, Option.some.injEq, vkey, Prod.mk.injEq] at hf
      simp only [hf.2.2.1, hf.2.2.2]

/-- `validate` reads only type, size, offset, address of the sections and type, file size, offset,
    virtual address of the segments -/
theorem validate_congr (o o' : Obj) (hs : o'.secs.map vkey = o.secs.map vkey)
    (hg : o'.segs.map vgkey = o.segs.map vgkey) : validate o' = validate o := by
  unfold validate
  rw [overlapComplaints_vkey _ _ hs]
  congr 1
  have : ∀ (l l' : List Seg) (n : Nat), l'.map vgkey = l.map vgkey →
      ((l'.zipIdx n).filterMap fun (g, h) => if segConflict o'.secs g then some (Complaint.conflict h) else none) =
      ((l.zipIdx n).filterMap fun (g, h) => if segConflict o.secs g then some (Complaint.conflict h) else none) := by
    intro l
    induction l with
    | nil =>
      intro l' n h
      cases l' with
      | nil => rfl
      | cons x xs => simp at h
    | cons g rest ih =>
      intro l' n h
      cases l' with
      | nil => simp at h
      | cons g' rest' =>
        simp only [List.map_cons, List.cons.injEq] at h
        simp only [List.zipIdx_cons, List.filterMap_cons, segConflict_vkey _ _ hs g g' h.1, ih rest' _ h.2]
  exact this _ _ 0 hg

end ElfioVerif
