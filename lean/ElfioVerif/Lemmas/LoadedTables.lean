/-
Bridge between the loader theorems (C02 `load_eq_spec` and its section-level rungs in
Lemmas/LoadSpec.lean) and the accessor families (C08 … C14).

  `LoadedFrom img o`     the state of an object `load` produced from the well-formed image `img`,
                         possibly after any number of section data requests: class, byte order, no
                         address translation, the stream still is `img`, one section per header, each
                         in a state of the loader's per-section ladder (`SecSt`: header decoded from
                         the image's record, data resident or not, name resolved)
  `of_load`              `load` of a well-formed image (eager or lazy, either stream kind) yields it
  `SecReady img i b`     what `sections[i]->get_data()` against the real stream (`Inspect.secResident`
                         = `TQ.settle`) hands to an accessor: a *settled* section of the image's class whose
                         header fields are the specification's fields of section header `i`, whose visible
                         bytes are exactly the bytes the gABI assigns to the section
                         (`C02.secFileBytes img i` = `slice img sh_offset sh_size` for file-occupying types,
                         empty for SHT_NULL / SHT_NOBITS), whose allocation is `size + 1` bytes, and which —
                         for file-occupying types — satisfies C07's `SecBuf.Resident` (hence `SecBuf.Inv`)
  `secResident_ready`    `LoadedFrom` is kept by the request and the section handed out is `SecReady`

Used by Props/ComposeTables.lean.  Only the statements of the section-level lemmas `loadSections_inside`,
`loadNames_inside`, `secGetData_SecSt`, `load_gate`, `C02.secHdr_bridge`, `C02.secBytes_bridge`,
`C02.load_eq_spec` are relied on (nothing about segments).
-/
import ElfioVerif.Props.C01
import ElfioVerif.Props.C02
import ElfioVerif.Props.C08
import ElfioVerif.Lemmas.Inspect
set_option linter.unusedSimpArgs false
set_option linter.unusedVariables false
namespace ElfioVerif.LoadedTables
open Gen C02 Inspect

/-! ### what well-formedness says about section `i` -/

theorem wf_sec (img : Bytes) (hwf : WellFormedImage img) (i : Nat) (hi : i < eh img "e_shnum") (lz : Bool) :
    img.length < 9223372036854775808 ∧ shBase img i + shdrSize (clsOf img) ≤ img.length ∧
    SecInside img.length (secHdr (clsOf img) (encOf img) img (shBase img i) lz i) ∧
    (occupiesFile (sh img i "sh_type") = true → sh img i "sh_offset" + sh img i "sh_size" ≤ img.length) := by
  obtain ⟨_, _, _, _, h63, _, _, hS, _⟩ := hwf
  have hsz := sizes_eq (clsOf img)
  rw [← hsz.2.1] at hS
  obtain ⟨hk, hocc, _, _⟩ := hS i hi
  refine ⟨h63, hk, ?_, hocc⟩
  intro hty
  obtain ⟨_, b2, _, _, b5, b6, _⟩ := secHdr_bridge img (clsOf img) (encOf img) (shBase img i) lz i hk
  rw [isNullOrNobits_eq, b2] at hty
  rw [b5, b6]
  have : occupiesFile (sh img i "sh_type") = true := by unfold sh; simpa using hty
  exact hocc this

/-! ### the state of a loaded object -/

/-- an object `load` produced from `img`, after any number of section data requests -/
structure LoadedFrom (img : Bytes) (o : Obj) : Prop where
  cls : o.cls = clsOf img
  enc : o.enc = encOf img
  trans : o.trans = []
  sdata : o.stream.data = img
  nsecs : o.secs.length = eh img "e_shnum"
  secs : ∀ i (hi : i < o.secs.length), ∃ lz res,
    SecSt (clsOf img) (encOf img) img (shBase img i) lz i res (secName img i) o.secs[i]

/-- what an accessor is handed for section `i` of the image -/
structure SecReady (img : Bytes) (i : Nat) (b : SecBuf) : Prop where
  settled : Settled b
  cls : b.cls = clsOf img
  index : b.index = i
  name : b.name = secName img i
  nameOff : b.nameOff.toNat = sh img i "sh_name"
  stype : b.stype.toNat = sh img i "sh_type"
  flags : b.flags.toNat = sh img i "sh_flags"
  addr : b.addr.toNat = sh img i "sh_addr"
  offset : b.offset.toNat = sh img i "sh_offset"
  size : b.size.toNat = sh img i "sh_size"
  link : b.link.toNat = sh img i "sh_link"
  info : b.info.toNat = sh img i "sh_info"
  addrAlign : b.addrAlign.toNat = sh img i "sh_addralign"
  entSize : b.entSize.toNat = sh img i "sh_entsize"
  streamSize : b.streamSize = BitVec.ofNat 64 img.length
  /-- the visible bytes are the bytes the gABI assigns to the section -/
  view : b.view = secFileBytes img i
  /-- an allocation is `size + 1` bytes (the loader's NUL terminator) -/
  alloc : ∀ d, b.data = some d → d.length = b.size.toNat + 1
  /-- … namely the visible bytes followed by NUL -/
  nul : ∀ d, b.data = some d → d = b.view ++ [0]
  /-- file-occupying types: C07's invariant, with data in memory -/
  resident : occupiesFile (sh img i "sh_type") = true → b.Resident ∧ b.data.isSome = true
  /-- SHT_NULL / SHT_NOBITS: no data -/
  nodata : occupiesFile (sh img i "sh_type") = false → b.data = none

theorem SecReady.getData {img i b} (h : SecReady img i b) : b.getData = b := getData_of_settled h.settled

theorem SecReady.fits {img i b} (h : SecReady img i b) : C08.Fits b := by
  intro a ha; have := h.alloc a ha; omega

theorem SecReady.inv {img i b} (h : SecReady img i b) (hocc : occupiesFile (sh img i "sh_type") = true) :
    b.Inv ∧ b.content = secFileBytes img i := by
  obtain ⟨r, _⟩ := h.resident hocc
  exact ⟨Or.inl r, by rw [C07.content_resident r, h.view]⟩

theorem SecReady.fileBytes_length {img i b} (h : SecReady img i b) (hwf : WellFormedImage img)
    (hi : i < eh img "e_shnum") (hocc : occupiesFile (sh img i "sh_type") = true) :
    (secFileBytes img i).length = sh img i "sh_size" := by
  have := (wf_sec img hwf i hi false).2.2.2 hocc
  unfold secFileBytes
  rw [if_pos hocc, slice_length_of_le this]

/-- a section in the loader's "resident" state is ready -/
theorem ready_of_SecSt (img : Bytes) (hwf : WellFormedImage img) (i : Nat) (hi : i < eh img "e_shnum")
    (lz : Bool) (b : SecBuf)
    (hb : SecSt (clsOf img) (encOf img) img (shBase img i) lz i true (secName img i) b) :
    SecReady img i b := by
  obtain ⟨h63, hk, hin, hocc⟩ := wf_sec img hwf i hi lz
  obtain ⟨f1, f2, f3, f4, f5, f6, f7, f8, f9, f10⟩ :=
    secHdr_bridge img (clsOf img) (encOf img) (shBase img i) lz i hk
  obtain ⟨fd, L, hbe, hL⟩ := hb
  have hty : isNullOrNobitsTy (secHdr (clsOf img) (encOf img) img (shBase img i) lz i).stype =
      !occupiesFile (sh img i "sh_type") := by rw [isNullOrNobits_eq, f2]; rfl
  have hview : b.view = secFileBytes img i := by
    unfold SecBuf.view
    have e1 : b.data = (secData_ls img (secHdr (clsOf img) (encOf img) img (shBase img i) lz i)).1 := by
      rw [hbe]; simp
    have e2 : b.size = (secHdr (clsOf img) (encOf img) img (shBase img i) lz i).size := by rw [hbe]
    rw [e1, e2, secData_take img _ hin, secBytes_bridge img lz i hk]
  have hdata : b.data = (secData_ls img (secHdr (clsOf img) (encOf img) img (shBase img i) lz i)).1 := by
    rw [hbe]; simp
  have hdsz : b.dataSize = (secData_ls img (secHdr (clsOf img) (encOf img) img (shBase img i) lz i)).2 := by
    rw [hbe]; simp
  have hsize : b.size = (secHdr (clsOf img) (encOf img) img (shBase img i) lz i).size := by rw [hbe]
  have hstype : b.stype = (secHdr (clsOf img) (encOf img) img (shBase img i) lz i).stype := by rw [hbe]
  refine ⟨?_, by rw [hbe]; simp [secHdr, secInit], by rw [hbe]; simp [secHdr, secInit], by rw [hbe],
    by rw [hbe]; exact f1, by rw [hbe]; exact f2, by rw [hbe]; exact f3, by rw [hbe]; exact f4,
    by rw [hbe]; exact f5, by rw [hbe]; exact f6, by rw [hbe]; exact f7, by rw [hbe]; exact f8,
    by rw [hbe]; exact f9, by rw [hbe]; exact f10, by rw [hbe]; simp [secHdr, secInit], hview, ?_, ?_, ?_, ?_⟩
  · -- settled
    unfold Settled; rw [hbe]; cases L <;> rfl
  · -- allocation
    intro d hd
    rw [hdata] at hd
    unfold secData_ls at hd
    rw [hsize]
    split at hd
    · cases hd
    · rename_i hnn
      have hi' := hin (by simpa using hnn)
      split at hd
      · rename_i hz
        simp only [Option.some.injEq] at hd; subst hd; rw [hz]; simp [alloc]
      · simp only [Option.some.injEq] at hd; subst hd
        simp [slice_length_of_le hi']
  · -- terminator
    intro d hd
    have hv : b.view = d.take b.size.toNat := by simp [SecBuf.view, hd]
    rw [hv]
    rw [hdata] at hd
    unfold secData_ls at hd
    rw [hsize]
    split at hd
    · cases hd
    · rename_i hnn
      have hi' := hin (by simpa using hnn)
      split at hd
      · rename_i hz
        simp only [Option.some.injEq] at hd; subst hd; rw [hz]; rfl
      · simp only [Option.some.injEq] at hd; subst hd
        rw [List.take_left' (slice_length_of_le hi')]
  · -- resident
    intro ho
    have hnn : isNullOrNobitsTy (secHdr (clsOf img) (encOf img) img (shBase img i) lz i).stype = false := by
      rw [hty, ho]; rfl
    have hi' := hin hnn
    have hnb : b.stype ≠ BitVec.ofNat 32 SHT_NOBITS := by
      intro e
      rw [hstype] at e
      rw [e] at hnn
      simp [isNullOrNobitsTy] at hnn
    by_cases hz : (secHdr (clsOf img) (encOf img) img (shBase img i) lz i).size = 0
    · have hd' : b.data = some (ElfioVerif.alloc 1) := by rw [hdata]; simp [secData_ls, hnn, hz]
      have hs' : b.dataSize = 0 := by rw [hdsz]; simp [secData_ls, hnn, hz]
      refine ⟨⟨hnb, fun e => (by rw [hd'] at e; cases e), Or.inr ⟨_, hd', ?_, ?_⟩, ?_⟩, by rw [hd']; rfl⟩
      · rw [hsize, hz, hs']; exact Nat.le_refl _
      · rw [hs']; simp
      · rw [hs']; simp
    · have hd' : b.data = some (slice img (secHdr (clsOf img) (encOf img) img (shBase img i) lz i).offset.toNat
          (secHdr (clsOf img) (encOf img) img (shBase img i) lz i).size.toNat ++ [0]) := by
        rw [hdata]; unfold secData_ls; rw [hnn]; simp only [Bool.false_eq_true, if_false]; rw [if_neg hz]
      have hs' : b.dataSize = (secHdr (clsOf img) (encOf img) img (shBase img i) lz i).size := by
        rw [hdsz]; unfold secData_ls; rw [hnn]; simp only [Bool.false_eq_true, if_false]; rw [if_neg hz]
      refine ⟨⟨hnb, fun e => (by rw [hd'] at e; cases e), Or.inr ⟨_, hd', ?_, ?_⟩, ?_⟩, by rw [hd']; rfl⟩
      · rw [hsize, hs']; exact Nat.le_refl _
      · rw [hs']; simp [slice_length_of_le hi']
      · rw [hs', hsize]; omega
  · -- no data
    intro ho
    have hnn : isNullOrNobitsTy (secHdr (clsOf img) (encOf img) img (shBase img i) lz i).stype = true := by
      rw [hty, ho]; rfl
    rw [hdata]; simp [secData_ls, hnn]

/-! ### `load` of a well-formed image -/

/-- **`load` of a well-formed image yields `LoadedFrom`** (eager or lazy, either stream kind), together
    with everything `C02.load_eq_spec` says -/
theorem of_load (img : Bytes) (o : Obj) (k : StreamKind) (isLazy : Bool) (htr : o.trans = [])
    (hwf : WellFormedImage img) :
    ∃ r : LoadRes, load o { data := img, kind := k } isLazy = .ok r ∧ LoadSpec img r ∧ LoadedFrom img r.obj := by
  obtain ⟨r, hr, hspec⟩ := load_eq_spec img o k isLazy htr hwf
  refine ⟨r, hr, hspec, ?_⟩
  have hwf' := hwf
  obtain ⟨hmag, hcls, hdat, hehs, h63, hshent, hphent, hS, hP, hndx, hnames⟩ := hwf
  have hsz := sizes_eq (clsOf img)
  rw [← hsz.1] at hehs
  rw [← hsz.2.1] at hshent hS
  obtain ⟨m0, m1, m2, m3⟩ := magic_gate img hmag
  have hgate := load_gate o { data := img, kind := k } isLazy (clsOf img) (encOf img) htr rfl rfl m0 m1 m2 m3
    (cls_gate img hcls) (enc_gate img hdat) hehs
  simp only [] at hgate
  obtain ⟨e1, e2, e3, e4, e5, e6, e7, e8, e9, e10, e11, e12, e13⟩ := ehdr_bridge img (clsOf img) (encOf img) hehs
  have E : ∀ f, Spec.get (Spec.ehdrL (clsOf img)) (encOf img) img 0 f = eh img f := fun _ => rfl
  rw [E] at e6 e11 e12 e13
  have hshnum : (Hdr.e_shnum (clsOf img) (encOf img) (slice img 0 (ehdrSize (clsOf img)))).toNat = eh img "e_shnum" := e12
  have hshb : ∀ j, (Hdr.e_shoff (clsOf img) (encOf img) (slice img 0 (ehdrSize (clsOf img)))).toNat +
      j * (Hdr.e_shentsize (clsOf img) (encOf img) (slice img 0 (ehdrSize (clsOf img)))).toNat = shBase img j := by
    intro j; rw [e6, e11]; rfl
  have hcb := identB img (clsOf img) hehs
  have hc1 : BitVec.ofNat 8 (identByte img Spec.EI_CLASS) = 1#8 → clsOf img = .c32 := by
    intro h
    rcases hcls with h' | h'
    · simp [clsOf, h']; decide
    · rw [h'] at h; exact absurd h (by decide)
  have hc2 : BitVec.ofNat 8 (identByte img Spec.EI_CLASS) = 2#8 → clsOf img = .c64 := by
    intro h
    rcases hcls with h' | h'
    · rw [h'] at h; exact absurd h (by decide)
    · simp [clsOf, h']
  have hbadS : load_sections_entsize_bad (Hdr.e_shnum (clsOf img) (encOf img) (slice img 0 (ehdrSize (clsOf img))))
      (Hdr.ident (slice img 0 (ehdrSize (clsOf img))) Gen.EI_CLASS)
      (Hdr.e_shentsize (clsOf img) (encOf img) (slice img 0 (ehdrSize (clsOf img)))) = false := by
    unfold load_sections_entsize_bad
    apply entsize_ok _ _ _ sizeof_Elf32_Shdr sizeof_Elf64_Shdr (by decide) (by decide)
    intro hn
    rw [hshnum] at hn
    have := hshent hn
    rw [← e11] at this
    rw [hcb]
    constructor
    · intro h; have hcl := hc1 h; rw [hcl] at this ⊢; exact this
    · intro h; have hcl := hc2 h; rw [hcl] at this ⊢; exact this
  have hallS : ∀ j, j < (Hdr.e_shnum (clsOf img) (encOf img) (slice img 0 (ehdrSize (clsOf img)))).toNat →
      (Hdr.e_shoff (clsOf img) (encOf img) (slice img 0 (ehdrSize (clsOf img)))).toNat +
        j * (Hdr.e_shentsize (clsOf img) (encOf img) (slice img 0 (ehdrSize (clsOf img)))).toNat +
          shdrSize (clsOf img) ≤ img.length ∧
      SecInside img.length (secHdr (clsOf img) (encOf img) img
        ((Hdr.e_shoff (clsOf img) (encOf img) (slice img 0 (ehdrSize (clsOf img)))).toNat +
          j * (Hdr.e_shentsize (clsOf img) (encOf img) (slice img 0 (ehdrSize (clsOf img)))).toNat) isLazy j) := by
    intro j hj
    rw [hshnum] at hj
    rw [hshb]
    obtain ⟨_, a, b, _⟩ := wf_sec img hwf' j hj isLazy
    exact ⟨a, b⟩
  -- the section phases
  have hSec := loadSections_inside (clsOf img) (encOf img) isLazy (slice img 0 (ehdrSize (clsOf img)))
    { data := img, pos := ehdrSize (clsOf img), gcount := ehdrSize (clsOf img), kind := k } img rfl rfl rfl h63
    hbadS hallS
  obtain ⟨s1, s2, s3, s4, s5, s6⟩ := hSec
  have hN := loadNames_inside (clsOf img) (encOf img) isLazy (slice img 0 (ehdrSize (clsOf img))) img
    (loadSections (clsOf img) (encOf img) [] isLazy (slice img 0 (ehdrSize (clsOf img)))
      { data := img, pos := ehdrSize (clsOf img), gcount := ehdrSize (clsOf img), kind := k }).1
    (loadSections (clsOf img) (encOf img) [] isLazy (slice img 0 (ehdrSize (clsOf img)))
      { data := img, pos := ehdrSize (clsOf img), gcount := ehdrSize (clsOf img), kind := k }).2
    (Hdr.e_shoff (clsOf img) (encOf img) (slice img 0 (ehdrSize (clsOf img)))).toNat
    (Hdr.e_shentsize (clsOf img) (encOf img) (slice img 0 (ehdrSize (clsOf img)))).toNat
    s1 h63 hbadS (by rw [s5, e13, hshnum]; exact hndx)
    (fun j hj => (hallS j (by rw [s5] at hj; exact hj)).2) s6
  obtain ⟨ls', secs', n1, n2, n3, n4, n5, n6, n7⟩ := hN
  -- identify the result
  have hbody : load o { data := img, kind := k } isLazy =
      .ok (loadSegs { o with secs := [], segs := [], cls := clsOf img, enc := encOf img,
                             hdr := some (slice img 0 (ehdrSize (clsOf img))) }
            (clsOf img) (encOf img) (slice img 0 (ehdrSize (clsOf img))) isLazy ls' secs') := by
    rw [hgate]
    unfold loadBody
    simp only [htr]
    rw [n1]
    rfl
  rw [hbody] at hr
  simp only [Except.ok.injEq] at hr
  have hsecs : r.obj.secs = secs' := by rw [← hr]; unfold loadSegs; split <;> rfl
  obtain ⟨_, lc, le, _, ld, _, _, ln, _⟩ := hspec
  have htrans : r.obj.trans = [] := by rw [← hr]; unfold loadSegs; split <;> exact htr
  refine ⟨lc, le, htrans, ld, ln, ?_⟩
  intro i hi
  have hi' : i < secs'.length := by rw [← hsecs]; exact hi
  have hi'' : i < eh img "e_shnum" := by rw [ln] at hi; exact hi
  obtain ⟨res, hst, _⟩ := n7 i hi'
  rw [hshb] at hst
  have hname : nameOf (strtabOf (clsOf img) (encOf img) img
        (Hdr.e_shoff (clsOf img) (encOf img) (slice img 0 (ehdrSize (clsOf img)))).toNat
        (Hdr.e_shentsize (clsOf img) (encOf img) (slice img 0 (ehdrSize (clsOf img)))).toNat isLazy
        (Hdr.e_shstrndx (clsOf img) (encOf img) (slice img 0 (ehdrSize (clsOf img)))).toNat)
      (secHdr (clsOf img) (encOf img) img (shBase img i) isLazy i).nameOff.toNat = secName img i := by
    have b1 := (secHdr_bridge img (clsOf img) (encOf img) (shBase img i) isLazy i (hS i hi'').1).1
    unfold nameOf strtabOf secName shstrtab
    rw [e13, b1]
    by_cases hz : eh img "e_shstrndx" = 0
    · rw [hz]; rfl
    · have hz' : ¬ eh img "e_shstrndx" = Spec.SHN_UNDEF := hz
      have hlt : eh img "e_shstrndx" < eh img "e_shnum" := by
        rcases hndx with h | h
        · exact absurd h hz'
        · exact h
      simp only [hz, hz', if_false]
      rw [hshb, secBytes_bridge img isLazy _ (hS _ hlt).1]
      rfl
  rw [hname] at hst
  refine ⟨isLazy, res, ?_⟩
  have : r.obj.secs[i] = secs'[i] := by simp only [hsecs]
  rw [this]
  exact hst

/-! ### `sections[i]->get_data()` on a loaded object -/

theorem secResident_none (img : Bytes) (o : Obj) (hL : LoadedFrom img o) (i : Nat) (hi : eh img "e_shnum" ≤ i) :
    secResident o i = none := by
  unfold secResident
  rw [List.getElem?_eq_none (by rw [hL.nsecs]; exact hi)]

/-- **`sections[i]->get_data()`** on an object loaded from a well-formed image: the object stays
    `LoadedFrom`, the section handed to the accessor is `SecReady`; the other sections, the segments and
    the object's class / byte order are untouched -/
theorem secResident_ready (img : Bytes) (hwf : WellFormedImage img) (o : Obj) (hL : LoadedFrom img o) (i : Nat)
    (hi : i < eh img "e_shnum") :
    ∃ o1 b1, secResident o i = some (o1, b1) ∧ LoadedFrom img o1 ∧ SecReady img i b1 ∧
      o1.cls = o.cls ∧ o1.enc = o.enc ∧ o1.segs = o.segs ∧ o1.secs = o.secs.set i b1 := by
  have hi' : i < o.secs.length := by rw [hL.nsecs]; exact hi
  obtain ⟨lz, res, hst⟩ := hL.secs i hi'
  obtain ⟨h63, hk, hin, _⟩ := wf_sec img hwf i hi lz
  have hg := secGetData_SecSt (clsOf img) (encOf img) img (shBase img i) lz i res (secName img i) o.secs[i]
    { st := o.stream } hL.sdata h63 hin hst
  obtain ⟨hS, _, _, _⟩ := hg
  have hS' : SecSt (clsOf img) (encOf img) img (shBase img i) lz i true (secName img i)
      (secGetData o.cls o.trans { st := o.stream } o.secs[i]).2 := by rw [hL.cls, hL.trans]; exact hS
  unfold secResident
  rw [List.getElem?_eq_getElem hi']
  refine ⟨_, _, rfl, ⟨hL.cls, hL.enc, hL.trans, by simp [hL.sdata], by simp [hL.nsecs], ?_⟩,
    ready_of_SecSt img hwf i hi lz _ hS', rfl, rfl, rfl, rfl⟩
  intro j hj
  simp only [List.length_set] at hj
  by_cases hij : i = j
  · subst hij
    refine ⟨lz, true, ?_⟩
    simp only [List.getElem_set_self]
    exact hS'
  · simp only [List.getElem_set_ne hij]
    exact hL.secs j hj

/-! ### segments -/

/-- the segment side of a loaded object: one segment per program header, each showing the specification's
    values (`C02.SegmentSpec`, including "a data request on any stream over the image delivers the file range")
    and satisfying the loader invariant `LoadedSeg` -/
structure SegsFrom (img : Bytes) (o : Obj) : Prop where
  nsegs : o.segs.length = eh img "e_phnum"
  segs : ∀ j (hj : j < o.segs.length), SegmentSpec img j o.segs[j] ∧ LoadedSeg [] o.segs[j] img

theorem segs_of_load (img : Bytes) (o : Obj) (k : StreamKind) (isLazy : Bool) (htr : o.trans = [])
    (r : LoadRes) (hr : load o { data := img, kind := k } isLazy = .ok r) (hs : LoadSpec img r) :
    SegsFrom img r.obj := by
  obtain ⟨_, h2, _⟩ := C01.load_inv o img k isLazy r hr
  rw [htr] at h2
  obtain ⟨_, _, _, _, _, _, _, _, _, ln, lg⟩ := hs
  exact ⟨ln, fun j hj => ⟨lg j hj, h2 _ (List.getElem_mem hj)⟩⟩

/-- a section data request does not touch the segments -/
theorem SegsFrom.of_segs_eq {img : Bytes} {o o1 : Obj} (h : SegsFrom img o) (e : o1.segs = o.segs) : SegsFrom img o1 := by
  refine ⟨by rw [e]; exact h.nsegs, ?_⟩
  intro j hj
  have hj' : j < o.segs.length := by rw [← e]; exact hj
  have : o1.segs[j] = o.segs[j] := by simp only [e]
  rw [this]; exact h.segs j hj'

/-! ### a segment data request keeps `SegsFrom` -/

/-- the three things `segments[j]->get_data()` can do to a segment -/
theorem segGetData_cases (c : Cls) (tr : List Trans) (ls : LoadSt) (g : Seg) :
    (segGetData c tr ls g).2 = g ∨
    ((segGetData c tr ls g).2 = { g with data := none } ∧ g.isLoaded = false ∧
      segOutcome c tr ls.st g.stype g.filesz g.offset g.streamSize = some none) ∨
    (∃ d, (segGetData c tr ls g).2 = { g with data := some (d ++ [0]), isLoaded := true }) := by
  rw [segGetData_eq_ls]
  cases hl : g.isLoaded
  · simp only [Bool.not_false, if_true]
    rw [segLoadData_snd]
    cases ho : segOutcome c tr ls.st g.stype g.filesz g.offset g.streamSize with
    | none => exact Or.inl (by simp only [segApply, hl])
    | some x =>
      cases x with
      | none => exact Or.inr (Or.inl ⟨by simp only [segApply, hl], by first | rfl | trivial, by first | rfl | trivial⟩)
      | some d => exact Or.inr (Or.inr ⟨d, by simp only [segApply, hl]⟩)
  · simp only [Bool.not_true, Bool.false_eq_true, if_false]
    exact Or.inl (by first | rfl | trivial)

/-- whether `load_data` is skipped depends on the type and the file size only -/
theorem segOutcome_skip_indep (c : Cls) (tr : List Trans) (st st' : IStream) (ty : BitVec 32)
    (fsz off ss : BitVec 64) (h : segOutcome c tr st ty fsz off ss = some none) :
    segOutcome c tr st' ty fsz off ss ≠ none := by
  unfold segOutcome at h ⊢
  cases c <;> simp only [] at h ⊢ <;>
  (split at h
   · cases h
   · rename_i hs
     rw [if_neg hs]
     (repeat' split) <;> exact fun e => by cases e)

theorem segsFrom_set (img : Bytes) (o : Obj) (hL : LoadedFrom img o) (hS : SegsFrom img o) (j : Nat)
    (hj : j < o.segs.length) :
    SegsFrom img { o with segs := o.segs.set j (segGetData o.cls o.trans { st := o.stream } o.segs[j]).2,
                          stream := (segGetData o.cls o.trans { st := o.stream } o.segs[j]).1.st } := by
  obtain ⟨hspec, hinv⟩ := hS.segs j hj
  have hs0 : StOk o.trans img o.stream.kind { st := o.stream } := ⟨hL.sdata, rfl, fun a ha => by cases ha⟩
  have hinv' : LoadedSeg o.trans o.segs[j] img := by rw [hL.trans]; exact hinv
  obtain ⟨_, h2'', _⟩ := segGetData_spec o.cls o.trans _ o.segs[j] img _ hs0 hinv'
  have h2 : LoadedSeg [] (segGetData o.cls o.trans { st := o.stream } o.segs[j]).2 img := by
    rw [hL.trans] at h2'' ⊢; exact h2''
  refine ⟨by simp [hS.nsegs], ?_⟩
  intro j' hj'
  simp only [List.length_set] at hj'
  by_cases hjj : j = j'
  · subst hjj
    simp only [List.getElem_set_self]
    refine ⟨?_, h2⟩
    obtain ⟨s0, s1, s2, s3, s4, s5, s6, s7, s8, s9, sd⟩ := hspec
    have hd0 := sd { st := o.stream } hL.sdata
    rw [← hL.cls, ← hL.trans] at hd0
    rcases segGetData_cases o.cls o.trans { st := o.stream } o.segs[j] with e | ⟨e, hl, ho⟩ | ⟨d, e⟩
    · rw [e]; exact ⟨s0, s1, s2, s3, s4, s5, s6, s7, s8, s9, sd⟩
    · rw [e] at hd0 ⊢
      refine ⟨s0, s1, s2, s3, s4, s5, s6, s7, s8, s9, ?_⟩
      intro ls hls
      have hd1 := sd ls hls
      -- a second request on the data-less segment does what a first request does
      have key : (segGetData (clsOf img) [] ls { o.segs[j] with data := none }).2.data =
          (segGetData (clsOf img) [] ls o.segs[j]).2.data := by
        rw [segGetData_eq_ls, segGetData_eq_ls]
        simp only [hl, Bool.not_false, if_true]
        rw [segLoadData_snd, segLoadData_snd]
        simp only []
        have hne := segOutcome_skip_indep o.cls o.trans o.stream ls.st _ _ _ _ ho
        rw [hL.cls, hL.trans] at hne
        cases hx : segOutcome (clsOf img) [] ls.st o.segs[j].stype o.segs[j].filesz o.segs[j].offset
            o.segs[j].streamSize with
        | none => exact absurd hx hne
        | some x => cases x <;> rfl
      show ((segGetData (clsOf img) [] ls { o.segs[j] with data := none }).2.data.getD []).take
        o.segs[j].filesz.toNat = segFileBytes img j
      rw [key]; exact hd1
    · rw [e] at hd0 ⊢
      refine ⟨s0, s1, s2, s3, s4, s5, s6, s7, s8, s9, ?_⟩
      intro ls hls
      have : segGetData (clsOf img) [] ls { o.segs[j] with data := some (d ++ [0]), isLoaded := true } =
          (ls, { o.segs[j] with data := some (d ++ [0]), isLoaded := true }) := by
        rw [segGetData_eq_ls]; rfl
      rw [this]
      exact hd0
  · simp only [List.getElem_set_ne hjj]
    exact hS.segs j' hj'

theorem segResident_none (img : Bytes) (o : Obj) (hS : SegsFrom img o) (j : Nat) (hj : eh img "e_phnum" ≤ j) :
    segResident o j = none := by
  unfold segResident
  rw [List.getElem?_eq_none (by rw [hS.nsegs]; exact hj)]

/-- **`segments[j]->get_data()`** on an object loaded from a well-formed image: the sections are untouched
    (`LoadedFrom` is kept); the segment handed to the accessor shows the specification's type and file size, its
    first `p_filesz` bytes are the file range of the segment (`C02.segFileBytes`), an allocation covers them -/
theorem segResident_ready (img : Bytes) (o : Obj) (hL : LoadedFrom img o) (hS : SegsFrom img o) (j : Nat)
    (hj : j < eh img "e_phnum") :
    ∃ o1 g1, segResident o j = some (o1, g1) ∧ LoadedFrom img o1 ∧ SegsFrom img o1 ∧
      g1.stype.toNat = ph img j "p_type" ∧ g1.filesz.toNat = ph img j "p_filesz" ∧
      (g1.data.getD []).take g1.filesz.toNat = segFileBytes img j ∧
      (∀ a, g1.data = some a → g1.filesz.toNat ≤ a.length) := by
  have hj' : j < o.segs.length := by rw [hS.nsegs]; exact hj
  obtain ⟨hspec, hinv⟩ := hS.segs j hj'
  obtain ⟨_, f1, _, _, _, _, f6, _, _, _, fd⟩ := hspec
  have hs0 : StOk o.trans img o.stream.kind { st := o.stream } := ⟨hL.sdata, rfl, fun a ha => by cases ha⟩
  have hinv' : LoadedSeg o.trans o.segs[j] img := by rw [hL.trans]; exact hinv
  obtain ⟨h1, h2, h3⟩ := segGetData_spec o.cls o.trans _ o.segs[j] img _ hs0 hinv'
  have hd := fd { st := o.stream } hL.sdata
  rw [← hL.cls, ← hL.trans] at hd
  unfold segResident
  rw [List.getElem?_eq_getElem hj']
  refine ⟨_, _, rfl, ⟨hL.cls, hL.enc, hL.trans, h1.data, hL.nsecs, hL.secs⟩, segsFrom_set img o hL hS j hj',
    by rw [h3.stype]; exact f1,
    by rw [h3.filesz]; exact f6, by rw [h3.filesz]; exact hd, ?_⟩
  intro a ha
  have := h2.len a ha
  omega

/-! ### header fields alone (used for sections of a truncated file, Props/ComposeTables.lean §3) -/

/-- the ten header fields of `b` are the specification's fields of section header `i` of `img` -/
structure Fields (img : Bytes) (i : Nat) (b : SecBuf) : Prop where
  nameOff : b.nameOff.toNat = sh img i "sh_name"
  stype : b.stype.toNat = sh img i "sh_type"
  flags : b.flags.toNat = sh img i "sh_flags"
  addr : b.addr.toNat = sh img i "sh_addr"
  offset : b.offset.toNat = sh img i "sh_offset"
  size : b.size.toNat = sh img i "sh_size"
  link : b.link.toNat = sh img i "sh_link"
  info : b.info.toNat = sh img i "sh_info"
  addrAlign : b.addrAlign.toNat = sh img i "sh_addralign"
  entSize : b.entSize.toNat = sh img i "sh_entsize"

/-- a section of the complete load, in any residency state: its fields are the specification's and a
    section that occupies no file space has no data -/
theorem fields_of_SecSt (img : Bytes) (hwf : WellFormedImage img) (i : Nat) (hi : i < eh img "e_shnum")
    (lz res : Bool) (nm : Bytes) (b : SecBuf)
    (hb : SecSt (clsOf img) (encOf img) img (shBase img i) lz i res nm b) :
    Fields img i b ∧ (occupiesFile (sh img i "sh_type") = false → b.data = none) := by
  obtain ⟨_, hk, _, _⟩ := wf_sec img hwf i hi lz
  obtain ⟨f1, f2, f3, f4, f5, f6, f7, f8, f9, f10⟩ :=
    secHdr_bridge img (clsOf img) (encOf img) (shBase img i) lz i hk
  obtain ⟨fd, L, hbe, _⟩ := hb
  refine ⟨⟨by rw [hbe]; exact f1, by rw [hbe]; exact f2, by rw [hbe]; exact f3, by rw [hbe]; exact f4,
    by rw [hbe]; exact f5, by rw [hbe]; exact f6, by rw [hbe]; exact f7, by rw [hbe]; exact f8,
    by rw [hbe]; exact f9, by rw [hbe]; exact f10⟩, ?_⟩
  intro ho
  have hnn : isNullOrNobitsTy (secHdr (clsOf img) (encOf img) img (shBase img i) lz i).stype = true := by
    rw [isNullOrNobits_eq, f2]
    have : occupiesFile (Spec.get (Spec.shdrL (clsOf img)) (encOf img) img (shBase img i) "sh_type") = false := ho
    rw [this]; rfl
  rw [hbe]
  cases res <;> simp [secData_ls, hnn]

/-- `get_data()` never gives a SHT_NULL / SHT_NOBITS section data -/
theorem secGetData_nobits_data (c : Cls) (tr : List Trans) (ls : LoadSt) (b : SecBuf)
    (h : isNullOrNobitsTy b.stype = true) : (secGetData c tr ls b).2.data = b.data := by
  rw [secGetData_eq, secLoadData_eq]
  simp only [h, Bool.not_true, Bool.and_false, Bool.false_eq_true, if_false]
  (repeat' split) <;> rfl

end ElfioVerif.LoadedTables
