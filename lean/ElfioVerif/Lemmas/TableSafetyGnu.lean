/-
C18 helper lemmas, part 2: the GNU hash walk after fixes/13 is total on arbitrary section contents.
-/
import ElfioVerif.Lemmas.TableSafety
namespace ElfioVerif
open Gen

namespace C18

/-! ### the GNU hash walk (after fixes/13) -/

theorem se4x4 : ((BitVec.signExtend 64 4#32) * 4#64) = 16#64 := by decide
theorem se8x4 : ((BitVec.signExtend 64 8#32) * 4#64) = 32#64 := by decide
theorem se8x8 : ((BitVec.signExtend 64 8#32) * 8#64) = 64#64 := by decide

/-- what the table-fits guard of `gnu_hash_lookup<uint32_t>` establishes, in numbers -/
theorem gnu32_fit {nb bs sh : BitVec 32} {size : BitVec 64} (h16 : 16 ≤ size.toNat)
    (h : tq_gnu32_fit_bad nb bs sh size = false) :
    nb.toNat ≠ 0 ∧ bs.toNat ≠ 0 ∧ 16 + bs.toNat * 4 + nb.toNat * 4 ≤ size.toNat ∧
    16 + bs.toNat * 4 + nb.toNat * 4 + (tq_gnu32_nchains size bs nb).toNat * 4 ≤ size.toNat := by
  have hnb := nb.isLt; have hbs := bs.isLt; have hsz := size.isLt
  simp only [Nat.reducePow] at hnb hbs hsz
  simp only [tq_gnu32_fit_bad, Bool.or_eq_false_iff, beq_eq_false_iff_ne, ne_eq, se4x4, se8x4, BitVec.ult, BitVec.ule,
    decide_eq_false_iff_not, BitVec.toNat_sub, BitVec.toNat_udiv, BitVec.toNat_mul, BitVec.toNat_setWidth,
    BitVec.toNat_ofNat, Nat.reducePow, Nat.reduceMod] at h
  obtain ⟨⟨⟨⟨h1, h2⟩, -⟩, h4⟩, h5⟩ := h
  have h1' : nb.toNat ≠ 0 := fun h0 => h1 (BitVec.eq_of_toNat_eq (by simpa using h0))
  have h2' : bs.toNat ≠ 0 := fun h0 => h2 (BitVec.eq_of_toNat_eq (by simpa using h0))
  refine ⟨h1', h2', ?_, ?_⟩
  · omega
  · simp only [tq_gnu32_nchains, se4x4, BitVec.toNat_sub, BitVec.toNat_udiv, BitVec.toNat_mul, BitVec.toNat_setWidth,
      BitVec.toNat_ofNat, Nat.reducePow, Nat.reduceMod]
    omega

theorem gnu64_fit {nb bs sh : BitVec 32} {size : BitVec 64} (h16 : 16 ≤ size.toNat)
    (h : tq_gnu64_fit_bad nb bs sh size = false) :
    nb.toNat ≠ 0 ∧ bs.toNat ≠ 0 ∧ 16 + bs.toNat * 8 + nb.toNat * 4 ≤ size.toNat ∧
    16 + bs.toNat * 8 + nb.toNat * 4 + (tq_gnu64_nchains size bs nb).toNat * 4 ≤ size.toNat := by
  have hnb := nb.isLt; have hbs := bs.isLt; have hsz := size.isLt
  simp only [Nat.reducePow] at hnb hbs hsz
  simp only [tq_gnu64_fit_bad, Bool.or_eq_false_iff, beq_eq_false_iff_ne, ne_eq, se4x4, se8x4, BitVec.ult, BitVec.ule,
    decide_eq_false_iff_not, BitVec.toNat_sub, BitVec.toNat_udiv, BitVec.toNat_mul, BitVec.toNat_setWidth,
    BitVec.toNat_ofNat, Nat.reducePow, Nat.reduceMod] at h
  obtain ⟨⟨⟨⟨h1, h2⟩, -⟩, h4⟩, h5⟩ := h
  have h1' : nb.toNat ≠ 0 := fun h0 => h1 (BitVec.eq_of_toNat_eq (by simpa using h0))
  have h2' : bs.toNat ≠ 0 := fun h0 => h2 (BitVec.eq_of_toNat_eq (by simpa using h0))
  refine ⟨h1', h2', ?_, ?_⟩
  · omega
  · simp only [tq_gnu64_nchains, se4x4, BitVec.toNat_sub, BitVec.toNat_udiv, BitVec.toNat_mul, BitVec.toNat_setWidth,
      BitVec.toNat_ofNat, Nat.reducePow, Nat.reduceMod]
    omega

/-- the chain walk stays inside the `nchains` chain words that fit into the section and ends after at
    most `nchains` steps -/
theorem gnuLoop_total (t : SymTab) {is32 : Bool} (ht : TabOk t) {h : SecBuf} (hs : Sec h) {d : Bytes} (hd : h.data = some d)
    (name : Bytes) (hash symoffset : BitVec 32) (chainsBase : Nat) (nchains : BitVec 64)
    (hch : chainsBase + nchains.toNat * 4 ≤ h.size.toNat) (hsmall : nchains.toNat < 4294967296) :
    ∀ (fuel : Nat) (ci ch : BitVec 32) (sn : Bytes) (a : Attrs), ci.toNat < nchains.toNat →
      nchains.toNat + 1 ≤ fuel + ci.toNat →
      ∃ r, TQ.gnuLoopT is32 t (some d) name hash symoffset chainsBase nchains fuel ci ch sn a = .ok r := by
  intro fuel
  induction fuel with
  | zero => intro ci ch sn a h1 h2; omega
  | succ k ih =>
    intro ci ch sn a h1 h2
    unfold TQ.gnuLoopT
    tq_tie
    try dsimp only
    have hci : (ci + 1).toNat = ci.toNat + 1 := by
      have h1' : (1 : BitVec 32).toNat = 1 := rfl
      simp only [BitVec.toNat_add, h1', Nat.reducePow]
      omega
    have hlt : ¬ BitVec.ule nchains (BitVec.setWidth 64 (ci + 1)) = true → (ci + 1).toNat < nchains.toNat := by
      intro hn
      simp only [BitVec.ule, BitVec.toNat_setWidth, decide_eq_true_eq, Nat.not_le, Nat.reducePow] at hn
      have := (ci + 1).isLt
      simp only [Nat.reducePow] at this
      rw [Nat.mod_eq_of_lt (by omega)] at hn
      exact hn
    -- the tail of the loop body, for either instantiation
    have tail : ∀ (r : Bool × Bytes × Attrs) (c1 c2 : Bool),
        ∃ q, (if c1 = true then (pure (true, r.2.2) : M (Bool × Attrs)) else
              if c2 = true then pure (false, r.2.2) else
              if BitVec.ule nchains (BitVec.setWidth 64 (ci + 1)) = true then pure (false, r.2.2) else
              match SymTab.rd32 "gnu_hash_lookup/chain" t.cfg.enc (some d) (chainsBase + (ci + 1).toNat * 4) with
              | .error f => .error f
              | .ok ch' => TQ.gnuLoopT is32 t (some d) name hash symoffset chainsBase nchains k (ci + 1) ch' r.2.1 r.2.2) = .ok q := by
      intro r c1 c2
      by_cases h1 : c1 = true
      · rw [if_pos h1]; exact ⟨_, rfl⟩
      rw [if_neg h1]
      by_cases h2 : c2 = true
      · rw [if_pos h2]; exact ⟨_, rfl⟩
      rw [if_neg h2]
      by_cases hn : BitVec.ule nchains (BitVec.setWidth 64 (ci + 1)) = true
      · rw [if_pos hn]; exact ⟨_, rfl⟩
      rw [if_neg hn]
      have := hlt hn
      rw [sym_rd32_ok hs hd _ _ _ (by omega)]
      exact ih _ _ _ _ this (by omega)
    cases is32 with
    | true =>
      simp only [if_true, tq_gnu32_next_oob]
      have hsym : ∃ r, (if gnu32_hash_match ch hash = true then
            t.getSymbol (gnu32_sym_index ci symoffset) sn a else pure (false, sn, a)) = .ok r := by
        by_cases hm : gnu32_hash_match ch hash = true
        · rw [if_pos hm]; exact getSymbol_total t ht _ sn a
        · rw [if_neg hm]; exact ⟨_, rfl⟩
      obtain ⟨r, hr⟩ := hsym
      rw [hr]
      exact tail r _ _
    | false =>
      simp only [Bool.false_eq_true, if_false, tq_gnu64_next_oob]
      have hsym : ∃ r, (if gnu64_hash_match ch hash = true then
            t.getSymbol (gnu64_sym_index ci symoffset) sn a else pure (false, sn, a)) = .ok r := by
        by_cases hm : gnu64_hash_match ch hash = true
        · rw [if_pos hm]; exact getSymbol_total t ht _ sn a
        · rw [if_neg hm]; exact ⟨_, rfl⟩
      obtain ⟨r, hr⟩ := hsym
      rw [hr]
      exact tail r _ _

/-- **`gnu_hash_lookup` is total** on ARBITRARY hash section contents (section smaller than 4 GiB:
    the 32-bit chain index then cannot wrap) -/
theorem gnuLookup_total (t : SymTab) (ht : TabOk t) (h : SecBuf) (hs : Sec h) (hsmall0 : Small h)
    (name : Bytes) (a : Attrs) : ∃ r, TQ.gnuLookup t h name a = .ok r := by
  unfold TQ.gnuLookup TQ.gnuLookupT
  tq_tie
  simp only [hs.secData]
  have hhdr : (if t.c32 = true then tq_gnu32_hdr_bad h.data.isNone h.size else tq_gnu64_hdr_bad h.data.isNone h.size) =
      tq_gnu32_hdr_bad h.data.isNone h.size := by split <;> rfl
  rw [hhdr]
  by_cases hb : tq_gnu32_hdr_bad h.data.isNone h.size = true
  · rw [if_pos hb]; exact ⟨_, rfl⟩
  rw [if_neg hb]
  cases hd : h.data with
  | none => simp [tq_gnu32_hdr_bad, hd] at hb
  | some d =>
    have hsmall := hsmall0 d hd
    have hsz : 16 ≤ h.size.toNat := by
      simp only [tq_gnu32_hdr_bad, hd, Option.isNone_some, Bool.false_or, se4x4, BitVec.ult, decide_eq_true_eq,
        BitVec.toNat_ofNat, Nat.reducePow, Nat.reduceMod] at hb
      omega
    simp only [sym_rd32_ok hs hd _ _ 0 (by omega), sym_rd32_ok hs hd _ _ 4 (by omega),
      sym_rd32_ok hs hd _ _ 8 (by omega), sym_rd32_ok hs hd _ _ 12 (by omega)]
    generalize BitVec.ofNat 32 (rdField t.cfg.enc (slice d 0 4)) = nbuckets
    generalize BitVec.ofNat 32 (rdField t.cfg.enc (slice d 4 4)) = symoffset
    generalize BitVec.ofNat 32 (rdField t.cfg.enc (slice d 8 4)) = bloomSize
    generalize BitVec.ofNat 32 (rdField t.cfg.enc (slice d 12 4)) = bloomShift
    have hnbl := nbuckets.isLt; have hbsl := bloomSize.isLt
    simp only [Nat.reducePow] at hnbl hbsl
    have hbase : gnu32_bloom_off.toNat = 16 ∧ gnu64_bloom_off.toNat = 16 := by decide
    cases hc : t.c32 with
    | true =>
      simp only [if_true]
      by_cases hf : tq_gnu32_fit_bad nbuckets bloomSize bloomShift h.size = true
      · rw [if_pos hf]; exact ⟨_, rfl⟩
      rw [if_neg hf]
      obtain ⟨hnb, hbs, hfit, hch⟩ := gnu32_fit hsz (by simpa using hf)
      have hbi : (gnu32_bloom_index (elf_gnu_hash (SymTab.cName name)) bloomSize).toNat < bloomSize.toNat := by
        have hm : ((elf_gnu_hash (SymTab.cName name)).toNat / 32) % bloomSize.toNat < bloomSize.toNat :=
          Nat.mod_lt _ (by omega)
        simp only [gnu32_bloom_index, se8x4, BitVec.toNat_setWidth, BitVec.toNat_umod, BitVec.toNat_udiv,
          BitVec.toNat_ofNat, Nat.reducePow, Nat.reduceMod]
        have := (elf_gnu_hash (SymTab.cName name)).isLt
        simp only [Nat.reducePow] at this
        rw [Nat.mod_eq_of_lt (a := (elf_gnu_hash (SymTab.cName name)).toNat) (by omega),
          Nat.mod_eq_of_lt (a := bloomSize.toNat) (by omega)]
        exact Nat.lt_of_le_of_lt (Nat.mod_le _ _) hm
      rw [sym_rd32_ok hs hd _ _ _ (by rw [hbase.1]; omega)]
      simp only [pure, Except.pure]
      split
      · exact ⟨_, rfl⟩
      have hbk : (gnu32_bucket (elf_gnu_hash (SymTab.cName name)) nbuckets).toNat < nbuckets.toNat := by
        simp only [gnu32_bucket, BitVec.toNat_umod]; exact Nat.mod_lt _ (by omega)
      have hbo : (gnu32_buckets_off bloomSize).toNat = bloomSize.toNat * 4 := by
        simp only [gnu32_buckets_off, BitVec.toNat_mul, BitVec.toNat_setWidth, BitVec.toNat_ofNat, Nat.reducePow,
          Nat.reduceMod]; omega
      have hco : (gnu32_chains_off nbuckets).toNat = nbuckets.toNat * 4 := by
        simp only [gnu32_chains_off, BitVec.toNat_mul, BitVec.toNat_setWidth, BitVec.toNat_ofNat, Nat.reducePow,
          Nat.reduceMod]; omega
      rw [sym_rd32_ok hs hd _ _ _ (by rw [hbase.1, hbo]; omega)]
      simp only []
      generalize BitVec.ofNat 32 (rdField t.cfg.enc (slice d (gnu32_bloom_off.toNat + (gnu32_buckets_off bloomSize).toNat +
        (gnu32_bucket (elf_gnu_hash (SymTab.cName name)) nbuckets).toNat * 4) 4)) = bv
      by_cases hu : BitVec.ule symoffset bv = true
      · rw [if_pos hu]
        by_cases hst : tq_gnu32_start_oob (bv - symoffset) (tq_gnu32_nchains h.size bloomSize nbuckets) = true
        · rw [if_pos hst]; exact ⟨_, rfl⟩
        · rw [if_neg hst]
          have hci : (bv - symoffset).toNat < (tq_gnu32_nchains h.size bloomSize nbuckets).toNat := by
            simp only [tq_gnu32_start_oob, BitVec.ule, BitVec.toNat_setWidth, decide_eq_true_eq, Nat.not_le,
              Nat.reducePow] at hst
            have := (bv - symoffset).isLt
            simp only [Nat.reducePow] at this
            rw [Nat.mod_eq_of_lt (by omega)] at hst
            exact hst
          rw [sym_rd32_ok hs hd _ _ _ (by rw [hbase.1, hbo, hco]; omega)]
          exact gnuLoop_total t ht hs hd name _ symoffset _ _ (by rw [hbase.1, hbo, hco]; omega) (by omega) _ _ _ _ _ hci
            (by omega)
      · rw [if_neg hu]; exact ⟨_, rfl⟩
    | false =>
      simp only [Bool.false_eq_true, if_false]
      by_cases hf : tq_gnu64_fit_bad nbuckets bloomSize bloomShift h.size = true
      · rw [if_pos hf]; exact ⟨_, rfl⟩
      rw [if_neg hf]
      obtain ⟨hnb, hbs, hfit, hch⟩ := gnu64_fit hsz (by simpa using hf)
      have hbi : (gnu64_bloom_index (elf_gnu_hash (SymTab.cName name)) bloomSize).toNat < bloomSize.toNat := by
        have hm : ((elf_gnu_hash (SymTab.cName name)).toNat / 64) % bloomSize.toNat < bloomSize.toNat :=
          Nat.mod_lt _ (by omega)
        simp only [gnu64_bloom_index, se8x8, BitVec.toNat_setWidth, BitVec.toNat_umod, BitVec.toNat_udiv,
          BitVec.toNat_ofNat, Nat.reducePow, Nat.reduceMod]
        have := (elf_gnu_hash (SymTab.cName name)).isLt
        simp only [Nat.reducePow] at this
        rw [Nat.mod_eq_of_lt (a := (elf_gnu_hash (SymTab.cName name)).toNat) (by omega),
          Nat.mod_eq_of_lt (a := bloomSize.toNat) (by omega)]
        exact Nat.lt_of_le_of_lt (Nat.mod_le _ _) hm
      rw [sym_rd64_ok hs hd _ _ _ (by rw [hbase.2]; omega)]
      simp only [pure, Except.pure]
      split
      · exact ⟨_, rfl⟩
      have hbk : (gnu64_bucket (elf_gnu_hash (SymTab.cName name)) nbuckets).toNat < nbuckets.toNat := by
        simp only [gnu64_bucket, BitVec.toNat_umod]; exact Nat.mod_lt _ (by omega)
      have hbo : (gnu64_buckets_off bloomSize).toNat = bloomSize.toNat * 8 := by
        simp only [gnu64_buckets_off, BitVec.toNat_mul, BitVec.toNat_setWidth, BitVec.toNat_ofNat, Nat.reducePow,
          Nat.reduceMod]; omega
      have hco : (gnu64_chains_off nbuckets).toNat = nbuckets.toNat * 4 := by
        simp only [gnu64_chains_off, BitVec.toNat_mul, BitVec.toNat_setWidth, BitVec.toNat_ofNat, Nat.reducePow,
          Nat.reduceMod]; omega
      rw [sym_rd32_ok hs hd _ _ _ (by rw [hbase.2, hbo]; omega)]
      simp only []
      generalize BitVec.ofNat 32 (rdField t.cfg.enc (slice d (gnu64_bloom_off.toNat + (gnu64_buckets_off bloomSize).toNat +
        (gnu64_bucket (elf_gnu_hash (SymTab.cName name)) nbuckets).toNat * 4) 4)) = bv
      by_cases hu : BitVec.ule symoffset bv = true
      · rw [if_pos hu]
        by_cases hst : tq_gnu64_start_oob (bv - symoffset) (tq_gnu64_nchains h.size bloomSize nbuckets) = true
        · rw [if_pos hst]; exact ⟨_, rfl⟩
        · rw [if_neg hst]
          have hci : (bv - symoffset).toNat < (tq_gnu64_nchains h.size bloomSize nbuckets).toNat := by
            simp only [tq_gnu64_start_oob, BitVec.ule, BitVec.toNat_setWidth, decide_eq_true_eq, Nat.not_le,
              Nat.reducePow] at hst
            have := (bv - symoffset).isLt
            simp only [Nat.reducePow] at this
            rw [Nat.mod_eq_of_lt (by omega)] at hst
            exact hst
          rw [sym_rd32_ok hs hd _ _ _ (by rw [hbase.2, hbo, hco]; omega)]
          exact gnuLoop_total t ht hs hd name _ symoffset _ _ (by rw [hbase.2, hbo, hco]; omega) (by omega) _ _ _ _ _ hci
            (by omega)
      · rw [if_neg hu]; exact ⟨_, rfl⟩

end C18
end ElfioVerif
