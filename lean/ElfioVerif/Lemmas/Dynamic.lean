/-
Helper lemmas for C12: the generated tag classification of elfio_dynamic.hpp against the gABI tag
sets, the field codecs of `ElfN_Dyn` against the specification encoder/decoder, list facts about
fixed-size records and NUL-terminated strings.
-/
import ElfioVerif.Model.Dynamic
import ElfioVerif.Spec.Dyn
import ElfioVerif.Props.C07
namespace ElfioVerif
open Gen

/-! ### bridging lemmas: the generated expressions the model calls for the source tie are the expressions
the proofs reason about -/
namespace DynTie
open DynAcc
theorem fabAt_eq (c : Bool) (k : Nat) : fabAt c k = fabricated := by
  cases c <;> (rcases k with _ | _ | k) <;> simp only [fabAt] <;> decide
theorem rec_off32 (o : BitVec 64) : dyn32_get_rec_off o = o := rfl
theorem rec_off64 (o : BitVec 64) : dyn64_get_rec_off o = o := rfl
/-- `if ( nullptr == result ) { str.clear(); return false; } str = result;` -/
theorem getEntry_str (r : Option Bytes) (a : DynAcc) (tag value : BitVec 64) :
    (if dyn_get_string_null r.isNone = true then (pure (a, GetRes.nostr tag value) : M (DynAcc × GetRes))
     else pure (a, GetRes.ok tag value (r.getD [])))
      = (match r with
         | none => pure (a, GetRes.nostr tag value)
         | some s => pure (a, GetRes.ok tag value s)) := by
  cases r <;> rfl
theorem i_init : dyn_num_i_init = 0 := by decide
theorem tag_init : dyn_num_tag_init = BitVec.ofNat 64 DT_NULL := by decide
theorem i_incr (i : BitVec 64) : dyn_num_i_incr i = i + 1 := rfl
end DynTie

/-- rewrite the tie expressions of the dynamic accessor model into the forms the proofs were written for -/
macro "dyn_tie" loc:(Lean.Parser.Tactic.location)? : tactic =>
  `(tactic| try simp only [DynTie.fabAt_eq, DynTie.rec_off32, DynTie.rec_off64, DynTie.getEntry_str, DynTie.i_init,
      DynTie.tag_init, DynTie.i_incr] $[$loc]?)

namespace C12

theorem beq_lit (t : BitVec 64) (n : Nat) (h : n < 18446744073709551616) :
    (t == BitVec.ofNat 64 n) = (t.toNat == n) := by
  rw [Bool.eq_iff_iff]
  simp only [beq_iff_eq]
  constructor
  · intro e; subst e; simp only [BitVec.toNat_ofNat, Nat.reducePow]; omega
  · intro e; apply BitVec.eq_of_toNat_eq; simp only [BitVec.toNat_ofNat, Nat.reducePow]; omega

theorem kind32_eq : dyn32_get_kind = dyn64_get_kind := rfl
theorem addkind32_eq : dyn32_add_kind = dyn64_get_kind := rfl
theorem addkind64_eq : dyn64_add_kind = dyn64_get_kind := rfl

theorem kind_zero (t : BitVec 64) : (dyn64_get_kind t = 0) ↔ Spec.dUnIgnored t.toNat = true := by
  unfold dyn64_get_kind Spec.dUnIgnored
  simp only [DT_NULL, DT_SYMBOLIC, DT_TEXTREL, DT_BIND_NOW, BitVec.reduceSetWidth, beq_lit, Nat.reduceLT]
  by_cases h : (t.toNat == 0 || t.toNat == 16 || t.toNat == 22 || t.toNat == 24) = true
  · rw [if_pos h]; simp only [h]
  · rw [if_neg h]; simp only [h]
    split <;> simp

theorem kind_range (t : BitVec 64) : dyn64_get_kind t = 0 ∨ dyn64_get_kind t = 1 ∨ dyn64_get_kind t = 2 := by
  unfold dyn64_get_kind
  split
  · exact Or.inl rfl
  · split
    · exact Or.inr (Or.inl rfl)
    · split <;> exact Or.inr (Or.inr rfl)

theorem string_tag_iff (t : BitVec 64) : dyn_get_is_string_tag t = Spec.stringValued t.toNat := by
  unfold dyn_get_is_string_tag Spec.stringValued
  simp only [DT_NEEDED, DT_SONAME, DT_RPATH, DT_RUNPATH, BitVec.reduceSetWidth, beq_lit, Nat.reduceLT]

theorem tag_is_null_iff (t : BitVec 64) : dyn_num_tag_is_null t = (t.toNat == 0) := by
  unfold dyn_num_tag_is_null
  simp only [DT_NULL, BitVec.reduceSetWidth, beq_lit, Nat.reduceLT]

/-! ### field codecs -/
open DynAcc

theorem cv32_rd (e : Enc) (tb : Bytes) (h : tb.length = 4) :
    (cv32 e (BitVec.ofNat 32 (hostDecode tb))).toNat = decodeInt e tb := by
  rw [← rdField_eq e tb (Or.inr (Or.inr (Or.inl h)))]
  simp [rdField, conv, h, cv32]

theorem cv64_rd (e : Enc) (tb : Bytes) (h : tb.length = 8) :
    (cv64 e (BitVec.ofNat 64 (hostDecode tb))).toNat = decodeInt e tb := by
  rw [← rdField_eq e tb (Or.inr (Or.inr (Or.inr h)))]
  simp [rdField, conv, h, cv64]

theorem sext32_toNat (x : BitVec 32) : (BitVec.signExtend 64 x).toNat = Spec.sextTag .c32 x.toNat := by
  have hx := x.isLt
  have hm : x.toNat % 4294967296 = x.toNat := by simp only [Nat.reducePow] at hx; omega
  rw [BitVec.toNat_signExtend]
  simp only [Spec.sextTag, BitVec.msb_eq_decide, BitVec.toNat_setWidth, Nat.reducePow, hm] at *
  by_cases h : x.toNat < 2147483648
  · have h2 : ¬ (2147483648 ≤ x.toNat) := by omega
    simp only [h, h2, if_true, decide_false, Bool.false_eq_true, if_false, Nat.reduceSub]; omega
  · have h2 : 2147483648 ≤ x.toNat := by omega
    simp only [h, h2, if_false, decide_true, if_true, Nat.reduceSub]; omega

theorem cv32_wr (e : Enc) (v : BitVec 64) :
    hostEncode 4 (cv32 e (BitVec.setWidth 32 v)).toNat = encodeInt e 4 v.toNat := by
  have h : hostEncode 4 (cv32 e (BitVec.setWidth 32 v)).toNat = wrField e 4 v.toNat := by
    unfold wrField conv cv32
    simp only [Nat.reduceMul, Nat.reducePow, Nat.reduceEqDiff, if_false, if_true]
    have : BitVec.ofNat 32 (v.toNat % 4294967296) = BitVec.setWidth 32 v := by
      apply BitVec.eq_of_toNat_eq; simp
    rw [this]
  rw [h, wrField_eq e 4 v.toNat (Or.inr (Or.inr (Or.inl rfl)))]

theorem cv64_wr (e : Enc) (v : BitVec 64) :
    hostEncode 8 (cv64 e v).toNat = encodeInt e 8 v.toNat := by
  have h : hostEncode 8 (cv64 e v).toNat = wrField e 8 v.toNat := by
    unfold wrField conv cv64
    simp only [Nat.reduceMul, Nat.reducePow, Nat.reduceEqDiff, if_false, if_true]
    have : BitVec.ofNat 64 (v.toNat % 18446744073709551616) = v := by
      apply BitVec.eq_of_toNat_eq; simp only [BitVec.toNat_ofNat, Nat.reducePow]; have := v.isLt; omega
    rw [this]
  rw [h, wrField_eq e 8 v.toNat (Or.inr (Or.inr (Or.inr rfl)))]

theorem leEncode_mod (n x : Nat) : leEncode n (x % 2 ^ (8 * n)) = leEncode n x := by
  induction n generalizing x with
  | zero => rfl
  | succ k ih =>
    simp only [leEncode]
    have e1 : 2 ^ (8 * (k + 1)) = 256 * 2 ^ (8 * k) := by
      rw [Nat.mul_add, Nat.pow_add]; simp [Nat.mul_comm]
    rw [e1, Nat.mod_mul_right_mod, Nat.mod_mul_right_div_self, ih]

theorem encodeInt_mod (e : Enc) (n x : Nat) : encodeInt e n (x % 2 ^ (8 * n)) = encodeInt e n x := by
  cases e <;> simp only [encodeInt, beEncode, leEncode_mod]

theorem encodeInt4_mod (e : Enc) (x : Nat) : encodeInt e 4 (x % 4294967296) = encodeInt e 4 x :=
  encodeInt_mod e 4 x
theorem encodeInt8_mod (e : Enc) (x : Nat) : encodeInt e 8 (x % 18446744073709551616) = encodeInt e 8 x :=
  encodeInt_mod e 8 x

theorem wr_wr_alloc (a b : Bytes) (n : Nat) (h : a.length + b.length = n) :
    wr (wr (alloc n) a.length b) 0 a = a ++ b := by
  have l1 : (wr (alloc n) a.length b).length = n := by
    rw [wr_length _ _ _ (by simp; omega)]; simp
  apply List.ext_getElem?
  intro i
  rw [wr_getElem? _ _ _ _ (by omega), wr_getElem? _ _ _ _ (by simp; omega)]
  simp only [List.getElem?_append, alloc]
  by_cases h1 : i < a.length
  · simp [h1]
  · by_cases h2 : i < a.length + b.length
    · simp [h1, h2]
    · simp only [h1, h2, if_false, Nat.not_lt_zero, Nat.zero_add]
      rw [List.getElem?_eq_none (by simp; omega), List.getElem?_eq_none (by omega)]

theorem addkind32_zero (t : BitVec 64) : (dyn32_add_kind t = 0) ↔ Spec.dUnIgnored t.toNat = true := kind_zero t
theorem addkind64_zero (t : BitVec 64) : (dyn64_add_kind t = 0) ↔ Spec.dUnIgnored t.toNat = true := kind_zero t
theorem kind32_zero (t : BitVec 64) : (dyn32_get_kind t = 0) ↔ Spec.dUnIgnored t.toNat = true := kind_zero t
theorem addkind32_range (t : BitVec 64) : dyn32_add_kind t = 0 ∨ dyn32_add_kind t = 1 ∨ dyn32_add_kind t = 2 := kind_range t
theorem addkind64_range (t : BitVec 64) : dyn64_add_kind t = 0 ∨ dyn64_add_kind t = 1 ∨ dyn64_add_kind t = 2 := kind_range t
theorem kind32_range (t : BitVec 64) : dyn32_get_kind t = 0 ∨ dyn32_get_kind t = 1 ∨ dyn32_get_kind t = 2 := kind_range t

theorem ignored_of_kind {k : Nat} {t : Nat} (hk : k = 0 ↔ Spec.dUnIgnored t = true) (h : k ≠ 0) :
    Spec.dUnIgnored t = false := by
  cases h' : Spec.dUnIgnored t with
  | false => rfl
  | true => exact absurd (hk.2 h') h

theorem mkRec32_eq (e : Enc) (tag value : BitVec 64) :
    mkRec32 e tag value =
      Spec.encodeDyn ⟨.c32, e⟩ tag.toNat (Spec.storedVal .c32 ⟨tag.toNat, value.toNat⟩) := by
  have hk := addkind32_zero tag
  have h0 : hostEncode 4 (cv32 e 0#32).toNat = encodeInt e 4 0 := by
    have := cv32_wr e 0#64
    simpa using this
  have hw := fun (x : Nat) => wr_wr_alloc (encodeInt e 4 tag.toNat) (encodeInt e 4 x) 8 (by simp)
  simp only [encodeInt_length] at hw
  unfold mkRec32 Spec.encodeDyn Spec.storedVal Spec.dynWord
  simp only [Elf32_Dyn.d_un_d_ptr_off, Elf32_Dyn.d_un_d_val_off, Elf32_Dyn.d_un_d_ptr_w,
    Elf32_Dyn.d_un_d_val_w, Elf32_Dyn.d_tag_off, Elf32_Dyn.d_tag_w, sizeof_Elf32_Dyn,
    dyn32_add_val_none, dyn32_add_val_val, dyn32_add_val_ptr, dyn32_add_tag, Spec.truncVal]
  rcases addkind32_range tag with h | h | h
  · have hi := hk.1 h
    rw [h]
    simp only [if_true, hi, h0, Nat.reduceEqDiff, if_false, cv32_wr, hw]
  · have hi := ignored_of_kind hk (by omega)
    rw [h]
    simp only [hi, Nat.reduceEqDiff, if_false, if_true, cv32_wr, hw, encodeInt4_mod, Bool.false_eq_true]
  · have hi := ignored_of_kind hk (by omega)
    rw [h]
    simp only [hi, Nat.reduceEqDiff, if_false, if_true, cv32_wr, hw, encodeInt4_mod, Bool.false_eq_true]

theorem mkRec64_eq (e : Enc) (tag value : BitVec 64) :
    mkRec64 e tag value =
      Spec.encodeDyn ⟨.c64, e⟩ tag.toNat (Spec.storedVal .c64 ⟨tag.toNat, value.toNat⟩) := by
  have hk := addkind64_zero tag
  have h0 : hostEncode 8 (cv64 e (BitVec.signExtend 64 0#32)).toNat = encodeInt e 8 0 := by
    have := cv64_wr e 0#64
    simpa using this
  have hw := fun (x : Nat) => wr_wr_alloc (encodeInt e 8 tag.toNat) (encodeInt e 8 x) 16 (by simp)
  simp only [encodeInt_length] at hw
  unfold mkRec64 Spec.encodeDyn Spec.storedVal Spec.dynWord
  simp only [Elf64_Dyn.d_un_d_ptr_off, Elf64_Dyn.d_un_d_val_off, Elf64_Dyn.d_un_d_ptr_w,
    Elf64_Dyn.d_un_d_val_w, Elf64_Dyn.d_tag_off, Elf64_Dyn.d_tag_w, sizeof_Elf64_Dyn,
    dyn64_add_val_none, dyn64_add_val_val, dyn64_add_val_ptr, dyn64_add_tag, Spec.truncVal]
  rcases addkind64_range tag with h | h | h
  · have hi := hk.1 h
    rw [h]
    simp only [if_true, hi, h0, Nat.reduceEqDiff, if_false, cv64_wr, hw]
  · have hi := ignored_of_kind hk (by omega)
    rw [h]
    simp only [hi, Nat.reduceEqDiff, if_false, if_true, cv64_wr, hw, encodeInt8_mod, Bool.false_eq_true]
  · have hi := ignored_of_kind hk (by omega)
    rw [h]
    simp only [hi, Nat.reduceEqDiff, if_false, if_true, cv64_wr, hw, encodeInt8_mod, Bool.false_eq_true]

section SpecLemmas
open Spec
theorem dynSize_eq (c : Cls) : dynSize c = dynWord c + dynWord c := by cases c <;> rfl
theorem dynSize_pos (c : Cls) : 0 < dynSize c := by cases c <;> decide

theorem sextTag_mod32 (t : Nat) : sextTag .c32 (t % 4294967296) = sextTag .c32 t := by
  simp only [sextTag, Nat.mod_mod]
theorem sextTag_mod64 (t : Nat) : sextTag .c64 (t % 18446744073709551616) = sextTag .c64 t := by
  simp only [sextTag, Nat.mod_mod]

theorem dUnIgnored_sext {c : Cls} {t : Nat} (h : dUnIgnored t = true) : sextTag c t = t := by
  simp only [dUnIgnored, Bool.or_eq_true, beq_iff_eq] at h
  cases c <;> simp only [sextTag] <;> rcases h with ((h | h) | h) | h <;> subst h <;> decide

theorem take_encodeInt (e : Enc) (n x : Nat) : (encodeInt e n x).take n = encodeInt e n x :=
  List.take_of_length_le (by simp)

/-- gABI decoder ∘ encoder on one record -/
theorem decode_encodeDyn (cfg : Cfg) (t v : Nat) :
    decodeDyn cfg (encodeDyn cfg t v) = ⟨sextTag cfg.cls t, truncVal cfg.cls v⟩ := by
  obtain ⟨c, e⟩ := cfg
  cases c <;>
    simp only [decodeDyn, encodeDyn, dynWord, List.take_left', encodeInt_length, List.drop_left',
      take_encodeInt, decode_encodeInt, Nat.reduceMul, Nat.reducePow, sextTag_mod32, sextTag_mod64, truncVal]

theorem entry_roundtrip (cfg : Cfg) (t v : Nat) :
    readEntry cfg (encodeDyn cfg t (storedVal cfg.cls ⟨t, v⟩)) = normEntry cfg.cls ⟨t, v⟩ := by
  simp only [readEntry, decode_encodeDyn, normEntry, storedVal]
  congr 1
  by_cases h1 : dUnIgnored (sextTag cfg.cls t) = true
  · simp [h1]
  · have h2 : dUnIgnored t = false := by
      cases h : dUnIgnored t with
      | false => rfl
      | true => rw [dUnIgnored_sext h] at h1; exact absurd h h1
    simp only [h1, h2, Bool.false_eq_true, if_false]
    cases cfg.cls <;> simp only [truncVal, Nat.mod_mod]

theorem encodeDyn_length (cfg : Cfg) (t v : Nat) : (encodeDyn cfg t v).length = dynSize cfg.cls := by
  simp [encodeDyn, dynSize_eq]

theorem entriesOf_length (cfg : Cfg) (c : Bytes) : (entriesOf cfg c).length = c.length / dynSize cfg.cls := by
  simp [entriesOf]

theorem entriesOf_getElem? (cfg : Cfg) (c : Bytes) (i : Nat) (h : i < c.length / dynSize cfg.cls) :
    (entriesOf cfg c)[i]? = some (readEntry cfg (slice c (i * dynSize cfg.cls) (dynSize cfg.cls))) := by
  simp [entriesOf, h]

theorem slice_append_left {a b : Bytes} {off len : Nat} (h : off + len ≤ a.length) :
    slice (a ++ b) off len = slice a off len := by
  unfold slice
  rw [List.drop_append_of_le_length (by omega), List.take_append_of_le_length (by simp; omega)]

theorem slice_append_right (a b : Bytes) : slice (a ++ b) a.length b.length = b := by
  unfold slice
  simp

/-- appending one record to a whole number of records appends one entry -/
theorem entriesOf_append (cfg : Cfg) (c r : Bytes) (hc : c.length % dynSize cfg.cls = 0)
    (hr : r.length = dynSize cfg.cls) :
    entriesOf cfg (c ++ r) = entriesOf cfg c ++ [readEntry cfg r] := by
  have hp := dynSize_pos cfg.cls
  have hd : (c ++ r).length / dynSize cfg.cls = c.length / dynSize cfg.cls + 1 := by
    rw [List.length_append, hr, Nat.add_div_right _ hp]
  have hm : c.length / dynSize cfg.cls * dynSize cfg.cls = c.length := by
    have := Nat.div_add_mod c.length (dynSize cfg.cls)
    rw [hc, Nat.add_zero, Nat.mul_comm] at this; exact this
  apply List.ext_getElem?
  intro i
  by_cases h1 : i < c.length / dynSize cfg.cls
  · rw [entriesOf_getElem? _ _ _ (by omega), List.getElem?_append_left (by rw [entriesOf_length]; exact h1),
      entriesOf_getElem? _ _ _ h1, slice_append_left]
    have : (i + 1) * dynSize cfg.cls ≤ c.length / dynSize cfg.cls * dynSize cfg.cls :=
      Nat.mul_le_mul_right _ h1
    rw [Nat.add_mul, Nat.one_mul] at this; omega
  · by_cases h2 : i = c.length / dynSize cfg.cls
    · rw [entriesOf_getElem? _ _ _ (by omega), List.getElem?_append_right (by rw [entriesOf_length]; omega),
        entriesOf_length, h2, Nat.sub_self, hm, ← hr, slice_append_right]
      rfl
    · rw [List.getElem?_eq_none (by rw [entriesOf_length]; omega),
        List.getElem?_eq_none (by simp [entriesOf_length]; omega)]

/-! ### NUL-terminated strings -/

theorem cstr_append_of_contains {a : Bytes} (x : Bytes) (h : a.contains 0 = true) :
    dynCstr (a ++ x) = dynCstr a := by
  induction a with
  | nil => simp at h
  | cons b bs ih =>
    unfold dynCstr at *
    by_cases hb : b = 0
    · subst hb; simp [List.takeWhile]
    · have hb' : (b != 0) = true := by simpa using hb
      simp only [List.cons_append, List.takeWhile_cons, hb', if_true]
      congr 1
      apply ih
      simp only [List.contains_cons] at h
      have : (0 == b) = false := by
        cases h0 : (0 == b) with
        | false => rfl
        | true => exact absurd (by simpa using h0 : (0 : UInt8) = b).symm hb
      simpa [this] using h

theorem cstr_cstr_nul (s : Bytes) : dynCstr (dynCstr s ++ [0]) = dynCstr s := by
  induction s with
  | nil => simp [dynCstr]
  | cons b bs ih =>
    unfold dynCstr at *
    by_cases hb : b = 0
    · subst hb; simp [List.takeWhile]
    · have hb' : (b != 0) = true := by simpa using hb
      simp only [List.takeWhile_cons, hb', if_true, List.cons_append]
      rw [ih]

theorem strAt_append {tbl : Bytes} (x : Bytes) {p : Nat} {s : Bytes} (h : dynStrAt tbl p = some s) :
    dynStrAt (tbl ++ x) p = some s := by
  unfold dynStrAt at *
  by_cases hp : p < tbl.length
  · simp only [hp, if_true] at h
    by_cases hc : (tbl.drop p).contains 0 = true
    · simp only [hc, if_true] at h
      have hp' : p < (tbl ++ x).length := by simp; omega
      rw [if_pos hp', List.drop_append_of_le_length (by omega)]
      have : (tbl.drop p ++ x).contains 0 = true := by
        simp only [List.contains_eq_mem, List.mem_append, decide_eq_true_eq] at hc ⊢
        exact Or.inl hc
      rw [if_pos this, cstr_append_of_contains x hc]
      exact h
    · rw [if_neg hc] at h; exact absurd h (by simp)
  · simp [hp] at h

theorem strAt_strAdd (tbl s : Bytes) : dynStrAt (strAdd tbl s).1 (strAdd tbl s).2 = some (dynCstr s) := by
  unfold strAdd dynStrAt
  simp only
  generalize (if tbl.length = 0 then [0] else tbl) = t0
  have h1 : t0.length < (t0 ++ (dynCstr s ++ [0])).length := by simp
  rw [if_pos h1, List.drop_left' rfl]
  have h2 : (dynCstr s ++ [0]).contains 0 = true := by simp
  rw [if_pos h2, cstr_cstr_nul]

theorem strAt_strAdd_mono {tbl : Bytes} (s : Bytes) {p : Nat} {r : Bytes} (h : dynStrAt tbl p = some r) :
    dynStrAt (strAdd tbl s).1 p = some r := by
  unfold strAdd
  by_cases h0 : tbl.length = 0
  · unfold dynStrAt at h; simp [h0] at h
  · simp only [h0, if_false]
    exact strAt_append _ h

theorem strAdd_pos_lt (tbl s : Bytes) : (strAdd tbl s).2 ≤ tbl.length + 1 := by
  unfold strAdd; simp only; split <;> simp <;> omega

end SpecLemmas

open SecBuf C07 Spec

/-! ### section buffer facts (on top of C07) -/

theorem getData_frame (b : SecBuf) :
    b.getData.entSize = b.entSize ∧ b.getData.size = b.size ∧ b.getData.cls = b.cls ∧
    b.getData.stype = b.stype ∧ b.getData.link = b.link := by
  unfold SecBuf.getData SecBuf.loadData
  split
  · cases b.fileData with
    | none => simp
    | some d =>
      simp only
      split
      · split <;> simp
      · split <;> simp
  · simp

theorem getData_inv {b : SecBuf} (h : b.Inv) : b.getData.Resident ∧ b.getData.content = b.content := by
  rcases h with h | ⟨d, h⟩
  · rw [content_resident h]
    cases hd : b.data with
    | some a =>
      obtain ⟨g1, g2, g3, g4, g5, g6, g7⟩ := getData_some hd
      have hr : b.getData.Resident := by
        refine ⟨by rw [g5]; exact h.notNobits, by rw [g1]; simp, ?_, by rw [g2, g3]; exact h.cap⟩
        rcases h.buf with ⟨e, _, _⟩ | ⟨a', e, e1, e2⟩
        · rw [hd] at e; cases e
        · rw [hd] at e; cases e
          exact Or.inr ⟨a, g1, by rw [g2, g3]; exact e1, by rw [g3]; exact e2⟩
      refine ⟨hr, ?_⟩
      rw [content_resident hr]; simp [SecBuf.view, g1, g2, hd]
    | none =>
      have hp := h.pend hd
      have hsz : b.size = 0 ∧ b.dataSize = 0 := by
        rcases h.buf with ⟨_, e1, e2⟩ | ⟨a', e, _, _⟩
        · exact ⟨e1, e2⟩
        · rw [hd] at e; cases e
      have hv : b.view = [] := by simp [SecBuf.view, hd]
      rw [hv]
      -- the possible outcomes of get_data() on an empty, data-less section
      have key : (b.getData.data = none ∧ b.getData.size = 0 ∧ b.getData.dataSize = 0 ∧
                   (b.getData.isLazy && !b.getData.isLoaded) = false) ∨
                 (b.getData.data = some (alloc 1) ∧ b.getData.size = 0 ∧ b.getData.dataSize = 0) := by
        unfold SecBuf.getData SecBuf.loadData
        split
        · cases hf : b.fileData with
          | none => left; simp [hd, hsz.1, hsz.2, hp]
          | some d =>
            simp only [hd, Option.isNone_none, Bool.true_and, hsz.1, if_true, Option.isSome_none, Bool.false_or]
            by_cases hn : b.isNullOrNobits = true
            · left; simp [hn, hd, hsz.1, hsz.2]
            · right; simp [hn]
        · left; exact ⟨hd, hsz.1, hsz.2, hp⟩
      obtain ⟨_, f2, _, f4, _⟩ := getData_frame b
      rcases key with ⟨k1, k2, k3, k4⟩ | ⟨k1, k2, k3⟩
      · have hr : b.getData.Resident :=
          ⟨by rw [f4]; exact h.notNobits, fun _ => k4, Or.inl ⟨k1, k2, k3⟩, by rw [k3]; simp⟩
        exact ⟨hr, by rw [content_resident hr]; simp [SecBuf.view, k1]⟩
      · have hr : b.getData.Resident :=
          ⟨by rw [f4]; exact h.notNobits, by rw [k1]; simp, Or.inr ⟨alloc 1, k1, by rw [k2, k3]; exact Nat.le_refl _, by rw [k3]; simp⟩,
            by rw [k3]; simp⟩
        exact ⟨hr, by rw [content_resident hr]; simp [SecBuf.view, k1, k2]⟩
  · obtain ⟨r, v, _, _, _⟩ := getData_pending h
    exact ⟨r, by rw [content_resident r, v, content_pending h]⟩

theorem resident_read {b : SecBuf} (h : b.Resident) (site : String) (off len : Nat) (hl : 0 < len)
    (hb : off + len ≤ b.size.toNat) :
    rdRange site b.data off len = .ok (slice b.view off len) := by
  rcases h.buf with ⟨_, e, _⟩ | ⟨a, e, e1, e2⟩
  · rw [e] at hb; simp at hb; omega
  · rw [e, rdRange_some_ok (by omega)]
    simp only [SecBuf.view, e, Option.getD_some]
    rw [slice_take hb]

theorem resident_data_some {b : SecBuf} (h : b.Resident) (hs : 0 < b.size.toNat) : b.data.isNone = false := by
  rcases h.buf with ⟨_, e, _⟩ | ⟨a, e, _, _⟩
  · rw [e] at hs; simp at hs
  · simp [e]

theorem setSize_frame (b : SecBuf) (v : BitVec 64) :
    (b.setSize v).entSize = b.entSize ∧ (b.setSize v).link = b.link := by
  unfold SecBuf.setSize; cases b.cls <;> simp

theorem insertFinish_frame (b : SecBuf) (ns n : BitVec 64) :
    (b.insertFinish ns n).entSize = b.entSize ∧ (b.insertFinish ns n).link = b.link := by
  obtain ⟨h1, h2⟩ := setSize_frame b ns
  rw [SecBuf.insertFinish_hand]
  dsimp only
  split <;> exact ⟨h1, h2⟩

theorem insertBody_frame {b b' : SecBuf} {pos : BitVec 64} {raw : Bytes}
    (h : b.insertBody pos raw = .ok b') : b'.entSize = b.entSize ∧ b'.link = b.link := by
  unfold SecBuf.insertBody at h
  simp only [s32_pos_gt, s32_ovf_size, s32_new_size, s32_fits, ite_self] at h
  by_cases h1 : sec64_insert_pos_gt_size pos b.size = true
  · rw [if_pos h1] at h; cases h; exact ⟨rfl, rfl⟩
  · rw [if_neg h1] at h
    by_cases h2 : sec64_insert_ovf_size (BitVec.ofNat 64 raw.length) b.size = true
    · rw [if_pos h2] at h; cases h; exact ⟨rfl, rfl⟩
    · rw [if_neg h2] at h
      by_cases h3 : sec64_insert_fits_inplace (sec64_insert_new_size b.size (BitVec.ofNat 64 raw.length)) b.dataSize = true
      · rw [if_pos h3] at h
        cases hd : b.insertInPlace pos.toNat raw with
        | error e => simp [hd, bind, Except.bind] at h
        | ok d =>
          simp only [hd, bind, Except.bind, pure, Except.pure, Except.ok.injEq] at h
          subst h; exact insertFinish_frame _ _ _
      · rw [if_neg h3] at h
        cases hg : growSize (b.cls == Cls.c32) b.dataSize (BitVec.ofNat 64 raw.length) with
        | none => rw [hg] at h; cases h; exact ⟨rfl, rfl⟩
        | some nds =>
          rw [hg] at h
          cases hd : b.insertGrow pos.toNat raw nds.toNat with
          | error e => simp [hd, bind, Except.bind] at h
          | ok d =>
            simp only [hd, bind, Except.bind, pure, Except.pure, Except.ok.injEq] at h
            subst h; exact insertFinish_frame _ _ _

theorem appendData_frame {b b' : SecBuf} {raw : Bytes} (h : b.appendData raw = .ok b') :
    b'.entSize = b.entSize ∧ b'.link = b.link := by
  unfold SecBuf.appendData SecBuf.insertData at h
  simp only [s32_not_nobits, s32_make_resident, ite_self] at h
  by_cases h1 : (!sec64_insert_not_nobits b.stype) = true
  · rw [if_pos h1] at h; cases h; exact ⟨rfl, rfl⟩
  · rw [if_neg h1] at h
    have := insertBody_frame h
    by_cases h2 : sec64_insert_make_resident b.isLazy b.isLoaded = true
    · rw [if_pos h2] at this
      obtain ⟨f1, _, _, _, f5⟩ := getData_frame b
      rw [f1, f5] at this; exact this
    · rw [if_neg h2] at this; exact this

/-- BitVec comparisons / arithmetic to `Nat`, all powers of two as numerals -/
macro "bvn" : tactic =>
  `(tactic| simp only [BitVec.ult, BitVec.ule, BitVec.toNat_add, BitVec.toNat_sub, BitVec.toNat_mul,
      BitVec.toNat_ofNat, BitVec.toNat_setWidth, BitVec.toNat_udiv, Nat.reducePow, Nat.reduceMod,
      Nat.reduceDiv, Nat.reduceMul, Nat.reduceAdd, Nat.reduceSub, decide_eq_true_eq, decide_eq_false_iff_not] at *)

theorem slice_slice_take (c : Bytes) (off a b : Nat) : (slice c off (a + b)).take a = slice c off a := by
  unfold slice; rw [List.take_take]; congr 1; omega

theorem slice_slice_drop (c : Bytes) (off a b : Nat) :
    ((slice c off (a + b)).drop a).take b = slice c (off + a) b := by
  unfold slice
  rw [List.drop_take, List.drop_drop, List.take_take]
  congr 1; omega

theorem rawEntry32 (e : Enc) (sec : SecBuf) (hR : sec.Resident) (hent : sec.entSize = 8#64)
    (idx : BitVec 64) (hi : idx.toNat < sec.view.length / 8) :
    ∃ tag val, rawEntryOn true e sec idx = .ok (tag, val) ∧
      (⟨tag.toNat, val.toNat⟩ : DynEntry) = readEntry ⟨.c32, e⟩ (slice sec.view (idx.toNat * 8) 8) := by
  have hlen := view_length hR
  have hs := sec.size.isLt
  have hx := idx.isLt
  simp only [Nat.reducePow] at hs hx
  rw [hlen] at hi
  have hnn := resident_data_some hR (by omega)
  have g1 : dyn32_get_nodata sec.data.isNone sec.entSize = false := by
    rw [hnn, hent]; decide
  have g2 : ¬ (sec.entSize = 0) := by rw [hent]; decide
  have g3 : dyn32_get_index_ovf idx sec.size sec.entSize = false := by
    rw [hent]; unfold dyn32_get_index_ovf
    simp only [BitVec.reduceSignExtend]
    bvn; omega
  have ho : (dyn32_get_offset idx sec.entSize).toNat = idx.toNat * 8 := by
    rw [hent]; unfold dyn32_get_offset; bvn; omega
  have g4 : dyn32_get_offset_ovf (dyn32_get_offset idx sec.entSize) sec.size = false := by
    unfold dyn32_get_offset_ovf
    rw [BitVec.ult, ho]
    simp only [sizeof_Elf32_Dyn]
    bvn; omega
  unfold rawEntryOn
  dyn_tie
  simp only [↓reduceIte, g1, g2, g3, g4, Bool.false_eq_true, ho]
  -- the two field reads
  have r1 := resident_read hR "dyn/get:d_tag" (idx.toNat * 8 + 0) 4 (by omega) (by omega)
  have r2 := fun site => resident_read hR site (idx.toNat * 8 + 4) 4 (by omega) (by omega)
  have l1 : (slice sec.view (idx.toNat * 8 + 0) 4).length = 4 := slice_length_of_le (by rw [hlen]; omega)
  have l2 : (slice sec.view (idx.toNat * 8 + 4) 4).length = 4 := slice_length_of_le (by rw [hlen]; omega)
  have e1 : slice sec.view (idx.toNat * 8 + 0) 4 = (slice sec.view (idx.toNat * 8) 8).take 4 := by
    rw [Nat.add_zero, ← slice_slice_take _ _ 4 4]
  have e2 : slice sec.view (idx.toNat * 8 + 4) 4 = ((slice sec.view (idx.toNat * 8) 8).drop 4).take 4 := by
    rw [← slice_slice_drop _ _ 4 4]
  unfold readRec32
  simp only [Elf32_Dyn.d_tag_off, Elf32_Dyn.d_tag_w, Elf32_Dyn.d_un_d_val_off, Elf32_Dyn.d_un_d_val_w,
    Elf32_Dyn.d_un_d_ptr_off, Elf32_Dyn.d_un_d_ptr_w, r1, r2, bind, Except.bind, pure, Except.pure]
  have ht : (dyn32_get_tag (cv32 e) (BitVec.ofNat 32 (hostDecode (slice sec.view (idx.toNat * 8 + 0) 4)))).toNat
      = sextTag .c32 (decodeInt e (slice sec.view (idx.toNat * 8 + 0) 4)) := by
    unfold dyn32_get_tag; rw [sext32_toNat, cv32_rd e _ l1]
  have hv : ∀ f : (BitVec 32 → BitVec 32) → BitVec 32 → BitVec 64,
      (f = dyn32_get_val_val ∨ f = dyn32_get_val_ptr) →
      (f (cv32 e) (BitVec.ofNat 32 (hostDecode (slice sec.view (idx.toNat * 8 + 4) 4)))).toNat
        = decodeInt e (slice sec.view (idx.toNat * 8 + 4) 4) := by
    intro f hf
    have := cv32_rd e _ l2
    have hb := (cv32 e (BitVec.ofNat 32 (hostDecode (slice sec.view (idx.toNat * 8 + 4) 4)))).isLt
    rcases hf with rfl | rfl <;> simp only [dyn32_get_val_val, dyn32_get_val_ptr, BitVec.toNat_setWidth,
      Nat.reducePow] at * <;> omega
  generalize htag : dyn32_get_tag (cv32 e) (BitVec.ofNat 32 (hostDecode (slice sec.view (idx.toNat * 8 + 0) 4))) = tag at *
  have hk := kind32_zero tag
  simp only [readEntry, decodeDyn, dynWord, ← e1, ← e2, ← ht]
  rcases kind32_range tag with h | h | h
  · have hi' := hk.1 h
    refine ⟨tag, dyn32_get_val_none, by simp only [h, ↓reduceIte], ?_⟩
    simp only [hi', ↓reduceIte, dyn32_get_val_none]; rfl
  · have hi' := ignored_of_kind hk (by omega)
    refine ⟨tag, _, by simp only [h, Nat.reduceEqDiff, ↓reduceIte]; rfl, ?_⟩
    simp only [hi', Bool.false_eq_true, ↓reduceIte, hv _ (Or.inl rfl)]
  · have hi' := ignored_of_kind hk (by omega)
    refine ⟨tag, _, by simp only [h, Nat.reduceEqDiff, ↓reduceIte]; rfl, ?_⟩
    simp only [hi', Bool.false_eq_true, ↓reduceIte, hv _ (Or.inr rfl)]

theorem rawEntry64 (e : Enc) (sec : SecBuf) (hR : sec.Resident) (hent : sec.entSize = 16#64)
    (idx : BitVec 64) (hi : idx.toNat < sec.view.length / 16) :
    ∃ tag val, rawEntryOn false e sec idx = .ok (tag, val) ∧
      (⟨tag.toNat, val.toNat⟩ : DynEntry) = readEntry ⟨.c64, e⟩ (slice sec.view (idx.toNat * 16) 16) := by
  have hlen := view_length hR
  have hs := sec.size.isLt
  have hx := idx.isLt
  simp only [Nat.reducePow] at hs hx
  rw [hlen] at hi
  have hnn := resident_data_some hR (by omega)
  have g1 : dyn64_get_nodata sec.data.isNone sec.entSize = false := by
    rw [hnn, hent]; decide
  have g2 : ¬ (sec.entSize = 0) := by rw [hent]; decide
  have g3 : dyn64_get_index_ovf idx sec.size sec.entSize = false := by
    rw [hent]; unfold dyn64_get_index_ovf
    simp only [BitVec.reduceSignExtend]
    bvn; omega
  have ho : (dyn64_get_offset idx sec.entSize).toNat = idx.toNat * 16 := by
    rw [hent]; unfold dyn64_get_offset; bvn; omega
  have g4 : dyn64_get_offset_ovf (dyn64_get_offset idx sec.entSize) sec.size = false := by
    unfold dyn64_get_offset_ovf
    rw [BitVec.ult, ho]
    simp only [sizeof_Elf64_Dyn]
    bvn; omega
  unfold rawEntryOn
  dyn_tie
  simp only [↓reduceIte, g1, g2, g3, g4, Bool.false_eq_true, ho]
  -- the two field reads
  have r1 := resident_read hR "dyn/get:d_tag" (idx.toNat * 16 + 0) 8 (by omega) (by omega)
  have r2 := fun site => resident_read hR site (idx.toNat * 16 + 8) 8 (by omega) (by omega)
  have l1 : (slice sec.view (idx.toNat * 16 + 0) 8).length = 8 := slice_length_of_le (by rw [hlen]; omega)
  have l2 : (slice sec.view (idx.toNat * 16 + 8) 8).length = 8 := slice_length_of_le (by rw [hlen]; omega)
  have e1 : slice sec.view (idx.toNat * 16 + 0) 8 = (slice sec.view (idx.toNat * 16) 16).take 8 := by
    rw [Nat.add_zero, ← slice_slice_take _ _ 8 8]
  have e2 : slice sec.view (idx.toNat * 16 + 8) 8 = ((slice sec.view (idx.toNat * 16) 16).drop 8).take 8 := by
    rw [← slice_slice_drop _ _ 8 8]
  unfold readRec64
  simp only [Elf64_Dyn.d_tag_off, Elf64_Dyn.d_tag_w, Elf64_Dyn.d_un_d_val_off, Elf64_Dyn.d_un_d_val_w,
    Elf64_Dyn.d_un_d_ptr_off, Elf64_Dyn.d_un_d_ptr_w, r1, r2, bind, Except.bind, pure, Except.pure]
  have ht : (dyn64_get_tag (cv64 e) (BitVec.ofNat 64 (hostDecode (slice sec.view (idx.toNat * 16 + 0) 8)))).toNat
      = sextTag .c64 (decodeInt e (slice sec.view (idx.toNat * 16 + 0) 8)) := by
    unfold dyn64_get_tag; rw [cv64_rd e _ l1]; simp only [sextTag]; have := cv64_rd e _ l1; have hb := (cv64 e (BitVec.ofNat 64 (hostDecode (slice sec.view (idx.toNat * 16 + 0) 8)))).isLt; simp only [Nat.reducePow] at hb; omega
  have hv : ∀ f : (BitVec 64 → BitVec 64) → BitVec 64 → BitVec 64,
      (f = dyn64_get_val_val ∨ f = dyn64_get_val_ptr) →
      (f (cv64 e) (BitVec.ofNat 64 (hostDecode (slice sec.view (idx.toNat * 16 + 8) 8)))).toNat
        = decodeInt e (slice sec.view (idx.toNat * 16 + 8) 8) := by
    intro f hf
    have := cv64_rd e _ l2
    have hb := (cv64 e (BitVec.ofNat 64 (hostDecode (slice sec.view (idx.toNat * 16 + 8) 8)))).isLt
    rcases hf with rfl | rfl <;> simp only [dyn64_get_val_val, dyn64_get_val_ptr, BitVec.toNat_setWidth,
      Nat.reducePow] at * <;> omega
  generalize htag : dyn64_get_tag (cv64 e) (BitVec.ofNat 64 (hostDecode (slice sec.view (idx.toNat * 16 + 0) 8))) = tag at *
  have hk := kind_zero tag
  simp only [readEntry, decodeDyn, dynWord, ← e1, ← e2, ← ht]
  rcases kind_range tag with h | h | h
  · have hi' := hk.1 h
    refine ⟨tag, dyn64_get_val_none, by simp only [h, ↓reduceIte], ?_⟩
    simp only [hi', ↓reduceIte, dyn64_get_val_none]; rfl
  · have hi' := ignored_of_kind hk (by omega)
    refine ⟨tag, _, by simp only [h, Nat.reduceEqDiff, ↓reduceIte]; rfl, ?_⟩
    simp only [hi', Bool.false_eq_true, ↓reduceIte, hv _ (Or.inl rfl)]
  · have hi' := ignored_of_kind hk (by omega)
    refine ⟨tag, _, by simp only [h, Nat.reduceEqDiff, ↓reduceIte]; rfl, ?_⟩
    simp only [hi', Bool.false_eq_true, ↓reduceIte, hv _ (Or.inr rfl)]

end C12
end ElfioVerif
