import ElfioVerif.Basic
import ElfioVerif.Gen.Layout
import ElfioVerif.Gen.Funcs
import ElfioVerif.Gen.Sites
import ElfioVerif.Gen.SitesC09
