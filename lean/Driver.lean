import ElfioVerif.Driver.Common
import ElfioVerif.Driver.C07
import ElfioVerif.Driver.C09
open ElfioVerif.Drv

def main (args : List String) : IO UInt32 := do
  match args with
  | ["c07"] => mainLoop C07.runCase; return 0
  | ["c09"] => mainLoop C09.runCase; return 0
  | _ => IO.eprintln "usage: driver <family>"; return 2
