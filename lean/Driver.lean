import ElfioVerif.Driver.Common
import ElfioVerif.Driver.C07
import ElfioVerif.Driver.Load
import ElfioVerif.Driver.C14
import ElfioVerif.Driver.C08
import ElfioVerif.Driver.C13
import ElfioVerif.Driver.C11
import ElfioVerif.Driver.C12
import ElfioVerif.Driver.C10
import ElfioVerif.Driver.C09
import ElfioVerif.Driver.C19
open ElfioVerif.Drv

def main (args : List String) : IO UInt32 := do
  match args with
  | ["c07"] => mainLoop C07.runCase; return 0
  | ["load"] => mainLoop Load.runCase; return 0
  | ["c14"] => mainLoop C14.runCase; return 0
  | ["c08"] => mainLoop C08.runCase; return 0
  | ["c13"] => mainLoop C13.runCase; return 0
  | ["c11"] => mainLoop C11.runCase; return 0
  | ["c12"] => mainLoop C12.runCase; return 0
  | ["c10"] => mainLoop C10.runCase; return 0
  | ["c09"] => mainLoop C09.runCase; return 0
  | ["c19"] => mainLoop C19.runCase; return 0
  | _ => IO.eprintln "usage: driver <family>"; return 2
