"""C19 — a moved-to object is complete and independent of its source.  **Partial.**

Proof (Props/C19.lean, about Model/Heap.lean = the ownership graph read off elfio.hpp after
fixes/06-08: which object owns which convertor/translator pair, which stream, which
header/sections/segments, and where the raw pointers inside header/sections/segments lead):
 * `step_refines` / `move_refines`: for EVERY history (construct, compression constructor, create,
   set_address_translation, load(file name) eager/lazy, load of a missing file, move-construct,
   move-assign, destroy, storage reuse, observe/edit/save) from any state satisfying the ownership
   invariant `Inv` (every object owns a live pair and stream, nobody shares, the pointers of an
   object's header/sections/segments lead to what that object owns) the code does exactly what value
   semantics (Spec/Value.lean: moves transfer the value and leave the source empty-but-valid) does:
   same outputs, same values, `Inv` again;
 * `move_refines_wf`: on well-formed histories (`WF`: no operation on a destroyed object) from the
   empty heap the only possible fault is one of the content operations themselves, the same in both;
   `no_dangling`: no history at all ever dereferences a pointer into freed storage;
 * `source_reusable_construct/_assign`: after a move the destination holds the source's value, the
   source is empty-but-valid, can be destroyed and its storage reused, nobody else changes;
 * `reinit_fresh_create/_load`, `source_reinit_like_fresh`: create/load on any object of any
   reachable state depend only on their arguments and the object's address translation;
 * on the model of the code BEFORE the repairs (`Variant.asIs`): `move_uaf_witness`,
   `move_alias_witness`, `move_assign_alias_witness`, `move_stream_witness`, `ctor_header_witness`,
   `open_stale_stream_witness`, `vec_growth_witness` (each by evaluation of a concrete history).
The contents (ELF header, sections, segments and what observe/edit/save do) are a parameter of
model, specification and theorems; the driver plugs in the object model of the loader/writer
families (Model/Obj, Load, Writer).

Only covered by correspondence (harness/c19.cpp under ASan/UBSan vs Driver/C19.lean): that the
ownership graph of the real code is the modelled one — C++ object lifetime itself is observed only by
ASan; std::vector growth policy (capacity printed and compared); the content operations.
Oracle (independent of the model): value semantics in Python — every observation/save of an object is
keyed by the value history it must depend on (last re-initialisation + edits, carried along by moves);
all outputs with the same key must be equal, each key is also replayed on a fresh never-moved twin
object inside the same case, moved-from objects must look empty, a few header fields are checked
absolutely, any FAULT (ASan) is a violation.
"""
import itertools, os, sys
sys.path.insert(0, os.path.join(os.path.dirname(os.path.dirname(os.path.abspath(__file__))), "tools"))
import elfspec

PROPERTY = "C19"
FAMILY = "c19"
LEAN_MODULE = "ElfioVerif.Props.C19"
THEOREMS = ["ElfioVerif.C19.step_refines", "ElfioVerif.C19.move_refines", "ElfioVerif.C19.move_refines_wf",
            "ElfioVerif.C19.no_dangling", "ElfioVerif.C19.source_reusable_construct",
            "ElfioVerif.C19.source_reusable_assign", "ElfioVerif.C19.reinit_fresh_create",
            "ElfioVerif.C19.reinit_fresh_load", "ElfioVerif.C19.source_reinit_like_fresh",
            "ElfioVerif.C19.move_uaf_witness", "ElfioVerif.C19.move_alias_witness",
            "ElfioVerif.C19.move_assign_alias_witness", "ElfioVerif.C19.move_stream_witness",
            "ElfioVerif.C19.ctor_header_witness", "ElfioVerif.C19.open_stale_stream_witness",
            "ElfioVerif.C19.vec_growth_witness"]
SITES = []
RULE = ("histories over 1-4 heap objects and one std::vector<elfio>: {default ctor | compression ctor} -> "
        "{create cls enc | load(file name) eager | lazy | missing file | bad magic} (optionally with address "
        "translation and a padded file) -> edits -> {move-construct | move-assign | vector emplace_back(move) | "
        "emplace_back() incl. reallocation} -> {delete + storage reuse | create/load other byte order | "
        "move-assign over | nothing} on the source -> {observe everything, edit, save} on destination, source and "
        "bystanders, several rounds; x {ELF32,ELF64} x {LSB,MSB} mixed inside one case; every observed value is "
        "replayed on a fresh twin object; thorough adds all sequences of length <= 4 over a 9-operation alphabet "
        "on two objects. non-trivial = a non-empty object is observed after it was moved and its source was "
        "destroyed or re-initialised; distinct by md5 of the case text")
ASSUMPTIONS = ["new/make_unique succeed", "files written to /tmp can be opened and read back",
               "little-endian host", "no operation on a destroyed object, no edit of an object without header "
               "(moved-from and not re-initialised) - outside the property's histories"]
TRUSTED = ["Model/Heap.lean is the ownership graph of elfio.hpp (read by hand; ASan in the correspondence is the check)",
           "content algebra instance Driver/C19.objOps = Model/Obj+Load+Writer (validated by the loader/writer families)"]
KEEP_FIRST = 0
CFGS = [(32, "lsb"), (32, "msb"), (64, "lsb"), (64, "msb")]
EMPTY_OBS = ("class=0 ver=0 enc=0 version=0 ehsize=0 shentsize=0 phentsize=0 osabi=0 abiver=0 type=0 machine=0 "
             "flags=0 entry=0 shoff=0 phoff=0 shstrndx=0 nsec=0 nseg=0")


def hx(b):
    return b.hex() if b else "-"


# ------------------------------------------------------------------ value semantics (the reference)

class Val:
    """value of one object: address translation + the lines its contents depend on"""
    __slots__ = ("trans", "hist", "known", "info", "comp")

    def __init__(self, trans=(), hist=None, known=True, info=None, comp=False):
        self.comp = comp        # constructed with a compression interface (travels with the value, survives create/load)
        self.trans = trans      # tuple of tokens of the last `trans`
        self.hist = hist        # None: empty object; else tuple of protocol lines with the name replaced by @
        self.known = known      # False after a load that was not recognised: no claim until re-initialised
        self.info = info or {}  # absolutely known header fields

    def copy(self):
        return Val(self.trans, self.hist, self.known, dict(self.info), self.comp)


def is_elf(img):
    return len(img) >= 16 and img[:4] == b"\x7fELF" and img[4] in (1, 2) and img[5] in (1, 2)


def image_at(img, trans):
    """the bytes load() looks at: the file from the translated position of offset 0"""
    if not trans:
        return img
    t = [int(x, 0) for x in trans]
    ent = sorted([(t[i], t[i + 1], t[i + 2]) for i in range(0, len(t) - 2, 3)])
    for s, z, m in ent:
        if s <= 0 < s + z:
            return img[m - s:]
    return img


class World:
    """names -> values; the vector's slots are v0, v1, ..."""

    def __init__(self):
        self.v = {}
        self.nvec = 0

    def step(self, line):
        """returns (kind, name, key) : kind in obs/save/ed/load/other; key = what the output may depend on
        (None: no claim), plus an `expect` string when value semantics fixes the output outright"""
        t = line.split()
        op = t[0]
        W = self.v
        fresh = lambda comp=False: Val((), ((("comp",),) if comp else ()) + ("new @",), True,
                                       {"class": 1, "enc": 1, "nsec": 2, "type": 0, "machine": 0, "entry": 0}, comp)
        cm = lambda x: ((("comp",),) if x.comp else ())     # marker: the twin is constructed with the interface too
        if op == "reuse":
            return ("other", None, None, "ok")
        if op == "vnew":
            W[f"v{self.nvec}"] = fresh(); self.nvec += 1
            return ("other", None, None, None)
        n = t[1]
        if op == "new":
            if n in W: return ("illformed", n, None, None)
            W[n] = fresh("comp=1" in t)
            return ("other", n, None, "ok")
        if op == "mc":
            if n in W or t[2] not in W: return ("illformed", n, None, None)
            W[n] = W[t[2]]; W[t[2]] = Val()
            return ("other", n, None, "ok")
        if n not in W:
            return ("illformed", n, None, None)
        x = W[n]
        if op == "create":
            cls = 1 if "cls=32" in t else 2
            enc = 2 if "enc=msb" in t else 1
            W[n] = Val(x.trans, cm(x) + (("trans",) + x.trans, "create @ " + " ".join(t[2:])), True,
                       {"class": cls, "enc": enc, "nsec": 2, "type": 0, "machine": 0, "entry": 0}, x.comp)
            return ("other", n, None, "ok")
        if op == "trans":
            x.trans = tuple(t[2:])
            if x.hist is not None:
                x.hist = x.hist + ("trans @ " + " ".join(t[2:]),)
            return ("other", n, None, "ok")
        if op == "load":
            img = bytes.fromhex(t[2]) if t[2] != "-" else b""
            seen = image_at(img, x.trans)
            key = ("load", x.trans, t[2], " ".join(t[3:]))
            if is_elf(seen):
                info = {"class": seen[4], "enc": seen[5]}
                d = elfspec.decode(seen) if not x.trans and elfspec.wellformed(seen) else None
                if d is not None:
                    info.update(nsec=d["ehdr"]["e_shnum"], type=d["ehdr"]["e_type"], machine=d["ehdr"]["e_machine"],
                                entry=d["ehdr"]["e_entry"])
                W[n] = Val(x.trans, cm(x) + (("trans",) + x.trans, "load @ " + " ".join(t[2:])), True, info, x.comp)
                return ("load", n, key, None)
            # not recognised: sections dropped, old header kept - no claim about what it looks like
            if x.hist is not None:
                x.known = False
            return ("load", n, key, "load=false")
        if op == "loadmissing":
            if x.hist is not None:
                x.hist = x.hist + ("loadmissing @ " + " ".join(t[2:]),)
                x.info.pop("nsec", None)   # what a failed load leaves of the sections is not specified
            return ("other", n, None, "load=false")
        if op == "ma":
            s = t[2]
            if s not in W: return ("illformed", n, None, None)
            if s != n:
                W[n] = W[s]; W[s] = Val()
            return ("other", n, None, "ok")
        if op == "del":
            del W[n]
            return ("other", n, None, "ok")
        if op == "vpush":
            W[f"v{self.nvec}"] = x; self.nvec += 1
            W[n] = Val()
            return ("other", n, None, None)
        if op == "obs":
            if x.hist is None:
                return ("obs", n, None, EMPTY_OBS)
            key = (x.hist, "obs") if x.known else None
            # an observation makes lazily loaded data resident, which later saves may depend on: part of the history
            x.hist = x.hist + ("obs @",)
            return ("obs", n, key, None)
        if op == "save":
            if x.hist is None:
                return ("save", n, None, "save=false bytes=-")
            key = (x.hist, "save") if x.known else None
            x.hist = x.hist + ("save @",)
            return ("save", n, key, None)
        if op == "ed":
            if x.hist is None:
                return ("ed", n, None, "empty")
            key = (x.hist, "ed " + " ".join(t[2:])) if x.known else None
            x.hist = x.hist + ("ed @ " + " ".join(t[2:]),)
            if t[2] == "hset" and t[3] in ("type", "machine", "entry") and x.known:
                v = int(t[4], 0)
                x.info[t[3]] = v & 0xFFFF if t[3] != "entry" else (v & 0xFFFFFFFF if x.info.get("class") == 1 else v)
            if t[2] == "addsec" and "nsec" in x.info:
                x.info["nsec"] += 1
            return ("ed", n, key, None)
        return ("other", n, None, None)


def twin_lines(hist, tname, final):
    """replay of a value history on a fresh object"""
    out = []
    for h in hist:
        if isinstance(h, tuple):           # ("trans", ...) : the translation in force at the re-initialisation
            if len(h) > 1:
                out.append(f"trans {tname} " + " ".join(h[1:]))
        elif h == "new @":
            pass
        else:
            out.append(h.replace("@", tname, 1))
    out.append(final.replace("@", tname, 1))
    return out


def with_twins(lines):
    """main history + for every value that is observed/saved/edited in it a fresh twin going through the same
    value history (twins are o900.., never moved, never shared)"""
    w = World(); twins = []; seen = set(); k = 900
    for ln in lines:
        kind, n, key, _ = w.step(ln)
        if kind in ("obs", "save") and key is not None and key not in seen:
            seen.add(key)
            tn = f"o{k}"; k += 1
            twins.append(f"new {tn}" + (" comp=1" if ("comp",) in key[0] else ""))
            twins += twin_lines(key[0], tn, ("obs @" if kind == "obs" else "save @"))
    return lines + twins


# ------------------------------------------------------------------ generator

def small_image(rng, cls, enc, tame=True):
    """a small image that can also be *saved* again without producing a huge file: sections laid out one after
    the other, small addresses that follow the file offsets, at most one PT_LOAD covering one section exactly"""
    m = elfspec.Model(cls, enc)
    aw = 4 if cls == 32 else 8
    nsec = rng.randint(2, 5)
    m.ident[0:4] = b"\x7fELF"; m.ident[4] = 1 if cls == 32 else 2; m.ident[5] = 1 if enc == "lsb" else 2
    m.ident[6] = 1; m.ident[7] = rng.choice([0, 3, 9]); m.ident[8] = rng.choice([0, 1])
    names = [b""] + [rng.choice([b".text", b".data", b".bss", b".rodata", b".note", b"x"]) for _ in range(nsec - 2)] + [b".shstrtab"]
    strtab = b"\0"; nameoff = []
    for nm in names:
        if nm == b"": nameoff.append(0)
        else: nameoff.append(len(strtab)); strtab += nm + b"\0"
    ehsize = elfspec.EHSIZE[cls]; phentsize = elfspec.PHSIZE[cls]; shentsize = elfspec.SHSIZE[cls]
    nseg = rng.choice([0, 0, 1]) if nsec > 2 else 0
    pos = ehsize + nseg * phentsize
    secs = []
    for i in range(nsec):
        if i == 0: ty, data = 0, None
        elif i == nsec - 1: ty, data = 3, strtab
        else:
            ty = rng.choice([1, 1, 1, 8, 7])
            data = None if ty == 8 else bytes(rng.randrange(256) for _ in range(rng.choice([0, 1, 5, 16, 33, 70])))
        align = rng.choice([1, 4, 8, 16]) if i else 0
        if data is not None and align:
            pos += (-pos) % align
        off = pos if i else 0
        flags = rng.choice([0, 2, 3, 6]) if 0 < i < nsec - 1 else 0
        size = len(data) if data is not None else (rng.choice([0, 8, 64]) if ty == 8 else 0)
        addr = (0x10000 + off) if (flags & 2) else 0
        secs.append({"sh_name": nameoff[i], "sh_type": ty, "sh_flags": flags, "sh_addr": addr, "sh_offset": off,
                     "sh_size": size, "sh_link": rng.choice([0, 0, 1]) if i else 0, "sh_info": rng.choice([0, 0, 2]) if i else 0,
                     "sh_addralign": align, "sh_entsize": rng.choice([0, 0, 8]) if i else 0, "name": names[i], "data": data})
        if data is not None:
            pos += len(data)
    pos += (-pos) % 8
    shoff = pos
    total = shoff + nsec * shentsize
    segs = []
    if nseg:
        cand = [x for x in secs[1:-1] if x["data"] is not None and x["sh_flags"] & 2 and x["sh_size"]]
        if cand:
            x = rng.choice(cand)
            segs.append({"p_type": 1, "p_flags": rng.choice([4, 5, 6]), "p_offset": x["sh_offset"], "p_vaddr": x["sh_addr"],
                         "p_paddr": x["sh_addr"], "p_filesz": x["sh_size"], "p_memsz": x["sh_size"], "p_align": x["sh_addralign"]})
        else:
            segs.append({"p_type": 4, "p_flags": 4, "p_offset": 0, "p_vaddr": 0, "p_paddr": 0, "p_filesz": 0, "p_memsz": 0, "p_align": 1})
    m.sections = secs; m.segments = segs; m.size = total
    m.ehdr = {"e_type": rng.choice([1, 2, 3]), "e_machine": rng.choice([3, 0x3E, 0x28, 0x14, 0xB7]), "e_version": 1,
              "e_entry": rng.choice([0, 0x10040, 0x400080]), "e_phoff": ehsize if nseg else 0, "e_shoff": shoff,
              "e_flags": rng.choice([0, 0x5000200, 2]), "e_ehsize": ehsize, "e_phentsize": phentsize, "e_phnum": nseg,
              "e_shentsize": shentsize, "e_shnum": nsec, "e_shstrndx": nsec - 1}
    return elfspec.encode(m)


def rand_edit(rng, st):
    """st: generator-side knowledge of the object: dict(kind, nsec, prog=[indices of editable sections])"""
    k = rng.random()
    if k < 0.35:
        f = rng.choice(["type", "machine", "entry", "flags", "os_abi"])
        v = rng.choice([1, 2, 3, 0x3E, 0x28, 0x1234, 0xABCD, 0x400080])
        return f"hset {f} {v}"
    if k < 0.6:
        nm = rng.choice([b".text", b".data", b".mine", b"x"])
        d = bytes(rng.randrange(256) for _ in range(rng.choice([0, 1, 4, 13])))
        st["prog"].append(st["nsec"]); st["nsec"] += 1
        return f"addsec name={hx(nm)} type=1 flags={rng.choice([0, 2, 6, 0x800, 0x802, 0x08000000])} align={rng.choice([0, 1, 4, 16])} data={hx(d)}"
    if k < 0.8 and st["nsec"] > 1:
        i = rng.randrange(1, st["nsec"])
        f = rng.choice(["flags", "info", "link", "align", "entsize"])
        return f"secset {i} {f} {rng.choice([0, 1, 2, 8, 16] if f in ('flags', 'align') else [0, 1, 2, 8, 0x1000, 0x12345678])}"
    if st["prog"]:
        i = rng.choice(st["prog"])
        d = bytes(rng.randrange(256) for _ in range(rng.choice([1, 3, 8])))
        return f"secedit {i} {rng.choice(['app', 'set'])} {hx(d)}"
    return "hset machine 62"


def init_ops(rng, name, st_of, pad_of):
    """(re-)initialise `name`: create | load eager | load lazy (| with translation) ; returns lines"""
    cls, enc = rng.choice(CFGS)
    pre = []
    if pad_of.get(name) and rng.random() < 0.6:
        pre = [f"trans {name}"]; pad_of[name] = 0       # back to no translation
    k = rng.random()
    if k < 0.4:
        st_of[name] = {"kind": "create", "nsec": 2, "prog": []}
        return pre + [f"create {name} cls={cls} enc={enc}"]
    img = small_image(rng, cls, enc)
    d = elfspec.decode(img)
    # editable data: PROGBITS sections outside every segment (a loaded segment keeps the data buffer of its
    # original p_filesz; growing a member and saving makes get_file_size() exceed that buffer - not this property)
    covered = {k for g in d["segments"] for k in g["members"]} if d else set()
    prog = [i for i, s in enumerate(d["sections"]) if i > 0 and s["sh_type"] == 1 and i not in covered] if d else []
    st_of[name] = {"kind": "load", "nsec": d["ehdr"]["e_shnum"] if d else 0, "prog": prog}
    lazy = 1 if rng.random() < 0.55 else 0
    if pad_of.get(name):
        st_of[name]["prog"] = []
        return pre + [f"load {name} {hx(bytes(pad_of[name]) + img)} lazy={lazy}"]
    if rng.random() < 0.12:
        pad = rng.choice([16, 100, 4096])
        pad_of[name] = pad
        st_of[name]["prog"] = []   # keep edits of translated lazy data out of this family
        return pre + [f"trans {name} 0 1000000 {pad}", f"load {name} {hx(bytes(pad) + img)} lazy={lazy}"]
    return pre + [f"load {name} {hx(img)} lazy={lazy}"]


def gen_history(rng, length):
    lines = []; live = []; empty = set(); st_of = {}; nvec = 0; nxt = 0
    pad_of = {}
    broken = set()      # header kept, sections dropped by a load that failed: only looked at, until re-initialised
    def newname():
        nonlocal nxt
        nxt += 1
        return f"o{nxt - 1}"
    def fresh_obj():
        n = newname()
        lines.append(f"new {n}" + (" comp=1" if rng.random() < 0.3 else ""))
        live.append(n); st_of[n] = {"kind": "create", "nsec": 2, "prog": []}
        if rng.random() < 0.85:
            lines.extend(init_ops(rng, n, st_of, pad_of))
        for _ in range(rng.choice([0, 0, 1, 2])):
            lines.append(f"ed {n} " + rand_edit(rng, st_of[n]))
        return n
    for _ in range(rng.randint(1, 3)):
        fresh_obj()
    for _ in range(length):
        k = rng.random()
        full = [n for n in live if n not in empty and n not in broken]
        if k < 0.16 and full:                       # move-construct
            s = rng.choice(full); d = newname()
            lines.append(f"mc {d} {s}"); live.append(d); st_of[d] = st_of[s]; empty.add(s)
            pad_of[d] = pad_of.get(s, 0); pad_of[s] = 0
            fate(rng, lines, live, empty, st_of, s, broken, pad_of)
        elif k < 0.30 and full and len(live) >= 2:  # move-assign
            s = rng.choice(full); d = rng.choice([n for n in live if n != s] or [s])
            lines.append(f"ma {d} {s}")
            if d != s:
                st_of[d] = st_of[s]; empty.discard(d); broken.discard(d); empty.add(s)
                pad_of[d] = pad_of.get(s, 0); pad_of[s] = 0
                fate(rng, lines, live, empty, st_of, s, broken, pad_of)
        elif k < 0.40 and full:                     # into the vector (may reallocate)
            s = rng.choice([n for n in full if n.startswith("o")] or full)
            lines.append(f"vpush {s}"); v = f"v{nvec}"; nvec += 1
            live.append(v); st_of[v] = st_of[s]; empty.add(s)
            pad_of[v] = pad_of.get(s, 0); pad_of[s] = 0
            fate(rng, lines, live, empty, st_of, s, broken, pad_of)
        elif k < 0.45:
            lines.append("vnew"); v = f"v{nvec}"; nvec += 1
            live.append(v); st_of[v] = {"kind": "create", "nsec": 2, "prog": []}
            if rng.random() < 0.7:
                lines.extend(init_ops(rng, v, st_of, pad_of))
        elif k < 0.52:
            fresh_obj()
        elif k < 0.60 and live:                     # re-initialise anything
            n = rng.choice(live); lines.extend(init_ops(rng, n, st_of, pad_of)); empty.discard(n); broken.discard(n)
        elif k < 0.63 and live:
            n = rng.choice(live)
            if rng.random() < 0.5:
                lines.append(f"loadmissing {n} lazy={rng.choice([0, 1])}")
                broken.add(n)
            else:
                lines.append(f"load {n} {hx(bytes(rng.randrange(256) for _ in range(rng.choice([0, 3, 20]))))} lazy={rng.choice([0, 1])}")
                broken.add(n)
        elif k < 0.80 and live:
            lines.append(f"obs {rng.choice(live)}")
        elif k < 0.92 and full:
            n = rng.choice(full)
            lines.append(f"ed {n} " + rand_edit(rng, st_of[n]))
        elif live:
            n = rng.choice(live)
            if n not in broken:
                lines.append(f"save {n}")
    for n in live:                                  # everything still alive is looked at in the end
        lines.append(f"obs {n}")
    return lines


def fate(rng, lines, live, empty, st_of, s, broken, pad_of):
    """what happens to the source of a move"""
    k = rng.random()
    if k < 0.35 and s.startswith("o"):
        lines.append(f"del {s}"); live.remove(s); empty.discard(s)
        if rng.random() < 0.5: lines.append("reuse")
    elif k < 0.65:
        lines.extend(init_ops(rng, s, st_of, pad_of)); empty.discard(s); broken.discard(s)
    elif k < 0.75:
        lines.append("reuse")
    elif k < 0.85:
        lines.append(f"obs {s}")
        lines.append(f"save {s}")


def gen_cases(rng, tier):
    n = 260 if tier == "quick" else 2600
    for i in range(n):
        lines = gen_history(rng, rng.randint(4, 14))
        yield {"id": f"r{i}", "lines": with_twins(lines), "meta": {}}
    # the defects of DESIGN.md F6, each in all four configurations
    k = 0
    for cls, enc in CFGS:
        other = "msb" if enc == "lsb" else "lsb"
        img = small_image(rng, cls, enc)
        for lazy in (0, 1):
            for mv in ("mc o1 o0", "new o1|ma o1 o0", "vpush o0"):
                d = "v0" if mv.startswith("vpush") else "o1"
                for fate_ in (["del o0", "reuse"], [f"create o0 cls={cls} enc={other}"],
                              [f"load o0 {hx(small_image(rng, cls, other))} lazy=0"], []):
                    for init in ([f"create o0 cls={cls} enc={enc}", "ed o0 hset machine 62"], [f"load o0 {hx(img)} lazy={lazy}"]):
                        if init[0].startswith("create") and lazy: continue
                        lines = ["new o0"] + init + mv.split("|") + fate_ + [f"obs {d}", f"ed {d} hset entry 4194432",
                                                                            f"ed {d} addsec name={hx(b'.mine')} type=1 data=0102",
                                                                            f"save {d}", f"obs {d}"]
                        yield {"id": f"f{k}", "lines": with_twins(lines), "meta": {"directed": True}}
                        k += 1
        # elements constructed in place, then the vector grows
        lines = ["vnew", f"create v0 cls={cls} enc={enc}", "vnew", f"load v1 {hx(img)} lazy=1", "vnew", "vnew", "vnew",
                 "obs v0", "obs v1", "save v1", "obs v4"]
        yield {"id": f"f{k}", "lines": with_twins(lines), "meta": {"directed": True}}; k += 1
        lines = ["new o0 comp=1", "obs o0", "save o0", f"create o0 cls={cls} enc={enc}", "obs o0"]
        yield {"id": f"f{k}", "lines": with_twins(lines), "meta": {"directed": True}}; k += 1
        # the compression interface travels with the value: sections flagged SHF_COMPRESSED / SHF_RPX_DEFLATE of a
        # moved object are still written through it (the harness counts the calls), whatever becomes of the source
        for flags in (0x800, 0x08000000):
            for mv in ("mc o1 o0", "new o1|ma o1 o0", "new o1 comp=1|ma o1 o0", "vpush o0"):
                d = "v0" if mv.startswith("vpush") else "o1"
                for fate_ in ([], ["del o0", "reuse"], [f"create o0 cls={cls} enc={enc}", "save o0"]):
                    if fate_ and fate_[0] == "del o0" and mv.startswith("vpush"): fate_ = ["reuse"]
                    lines = ["new o0 comp=1", f"create o0 cls={cls} enc={enc}",
                             f"ed o0 addsec name={hx(b'.zdata')} type=1 flags={flags} align=4 data=0102030405060708",
                             f"ed o0 addsec name={hx(b'.plain')} type=1 flags=2 align=1 data=aabb"] + mv.split("|") + fate_ + \
                            [f"save {d}", f"obs {d}", f"ed {d} addsec name={hx(b'.z2')} type=1 flags={flags} data=0909", f"save {d}"]
                    yield {"id": f"f{k}", "lines": with_twins(lines), "meta": {"directed": True}}; k += 1
        lines = ["new o0", f"load o0 {hx(img)} lazy=1", "loadmissing o0 lazy=1", "obs o0", f"load o0 {hx(img)} lazy=1", "obs o0"]
        yield {"id": f"f{k}", "lines": with_twins(lines), "meta": {"directed": True}}; k += 1
    if tier == "thorough":
        img = small_image(rng, 64, "msb")
        alpha = ["mc oN o0", "ma o1 o0", "ma o0 o1", "del o0", "create o0 cls=32 enc=lsb", f"load o1 {hx(img)} lazy=1",
                 "vpush o1", "ed o1 hset machine 40", "save o1"]
        k = 0
        for L in range(1, 5):
            for seq in itertools.product(alpha, repeat=L):
                lines = ["new o0", "create o0 cls=64 enc=msb", "new o1"]
                live = {"o0", "o1"}; nn = 2; ok = True
                for a in seq:
                    t = a.split()
                    names = [x for x in t[1:] if x[0] == "o" and x[1:].isdigit() or x == "oN"]
                    if t[0] == "mc":
                        if "o0" not in live: ok = False; break
                        a = a.replace("oN", f"o{nn}"); live.add(f"o{nn}"); nn += 1
                    elif any(x not in live for x in names):
                        ok = False; break
                    if t[0] == "del": live.discard(t[1])
                    lines.append(a)
                if not ok: continue
                lines += [f"obs {x}" for x in sorted(live)]
                yield {"id": f"x{k}", "lines": with_twins(lines), "meta": {"exhaustive": True}}
                k += 1


# ------------------------------------------------------------------ oracle

def oracle(case, out):
    v = []
    lines = case["lines"]
    w = World()
    groups = {}
    for i, ln in enumerate(lines):
        op = ln.split()[0]
        if i >= len(out):
            v.append({"signature": "fault:truncated", "what": f"transcript ends before line {i}: `{ln[:60]}`"}); return v
        o = out[i]
        if o.startswith("FAULT"):
            v.append({"signature": "fault:" + op, "what": f"memory fault during `{ln[:70]}`: {o}"}); return v
        kind, n, key, expect = w.step(ln)
        if kind == "illformed":
            continue
        if expect is not None and o.split(" ~~ ")[0] != expect:
            sig = "moved-from-not-empty" if expect == EMPTY_OBS else "output:" + op
            v.append({"signature": sig, "what": f"line {i} `{ln[:60]}`: got `{o[:100]}`, value semantics says `{expect[:60]}`"})
            return v
        if key is not None:
            if key in groups and groups[key][1] != o:
                j, prev = groups[key]
                a = diff_field(prev, o)
                v.append({"signature": "value-differs:" + kind,
                          "what": f"`{ln[:40]}` (line {i}) and `{lines[j][:40]}` (line {j}) must agree (same value "
                                  f"history) but differ in {a}"})
                return v
            groups.setdefault(key, (i, o))
        if kind == "obs" and n in w.v and w.v[n].hist is not None and w.v[n].known:
            f = dict(x.split("=", 1) for x in o.split(" | ")[0].split() if "=" in x)
            for fld, val in w.v[n].info.items():
                if fld in f and int(f[fld]) != val:
                    v.append({"signature": "header-field:" + fld,
                              "what": f"`{ln}` (line {i}) reports {fld}={f[fld]}, expected {val}"})
                    return v
    if len(out) <= len(lines):
        v.append({"signature": "fault:teardown", "what": "no teardown line"})
    elif out[len(lines)].startswith("FAULT"):
        v.append({"signature": "fault:teardown", "what": f"memory fault while destroying the objects: {out[len(lines)]}"})
    return v


def diff_field(a, b):
    pa, pb = a.split(" | "), b.split(" | ")
    if len(pa) != len(pb):
        return f"number of sections/segments ({len(pa) - 1} vs {len(pb) - 1} records)"
    for k, (x, y) in enumerate(zip(pa, pb)):
        if x != y:
            fx, fy = x.split(), y.split()
            for p, q in zip(fx, fy):
                if p != q:
                    return f"record {k}: {p[:40]} vs {q[:40]}"
            return f"record {k}"
    return "?"


def nontrivial(case, out):
    moved = False; after = False
    for ln in case["lines"]:
        op = ln.split()[0]
        if op in ("mc", "ma", "vpush"): moved = True
        elif moved and op in ("del", "create", "load"): after = True
        elif after and op == "obs": return any("nsec=" in o and "nsec=0" not in o for o in out)
    return False


def classify(case, out):
    ks = set()
    for ln in case["lines"]:
        t = ln.split()
        ks.add("op:" + t[0])
        if t[0] == "load": ks.add("load-lazy" if "lazy=1" in t else "load-eager")
        if t[0] == "create": ks.add("cfg:" + "-".join(x.split("=")[1] for x in t[2:4]))
    if any(o.startswith("FAULT") for o in out): ks.add("fault")
    return sorted(ks)
