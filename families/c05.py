"""C05 — load, edit, save, load preserves everything the user did not touch.

Proof (Props/C05.lean; details in that file's header): `save_writes_fields` (frame theorem over all
passes of save: a section keeps everything but placement and residency, a segment everything but
offset/filesz/memsz/align/offsetSet), `wsdStep_equidistant` + `image_bytes_at_same_vaddr` (corollary by
hypothesis of C04's member_equidistant: p_vaddr + (sh_offset - p_offset) = sh_addr in the saved bytes,
data at the mapped position), `loaded_resave_fields` (save then load gives the same section and segment
fields and data; relative to the abstract `Loaded` predicate = C02's decoders, and to C04's disjointness
`LayoutOk`), `edit_frame` (+ `edit_frame_add_section`: edits outside the segments do not move members
or segments).
COMPOSITION WITH C04 (Props/C05Compose.lean): `image_bytes_at_same_vaddr_of_save` (member of a flat segment) and
`image_bytes_at_same_vaddr_nested_of_save` (member of a segment nested in a flat one) are
image_bytes_at_same_vaddr with BOTH layout hypotheses discharged: `LayoutOk` through C03.layoutOk_of_save
(C04.layout_disjoint) and `Equidistant` through C04.save_segments / C04.save_nested_equidistant.  Remaining
hypotheses: success of save into a good stream, `C03.SaveDomain o hdr` (decidable facts about the input object),
C04's writer-domain condition at the turn of the segment (`layoutDomB false false sel`, a Bool function of the
input; for the nested case `layoutSelB segNestedStartB`, the member lists' inclusion, and the first member
file-occupying with the explicit address that is the nested segment's p_vaddr), the section is a file-occupying
member.  Non-vacuity on C03.exBuiltObj (made through the model's API).  The abstract `Loaded` is discharged in Props/Compose.lean (+ Lemmas/RoundTrip.lean):
RoundTrip.loaded_of_wellFormed (the model's eager `load` of EVERY C02-well-formed image satisfies `Loaded`),
Compose.loaded_satisfies_Loaded / _flat (the bytes of a successful `save` are a well-formed image —
Compose.saved_wellFormed — so the model's load of writer output satisfies `Loaded`; it has the saved object's
class, byte order and header) and Compose.reload_resave_fields / _flat (`loaded_resave_fields` for the real
reload: save, load the bytes, same sections — name offset, type, flags, size, link, info, alignment, entry
size, address if set, data — and segments).  `_flat`: hypotheses on the input object only (`FlatDomain`:
C03.SaveDomain + bookkeeping + flat segments) plus "no address/offset range of the saved object reaches 2^64".
After a LAZY reload the data clause holds once the data have been requested (RoundTrip.Reloaded.sec).
NESTED SEGMENTS (Lemmas/LayoutNested2.lean, Lemmas/RoundTrip2.lean, Props/Compose2.lean): the clause
`SavedSane.segInside` (a segment's file range ends at or before the section header table) is now proved for segments
nested in others too: `final_nested_file` (the file size `write_segment_data` derives for a nested segment is 0 or ends
exactly at the end of one of its file-occupying members), `RoundTrip.segInside_nested`, `savedSane_mixed`;
`Compose.loaded_satisfies_Loaded_nested` / `reload_reports_saved_nested`: hypotheses on the input object only
(`NestedDomain selE selN`: every segment is flat - `layoutDomB false false selE` - or nested - `layoutNestedB selN`)
plus `NoWrap64` of the saved object.  `loaded_satisfies_Loaded_flat_input`: `NoWrap64` of the saved object replaced by
the input-side `noWrap64InB o hd` (a Bool function of the input that runs the layout; `Compose.noWrap64_of_input`).
CLOSED-FORM DOMAIN (Lemmas/LayoutSmall.lean, Props/C04Small.lean, Props/C06Small.lean): the `layoutNW (preSave o) hd`
clause of `ComposeDomain` / `FlatDomain` / `NestedDomain` follows from plain bounds on the input, `SmallObject o` (ELF64;
< 2^16 sections and segments; section sizes and alignments, segment alignments < 2^40; a member with an explicit
address lies in [p_vaddr, p_vaddr + 2^40)) - `smallObject_layoutNW`, `Compose.composeDomain_of_small`.  `noWrap64InB`
(NoWrap64 of the OUTPUT) in closed form for the FLAT domain: `C04.noWrap64_of_small_flat` - FlatDomain + SmallObject +
`SmallAddrs2` (addresses, offsets, segment vaddr < 2^62; index-0 / SHT_NULL sections at offset 0; < 2^16 members) +
p_memsz < 2^62 => `NoWrap64 r.obj.secs r.obj.segs`, the hypothesis `hw` of `loaded_satisfies_Loaded_flat` /
`reload_resave_fields_flat` (and of C06 `save_load_save_flat`, C20 `validate_silent_reloaded_flat`).  For nested
segments `noWrap64InB` remains a Bool check that runs the layout (section half closed-form:
`C04.save_sections_noWrap_small`) - see families/c04.py.
Only covered by correspondence/oracle: `Loaded` for the re-saved form of a LOADED (not created) object with
nested segments, equality (not only >=) of reloaded memory sizes, ELF32 equidistance.
Correspondence: family load.  Oracle: object 0 loads the image and is
observed, is optionally edited (add a section; append to a section that belongs to no segment; add a
string / symbol / note through the accessors' underlying append), saved and reloaded (eager or lazy),
observed again: every untouched section must keep name, type, flags, address, size, link, info,
alignment, entry size and data; every segment type, flags, vaddr, paddr, memsz; and for every member
of a PT_LOAD: vaddr_seg + (offset_sec - offset_seg) == addr_sec (image bytes at the same address).
Images: linker-like images from the independent encoder (tools/elfspec.linked_model) and the bundled
examples (executables, shared objects, relocatables, kernel module; ARM/PPC/x86).
"""
from families.writercommon import *
from families.loadcommon import observe_lines, counts

PROPERTY = "C05"
FAMILY = "load"
LEAN_MODULE = "ElfioVerif.Props.C05Compose"
THEOREMS = ["ElfioVerif.C05.save_writes_fields",
            "ElfioVerif.C05.wsdStep_equidistant",
            "ElfioVerif.C05.image_bytes_at_same_vaddr",
            "ElfioVerif.C05.loaded_resave_fields",
            "ElfioVerif.C05.loaded_resave_names",
            "ElfioVerif.C05.edit_frame",
            "ElfioVerif.C05.edit_frame_add_section",
            "ElfioVerif.C05.image_bytes_at_same_vaddr_of_save",
            "ElfioVerif.C05.image_bytes_at_same_vaddr_nested_of_save",
            "ElfioVerif.RoundTrip.loaded_of_wellFormed",
            "ElfioVerif.Compose.loaded_satisfies_Loaded",
            "ElfioVerif.Compose.loaded_satisfies_Loaded_flat",
            "ElfioVerif.Compose.reload_resave_fields",
            "ElfioVerif.Compose.reload_resave_fields_flat",
            "ElfioVerif.final_nested_file",
            "ElfioVerif.RoundTrip.segInside_nested",
            "ElfioVerif.RoundTrip.savedSane_mixed",
            "ElfioVerif.Compose.loaded_satisfies_Loaded_nested",
            "ElfioVerif.Compose.loaded_satisfies_Loaded_flat_input",
            "ElfioVerif.smallObject_layoutNW_preSave",
            "ElfioVerif.Compose.composeDomain_of_small",
            "ElfioVerif.C04.noWrap64_of_small_flat"]
EXTRA_IMPORTS = ["ElfioVerif.Props.Compose", "ElfioVerif.Props.Compose2", "ElfioVerif.Props.C06Small"]
SITES = ["save_", "lsws", "lst_", "lseg", "wsd", "load_s", "sec32_load", "sec64_load"]
RULE = ("well-formed images whose segment contents are covered by sections (encoder-built linker-like images in 4 "
        "configurations; bundled examples that load) x edit histories {none, add section, append to an unsegmented "
        "section, append to .shstrtab-like string table} x reload {eager, lazy}; non-trivial = the image has >= 1 "
        "segment with members or >= 4 sections; distinct by md5")
ASSUMPTIONS = ["the image's segments are covered by sections in ascending address order (RoundTrippable)"]
TRUSTED = ["tools/elfspec.py"]
KEEP_FIRST = 2
SHRINK = False


def mk(cid, img, rng, edit, meta):
    ns, ng = counts(img)
    obs = observe_lines(img, max_sec=60, max_seg=16)
    # object 0 is the reference observation (eager); object 1 is loaded (often lazily) and NOT looked at
    # before it is edited and saved, so untouched lazily loaded data has to survive the re-layout
    lines = ["obj 0", f"load {hx(img)} lazy=0 kind=str"] + obs + ["obj 1", f"load {hx(img)} lazy={rng.choice([0, 1, 1])} kind=str"]
    d = elfspec.decode(img)
    touched = []
    if edit == "addsec":
        lines.append(f"addsec name={hx(b'.added')} type=1 flags=0 align=4 data={hx(rnd_bytes(rng, 13))}")
    elif edit == "append" and d:
        loose = [i for i, s in enumerate(d["sections"]) if i and s["data"] is not None and s["sh_type"] not in (0, 8)
                 and not any(i in g["members"] for g in d["segments"]) and i != d["ehdr"]["e_shstrndx"]]
        if loose:
            i = rng.choice(loose); touched.append(i)
            lines.append(f"secedit {i} app {hx(rnd_bytes(rng, rng.choice([1, 8, 24])))}")
    lines += ["save", f"reload lazy={rng.choice([0, 1])}"] + obs
    m = dict(meta); m.update({"nobs": len(obs), "touched": touched, "edit": edit})
    return {"id": cid, "lines": lines, "meta": m}


def gen_cases(rng, tier):
    n = 60 if tier == "quick" else 600
    for i in range(n):
        cls, enc = CFGS[i % 4]
        img = elfspec.encode(elfspec.linked_model(rng, cls, enc))
        yield mk(f"g{i}", img, rng, rng.choice(["none", "none", "addsec", "append"]), {"src": "encoder"})
    for f, b in examples(40000 if tier == "quick" else None):
        if elfspec.wellformed(b):
            for e in (["none", "addsec"] if tier == "quick" else ["none", "addsec", "append"]):
                yield mk(f"ex-{f}-{e}", b, rng, e, {"src": "example", "example": f})


SEC_KEEP = ["name", "type", "flags", "addr", "size", "link", "info", "align", "entsize", "data"]
SEG_KEEP = ["type", "flags", "vaddr", "paddr", "memsz"]


def oracle(case, out):
    for i, o in enumerate(out):
        if o.startswith("FAULT"):
            return [{"signature": "fault:" + case["lines"][min(i, len(case["lines"]) - 1)].split()[0], "what": o}]
    n = case["meta"]["nobs"]
    if len(out) < 2 or not out[1].startswith("load=true"):
        return []
    before = out[2:2 + n]
    si = next((k for k, o in enumerate(out) if o.startswith("save=")), None)
    if si is None or si + 2 + n > len(out) + 0:
        return []
    if not out[si].startswith("save=true"):
        return [{"signature": "resave-failed", "what": "save() of a loaded well-formed image returned false"}]
    if not out[si + 1].startswith("load=true"):
        return [{"signature": "reload-failed", "what": "the re-saved file does not load"}]
    after = out[si + 2:si + 2 + n]
    v = []
    lines = case["lines"][2:2 + n]
    secs_after = {}
    for ln, a, b in zip(lines, before, after):
        t = ln.split()
        if a == "null" or b == "null":
            if a != "null" and b == "null":
                v.append({"signature": "lost:" + t[0], "what": f"`{ln}` disappeared"})
            continue
        fa, fb = kvline(a), kvline(b)
        if t[0] == "sec":
            secs_after[int(t[1])] = fb
            if int(t[1]) in case["meta"]["touched"] or fa.get("name") == hx(b".shstrtab"):
                continue
            for k in SEC_KEEP:
                if fa.get(k) != fb.get(k):
                    v.append({"signature": "sec:" + k, "what": f"`{ln}`: {k} {fa.get(k)[:60]} -> {fb.get(k)[:60]}"}); break
        elif t[0] == "seg":
            for k in SEG_KEEP:
                if fa.get(k) != fb.get(k):
                    v.append({"signature": "seg:" + k, "what": f"`{ln}`: {k} {fa.get(k)} -> {fb.get(k)}"}); break
            if fb.get("type") == "1" and fa.get("members", "-") != "-":
                for m in fa["members"].split(","):
                    s = secs_after.get(int(m))
                    if s and s.get("type") not in ("0", "8") and int(s.get("size", 0)) > 0:
                        if int(fb["vaddr"]) + int(s["off"]) - int(fb["off"]) != int(s["addr"]):
                            v.append({"signature": "image-address", "what": f"`{ln}`: section {m} is no longer found at its virtual address in the segment's image"})
        if v:
            break
    return v[:2]


def nontrivial(case, out):
    return len(out) > 1 and out[1].startswith("load=true") and any("members=" in o and "members=-" not in o for o in out)


def classify(case, out):
    return [case["meta"]["src"], "edit:" + case["meta"]["edit"], "loaded" if len(out) > 1 and out[1].startswith("load=true") else "rejected"]
