"""C05 — load, edit, save, load preserves everything the user did not touch.

Proof (Props/C05.lean; details in that file's header): `save_writes_fields` (frame theorem over all
passes of save: a section keeps everything but placement and residency, a segment everything but
offset/filesz/memsz/align/offsetSet), `wsdStep_equidistant` + `image_bytes_at_same_vaddr` (corollary by
hypothesis of C04's member_equidistant: p_vaddr + (sh_offset - p_offset) = sh_addr in the saved bytes,
data at the mapped position), `loaded_resave_fields` (save then load gives the same section and segment
fields and data; relative to the abstract `Loaded` predicate = C02's decoders, and to C04's disjointness
`LayoutOk`), `edit_frame` (+ `edit_frame_add_section`: edits outside the segments do not move members
or segments).
COMPOSITION WITH C04 (Props/C05Compose.lean): `image_bytes_at_same_vaddr_of_save` (member of a flat segment) and
`image_bytes_at_same_vaddr_nested_of_save` (member of a segment nested in a flat one) are
image_bytes_at_same_vaddr with BOTH layout hypotheses discharged: `LayoutOk` through C03.layoutOk_of_save
(C04.layout_disjoint) and `Equidistant` through C04.save_segments / C04.save_nested_equidistant.  Remaining
hypotheses: success of save into a good stream, `C03.SaveDomain o hdr` (decidable facts about the input object),
C04's writer-domain condition at the turn of the segment (`layoutDomB false false sel`, a Bool function of the
input; for the nested case `layoutSelB segNestedStartB`, the member lists' inclusion, and the first member
file-occupying with the explicit address that is the nested segment's p_vaddr), the section is a file-occupying
member.  Non-vacuity on C03.exBuiltObj (made through the model's API).  The abstract `Loaded` is discharged in Props/Compose.lean (+ Lemmas/RoundTrip.lean):
RoundTrip.loaded_of_wellFormed (the model's eager `load` of EVERY C02-well-formed image satisfies `Loaded`),
Compose.loaded_satisfies_Loaded / _flat (the bytes of a successful `save` are a well-formed image —
Compose.saved_wellFormed — so the model's load of writer output satisfies `Loaded`; it has the saved object's
class, byte order and header) and Compose.reload_resave_fields / _flat (`loaded_resave_fields` for the real
reload: save, load the bytes, same sections — name offset, type, flags, size, link, info, alignment, entry
size, address if set, data — and segments).  `_flat`: hypotheses on the input object only (`FlatDomain`:
C03.SaveDomain + bookkeeping + flat segments) plus "no address/offset range of the saved object reaches 2^64".
After a LAZY reload the data clause holds once the data have been requested (RoundTrip.Reloaded.sec).
NESTED SEGMENTS (Lemmas/LayoutNested2.lean, Lemmas/RoundTrip2.lean, Props/Compose2.lean): the clause
`SavedSane.segInside` (a segment's file range ends at or before the section header table) is now proved for segments
nested in others too: `final_nested_file` (the file size `write_segment_data` derives for a nested segment is 0 or ends
exactly at the end of one of its file-occupying members), `RoundTrip.segInside_nested`, `savedSane_mixed`;
`Compose.loaded_satisfies_Loaded_nested` / `reload_reports_saved_nested`: hypotheses on the input object only
(`NestedDomain selE selN`: every segment is flat - `layoutDomB false false selE` - or nested - `layoutNestedB selN`)
plus `NoWrap64` of the saved object.  `loaded_satisfies_Loaded_flat_input`: `NoWrap64` of the saved object replaced by
the input-side `noWrap64InB o hd` (a Bool function of the input that runs the layout; `Compose.noWrap64_of_input`).
PARTIAL - FINDING F17 (open): the image-byte theorems speak of the DECLARED members of a segment.  For an object that
comes from `load` a thread-local data section (`.tdata`, SHF_TLS) that lies inside a PT_LOAD is no member of it -
elfio::load_segments' clause "If it is a TLS segment, add TLS sections only and vice versa" - so the next save lays it out
elsewhere and the PT_LOAD's image holds zeros at its address (tests/elf_examples/x86_64_static: the 0x20 bytes of .tdata
at 0x4bd0c0 are gone from PT_LOAD #3's image).  The composition theorems exclude this trigger exactly by the TLS clause of
`Compose.MemberDomain` ("members carry SHF_TLS exactly if the segment is a PT_TLS"; Props/Compose2.lean).  Machine-checked
witness (Props/F17.lean, kernel evaluation of the model on an object built with its API): `F17.image_bytes_tls_witness`
(before: the PT_LOAD's image holds .tdata's bytes at 0x400008; after load + save: same segment type/address/sizes, the
section still claims the address and has its bytes, the image holds zeros there), `F17.tls_witness_outside_MemberDomain`,
`F17.tls_witness_domain_otherwise` (every other hypothesis of save_load_save_flat holds of the witness).  Registered in
known_findings.json (`c05:image-bytes:tls-in-load`, corpus/c05/f17-tls-image-lost.case); not repaired: the membership rule
is the one property C02 states, a writer-side repair is not small.
CLOSED-FORM DOMAIN (Lemmas/LayoutSmall.lean, Props/C04Small.lean, Props/C06Small.lean): the `layoutNW (preSave o) hd`
clause of `ComposeDomain` / `FlatDomain` / `NestedDomain` follows from plain bounds on the input, `SmallObject o` (ELF64;
< 2^16 sections and segments; section sizes and alignments, segment alignments < 2^40; a member with an explicit
address lies in [p_vaddr, p_vaddr + 2^40)) - `smallObject_layoutNW`, `Compose.composeDomain_of_small`.  `noWrap64InB`
(NoWrap64 of the OUTPUT) in closed form for the FLAT domain: `C04.noWrap64_of_small_flat` - FlatDomain + SmallObject +
`SmallAddrs2` (addresses, offsets, segment vaddr < 2^62; index-0 / SHT_NULL sections at offset 0; < 2^16 members) +
p_memsz < 2^62 => `NoWrap64 r.obj.secs r.obj.segs`, the hypothesis `hw` of `loaded_satisfies_Loaded_flat` /
`reload_resave_fields_flat` (and of C06 `save_load_save_flat`, C20 `validate_silent_reloaded_flat`).  For nested
segments `noWrap64InB` remains a Bool check that runs the layout (section half closed-form:
`C04.save_sections_noWrap_small`) - see families/c04.py.
Only covered by correspondence/oracle: `Loaded` for the re-saved form of a LOADED (not created) object with
nested segments, equality (not only >=) of reloaded memory sizes, ELF32 equidistance.
Correspondence: family load.  Oracle: object 0 loads the image and is
observed, is optionally edited (add a section; append to a section that belongs to no segment; add a
string / symbol / note through the accessors' underlying append), saved and reloaded (eager or lazy),
observed again: every untouched section must keep name, type, flags, address, size, link, info,
alignment, entry size and data; every segment type, flags, vaddr, paddr, memsz; and for every member
of a PT_LOAD: vaddr_seg + (offset_sec - offset_seg) == addr_sec (image bytes at the same address).
`image_bytes` follows the property text on the two FILES, independently of what the loader reports: for every PT_LOAD
of the original image and every allocated, file-occupying, non-empty section of the original image inside the
segment's file-backed address range [p_vaddr, p_vaddr + p_filesz) - with or without SHF_TLS - the re-saved file's
PT_LOAD of the same index holds the section's bytes at the same virtual address (signature `image-bytes`; caused by an
SHF_TLS section: `c05:image-bytes:tls-in-load` = F17).
Images: linker-like images from the independent encoder (tools/elfspec.linked_model), the same with a `.tdata` inside
a PT_LOAD with / without a PT_TLS over it (`tls=`), and the bundled examples (executables, shared objects,
relocatables, kernel module; ARM/PPC/x86; quick tier: those up to 40000 bytes plus x86_64_static, the only one with
a .tdata - F17's real-world witness).
"""
from families.writercommon import *
from families.loadcommon import observe_lines, counts

PROPERTY = "C05"
FAMILY = "load"
LEAN_MODULE = "ElfioVerif.Props.C05Compose"
THEOREMS = ["ElfioVerif.C05.save_writes_fields",
            "ElfioVerif.C05.wsdStep_equidistant",
            "ElfioVerif.C05.image_bytes_at_same_vaddr",
            "ElfioVerif.C05.loaded_resave_fields",
            "ElfioVerif.C05.loaded_resave_names",
            "ElfioVerif.C05.edit_frame",
            "ElfioVerif.C05.edit_frame_add_section",
            "ElfioVerif.C05.image_bytes_at_same_vaddr_of_save",
            "ElfioVerif.C05.image_bytes_at_same_vaddr_nested_of_save",
            "ElfioVerif.RoundTrip.loaded_of_wellFormed",
            "ElfioVerif.Compose.loaded_satisfies_Loaded",
            "ElfioVerif.Compose.loaded_satisfies_Loaded_flat",
            "ElfioVerif.Compose.reload_resave_fields",
            "ElfioVerif.Compose.reload_resave_fields_flat",
            "ElfioVerif.final_nested_file",
            "ElfioVerif.RoundTrip.segInside_nested",
            "ElfioVerif.RoundTrip.savedSane_mixed",
            "ElfioVerif.Compose.loaded_satisfies_Loaded_nested",
            "ElfioVerif.Compose.loaded_satisfies_Loaded_flat_input",
            "ElfioVerif.F17.image_bytes_tls_witness",
            "ElfioVerif.F17.tls_witness_outside_MemberDomain",
            "ElfioVerif.F17.tls_witness_domain_otherwise",
            "ElfioVerif.smallObject_layoutNW_preSave",
            "ElfioVerif.Compose.composeDomain_of_small",
            "ElfioVerif.C04.noWrap64_of_small_flat"]
EXTRA_IMPORTS = ["ElfioVerif.Props.Compose", "ElfioVerif.Props.Compose2", "ElfioVerif.Props.F17", "ElfioVerif.Props.C06Small"]
SITES = ["save_", "lsws", "lst_", "lseg", "wsd", "load_s", "sec32_load", "sec64_load"]
RULE = ("well-formed images whose segment contents are covered by sections (encoder-built linker-like images in 4 "
        "configurations, some with a thread-local data section inside a PT_LOAD with/without PT_TLS; bundled examples "
        "that load) x edit histories {none, add section, append to an unsegmented "
        "section, append to .shstrtab-like string table} x reload {eager, lazy}; non-trivial = the image has >= 1 "
        "segment with members or >= 4 sections; distinct by md5")
ASSUMPTIONS = ["the image's segments are covered by sections in ascending address order (RoundTrippable)"]
TRUSTED = ["tools/elfspec.py"]
KEEP_FIRST = 2
SHRINK = False


def mk(cid, img, rng, edit, meta):
    ns, ng = counts(img)
    obs = observe_lines(img, max_sec=60, max_seg=16)
    # object 0 is the reference observation (eager); object 1 is loaded (often lazily) and NOT looked at
    # before it is edited and saved, so untouched lazily loaded data has to survive the re-layout
    lines = ["obj 0", f"load {hx(img)} lazy=0 kind=str"] + obs + ["obj 1", f"load {hx(img)} lazy={rng.choice([0, 1, 1])} kind=str"]
    d = elfspec.decode(img)
    touched = []
    if edit == "addsec":
        lines.append(f"addsec name={hx(b'.added')} type=1 flags=0 align=4 data={hx(rnd_bytes(rng, 13))}")
    elif edit == "append" and d:
        loose = [i for i, s in enumerate(d["sections"]) if i and s["data"] is not None and s["sh_type"] not in (0, 8)
                 and not any(i in g["members"] for g in d["segments"]) and i != d["ehdr"]["e_shstrndx"]
                 and not s["sh_flags"] & elfspec.SHF_TLS]     # a .tdata inside a PT_LOAD is a member of no segment by the rule
        if loose:
            i = rng.choice(loose); touched.append(i)
            lines.append(f"secedit {i} app {hx(rnd_bytes(rng, rng.choice([1, 8, 24])))}")
    lines += ["save", f"reload lazy={rng.choice([0, 1])}"] + obs
    m = dict(meta); m.update({"nobs": len(obs), "touched": touched, "edit": edit})
    return {"id": cid, "lines": lines, "meta": m}


def gen_cases(rng, tier):
    n = 60 if tier == "quick" else 600
    for i in range(n):
        cls, enc = CFGS[i % 4]
        img = elfspec.encode(elfspec.linked_model(rng, cls, enc))
        yield mk(f"g{i}", img, rng, rng.choice(["none", "none", "addsec", "append"]), {"src": "encoder"})
    for f, b in examples(40000 if tier == "quick" else None):
        if elfspec.wellformed(b):
            for e in (["none", "addsec"] if tier == "quick" else ["none", "addsec", "append"]):
                yield mk(f"ex-{f}-{e}", b, rng, e, {"src": "example", "example": f})
    if tier == "quick":
        # the real-world witness of F17 (the model takes ~7 s on its 798 KB; once, unedited; thorough: loop above;
        # not last: the evidence samples the last cases)
        for f, b in examples():
            if f == "x86_64_static" and elfspec.wellformed(b):
                yield mk(f"ex-{f}-none", b, rng, "none", {"src": "example", "example": f})
    # thread-local data inside a PT_LOAD (with and without a PT_TLS over it): the trigger of finding F17.
    # The only bundled example with a `.tdata` is x86_64_static (798 KB: both tiers, above).
    for i in range(8 if tier == "quick" else 80):
        cls, enc = CFGS[i % 4]
        for _ in range(20):
            m = elfspec.linked_model(rng, cls, enc, tls=("seg", "noseg")[(i // 4) % 2])
            if any(s["sh_flags"] & elfspec.SHF_TLS for s in m.sections):
                break
        yield mk(f"tls{i}", elfspec.encode(m), rng, rng.choice(["none", "none", "addsec", "append"]), {"src": "encoder-tls"})


SEC_KEEP = ["name", "type", "flags", "addr", "size", "link", "info", "align", "entsize", "data"]
SEG_KEEP = ["type", "flags", "vaddr", "paddr", "memsz"]


def oracle(case, out):
    for i, o in enumerate(out):
        if o.startswith("FAULT"):
            return [{"signature": "fault:" + case["lines"][min(i, len(case["lines"]) - 1)].split()[0], "what": o}]
    n = case["meta"]["nobs"]
    if len(out) < 2 or not out[1].startswith("load=true"):
        return []
    before = out[2:2 + n]
    si = next((k for k, o in enumerate(out) if o.startswith("save=")), None)
    if si is None or si + 2 + n > len(out) + 0:
        return []
    if not out[si].startswith("save=true"):
        return [{"signature": "resave-failed", "what": "save() of a loaded well-formed image returned false"}]
    if not out[si + 1].startswith("load=true"):
        return [{"signature": "reload-failed", "what": "the re-saved file does not load"}]
    after = out[si + 2:si + 2 + n]
    v = []
    lines = case["lines"][2:2 + n]
    secs_after = {}
    for ln, a, b in zip(lines, before, after):
        t = ln.split()
        if a == "null" or b == "null":
            if a != "null" and b == "null":
                v.append({"signature": "lost:" + t[0], "what": f"`{ln}` disappeared"})
            continue
        fa, fb = kvline(a), kvline(b)
        if t[0] == "sec":
            secs_after[int(t[1])] = fb
            if int(t[1]) in case["meta"]["touched"] or fa.get("name") == hx(b".shstrtab"):
                continue
            for k in SEC_KEEP:
                if fa.get(k) != fb.get(k):
                    v.append({"signature": "sec:" + k, "what": f"`{ln}`: {k} {fa.get(k)[:60]} -> {fb.get(k)[:60]}"}); break
        elif t[0] == "seg":
            for k in SEG_KEEP:
                if fa.get(k) != fb.get(k):
                    v.append({"signature": "seg:" + k, "what": f"`{ln}`: {k} {fa.get(k)} -> {fb.get(k)}"}); break
            if fb.get("type") == "1" and fa.get("members", "-") != "-":
                for m in fa["members"].split(","):
                    s = secs_after.get(int(m))
                    if s and s.get("type") not in ("0", "8") and int(s.get("size", 0)) > 0:
                        if int(fb["vaddr"]) + int(s["off"]) - int(fb["off"]) != int(s["addr"]):
                            v.append({"signature": "image-address", "what": f"`{ln}`: section {m} is no longer found at its virtual address in the segment's image"})
        if v:
            break
    v = v[:2]
    for w in image_bytes(case, out[si]):
        if all(w["signature"] != x["signature"] for x in v):
            v.append(w)
    return v


def image_bytes(case, save_line):
    """The property text, on the two FILES (decoded by tools/elfspec.py; nothing the loader reports is used):
    for every PT_LOAD of the original image and every section of the original image that is allocated, occupies
    the file, is not empty and lies inside the segment's file-backed address range [p_vaddr, p_vaddr + p_filesz) at
    the position its address says (so the bytes of the memory image there are the section's) - whether or not it
    carries SHF_TLS - the re-saved file's PT_LOAD with the same index holds the section's bytes at the same virtual
    address.  A loss caused by an SHF_TLS section has the signature of finding F17."""
    try:
        orig = bytes.fromhex(case["lines"][1].split()[1])
    except (IndexError, ValueError):
        return []
    ok, new = saved_bytes(save_line)
    d0 = elfspec.decode(orig)
    if not ok or d0 is None:
        return []
    d1 = elfspec.decode(new)
    if d1 is None:
        return [{"signature": "resaved-undecodable", "what": "the re-saved file is not a decodable ELF image"}]
    v = []
    for j, g in enumerate(d0["segments"]):
        if g["p_type"] != elfspec.PT_LOAD:
            continue
        for i, s in enumerate(d0["sections"]):
            if not (s["sh_flags"] & elfspec.SHF_ALLOC) or not elfspec.occupies_file(s["sh_type"]) or not s["sh_size"] \
                    or i in case["meta"]["touched"]:
                continue
            if not (g["p_vaddr"] <= s["sh_addr"] and s["sh_addr"] + s["sh_size"] <= g["p_vaddr"] + g["p_filesz"]):
                continue
            if s["sh_offset"] - g["p_offset"] != s["sh_addr"] - g["p_vaddr"] or len(s["data"]) != s["sh_size"]:
                continue        # the image bytes at that address did not come from this section
            h = d1["segments"][j] if j < len(d1["segments"]) else None
            got = None
            if h is not None and h["p_type"] == elfspec.PT_LOAD and h["p_vaddr"] <= s["sh_addr"]:
                a = s["sh_addr"] - h["p_vaddr"]
                if a + s["sh_size"] <= h["p_filesz"]:
                    got = new[h["p_offset"] + a:h["p_offset"] + a + s["sh_size"]]
            if got != s["data"]:
                tls = (s["sh_flags"] & elfspec.SHF_TLS) == elfspec.SHF_TLS
                what = (f"PT_LOAD {j}: the {s['sh_size']} bytes of section {i} ({(s['name'] or b'?').decode('latin-1')}) at virtual address "
                        f"{s['sh_addr']:#x} are no longer in the segment's image after load + save"
                        + (f" (found {got[:16].hex()}{'..' if len(got) > 16 else ''})" if got is not None else " (outside the segment's file range)"))
                sig = "c05:image-bytes:tls-in-load" if tls else "image-bytes"
                if all(x["signature"] != sig for x in v):
                    v.append({"signature": sig, "what": what + (" - an SHF_TLS section inside a PT_LOAD (F17)" if tls else "")})
    return v


def nontrivial(case, out):
    return len(out) > 1 and out[1].startswith("load=true") and any("members=" in o and "members=-" not in o for o in out)


def classify(case, out):
    return [case["meta"]["src"], "edit:" + case["meta"]["edit"], "loaded" if len(out) > 1 and out[1].startswith("load=true") else "rejected"]
