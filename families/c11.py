"""C11 — relocation entries round-trip in both formats, classes and byte orders.

Model: Model/Reloc.lean = relocation_section_accessor over the C07 section buffer (SecBuf).  Every guard, index and
pointer-offset computation, width conversion and the ELF32_R_INFO/ELF64_R_INFO packings at their use sites are the
generated expressions of Gen/SitesC11.lean (per instantiation T of the generic_* member templates); the sym/type
extractors are the generated get_sym_and_type<T>::get_r_sym/get_r_type (Gen/Funcs.lean; they return `int`, the
translator keeps the 32-bit pattern, so a type >= 2^31 passes through `int` unchanged).  Every pEntry->FIELD access
is a checked read/write on the allocation; fields go through rdField/wrField (= the spec codec, Model/Field.lean).

Proved in Props/C11.lean for ALL sections with the C07 invariant SecBuf.Inv (fresh, loaded eagerly/lazily, edited),
ALL values, sequences and indices (no sorry/axiom; bv_decide only in Lemmas/Bits.lean):
  spec_roundtrip        gABI codec: decode(encode e) = e up to class-width reduction of offset/addend, for symbol/type
                        in the ranges of the packing (24+8 bits ELF32, 32+32 bits ELF64)
  add_refines           one add_entry(offset,symbol,type[,addend]) appends exactly Spec.encodeEntry: r_offset, r_info with
                        the ABI packing, r_addend two's complement, each in the file's byte order
  addInfo_refines       the add_entry(offset,info[,addend]) overloads append the record with the info word as given
  adds_refine/rel_bytes any sequence of adds: the section is Spec.encodeTable of all entries (induction, any length)
  get_refines           get_entry(k), k valid, returns Spec.decodeEntry of record k (entry size >= sizeof(T))
  get_invalid/get_total k >= count is refused; get_entry never faults on ANY section with Inv (any class, type, entry
                        size, index)
  rel_roundtrip / rela_roundtrip   after any sequence of adds, get_entry(k) = the k-th entry with offset reduced to the class
                        width, symbol and type unchanged, REL addend 0, ELF32 RELA addend narrowed to 32 bits and
                        sign-extended (normEntry_addend_fits: unchanged when it fits), ELF64 addend unchanged
  set_entry_frame/_bytes/_get  set_entry(i) returns true and rewrites exactly the bytes of record i with the encoding of the
                        new values; get(i) returns them, every other get returns what it returned before
  set_invalid/set_total invalid index: false and nothing changes; total when sizeof(T) <= entry size
  swap_refines / swap_symbols_involutive   swap_symbols(a,b) maps the table through Spec.swapSym; twice restores every byte
                        (a,b below the symbol limit of the class; fewer than 2^32 entries: the loop variable is 32 bits)
  fresh_reloc           a new section with type/entry size of a relocation table meets the hypotheses (non-vacuity)
  Lemmas/Bits.lean      rel32_sym_pack, rel32_type_pack (+ _any: what comes back outside the ranges), rel64_sym_pack,
                        rel64_type_pack, rel32_pack_unpack, rel64_pack_unpack, sext32_trunc_of_fits
  set_entry_small_entsize_witness / _noop   (outside the domain) the member writes of set_entry with
                        0 < sh_entsize < sizeof(T) go past the buffer (found here, repaired under C18 by
                        fixes/21-reloc-set-entry-checks: generic_set_entry_* now have the getters' two guards, modelled in
                        Reloc.setGeneric); after the fix such a call leaves the table alone.
Covered by correspondence + oracle only: "after save and reload".  The harness saves with the real writer, loads the
image again (eagerly or lazily), continues on the loaded object, and prints the bytes of the saved image at the section's
file offset; the oracle decodes them with an independent Python gABI decoder.  On the model side `reload` is
SecBuf.loadedEager/loadedLazy of the bytes save writes (writer/loader models are C03/C05's).
Known finding (open, witness corpus/c11/lazy_unread_resave.case): a lazily loaded table that is never read is saved
as zero bytes (section_impl::save skips non-resident data) — root outside the relocation accessor.
Out-of-domain inputs (ELF32 symbol >= 2^24 / type >= 2^8, foreign entry sizes and section types, REL adds on RELA tables,
swap arguments >= 2^32) are generated for the correspondence only; the oracle makes no claim about them.
"""
import itertools, struct

PROPERTY = "C11"
FAMILY = "c11"
LEAN_MODULE = "ElfioVerif.Props.C11"
THEOREMS = ["ElfioVerif.C11." + t for t in (
    "spec_roundtrip", "add_refines", "addInfo_refines", "adds_refine", "rel_bytes",
    "get_refines", "get_invalid", "get_total", "rel_roundtrip", "rela_roundtrip", "normEntry_addend_fits",
    "set_entry_frame", "set_entry_bytes", "set_entry_get", "set_invalid",
    "set_total", "swap_refines", "swap_symbols_involutive", "fresh_reloc", "set_entry_small_entsize_witness",
    "set_entry_small_entsize_noop")] + ["ElfioVerif." + t for t in (
    "rel32_sym_pack", "rel32_type_pack", "rel32_sym_pack_any", "rel32_type_pack_any", "rel64_sym_pack",
    "rel64_type_pack", "rel32_pack_unpack", "rel64_pack_unpack", "sext32_trunc_of_fits")]
SITES = ["reloc_", "rel32_", "rel64_", "rela32_", "rela64_", "conv", "sec32_insert", "sec64_insert"]
RULE = ("tables of 0-40 entries built with add_entry (symbol/type and info overloads) in {REL,RELA} x {ELF32,ELF64} x "
        "{LSB,MSB}; offsets/addends over the full 64-bit parameter width incl. boundary values, symbol < 2^24 / < 2^32, "
        "type < 2^8 / < 2^32 (boundaries 2^31, 2^32-1); interleaved get (valid and invalid index), dump, set_entry "
        "(one family sets every index), swap_symbols (often twice in a row), save+reload eager/lazy; ~12% cases outside "
        "the domain (packing overflow, foreign entry size / section type) for correspondence only; thorough adds all "
        "op sequences of length <= 3 over a 9-op alphabet in all 8 configurations. non-trivial = at least one entry "
        "read back; distinct by md5 of the case text")
ASSUMPTIONS = ["the section's entry size is sizeof(T) and its type matches the table kind (what the writer API sets up)",
               "section size stays below 2^32 (ELF32) / 2^61 (ELF64): explicit hypotheses (SecBuf.Bound) of the theorems",
               "swap_symbols: fewer than 2^32 entries (the C++ loop variable is 32 bits)",
               "new(nothrow) succeeds for the sizes generated"]
TRUSTED = ["`reload` on the model side is SecBuf.loadedEager/loadedLazy of the section content (writer+loader are C03/C05's models)",
           "SecBuf data-buffer model and its theorems (C07)"]
KEEP_FIRST = 1

SHT_REL, SHT_RELA = 9, 4
M64 = (1 << 64) - 1


def esize(cls, kind):
    return (2 if kind == "rel" else 3) * (4 if cls == 32 else 8)


# ----------------------------------------------------------------------------- independent gABI codec

def norm(cls, kind, e):
    off, sym, ty, add = e
    w = 32 if cls == 32 else 64
    off &= (1 << w) - 1
    if kind == "rel":
        add = 0
    else:
        add &= (1 << w) - 1
        if add >> (w - 1):
            add -= 1 << w
    return (off, sym, ty, add)


def enc_entry(cls, enc, kind, e):
    off, sym, ty, add = e
    bo = "<" if enc == "lsb" else ">"
    if cls == 32:
        info = ((sym << 8) | (ty & 0xff)) & 0xffffffff
        s = struct.pack(bo + "II", off & 0xffffffff, info)
        if kind == "rela":
            s += struct.pack(bo + "I", add & 0xffffffff)
    else:
        info = ((sym << 32) | (ty & 0xffffffff)) & M64
        s = struct.pack(bo + "QQ", off & M64, info)
        if kind == "rela":
            s += struct.pack(bo + "Q", add & M64)
    return s


def dec_table(cls, enc, kind, data):
    bo = "<" if enc == "lsb" else ">"
    S = esize(cls, kind); out = []
    for i in range(len(data) // S):
        r = data[i * S:(i + 1) * S]
        if cls == 32:
            off, info = struct.unpack(bo + "II", r[:8]); sym, ty = info >> 8, info & 0xff
            add = struct.unpack(bo + "i", r[8:12])[0] if kind == "rela" else 0
        else:
            off, info = struct.unpack(bo + "QQ", r[:16]); sym, ty = info >> 32, info & 0xffffffff
            add = struct.unpack(bo + "q", r[16:24])[0] if kind == "rela" else 0
        out.append((off, sym, ty, add))
    return out


def info_split(cls, info):
    if cls == 32:
        info &= 0xffffffff
        return info >> 8, info & 0xff
    info &= M64
    return info >> 32, info & 0xffffffff


# ----------------------------------------------------------------------------- generator

def r_off(rng):
    k = rng.random()
    if k < 0.25: return rng.choice([0, 1, 4, 0x7fffffff, 0x80000000, 0xffffffff, 0x100000000, 0x7fffffffffffffff,
                                    0x8000000000000000, M64, 0x1122334455667788])
    if k < 0.6: return rng.randrange(1 << 16)
    if k < 0.8: return rng.randrange(1 << 32)
    return rng.randrange(1 << 64)


def r_sym(rng, cls, pool):
    lim = (1 << 24) if cls == 32 else (1 << 32)
    k = rng.random()
    if pool and k < 0.45: return rng.choice(pool)
    if k < 0.6: return rng.choice([0, 1, 2, lim - 1, lim - 2, lim >> 1, 0xff, 0x100, 0xffff, 0x10000][: 10]) % lim
    if k < 0.85: return rng.randrange(8)
    return rng.randrange(lim)


def r_type(rng, cls):
    lim = (1 << 8) if cls == 32 else (1 << 32)
    k = rng.random()
    if k < 0.3: return rng.choice([0, 1, lim - 1, lim >> 1, (lim >> 1) - 1, 0x7f, 0x80]) % lim
    if k < 0.7: return rng.randrange(min(lim, 40))
    return rng.randrange(lim)


def r_add(rng):
    k = rng.random()
    if k < 0.3: return rng.choice([0, 1, -1, 0x7fffffff, -0x80000000, 0x80000000, -0x80000001, 0xffffffff, 0x100000000,
                                   (1 << 63) - 1, -(1 << 63), -0x100000000, 0x123456789])
    if k < 0.6: return rng.randint(-1000, 1000)
    if k < 0.8: return rng.randint(-(1 << 31), (1 << 31) - 1)
    return rng.randint(-(1 << 63), (1 << 63) - 1)


def add_line(rng, cls, kind, pool, ood=False):
    off = r_off(rng); sym = r_sym(rng, cls, pool); ty = r_type(rng, cls); add = r_add(rng)
    if ood and cls == 32:
        if rng.random() < 0.5: sym = rng.choice([1 << 24, (1 << 32) - 1, 0x1000005, rng.randrange(1 << 24, 1 << 32)])
        else: ty = rng.choice([256, 0x1ff, 0x80000000, 0xffffffff, rng.randrange(256, 1 << 32)])
    pool.append(sym)
    if rng.random() < 0.15:      # info overloads
        info = ((sym << 8) | ty) if cls == 32 else ((sym << 32) | ty)
        if rng.random() < 0.3: info = rng.randrange(1 << 64)
        return (f"addreli {off} {info}" if kind == "rel" else f"addrelai {off} {info} {add}")
    return f"addrel {off} {sym} {ty}" if kind == "rel" else f"addrela {off} {sym} {ty} {add}"


def new_line(cls, enc, kind, entsize=None, ty=None):
    return (f"new cls={cls} enc={enc} type={ty if ty is not None else (SHT_REL if kind == 'rel' else SHT_RELA)} "
            f"entsize={esize(cls, kind) if entsize is None else entsize} kind={kind}")


def gen_random(rng, i):
    cls = rng.choice([32, 64]); enc = rng.choice(["lsb", "msb"]); kind = rng.choice(["rel", "rela"])
    ood = rng.random() < 0.12
    entsize = None; ty = None; okind = kind
    if ood:
        k = rng.random()
        S = esize(cls, kind)
        if k < 0.3: entsize = rng.choice([0, S + 4, 2 * S, S + 1, 3 * S])
        elif k < 0.4: entsize = rng.choice([1, S - 1, S // 2])          # set/swap may leave the section here
        elif k < 0.55: ty = rng.choice([1, 7, SHT_RELA if kind == "rel" else SHT_REL])
        elif k < 0.65: okind = "rela" if kind == "rel" else "rel"           # wrong add overload for the table
    lines = [new_line(cls, enc, kind, entsize, ty)]
    pool = []
    n_add = rng.choice([0, 1, 2, 3, 5, 8, 13, 20, 40]) if rng.random() < 0.5 else rng.randint(0, 12)
    n = 0; reloads = 0
    budget = n_add
    # entry size below sizeof(T): set_entry/swap_symbols have no entry-size guard and write past the entry
    # (C18's business).  Not generated: ASan misses unaligned accesses that leave the block only partially,
    # so the transcripts of code and model cannot be compared there.
    small = entsize is not None and entsize < esize(cls, kind)
    while budget > 0 or rng.random() < 0.6:
        k = rng.random()
        if budget > 0 and k < 0.5:
            lines.append(add_line(rng, cls, okind, pool, ood and entsize is None and ty is None and okind == kind))
            n += 1; budget -= 1
        elif k < 0.62:
            lines.append(f"get {rng.choice([0, n - 1, n, n + 1, rng.randint(0, n + 2), 1 << 32, M64]) if n else rng.choice([0, 1])}")
        elif k < 0.70:
            lines.append("dump")
        elif k < 0.80 and not small:
            idx = rng.randint(0, n) if rng.random() < 0.85 else rng.choice([n + 1, 1 << 32, M64])
            sym = r_sym(rng, cls, pool); pool.append(sym)
            lines.append(f"set {idx} {r_off(rng)} {sym} {r_type(rng, cls)} {r_add(rng)}")
            if rng.random() < 0.5: lines.append("dump")
        elif k < 0.90 and not small:
            a = r_sym(rng, cls, pool); b = r_sym(rng, cls, pool)
            if ood and rng.random() < 0.3: b = rng.choice([1 << 32, (1 << 32) + a, 1 << 24, M64])
            lines.append(f"swap {a} {b}")
            if rng.random() < 0.6: lines.append(f"swap {a} {b}")
            if rng.random() < 0.5: lines.append("dump")
        elif k < 0.95 and reloads < 2:
            lines.append(f"reload lazy={rng.choice([0, 1])}"); reloads += 1
            if rng.random() < 0.7: lines.append("dump")
        elif k < 0.97:
            lines.append("num")
        if len(lines) > 120: break
    if rng.random() < 0.7: lines.append("dump")
    return {"id": f"r{i}", "lines": lines, "meta": {}}


def gen_set_every(rng, i):
    cls = rng.choice([32, 64]); enc = rng.choice(["lsb", "msb"]); kind = rng.choice(["rel", "rela"])
    lines = [new_line(cls, enc, kind)]; pool = []
    n = rng.randint(1, 40 if rng.random() < 0.2 else 9)
    for _ in range(n): lines.append(add_line(rng, cls, kind, pool))
    if rng.random() < 0.4: lines.append(f"reload lazy={rng.choice([0, 1])}")
    order = list(range(n)); rng.shuffle(order)
    for idx in order:
        lines.append(f"set {idx} {r_off(rng)} {r_sym(rng, cls, pool)} {r_type(rng, cls)} {r_add(rng)}")
        if rng.random() < 0.3: lines.append(f"get {idx}")
    lines.append("dump"); lines.append(f"reload lazy={rng.choice([0, 1])}"); lines.append("dump")
    return {"id": f"s{i}", "lines": lines, "meta": {}}


def gen_cases(rng, tier):
    n = 500 if tier == "quick" else 5000
    for i in range(n):
        yield gen_random(rng, i)
    for i in range(n // 5):
        yield gen_set_every(rng, i)
    # exhaustive small scope
    L = 2 if tier == "quick" else 3
    k = 0
    for cls in (32, 64):
        for enc in ("lsb", "msb"):
            for kind in ("rel", "rela"):
                a1 = "addrel 4294967300 1 2" if kind == "rel" else "addrela 4294967300 1 2 -2147483649"
                top = (1 << 24) - 1 if cls == 32 else (1 << 32) - 1
                tt = 255 if cls == 32 else (1 << 32) - 1
                a2 = f"addrel 8 {top} {tt}" if kind == "rel" else f"addrela 8 {top} {tt} 9223372036854775807"
                alpha = [a1, a2, "get 0", "get 1", f"set 0 3 {top} 0 -1", "set 1 18446744073709551615 1 1 5",
                         f"swap 1 {top}", "reload lazy=1", "dump"]
                for ln in range(1, L + 1):
                    for seq in itertools.product(alpha, repeat=ln):
                        yield {"id": f"x{k}", "lines": [new_line(cls, enc, kind)] + list(seq) + ["dump"],
                               "meta": {"exhaustive": True}}
                        k += 1


# ----------------------------------------------------------------------------- oracle

def parse_new(line):
    t = line.split()
    kv = dict(x.split("=", 1) for x in t[1:] if "=" in x)
    return int(kv["cls"]), kv["enc"], kv["kind"], int(kv["type"]), int(kv["entsize"])


def in_range(cls, sym, ty):
    return (sym < (1 << 24) and ty < 256) if cls == 32 else (sym < (1 << 32) and ty < (1 << 32))


def fields(o):
    return dict(x.split("=", 1) for x in o.split() if "=" in x)


def unhex(h):
    return b"" if h in ("-", "null") else bytes.fromhex(h)


def entry_txt(e):
    return f"{e[0]},{e[1]},{e[2]},{e[3]}"


def oracle(case, out):
    cls, enc, kind, ty, entsize = parse_new(case["lines"][0])
    S = esize(cls, kind)
    domain = entsize == S and ty == (SHT_REL if kind == "rel" else SHT_RELA)
    v = []
    ref = []            # the table the property demands
    prev = b""          # section bytes after the previous mutating line (from the transcript)
    before_swap = None  # (args, bytes before the first of two identical consecutive swaps)
    pending = False     # lazily loaded and no operation has made the data resident since
    for i, ln in enumerate(case["lines"]):
        if i >= len(out):
            break
        o = out[i]; t = ln.split(); op = t[0]
        if o.startswith("FAULT"):
            if domain:
                v.append({"signature": "fault:" + op, "what": f"memory fault during `{ln[:70]}`: {o}"})
            return v
        if not domain or o.startswith("bad-op"):
            if o.startswith("bad-op") and domain and op != "new":
                v.append({"signature": "bad-op:" + op, "what": f"`{ln}` -> {o}"}); return v
            continue
        f = fields(o)
        if op in ("addrel", "addreli", "addrela", "addrelai", "swap") or \
           (op == "set" and int(t[1], 0) < len(ref)) or (op == "get" and int(t[1], 0) < len(ref)) or \
           (op == "dump" and ref):
            pending = False      # these reach get_data() (the harness also prints the data after add/set/swap)
        def bad(sig, what):
            v.append({"signature": sig, "what": f"line {i} `{ln[:70]}`: {what}"})
        if op == "new":
            continue
        if op in ("addrel", "addreli", "addrela", "addrelai"):
            if (op in ("addrel", "addreli")) != (kind == "rel"):
                domain = False; continue        # REL overload on a RELA table or vice versa: no claim
            a = [int(x, 0) for x in t[1:]]
            if op == "addrel": e = (a[0], a[1], a[2], 0)
            elif op == "addrela": e = (a[0], a[1], a[2], a[3])
            elif op == "addreli": e = (a[0],) + info_split(cls, a[1]) + (0,)
            else: e = (a[0],) + info_split(cls, a[1]) + (a[2],)
            if not in_range(cls, e[1], e[2]):
                domain = False; continue
            ref.append(norm(cls, kind, e))
            exp = b"".join(enc_entry(cls, enc, kind, x) for x in ref)
            got = unhex(f.get("data", "-"))
            if got != exp or int(f.get("size", -1)) != len(exp):
                bad("add-bytes", f"section is {got.hex()[:96]} expected {exp.hex()[:96]} (ABI packing / byte order)"); return v
            prev = got; before_swap = None
        elif op == "get":
            idx = int(t[1], 0)
            exp = "ok " + entry_txt(ref[idx]) if idx < len(ref) else "false"
            if o != exp:
                bad("get-mismatch", f"got `{o}` expected `{exp}`"); return v
        elif op == "num":
            if o != f"n={len(ref)}":
                bad("num-mismatch", f"got `{o}` expected n={len(ref)}"); return v
        elif op == "dump":
            exp = f"n={len(ref)}" + "".join(f" {j}:{entry_txt(e)}" for j, e in enumerate(ref))
            if o != exp:
                bad("dump-mismatch", f"got `{o[:120]}` expected `{exp[:120]}`"); return v
        elif op == "set":
            a = [int(x, 0) for x in t[1:]]
            got = unhex(f.get("data", "-"))
            if a[0] < len(ref):
                if not in_range(cls, a[2], a[3]):
                    domain = False; continue
                # frame: only the bytes of entry a[0] may differ from the previous state
                lo, hi = a[0] * S, (a[0] + 1) * S
                if len(got) != len(prev) or got[:lo] != prev[:lo] or got[hi:] != prev[hi:]:
                    bad("set-frame", f"set_entry({a[0]}) changed bytes outside [{lo},{hi})"); return v
                ref[a[0]] = norm(cls, kind, (a[1], a[2], a[3], a[4]))
                exp = b"".join(enc_entry(cls, enc, kind, x) for x in ref)
                if f.get("ret") != "true" or got != exp:
                    bad("set-mismatch", f"got ret={f.get('ret')} {got[lo:hi].hex()} expected {exp[lo:hi].hex()}"); return v
            else:
                if f.get("ret") != "false" or got != prev:
                    bad("set-mismatch", f"invalid index {a[0]}: ret={f.get('ret')}, bytes changed={got != prev}"); return v
            prev = got; before_swap = None
        elif op == "swap":
            a, b = int(t[1], 0), int(t[2], 0)
            lim = (1 << 24) if cls == 32 else (1 << 32)
            if a >= lim or b >= lim:
                domain = False; continue
            got = unhex(f.get("data", "-"))
            ref = [(e[0], b if e[1] == a else a if e[1] == b else e[1], e[2], e[3]) for e in ref]
            exp = b"".join(enc_entry(cls, enc, kind, x) for x in ref)
            if got != exp:
                bad("swap-mismatch", f"after swap_symbols({a},{b}) section is {got.hex()[:96]} expected {exp.hex()[:96]}"); return v
            if before_swap is not None and before_swap[0] == (a, b):
                if got != before_swap[1]:
                    bad("swap-involution", f"swap_symbols({a},{b}) twice did not restore the table"); return v
                before_swap = None
            else:
                before_swap = ((a, b), prev)
            prev = got
        elif op == "reload":
            saved = unhex(f.get("saved", "-")) if f.get("saved") != "?" else None
            exp = b"".join(enc_entry(cls, enc, kind, x) for x in ref)
            if pending and ref and saved == bytes(len(exp)):
                # section_impl::save skips data that is not resident: known finding, no further claims
                bad("reload-lazy-unread", "a lazily loaded table that was never read is saved as zero bytes"); return v
            pending = "lazy=1" in ln
            if saved is None or saved != exp or int(f.get("size", -1)) != len(exp):
                bad("reload-bytes", f"saved section bytes {None if saved is None else saved.hex()[:96]} expected {exp.hex()[:96]}"); return v
            if dec_table(cls, enc, kind, saved) != ref:
                bad("reload-decode", "independent decoding of the saved bytes differs from the entries added"); return v
            before_swap = None
    if domain and len(out) > len(case["lines"]) and out[len(case["lines"])].startswith("FAULT"):
        v.append({"signature": "fault:end", "what": out[len(case["lines"])]})
    return v


def nontrivial(case, out):
    return any(o.startswith("ok ") or (o.startswith("n=") and ":" in o and "false" not in o) for o in out)


def classify(case, out):
    cls, enc, kind, ty, entsize = parse_new(case["lines"][0])
    ks = [f"cfg:{cls}{enc}-{kind}"]
    if entsize != esize(cls, kind) or ty != (SHT_REL if kind == "rel" else SHT_RELA): ks.append("foreign-shape")
    ks += sorted({"op:" + l.split()[0] for l in case["lines"][1:]})
    if any("lazy=1" in l for l in case["lines"]): ks.append("reload-lazy")
    if any(o.startswith("FAULT") for o in out): ks.append("fault")
    n = sum(1 for l in case["lines"] if l.startswith("add"))
    ks.append("entries:" + ("0" if n == 0 else "1-5" if n <= 5 else "6-20" if n <= 20 else "21-40"))
    return ks
