"""C01 — loading and inspecting arbitrary bytes is memory-safe and terminates.

Proof (Props/C01.lean, helper lemmas Lemmas/LoadSafety.lean; for ALL byte strings, both stream kinds,
eager and lazy, any stream state, any previous object):
 * `load_total` / `load_total_anyStream`: the loader model, whose every buffer access is a checked
   read, never faults (also with an address translation table);
 * `load_inv` (`secLoad_inv`, `segLoad_inv`): every section/segment of the result satisfies
   `LoadedSec` / `LoadedSeg`: a resident buffer is exactly the `size` input bytes at the (translated)
   offset plus the NUL terminator (`alloc 1` for size 0), data_size = size, the recorded stream size is
   the input length or SIZE_MAX (then the section is the zeroed SHT_NULL one);
 * `load_alloc_shape` / `load_alloc_bound`: every allocation request is size+1 for a range inside the
   input, hence <= len+1, with equality exactly for the range [0,len) (finding F11); hypotheses: no
   translation, len < 2^64;
 * `getData_inv` / `getData_alloc_bound`: arbitrary interleavings of section/segment get_data() and
   free_data() with arbitrary indices keep the invariants and the allocation bound (lazy loads mutate);
 * `getString_total`: the string reader is safe on every loaded section for EVERY 32-bit index and
   returns a NUL-free run of input bytes inside [0,size);
 * `LoadedSec.size_lt / resident_facts / rdRange_ok`, `exposes_only_file_bytes`: what the accessor
   families' `*_total` theorems instantiate.
 Remark: `validate` (Model/Validate.lean) is a total pure function — nothing to prove.
Partial: symbol/note/dynamic/modinfo readers and `dump` are the accessor families' theorems (C13, C12,
C14, C18 ...) instantiated with `LoadedSec`; here they are covered by correspondence only.  The theorems
are about the checked-memory model; the implementation side of memory safety is observed by sanitizers
on the generated inputs.  Termination is Lean's (all model functions are structurally recursive).
Correspondence: harness/load.cpp (real code under ASan/UBSan/_GLIBCXX_ASSERTIONS, allocation
log through operator new[](nothrow)) vs Driver/Load.lean.  Oracle: no FAULT anywhere, every logged
allocation <= len+1 (== len+1 is the open known finding F11: the NUL terminator).
"""
from families.loadcommon import *

PROPERTY = "C01"
FAMILY = "load"
LEAN_MODULE = "ElfioVerif.Props.C01"
THEOREMS = ["ElfioVerif.C01.load_total", "ElfioVerif.C01.load_total_anyStream", "ElfioVerif.C01.load_inv",
            "ElfioVerif.C01.secLoad_inv", "ElfioVerif.C01.segLoad_inv",
            "ElfioVerif.C01.load_alloc_bound", "ElfioVerif.C01.load_alloc_shape",
            "ElfioVerif.C01.getData_inv", "ElfioVerif.C01.getData_alloc_bound",
            "ElfioVerif.C01.getString_total", "ElfioVerif.C01.exposes_only_file_bytes",
            "ElfioVerif.C01.seg_exposes_only_file_bytes",
            "ElfioVerif.C01.LoadedSec.size_lt", "ElfioVerif.C01.LoadedSec.resident_facts",
            "ElfioVerif.C01.LoadedSec.rdRange_ok"]
SITES = ["conv", "is_sect_in_seg", "load_s", "sec32_load", "sec64_load", "seg32_load", "seg64_load", "validate", "find_prog"]
RULE = ("byte strings: random bytes behind each of the four valid idents; structure-aware mutations "
        "(tools/elfspec.mutate: boundary values 0,1,len-1,len,len+1,2^31,2^32-1,2^63,2^64-1 in header/table "
        "fields, bit flips, zeroed runs, truncation) of encoder-built images and of small bundled examples; the "
        "archived crash-* files; x {eager,lazy} x {string,file}; each followed by hdr, every section/segment "
        "(+1 beyond), section-name string lookups at boundary indices, validate, dump. non-trivial = load "
        "returned true or at least one section was created; distinct by md5")
ASSUMPTIONS = ["new(nothrow) succeeds for requests <= len+1", "inputs shorter than 2^64 bytes (hypothesis of the allocation bound only)"]
TRUSTED = ["ASan/UBSan/_GLIBCXX_ASSERTIONS as fault detectors on the implementation side"]
KEEP_FIRST = 1


def inspect_lines(img, rng):
    L = observe_lines(img, max_sec=24, max_seg=10)
    ns, _ = counts(img)
    for k in range(min(ns, 6)):
        for idx in (0, 1, len(img), 4294967295):
            if rng.random() < 0.3:
                L.append(f"str {k} {idx}")
    if ns <= 1500:          # validate() is quadratic in the section count: 65535 zeroed sections
        L += ["validate", "dump"]   # take minutes under ASan (it does return); not a termination issue
    return L


def gen_cases(rng, tier):
    n = 150 if tier == "quick" else 3000
    ex_small = [b for f, b in examples(20000)]
    crash = [(f, b) for f, b in examples() if f.startswith("crash")]
    k = 0
    for f, b in crash:
        for lazy in (0, 1):
            yield {"id": f"crash-{f[:14]}-{lazy}", "lines": [f"load {hx(b)} lazy={lazy} kind=str"] + inspect_lines(b, rng), "meta": {"img": b}}
    for i in range(n):
        cls, enc = CFGS[i % 4]
        r = rng.random()
        if r < 0.15:
            ident = b"\x7fELF" + bytes([1 if cls == 32 else 2, 1 if enc == "lsb" else 2, 1]) + bytes(9)
            img = ident + bytes(rng.randrange(256) for _ in range(rng.choice([0, 10, 36, 48, 64, 200, 600])))
        elif r < 0.75 or not ex_small:
            img = elfspec.mutate(rng, elfspec.encode(elfspec.random_model(rng, cls, enc)))
        else:
            img = elfspec.mutate(rng, rng.choice(ex_small))
        lazy = rng.choice([0, 1]); kind = rng.choice(["str", "str", "file"])
        yield {"id": f"m{i}", "lines": [f"load {hx(img)} lazy={lazy} kind={kind}"] + inspect_lines(img, rng), "meta": {"img": img}}
    # F11 witness: a section covering the whole file
    m = elfspec.random_model(rng, 64, "lsb", nsec=2, nseg=0)
    img = bytearray(elfspec.encode(m))
    eh = elfspec.unpack(elfspec.EHDR[64], img, 16, "lsb")
    o = eh["e_shoff"] + eh["e_shentsize"]
    img[o + 4:o + 8] = elfspec.put(1, 4, "lsb"); img[o + 24:o + 32] = elfspec.put(0, 8, "lsb"); img[o + 32:o + 40] = elfspec.put(len(img), 8, "lsb")
    img = bytes(img)
    yield {"id": "f11", "lines": [f"load {hx(img)} lazy=0 kind=str"] + observe_lines(img), "meta": {"img": img}}


def oracle(case, out):
    v = []
    img = case["meta"].get("img")
    if img is None:
        t = case["lines"][0].split(); img = bytes.fromhex(t[1]) if t[1] != "-" else b""
    for i, o in enumerate(out):
        if o.startswith("FAULT"):
            op = case["lines"][min(i, len(case["lines"]) - 1)].split()[0]
            frame = o.split()[-1] if len(o.split()) > 2 else ""
            v.append({"signature": f"fault:{op}:{frame.split(':')[0]}", "what": f"{o} during `{case['lines'][min(i, len(case['lines'])-1)][:40]}` (input {len(img)} bytes)"})
            return v
    if out and out[0].startswith("load="):
        al = kvline(out[0]).get("allocs", "-")
        if al != "-":
            for a in al.split(","):
                if int(a) > len(img) + 1:
                    v.append({"signature": "alloc:too-large", "what": f"allocation of {a} bytes for an input of {len(img)} bytes"}); break
                if int(a) == len(img) + 1:
                    v.append({"signature": "alloc:len+1", "what": f"allocation of len+1 = {a} bytes"}); break
    return v


def nontrivial(case, out):
    return bool(out) and (out[0].startswith("load=true") or any(o.startswith("idx=") for o in out))


def classify(case, out):
    ks = [x for x in case["lines"][0].split()[2:]]
    ks.append("loaded" if out and out[0].startswith("load=true") else "rejected")
    if any(o.startswith("idx=") and "data=null" not in o for o in out): ks.append("has-data")
    return ks
