"""C01 — loading and inspecting arbitrary bytes is memory-safe and terminates.

Proof (Props/C01.lean, helper lemmas Lemmas/LoadSafety.lean + Lemmas/Inspect.lean; for ALL byte strings,
both stream kinds, eager and lazy, any stream state, any previous object):
 * `load_total` / `load_total_anyStream`: the loader model, whose every buffer access is a checked
   read, never faults (also with an address translation table);
 * `load_inv` (`secLoad_inv`, `segLoad_inv`): every section/segment of the result satisfies
   `LoadedSec` / `LoadedSeg`: a resident buffer is exactly the `size` input bytes at the (translated)
   offset plus the NUL terminator (`alloc 1` for size 0), data_size = size, the recorded stream size is
   the input length (also with a translation table) or SIZE_MAX (then the section is the zeroed SHT_NULL one);
 * `load_alloc_shape` / `load_alloc_bound`: every allocation request is size+1 for a range inside the
   input, hence <= len+1, with equality exactly for the range [0,len) (finding F11); hypothesis:
   len < 2^64 — with or without an address translation table since the F16 repair (the range is the
   translated one, len the length of the stream that is read);
 * `getData_inv` / `getData_alloc_bound`: arbitrary interleavings of section/segment get_data() and
   free_data() with arbitrary indices keep the invariants and the allocation bound (lazy loads mutate);
 * `getString_total`: the string reader is safe on every loaded section for EVERY 32-bit index and
   returns a NUL-free run of input bytes inside [0,size);
 * INSPECTION (Model/Inspect.lean = what Driver/Load.lean executes for the ops notes / segnotes / dyn /
   syms / modinfo / dump):  `inspect_total`: on an object satisfying `InspInv` = the loader invariant
   `ObjInv` + valid segment member lists `MembersOk` (`load_inspInv`: `load_objInv` + `load_members`,
   Lemmas/LoadMembers.lean), input length <= 2^32-3 (`InputBound`, the bound C13's `get_note_total` needs), EVERY
   query -- header/section/segment getters and data, free_data, `str i k`, `noteNum i`/`note i k`,
   `segNoteNum j`/`segNote j k`, `dynNum i`/`dyn i k`, `symNum i`/`sym i k`, `modinfo i`/`modinfoGet i k`/
   `modinfoByName i f`, `validate`, `dump` -- with ARBITRARY section, segment and entry indices returns
   without a fault and re-establishes `InspInv`; `inspect_seq_total` / `load_inspect_total`: hence every
   finite query sequence after every load.  `dump_total`: the read trace of elfio_dump.hpp (segment_headers:
   `sections[member]` exists for every member of every segment; symbol tables:
   every symbol of every SHT_SYMTAB/DYNSYM section; notes: every note of every SHT_NOTE section and PT_NOTE
   segment incl. every descriptor byte; `.modinfo`; dynamic tags up to DT_NULL; first 64 data bytes of every
   section and segment).  It composes `load_inv`/`getData_inv` with the accessor families' models:
   notes = C13.get_note_total via `LoadedSec -> SrcOk`; NEW total-safety theorems for ARBITRARY content /
   sh_entsize / sh_size / sh_link (the families' own theorems assume well-formed tables):
   `Inspect.dyn_entriesNum_total`, `Inspect.dyn_getEntry_total` (Model/Dynamic.lean),
   `Inspect.sym_num_total`, `Inspect.sym_get_total` (Model/Symbols.lean), `Inspect.modinfo_total`
   (Model/Modinfo.lean; needs the loader's NUL terminator), `Inspect.str_sites_total` (C08's site-tied
   get_string).  The accessor models' own `SecBuf.getData` is the identity after `sections[i]->get_data()`
   (`Inspect.getData_of_settled`, `secGetData_settled`).
 * `LoadedSec.size_lt / resident_facts / rdRange_ok`, `exposes_only_file_bytes`: what the accessor
   families' `*_total` theorems instantiate.
 Remark: `validate` (Model/Validate.lean) is a total pure function — nothing to prove.
Correspondence only (not in the theorems): the TEXT the dump facility prints (dump::header / section_headers /
segment_header lines are getters only);
the symbol accessor's constructor (`find_hash_section`, getters only) and the by-name / by-value / hash
lookups (C09/C18); `ifstream` vs `istringstream` differences.  The theorems are about the checked-memory
model; the implementation side of memory safety is observed by sanitizers on the generated inputs.
Termination is Lean's (all model functions are structurally recursive; the fuel of the note walker, the
dynamic count loop and the modinfo parser is proved sufficient).
Correspondence: harness/load.cpp (real code under ASan/UBSan/_GLIBCXX_ASSERTIONS, allocation
log through operator new[](nothrow)) vs Driver/Load.lean.  Oracle: no FAULT anywhere, every logged
allocation <= len+1 (== len+1 is the open known finding F11: the NUL terminator).
"""
from families.loadcommon import *

PROPERTY = "C01"
FAMILY = "load"
LEAN_MODULE = "ElfioVerif.Props.C01"
THEOREMS = ["ElfioVerif.C01.load_total", "ElfioVerif.C01.load_total_anyStream", "ElfioVerif.C01.load_inv",
            "ElfioVerif.C01.secLoad_inv", "ElfioVerif.C01.segLoad_inv",
            "ElfioVerif.C01.load_alloc_bound", "ElfioVerif.C01.load_alloc_shape",
            "ElfioVerif.C01.getData_inv", "ElfioVerif.C01.getData_alloc_bound",
            "ElfioVerif.C01.getString_total", "ElfioVerif.C01.exposes_only_file_bytes",
            "ElfioVerif.C01.seg_exposes_only_file_bytes",
            "ElfioVerif.C01.LoadedSec.size_lt", "ElfioVerif.C01.LoadedSec.resident_facts",
            "ElfioVerif.C01.LoadedSec.rdRange_ok",
            "ElfioVerif.C01.inspect_total", "ElfioVerif.C01.inspect_seq_total", "ElfioVerif.C01.load_inspect_total",
            "ElfioVerif.C01.dump_total", "ElfioVerif.C01.load_objInv", "ElfioVerif.C01.load_inspInv",
            "ElfioVerif.load_members", "ElfioVerif.Inspect.dumpSegMembers_total",
            "ElfioVerif.Inspect.notes_total", "ElfioVerif.Inspect.dyn_entriesNum_total",
            "ElfioVerif.Inspect.dyn_getEntry_total", "ElfioVerif.Inspect.sym_num_total",
            "ElfioVerif.Inspect.sym_get_total", "ElfioVerif.Inspect.modinfo_total",
            "ElfioVerif.Inspect.str_sites_total", "ElfioVerif.Inspect.secGetData_settled",
            "ElfioVerif.Inspect.getData_of_settled"]
SITES = ["conv", "is_sect_in_seg", "load_s", "sec32_load", "sec64_load", "seg32_load", "seg64_load", "seg32_range", "seg64_range", "validate", "find_prog",
         "note_walk", "note_get", "note_num", "dyn_num", "dyn_get", "dyn32_get", "dyn64_get", "dynstr_get", "dyn_strtab",
         "sym_num", "sym32_get", "sym64_get", "str_get", "symstr_get", "mod_loop", "mod_rec", "mod_advance", "mod_value",
         "mod_get", "mod_num"]
RULE = ("byte strings: random bytes behind each of the four valid idents; structure-aware mutations "
        "(tools/elfspec.mutate: boundary values 0,1,len-1,len,len+1,2^31,2^32-1,2^63,2^64-1 in header/table "
        "fields, bit flips, zeroed runs, truncation) of encoder-built images and of small bundled examples; "
        "encoder-built images with TYPED tables (elfspec.random_model(typed=..): SHT_NOTE sections and PT_NOTE "
        "segments over them, SHT_DYNAMIC, SHT_SYMTAB/DYNSYM + SHT_STRTAB, .modinfo; contents from the *_blob "
        "builders: well-formed records plus field-level corruptions -- note namesz/descsz in {0,1,3,4,5,7,rest-12,"
        "rest-11,rest,2^31,2^32-1,..}, all residues mod 4, last note cut at structural boundaries +-1, trailing "
        "garbage; dynamic with/without DT_NULL, string offsets in/out of range; symbol st_name in/out of range; "
        "string tables unterminated/empty; modinfo without '=', without final NUL, NUL runs, empty; sh_entsize in "
        "{record size,0,1,size-1,size+1,2*size,2^31,max}, sh_link valid/self/out of range/wrapping mod 2^16), intact "
        "or mutated; one-note small scope (namesz,descsz in [0,9]^2 x every body size; sampled in quick, exhaustive "
        "in thorough) as section and as segment; the archived crash-* files; x {eager,lazy} x {string,file}; each "
        "followed by hdr, every section/segment (+1 beyond), string lookups at boundary indices, the accessor op "
        "matching each section/segment type (notes, segnotes, dyn, syms, modinfo: count + boundary indices "
        "{0,1,n-1,n,n+1,size-1,size,2^32-1,2^64-1}), accessors on sections of other types, indices beyond the tables, "
        "dump before or after them, validate. non-trivial = load returned true or at least one section was created; "
        "distinct by md5")
ASSUMPTIONS = ["new(nothrow) succeeds for requests <= len+1", "inputs shorter than 2^64 bytes (hypothesis of the allocation bound only)"]
TRUSTED = ["ASan/UBSan/_GLIBCXX_ASSERTIONS as fault detectors on the implementation side"]
KEEP_FIRST = 1


def sec_table(img, cap=64):
    """(section types+names, segment types) as the (possibly corrupted) tables of the image say"""
    try:
        ns, ng = counts(img)
        if ns > cap or ng > cap:
            return [], []
        d = elfspec.decode(img)
        if d is None:
            return [], []
        return [(s["sh_type"], s.get("name"), s["sh_size"]) for s in d["sections"]], [g["p_type"] for g in d["segments"]]
    except Exception:
        return [], []


ACC_OPS = ["notes", "dyn", "syms", "modinfo"]


def typed_lines(img, rng, p_any=0.12):
    """accessor ops chosen by section/segment type as the image declares it, a few accessors on sections of
    any other type (the property speaks about every reader on every section), indices beyond the tables"""
    secs, segs = sec_table(img)
    L = []
    for k, (ty, name, size) in enumerate(secs[:24]):
        if ty == elfspec.SHT_NOTE: L.append(f"notes {k}")
        if ty == elfspec.SHT_DYNAMIC: L.append(f"dyn {k}")
        if ty in (elfspec.SHT_SYMTAB, elfspec.SHT_DYNSYM): L.append(f"syms {k}")
        if name is not None and name.startswith(b".modinf") and size <= 16384: L.append(f"modinfo {k}")
        if ty == elfspec.SHT_STRTAB:
            for idx in (0, 1, 2, 5, 4294967295): L.append(f"str {k} {idx}")
        if rng.random() < p_any and size <= 4096:     # (the modinfo parser MODEL is quadratic in the section size)
            L.append(f"{rng.choice(ACC_OPS)} {k}")
    for j, ty in enumerate(segs[:10]):
        if ty == elfspec.PT_NOTE or rng.random() < p_any:
            L.append(f"segnotes {j}")
    if rng.random() < 0.3:
        L += [f"{rng.choice(ACC_OPS)} {len(secs) + rng.choice([0, 1, 70000])}", f"segnotes {len(segs) + rng.choice([0, 1])}"]
    return L


def inspect_lines(img, rng):
    L = observe_lines(img, max_sec=24, max_seg=10)
    ns, _ = counts(img)
    for k in range(min(ns, 6)):
        for idx in (0, 1, len(img), 4294967295):
            if rng.random() < 0.3:
                L.append(f"str {k} {idx}")
    T = typed_lines(img, rng)
    if ns <= 1500:          # validate() is quadratic in the section count: 65535 zeroed sections
        # take minutes under ASan (it does return); not a termination issue.  dump before and after the
        # accessor ops: lazily loaded sections are made resident by whichever comes first
        L += (["dump"] + T if rng.random() < 0.5 else T + ["dump"]) + ["validate"]
    else:
        L += T
    return L


def note_image(cls, enc, body, as_segment, pad=0):
    """minimal image: ELF header, `body`, `pad` foreign bytes, section headers (null, SHT_NOTE over `body`),
    optionally one PT_NOTE program header over the same bytes"""
    eh, shs, phs = elfspec.EHSIZE[cls], elfspec.SHSIZE[cls], elfspec.PHSIZE[cls]
    off = eh + (phs if as_segment else 0)
    shoff = off + len(body) + pad
    ident = b"\x7fELF" + bytes([1 if cls == 32 else 2, 1 if enc == "lsb" else 2, 1]) + bytes(9)
    ehdr = {"e_type": 1, "e_machine": 62, "e_version": 1, "e_entry": 0, "e_phoff": eh if as_segment else 0, "e_shoff": shoff,
            "e_flags": 0, "e_ehsize": eh, "e_phentsize": phs, "e_phnum": 1 if as_segment else 0, "e_shentsize": shs,
            "e_shnum": 2, "e_shstrndx": 0}
    z = {n: 0 for n, _ in elfspec.SHDR[cls]}
    sh = dict(z, sh_type=elfspec.SHT_NOTE, sh_offset=off, sh_size=len(body), sh_addralign=4)
    img = ident + elfspec.pack(elfspec.EHDR[cls], ehdr, enc)
    if as_segment:
        img += elfspec.pack(elfspec.PHDR[cls], {"p_type": elfspec.PT_NOTE, "p_flags": 4, "p_offset": off, "p_vaddr": 0, "p_paddr": 0,
                                                "p_filesz": len(body), "p_memsz": len(body), "p_align": 4}, enc)
    img += body + bytes([0xEE]) * pad + elfspec.pack(elfspec.SHDR[cls], z, enc) + elfspec.pack(elfspec.SHDR[cls], sh, enc)
    return img


def note_scope_cases(rng, tier):
    """small scope, one note: every (namesz, descsz) in [0,9]^2 x every body size from 0 to the full encoding + 2
    (the tail of the body is foreign bytes) -- all of it in the thorough tier, a random sample in the quick tier"""
    scope = []
    for nsz in range(10):
        for dsz in range(10):
            full = 12 + elfspec.up4(nsz) + elfspec.up4(dsz)
            for size in range(0, full + 3):
                scope.append((nsz, dsz, size))
    pick = scope if tier != "quick" else rng.sample(scope, 70)
    for t, (nsz, dsz, size) in enumerate(pick):
        cls, enc = CFGS[t % 4]
        seg = (t // 4) % 2 == 1
        img = note_image(cls, enc, elfspec.note_scope(enc, nsz, dsz, size), seg, pad=rng.choice([0, 0, 16]))
        lazy = rng.choice([0, 1])
        L = [f"load {hx(img)} lazy={lazy} kind=str", "notes 1"] + (["segnotes 0"] if seg else []) + ["dump", "sec 1"]
        yield {"id": f"note-{nsz}-{dsz}-{size}-{t % 4}{'g' if seg else 's'}", "lines": L, "meta": {"img": img}}


def field_off(tbl, name):
    o = 0
    for n, w in tbl:
        if n == name:
            return o, w
        o += w
    raise KeyError(name)


def wrap_cases(rng, tier):
    """file ranges whose END wraps around 2^64 (2^32 in ELF32 fields never does after widening): offset inside
    the file, size = 2^64 - offset + d.  A range test written as `offset + size > stream_size` accepts them and
    the loader then asks for ~2^64 bytes (seeded change c01-segment-range-sum-wraps); the allocation-bound
    clause of the property is what notices."""
    n = 12 if tier == "quick" else 120
    for i in range(n):
        enc = "lsb" if i % 2 == 0 else "msb"
        img = bytearray(elfspec.encode(elfspec.random_model(rng, 64, enc, nsec=rng.randint(2, 5), nseg=rng.randint(1, 3))))
        eh = elfspec.unpack(elfspec.EHDR[64], img, 16, enc)
        L = len(img)
        seg_side = i % 3 != 2 and eh["e_phnum"] > 0
        if seg_side:
            base = eh["e_phoff"] + rng.randrange(eh["e_phnum"]) * eh["e_phentsize"]
            tbl, fo, fs = elfspec.PHDR[64], "p_offset", "p_filesz"
            o, w = field_off(tbl, "p_type"); img[base + o:base + o + w] = elfspec.put(1, w, enc)
        elif eh["e_shnum"] > 1:
            base = eh["e_shoff"] + rng.randrange(1, eh["e_shnum"]) * eh["e_shentsize"]
            tbl, fo, fs = elfspec.SHDR[64], "sh_offset", "sh_size"
            o, w = field_off(tbl, "sh_type"); img[base + o:base + o + w] = elfspec.put(1, w, enc)
        else:
            continue
        if base + elfspec.SIZE(tbl) > L:
            continue
        off = rng.choice([1, 2, 64, L // 2, L - 1, L])
        size = (1 << 64) - off + rng.choice([0, 0, 1, 8, L // 2])
        o, w = field_off(tbl, fo); img[base + o:base + o + w] = elfspec.put(off, w, enc)
        o, w = field_off(tbl, fs); img[base + o:base + o + w] = elfspec.put(size, w, enc)
        img = bytes(img)
        for lazy in (0, 1):
            yield {"id": f"wrap{i}-{lazy}", "lines": [f"load {hx(img)} lazy={lazy} kind=str"] + inspect_lines(img, rng),
                   "meta": {"img": img}}


def gen_cases(rng, tier):
    n = 260 if tier == "quick" else 3000
    ex_small = [b for f, b in examples(20000)]
    crash = [(f, b) for f, b in examples() if f.startswith("crash")]
    k = 0
    for f, b in crash:
        for lazy in (0, 1):
            yield {"id": f"crash-{f[:14]}-{lazy}", "lines": [f"load {hx(b)} lazy={lazy} kind=str"] + inspect_lines(b, rng), "meta": {"img": b}}
    for i in range(n):
        cls, enc = CFGS[i % 4]
        r = rng.random()
        if r < 0.10:
            ident = b"\x7fELF" + bytes([1 if cls == 32 else 2, 1 if enc == "lsb" else 2, 1]) + bytes(9)
            img = ident + bytes(rng.randrange(256) for _ in range(rng.choice([0, 10, 36, 48, 64, 200, 600])))
        elif r < 0.55:
            # typed tables (notes, dynamic, symbols + strings, modinfo; PT_NOTE over note sections) whose contents
            # carry their own field-level corruptions; the image around them intact, or mutated as the others
            img = elfspec.encode(elfspec.random_model(rng, cls, enc, typed=0.65))
            if rng.random() < 0.5:
                img = elfspec.mutate(rng, img, n=rng.choice([1, 1, 2]))
        elif r < 0.82 or not ex_small:
            img = elfspec.mutate(rng, elfspec.encode(elfspec.random_model(rng, cls, enc)))
        else:
            img = elfspec.mutate(rng, rng.choice(ex_small))
        lazy = rng.choice([0, 1]); kind = rng.choice(["str", "str", "file"])
        yield {"id": f"m{i}", "lines": [f"load {hx(img)} lazy={lazy} kind={kind}"] + inspect_lines(img, rng), "meta": {"img": img}}
    yield from note_scope_cases(rng, tier)
    yield from wrap_cases(rng, tier)
    # F11 witness: a section covering the whole file
    m = elfspec.random_model(rng, 64, "lsb", nsec=2, nseg=0)
    img = bytearray(elfspec.encode(m))
    eh = elfspec.unpack(elfspec.EHDR[64], img, 16, "lsb")
    o = eh["e_shoff"] + eh["e_shentsize"]
    img[o + 4:o + 8] = elfspec.put(1, 4, "lsb"); img[o + 24:o + 32] = elfspec.put(0, 8, "lsb"); img[o + 32:o + 40] = elfspec.put(len(img), 8, "lsb")
    img = bytes(img)
    yield {"id": "f11", "lines": [f"load {hx(img)} lazy=0 kind=str"] + observe_lines(img), "meta": {"img": img}}


def oracle(case, out):
    v = []
    img = case["meta"].get("img")
    if img is None:
        t = case["lines"][0].split(); img = bytes.fromhex(t[1]) if t[1] != "-" else b""
    for i, o in enumerate(out):
        if o.startswith("FAULT"):
            op = case["lines"][min(i, len(case["lines"]) - 1)].split()[0]
            frame = o.split()[-1] if len(o.split()) > 2 else ""
            v.append({"signature": f"fault:{op}:{frame.split(':')[0]}", "what": f"{o} during `{case['lines'][min(i, len(case['lines'])-1)][:40]}` (input {len(img)} bytes)"})
            return v
    if out and out[0].startswith("load="):
        al = kvline(out[0]).get("allocs", "-")
        if al != "-":
            for a in al.split(","):
                if int(a) > len(img) + 1:
                    v.append({"signature": "alloc:too-large", "what": f"allocation of {a} bytes for an input of {len(img)} bytes"}); break
                if int(a) == len(img) + 1:
                    v.append({"signature": "alloc:len+1", "what": f"allocation of len+1 = {a} bytes"}); break
    return v


def nontrivial(case, out):
    return bool(out) and (out[0].startswith("load=true") or any(o.startswith("idx=") for o in out))


def classify(case, out):
    ks = [x for x in case["lines"][0].split()[2:]]
    ks.append("loaded" if out and out[0].startswith("load=true") else "rejected")
    if any(o.startswith("idx=") and "data=null" not in o for o in out): ks.append("has-data")
    import re
    for o in out:
        m = re.match(r"(notes|segnotes|dyn|syms|modinfo) n=(\d+)", o)
        if m:
            ks.append(m.group(1)); ks.append(m.group(1) + ("-nonempty" if int(m.group(2)) else "-empty"))
            if m.group(1) in ("notes", "segnotes") and re.search(r":\d+/[0-9a-f-]+/[0-9a-f]+/", o): ks.append("note-desc-read")
            if m.group(1) == "dyn" and ":true/" in o: ks.append("dyn-entry-read")
            if m.group(1) == "syms" and ":true/" in o: ks.append("sym-read")
    if any(o == "dump=ok" for o in out): ks.append("dump")
    return ks
