"""C10 — arranging local symbols partitions the table and keeps relocations on target.

Proved in Lean (Props/C10.lean) about Model/Arrange.lean — the two-cursor loop of
`generic_arrange_local_symbols<T>` on the section's *bytes* (C++ integer widths, p1/p2 as checked
buffer offsets, `std::swap` as two checked reads + two checked writes of sizeof(T) bytes, fuel n+1)
and `relocation_section_accessor::swap_symbols` (get_entry/set_entry through rdField/wrField);
every loop condition, ELF_ST_BIND test, the `first_not_local < count && current < count` decision,
`index * entry_size`, the increments, callback arguments, set_info argument, return value,
swap_symbols' comparisons, new indices and r_info packing are generated into Gen/SitesC10.lean.
For every symbol section that is resident with entsize >= sizeof(T) and fewer than 2^32-1 records
(`Ready`), both classes, both encodings, tables of any length:
  arrange_refines    the model never faults and equals the abstract partition algorithm on the
                     decoded table (Lemmas/ArrangeBytes.lean: loop_refines, table_swap)
  arrange_total      no fault: p1/p2 are dereferenced only when in range; fuel never runs out
  arrange_fuel       at most n swaps / callback invocations on n records
  arrange_perm       (tables with >= 1 record whose record 0 is local:) the records after are a
                     permutation of the records before
  arrange_partition  exists r: every index < r local, every index >= r non-local, record 0 unmoved
  arrange_ret        return value = sh_info = r = index of the first non-local record
  arrange_relocs     callback forwarded to any number of REL/RELA tables (`RelReady`: resident,
                     entsize >= sizeof, symbol indices fit r_info: 24 bits ELF32 / 32 bits ELF64):
                     same entry count, every entry keeps offset, type, addend, and
                     table'[sym'(e)] = table[sym(e)]  (relEntryAt_getEntry: these are the values the
                     model's get_entry reports)
  arrange_empty      E1 exactly as the code behaves: whenever get_symbols_num() = 0 the code returns 1
                     and sets sh_info = 1.  The property presupposes the null symbol ("stays first"):
                     recorded, not demanded.
The abstract theorems (Lemmas/Arrange.lean: absArrange_arranged, absArrange_relocs,
absArrange_isSome, over `List α` with an opaque locality predicate, by induction over the loop)
hold for all lists; Spec/Partition.lean states the post-condition from the property text.
Nothing is left `_partial`.

Correspondence: tables built with add_symbol/add_entry on the real accessors, arranged with a
lambda forwarding to `swap_symbols` of every relocation table (harness/c10.cpp), against the model
(Driver/C10.lean).  Oracle: independent Python check of partition, multiset equality, return
value / sh_info and relocation targets by content, from the case text and the transcript.

Only correspondence-checked: the table builders (`add_symbol`, `add_entry`, `add_string` — C08, C09,
C11 own them), the dump decoder, raw tables (entsize > sizeof(T), entry 0 not local), the binding
of generated expressions to their arguments (positional), lazily loaded sections (not generated).
Outside every claim: tables of >= 2^32-1 symbols (first_not_local is 32 bits wide and wraps; the
C++ loop then need not terminate), callbacks that modify the symbol section.
"""
import itertools, struct

PROPERTY = "C10"
FAMILY = "c10"
LEAN_MODULE = "ElfioVerif.Props.C10"
THEOREMS = ["ElfioVerif.C10.arrange_refines", "ElfioVerif.C10.arrange_total", "ElfioVerif.C10.arrange_fuel",
            "ElfioVerif.C10.arrange_arranged", "ElfioVerif.C10.arrange_perm", "ElfioVerif.C10.arrange_partition",
            "ElfioVerif.C10.arrange_ret", "ElfioVerif.C10.arrange_relocs", "ElfioVerif.C10.relEntryAt_getEntry",
            "ElfioVerif.C10.arrange_empty",
            "ElfioVerif.Arr.absArrange_arranged", "ElfioVerif.Arr.absArrange_relocs", "ElfioVerif.Arr.absArrange_isSome",
            "ElfioVerif.Arrange.loop_refines", "ElfioVerif.Arrange.swapSymbols_spec"]
SITES = ["arr", "rsw"]
RULE = ("exhaustively every binding pattern (local/global/weak) of 0..K symbols behind the null symbol "
        "(K=6 quick on rotating configurations + K=4 on all four, K=8 x 4 configurations thorough), each with one relocation "
        "per symbol; plus random tables of up to 60 symbols (bindings incl. OS/processor specific, duplicate records) with "
        "0-2 random relocation tables (REL and RELA, up to 40 entries, some dangling indices), with and without callback, "
        "a few raw tables (entry 0 not local, entsize > sizeof) x {ELF32,ELF64} x {LSB,MSB}. "
        "non-trivial = arranging moved at least one symbol; distinct by md5 of the case text")
ASSUMPTIONS = ["tables have fewer than 2^32-1 symbols (first_not_local is a 32-bit counter; explicit hypothesis)",
               "ELF32 relocation symbol indices fit the 24-bit r_info field (explicit hypothesis of arrange_relocs)",
               "the swap callback touches nothing but the relocation tables",
               "new(nothrow) succeeds for the sizes generated (a few KiB)"]
TRUSTED = ["table builders addSymbol/addRel of Model/Arrange.lean and the dump decoder of Driver/C10.lean are tied to the "
           "real accessors by correspondence only (C09/C11 prove them)"]
KEEP_FIRST = 1

CFGS = [(64, "lsb"), (32, "msb"), (32, "lsb"), (64, "msb")]
M32 = (1 << 32) - 1
M64 = (1 << 64) - 1


def hx(b):
    return b.hex() if b else "-"


# ------------------------------------------------------------------ generator

def sym_line(name, value, size, info, other, shndx):
    return f"sym name={hx(name)} value={value} size={size} info={info} other={other} shndx={shndx}"


def pattern_case(cid, cfg, pat, rela):
    cls, enc = cfg
    lines = [f"cfg cls={cls} enc={enc}"]
    for i, b in enumerate(pat):
        lines.append(sym_line(b"s%d" % i, 16 * i + 1, i + 1, (b << 4) | (i % 3), 0, 1 + i % 2))
    if pat:
        lines.append(f"rel kind={'rela' if rela else 'rel'}")
        for i in range(len(pat) + 1):
            lines.append(f"r off={8 * i} sym={i} type={1 + i % 5} add={i}")
    lines += ["dump", "arrange cb=1", "dump"]
    return {"id": cid, "lines": lines, "meta": {"exhaustive": True}}


def rand_name(rng):
    if rng.random() < 0.1:
        return b""
    return bytes(rng.choice(b"abcdefgh") for _ in range(rng.randint(1, 6)))


def rand_sym(rng, cls):
    k = rng.random()
    bind = 0 if k < 0.45 else 1 if k < 0.75 else 2 if k < 0.93 else rng.choice([10, 12, 13, 15])
    typ = rng.choice([0, 1, 2, 3, 4, 6])
    lim = M64 if cls == 64 or rng.random() < 0.05 else M32
    value = rng.choice([0, rng.randint(0, 0xffff), rng.randint(0, lim)])
    size = rng.choice([0, rng.randint(0, 256), rng.randint(0, lim)])
    return (rand_name(rng), value, size, (bind << 4) | typ, rng.randint(0, 3), rng.choice([0, 1, 2, 3, 7, 0xfff1]))


def random_case(rng, cid, cfg):
    cls, enc = cfg
    lines = [f"cfg cls={cls} enc={enc}"]
    k = rng.random()
    n = rng.randint(0, 3) if k < 0.1 else rng.randint(1, 16) if k < 0.6 else rng.randint(17, 60)
    pool = []
    for _ in range(n):
        if pool and rng.random() < 0.1:
            s = rng.choice(pool)            # duplicate record (same name string => same st_name? no: new string)
        else:
            s = rand_sym(rng, cls)
        pool.append(s)
        lines.append(sym_line(*s))
    ntab = rng.choice([0, 1, 1, 1, 2, 2])
    for _ in range(ntab):
        rela = rng.random() < 0.5
        lines.append(f"rel kind={'rela' if rela else 'rel'}")
        m = rng.randint(0, 6) if rng.random() < 0.4 else rng.randint(7, 40)
        for _ in range(m):
            hi = n + 1 if n else 1
            sym = rng.randrange(hi) if rng.random() < 0.95 else hi + rng.randint(0, 3)
            typ = rng.randint(0, 255) if cls == 32 or rng.random() < 0.7 else rng.randint(0, M32)
            off = rng.randint(0, M32 if cls == 32 else M64) if rng.random() < 0.3 else rng.randint(0, 4096)
            add = rng.choice([0, rng.randint(0, 1000), M64 - rng.randint(0, 1000), rng.randint(0, M64)])
            lines.append(f"r off={off} sym={sym} type={typ} add={add}")
    cb = 1 if rng.random() < 0.85 else 0
    lines += ["dump", f"arrange cb={cb}", "dump"]
    if rng.random() < 0.15:
        lines += [f"arrange cb={cb}", "dump"]      # arranging twice changes nothing
    return {"id": cid, "lines": lines, "meta": {}}


def enc_sym(cls, enc, name, value, size, info, other, shndx):
    e = "<" if enc == "lsb" else ">"
    if cls == 32:
        return struct.pack(e + "IIIBBH", name & M32, value & M32, size & M32, info & 255, other & 255, shndx & 0xffff)
    return struct.pack(e + "IBBHQQ", name & M32, info & 255, other & 255, shndx & 0xffff, value & M64, size & M64)


def raw_case(rng, cid, cfg):
    """tables written with set_data: entry 0 not local, entsize larger than the record, stray tail bytes"""
    cls, enc = cfg
    ssz = 16 if cls == 32 else 24
    n = rng.randint(1, 10)
    pad = rng.choice([0, 0, 8, 16])
    recs = b""
    for i in range(n):
        bind = rng.choice([0, 0, 1, 2])
        if i == 0 and rng.random() < 0.5:
            bind = 0
        recs += enc_sym(cls, enc, 0, rng.randint(0, 999), i, (bind << 4) | rng.randint(0, 4), 0, rng.randint(0, 5))
        recs += bytes(rng.randrange(256) for _ in range(pad))
    recs += bytes(rng.randrange(256) for _ in range(rng.choice([0, 0, 3, ssz - 1])))
    lines = [f"cfg cls={cls} enc={enc}", f"symraw {hx(recs)}", f"entsize {ssz + pad}"]
    if rng.random() < 0.2:
        lines[-1] = f"entsize {rng.choice([0, 1, ssz - 1, ssz + pad + 8])}"
    lines.append("rel kind=rela")
    for i in range(n):
        lines.append(f"r off={i} sym={rng.randrange(n + 1)} type=1 add=0")
    lines += ["dump", "arrange cb=1", "dump"]
    return {"id": cid, "lines": lines, "meta": {"raw": True}}


def gen_cases(rng, tier):
    quick = tier == "quick"
    k = 0
    # exhaustive binding patterns
    kmax_all = 4 if quick else 8
    for n in range(0, kmax_all + 1):
        for pat in itertools.product((0, 1, 2), repeat=n):
            for ci, cfg in enumerate(CFGS):
                yield pattern_case(f"x{k}", cfg, pat, (k + ci) % 2 == 0); k += 1
    if quick:
        for n in (5, 6):
            for pat in itertools.product((0, 1, 2), repeat=n):
                yield pattern_case(f"x{k}", CFGS[k % 4], pat, (k // 4) % 2 == 0); k += 1
    nrand = 600 if quick else 6000
    for i in range(nrand):
        yield random_case(rng, f"r{i}", CFGS[i % 4])
    for i in range(60 if quick else 600):
        yield raw_case(rng, f"w{i}", CFGS[i % 4])


# ------------------------------------------------------------------ oracle (independent reference)

def kvs(line):
    return dict(x.split("=", 1) for x in line.split()[1:] if "=" in x)


def sext(v, bits):
    v &= (1 << bits) - 1
    return v - (1 << bits) if v >> (bits - 1) else v


class Ref:
    """what the case text says the tables are (the ELF gABI's view, not ELFIO's code)"""

    def __init__(self, case):
        self.cls = 64; self.enc = "lsb"; self.strtab = b""; self.syms = []; self.tabs = []
        self.raw = None; self.entsize = None

    def add_string(self, s):
        if not self.strtab:
            self.strtab = b"\0"
        off = len(self.strtab)
        self.strtab += s + b"\0"
        return off

    def get_string(self, off):
        if off >= len(self.strtab):
            return b""
        end = self.strtab.find(b"\0", off)
        return b"" if end < 0 else self.strtab[off:end]

    def feed(self, line):
        t = line.split(); op = t[0]; kv = kvs(line)
        w = M32 if self.cls == 32 else M64
        if op == "cfg":
            self.cls = int(kv.get("cls", "64")); self.enc = kv.get("enc", "lsb")
            self.entsize = 16 if self.cls == 32 else 24
        elif op == "sym":
            name = bytes.fromhex(kv["name"]) if kv.get("name", "-") != "-" else b""
            if self.raw is None and not self.syms:
                self.syms.append((b"", 0, 0, 0, 0, 0, 0))
            self.add_string(name)
            info = int(kv["info"]) & 255
            self.syms.append((name, int(kv["value"]) & w, int(kv["size"]) & w, info >> 4, info & 15,
                              int(kv["shndx"]) & 0xffff, int(kv["other"]) & 255))
        elif op == "symraw":
            self.raw = bytes.fromhex(t[1]) if t[1] != "-" else b""
        elif op == "entsize":
            self.entsize = int(t[1], 0) & (M32 if self.cls == 32 else M64)
        elif op == "rel":
            self.tabs.append([kv.get("kind", "rel") == "rela", []])
        elif op == "r" and self.tabs:
            rela, ents = self.tabs[-1]
            bits = 32 if self.cls == 32 else 64
            typ = int(kv["type"]) & (255 if self.cls == 32 else M32)
            sym = int(kv["sym"]) & ((1 << 24) - 1 if self.cls == 32 else M32)
            add = sext(int(kv.get("add", "0")), bits) if rela else 0
            ents.append((int(kv["off"]) & w, sym, typ, add))

    def table(self):
        if self.raw is None:
            return list(self.syms)
        ssz = 16 if self.cls == 32 else 24
        if self.entsize < ssz:
            return []
        out = []
        e = "<" if self.enc == "lsb" else ">"
        for i in range(len(self.raw) // self.entsize):
            r = self.raw[i * self.entsize: i * self.entsize + ssz]
            if self.cls == 32:
                nm, value, size, info, other, shndx = struct.unpack(e + "IIIBBH", r)
            else:
                nm, info, other, shndx, value, size = struct.unpack(e + "IBBHQQ", r)
            out.append((self.get_string(nm), value, size, info >> 4, info & 15, shndx, other))
        return out


def parse_dump(line):
    """-> (symbols, [reloc tables]) or None"""
    t = line.split()
    if not t or not t[0].startswith("syms="):
        return None
    n = int(t[0][5:]); syms = []; i = 1
    for _ in range(n):
        f = t[i].split(":"); i += 1
        if len(f) != 7:
            syms.append(None); continue
        syms.append((bytes.fromhex(f[0]) if f[0] != "-" else b"",) + tuple(int(x) for x in f[1:]))
    tabs = []
    while i < len(t) and t[i].startswith("rels="):
        m = int(t[i][5:]); i += 1; ents = []
        for _ in range(m):
            f = t[i].split(":"); i += 1
            ents.append(tuple(int(x) for x in f) if len(f) == 4 else None)
        tabs.append(ents)
    return syms, tabs


def is_local(s):
    return s[3] == 0          # STB_LOCAL


def oracle(case, out):
    v = []
    ref = Ref(case)
    before = None; before_tabs = None      # state the last arrange started from
    pending = None                          # (ret, info, cb) of an arrange whose result dump is awaited
    cur = None; cur_tabs = None
    for i, line in enumerate(case["lines"]):
        if i >= len(out):
            break
        o = out[i]; op = line.split()[0]
        if o.startswith("FAULT"):
            return [{"signature": "fault:" + op, "what": f"memory fault / abnormal end during `{line[:60]}`: {o}"}]
        if op in ("cfg", "sym", "symraw", "entsize", "rel", "r"):
            ref.feed(line)
            cur = None
            continue
        if op == "arrange":
            f = kvs("x " + o)
            if cur is None:
                cur = ref.table(); cur_tabs = [list(e) for _, e in ref.tabs]
            before, before_tabs = cur, cur_tabs
            pending = (int(f.get("ret", -1)), int(f.get("info", -1)), kvs(line).get("cb", "1") == "1")
            continue
        if op == "dump":
            d = parse_dump(o)
            if d is None:
                v.append({"signature": "dump-unreadable", "what": o[:80]}); break
            syms, tabs = d
            if pending is None:
                # the table as built must be what the case text says
                exp = ref.table(); exp_tabs = [list(e) for _, e in ref.tabs]
                if syms != exp or tabs != exp_tabs:
                    v.append({"signature": "build-mismatch",
                              "what": f"table before arranging differs from the case text: got {str(syms)[:120]} expected {str(exp)[:120]}"})
                    break
                cur, cur_tabs = syms, tabs
                continue
            ret, info, cb = pending; pending = None
            v += check_arranged(before, before_tabs, syms, tabs, ret, info, cb)
            if v:
                break
            cur, cur_tabs = syms, tabs
    if len(out) > len(case["lines"]) and out[len(case["lines"])].startswith("FAULT"):
        v.append({"signature": "fault:end", "what": out[len(case["lines"])]})
    return v


def check_arranged(before, before_tabs, after, after_tabs, ret, info, cb):
    v = []
    n = len(before)
    if None in after:
        return [{"signature": "symbol-unreadable", "what": "get_symbol failed after arranging"}]
    if sorted(after) != sorted(before):
        v.append({"signature": "not-permutation",
                  "what": f"symbols after arranging are not the symbols before: {str(after)[:160]} vs {str(before)[:160]}"})
        return v
    if n >= 1 and is_local(before[0]):
        # the statement's domain: the null symbol exists (and is local)
        if after[0] != before[0]:
            v.append({"signature": "null-moved", "what": f"entry 0 changed: {after[0]} was {before[0]}"})
        r = next((i for i, s in enumerate(after) if not is_local(s)), n)
        bad = [i for i in range(r, n) if is_local(after[i])]
        if bad:
            v.append({"signature": "not-partitioned",
                      "what": f"local symbol at index {bad[0]} after non-local symbol at index {r}"})
        if ret != r:
            v.append({"signature": "ret-mismatch", "what": f"returned {ret}, first non-local symbol is at {r}"})
        if info != r:
            v.append({"signature": "info-mismatch", "what": f"sh_info {info}, first non-local symbol is at {r}"})
    if cb:
        if len(after_tabs) != len(before_tabs):
            v.append({"signature": "reloc-count", "what": "number of relocation tables changed"})
            return v
        for ti, (bt, at) in enumerate(zip(before_tabs, after_tabs)):
            if len(bt) != len(at):
                v.append({"signature": "reloc-count", "what": f"table {ti}: {len(at)} entries, was {len(bt)}"}); break
            for ei, (b, a) in enumerate(zip(bt, at)):
                if a is None or b is None:
                    v.append({"signature": "reloc-unreadable", "what": f"table {ti} entry {ei}"}); break
                if (a[0], a[2], a[3]) != (b[0], b[2], b[3]):
                    v.append({"signature": "reloc-fields", "what": f"table {ti} entry {ei}: {a} was {b}"}); break
                tb = before[b[1]] if b[1] < n else ("dangling", b[1])
                ta = after[a[1]] if a[1] < n else ("dangling", a[1])
                if ta != tb:
                    v.append({"signature": "reloc-retargeted",
                              "what": f"table {ti} entry {ei}: referred to {tb} (index {b[1]}), now to {ta} (index {a[1]})"})
                    break
            if v:
                break
    return v


def _dumps(out):
    return [o for o in out if o.startswith("syms=")]


def nontrivial(case, out):
    d = _dumps(out)
    return len(d) >= 2 and d[0].split(" rels=")[0] != d[1].split(" rels=")[0]


def classify(case, out):
    ks = [case["lines"][0].replace("cfg ", "").replace(" ", "/")]
    n = sum(1 for l in case["lines"] if l.startswith("sym "))
    ks.append("n=0" if n == 0 else "n<=8" if n <= 8 else "n<=24" if n <= 24 else "n<=60")
    if any(l.startswith("rel kind=rela") for l in case["lines"]): ks.append("rela")
    if any(l.startswith("rel kind=rel") and "rela" not in l for l in case["lines"]): ks.append("rel")
    if any(l == "arrange cb=0" for l in case["lines"]): ks.append("no-callback")
    if case["meta"].get("raw"): ks.append("raw-table")
    if case["meta"].get("exhaustive"): ks.append("exhaustive-pattern")
    if nontrivial(case, out): ks.append("moved")
    if any(o.startswith("FAULT") for o in out): ks.append("fault")
    return ks
